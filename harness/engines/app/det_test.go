package app_test

// Engine `det` (property C19): determinism and export/import of the whole app.
//
// One history = a chain driven through the REAL ABCI surface (InitChain / FinalizeBlock with
// signed transactions / Commit) of freshly built OsmosisApps:
//
//   node A, node B   same genesis, same blocks and transactions, executed in the same process
//                    (every Go map instance has its own random iteration seed, so the two
//                    executions already iterate every map differently); additionally node A is
//                    served read-only keeper queries between blocks (workload generation), node B
//                    never is: committed state must not depend on queries served.
//   node X           (optional) the same history in a second OS process (the test binary re-invoked
//                    with a different GOMAXPROCS / GOGC) to vary scheduling and allocation.
//   node C           initialised (InitChain) from node A's ExportAppStateAndValidators after a
//                    random block, then fed the same remaining history.
//
// Workload: a deterministic function of the seed and of node A's state (mostly valid messages):
// bank, lockup, gamm (balancer + stableswap), poolmanager swaps/split routes, concentrated
// liquidity, tokenfactory, incentives gauges, staking/distribution, with epoch boundaries (hour /
// day / week timers) and a few out-of-gas and failing transactions.
//
// Model side: the identity on canonical observations.  `det block k <digest A>` must be echoed by
// the implementation observation = digest of node B (and `det xproc` of node X, `det import` /
// `det tx` of node C).  The oracle decodes WHAT differs and reports keyed failures.

import (
	"bytes"
	"context"
	"crypto/sha256"
	"encoding/hex"
	"encoding/json"
	"fmt"
	"math/rand"
	"os"
	"os/exec"
	"path/filepath"
	"regexp"
	"sort"
	"strings"
	"testing"
	"time"

	"cosmossdk.io/log"
	sdkmath "cosmossdk.io/math"
	storetypes "cosmossdk.io/store/types"
	abci "github.com/cometbft/cometbft/abci/types"
	cmted25519 "github.com/cometbft/cometbft/crypto/ed25519"
	cmtproto "github.com/cometbft/cometbft/proto/tendermint/types"
	cmttypes "github.com/cometbft/cometbft/types"
	cosmosdb "github.com/cosmos/cosmos-db"
	"github.com/cosmos/cosmos-sdk/baseapp"
	"github.com/cosmos/cosmos-sdk/client"
	codectypes "github.com/cosmos/cosmos-sdk/codec/types"
	cryptocodec "github.com/cosmos/cosmos-sdk/crypto/codec"
	"github.com/cosmos/cosmos-sdk/crypto/keys/secp256k1"
	cryptotypes "github.com/cosmos/cosmos-sdk/crypto/types"
	sims "github.com/cosmos/cosmos-sdk/testutil/sims"
	sdk "github.com/cosmos/cosmos-sdk/types"
	"github.com/cosmos/cosmos-sdk/types/query"
	"github.com/cosmos/cosmos-sdk/types/tx/signing"
	authsign "github.com/cosmos/cosmos-sdk/x/auth/signing"
	authtypes "github.com/cosmos/cosmos-sdk/x/auth/types"
	banktypes "github.com/cosmos/cosmos-sdk/x/bank/types"
	"github.com/cosmos/cosmos-sdk/x/crisis"
	distrtypes "github.com/cosmos/cosmos-sdk/x/distribution/types"
	slashingtypes "github.com/cosmos/cosmos-sdk/x/slashing/types"
	stakingtypes "github.com/cosmos/cosmos-sdk/x/staking/types"

	"github.com/osmosis-labs/osmosis/osmomath"
	osmoapp "github.com/osmosis-labs/osmosis/v31/app"
	"github.com/osmosis-labs/osmosis/v31/wasmbinding"
	clmodel "github.com/osmosis-labs/osmosis/v31/x/concentrated-liquidity/model"
	cltypes "github.com/osmosis-labs/osmosis/v31/x/concentrated-liquidity/types"
	"github.com/osmosis-labs/osmosis/v31/x/gamm/pool-models/balancer"
	"github.com/osmosis-labs/osmosis/v31/x/gamm/pool-models/stableswap"
	gammtypes "github.com/osmosis-labs/osmosis/v31/x/gamm/types"
	incentivestypes "github.com/osmosis-labs/osmosis/v31/x/incentives/types"
	lockuptypes "github.com/osmosis-labs/osmosis/v31/x/lockup/types"
	minttypes "github.com/osmosis-labs/osmosis/v31/x/mint/types"
	poolmanagertypes "github.com/osmosis-labs/osmosis/v31/x/poolmanager/types"
	protorevtypes "github.com/osmosis-labs/osmosis/v31/x/protorev/types"
	tokenfactorytypes "github.com/osmosis-labs/osmosis/v31/x/tokenfactory/types"
	txfeestypes "github.com/osmosis-labs/osmosis/v31/x/txfees/types"
)

const detChainID = "osmosis-1"

var detDenoms = []string{"uosmo", "uion", "stake", "foo", "bar", "baz", "usdc", "eth"}

const detProtorevBase2 = "usdc" // protorev base denom beside uosmo in the chain's genesis

type detAcct struct {
	priv *secp256k1.PrivKey
	addr sdk.AccAddress
}

func detAccounts(k int) []detAcct {
	out := make([]detAcct, k)
	for i := range out {
		p := secp256k1.GenPrivKeyFromSecret([]byte(fmt.Sprintf("verif-det-user-%d", i)))
		out[i] = detAcct{p, sdk.AccAddress(p.PubKey().Address())}
	}
	return out
}

var detGenesisTime = time.Date(2025, 3, 1, 12, 0, 0, 0, time.UTC)

// detGenesis: default genesis of every module + one bonded validator + funded user accounts,
// permissionless CL pools, quote denoms, incentives distributed every day epoch.
func detGenesis(app *osmoapp.OsmosisApp, accts []detAcct) []byte {
	cdc := app.AppCodec()
	gs := osmoapp.NewDefaultGenesisState()
	valPriv := cmted25519.GenPrivKeyFromSecret([]byte("verif-det-validator"))
	val := cmttypes.NewValidator(valPriv.PubKey(), 1)

	var genAccs []authtypes.GenesisAccount
	var balances []banktypes.Balance
	supply := sdk.NewCoins()
	for _, a := range accts {
		genAccs = append(genAccs, authtypes.NewBaseAccountWithAddress(a.addr))
		var cs sdk.Coins
		for _, d := range detDenoms {
			cs = cs.Add(sdk.NewCoin(d, sdkmath.NewInt(1_000_000_000_000_000)))
		}
		balances = append(balances, banktypes.Balance{Address: a.addr.String(), Coins: cs})
		supply = supply.Add(cs...)
	}
	gs[authtypes.ModuleName] = cdc.MustMarshalJSON(authtypes.NewGenesisState(authtypes.DefaultParams(), genAccs))

	pk, _ := cryptocodec.FromCmtPubKeyInterface(val.PubKey)
	pkAny, _ := codectypes.NewAnyWithValue(pk)
	bond := sdk.DefaultPowerReduction
	validator := stakingtypes.Validator{
		OperatorAddress: sdk.ValAddress(val.Address).String(), ConsensusPubkey: pkAny, Status: stakingtypes.Bonded, Tokens: bond,
		DelegatorShares: osmomath.OneDec().MulInt(bond), UnbondingTime: time.Unix(0, 0).UTC(),
		Commission:        stakingtypes.NewCommission(osmomath.NewDecWithPrec(5, 2), osmomath.NewDecWithPrec(20, 2), osmomath.NewDecWithPrec(1, 2)),
		MinSelfDelegation: sdkmath.ZeroInt(),
	}
	deleg := stakingtypes.NewDelegation(accts[0].addr.String(), sdk.ValAddress(val.Address).String(), osmomath.OneDec().MulInt(bond))
	sp := stakingtypes.DefaultParams()
	gs[stakingtypes.ModuleName] = cdc.MustMarshalJSON(stakingtypes.NewGenesisState(sp, []stakingtypes.Validator{validator}, []stakingtypes.Delegation{deleg}))
	bondCoins := sdk.NewCoins(sdk.NewCoin(sp.BondDenom, bond))
	balances = append(balances, banktypes.Balance{Address: authtypes.NewModuleAddress(stakingtypes.BondedPoolName).String(), Coins: bondCoins})
	supply = supply.Add(bondCoins...)
	gs[banktypes.ModuleName] = cdc.MustMarshalJSON(banktypes.NewGenesisState(banktypes.DefaultGenesisState().Params, balances, supply, nil, nil))

	{
		cons := sdk.ConsAddress(val.Address)
		sg := slashingtypes.DefaultGenesisState()
		sg.SigningInfos = []slashingtypes.SigningInfo{{Address: cons.String(), ValidatorSigningInfo: slashingtypes.NewValidatorSigningInfo(cons, 0, time.Unix(0, 0).UTC(), false, 0)}}
		gs[slashingtypes.ModuleName] = cdc.MustMarshalJSON(sg)
	}
	// concentrated liquidity: permissionless creation
	{
		var g map[string]json.RawMessage
		mustUnmarshal(gs[cltypes.ModuleName], &g)
		p := cltypes.DefaultParams()
		p.IsPermissionlessPoolCreationEnabled = true
		g["params"] = cdc.MustMarshalJSON(&p)
		gs[cltypes.ModuleName] = mustMarshal(g)
	}
	{
		var g map[string]json.RawMessage
		mustUnmarshal(gs[poolmanagertypes.ModuleName], &g)
		p := poolmanagertypes.DefaultParams()
		p.AuthorizedQuoteDenoms = append(p.AuthorizedQuoteDenoms, detDenoms...)
		p.TakerFeeParams.CommunityPoolDenomWhitelist = append(p.TakerFeeParams.CommunityPoolDenomWhitelist, detDenoms[1:4]...)
		p.TakerFeeParams.CommunityPoolDenomToSwapNonWhitelistedAssetsTo = "usdc"
		p.PoolCreationFee = sdk.NewCoins(sdk.NewInt64Coin("uosmo", 1_000_000))
		p.TakerFeeParams.DefaultTakerFee = osmomath.MustNewDecFromStr("0.0015")
		g["params"] = cdc.MustMarshalJSON(&p)
		gs[poolmanagertypes.ModuleName] = mustMarshal(g)
	}
	{
		var g map[string]json.RawMessage
		mustUnmarshal(gs[incentivestypes.ModuleName], &g)
		p := incentivestypes.DefaultParams()
		p.DistrEpochIdentifier = "day"
		g["params"] = cdc.MustMarshalJSON(&p)
		gs[incentivestypes.ModuleName] = mustMarshal(g)
	}
	{
		mg := minttypes.DefaultGenesisState()
		mg.Params.EpochIdentifier = "day"
		mg.Params.ReductionPeriodInEpochs = 2
		mg.Params.ReductionFactor = osmomath.MustNewDecFromStr("0.666666666666666666")
		mg.Params.MintingRewardsDistributionStartEpoch = 1
		mg.Params.WeightedDeveloperRewardsReceivers = []minttypes.WeightedAddress{{Address: accts[2].addr.String(), Weight: osmomath.MustNewDecFromStr("0.3")},
			{Address: accts[3].addr.String(), Weight: osmomath.MustNewDecFromStr("0.3")}, {Address: "", Weight: osmomath.MustNewDecFromStr("0.4")}}
		gs[minttypes.ModuleName] = cdc.MustMarshalJSON(mg)
	}
	{
		tg := txfeestypes.DefaultGenesis()
		tg.Basedenom = "uosmo"
		tg.Params.WhitelistedFeeTokenSetters = []string{accts[0].addr.String()}
		gs[txfeestypes.ModuleName] = cdc.MustMarshalJSON(tg)
	}
	{
		// factory denoms that exist from genesis: one whose admin was renounced (empty admin: nobody can ever
		// administer it again), one administered by somebody else than its creator.  No generated tx touches them,
		// so every export must reproduce these two entries (detGenesisEntries).
		tg := tokenfactorytypes.DefaultGenesis()
		tg.FactoryDenoms = []tokenfactorytypes.GenesisDenom{
			{Denom: "factory/" + accts[0].addr.String() + "/gen0", AuthorityMetadata: tokenfactorytypes.DenomAuthorityMetadata{Admin: ""}},
			{Denom: "factory/" + accts[1].addr.String() + "/gen1", AuthorityMetadata: tokenfactorytypes.DenomAuthorityMetadata{Admin: accts[2].addr.String()}},
		}
		gs[tokenfactorytypes.ModuleName] = cdc.MustMarshalJSON(tg)
	}
	{
		pg := protorevtypes.DefaultGenesis()
		pg.Params.Admin = accts[1].addr.String()
		// a second base denom from genesis: the highest-liquidity index (base denom, denom) -> pool is then maintained for
		// pairs without uosmo as well, by the pool-creation hooks alone (no MsgSetBaseDenoms needed)
		pg.BaseDenoms = append(append([]protorevtypes.BaseDenom{}, pg.BaseDenoms...), protorevtypes.BaseDenom{Denom: detProtorevBase2, StepSize: sdkmath.NewInt(1_000_000)})
		gs[protorevtypes.ModuleName] = cdc.MustMarshalJSON(pg)
	}
	return mustMarshal(gs)
}

func mustMarshal(v any) []byte {
	b, err := json.Marshal(v)
	if err != nil {
		panic(err)
	}
	return b
}
func mustUnmarshal(b []byte, v any) {
	if err := json.Unmarshal(b, v); err != nil {
		panic(err)
	}
}

// ---------------------------------------------------------------- node

type detNode struct {
	name    string
	app     *osmoapp.OsmosisApp
	height  int64 // last committed height
	time    time.Time
	valAddr []byte
	dir     string
	fresh   bool // InitChain done, no block yet: state lives in the finalize-block state only
}

type detOpts map[string]any

func (o detOpts) Get(k string) any { return o[k] }

func newDetApp(t *testing.T, skipGenesisInvariants bool) (*osmoapp.OsmosisApp, string) {
	dir, err := os.MkdirTemp("", "verif-det-home")
	if err != nil {
		panic(err)
	}
	t.Cleanup(func() { os.RemoveAll(dir) })
	os.MkdirAll(filepath.Join(dir, "data"), 0o755)
	a := osmoapp.NewOsmosisApp(log.NewNopLogger(), cosmosdb.NewMemDB(), nil, true, map[int64]bool{}, dir, 0, detOpts{crisis.FlagSkipGenesisInvariants: skipGenesisInvariants}, osmoapp.EmptyWasmOpts, baseapp.SetChainID(detChainID))
	return a, dir
}

func newDetNode(t *testing.T, name string, accts []detAcct) *detNode {
	a, dir := newDetApp(t, false)
	gen := detGenesis(a, accts)
	_, err := a.InitChain(&abci.RequestInitChain{ConsensusParams: sims.DefaultConsensusParams, AppStateBytes: gen, ChainId: detChainID, Time: detGenesisTime, InitialHeight: 1})
	if err != nil {
		panic(err)
	}
	valPriv := cmted25519.GenPrivKeyFromSecret([]byte("verif-det-validator"))
	return &detNode{name: name, app: a, height: 0, time: detGenesisTime, valAddr: valPriv.PubKey().Address(), dir: dir, fresh: true}
}

// importDetNode builds a node from another node's exported state.
func importDetNode(t *testing.T, name string, exp exportedState, at time.Time, valAddr []byte, skipGenesisInvariants bool) (*detNode, error) {
	a, dir := newDetApp(t, skipGenesisInvariants)
	var err error
	var panicked any
	func() {
		defer func() { panicked = recover() }()
		_, err = a.InitChain(&abci.RequestInitChain{ConsensusParams: exp.consensus, AppStateBytes: exp.appState, ChainId: detChainID, Time: at, InitialHeight: exp.height})
	}()
	if panicked != nil {
		return nil, fmt.Errorf("InitChain panicked: %.600v", panicked)
	}
	if err != nil {
		return nil, err
	}
	return &detNode{name: name, app: a, height: exp.height - 1, time: at, valAddr: valAddr, dir: dir, fresh: true}, nil
}

type exportedState struct {
	appState  []byte
	height    int64
	consensus *cmtproto.ConsensusParams
	modules   map[string]json.RawMessage
}

func (n *detNode) export() (exportedState, error) {
	var e exportedState
	var err error
	var panicked any
	func() {
		defer func() { panicked = recover() }()
		if n.fresh {
			// InitChain has run but nothing is committed yet: ExportAppStateAndValidators would read the
			// (empty) committed store.  Same module-manager export, on the InitChain state.
			mm := n.app.ModuleManager()
			gs, er := mm.ExportGenesisForModules(n.readCtx(), n.app.AppCodec(), detExportModules(n.app))
			err = er
			if er == nil {
				bz, _ := json.MarshalIndent(gs, "", "  ")
				e = exportedState{appState: bz, height: n.height + 1}
			}
			return
		}
		ex, er := n.app.ExportAppStateAndValidators(false, nil, detExportModules(n.app))
		err = er
		if er == nil {
			cp := ex.ConsensusParams
			e = exportedState{appState: ex.AppState, height: ex.Height, consensus: &cp}
		}
	}()
	if panicked != nil {
		return e, fmt.Errorf("export panicked: %v", panicked)
	}
	if err != nil {
		return e, err
	}
	mustUnmarshal(e.appState, &e.modules)
	return e, nil
}

// modules excluded from export/import, with the reason.
var detExcludedModules = map[string]string{
	// ibc-go 08-wasm keeps its store service / checksum KeySet / VM in package-level globals that are
	// overwritten by every NewOsmosisApp: only the most recently built app of a process can export it
	// (any other panics inside a goroutine of ExportGenesisForModules, which cannot be recovered).
	// Its state is empty in every workload of this engine.
	"08-wasm": "package-level globals in ibc-go 08-wasm (one app instance per process)",
}

func detExportModules(a *osmoapp.OsmosisApp) []string {
	var out []string
	mm := a.ModuleManager()
	for m := range mm.Modules {
		if _, ex := detExcludedModules[m]; !ex {
			out = append(out, m)
		}
	}
	sort.Strings(out)
	return out
}

func (n *detNode) readCtx() sdk.Context {
	if n.fresh {
		return n.app.NewContextLegacy(false, cmtproto.Header{Height: n.height, Time: n.time, ChainID: detChainID})
	}
	return n.app.NewUncachedContext(false, cmtproto.Header{Height: n.height, Time: n.time, ChainID: detChainID})
}

type blockObs struct {
	appHash string
	rawLogs []string // full tx logs (a recovered panic appends a runtime stack with goroutine ids and addresses)
	txs     []string // canonical result (code/codespace/gas wanted/data/log without the runtime stack) per tx
	gas     []int64  // gas used per tx
	known   []string // per tx: key of the known finding whose witness this tx may be ("" = none): gas/log masked in digests
	txEv    []string // canonical event list per tx
	blockEv string   // begin/end block events
	misc    string   // validator updates, consensus param updates
}

var gasUsedRe = regexp.MustCompile(`gasUsed: [0-9]+`)

func (o blockObs) maskedTx(i int) (string, int64) {
	if i < len(o.known) && o.known[i] != "" {
		return gasUsedRe.ReplaceAllString(o.txs[i], "gasUsed: <masked>"), -1
	}
	return o.txs[i], o.gas[i]
}

func (o blockObs) digest() string {
	h := sha256.New()
	fmt.Fprintf(h, "app=%s\n", o.appHash)
	for i := range o.txs {
		t, g := o.maskedTx(i)
		fmt.Fprintf(h, "tx%d=%s gu=%d\nev%d=%s\n", i, t, g, i, o.txEv[i])
	}
	fmt.Fprintf(h, "bev=%s\nmisc=%s\n", o.blockEv, o.misc)
	return hex.EncodeToString(h.Sum(nil))[:32]
}

// results-only digest (no app hash, no gas used): the correspondence observation of an imported node;
// gas used is compared by the oracle (the wasm tx counter is not part of any genesis, see detExplain).
func (o blockObs) resultsDigest() string {
	h := sha256.New()
	for i := range o.txs {
		fmt.Fprintf(h, "tx%d=%s\nev%d=%s\n", i, gasUsedRe.ReplaceAllString(o.txs[i], "gasUsed: <masked>"), i, o.txEv[i])
	}
	fmt.Fprintf(h, "bev=%s\nmisc=%s\n", o.blockEv, o.misc)
	return hex.EncodeToString(h.Sum(nil))[:32]
}

func canonEvents(evs []abci.Event) string {
	var sb strings.Builder
	for _, e := range evs {
		sb.WriteString(e.Type)
		sb.WriteByte('{')
		for _, a := range e.Attributes {
			fmt.Fprintf(&sb, "%s=%s;", a.Key, a.Value)
		}
		sb.WriteByte('}')
	}
	return sb.String()
}

// deliver executes one block: FinalizeBlock + Commit.
func (n *detNode) deliver(blockTime time.Time, txs [][]byte, meta []detTx) (blockObs, error) {
	h := n.height + 1
	req := &abci.RequestFinalizeBlock{
		Height: h, Time: blockTime, Txs: txs, ProposerAddress: n.valAddr,
		DecidedLastCommit: abci.CommitInfo{Votes: []abci.VoteInfo{{Validator: abci.Validator{Address: n.valAddr, Power: 1}, BlockIdFlag: cmtproto.BlockIDFlagCommit}}},
	}
	var res *abci.ResponseFinalizeBlock
	var err error
	var panicked any
	func() {
		defer func() { panicked = recover() }()
		res, err = n.app.FinalizeBlock(req)
	}()
	if panicked != nil {
		return blockObs{}, fmt.Errorf("FinalizeBlock panicked at height %d: %v", h, panicked)
	}
	if err != nil {
		return blockObs{}, err
	}
	if _, err := n.app.Commit(); err != nil {
		return blockObs{}, err
	}
	n.height, n.time, n.fresh = h, blockTime, false
	o := blockObs{appHash: hex.EncodeToString(res.AppHash)}
	if cid := n.app.CommitMultiStore().LastCommitID(); !bytes.Equal(cid.Hash, res.AppHash) {
		o.appHash += "/commit=" + hex.EncodeToString(cid.Hash)
	}
	for _, r := range res.TxResults {
		lg := r.Log
		if i := strings.Index(lg, "\nstack:\n"); i >= 0 {
			lg = lg[:i] + " <runtime stack omitted>"
		}
		o.rawLogs = append(o.rawLogs, r.Log)
		o.txs = append(o.txs, fmt.Sprintf("code=%d cs=%s gw=%d data=%x log=%s", r.Code, r.Codespace, r.GasWanted, r.Data, lg))
		o.gas = append(o.gas, r.GasUsed)
		kn := ""
		if len(o.gas)-1 < len(meta) && r.Code == 11 {
			for _, m := range meta[len(o.gas)-1].msgs {
				if _, ok := m.(*protorevtypes.MsgSetBaseDenoms); ok {
					// (was F26, repaired by fix 94fb3c8: a recurrence is reported under this key and is no longer a known finding)
					kn = "nondeterminism:gas-at-out-of-gas:map-order:protorev.UpdatePools"
				}
			}
		}
		o.known = append(o.known, kn)
		o.txEv = append(o.txEv, canonEvents(r.Events))
	}
	o.blockEv = canonEvents(res.Events)
	var vu []string
	for _, u := range res.ValidatorUpdates {
		vu = append(vu, fmt.Sprintf("%x:%d", u.PubKey.GetEd25519(), u.Power))
	}
	o.misc = strings.Join(vu, ",")
	if res.ConsensusParamUpdates != nil {
		o.misc += "|cpu=" + res.ConsensusParamUpdates.String()
	}
	return o, nil
}

// ---------------------------------------------------------------- transactions

type detTx struct {
	signer int
	msgs   []sdk.Msg
	gas    uint64
	fee    sdk.Coins
	memo   string
	kind   string
}

func (n *detNode) sign(txc client.TxConfig, a detAcct, seqOffset uint64, tx detTx) ([]byte, error) {
	ctx := n.readCtx()
	acc := n.app.AccountKeeper.GetAccount(ctx, a.addr)
	if acc == nil {
		return nil, fmt.Errorf("no account %s", a.addr)
	}
	accNum, seq := acc.GetAccountNumber(), acc.GetSequence()+seqOffset
	signMode, err := authsign.APISignModeToInternal(txc.SignModeHandler().DefaultMode())
	if err != nil {
		return nil, err
	}
	var pk cryptotypes.PubKey = a.priv.PubKey()
	sig := signing.SignatureV2{PubKey: pk, Data: &signing.SingleSignatureData{SignMode: signMode}, Sequence: seq}
	b := txc.NewTxBuilder()
	if err := b.SetMsgs(tx.msgs...); err != nil {
		return nil, err
	}
	if err := b.SetSignatures(sig); err != nil {
		return nil, err
	}
	b.SetMemo(tx.memo)
	b.SetFeeAmount(tx.fee)
	b.SetGasLimit(tx.gas)
	sd := authsign.SignerData{Address: a.addr.String(), ChainID: detChainID, AccountNumber: accNum, Sequence: seq, PubKey: pk}
	sb, err := authsign.GetSignBytesAdapter(context.Background(), txc.SignModeHandler(), signMode, sd, b.GetTx())
	if err != nil {
		return nil, err
	}
	s, err := a.priv.Sign(sb)
	if err != nil {
		return nil, err
	}
	sig.Data.(*signing.SingleSignatureData).Signature = s
	if err := b.SetSignatures(sig); err != nil {
		return nil, err
	}
	return txc.TxEncoder()(b.GetTx())
}

func (n *detNode) signAll(accts []detAcct, txs []detTx) ([][]byte, error) {
	txc := n.app.GetTxConfig()
	used := map[int]uint64{}
	var out [][]byte
	for _, tx := range txs {
		bz, err := n.sign(txc, accts[tx.signer], used[tx.signer], tx)
		if err != nil {
			return nil, err
		}
		used[tx.signer]++
		out = append(out, bz)
	}
	return out, nil
}

// ---------------------------------------------------------------- workload generator (reads node A)

type detGen struct {
	r       *rand.Rand
	accts   []detAcct
	tfDenom map[int][]string // tokenfactory subdenoms tried per account
	forced  string           // kind of the next transaction, when the previous one asked for a follow-up
	nTf     int
	counts  map[string]int
}

func (g *detGen) pick(ws map[string]int) string {
	ks := sortedKeys(ws)
	tot := 0
	for _, k := range ks {
		tot += ws[k]
	}
	x := g.r.Intn(tot)
	for _, k := range ks {
		if x < ws[k] {
			return k
		}
		x -= ws[k]
	}
	return ks[0]
}

func (g *detGen) amount(max int64) sdkmath.Int {
	switch g.r.Intn(4) {
	case 0:
		return sdkmath.NewInt(1 + g.r.Int63n(1000))
	case 1:
		return sdkmath.NewInt(1 + g.r.Int63n(max))
	default:
		return sdkmath.NewInt(1000 + g.r.Int63n(max/10+1))
	}
}

func (g *detGen) twoDenoms() (string, string) {
	i := g.r.Intn(len(detDenoms))
	j := g.r.Intn(len(detDenoms) - 1)
	if j >= i {
		j++
	}
	a, b := detDenoms[i], detDenoms[j]
	if a > b {
		a, b = b, a
	}
	return a, b
}

type poolInfo struct {
	id     uint64
	typ    poolmanagertypes.PoolType
	denoms []string
}

func detPools(n *detNode) []poolInfo {
	ctx := n.readCtx()
	var out []poolInfo
	ok := catch(func() {
		pools, err := n.app.PoolManagerKeeper.AllPools(ctx)
		if err != nil {
			return
		}
		for _, p := range pools {
			out = append(out, poolInfo{p.GetId(), p.GetType(), p.GetPoolDenoms(ctx)})
		}
	})
	_ = ok
	return out
}

// moduleAddr: the address of a module account of the app's permission table; missing=true prefers one that has NOT been
// created yet (the app creates most module accounts lazily, on first use), else one that exists.
func (g *detGen) moduleAddr(a *detNode, missing bool) string {
	ctx := a.readCtx()
	var names []string
	for n := range osmoapp.GetMaccPerms() {
		names = append(names, n)
	}
	sort.Strings(names)
	var ex, miss []string
	for _, n := range names {
		ad := authtypes.NewModuleAddress(n)
		if a.app.AccountKeeper.HasAccount(ctx, ad) {
			ex = append(ex, ad.String())
		} else {
			miss = append(miss, ad.String())
		}
	}
	pick := ex
	if missing && len(miss) > 0 || len(ex) == 0 {
		pick = miss
	}
	return pick[g.r.Intn(len(pick))]
}

// next transaction, built from node A's current state.
func (g *detGen) nextTx(a *detNode, pools []poolInfo, si int, forceKind ...string) detTx {
	me := g.accts[si]
	ctx := a.readCtx()
	weights := map[string]int{"send": 6, "multisend": 1, "lock": 6, "unlock": 4, "unlockall": 1, "createbal": 2, "createstable": 1, "createcl": 2,
		"join": 5, "exit": 3, "joinswap": 2, "swapin": 10, "swapout": 4, "split": 3, "clpos": 7, "clwithdraw": 3, "clcollect": 3, "cladd": 1,
		"tfcreate": 2, "tfmint": 4, "tfburn": 2, "tfadmin": 2, "tfforce": 5, "tfburnfrom": 2, "gauge": 5, "addgauge": 2, "delegate": 2, "withdrawrewards": 2, "bogus": 2,
		"setfeetoken": 1, "protorevbase": 1, "revert": 3}
	if len(pools) < 3 {
		weights["createbal"], weights["createcl"], weights["createstable"] = 12, 12, 4
	}
	kind := g.pick(weights)
	if len(forceKind) > 0 && forceKind[0] != "" {
		kind = forceKind[0]
	} else if g.forced != "" {
		kind, g.forced = g.forced, ""
	}
	if kind == "revert" {
		// a transaction whose first message SUCCEEDS (mostly: creates a pool, which takes the next pool id and makes every
		// module that hooks into pool creation look the new pool up) and whose last message FAILS: the node must roll back
		// everything — stores AND whatever it keeps in memory beside them.  The next transaction creates a pool of ANOTHER
		// module, which is handed the id the reverted one had taken.
		firsts := []string{"createbal", "createbal", "createcl", "createcl", "createstable", "lock", "send", "tfcreate", "gauge"}
		inner := g.nextTx(a, pools, si, firsts[g.r.Intn(len(firsts))])
		other := g.accts[g.r.Intn(len(g.accts))]
		var bad sdk.Msg
		switch g.r.Intn(3) {
		case 0:
			bad = &banktypes.MsgSend{FromAddress: me.addr.String(), ToAddress: other.addr.String(), Amount: sdk.NewCoins(sdk.NewCoin("nonexistent", sdkmath.NewInt(5)))}
		case 1:
			bad = &gammtypes.MsgExitPool{Sender: me.addr.String(), PoolId: 9999, ShareInAmount: sdkmath.NewInt(5)}
		default:
			bad = &lockuptypes.MsgBeginUnlocking{Owner: me.addr.String(), ID: 99999}
		}
		base := strings.SplitN(inner.kind, "+", 2)[0]
		inner.msgs = append(inner.msgs, bad)
		inner.kind = "revert>" + inner.kind
		switch base {
		case "createbal", "createstable":
			g.forced = "createcl"
		case "createcl":
			g.forced = []string{"createbal", "createstable"}[g.r.Intn(2)]
		}
		return inner
	}
	tx := detTx{signer: si, gas: 950_000, kind: kind, memo: fmt.Sprintf("m%d", g.r.Intn(1000))}
	if g.r.Intn(6) == 0 {
		tx.gas = 4_000_000 // high-gas tx: higher minimum gas price
	}
	switch g.r.Intn(12) {
	case 0:
		tx.fee = nil
	case 1, 2:
		tx.fee = sdk.NewCoins(sdk.NewInt64Coin("uion", int64(tx.gas)/20)) // valid only once uion is a fee token
	default:
		tx.fee = sdk.NewCoins(sdk.NewInt64Coin("uosmo", int64(tx.gas)*3/100+g.r.Int63n(5000)))
	}
	switch g.r.Intn(25) {
	case 0:
		tx.gas = uint64(60_000 + g.r.Intn(150_000)) // runs out of gas somewhere inside the message
		tx.kind += "+lowgas"
	case 1:
		tx.gas = uint64(20_000 + g.r.Intn(30_000)) // runs out of gas in the ante handler
		tx.kind += "+antegas"
	}
	other := g.accts[g.r.Intn(len(g.accts))]
	poolsOf := func(t poolmanagertypes.PoolType) []poolInfo {
		var o []poolInfo
		for _, p := range pools {
			if p.typ == t {
				o = append(o, p)
			}
		}
		return o
	}
	anyPool := func() (poolInfo, bool) {
		if len(pools) == 0 {
			return poolInfo{}, false
		}
		return pools[g.r.Intn(len(pools))], true
	}
	fallback := func() {
		tx.msgs = []sdk.Msg{&banktypes.MsgSend{FromAddress: me.addr.String(), ToAddress: other.addr.String(), Amount: sdk.NewCoins(sdk.NewCoin("uosmo", g.amount(100000)))}}
		tx.kind += ">send"
	}
	// MsgCreateDenom consumes DenomCreationGasConsume (1,000,000) gas on top of the message itself
	tfGas := func() {
		if tx.gas >= 900_000 && tx.gas < 2_500_000 {
			tx.gas = 2_500_000
			if len(tx.fee) == 1 && tx.fee[0].Denom == "uosmo" {
				tx.fee = sdk.NewCoins(sdk.NewInt64Coin("uosmo", int64(tx.gas)*3/100+g.r.Int63n(5000)))
			}
		}
	}
	switch kind {
	case "send":
		d := detDenoms[g.r.Intn(len(detDenoms))]
		tx.msgs = []sdk.Msg{&banktypes.MsgSend{FromAddress: me.addr.String(), ToAddress: other.addr.String(), Amount: sdk.NewCoins(sdk.NewCoin(d, g.amount(1_000_000)))}}
	case "multisend":
		d := detDenoms[g.r.Intn(len(detDenoms))]
		x, y := g.amount(10000), g.amount(10000)
		o2 := g.accts[g.r.Intn(len(g.accts))]
		tx.msgs = []sdk.Msg{&banktypes.MsgMultiSend{Inputs: []banktypes.Input{{Address: me.addr.String(), Coins: sdk.NewCoins(sdk.NewCoin(d, x.Add(y)))}},
			Outputs: []banktypes.Output{{Address: other.addr.String(), Coins: sdk.NewCoins(sdk.NewCoin(d, x))}, {Address: o2.addr.String(), Coins: sdk.NewCoins(sdk.NewCoin(d, y))}}}}
	case "lock":
		// lock pool shares when we have some, else a plain denom
		bal := a.app.BankKeeper.GetAllBalances(ctx, me.addr)
		var shares []sdk.Coin
		for _, c := range bal {
			if strings.HasPrefix(c.Denom, "gamm/pool/") {
				shares = append(shares, c)
			}
		}
		durs := []time.Duration{time.Hour, 3 * time.Hour, 7 * time.Hour, 7 * time.Hour, 24 * time.Hour, 14 * 24 * time.Hour}
		dur := durs[g.r.Intn(len(durs))]
		if g.r.Intn(3) == 0 {
			dur += time.Duration(1+g.r.Intn(40)) * 7 * time.Minute
		}
		var coin sdk.Coin
		if len(shares) > 0 && g.r.Intn(4) != 0 {
			s := shares[g.r.Intn(len(shares))]
			coin = sdk.NewCoin(s.Denom, s.Amount.QuoRaw(int64(2+g.r.Intn(8))).AddRaw(1))
		} else {
			coin = sdk.NewCoin([]string{"foo", "foo", "foo", "bar", detDenoms[g.r.Intn(len(detDenoms))]}[g.r.Intn(5)], g.amount(1_000_000))
		}
		tx.msgs = []sdk.Msg{&lockuptypes.MsgLockTokens{Owner: me.addr.String(), Duration: dur, Coins: sdk.NewCoins(coin)}}
	case "unlock":
		locks := a.app.LockupKeeper.GetAccountPeriodLocks(ctx, me.addr)
		if len(locks) == 0 {
			fallback()
			break
		}
		l := locks[g.r.Intn(len(locks))]
		var coins sdk.Coins
		if g.r.Intn(2) == 0 && len(l.Coins) > 0 {
			coins = sdk.NewCoins(sdk.NewCoin(l.Coins[0].Denom, l.Coins[0].Amount.QuoRaw(2).AddRaw(1)))
		}
		tx.msgs = []sdk.Msg{&lockuptypes.MsgBeginUnlocking{Owner: me.addr.String(), ID: l.ID, Coins: coins}}
	case "unlockall":
		tx.msgs = []sdk.Msg{&lockuptypes.MsgBeginUnlockingAll{Owner: me.addr.String()}}
	case "createbal":
		d0, d1 := g.twoDenoms()
		assets := []balancer.PoolAsset{{Weight: sdkmath.NewInt(int64(1 + g.r.Intn(5))), Token: sdk.NewCoin(d0, g.amount(10_000_000).AddRaw(100000))},
			{Weight: sdkmath.NewInt(int64(1 + g.r.Intn(5))), Token: sdk.NewCoin(d1, g.amount(10_000_000).AddRaw(100000))}}
		fee := []string{"0", "0.001", "0.003", "0.01"}[g.r.Intn(4)]
		m := balancer.NewMsgCreateBalancerPool(me.addr, balancer.PoolParams{SwapFee: osmomath.MustNewDecFromStr(fee), ExitFee: osmomath.ZeroDec()}, assets, "")
		tx.msgs = []sdk.Msg{&m}
	case "createstable":
		d0, d1 := g.twoDenoms()
		liq := sdk.NewCoins(sdk.NewCoin(d0, sdkmath.NewInt(1_000_000+g.r.Int63n(1_000_000))), sdk.NewCoin(d1, sdkmath.NewInt(1_000_000+g.r.Int63n(1_000_000))))
		m := stableswap.NewMsgCreateStableswapPool(me.addr, stableswap.PoolParams{SwapFee: osmomath.MustNewDecFromStr("0.001"), ExitFee: osmomath.ZeroDec()}, liq, []uint64{1, 1}, "")
		tx.msgs = []sdk.Msg{&m}
	case "createcl":
		d0, d1 := g.twoDenoms()
		if g.r.Intn(2) == 0 {
			d0, d1 = d1, d0
		}
		ts := []uint64{1, 10, 100, 1000}[g.r.Intn(4)]
		sf := []string{"0", "0.0001", "0.0005", "0.001", "0.002", "0.003"}[g.r.Intn(6)]
		tx.msgs = []sdk.Msg{&clmodel.MsgCreateConcentratedPool{Sender: me.addr.String(), Denom0: d0, Denom1: d1, TickSpacing: ts, SpreadFactor: osmomath.MustNewDecFromStr(sf)}}
	case "join", "exit", "joinswap":
		ps := append(poolsOf(poolmanagertypes.Balancer), poolsOf(poolmanagertypes.Stableswap)...)
		if len(ps) == 0 {
			fallback()
			break
		}
		p := ps[g.r.Intn(len(ps))]
		switch kind {
		case "join":
			var maxs sdk.Coins
			for _, d := range p.denoms {
				maxs = maxs.Add(sdk.NewCoin(d, sdkmath.NewInt(1_000_000_000_000)))
			}
			share := sdkmath.NewInt(1 + g.r.Int63n(1_000_000)).Mul(sdkmath.NewInt(1_000_000_000_000))
			tx.msgs = []sdk.Msg{&gammtypes.MsgJoinPool{Sender: me.addr.String(), PoolId: p.id, ShareOutAmount: share, TokenInMaxs: maxs}}
		case "exit":
			sh := a.app.BankKeeper.GetBalance(ctx, me.addr, gammtypes.GetPoolShareDenom(p.id))
			if !sh.Amount.IsPositive() {
				fallback()
				break
			}
			tx.msgs = []sdk.Msg{&gammtypes.MsgExitPool{Sender: me.addr.String(), PoolId: p.id, ShareInAmount: sh.Amount.QuoRaw(int64(2 + g.r.Intn(6))).AddRaw(1), TokenOutMins: nil}}
		case "joinswap":
			d := p.denoms[g.r.Intn(len(p.denoms))]
			tx.msgs = []sdk.Msg{&gammtypes.MsgJoinSwapExternAmountIn{Sender: me.addr.String(), PoolId: p.id, TokenIn: sdk.NewCoin(d, g.amount(100000)), ShareOutMinAmount: sdkmath.OneInt()}}
		}
	case "swapin", "swapout":
		p, ok := anyPool()
		if !ok || len(p.denoms) < 2 {
			fallback()
			break
		}
		i := g.r.Intn(len(p.denoms))
		j := (i + 1 + g.r.Intn(len(p.denoms)-1)) % len(p.denoms)
		in, out := p.denoms[i], p.denoms[j]
		routesIn := []poolmanagertypes.SwapAmountInRoute{{PoolId: p.id, TokenOutDenom: out}}
		// sometimes a second hop
		if g.r.Intn(3) == 0 {
			for _, q := range pools {
				if q.id != p.id && len(q.denoms) >= 2 {
					for k, d := range q.denoms {
						if d == out {
							o2 := q.denoms[(k+1)%len(q.denoms)]
							routesIn = append(routesIn, poolmanagertypes.SwapAmountInRoute{PoolId: q.id, TokenOutDenom: o2})
							break
						}
					}
					if len(routesIn) == 2 {
						break
					}
				}
			}
		}
		if kind == "swapin" {
			tx.msgs = []sdk.Msg{&poolmanagertypes.MsgSwapExactAmountIn{Sender: me.addr.String(), Routes: routesIn, TokenIn: sdk.NewCoin(in, g.amount(200000)), TokenOutMinAmount: sdkmath.OneInt()}}
		} else {
			tx.msgs = []sdk.Msg{&poolmanagertypes.MsgSwapExactAmountOut{Sender: me.addr.String(), Routes: []poolmanagertypes.SwapAmountOutRoute{{PoolId: p.id, TokenInDenom: in}},
				TokenOut: sdk.NewCoin(out, g.amount(20000)), TokenInMaxAmount: sdkmath.NewInt(1_000_000_000_000)}}
		}
	case "split":
		// two single-hop routes for the same denom pair when two pools share it
		var found [][2]poolInfo
		for x := 0; x < len(pools); x++ {
			for y := x + 1; y < len(pools); y++ {
				if len(pools[x].denoms) == 2 && len(pools[y].denoms) == 2 && pools[x].denoms[0] == pools[y].denoms[0] && pools[x].denoms[1] == pools[y].denoms[1] {
					found = append(found, [2]poolInfo{pools[x], pools[y]})
				}
			}
		}
		if len(found) == 0 {
			fallback()
			break
		}
		pr := found[g.r.Intn(len(found))]
		in, out := pr[0].denoms[0], pr[0].denoms[1]
		if g.r.Intn(2) == 0 {
			in, out = out, in
		}
		tx.msgs = []sdk.Msg{&poolmanagertypes.MsgSplitRouteSwapExactAmountIn{Sender: me.addr.String(), TokenInDenom: in, TokenOutMinAmount: sdkmath.OneInt(),
			Routes: []poolmanagertypes.SwapAmountInSplitRoute{
				{Pools: []poolmanagertypes.SwapAmountInRoute{{PoolId: pr[0].id, TokenOutDenom: out}}, TokenInAmount: g.amount(50000)},
				{Pools: []poolmanagertypes.SwapAmountInRoute{{PoolId: pr[1].id, TokenOutDenom: out}}, TokenInAmount: g.amount(50000)}}}}
	case "clpos":
		ps := poolsOf(poolmanagertypes.Concentrated)
		if len(ps) == 0 {
			fallback()
			break
		}
		p := ps[g.r.Intn(len(ps))]
		pool, err := a.app.ConcentratedLiquidityKeeper.GetConcentratedPoolById(ctx, p.id)
		if err != nil {
			fallback()
			break
		}
		sp := int64(pool.GetTickSpacing())
		cur := pool.GetCurrentTick()
		var lo, hi int64
		switch g.r.Intn(5) {
		case 0: // full range
			lo, hi = cltypes.MinInitializedTick, cltypes.MaxTick
			lo = lo / sp * sp
			hi = hi / sp * sp
		case 1: // above
			lo = (cur/sp + 1 + int64(g.r.Intn(50))) * sp
			hi = lo + int64(1+g.r.Intn(500))*sp
		case 2: // below
			hi = (cur/sp - 1 - int64(g.r.Intn(50))) * sp
			lo = hi - int64(1+g.r.Intn(500))*sp
		default: // straddling
			lo = (cur/sp - int64(1+g.r.Intn(2000))) * sp
			hi = (cur/sp + int64(1+g.r.Intn(2000))) * sp
		}
		toks := sdk.NewCoins(sdk.NewCoin(pool.GetToken0(), g.amount(5_000_000)), sdk.NewCoin(pool.GetToken1(), g.amount(5_000_000)))
		tx.msgs = []sdk.Msg{&cltypes.MsgCreatePosition{PoolId: p.id, Sender: me.addr.String(), LowerTick: lo, UpperTick: hi, TokensProvided: toks, TokenMinAmount0: sdkmath.ZeroInt(), TokenMinAmount1: sdkmath.ZeroInt()}}
	case "clwithdraw", "clcollect", "cladd":
		pos, err := a.app.ConcentratedLiquidityKeeper.GetUserPositions(ctx, me.addr, 0)
		if err != nil || len(pos) == 0 {
			fallback()
			break
		}
		p := pos[g.r.Intn(len(pos))]
		switch kind {
		case "clwithdraw":
			liq := p.Liquidity
			if g.r.Intn(2) == 0 {
				liq = liq.QuoInt64(int64(2 + g.r.Intn(5)))
			}
			tx.msgs = []sdk.Msg{&cltypes.MsgWithdrawPosition{PositionId: p.PositionId, Sender: me.addr.String(), LiquidityAmount: liq}}
		case "clcollect":
			var ids []uint64
			for _, q := range pos {
				if g.r.Intn(2) == 0 || q.PositionId == p.PositionId {
					ids = append(ids, q.PositionId)
				}
			}
			if g.r.Intn(2) == 0 {
				tx.msgs = []sdk.Msg{&cltypes.MsgCollectSpreadRewards{PositionIds: ids, Sender: me.addr.String()}}
			} else {
				tx.msgs = []sdk.Msg{&cltypes.MsgCollectIncentives{PositionIds: ids, Sender: me.addr.String()}}
			}
		case "cladd":
			tx.msgs = []sdk.Msg{&cltypes.MsgAddToPosition{PositionId: p.PositionId, Sender: me.addr.String(), Amount0: g.amount(100000), Amount1: g.amount(100000), TokenMinAmount0: sdkmath.ZeroInt(), TokenMinAmount1: sdkmath.ZeroInt()}}
		}
	case "tfcreate":
		tfGas()
		sub := fmt.Sprintf("tok%d", g.nTf)
		g.nTf++
		g.tfDenom[si] = append(g.tfDenom[si], sub)
		tx.msgs = []sdk.Msg{&tokenfactorytypes.MsgCreateDenom{Sender: me.addr.String(), Subdenom: sub}}
	case "tfmint", "tfburn", "tfadmin", "tfforce", "tfburnfrom":
		if len(g.tfDenom[si]) == 0 {
			sub := fmt.Sprintf("tok%d", g.nTf)
			g.nTf++
			g.tfDenom[si] = append(g.tfDenom[si], sub)
			tx.msgs = []sdk.Msg{&tokenfactorytypes.MsgCreateDenom{Sender: me.addr.String(), Subdenom: sub}}
			tx.kind += ">tfcreate"
			tfGas()
			break
		}
		denom := "factory/" + me.addr.String() + "/" + g.tfDenom[si][g.r.Intn(len(g.tfDenom[si]))]
		switch kind {
		case "tfmint":
			to := ""
			switch g.r.Intn(10) {
			case 0, 1, 2, 3:
				to = other.addr.String()
			case 4, 5: // a module account as receiver (refused): one that exists, one that has not been created yet
				to = g.moduleAddr(a, g.r.Intn(2) == 0)
				tx.kind += ">module"
			}
			tx.msgs = []sdk.Msg{&tokenfactorytypes.MsgMint{Sender: me.addr.String(), Amount: sdk.NewCoin(denom, g.amount(1_000_000)), MintToAddress: to}}
		case "tfforce":
			// MsgForceTransfer by the denom's admin.  The keeper walks EVERY module account name of the app (GetModuleAccount: a
			// gas-charged read that CREATES a missing module account with the next account number) and refuses when the source
			// or the destination is one of them.  Sources / destinations: users, module accounts that exist, module accounts
			// not created yet; the plausible transfers are preceded by a mint of the amount to the source.
			amt := sdk.NewCoin(denom, g.amount(1000))
			from, to := me.addr.String(), other.addr.String()
			mintFirst := false
			switch g.r.Intn(12) {
			case 0, 1, 2, 3:
				mintFirst = true
			case 4:
				from, to = other.addr.String(), me.addr.String()
				mintFirst = g.r.Intn(2) == 0
			case 5:
				from = g.moduleAddr(a, true)
			case 6:
				from = g.moduleAddr(a, false)
			case 7:
				to = g.moduleAddr(a, true)
			case 8:
				to = g.moduleAddr(a, false)
			case 9:
				from, to = g.moduleAddr(a, false), g.moduleAddr(a, true)
			case 10:
				to = from
				mintFirst = true
			}
			if from != me.addr.String() && from != other.addr.String() || to != me.addr.String() && to != other.addr.String() {
				tx.kind += ">module"
			}
			if mintFirst {
				tx.msgs = append(tx.msgs, &tokenfactorytypes.MsgMint{Sender: me.addr.String(), Amount: amt, MintToAddress: from})
			}
			tx.msgs = append(tx.msgs, &tokenfactorytypes.MsgForceTransfer{Sender: me.addr.String(), Amount: amt, TransferFromAddress: from, TransferToAddress: to})
			if mintFirst && g.r.Intn(4) == 0 { // now and then the transfer BEFORE the mint that would fund it
				tx.msgs[0], tx.msgs[1] = tx.msgs[1], tx.msgs[0]
			}
		case "tfburnfrom":
			amt := sdk.NewCoin(denom, g.amount(1000))
			from := other.addr.String()
			switch g.r.Intn(6) {
			case 0:
				from = g.moduleAddr(a, true)
				tx.kind += ">module"
			case 1:
				from = g.moduleAddr(a, false)
				tx.kind += ">module"
			case 2:
				from = me.addr.String()
			}
			if g.r.Intn(3) != 0 {
				tx.msgs = append(tx.msgs, &tokenfactorytypes.MsgMint{Sender: me.addr.String(), Amount: amt, MintToAddress: from})
			}
			tx.msgs = append(tx.msgs, &tokenfactorytypes.MsgBurn{Sender: me.addr.String(), Amount: amt, BurnFromAddress: from})
		case "tfburn":
			tx.msgs = []sdk.Msg{&tokenfactorytypes.MsgBurn{Sender: me.addr.String(), Amount: sdk.NewCoin(denom, g.amount(1000)), BurnFromAddress: ""}}
		case "tfadmin":
			na := other.addr.String()
			if g.r.Intn(6) == 0 {
				na = "" // rejected by ValidateBasic (a transaction cannot renounce; an admin-less denom exists only from genesis)
				tx.kind += ">renounce"
			}
			tx.msgs = []sdk.Msg{&tokenfactorytypes.MsgChangeAdmin{Sender: me.addr.String(), Denom: denom, NewAdmin: na}}
		}
	case "gauge":
		ps := append(poolsOf(poolmanagertypes.Balancer), poolsOf(poolmanagertypes.Stableswap)...)
		cls := poolsOf(poolmanagertypes.Concentrated)
		reward := sdk.NewCoins(sdk.NewCoin("uosmo", g.amount(1_000_000).AddRaw(10000)))
		if g.r.Intn(4) == 0 { // other denoms need a protorev route to be valued
			reward = reward.Add(sdk.NewCoin(detDenoms[g.r.Intn(len(detDenoms))], g.amount(100_000)))
		}
		perpetual := g.r.Intn(3) == 0
		epochs := uint64(1)
		if !perpetual {
			epochs = uint64(1 + g.r.Intn(4))
		}
		if len(cls) > 0 && g.r.Intn(3) == 0 {
			p := cls[g.r.Intn(len(cls))]
			tx.msgs = []sdk.Msg{&incentivestypes.MsgCreateGauge{IsPerpetual: perpetual, Owner: me.addr.String(), DistributeTo: lockuptypes.QueryCondition{LockQueryType: lockuptypes.NoLock, Duration: cltypes.DefaultAuthorizedUptimes[0]},
				Coins: reward, StartTime: a.time, NumEpochsPaidOver: epochs, PoolId: p.id}}
			break
		}
		denom := []string{"foo", "foo", "bar", detDenoms[g.r.Intn(len(detDenoms))]}[g.r.Intn(4)]
		if len(ps) > 0 && g.r.Intn(3) == 0 {
			denom = gammtypes.GetPoolShareDenom(ps[g.r.Intn(len(ps))].id)
		}
		durs := []time.Duration{time.Hour, time.Hour, 3 * time.Hour, 7 * time.Hour, 24 * time.Hour}
		tx.msgs = []sdk.Msg{&incentivestypes.MsgCreateGauge{IsPerpetual: perpetual, Owner: me.addr.String(),
			DistributeTo: lockuptypes.QueryCondition{LockQueryType: lockuptypes.ByDuration, Denom: denom, Duration: durs[g.r.Intn(len(durs))]},
			Coins:        reward, StartTime: a.time.Add(time.Duration(g.r.Intn(3)) * time.Hour), NumEpochsPaidOver: epochs}}
	case "addgauge":
		gs := a.app.IncentivesKeeper.GetNotFinishedGauges(ctx)
		if len(gs) == 0 {
			fallback()
			break
		}
		ga := gs[g.r.Intn(len(gs))]
		tx.msgs = []sdk.Msg{&incentivestypes.MsgAddToGauge{Owner: me.addr.String(), GaugeId: ga.Id, Rewards: sdk.NewCoins(sdk.NewCoin([]string{"uosmo", "uosmo", "uosmo", "uion", "usdc"}[g.r.Intn(5)], g.amount(100_000).AddRaw(10000)))}}
	case "delegate":
		vals, err := a.app.StakingKeeper.GetAllValidators(ctx)
		if err != nil || len(vals) == 0 {
			fallback()
			break
		}
		tx.msgs = []sdk.Msg{&stakingtypes.MsgDelegate{DelegatorAddress: me.addr.String(), ValidatorAddress: vals[0].OperatorAddress, Amount: sdk.NewCoin("stake", g.amount(1_000_000))}}
	case "withdrawrewards":
		vals, err := a.app.StakingKeeper.GetAllValidators(ctx)
		if err != nil || len(vals) == 0 {
			fallback()
			break
		}
		tx.msgs = []sdk.Msg{&distrtypes.MsgWithdrawDelegatorReward{DelegatorAddress: me.addr.String(), ValidatorAddress: vals[0].OperatorAddress}}
	case "setfeetoken":
		// only account 0 is whitelisted; others fail.  A fee token needs a balancer pool with uosmo.
		var cands []poolmanagertypes.SwapAmountInRoute
		for _, p := range poolsOf(poolmanagertypes.Balancer) {
			if len(p.denoms) == 2 && (p.denoms[0] == "uosmo" || p.denoms[1] == "uosmo") {
				d := p.denoms[0]
				if d == "uosmo" {
					d = p.denoms[1]
				}
				cands = append(cands, poolmanagertypes.SwapAmountInRoute{PoolId: p.id, TokenOutDenom: d})
			}
		}
		if len(cands) == 0 {
			fallback()
			break
		}
		c := cands[g.r.Intn(len(cands))]
		if g.r.Intn(3) != 0 {
			tx.signer, si, me = 0, 0, g.accts[0]
		}
		tx.msgs = []sdk.Msg{&txfeestypes.MsgSetFeeTokens{Sender: me.addr.String(), FeeTokens: []txfeestypes.FeeToken{{Denom: c.TokenOutDenom, PoolID: c.PoolId}}}}
	case "protorevbase":
		if g.r.Intn(3) != 0 {
			tx.signer, si, me = 1, 1, g.accts[1]
		}
		bds := []protorevtypes.BaseDenom{{Denom: "uosmo", StepSize: sdkmath.NewInt(1_000_000)}}
		for _, d := range detDenoms[1:] {
			if g.r.Intn(2) == 0 {
				bds = append(bds, protorevtypes.BaseDenom{Denom: d, StepSize: sdkmath.NewInt(int64(1000 * (1 + g.r.Intn(1000))))})
			}
		}
		tx.msgs = []sdk.Msg{&protorevtypes.MsgSetBaseDenoms{Admin: me.addr.String(), BaseDenoms: bds}}
	case "bogus":
		// messages that must fail: unknown pool / lock, zero amounts, someone else's lock
		switch g.r.Intn(4) {
		case 0:
			tx.msgs = []sdk.Msg{&gammtypes.MsgExitPool{Sender: me.addr.String(), PoolId: 9999, ShareInAmount: sdkmath.NewInt(5)}}
		case 1:
			tx.msgs = []sdk.Msg{&lockuptypes.MsgBeginUnlocking{Owner: me.addr.String(), ID: 99999}}
		case 2:
			tx.msgs = []sdk.Msg{&banktypes.MsgSend{FromAddress: me.addr.String(), ToAddress: other.addr.String(), Amount: sdk.NewCoins(sdk.NewCoin("nonexistent", sdkmath.NewInt(5)))}}
		default:
			tx.msgs = []sdk.Msg{&protorevtypes.MsgSetMaxPoolPointsPerTx{Admin: me.addr.String(), MaxPoolPointsPerTx: 5}}
		}
	}
	if len(tx.msgs) == 0 {
		fallback()
	}
	// two messages in one tx now and then (atomicity across messages)
	if g.r.Intn(8) == 0 {
		tx.msgs = append(tx.msgs, &banktypes.MsgSend{FromAddress: me.addr.String(), ToAddress: other.addr.String(), Amount: sdk.NewCoins(sdk.NewCoin("uion", g.amount(1000)))})
		tx.kind += "+send"
	}
	return tx
}

// ---------------------------------------------------------------- canonical JSON

func canonJSON(raw []byte) string {
	var v any
	d := json.NewDecoder(bytes.NewReader(raw))
	d.UseNumber()
	if err := d.Decode(&v); err != nil {
		return "<invalid json: " + err.Error() + ">"
	}
	b, _ := json.Marshal(v) // map keys sorted by encoding/json
	return string(b)
}

func shortDigest(s string) string {
	h := sha256.Sum256([]byte(s))
	return hex.EncodeToString(h[:])[:32]
}

// firstDiff locates the first differing JSON path of two canonical documents (for reports).
func firstDiff(a, b any, path string) string {
	switch x := a.(type) {
	case map[string]any:
		y, ok := b.(map[string]any)
		if !ok {
			return path + ": type"
		}
		ks := map[string]bool{}
		for k := range x {
			ks[k] = true
		}
		for k := range y {
			ks[k] = true
		}
		var keys []string
		for k := range ks {
			keys = append(keys, k)
		}
		sort.Strings(keys)
		for _, k := range keys {
			xv, xo := x[k]
			yv, yo := y[k]
			if !xo || !yo {
				return fmt.Sprintf("%s.%s: present %v vs %v", path, k, xo, yo)
			}
			if d := firstDiff(xv, yv, path+"."+k); d != "" {
				return d
			}
		}
		return ""
	case []any:
		y, ok := b.([]any)
		if !ok {
			return path + ": type"
		}
		if len(x) != len(y) {
			return fmt.Sprintf("%s: len %d vs %d", path, len(x), len(y))
		}
		for i := range x {
			if d := firstDiff(x[i], y[i], fmt.Sprintf("%s[%d]", path, i)); d != "" {
				return d
			}
		}
		return ""
	default:
		if fmt.Sprint(a) != fmt.Sprint(b) {
			return fmt.Sprintf("%s: %.80v vs %.80v", path, a, b)
		}
		return ""
	}
}

func jsonDiff(a, b []byte) string {
	var x, y any
	da := json.NewDecoder(bytes.NewReader(a))
	da.UseNumber()
	db := json.NewDecoder(bytes.NewReader(b))
	db.UseNumber()
	_ = da.Decode(&x)
	_ = db.Decode(&y)
	return firstDiff(x, y, "")
}

// ---------------------------------------------------------------- engine

func detBlockTimes(r *rand.Rand, n int) []time.Duration {
	out := make([]time.Duration, n)
	for i := range out {
		switch x := r.Intn(20); {
		case x == 0:
			out[i] = 24*time.Hour + time.Duration(r.Intn(3600))*time.Second // day (+hour) epoch boundary
		case x == 1:
			out[i] = time.Hour + time.Duration(r.Intn(600))*time.Second // hour epoch
		case x == 2:
			out[i] = 3*24*time.Hour + time.Minute // several epochs due at once (one tick per block)
		case x == 3:
			out[i] = time.Nanosecond
		default:
			out[i] = time.Duration(1+r.Intn(10)) * time.Second
		}
	}
	return out
}

func runDet(t *testing.T, seed int64, n int, dir string) {
	if os.Getenv("VERIF_DET_CHILD") != "" {
		runDetChild(t, seed, n, dir)
		return
	}
	o := NewOut(dir)
	accts := detAccounts(12)

	// second OS process (different scheduling): started first, runs concurrently
	var child *exec.Cmd
	childDir := filepath.Join(dir, "child")
	if os.Getenv("VERIF_DET_NOCHILD") == "" {
		os.MkdirAll(childDir, 0o755)
		child = exec.Command(os.Args[0], "-test.run", "TestEngine", "-test.count=1", "-test.timeout=0")
		child.Env = append(os.Environ(), "VERIF_DET_CHILD=1", "VERIF_OUT="+childDir, "GOMAXPROCS=2", "GOGC=25")
		child.Stdout, child.Stderr = nil, nil
		if err := child.Start(); err != nil {
			child = nil
		}
	}

	blocksPerHistory := 40
	if n < blocksPerHistory {
		blocksPerHistory = n
	}
	var digestsA []string // every block of every history, in order (compared with the child)
	done := 0
	hist := 0
	for done < n {
		hseed := seed*7919 + int64(hist)
		nb := blocksPerHistory
		if n-done < nb {
			nb = n - done
		}
		if only := os.Getenv("VERIF_DET_ONLYHIST"); only != "" && only != fmt.Sprint(hist) {
			done += nb
			hist++
			continue
		}
		ds := runDetHistory(t, o, accts, hseed, hist, nb)
		digestsA = append(digestsA, ds...)
		done += nb
		hist++
	}

	// static probes of the audited ORDER-DEPENDENT sites (they are not reached by any message)
	detProbes(t, o)

	if child != nil {
		err := child.Wait()
		b, rerr := os.ReadFile(filepath.Join(childDir, "digests.txt"))
		if err != nil || rerr != nil {
			o.Fail("harness:child-process-failed", fmt.Sprintf("%v %v", err, rerr))
		} else {
			lines := strings.Split(strings.TrimSpace(string(b)), "\n")
			for i, d := range digestsA {
				got := "<missing>"
				if i < len(lines) {
					got = lines[i]
				}
				o.Emit(fmt.Sprintf("det xproc %d %s", i, d), got, true)
				if got != d {
					o.Fail("nondeterminism:cross-process:block", fmt.Sprintf("global block index %d: this process %s, child process (GOMAXPROCS=2, GOGC=25) %s", i, d, got))
				}
			}
			o.Count("xproc.blocks")
		}
	}
	o.Close(nil)
}

// child mode: run only node A of every history and write the per-block digests.
func runDetChild(t *testing.T, seed int64, n int, dir string) {
	accts := detAccounts(12)
	var all []string
	blocksPerHistory := 40
	if n < blocksPerHistory {
		blocksPerHistory = n
	}
	done, hist := 0, 0
	for done < n {
		hseed := seed*7919 + int64(hist)
		nb := blocksPerHistory
		if n-done < nb {
			nb = n - done
		}
		r := rand.New(rand.NewSource(hseed))
		a := newDetNode(t, "X", accts)
		g := &detGen{r: r, accts: accts, tfDenom: map[int][]string{}, counts: map[string]int{}}
		gaps := detBlockTimes(r, nb)
		exportAt := 3 + r.Intn(maxInt(1, nb-6))
		_ = exportAt
		for k := 0; k < nb; k++ {
			txs := detGenBlock(g, a, k)
			bz, err := a.signAll(accts, txs)
			if err != nil {
				all = append(all, "sign-error")
				continue
			}
			ob, err := a.deliver(a.time.Add(gaps[k]), bz, txs)
			if err != nil {
				all = append(all, "deliver-error:"+err.Error())
				break
			}
			all = append(all, ob.digest())
		}
		done += nb
		hist++
	}
	os.WriteFile(filepath.Join(dir, "digests.txt"), []byte(strings.Join(all, "\n")+"\n"), 0o644)
	os.WriteFile(filepath.Join(dir, "stats.json"), []byte("{}"), 0o644)
}

func maxInt(a, b int) int {
	if a > b {
		return a
	}
	return b
}

func detGenBlock(g *detGen, a *detNode, k int) []detTx {
	fee := func(gas uint64) sdk.Coins { return sdk.NewCoins(sdk.NewInt64Coin("uosmo", int64(gas)*3/100)) }
	if k == 0 { // warm-up: every account locks the same denom, so that gauge distributions have many receivers
		var txs []detTx
		for i, ac := range g.accts {
			txs = append(txs, detTx{signer: i, gas: 950_000, fee: fee(950_000), kind: "lock", memo: "warmup",
				// pairwise distinct durations: more leaves than the accumulation tree's fan-out, so that the shape of the
				// tree rebuilt by InitGenesis depends on the order in which the durations are inserted
				msgs: []sdk.Msg{&lockuptypes.MsgLockTokens{Owner: ac.addr.String(), Duration: 7*time.Hour + time.Duration(i)*11*time.Minute, Coins: sdk.NewCoins(sdk.NewInt64Coin("foo", int64(1000+37*i)))}}})
		}
		return txs
	}
	if k == 1 {
		var txs []detTx
		for i := 0; i < 2; i++ {
			txs = append(txs, detTx{signer: i, gas: 950_000, fee: fee(950_000), kind: "gauge", memo: "warmup",
				msgs: []sdk.Msg{&incentivestypes.MsgCreateGauge{IsPerpetual: i == 0, Owner: g.accts[i].addr.String(),
					DistributeTo: lockuptypes.QueryCondition{LockQueryType: lockuptypes.ByDuration, Denom: "foo", Duration: time.Hour},
					Coins:        sdk.NewCoins(sdk.NewInt64Coin("uosmo", 50_000_000)), StartTime: a.time, NumEpochsPaidOver: uint64(1 + 9*i)}}})
		}
		return txs
	}
	pools := detPools(a)
	if k == 2 || k == 3 {
		// protorev warm-up (signers 0..6), then random transactions of the other accounts
		txs := detProtorevWarmup(g, a, pools, k, fee)
		for si := 7; si < len(g.accts); si++ {
			if g.r.Intn(3) != 0 {
				txs = append(txs, g.nextTx(a, pools, si))
			}
		}
		return txs
	}
	ntx := g.r.Intn(10)
	if k < 4 {
		ntx = 5 + g.r.Intn(5)
	}
	// distinct signers inside a block (a tx rejected by the ante handler does not bump the sequence);
	// now and then the same signer twice
	perm := g.r.Perm(len(g.accts))
	var txs []detTx
	for i := 0; i < ntx; i++ {
		si := perm[i%len(perm)]
		if i > 0 && g.r.Intn(12) == 0 {
			si = perm[i-1]
		}
		txs = append(txs, g.nextTx(a, pools, si))
	}
	return txs
}

// detProtorevWarmup: the state in which x/protorev's derived index (base denom, denom) -> highest-liquidity pool is NOT
// empty when the chain is exported.  Block 2: pools of every type on both base denoms of the genesis (uosmo and
// detProtorevBase2), two balancer pools of different depth on one pair (the index has to pick one).  Block 3: a first
// position in every concentrated pool (the pool-creation hook indexes a concentrated pool at its first position) and,
// in half of the histories, MsgSetBaseDenoms by the admin (base denoms of the genesis + up to two more), which runs
// UpdatePools on the exporting chain; in the other half the index is what the pool-creation hooks wrote, until a day epoch ends.
func detProtorevWarmup(g *detGen, a *detNode, pools []poolInfo, k int, fee func(uint64) sdk.Coins) []detTx {
	addr := func(i int) sdk.AccAddress { return g.accts[i].addr }
	other := func(not ...string) string {
		for {
			d := detDenoms[g.r.Intn(len(detDenoms))]
			ok := true
			for _, n := range not {
				ok = ok && d != n
			}
			if ok {
				return d
			}
		}
	}
	mk := func(si int, kind string, gas uint64, m sdk.Msg) detTx {
		return detTx{signer: si, gas: gas, fee: fee(gas), kind: kind, memo: "warmup", msgs: []sdk.Msg{m}}
	}
	bal := func(si int, d0, d1 string, x0, x1 int64) detTx {
		if d0 > d1 {
			d0, d1 = d1, d0
		}
		m := balancer.NewMsgCreateBalancerPool(addr(si), balancer.PoolParams{SwapFee: osmomath.MustNewDecFromStr("0.003"), ExitFee: osmomath.ZeroDec()},
			[]balancer.PoolAsset{{Weight: sdkmath.NewInt(1), Token: sdk.NewInt64Coin(d0, x0)}, {Weight: sdkmath.NewInt(int64(1 + g.r.Intn(3))), Token: sdk.NewInt64Coin(d1, x1)}}, "")
		return mk(si, "createbal", 950_000, &m)
	}
	stable := func(si int, d0, d1 string) detTx {
		m := stableswap.NewMsgCreateStableswapPool(addr(si), stableswap.PoolParams{SwapFee: osmomath.MustNewDecFromStr("0.001"), ExitFee: osmomath.ZeroDec()},
			sdk.NewCoins(sdk.NewInt64Coin(d0, 1_000_000+g.r.Int63n(3_000_000)), sdk.NewInt64Coin(d1, 1_000_000+g.r.Int63n(3_000_000))), []uint64{1, 1}, "")
		return mk(si, "createstable", 950_000, &m)
	}
	cl := func(si int, d0, d1 string) detTx {
		if g.r.Intn(2) == 0 {
			d0, d1 = d1, d0
		}
		return mk(si, "createcl", 950_000, &clmodel.MsgCreateConcentratedPool{Sender: addr(si).String(), Denom0: d0, Denom1: d1, TickSpacing: []uint64{1, 10, 100}[g.r.Intn(3)], SpreadFactor: osmomath.MustNewDecFromStr("0.001")})
	}
	b2 := detProtorevBase2
	if k == 2 {
		dA := other("uosmo")
		deep, shallow := 2_000_000+g.r.Int63n(8_000_000), 200_000+g.r.Int63n(800_000)
		if g.r.Intn(2) == 0 {
			deep, shallow = shallow, deep
		}
		return []detTx{
			bal(0, "uosmo", dA, deep, deep+g.r.Int63n(1_000_000)),
			bal(1, "uosmo", dA, shallow, shallow+g.r.Int63n(1_000_000)),
			stable(2, "uosmo", other("uosmo")),
			cl(3, "uosmo", other("uosmo")),
			bal(4, b2, other(b2, "uosmo"), 500_000+g.r.Int63n(5_000_000), 500_000+g.r.Int63n(5_000_000)),
			stable(5, b2, other(b2, "uosmo")),
			cl(6, b2, other(b2, "uosmo")),
		}
	}
	var txs []detTx
	ctx := a.readCtx()
	si := 3
	for _, p := range pools {
		if p.typ != poolmanagertypes.Concentrated || si > 6 {
			continue
		}
		pool, err := a.app.ConcentratedLiquidityKeeper.GetConcentratedPoolById(ctx, p.id)
		if err != nil {
			continue
		}
		sp := int64(pool.GetTickSpacing())
		lo, hi := cltypes.MinInitializedTick/sp*sp, cltypes.MaxTick/sp*sp
		if g.r.Intn(3) == 0 { // straddling the current tick instead of full range
			lo, hi = (pool.GetCurrentTick()/sp-int64(1+g.r.Intn(2000)))*sp, (pool.GetCurrentTick()/sp+int64(1+g.r.Intn(2000)))*sp
		}
		txs = append(txs, mk(si, "clpos", 950_000, &cltypes.MsgCreatePosition{PoolId: p.id, Sender: addr(si).String(), LowerTick: lo, UpperTick: hi,
			TokensProvided:  sdk.NewCoins(sdk.NewInt64Coin(pool.GetToken0(), 500_000+g.r.Int63n(4_000_000)), sdk.NewInt64Coin(pool.GetToken1(), 500_000+g.r.Int63n(4_000_000))),
			TokenMinAmount0: sdkmath.ZeroInt(), TokenMinAmount1: sdkmath.ZeroInt()}))
		si += 3
	}
	if g.r.Intn(2) == 0 {
		bds := []protorevtypes.BaseDenom{{Denom: "uosmo", StepSize: sdkmath.NewInt(1_000_000)}, {Denom: b2, StepSize: sdkmath.NewInt(1_000_000)}}
		for _, d := range []string{other("uosmo", b2), other("uosmo", b2)} {
			if g.r.Intn(2) == 0 && d != bds[len(bds)-1].Denom {
				bds = append(bds, protorevtypes.BaseDenom{Denom: d, StepSize: sdkmath.NewInt(int64(1000 * (1 + g.r.Intn(1000))))})
			}
		}
		txs = append(txs, mk(1, "protorevbase", 3_000_000, &protorevtypes.MsgSetBaseDenoms{Admin: addr(1).String(), BaseDenoms: bds}))
	}
	return txs
}

func runDetHistory(t *testing.T, o *Out, accts []detAcct, hseed int64, hist int, nb int) []string {
	r := rand.New(rand.NewSource(hseed))
	a := newDetNode(t, "A", accts)
	b := newDetNode(t, "B", accts)
	g := &detGen{r: r, accts: accts, tfDenom: map[int][]string{}, counts: map[string]int{}}
	gaps := detBlockTimes(r, nb)
	exportAt := 3 + r.Intn(maxInt(1, nb-6)) // export after this block index
	o.Emit(fmt.Sprintf("det reset %d %d", hist, hseed), "ok", false)
	var c, d *detNode
	var digests []string
	var firstExport exportedState
	updatePoolsRan := false // a successful MsgSetBaseDenoms or a block gap of a day or more (day epoch end) so far
	for k := 0; k < nb; k++ {
		txs := detGenBlock(g, a, k)
		for _, tx := range txs {
			o.Count("tx." + strings.SplitN(tx.kind, "+", 2)[0])
		}
		bt := a.time.Add(gaps[k])
		if gaps[k] >= time.Hour {
			o.Count("block.epoch-boundary")
		}
		if os.Getenv("VERIF_DET_DEBUG") == "3" {
			for _, p := range detPools(a) {
				if p.typ == poolmanagertypes.Balancer {
					pl, err := a.app.GAMMKeeper.GetPoolAndPoke(a.readCtx(), p.id)
					if err == nil {
						fmt.Printf("POOLSTATE hist %d before block %d pool %d struct=%s bank=%s\n", hist, k, p.id, pl.GetTotalPoolLiquidity(a.readCtx()), a.app.BankKeeper.GetAllBalances(a.readCtx(), pl.GetAddress()))
					}
				}
			}
		}
		// every transaction of this block, several fresh executions on A's committed state (det_repeat_test.go)
		detRepeatBlock(o, hist, k, a, txs)
		bzA, errA := a.signAll(accts, txs)
		bzB, errB := b.signAll(accts, txs)
		if errA != nil || errB != nil {
			o.Fail("harness:sign", fmt.Sprintf("hist %d block %d: %v %v", hist, k, errA, errB))
			break
		}
		obA, errA := a.deliver(bt, bzA, txs)
		obB, errB := b.deliver(bt, bzB, txs)
		if errA != nil || errB != nil {
			if (errA == nil) != (errB == nil) {
				o.Fail("nondeterminism:block-failure", fmt.Sprintf("hist %d block %d: A=%v B=%v", hist, k, errA, errB))
			} else {
				o.Fail("harness:block-failed", fmt.Sprintf("hist %d block %d: %v", hist, k, errA))
			}
			break
		}
		if os.Getenv("VERIF_DET_DEBUG") == "3" {
			for _, r := range a.app.CrisisKeeper.Routes() {
				if msg, broken := r.Invar(a.readCtx()); broken {
					fmt.Printf("INVARIANT-BROKEN-ON-A hist %d block %d %s/%s: %.400s\n", hist, k, r.ModuleName, r.Route, msg)
					for i, tx := range txs {
						fmt.Printf("   tx %d %s signer=%d %T %.300v => %.200s\n", i, tx.kind, tx.signer, tx.msgs[0], tx.msgs[0], obA.txs[i])
					}
				}
			}
		}
		dA, dB := obA.digest(), obB.digest()
		digests = append(digests, dA)
		nonTrivial := len(txs) > 0
		o.Emit(fmt.Sprintf("det block %d.%d %s", hist, k, dA), dB, nonTrivial)
		o.Count("block")
		if nd := strings.Count(obA.blockEv, "distribution{"); nd > 0 {
			o.dist["incentives.distribution-events"] += nd
			if nd >= 2 {
				o.Count("block.gauge-distribution-to-2+-receivers")
			}
		}
		if gaps[k] >= 24*time.Hour {
			updatePoolsRan = true
		}
		for i, res := range obA.txs {
			if strings.HasPrefix(res, "code=0 ") {
				if strings.HasPrefix(txs[i].kind, "protorevbase") {
					updatePoolsRan = true
				}
				o.Count("txok." + strings.SplitN(txs[i].kind, "+", 2)[0])
				o.Count("tx-result.ok")
			} else if strings.Contains(res, "out of gas") {
				o.Count("tx-result.out-of-gas")
			} else {
				o.Count("tx-result.failed")
				if os.Getenv("VERIF_DET_DEBUG") != "" {
					fmt.Printf("FAILED-TX h%d b%d %s %T: %.300s\n", hist, k, txs[i].kind, txs[i].msgs[0], res)
				}
			}
		}
		if dA != dB || fmt.Sprint(obA.gas) != fmt.Sprint(obB.gas) {
			detExplain(o, hist, k, txs, obA, obB, "nondeterminism", false)
		}
		for i := range obA.rawLogs {
			if i < len(obB.rawLogs) && obA.rawLogs[i] != obB.rawLogs[i] && obA.txs[i] == obB.txs[i] {
				// not consensus relevant (Log is excluded from the results hash), but the claim says "identical results"
				o.Fail("nondeterminism:txlog:recovered-panic-stack-trace", fmt.Sprintf("hist %d block %d tx %d (%s %T): the log of a tx that panicked embeds debug.Stack() (goroutine ids, addresses): %.160s", hist, k, i, txs[i].kind, txs[i].msgs[0], obA.txs[i]))
			}
		}
		// imported nodes: same remaining history
		if c != nil { // as imported: every divergence is a CONSEQUENCE of a state loss; reported with coarse keys
			bzC, errC := c.signAll(accts, txs)
			var obC blockObs
			if errC == nil {
				obC, errC = c.deliver(bt, bzC, txs)
			}
			if errC != nil {
				o.Fail("export-import:subsequent-results:imported-node-halts", fmt.Sprintf("hist %d block %d (imported after block %d): %v", hist, k, exportAt, errC))
				c = nil
			} else {
				o.Count("import.block")
				if obA.resultsDigest() != obC.resultsDigest() || fmt.Sprint(obA.gas) != fmt.Sprint(obC.gas) {
					detExplain(o, hist, k, txs, obA, obC, "export-import", false)
				}
			}
		}
		if d != nil { // imported + raw stores synchronised with A: must now be indistinguishable (incl. gas used)
			bzD, errD := d.signAll(accts, txs)
			var obD blockObs
			if errD == nil {
				obD, errD = d.deliver(bt, bzD, txs)
			}
			if errD != nil {
				o.Fail("export-import:after-store-sync:imported-node-halts", fmt.Sprintf("hist %d block %d (imported after block %d): %v", hist, k, exportAt, errD))
				d = nil
			} else {
				// gas of a tx whose gas-at-out-of-gas is order dependent on ANY two nodes (x.known, F26) is masked here
				// exactly as in digest(); detExplain reports it under its own key
				mg := func(ob blockObs) string {
					g := append([]int64{}, ob.gas...)
					for i := range g {
						if i < len(obA.known) && obA.known[i] != "" {
							g[i] = -1
						}
					}
					return fmt.Sprint(g)
				}
				rA, rD := obA.resultsDigest()+mg(obA), obD.resultsDigest()+mg(obD)
				o.Emit(fmt.Sprintf("det tx %d.%d %s", hist, k, shortDigest(rA)), shortDigest(rD), nonTrivial)
				o.Count("import.synced.block")
				if rA != rD || fmt.Sprint(obA.gas) != fmt.Sprint(obD.gas) {
					detExplain(o, hist, k, txs, obA, obD, "store-sync", false)
				}
			}
		}
		if k == exportAt {
			exp, err := a.export()
			if err != nil {
				o.Fail("export-import:export-failed", fmt.Sprintf("hist %d after block %d: %v", hist, k, err))
				continue
			}
			// exporting twice gives the same document (export itself is deterministic and read-only)
			exp2, err2 := a.export()
			if err2 != nil || canonJSON(exp.appState) != canonJSON(exp2.appState) {
				o.Fail("nondeterminism:export-twice", fmt.Sprintf("hist %d after block %d: %s", hist, k, jsonDiff(exp.appState, exp2.appState)))
			}
			expB, errB := b.export()
			if errB != nil || canonJSON(exp.appState) != canonJSON(expB.appState) {
				o.Fail("nondeterminism:export:module-state", fmt.Sprintf("hist %d after block %d: nodes A and B export different genesis: %s", hist, k, jsonDiff(exp.appState, expB.appState)))
			}
			firstExport = exp
			detGenesisEntries(o, hist, k, exp, accts)
			// (i) as a node started without --x-crisis-skip-assert-invariants would
			if _, err := importDetNode(t, "C0", exp, a.time, a.valAddr, false); err != nil {
				key := "export-import:import-failed:other"
				if strings.Contains(err.Error(), "invariant broken") {
					// x/crisis InitGenesis asserts every invariant in ITS slot of the InitGenesis order, before the
					// modules ordered after it have loaded their state
					key = "export-import:import-failed:genesis-invariant-asserted-before-module-init:" + invariantName(err.Error())
				}
				o.Fail(key, fmt.Sprintf("hist %d after block %d: %.300v", hist, k, err))
				o.Count("import.rejected-with-genesis-invariants")
			} else {
				o.Count("import.accepted-with-genesis-invariants")
			}
			// (ii) with genesis invariant assertion skipped; the invariants are evaluated after the complete InitGenesis instead
			nc, err := importDetNode(t, "C", exp, a.time, a.valAddr, true)
			if err != nil {
				o.Fail("export-import:import-failed:other", fmt.Sprintf("hist %d after block %d: %v", hist, k, err))
				continue
			}
			c = nc
			o.Count("import.done")
			if os.Getenv("VERIF_DET_DEBUG") == "2" {
				for _, l := range detStoreDiff(a, c, 6) {
					fmt.Println("STOREDIFF", l)
				}
			}
			brokenOnA := map[string]bool{}
			for _, r := range a.app.CrisisKeeper.Routes() {
				var broken bool
				okI := catch(func() { _, broken = r.Invar(a.readCtx()) })
				if !okI || broken {
					brokenOnA[r.ModuleName+"/"+r.Route] = true // not an import issue (reported to the owner of that module)
					o.Count("invariant-already-broken-on-exporting-node." + r.ModuleName + "/" + r.Route)
				}
			}
			for _, r := range c.app.CrisisKeeper.Routes() {
				var msg string
				var broken bool
				okI := catch(func() { msg, broken = r.Invar(c.readCtx()) })
				if (!okI || broken) && !brokenOnA[r.ModuleName+"/"+r.Route] {
					o.Fail("export-import:invariant-broken-after-import:"+r.ModuleName+"/"+r.Route, fmt.Sprintf("hist %d after block %d: %.900s", hist, k, msg))
				}
				o.Count("import.invariant-checked")
			}
			// re-export immediately: module by module
			re, err := c.export()
			if err != nil {
				o.Fail("export-import:reexport-failed", fmt.Sprintf("hist %d after block %d: %v", hist, k, err))
				continue
			}
			detCompareExports(o, hist, k, "import", firstExport, re, true)
			detCompareReports(o, hist, k, "import", a, c)
			// every lookup table InitGenesis rebuilds, asked on both nodes before the imported one executes a block
			detLookupOracles(o, hist, k, a, c, accts)
			if updatePoolsRan {
				o.Count("state.protorev.update-pools-ran-before-export")
			}
			// second imported node whose raw KV stores are then made byte-identical to A's
			nd, err := importDetNode(t, "D", exp, a.time, a.valAddr, true)
			if err == nil {
				// importing the same genesis twice gives byte-identical stores (InitGenesis itself is deterministic)
				if left := detStoreDiff(c, nd, 3); len(left) > 0 {
					o.Fail("nondeterminism:import-twice:raw-store", fmt.Sprintf("hist %d after block %d: %s", hist, k, strings.Join(left, " ;; ")))
				}
				o.Count("import.twice-compared")
				// every raw store of the imported node against the exporting node, class by class (what InitGenesis rebuilds
				// differently is either on the list of known losses or an oracle failure)
				detDerivedStores(o, hist, k, a, nd)
				for cls, cnt := range detStoreSync(a, nd) {
					o.dist["rawstore-diff-after-import."+cls] += cnt
				}
				d = nd
			}
		}
	}
	if hist == 0 {
		detProbeProtorev(o, a)
	}
	detProbeSortedSites(o, hist, a, accts)
	if d != nil {
		ea, err1 := a.export()
		ed, err2 := d.export()
		if err1 != nil || err2 != nil {
			o.Fail("export-import:final-export-failed", fmt.Sprintf("hist %d: %v %v", hist, err1, err2))
		} else {
			detCompareExports(o, hist, nb, "final-synced", ea, ed, true)
			detCompareReports(o, hist, nb, "final-synced", a, d)
			if left := detStoreDiff(a, d, 3); len(left) > 0 {
				o.Fail("export-import:after-store-sync:raw-store-diverged", fmt.Sprintf("hist %d: %s", hist, strings.Join(left, " ;; ")))
			}
		}
	}
	return digests
}

// detReports: values a node REPORTS through its keepers' query paths that are not (all) part of a genesis
// document: supply with offset, lockup accumulation store (sum tree rebuilt on import), total liquidity.
func detReports(n *detNode) map[string]string {
	out := map[string]string{}
	ctx := n.readCtx()
	put := func(k string, f func() string) {
		defer func() {
			if r := recover(); r != nil {
				out[k] = fmt.Sprintf("panic: %.100v", r)
			}
		}()
		out[k] = f()
	}
	var denoms []string
	put("bank.total_supply", func() string {
		sup, _, err := n.app.BankKeeper.GetPaginatedTotalSupply(ctx, &query.PageRequest{Limit: 100000})
		if err != nil {
			return "err " + err.Error()
		}
		for _, c := range sup {
			denoms = append(denoms, c.Denom)
		}
		return sup.String()
	})
	put("bank.supply_with_offset", func() string {
		var sb strings.Builder
		for _, d := range denoms {
			sb.WriteString(n.app.BankKeeper.GetSupplyWithOffset(ctx, d).String() + ",")
		}
		return sb.String()
	})
	put("lockup.accumulation", func() string {
		var sb strings.Builder
		mod := n.app.AccountKeeper.GetModuleAddress(lockuptypes.ModuleName)
		for _, c := range n.app.BankKeeper.GetAllBalances(ctx, mod) {
			for _, d := range []time.Duration{time.Second, time.Hour, 3 * time.Hour, 24 * time.Hour, 7 * 24 * time.Hour, 14 * 24 * time.Hour, 15 * 24 * time.Hour} {
				acc := n.app.LockupKeeper.GetPeriodLocksAccumulation(ctx, lockuptypes.QueryCondition{LockQueryType: lockuptypes.ByDuration, Denom: c.Denom, Duration: d})
				fmt.Fprintf(&sb, "%s/%s=%s,", c.Denom, d, acc)
			}
		}
		return sb.String()
	})
	put("gamm.total_liquidity", func() string {
		l, err := n.app.GAMMKeeper.GetTotalLiquidity(ctx)
		return fmt.Sprint(l, err)
	})
	put("cl.total_liquidity", func() string {
		l, err := n.app.ConcentratedLiquidityKeeper.GetTotalLiquidity(ctx)
		return fmt.Sprint(l, err)
	})
	put("incentives.to_distribute", func() string { return n.app.IncentivesKeeper.GetModuleToDistributeCoins(ctx).String() })
	put("incentives.distributed", func() string { return n.app.IncentivesKeeper.GetModuleDistributedCoins(ctx).String() })
	put("poolmanager.next_pool_id", func() string { return fmt.Sprint(n.app.PoolManagerKeeper.GetNextPoolId(ctx)) })
	put("pools.spot", func() string {
		var sb strings.Builder
		for _, p := range detPools(n) {
			if len(p.denoms) >= 2 {
				sp, err := n.app.PoolManagerKeeper.RouteCalculateSpotPrice(ctx, p.id, p.denoms[0], p.denoms[1])
				fmt.Fprintf(&sb, "%d:%v:%v,", p.id, sp, err != nil)
			}
		}
		return sb.String()
	})
	return out
}

// keeper queries KNOWN to differ right after an import (F19i-F19k): oracle only, no correspondence line
var detLossyQueries = map[string]bool{"bank.supply_with_offset": true, "cl.total_liquidity": true, "gamm.total_liquidity": true, "incentives.distributed": true, "incentives.to_distribute": true}

func detCompareReports(o *Out, hist, k int, phase string, x, y *detNode) {
	rx, ry := detReports(x), detReports(y)
	for _, name := range sortedKeysS(rx) {
		if !(phase == "import" && detLossyQueries[name]) {
			o.Emit(fmt.Sprintf("det import %s.%d.%d.query.%s %s", phase, hist, k, name, shortDigest(rx[name])), shortDigest(ry[name]), len(rx[name]) > 2)
		}
		if rx[name] != ry[name] {
			pre := "export-import:query:"
			if phase == "final-synced" {
				pre = "export-import:after-store-sync:query:"
			}
			o.Fail(pre+name, fmt.Sprintf("hist %d %s after block %d: %s", hist, phase, k, diffWindow(rx[name], ry[name])))
		}
		o.Count("import.query-compared")
	}
}

// detStoreSync makes every KV store of the freshly imported node y byte-identical to x's and returns the
// number of keys that had to be written/deleted per "store:key-class".  What export/import does not carry
// is thereby accounted for key by key; afterwards the two nodes may differ only in memory.
func detStoreSync(x, y *detNode) map[string]int {
	out := map[string]int{}
	cx, cy := x.readCtx(), y.readCtx()
	for n, kx := range x.app.GetKVStoreKey() {
		ky := y.app.GetKVStoreKey()[n]
		if ky == nil {
			continue
		}
		func() {
			defer func() {
				if r := recover(); r != nil {
					out[n+":<panic>"]++
				}
			}()
			sx, sy := cx.KVStore(kx), cy.KVStore(ky)
			mx, my := map[string][]byte{}, map[string][]byte{}
			itx := sx.Iterator(nil, nil)
			for ; itx.Valid(); itx.Next() {
				mx[string(itx.Key())] = append([]byte{}, itx.Value()...)
			}
			itx.Close()
			ity := sy.Iterator(nil, nil)
			for ; ity.Valid(); ity.Next() {
				my[string(ity.Key())] = append([]byte{}, ity.Value()...)
			}
			ity.Close()
			for k, v := range mx {
				if w, ok := my[k]; !ok || !bytes.Equal(v, w) {
					sy.Set([]byte(k), v)
					out[n+":"+keyClass(k)]++
				}
			}
			for k := range my {
				if _, ok := mx[k]; !ok {
					sy.Delete([]byte(k))
					out[n+":"+keyClass(k)]++
				}
			}
		}()
	}
	return out
}

// keyClass: a short stable class of a raw store key (leading ASCII word or first byte).
func keyClass(k string) string {
	if k == "" {
		return "<empty>"
	}
	i := 0
	for i < len(k) && i < 24 && (k[i] >= 'a' && k[i] <= 'z' || k[i] >= 'A' && k[i] <= 'Z' || k[i] == '-' || k[i] == '_') {
		i++
	}
	if i >= 2 {
		return k[:i]
	}
	return fmt.Sprintf("0x%02x", k[0])
}

// detStoreDiff: raw key/value comparison of every KV store of two nodes (diagnostic).
func detStoreDiff(x, y *detNode, max int) []string {
	var out []string
	cx, cy := x.readCtx(), y.readCtx()
	keys := x.app.GetKVStoreKey()
	var names []string
	for n := range keys {
		names = append(names, n)
	}
	sort.Strings(names)
	for _, n := range names {
		kx, ky := keys[n], y.app.GetKVStoreKey()[n]
		if ky == nil {
			continue
		}
		mx, my := map[string]string{}, map[string]string{}
		for _, pr := range []struct {
			ctx sdk.Context
			k   *storetypes.KVStoreKey
			m   map[string]string
		}{{cx, kx, mx}, {cy, ky, my}} {
			func() {
				defer func() { recover() }()
				it := pr.ctx.KVStore(pr.k).Iterator(nil, nil)
				defer it.Close()
				for ; it.Valid(); it.Next() {
					pr.m[string(it.Key())] = string(it.Value())
				}
			}()
		}
		cnt := 0
		all := map[string]bool{}
		for k := range mx {
			all[k] = true
		}
		for k := range my {
			all[k] = true
		}
		var ks []string
		for k := range all {
			ks = append(ks, k)
		}
		sort.Strings(ks)
		for _, k := range ks {
			vx, ox := mx[k]
			vy, oy := my[k]
			if n == "staking" && strings.HasPrefix(k, "P") {
				continue // HistoricalInfo embeds the previous app hash, which legitimately differs after an import
			}
			if ox != oy || vx != vy {
				cnt++
				if cnt <= max {
					out = append(out, fmt.Sprintf("store %s key %q: %v %x | %v %x", n, k, ox, trunc(vx, 60), oy, trunc(vy, 60)))
				}
			}
		}
		if cnt > 0 {
			out = append(out, fmt.Sprintf("store %s: %d differing keys of %d/%d", n, cnt, len(mx), len(my)))
		}
	}
	return out
}

func trunc(s string, n int) string {
	if len(s) > n {
		return s[:n]
	}
	return s
}

func invariantName(msg string) string {
	// "invariant broken: lockup: locks-amount-invariant invariant\n…"
	i := strings.Index(msg, "invariant broken: ")
	if i < 0 {
		return "?"
	}
	rest := msg[i+len("invariant broken: "):]
	if j := strings.Index(rest, " invariant"); j >= 0 {
		rest = rest[:j]
	}
	return strings.ReplaceAll(strings.ReplaceAll(rest, ": ", "/"), " ", "_")
}

// JSON paths (array indices stripped) of a module's genesis that InitGenesis is KNOWN to rewrite.  They
// are masked in the `det import` correspondence observation only; the oracle compares the raw documents and
// reports every differing path under its own key (known findings are keyed by module:path).
var detLossy = map[string][]string{
	"epochs":   {".epochs[].current_epoch_start_height"},
	"mint":     {".minter.epoch_provisions"},
	"protorev": {".cyclic_arb_tracker.height_accounting_starts_from", ".cyclic_arb_tracker.cyclic_arb"},
	"ibc":      {".client_genesis.clients[].client_state.latest_height.revision_height"},
}

func parseJSON(raw []byte) any {
	var v any
	d := json.NewDecoder(bytes.NewReader(raw))
	d.UseNumber()
	_ = d.Decode(&v)
	return v
}

// diffPaths collects every differing leaf path (indices stripped) with one sample each.
func diffPaths(a, b any, path string, out map[string]string) {
	switch x := a.(type) {
	case map[string]any:
		y, ok := b.(map[string]any)
		if !ok {
			out[path] = "type"
			return
		}
		ks := map[string]bool{}
		for k := range x {
			ks[k] = true
		}
		for k := range y {
			ks[k] = true
		}
		for k := range ks {
			xv, xo := x[k]
			yv, yo := y[k]
			if !xo || !yo {
				out[path+"."+k] = fmt.Sprintf("present %v vs %v", xo, yo)
				continue
			}
			diffPaths(xv, yv, path+"."+k, out)
		}
	case []any:
		y, ok := b.([]any)
		if !ok {
			if b == nil && len(x) == 0 {
				return
			}
			out[path] = "type"
			return
		}
		if len(x) != len(y) {
			out[path+"[]"] = fmt.Sprintf("len %d vs %d", len(x), len(y))
			return
		}
		for i := range x {
			diffPaths(x[i], y[i], path+"[]", out)
		}
	default:
		if fmt.Sprint(a) != fmt.Sprint(b) {
			if _, seen := out[path]; !seen {
				out[path] = fmt.Sprintf("%.60v vs %.60v", a, b)
			}
		}
	}
}

// maskPaths replaces the values at the given paths by a constant.
func maskPaths(v any, path string, masked map[string]bool) any {
	if masked[path] {
		return "<masked>"
	}
	switch x := v.(type) {
	case map[string]any:
		o := map[string]any{}
		for k, e := range x {
			o[k] = maskPaths(e, path+"."+k, masked)
		}
		return o
	case []any:
		o := make([]any, len(x))
		for i, e := range x {
			o[i] = maskPaths(e, path+"[]", masked)
		}
		return o
	}
	return v
}

func detCompareExports(o *Out, hist, k int, phase string, x, y exportedState, emit bool) {
	mods := map[string]bool{}
	for m := range x.modules {
		mods[m] = true
	}
	for m := range y.modules {
		mods[m] = true
	}
	var names []string
	for m := range mods {
		names = append(names, m)
	}
	sort.Strings(names)
	for _, m := range names {
		vx, vy := parseJSON(x.modules[m]), parseJSON(y.modules[m])
		if m == "incentives" {
			// the exported gauge list is upcoming ++ active ++ finished in status-index order; the index is re-derived at
			// import (F19k), so the list is compared as a set keyed by id and a different ORDER is reported on its own
			ox, oy := gaugeOrder(vx), gaugeOrder(vy)
			if ox != oy {
				o.Fail("export-import:module-state:incentives:.gauges:order", fmt.Sprintf("hist %d %s after block %d: gauge ids exported in order %s, re-exported %s", hist, phase, k, ox, oy))
			}
			sortGauges(vx)
			sortGauges(vy)
		}
		masked := map[string]bool{}
		if phase == "import" {
			for _, p := range detLossy[m] {
				masked[p] = true
			}
		}
		cx, _ := json.Marshal(maskPaths(vx, "", masked))
		cy, _ := json.Marshal(maskPaths(vy, "", masked))
		if emit {
			o.Emit(fmt.Sprintf("det import %s.%d.%d.%s %s", phase, hist, k, m, shortDigest(string(cx))), shortDigest(string(cy)), len(cx) > 40)
		}
		o.Count("import.module-compared")
		diffs := map[string]string{}
		diffPaths(vx, vy, "", diffs)
		for _, p := range sortedKeysS(diffs) {
			pre := "export-import:module-state:"
			if phase == "final-synced" {
				pre = "export-import:after-store-sync:module-state:"
			}
			o.Fail(pre+m+":"+p, fmt.Sprintf("hist %d %s after block %d: exported %s", hist, phase, k, diffs[p]))
		}
	}
}

func gaugeList(v any) []any {
	if mp, ok := v.(map[string]any); ok {
		if l, ok := mp["gauges"].([]any); ok {
			return l
		}
	}
	return nil
}

func gaugeID(g any) string {
	if mp, ok := g.(map[string]any); ok {
		return fmt.Sprint(mp["id"])
	}
	return ""
}

func gaugeOrder(v any) string {
	var ids []string
	for _, g := range gaugeList(v) {
		ids = append(ids, gaugeID(g))
	}
	return strings.Join(ids, ",")
}

func sortGauges(v any) {
	l := gaugeList(v)
	sort.SliceStable(l, func(i, j int) bool {
		a, b := gaugeID(l[i]), gaugeID(l[j])
		if len(a) != len(b) {
			return len(a) < len(b)
		}
		return a < b
	})
}

func sortedKeysS(m map[string]string) []string {
	var ks []string
	for k := range m {
		ks = append(ks, k)
	}
	sort.Strings(ks)
	return ks
}

// detGenesisEntries: entries of the chain's own genesis that no transaction can change are still in every
// export, unchanged (export after import of the original genesis + a history that does not touch them).
func detGenesisEntries(o *Out, hist, k int, exp exportedState, accts []detAcct) {
	var tf struct {
		FactoryDenoms []struct {
			Denom             string `json:"denom"`
			AuthorityMetadata struct {
				Admin string `json:"admin"`
			} `json:"authority_metadata"`
		} `json:"factory_denoms"`
	}
	raw, ok := exp.modules["tokenfactory"]
	if !ok || json.Unmarshal(raw, &tf) != nil {
		o.Fail("export-import:genesis-entry:tokenfactory-unreadable", fmt.Sprintf("hist %d after block %d", hist, k))
		return
	}
	want := map[string]string{"factory/" + accts[0].addr.String() + "/gen0": "", "factory/" + accts[1].addr.String() + "/gen1": accts[2].addr.String()}
	seen := 0
	for _, d := range tf.FactoryDenoms {
		if w, ok := want[d.Denom]; ok {
			seen++
			if d.AuthorityMetadata.Admin != w {
				cls := "foreign-admin"
				if w == "" {
					cls = "renounced-admin"
				}
				o.Fail("export-import:genesis-entry-changed:tokenfactory:"+cls, fmt.Sprintf("hist %d after block %d: %s imported with admin %q, exported with admin %q", hist, k, d.Denom, w, d.AuthorityMetadata.Admin))
			}
		}
	}
	if seen != len(want) {
		o.Fail("export-import:genesis-entry-lost:tokenfactory", fmt.Sprintf("hist %d after block %d: %d of %d genesis denoms exported", hist, k, seen, len(want)))
	}
	o.Count("export.genesis-entries-checked")
}

// detExplain decodes which component of two block observations differs.
func detExplain(o *Out, hist, k int, txs []detTx, x, y blockObs, prefix string, firstAfterImport bool) {
	resKey, evKey, hashKey := "nondeterminism:txresult", "nondeterminism:events", "nondeterminism:apphash:block"
	if prefix == "export-import" {
		resKey, evKey, hashKey = "export-import:subsequent-results:txresult", "export-import:subsequent-results:events", ""
	}
	if prefix == "store-sync" {
		resKey, evKey, hashKey = "export-import:after-store-sync:txresult", "export-import:after-store-sync:events", ""
	}
	explained := false
	for i := range x.txs {
		if i >= len(y.txs) {
			break
		}
		// the order-dependence key of a site is meaningful only between nodes in EQUIVALENT states (A/B, A/synchronised D): on the
		// node imported as-is (prefix export-import) the stores are known to differ (F30-F37), so the gas consumed up to an
		// out-of-gas abort differs as a consequence and is reported with the other consequences, not as a map-order finding
		if prefix != "export-import" && i < len(x.known) && x.known[i] != "" && (x.txs[i] != y.txs[i] || x.gas[i] != y.gas[i]) &&
			gasUsedRe.ReplaceAllString(x.txs[i], "") == gasUsedRe.ReplaceAllString(y.txs[i], "") {
			o.Fail(x.known[i], fmt.Sprintf("hist %d block %d tx %d (%s %T) through ABCI on two nodes: gas used %d | %d; %s", hist, k, i, txs[i].kind, txs[i].msgs[0], x.gas[i], y.gas[i], x.txs[i]))
			explained = true
		} else if x.txs[i] != y.txs[i] {
			o.Fail(resKey, fmt.Sprintf("hist %d block %d tx %d (%s %T): %s | %s", hist, k, i, txs[i].kind, txs[i].msgs[0], x.txs[i], y.txs[i]))
			explained = true
		} else if x.gas[i] != y.gas[i] {
			key := "nondeterminism:txresult:gasused"
			if prefix == "store-sync" {
				key = "export-import:after-store-sync:gasused"
			}
			if prefix == "export-import" {
				// wasmd's CountTXDecorator reads the per-block tx counter record (12 bytes, 3 gas per byte) that no
				// genesis exports: the first transactions after an import are 36 gas cheaper
				key = "export-import:subsequent-results:gasused"
				if x.gas[i]-y.gas[i] == 36 {
					key = "export-import:subsequent-results:gasused:delta=36"
				}
			}
			o.Fail(key, fmt.Sprintf("hist %d block %d tx %d (%s %T): gas used %d | %d; %s", hist, k, i, txs[i].kind, txs[i].msgs[0], x.gas[i], y.gas[i], x.txs[i]))
			explained = true
		} else if x.txEv[i] != y.txEv[i] {
			o.Fail(evKey, fmt.Sprintf("hist %d block %d tx %d (%s %T): events differ: %.300s | %.300s", hist, k, i, txs[i].kind, txs[i].msgs[0], x.txEv[i], y.txEv[i]))
			explained = true
		}
	}
	if x.blockEv != y.blockEv {
		o.Fail(evKey, fmt.Sprintf("hist %d block %d begin/end-block events differ: %.400s | %.400s", hist, k, diffWindow(x.blockEv, y.blockEv), ""))
		explained = true
	}
	if x.misc != y.misc {
		o.Fail(resKey, fmt.Sprintf("hist %d block %d validator/consensus updates differ: %s | %s", hist, k, x.misc, y.misc))
		explained = true
	}
	if hashKey != "" && x.appHash != y.appHash {
		o.Fail(hashKey, fmt.Sprintf("hist %d block %d: app hash %s vs %s (results/events equal: %v)", hist, k, x.appHash, y.appHash, !explained))
	}
}

func diffWindow(a, b string) string {
	i := 0
	for i < len(a) && i < len(b) && a[i] == b[i] {
		i++
	}
	lo := i - 80
	if lo < 0 {
		lo = 0
	}
	hiA, hiB := i+120, i+120
	if hiA > len(a) {
		hiA = len(a)
	}
	if hiB > len(b) {
		hiB = len(b)
	}
	return fmt.Sprintf("@%d A:…%s… B:…%s…", i, a[lo:hiA], b[lo:hiB])
}

// detProbeProtorev: x/protorev UpdatePools writes one store entry per (base denom, paired denom) while ranging
// over two nested Go maps.  The writes go to distinct keys (final state is order independent) but their gas
// cost depends on the key length, so when the gas limit of a MsgSetBaseDenoms transaction is exhausted inside
// that loop, the amount consumed at the moment of the panic (which becomes GasUsed, part of the results hash)
// depends on the iteration order.  Runs the real keeper on a discarded cache of node A's state.
func detProbeProtorev(o *Out, a *detNode) {
	defer func() { recover() }()
	base, _ := a.readCtx().CacheContext()
	k := a.app.ProtoRevKeeper
	bds := []protorevtypes.BaseDenom{{Denom: "uosmo", StepSize: sdkmath.NewInt(1_000_000)}}
	for _, d := range detDenoms[1:] {
		bds = append(bds, protorevtypes.BaseDenom{Denom: d, StepSize: sdkmath.NewInt(1000)})
	}
	if err := k.SetBaseDenoms(base, bds); err != nil {
		return
	}
	run := func(limit uint64) (consumed uint64, oog bool) {
		c2, _ := base.CacheContext()
		c2 = c2.WithGasMeter(storetypes.NewGasMeter(limit))
		defer func() {
			if r := recover(); r != nil {
				oog, consumed = true, c2.GasMeter().GasConsumed()
			}
		}()
		_ = k.UpdatePools(c2)
		return c2.GasMeter().GasConsumed(), false
	}
	total, oog := run(1 << 50)
	if oog || total < 10000 {
		return
	}
	o.Count("probe.protorev-updatepools")
	for limit := total - 1; limit+30000 > total && limit > 0; limit -= 211 {
		seen := map[uint64]bool{}
		for i := 0; i < 12; i++ {
			c, isOog := run(limit)
			if isOog {
				seen[c] = true
			}
		}
		if len(seen) > 1 {
			var vs []string
			for v := range seen {
				vs = append(vs, fmt.Sprint(v))
			}
			sort.Strings(vs)
			o.Fail("nondeterminism:gas-at-out-of-gas:map-order:protorev.UpdatePools", fmt.Sprintf("UpdatePools on the same state with gas limit %d (full run needs %d): gas consumed when the out-of-gas panic fires took the values %s in 12 runs", limit, total, strings.Join(vs, ",")))
			return
		}
	}
	o.Count("probe.protorev-updatepools.no-difference-found")
}

// detProbes: direct witnesses for the two audited ORDER-DEPENDENT map ranges (Props/C19
// `orderDependent`), which no message of the workload reaches.
func detProbes(t *testing.T, o *Out) {
	// (1) wasmbinding.GetStargateWhitelistedPaths returns the whitelist in map order; the v15
	// upgrade handler stores it verbatim as the ICQ AllowQueries parameter.
	first := strings.Join(wasmbinding.GetStargateWhitelistedPaths(), ",")
	differs := false
	for i := 0; i < 20 && !differs; i++ {
		if strings.Join(wasmbinding.GetStargateWhitelistedPaths(), ",") != first {
			differs = true
		}
	}
	detPureProbes(o)
	o.Count("probe.stargate-whitelist")
	if differs {
		o.Fail("nondeterminism:map-order:wasmbinding.GetStargateWhitelistedPaths", "two calls in one process return the whitelisted query paths in different orders; app/upgrades/v15 setICQParams stores the slice as icq AllowQueries")
	}
}
