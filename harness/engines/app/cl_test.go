package app_test

// Engine `cl` (properties C01, C03, C07, C08): one concentrated-liquidity pool per history, driven through
// the real keeper / msg server: position creation, addition, partial and full withdrawal, swaps of both
// kinds and directions from 1 unit to draining, spread-reward and incentive collection, incentive
// creation, block-time advances, position transfers.  Every LP op and swap is replayed by the Lean pool
// state machine (`clp …` lines; full state compared by `dump`).  The oracles evaluate the properties
// themselves on the implementation:
//   C07  bookkeeping recomputed from the positions after every op
//   C03  exact rational walk of the constant-liquidity curve through the same ticks; estimate == execute;
//        estimates leave the store untouched; there-and-back never profits
//   C01  on a discarded branch everybody claims and withdraws everything; claimable sums <= balances
//   C08  (uptime incentives on random subsets of the six supported uptimes: cl_incentives_test.go)
//        twin positions earn identical rewards, k-fold liquidity earns k-fold, never-in-range earns
//        nothing, total claimable <= paid in, claims neither lose nor duplicate.

import (
	"fmt"
	"os"
	"math/big"
	"math/rand"
	"sort"
	"strings"
	"testing"
	"time"

	sdk "github.com/cosmos/cosmos-sdk/types"

	"github.com/osmosis-labs/osmosis/osmomath"
	cl "github.com/osmosis-labs/osmosis/v31/x/concentrated-liquidity"
	cltypes "github.com/osmosis-labs/osmosis/v31/x/concentrated-liquidity/types"
	clgenesis "github.com/osmosis-labs/osmosis/v31/x/concentrated-liquidity/types/genesis"
)

const (
	clDenom0 = "eth"
	clDenom1 = "usdc"
)

type clPos struct {
	id           uint64
	owner        int
	lower, upper int64
	liq          *big.Int
	twinOf       uint64 // id of a position created with identical range/liquidity/time (0 = none)
	kOf          uint64 // id of the base position this one has k times the liquidity of
	k            int64
	everInRange  bool
	untouched    bool // no add/withdraw/claim since creation (needed by the fairness checks)
}

type clEngine struct {
	h        *H
	o        *Out
	r        *rand.Rand
	poolId   uint64
	spacing  int64
	spf      osmomath.Dec
	accs     []sdk.AccAddress
	pos      map[uint64]*clPos
	feesPaid [2]*big.Int // total spread fees transferred to the spread-reward address per token
	feesOut  [2]*big.Int // total spread rewards claimed
	opn      int
	inc      *clIncState // incentive records, time log, dust budgets (cl_incentives_test.go)
	queue    []scriptStep
	forcePos uint64 // position the next op must act on (scripted sequences); 0 = random
	forced   bool   // the current op is part of a scripted sequence
	lastNew  uint64 // id created by the last successful create / add
	opClass  string
	mag      int      // amount magnitude class of the history: amounts are multiplied by 10^mag (18-decimals assets: liquidity up to >= 10^24)
	scale    osmomath.Dec // spread-reward accumulator scaling factor of the pool (one = pre-migration)
	ifactor  osmomath.Dec // incentive accumulator scaling factor of the pool (one = pre-migration, "unscaled")
	swapClass    string   // directed class of the next swap: "land" (ends exactly on an initialised tick), "limit" (partial fill at the price limit)
	swapOverride *swapOv  // scripted swap: kind, direction, (amount)
	lastSwap     swapRes
	landedNow    bool     // the last swap ended exactly on an initialised tick
	wantSolvency bool     // run the everybody-withdraws oracle right after this op
	auth         []int    // indices (into types.SupportedUptimes) of the uptimes authorised in this history (AuthorizedUptimes param)
	forceUptime  int      // uptime index the next incentive record must use (scripted sequences); -1 = random
	extra        []*clExtra // additional concentrated pools of the history (cl_pools_test.go), oracle-only
	resetDone    bool       // the `clp reset` line of the history has been written
	mainPool     uint64     // pool id of the pool under test while the book oracle runs on another pool
}

// scriptStep: one op of a directed sequence (property C08: accrue -> partial withdraw / add / transfer -> (swap) -> claim
// on the SAME position). id 0 = no position argument, ^0 = the id created by the preceding add-to-position.
type scriptStep struct {
	kind int
	id   uint64
	arg  int // swaps: direction (bits 0-1: 0 random, 1 zero-for-one, 2 one-for-zero) and kind (bits 2-3: 0 random, 1 exact-in, 2 exact-out); create: 1 = full range
}

const (
	kWithdraw = 28
	kAdd      = 40
	kSwap     = 46
	kCollect  = 80
	kTransfer = 99
	kICollect  = 86
	kIncentive = 90
	kAdvance   = 93
	// directed ops (scripts only; outside the 0..99 range of the random draw)
	kSwapLand    = 200 // swap that ends exactly on an initialised tick
	kSwapLimit   = 201 // swap larger than the pool can absorb (partial fill at the price limit)
	kSwapBack    = 202 // swap the proceeds of the previous swap straight back (exact-in, opposite direction)
	kSolvency    = 203 // everybody-withdraws oracle (no op)
	kCreate      = 204
	kIncentiveDry = 205 // incentive record that runs dry within the next time advance
	kAdvanceLong = 206 // idle jump that overshoots the end of the running records
	// uptime sequences (arg of kAdvanceAge: uptime index * 8 + age class, see advanceToAge)
	kAdvanceAge      = 207 // block-time advance that puts the position at an age relative to an uptime (1 ns below, exactly at, 1 ns above, above, far above, below)
	kIncentiveUptime = 208 // incentive record on the uptime with index arg
	kCreateIn        = 209 // new position whose range contains the current tick
	kWithdrawFull    = 210 // complete withdrawal of the position
)

// replay: the op lines of the current history (what `./check --replay` / the Lean driver would be fed), shortened to the
// pool set-up and the most recent ops so that it fits the replay file.
func (e *clEngine) replay() string {
	h := e.o.hist
	if len(h) > 14 {
		h = append(append([]string{}, h[:3]...), append([]string{fmt.Sprintf("... %d ops ...", len(h)-13)}, h[len(h)-10:]...)...)
	}
	return "replay: " + strings.Join(h, " ; ")
}

// liqUnit: rounding loss of one truncated division by liquidity, in whole tokens (+1): growth per unit of liquidity is
// truncated at 18 decimals, so up to (liquidity / 10^18) units are lost per division in pools with scaling factor one.
func (e *clEngine) liqUnit() *big.Int {
	tot := new(big.Int)
	for _, q := range e.pos {
		tot.Add(tot, q.liq)
	}
	if p := e.pool().GetLiquidity().BigInt(); p.Cmp(tot) > 0 {
		tot.Set(p)
	}
	tot.Quo(tot, pow10(36))
	return tot.Add(tot, big.NewInt(2))
}

func (e *clEngine) addDust(i int, n *big.Int) {
	for j := 0; j < 2; j++ {
		if i < 0 || i == j {
			if e.inc.dust[j] == nil {
				e.inc.dust[j] = new(big.Int)
			}
			e.inc.dust[j].Add(e.inc.dust[j], n)
		}
	}
}

func (e *clEngine) ctx() sdk.Context { return e.h.Ctx }

func (e *clEngine) pool() cltypes.ConcentratedPoolExtension {
	p, err := e.h.App.ConcentratedLiquidityKeeper.GetConcentratedPoolById(e.ctx(), e.poolId)
	if err != nil {
		panic(err)
	}
	return p
}

func (e *clEngine) bal(a sdk.AccAddress, d string) *big.Int {
	return e.h.App.BankKeeper.GetBalance(e.ctx(), a, d).Amount.BigInt()
}

// atomic runs f on a cache context and commits only on success (tx atomicity).
func (e *clEngine) atomic(f func(ctx sdk.Context) error) (err error) {
	cctx, write := e.h.Ctx.CacheContext()
	ok := catch(func() { err = f(cctx) })
	if !ok {
		return fmt.Errorf("panic")
	}
	if err == nil {
		write()
	}
	return err
}

func (e *clEngine) dumpImpl() string {
	k := e.h.App.ConcentratedLiquidityKeeper
	p := e.pool()
	ticks, _ := k.GetAllInitializedTicksForPool(e.ctx(), e.poolId)
	var ts []string
	for _, t := range ticks {
		ts = append(ts, fmt.Sprintf("%d:%s:%s", t.TickIndex, t.Info.LiquidityGross.BigInt(), t.Info.LiquidityNet.BigInt()))
	}
	ids := make([]uint64, 0, len(e.pos))
	for id := range e.pos {
		ids = append(ids, id)
	}
	sort.Slice(ids, func(i, j int) bool { return ids[i] < ids[j] })
	var ps []string
	for _, id := range ids {
		q, err := k.GetPosition(e.ctx(), id)
		if err != nil {
			continue
		}
		ps = append(ps, fmt.Sprintf("%d:%s:%d:%d:%s", id, e.ownerName(q.Address), q.LowerTick, q.UpperTick, q.Liquidity.BigInt()))
	}
	return fmt.Sprintf("ok sp=%s tick=%d liq=%s bal0=%s bal1=%s T[%s] P[%s]",
		p.GetCurrentSqrtPrice().BigInt(), p.GetCurrentTick(), p.GetLiquidity().BigInt(),
		e.bal(p.GetAddress(), clDenom0), e.bal(p.GetAddress(), clDenom1),
		strings.Join(ts, " "), strings.Join(ps, " "))
}

// dumpFeesImpl: the spread-reward bookkeeping of the pool, read from the real stores: accumulator value and total
// shares, balance of the spread-reward address, growth-outside of every stored tick, the accumulator record of every
// live position and GetClaimableSpreadRewards of each.
func (e *clEngine) dumpFeesImpl() string {
	k := e.h.App.ConcentratedLiquidityKeeper
	p := e.pool()
	pair := func(c sdk.DecCoins) string {
		return fmt.Sprintf("%s,%s", c.AmountOf(clDenom0).BigInt(), c.AmountOf(clDenom1).BigInt())
	}
	acc, err := k.GetSpreadRewardAccumulator(e.ctx(), e.poolId)
	if err != nil {
		return "err-accum"
	}
	ticks, _ := k.GetAllInitializedTicksForPool(e.ctx(), e.poolId)
	var os []string
	for _, t := range ticks {
		os = append(os, fmt.Sprintf("%d:%s", t.TickIndex, pair(t.Info.SpreadRewardGrowthOppositeDirectionOfLastTraversal)))
	}
	ids := make([]uint64, 0, len(e.pos))
	for id := range e.pos {
		ids = append(ids, id)
	}
	sort.Slice(ids, func(i, j int) bool { return ids[i] < ids[j] })
	var rs, cs []string
	for _, id := range ids {
		rec, err := acc.GetPosition(cltypes.KeySpreadRewardPositionAccumulator(id))
		if err == nil {
			rs = append(rs, fmt.Sprintf("%d:%s:%s:%s", id, rec.NumShares.BigInt(), pair(rec.AccumValuePerShare), pair(rec.UnclaimedRewardsTotal)))
		}
		var c sdk.Coins
		var cerr error
		if !catch(func() { c, cerr = k.GetClaimableSpreadRewards(e.ctx(), id) }) || cerr != nil {
			cs = append(cs, fmt.Sprintf("%d:err", id))
		} else {
			cs = append(cs, fmt.Sprintf("%d:%s,%s", id, c.AmountOf(clDenom0), c.AmountOf(clDenom1)))
		}
	}
	return fmt.Sprintf("ok G=%s TS=%s fee0=%s fee1=%s O[%s] R[%s] C[%s]", pair(acc.GetValue()), acc.GetTotalShares().BigInt(),
		e.bal(p.GetSpreadRewardsAddress(), clDenom0), e.bal(p.GetSpreadRewardsAddress(), clDenom1),
		strings.Join(os, " "), strings.Join(rs, " "), strings.Join(cs, " "))
}

// exportImport: the REAL ExportGenesis (through the JSON codec: the pool is an Any), EVERY key of the concentrated-
// liquidity store deleted, the REAL InitGenesis; the history (swaps, collects, withdrawals, the fee / incentive /
// solvency oracles of C01, C07, C08) continues on the imported store.  Oracle (C19): the raw store must be what it
// was, key by key; the one family the code is known to rebuild differently (per-denom total liquidity, F35) is counted.
func (e *clEngine) exportImport() {
	k := e.h.App.ConcentratedLiquidityKeeper
	o := e.o
	cdc := e.h.App.AppCodec()
	rawOf := func(ctx sdk.Context) map[string]string {
		store := ctx.KVStore(e.h.App.GetKey(cltypes.StoreKey))
		it := store.Iterator(nil, nil)
		defer it.Close()
		out := map[string]string{}
		for ; it.Valid(); it.Next() {
			out[fmt.Sprintf("%x", it.Key())] = fmt.Sprintf("%x", it.Value())
		}
		return out
	}
	pre := rawOf(e.ctx())
	err := e.atomic(func(ctx sdk.Context) error {
		bz := cdc.MustMarshalJSON(k.ExportGenesis(ctx))
		store := ctx.KVStore(e.h.App.GetKey(cltypes.StoreKey))
		var keys [][]byte
		it := store.Iterator(nil, nil)
		for ; it.Valid(); it.Next() {
			keys = append(keys, append([]byte{}, it.Key()...))
		}
		it.Close()
		for _, key := range keys {
			store.Delete(key)
		}
		var gs clgenesis.GenesisState
		cdc.MustUnmarshalJSON(bz, &gs)
		k.InitGenesis(ctx, gs)
		return nil
	})
	if err != nil {
		o.Emit("clp exportimport", "panic", true)
		o.Fail("cl:export-import:panics", err.Error())
		return
	}
	o.Emit("clp exportimport", "ok", true)
	o.Count("exportimport")
	post := rawOf(e.ctx())
	diff := map[string]int{}
	var sample []string
	note := func(key, what string) {
		pfx := key
		if len(pfx) > 2 {
			pfx = pfx[:2]
		}
		diff[pfx+":"+what]++
		if len(sample) < 4 {
			sample = append(sample, what+" "+key)
		}
	}
	for key, v := range pre {
		pv, ok := post[key]
		if !ok {
			note(key, "missing")
		} else if pv != v {
			note(key, "changed")
		}
	}
	for key := range post {
		if _, ok := pre[key]; !ok {
			note(key, "extra")
		}
	}
	// uptime-accumulator position records ("accum||pos||" 0x0c "/pool/uptime" "||" 0x08 <position id>) of positions that
	// no longer exist: the running chain never deletes them, the export lists live positions only
	staleOnly := true
	for key := range pre {
		if _, ok := post[key]; ok || !strings.HasPrefix(key, "616363756d7c7c706f737c7c0c") {
			continue
		}
		i := strings.LastIndex(key, "7c7c08")
		var idStr []byte
		if i >= 0 {
			fmt.Sscanf(key[i+6:], "%x", &idStr)
		}
		var id uint64
		fmt.Sscan(string(idStr), &id)
		if _, err := k.GetPosition(e.ctx(), id); i < 0 || err == nil {
			staleOnly = false
		}
	}
	for d, n := range diff {
		if strings.HasPrefix(d, "13:") { // KeyTotalLiquidity: recomputed from the pool balances (F35)
			o.Count("exportimport.total-liquidity-recomputed")
			continue
		}
		if d == "61:missing" && staleOnly {
			// raw-store only (Props/C19CL.cl_prune_unobservable: no message or query reads them): the running chain keeps the six uptime-
			// accumulator records of a position after the position is deleted, the export lists the records of live positions only
			o.Count("exportimport.stale-uptime-records-of-deleted-positions-dropped")
			twLoss(o, "cl:export-import:store-differs:dead-uptime-records-pruned", fmt.Sprintf("%d uptime-accumulator position records of deleted positions in the store before ExportGenesis, none after InitGenesis, e.g. %v", n, sample))
			continue
		}
		if strings.HasPrefix(d, "0e:") { // FullRangeLiquidityPrefix: the running total is rebuilt as the sum over full-range positions
			d = "full-range-liquidity-recomputed"
		}
		if os.Getenv("VERIF_EXPORT_IMPORT_LOSSES") != "count" {
			o.Fail("cl:export-import:store-differs:"+d, fmt.Sprintf("%d keys, e.g. %v", n, sample))
		} else {
			o.Count("exportimport.LOSS.cl:export-import:store-differs:" + d)
		}
	}
	o.Emit("clp nextid", fmt.Sprintf("ok %d", k.GetNextPositionId(e.ctx())), true)
	o.Emit("clp dump", e.dumpImpl(), true)
	// F41: the full-range liquidity record as the imported node reports it (the model: sum over the full-range positions; the record
	// does not exist when InitGenesis met no full-range position, which the model writes as 0)
	if fr, err := k.GetFullRangeLiquidityInPool(e.ctx(), e.poolId); err == nil {
		o.Emit("clp fullrange-imported", "ok "+fr.BigInt().String(), true)
		o.Count("exportimport.fullrange-record.present")
	} else if !e.ctx().KVStore(e.h.App.GetKey(cltypes.StoreKey)).Has(cltypes.KeyFullRangeLiquidityPrefix(e.poolId)) {
		o.Emit("clp fullrange-imported", "ok 0", true)
		o.Count("exportimport.fullrange-record.absent")
	} else {
		o.Emit("clp fullrange-imported", "err", true)
	}
}

func (e *clEngine) ownerName(addr string) string {
	for i, a := range e.accs {
		if a.String() == addr {
			return fmt.Sprintf("acc%d", i)
		}
	}
	return "other"
}

func (e *clEngine) randTick() int64 {
	p := e.pool()
	cur := p.GetCurrentTick()
	var t int64
	if len(e.pos) > 0 && e.r.Intn(4) == 0 { // abut / nest: reuse a boundary of an existing position
		q := e.anyPos()
		if e.r.Intn(2) == 0 {
			return q.lower
		}
		return q.upper
	}
	switch e.r.Intn(6) {
	case 0:
		t = cur + int64(e.r.Intn(2001)-1000)*e.spacing
	case 1:
		t = cur + int64(e.r.Intn(21)-10)*e.spacing
	case 2:
		t = cur // exactly on the current tick
	case 3:
		t = cur + int64(e.r.Intn(200001)-100000)*e.spacing
	case 4:
		t = int64(e.r.Intn(2000001)-1000000) * e.spacing
	default:
		if e.r.Intn(2) == 0 {
			t = cltypes.MinInitializedTick
		} else {
			t = cltypes.MaxTick
		}
	}
	// align to spacing (floor)
	m := ((t % e.spacing) + e.spacing) % e.spacing
	t -= m
	if e.r.Intn(40) == 0 {
		t += 1 // misaligned on purpose (error path) when spacing > 1
	}
	return t
}

func (e *clEngine) randAmount() *big.Int {
	a := e.randAmountBase()
	if e.mag > 0 && e.r.Intn(3) != 0 {
		a.Mul(a, pow10(e.mag))
	}
	return a
}

func (e *clEngine) randAmountBase() *big.Int {
	switch e.r.Intn(6) {
	case 0:
		return big.NewInt(int64(1 + e.r.Intn(10)))
	case 1:
		return big.NewInt(int64(1 + e.r.Intn(100000)))
	case 2:
		return new(big.Int).Mul(big.NewInt(int64(1+e.r.Intn(1000))), pow10(6))
	case 3:
		return new(big.Int).Mul(big.NewInt(int64(1+e.r.Intn(1000))), pow10(9+e.r.Intn(6)))
	case 4:
		return new(big.Int).Rand(e.r, pow10(12))
	default:
		return new(big.Int).Mul(big.NewInt(int64(1+e.r.Intn(9))), pow10(e.r.Intn(16)))
	}
}

func runCL(t *testing.T, seed int64, n int, dir string) {
	r := rand.New(rand.NewSource(seed))
	o := NewOut(dir)
	o.keepHist = true
	h := newH(t)
	spacings := []int64{1, 10, 100, 1000}
	done := 0
	for done < n {
		h.Reset()
		e := &clEngine{h: h, o: o, r: r, pos: map[uint64]*clPos{}, inc: newIncState(), forceUptime: -1}
		authMask := 0
		{ // a random non-empty subset of the six supported uptimes (1ns, 1min, 1h, 1d, 1w, 2w) is authorised per history; one history
			// in eight keeps the chain default (1ns only)
			prm := h.App.ConcentratedLiquidityKeeper.GetParams(h.Ctx)
			if r.Intn(8) == 0 {
				authMask = 1
			} else {
				for authMask&^1 == 0 { // at least one non-default uptime
					authMask = r.Intn(64)
				}
			}
			prm.AuthorizedUptimes = nil
			for i, u := range cltypes.SupportedUptimes {
				if authMask>>i&1 == 1 {
					prm.AuthorizedUptimes = append(prm.AuthorizedUptimes, u)
					e.auth = append(e.auth, i)
					o.Count("pool.authorized-uptime:" + uptimeLabel(i))
				}
			}
			h.App.ConcentratedLiquidityKeeper.SetParams(h.Ctx, prm)
			o.Count(fmt.Sprintf("pool.authorized-uptimes=%d", len(e.auth)))
		}
		e.feesPaid = [2]*big.Int{new(big.Int), new(big.Int)}
		e.feesOut = [2]*big.Int{new(big.Int), new(big.Int)}
		e.spacing = spacings[r.Intn(4)]
		e.spf = cltypes.AuthorizedSpreadFactors[r.Intn(len(cltypes.AuthorizedSpreadFactors))]
		if r.Intn(5) == 0 { // zero spread factor more often than 1 in 7: every step amount is then a whole number and swaps can end EXACTLY on a tick
			e.spf = osmomath.ZeroDec()
		}
		e.mag = []int{0, 0, 6, 12}[r.Intn(4)]
		e.accs = h.TestAccs[:3]
		for _, a := range e.accs {
			h.FundAcc(a, sdk.NewCoins(sdk.NewCoin(clDenom0, osmomath.NewIntFromBigInt(pow10(30+e.mag))), sdk.NewCoin(clDenom1, osmomath.NewIntFromBigInt(pow10(30+e.mag))), sdk.NewCoin("uosmo", osmomath.NewIntFromBigInt(pow10(20)))))
		}
		// pools on either side of the accumulator scaling migration: with the threshold moved past the next pool id
		// the pool uses scaling factor one (forfeited claim dust then goes back into the accumulator)
		if r.Intn(2) == 0 {
			h.App.ConcentratedLiquidityKeeper.SetSpreadFactorPoolIDMigrationThreshold(h.Ctx, 1<<40)
		}
		if r.Intn(2) == 0 { // the incentive accumulators have their own migration threshold
			h.App.ConcentratedLiquidityKeeper.SetIncentivePoolIDMigrationThreshold(h.Ctx, 1<<40)
		}
		// other concentrated pools with LOWER pool ids (cl_pools_test.go); one history in eight is the only pool of its chain
		nLower, nHigher := 0, 0
		if r.Intn(8) != 0 {
			nLower, nHigher = r.Intn(3), r.Intn(3)
			if r.Intn(6) == 0 { // pool ids 1 / 10 / 11
				if r.Intn(2) == 0 {
					nLower = 1
					e.addExtraPool(r.Intn(3) != 0)
					e.fillerPools(8)
					nLower = 0
				} else {
					nHigher = -1
				}
			}
		}
		for i := 0; i < nLower; i++ {
			e.addExtraPool(r.Intn(3) != 0)
		}
		p := h.PrepareCustomConcentratedPool(e.accs[0], clDenom0, clDenom1, uint64(e.spacing), e.spf)
		e.poolId = p.GetId()
		scale, err := h.App.ConcentratedLiquidityKeeper.VerifSpreadFactorScalingFactor(h.Ctx, e.poolId)
		if err != nil {
			t.Fatal(err)
		}
		ifactor, err := h.App.ConcentratedLiquidityKeeper.VerifIncentiveScalingFactor(h.Ctx, e.poolId)
		if err != nil {
			t.Fatal(err)
		}
		e.inc.t0 = h.Ctx.BlockTime()
		e.scale, e.ifactor = scale, ifactor
		o.Emit(fmt.Sprintf("clp reset %d %s %s %s %d", e.spacing, e.spf.BigInt(), scale.BigInt(), ifactor.BigInt(), authMask), "ok", true)
		e.resetDone = true
		if nid := h.App.ConcentratedLiquidityKeeper.GetNextPositionId(h.Ctx); nid != 1 {
			o.Emit(fmt.Sprintf("clp setnextid %d", nid), "ok", true)
		}
		if nHigher < 0 { // the pool under test is pool 1 (or follows the lower ones); fill up to id 9, then pools 10 and 11
			e.fillerPools(int(9 - e.poolId))
			nHigher = 2
		}
		for i := 0; i < nHigher; i++ {
			e.addExtraPool(r.Intn(3) != 0)
		}
		o.Count(fmt.Sprintf("pools.lower=%d,higher=%d", len(e.extra)-nHigher, nHigher))
		o.Count("pool.incfactor" + ifactor.String()[:4])
		o.Count("pool.scale" + scale.String()[:4])
		o.Count(fmt.Sprintf("pool.spacing%d", e.spacing))
		o.Count(fmt.Sprintf("pool.magnitude1e%d", e.mag))
		if e.spf.IsZero() {
			o.Count("pool.spread-factor-zero")
		}
		e.openingScript()
		nops := 25 + r.Intn(50)
		for i := 0; i < nops && done < n; i++ {
			done++
			e.opn++
			e.landedNow, e.wantSolvency = false, false
			xsnap := e.extraSnapshots()
			e.step()
			if e.opClass != "other-pool" { // frame: an op on the pool under test changes nothing in the other pools
				e.extraFrame(xsnap)
			}
			// C07 right after the op (in particular right after a swap that ended exactly on an initialised tick)
			e.oracleBookkeeping()
			e.extraBookkeeping()
			// partial fills at the price limit from this state, on a discarded branch (more often while the history is young:
			// few ticks, so that the final integer conversion is not buried under the per-step roundings)
			if len(e.pos) > 0 && (e.opn <= 12 || e.r.Intn(4) == 0) {
				e.probeLimit(e.r.Intn(4) != 0, e.r.Intn(3) != 0)
				if e.opn <= 12 {
					e.probeLimit(e.r.Intn(4) != 0, e.r.Intn(3) != 0)
				}
			}
			reimported := false
			if e.r.Intn(12) == 0 {
				e.exportImport()
				reimported = true
			}
			o.Emit("clp fdump", e.dumpFeesImpl(), true)
			o.Emit("clp idump", e.dumpIncImpl(), true)
			e.oracleNoLoss(e.opClass)
			e.oracleJoinTimes()
			e.oracleIncentives()
			if e.r.Intn(3) == 0 {
				o.Emit("clp dump", e.dumpImpl(), true)
			}
			if reimported {
				e.oracleBookkeeping()
			}
			if e.wantSolvency || e.landedNow && e.r.Intn(2) == 0 || e.r.Intn(6) == 0 {
				e.oracleSolvency()
			}
		}
		o.Emit("clp dump", e.dumpImpl(), true)
		e.oracleSolvency()
	}
	o.Close(nil)
}

func (e *clEngine) step() {
	// LP/trader accounts never run dry (the model has no account balances)
	for _, a := range e.accs {
		for _, d := range []string{clDenom0, clDenom1, "uosmo"} {
			if e.bal(a, d).Cmp(pow10(29+e.mag)) < 0 {
				e.h.FundAcc(a, sdk.NewCoins(sdk.NewCoin(d, osmomath.NewIntFromBigInt(pow10(30+e.mag)))))
			}
		}
	}
	if len(e.extra) > 0 && len(e.queue) == 0 && e.r.Intn(12) == 0 { // an op on one of the other pools (oracle-only)
		e.opClass = "other-pool"
		e.otherPoolOp()
		return
	}
	k := e.h.App.ConcentratedLiquidityKeeper
	ms := cl.NewMsgServerImpl(k)
	o := e.o
	kind := e.r.Intn(100)
	e.forced, e.forcePos = false, 0
	e.inc.opYoung = map[string]bool{} // set by the claim-like op of this step (claimClasses), read by oracle (b) after it
	arg := 0
	if len(e.queue) > 0 {
		st := e.queue[0]
		e.queue = e.queue[1:]
		arg = st.arg
		id := st.id
		if id == ^uint64(0) {
			id = e.lastNew
		}
		if id == ^uint64(0)-1 {
			id = 0
			if len(e.pos) > 0 {
				id = e.anyPos().id
			}
		}
		if _, ok := e.pos[id]; ok || st.id == 0 {
			kind, e.forced, e.forcePos = st.kind, true, id
			o.Count("script.step")
		} else {
			e.queue = nil // the position is gone (e.g. the scripted op failed): drop the rest of the sequence
		}
	} else if len(e.pos) > 0 && e.r.Intn(28) == 0 {
		// directed sequence: a swap that ends EXACTLY on an initialised tick, then further swaps / LP ops, then everybody withdraws
		dir := 1 + e.r.Intn(2)
		e.queue = []scriptStep{{kind: kSwapLand, arg: dir | e.r.Intn(3)<<2}}
		switch e.r.Intn(4) {
		case 0: // on along the same direction, landing again
			e.queue = append(e.queue, scriptStep{kind: kSwapLand, arg: dir | e.r.Intn(3)<<2})
		case 1: // straight back
			e.queue = append(e.queue, scriptStep{kind: kSwapBack})
		case 2:
			e.queue = append(e.queue, scriptStep{kind: kSwap})
		}
		switch e.r.Intn(4) {
		case 0:
			e.queue = append(e.queue, scriptStep{kind: kWithdraw, id: ^uint64(0) - 1})
		case 1:
			e.queue = append(e.queue, scriptStep{kind: kAdd, id: ^uint64(0) - 1})
		case 2:
			e.queue = append(e.queue, scriptStep{kind: kCreate})
		}
		if e.r.Intn(2) == 0 {
			e.queue = append(e.queue, scriptStep{kind: kSwap})
		}
		e.queue = append(e.queue, scriptStep{kind: kSolvency})
		o.Count("script.land-sequence")
		st := e.queue[0]
		e.queue = e.queue[1:]
		kind, arg, e.forced = st.kind, st.arg, true
	} else if len(e.pos) > 0 && e.r.Intn(28) == 0 {
		// directed sequence: incentive record(s) that run dry -> time jump overshooting their end -> (swap) -> claim / withdraw / add -> everybody withdraws
		e.queue = []scriptStep{{kind: kIncentiveDry}}
		for e.r.Intn(2) == 0 && len(e.queue) < 3 { // several records (same denom and uptime, ending at different moments)
			e.queue = append(e.queue, scriptStep{kind: kIncentiveDry, arg: 1})
		}
		if e.r.Intn(3) == 0 { // a first advance that does not yet exhaust everything
			e.queue = append(e.queue, scriptStep{kind: kAdvance})
		}
		if e.r.Intn(3) == 0 {
			e.queue = append(e.queue, scriptStep{kind: kSwap})
		}
		e.queue = append(e.queue, scriptStep{kind: kAdvanceLong})
		switch e.r.Intn(5) {
		case 0:
			e.queue = append(e.queue, scriptStep{kind: kWithdraw, id: ^uint64(0) - 1})
		case 1:
			e.queue = append(e.queue, scriptStep{kind: kAdd, id: ^uint64(0) - 1})
		case 2:
			e.queue = append(e.queue, scriptStep{kind: kSwap})
		default:
			e.queue = append(e.queue, scriptStep{kind: kICollect, id: ^uint64(0) - 1})
		}
		e.queue = append(e.queue, scriptStep{kind: kSolvency})
		o.Count("script.dry-incentive-sequence")
		st := e.queue[0]
		e.queue = e.queue[1:]
		kind, arg, e.forced = st.kind, st.arg, true
	} else if nd := e.nonDefaultAuth(); len(nd) > 0 && len(e.pos) > 0 && e.r.Intn(7) == 0 {
		e.queue = e.uptimeScript(nd)
		o.Count("script.uptime-sequence")
		st := e.queue[0]
		e.queue = e.queue[1:]
		kind, arg, e.forced = st.kind, st.arg, true // the first step never names a position
	} else if len(e.pos) > 0 && e.r.Intn(9) == 0 {
		// directed sequence on one position, preferably one that is in range now (so that the first swap accrues to it)
		q := e.anyPos()
		cur := e.pool().GetCurrentTick()
		for try := 0; try < 6 && !(q.lower <= cur && cur < q.upper); try++ {
			q = e.anyPos()
		}
		var mid scriptStep
		last := scriptStep{kind: kCollect, id: q.id}
		if e.r.Intn(3) == 0 {
			// incentive sequence: record -> time -> (swap, maybe crossing) -> time -> collect incentives / withdraw / add on q
			var fin scriptStep
			switch e.r.Intn(4) {
			case 0:
				fin = scriptStep{kind: kWithdraw, id: q.id}
			case 1:
				fin = scriptStep{kind: kAdd, id: q.id}
			default:
				fin = scriptStep{kind: kICollect, id: q.id}
			}
			e.queue = []scriptStep{{kind: kIncentive, id: 0}, {kind: kAdvance, id: 0}, {kind: kSwap, id: 0}, {kind: kAdvance, id: 0}, fin}
			if e.r.Intn(2) == 0 {
				e.queue = append(e.queue, scriptStep{kind: kAdvance, id: 0}, scriptStep{kind: kICollect, id: ^uint64(0) - 1})
			}
			o.Count("script.incentive-sequence")
			st := e.queue[0]
			e.queue = e.queue[1:]
			kind, e.forced = st.kind, true
			goto scripted
		}
		switch e.r.Intn(3) {
		case 0:
			mid = scriptStep{kind: kWithdraw, id: q.id}
			o.Count("script.accrue-partialwithdraw-claim")
		case 1:
			mid = scriptStep{kind: kAdd, id: q.id}
			last = scriptStep{kind: kCollect, id: ^uint64(0)}
			o.Count("script.accrue-add-claim")
		default:
			mid = scriptStep{kind: kTransfer, id: q.id}
			o.Count("script.accrue-transfer-claim")
		}
		e.queue = []scriptStep{{kind: kSwap, id: 0}, mid}
		if e.r.Intn(2) == 0 {
			e.queue = append(e.queue, scriptStep{kind: kSwap, id: 0})
		}
		if e.r.Intn(4) == 0 { // a second partial withdrawal before the claim: the parked rewards must survive another update
			e.queue = append(e.queue, scriptStep{kind: kWithdraw, id: last.id})
		}
		e.queue = append(e.queue, last)
		st := e.queue[0]
		e.queue = e.queue[1:]
		kind, e.forced = st.kind, true
	}
scripted:
	fullRange, smallFirst, inRange, fullWithdraw := false, false, false, false
	if kind == kCreate {
		kind, fullRange, smallFirst = 0, arg >= 1, arg == 2
	}
	if kind == kCreateIn {
		kind, inRange = 0, true
	}
	if kind == kWithdrawFull {
		kind, fullWithdraw = kWithdraw, true
	}
	if len(e.pos) == 0 && kind != 0 {
		kind = 0
		e.queue = nil
	}
	switch {
	case kind == kSolvency: // no op: the everybody-withdraws oracle runs right after (runCL)
		e.opClass = "solvency"
		e.wantSolvency = true
	case kind == kSwapLand || kind == kSwapLimit || kind == kSwapBack:
		e.opClass = "swap"
		ov := &swapOv{ogi: e.r.Intn(2) == 0, zfo: e.r.Intn(2) == 0}
		if kind != kSwapBack {
			if arg&3 != 0 {
				ov.zfo = arg&3 == 1
			}
			if arg>>2&3 != 0 {
				ov.ogi = arg>>2&3 == 1
			}
		}
		switch kind {
		case kSwapLand:
			ov.class = "land"
		case kSwapLimit:
			ov.class = "limit"
		default:
			if e.lastSwap.ok && e.lastSwap.got.Sign() > 0 { // all / a half / a third of the proceeds
				back := new(big.Int).Quo(e.lastSwap.got, big.NewInt(int64(1+arg%3)))
				if back.Sign() > 0 {
					ov.ogi, ov.zfo, ov.class, ov.amt = true, !e.lastSwap.zfo, "given", back
				}
			}
		}
		e.swapOverride = ov
		e.swap()
	case kind == kIncentiveDry:
		e.opClass = "create-incentive"
		if arg == 1 {
			e.createIncentiveClass("same-denom")
		} else {
			e.createIncentiveClass("dry")
		}
	case kind == kAdvanceLong:
		e.opClass = "advance"
		e.advanceTime(e.overshootDuration())
	case kind == kAdvanceAge:
		e.opClass = "advance"
		e.advanceToAge(e.anyPos(), arg/8, arg%8)
	case kind == kIncentiveUptime:
		e.opClass = "create-incentive"
		e.forceUptime = arg
		e.createIncentiveClass("")
		e.forceUptime = -1
	case kind < 28: // create position (sometimes as twin / k-multiple of the previous one)
		e.opClass = "create"
		owner := e.r.Intn(3)
		var lower, upper int64
		var a0, a1 *big.Int
		lower, upper = e.randTick(), e.randTick()
		if lower > upper {
			lower, upper = upper, lower
		}
		if lower == upper && e.r.Intn(10) != 0 {
			upper = lower + e.spacing*int64(1+e.r.Intn(100))
		}
		a0, a1 = e.randAmount(), e.randAmount()
		if len(e.pos) == 0 && (fullRange || e.r.Intn(20) != 0) { // sensible first position: wide, balanced around price a1/a0
			a0 = new(big.Int).Mul(big.NewInt(int64(1+e.r.Intn(1000))), pow10(9+e.mag))
			a1 = new(big.Int).Mul(big.NewInt(int64(1+e.r.Intn(1000))), pow10(9+e.mag))
			if smallFirst {
				a0 = new(big.Int).Mul(big.NewInt(int64(1+e.r.Intn(1000))), pow10(3+e.r.Intn(5)))
				a1 = new(big.Int).Mul(big.NewInt(int64(1+e.r.Intn(1000))), pow10(3+e.r.Intn(5)))
			}
			lower, upper = cltypes.MinInitializedTick, cltypes.MaxTick
			if !fullRange && e.r.Intn(3) == 0 {
				lower, upper = -100000*e.spacing, 100000*e.spacing
			}
		} else if inRange { // a range around the current tick (the position earns incentives from its first moment)
			cur := e.pool().GetCurrentTick()
			base := cur - ((cur%e.spacing)+e.spacing)%e.spacing
			lower = base - int64(e.r.Intn(200))*e.spacing
			upper = base + int64(1+e.r.Intn(200))*e.spacing
			if lower < cltypes.MinInitializedTick {
				lower = cltypes.MinInitializedTick
			}
			if upper > cltypes.MaxTick {
				upper = cltypes.MaxTick
			}
			a0 = new(big.Int).Mul(big.NewInt(int64(1+e.r.Intn(1000))), pow10(6+e.mag+e.r.Intn(4)))
			a1 = new(big.Int).Mul(big.NewInt(int64(1+e.r.Intn(1000))), pow10(6+e.mag+e.r.Intn(4)))
		}
		id, ok := e.create(owner, lower, upper, a0, a1)
		if ok && e.r.Intn(3) == 0 { // fairness twins: same block, same range, same amounts, other owner
			base := e.pos[id]
			kk := int64(1)
			if e.r.Intn(2) == 0 {
				kk = int64(2 + e.r.Intn(5))
			}
			id2, ok2 := e.create((owner+1)%3, base.lower, base.upper, new(big.Int).Mul(a0, big.NewInt(kk)), new(big.Int).Mul(a1, big.NewInt(kk)))
			if ok2 {
				q := e.pos[id2]
				if kk == 1 && q.liq.Cmp(base.liq) == 0 {
					q.twinOf = id
					o.Count("fair.twin-created")
				} else if kk > 1 {
					q.kOf, q.k = id, kk
					o.Count("fair.k-created")
				}
			}
		}
	case kind < 40: // withdraw (partial / full)
		e.opClass = "withdraw"
		q := e.anyPos()
		owner := q.owner
		if e.r.Intn(15) == 0 && !e.forced {
			owner = (owner + 1) % 3 // wrong owner: error path
		}
		liq := new(big.Int).Set(q.liq)
		sel := e.r.Intn(5)
		if e.forced {
			sel = 0 // scripted: a genuine partial withdrawal
		}
		if fullWithdraw {
			sel = 3
		}
		snap := e.incBefore(q, owner)
		switch sel {
		case 4: // withdraw exactly the difference to a neighbour sharing a boundary tick, so that tick's NET becomes zero while its gross stays positive
			for _, o2 := range e.pos {
				if o2.id != q.id && (o2.upper == q.lower || o2.lower == q.upper) && o2.liq.Cmp(q.liq) < 0 {
					liq = new(big.Int).Sub(q.liq, o2.liq)
					e.o.Count("withdraw.directed-net-zero")
					break
				}
			}
		case 0:
			liq.Quo(liq, big.NewInt(int64(2+e.r.Intn(9))))
		case 1:
			liq = new(big.Int).Rand(e.r, new(big.Int).Add(q.liq, big.NewInt(1)))
		case 2:
			if e.r.Intn(5) == 0 {
				liq.Add(liq, big.NewInt(1)) // more than held
			}
		}
		var a0, a1 osmomath.Int
		err := e.atomic(func(ctx sdk.Context) error {
			var err error
			a0, a1, err = k.WithdrawPosition(ctx, e.accs[owner], q.id, sd(liq))
			return err
		})
		line := fmt.Sprintf("clp withdraw acc%d %d %s", owner, q.id, liq)
		if err != nil {
			o.Emit(line, "err", true)
			o.Count("withdraw.err")
			return
		}
		o.Emit(line, fmt.Sprintf("ok a0=%s a1=%s", a0, a1), true)
		o.Count("withdraw.ok")
		q.untouched = false
		q.liq.Sub(q.liq, liq)
		if q.liq.Sign() == 0 {
			delete(e.pos, q.id)
			o.Count("withdraw.full")
			e.opClass = "withdraw-full"
		} else {
			o.Count("withdraw.partial")
			e.opClass = "withdraw-partial"
		}
		e.addDust(-1, e.liqUnit())
		e.incAfter(snap, owner, "withdraw", e.pool().GetLiquidity().BigInt())
		if q.liq.Sign() == 0 {
			e.posGone(q.id)
		}
	case kind < 46: // add to position (= withdraw all + create under a new id) : through the msg server
		e.opClass = "add"
		q := e.anyPos()
		a0, a1 := e.randAmount(), e.randAmount()
		snap := e.incBefore(q, q.owner)
		var resp *cltypes.MsgAddToPositionResponse
		oldLiq := new(big.Int).Set(q.liq)
		err := e.atomic(func(ctx sdk.Context) error {
			var err error
			resp, err = ms.AddToPosition(ctx, &cltypes.MsgAddToPosition{PositionId: q.id, Sender: e.accs[q.owner].String(),
				Amount0: osmomath.NewIntFromBigInt(a0), Amount1: osmomath.NewIntFromBigInt(a1), TokenMinAmount0: osmomath.ZeroInt(), TokenMinAmount1: osmomath.ZeroInt()})
			return err
		})
		line := fmt.Sprintf("clp add acc%d %d %s %s", q.owner, q.id, a0, a1)
		_ = oldLiq
		if err != nil {
			o.Emit(line, "err", true)
			o.Count("add.err")
			return
		}
		o.Emit(line, fmt.Sprintf("ok id=%d a0=%s a1=%s", resp.PositionId, resp.Amount0, resp.Amount1), true)
		o.Count("add.ok")
		np, _ := k.GetPosition(e.ctx(), resp.PositionId)
		delete(e.pos, q.id)
		// the forfeited incentives of the old position were redeposited after its withdrawal and before the new one existed
		lmid := e.pool().GetLiquidity().BigInt()
		if cur := e.pool().GetCurrentTick(); np.LowerTick <= cur && cur < np.UpperTick {
			lmid = new(big.Int).Sub(lmid, np.Liquidity.BigInt())
		}
		e.addDust(-1, e.liqUnit())
		e.incAfter(snap, q.owner, "add", lmid)
		e.posGone(q.id)
		// the successor is in range whenever the current tick is inside its range (it then also receives the claim dust that
		// other positions' claims put back into the accumulator on unscaled pools, without any swap)
		curNow := e.pool().GetCurrentTick()
		e.pos[resp.PositionId] = &clPos{id: resp.PositionId, owner: q.owner, lower: np.LowerTick, upper: np.UpperTick, liq: np.Liquidity.BigInt(),
			everInRange: q.everInRange || np.LowerTick <= curNow && curNow < np.UpperTick}
		e.posCreated(resp.PositionId)
		e.lastNew = resp.PositionId
	case kind < 80: // swap
		e.opClass = "swap"
		e.swap()
	case kind < 86: // collect spread rewards (by the owner; sometimes by somebody else: error, nothing changes)
		e.opClass = "collect"
		q := e.anyPos()
		sender := q.owner
		if e.r.Intn(8) == 0 && !e.forced {
			sender = (sender + 1 + e.r.Intn(2)) % 3
		}
		var resp *cltypes.MsgCollectSpreadRewardsResponse
		var claimable sdk.Coins
		if !catch(func() { claimable, _ = k.GetClaimableSpreadRewards(e.ctx(), q.id) }) {
			o.Fail("rewards:claimable-query-panicked", fmt.Sprintf("op %d pos %d", e.opn, q.id))
			return
		}
		feeAddr := e.pool().GetSpreadRewardsAddress()
		f0, f1 := e.bal(feeAddr, clDenom0), e.bal(feeAddr, clDenom1)
		err := e.atomic(func(ctx sdk.Context) error {
			var err error
			resp, err = ms.CollectSpreadRewards(ctx, &cltypes.MsgCollectSpreadRewards{PositionIds: []uint64{q.id}, Sender: e.accs[sender].String()})
			return err
		})
		line := fmt.Sprintf("clp collect acc%d %d", sender, q.id)
		if sender != q.owner {
			o.Count("collect.spread-non-owner")
			if err == nil {
				o.Emit(line, "ok", true)
				o.Fail("rewards:collect-by-non-owner-succeeded", fmt.Sprintf("op %d pos %d", e.opn, q.id))
			} else {
				o.Emit(line, "err", true)
			}
			return
		}
		o.Count("collect.spread")
		if err != nil {
			o.Emit(line, "err", true)
			o.Fail("rewards:collect-spread-failed", fmt.Sprintf("op %d pos %d: %v", e.opn, q.id, err))
			return
		}
		o.Emit(line, fmt.Sprintf("ok c0=%s c1=%s", resp.CollectedSpreadRewards.AmountOf(clDenom0), resp.CollectedSpreadRewards.AmountOf(clDenom1)), true)
		if !resp.CollectedSpreadRewards.IsZero() {
			o.Count("collect.spread-nonzero")
		}
		q.untouched = false
		e.addDust(-1, e.liqUnit())
		if !resp.CollectedSpreadRewards.Equal(claimable) {
			o.Fail("rewards:collected!=claimable-query", fmt.Sprintf("op %d pos %d got %s query %s", e.opn, q.id, resp.CollectedSpreadRewards, claimable))
		}
		// exactly the collected coins left the spread-reward address
		g0, g1 := e.bal(feeAddr, clDenom0), e.bal(feeAddr, clDenom1)
		if new(big.Int).Sub(f0, g0).Cmp(resp.CollectedSpreadRewards.AmountOf(clDenom0).BigInt()) != 0 ||
			new(big.Int).Sub(f1, g1).Cmp(resp.CollectedSpreadRewards.AmountOf(clDenom1).BigInt()) != 0 {
			o.Fail("rewards:collect-moved-other-than-collected", fmt.Sprintf("op %d pos %d", e.opn, q.id))
		}
		e.feesOut[0].Add(e.feesOut[0], resp.CollectedSpreadRewards.AmountOf(clDenom0).BigInt())
		e.feesOut[1].Add(e.feesOut[1], resp.CollectedSpreadRewards.AmountOf(clDenom1).BigInt())
		// claiming again immediately yields nothing (no duplication)
		var again sdk.Coins
		if !catch(func() { again, _ = k.GetClaimableSpreadRewards(e.ctx(), q.id) }) {
			o.Fail("rewards:claimable-query-panicked", fmt.Sprintf("op %d pos %d", e.opn, q.id))
			return
		}
		if !again.IsZero() {
			o.Fail("rewards:duplicate-claim", fmt.Sprintf("op %d pos %d again %s", e.opn, q.id, again))
		}
	case kind < 90: // collect incentives
		e.opClass = "collect-incentives"
		e.collectIncentivesOp()
	case kind < 93: // create incentive record (random authorised uptime, rate, amount, start now or later; own or shared denom)
		e.opClass = "create-incentive"
		e.createIncentiveClass("")
	case kind < 98: // block time advance (seconds .. days), also while no liquidity is active
		e.opClass = "advance"
		d := time.Duration(1+e.r.Intn(3600)) * time.Second
		switch e.r.Intn(8) {
		case 0:
			d = time.Duration(1+e.r.Intn(48)) * time.Hour
		case 1:
			d = time.Duration(1+e.r.Intn(90)) * time.Second
		case 2: // long idle jump
			d = time.Duration(1+e.r.Intn(30)) * 24 * time.Hour
		case 3: // sub-second parts
			d = time.Duration(1 + e.r.Int63n(int64(3*time.Second)))
		case 4: // just past / just short of the moment the next record runs dry
			d = e.overshootDuration()
		}
		e.advanceTime(d)
	default: // transfer a position
		e.opClass = "transfer"
		q := e.anyPos()
		to := (q.owner + 1 + e.r.Intn(2)) % 3
		tsnap := e.transferBefore(q)
		err := e.atomic(func(ctx sdk.Context) error {
			_, err := ms.TransferPositions(ctx, &cltypes.MsgTransferPositions{PositionIds: []uint64{q.id}, Sender: e.accs[q.owner].String(), NewOwner: e.accs[to].String()})
			return err
		})
		line := fmt.Sprintf("clp transfer acc%d %d acc%d", q.owner, q.id, to)
		if err != nil {
			o.Emit(line, "err", true)
			o.Count("transfer.err")
			return
		}
		o.Emit(line, "ok", true)
		o.Count("transfer.ok")
		// position ids, ranges and liquidity never change through a transfer: only the owner (property C07 e)
		np, err2 := k.GetPosition(e.ctx(), q.id)
		if err2 != nil || np.LowerTick != q.lower || np.UpperTick != q.upper || np.Liquidity.BigInt().Cmp(q.liq) != 0 || np.Address != e.accs[to].String() {
			o.Fail("book:transfer-changed-more-than-owner", line)
		}
		q.owner = to
		q.untouched = false
		e.transferAfter(tsnap)
	}
}

func (e *clEngine) anyPos() *clPos {
	if e.forcePos != 0 {
		if q, ok := e.pos[e.forcePos]; ok {
			return q
		}
	}
	ids := make([]uint64, 0, len(e.pos))
	for id := range e.pos {
		ids = append(ids, id)
	}
	sort.Slice(ids, func(i, j int) bool { return ids[i] < ids[j] })
	return e.pos[ids[e.r.Intn(len(ids))]]
}

func (e *clEngine) create(owner int, lower, upper int64, a0, a1 *big.Int) (uint64, bool) {
	k := e.h.App.ConcentratedLiquidityKeeper
	var data cl.CreatePositionData
	coins := sdk.Coins{}
	if a0.Sign() > 0 {
		coins = coins.Add(sdk.NewCoin(clDenom0, osmomath.NewIntFromBigInt(a0)))
	}
	if a1.Sign() > 0 {
		coins = coins.Add(sdk.NewCoin(clDenom1, osmomath.NewIntFromBigInt(a1)))
	}
	err := e.atomic(func(ctx sdk.Context) error {
		var err error
		data, err = k.CreatePosition(ctx, e.poolId, e.accs[owner], coins, osmomath.ZeroInt(), osmomath.ZeroInt(), lower, upper)
		return err
	})
	line := fmt.Sprintf("clp create acc%d %d %d %s %s", owner, lower, upper, a0, a1)
	if err != nil {
		e.o.Emit(line, "err", true)
		e.o.Count("create.err")
		msg := err.Error()
		if len(msg) > 60 {
			msg = msg[:60]
		}
		e.o.Count("create.err:" + strings.ReplaceAll(msg, " ", "_"))
		return 0, false
	}
	e.o.Emit(line, fmt.Sprintf("ok id=%d a0=%s a1=%s liq=%s lower=%d upper=%d", data.ID, data.Amount0, data.Amount1, data.Liquidity.BigInt(), data.LowerTick, data.UpperTick), true)
	e.o.Count("create.ok")
	e.pos[data.ID] = &clPos{id: data.ID, owner: owner, lower: data.LowerTick, upper: data.UpperTick, liq: data.Liquidity.BigInt(), untouched: true}
	e.posCreated(data.ID)
	e.lastNew = data.ID
	p := e.pool()
	if p.GetCurrentTick() >= data.LowerTick && p.GetCurrentTick() < data.UpperTick {
		e.pos[data.ID].everInRange = true
		e.o.Count("create.in-range")
	} else {
		e.o.Count("create.out-of-range")
	}
	return data.ID, true
}

func bd(raw *big.Int) osmomath.BigDec { return osmomath.NewBigDecFromBigIntWithPrec(raw, 36) }
func sd(raw *big.Int) osmomath.Dec    { return osmomath.NewDecFromBigIntWithPrec(raw, 18) }

// openingScript: directed opening of a history.  In a third of the histories the first position spans the whole tick range
// and is the ONLY one while the pool is drained to the price limit and back (one loop iteration per drain: the swap stops at
// the min / max sqrt price with part of the specified amount left = partial fill), in both directions and kinds.
func (e *clEngine) openingScript() {
	if e.r.Intn(3) != 0 {
		return
	}
	// arg 2: full range with SMALL liquidity (amounts 10^3..10^10): the in-amount that drains the pool towards the minimum
	// price is liquidity x 10^6, and only below ~10^16 is every rounding of the spread charge (a ratio rounded at 18 decimals)
	// worth less than one unit, so that the FINAL integer conversion of the charged amount is what decides
	first := scriptStep{kind: kCreate, arg: 1}
	if e.r.Intn(4) != 0 {
		first.arg = 2
	}
	d := 1
	if e.r.Intn(4) == 0 {
		d = 2
	}
	e.queue = []scriptStep{first, {kind: kSwapLimit, arg: d | 1<<2}, {kind: kSwapBack, arg: e.r.Intn(3)}}
	for i := 0; i < 2+e.r.Intn(3); i++ {
		dd := d
		if e.r.Intn(4) == 0 {
			dd = 3 - d
		}
		kk := 1
		if e.r.Intn(5) == 0 {
			kk = 2 // exact-out request beyond what the pool holds
		}
		e.queue = append(e.queue, scriptStep{kind: kSwapLimit, arg: dd | kk<<2}, scriptStep{kind: kSwapBack, arg: e.r.Intn(3)})
	}
	e.queue = append(e.queue, scriptStep{kind: kSolvency})
	e.o.Count("script.opening-drain")
}
