package app_test

// Engine `cl`, incentive side (property C08, uptime clauses) and the spread-reward NO-LOSS oracle.
// Not part of the Lean pool model (phase 2): these ops write no `clp` line; the pool / tick / position /
// spread-reward comparison (`clp dump`, `clp fdump`) keeps running around them.
//
// Independent bookkeeping (shares no code with keeper or model): the engine logs every block-time advance with the pool
// state it happened in (current tick, active liquidity, live positions) and every redeposit of forfeited incentives; from
// that log alone it computes, per position and incentive record (one private denom per record),
//   bound = Σ intervals [position live ∧ in range ∧ record started] min(rate·dt, remaining) · liq/activeLiq
//         + Σ redeposits [position in range] forfeited · liq/activeLiq
// and checks on the real keeper
//   (i)   claimed + claimable ≤ bound + dust                         key incentives:paid-beyond-in-range-time
//   (ii)  0 ≤ remaining ≤ initial, remaining never increases, equals the logged emission after a sync,
//         Σ positions (claimed + claimable) ≤ initial − remaining   keys incentives:remaining-*, incentives:emitted-beyond-amount
//   (iii) position younger than the record's uptime: nothing claimable, and a withdrawal pays it nothing in that denom
//         while other liquidity stays active                         key incentives:unmet-uptime-paid
//   (iv)  incentive balance ≥ Σ claimable (oracleSolvency).
// Spread rewards, no loss: what sits in the spread-reward address and nobody can claim is bounded by rounding dust
//   balance − Σ claimable ≤ dust        (⇔ Σ claimed + Σ claimable ≥ Σ fees paid in − dust)   key rewards:spread-lost:<op-class>

import (
	"fmt"
	"math/big"
	"sort"
	"strings"
	"time"

	sdk "github.com/cosmos/cosmos-sdk/types"

	"github.com/osmosis-labs/osmosis/osmomath"
	cl "github.com/osmosis-labs/osmosis/v31/x/concentrated-liquidity"
	cltypes "github.com/osmosis-labs/osmosis/v31/x/concentrated-liquidity/types"
)

type clInc struct {
	id        uint64
	denom     string
	rate      *big.Int // Dec raw (per second)
	start     time.Time
	uptime    time.Duration
	initial   *big.Int
	remaining *big.Rat // engine's own (eager) account of the remaining amount
	future    bool     // start time after creation: bound is kept conservative
	lastReal  *big.Rat // last remaining read from the keeper
}

type clIncState struct {
	incs     []*clInc
	bound    map[uint64]map[string]*big.Rat // position id -> denom -> upper bound of what it can have been credited
	paid     map[uint64]map[string]*big.Int // position id -> denom -> incentives paid out so far
	join     map[uint64]time.Time
	synced   bool     // the keeper's accumulators were brought to the current block time since the last advance
	dust     [2]*big.Int // spread rewards: dust budget per pool denom
	nextDen  int
	deadPaid map[string]*big.Int // paid to positions that no longer exist, per denom
	t0       time.Time           // block time at pool creation (time zero of the model)
}

func newIncState() *clIncState {
	return &clIncState{bound: map[uint64]map[string]*big.Rat{}, paid: map[uint64]map[string]*big.Int{}, join: map[uint64]time.Time{}, deadPaid: map[string]*big.Int{}}
}


func showCoins(c sdk.Coins) string {
	if len(c) == 0 {
		return "-"
	}
	var ps []string
	for _, x := range c {
		ps = append(ps, fmt.Sprintf("%s=%s", x.Denom, x.Amount))
	}
	return strings.Join(ps, "+")
}

func showDecCoins(c sdk.DecCoins) string {
	if len(c) == 0 {
		return "-"
	}
	var ps []string
	for _, x := range c {
		ps = append(ps, fmt.Sprintf("%s=%s", x.Denom, x.Amount.BigInt()))
	}
	return strings.Join(ps, "+")
}

func uptimeIndex(d time.Duration) int {
	for i, u := range cltypes.SupportedUptimes {
		if u == d {
			return i
		}
	}
	return -1
}

// dumpIncImpl: the uptime-incentive state of the pool read from the real stores (compared with the Lean model after
// every op): block time and LastLiquidityUpdate (ns since pool creation), the six uptime accumulators (total shares,
// value), every stored tick's six uptime trackers, the incentive records (remaining), every live position's six
// accumulator records, GetClaimableIncentives of every position (collected / forfeited), incentive address balances.
func (e *clEngine) dumpIncImpl() string {
	k := e.h.App.ConcentratedLiquidityKeeper
	p := e.pool()
	accs, err := k.GetUptimeAccumulators(e.ctx(), e.poolId)
	if err != nil {
		return "err-accums"
	}
	var as []string
	for i, a := range accs {
		as = append(as, fmt.Sprintf("%d:%s:%s", i, a.GetTotalShares().BigInt(), showDecCoins(a.GetValue())))
	}
	ticks, _ := k.GetAllInitializedTicksForPool(e.ctx(), e.poolId)
	var ts []string
	for _, t := range ticks {
		var cs []string
		for _, tr := range t.Info.UptimeTrackers.List {
			cs = append(cs, showDecCoins(tr.UptimeGrowthOutside))
		}
		ts = append(ts, fmt.Sprintf("%d:%s", t.TickIndex, strings.Join(cs, "|")))
	}
	recs, _ := k.GetAllIncentiveRecordsForPool(e.ctx(), e.poolId)
	sort.Slice(recs, func(i, j int) bool {
		ui, uj := uptimeIndex(recs[i].MinUptime), uptimeIndex(recs[j].MinUptime)
		if ui != uj {
			return ui < uj
		}
		return recs[i].IncentiveId < recs[j].IncentiveId
	})
	var is []string
	for _, r := range recs {
		is = append(is, fmt.Sprintf("%d:%d:%s:%s", r.IncentiveId, uptimeIndex(r.MinUptime), r.IncentiveRecordBody.RemainingCoin.Denom, r.IncentiveRecordBody.RemainingCoin.Amount.BigInt()))
	}
	ids := make([]uint64, 0, len(e.pos))
	for id := range e.pos {
		ids = append(ids, id)
	}
	sort.Slice(ids, func(i, j int) bool { return ids[i] < ids[j] })
	var rs, cs []string
	for _, id := range ids {
		name := string(cltypes.KeyPositionId(id))
		var one []string
		for i, a := range accs {
			rec, err := a.GetPosition(name)
			if err != nil {
				one = append(one, fmt.Sprintf("%d:none", i))
			} else {
				one = append(one, fmt.Sprintf("%d:%s:%s:%s", i, rec.NumShares.BigInt(), showDecCoins(rec.AccumValuePerShare), showDecCoins(rec.UnclaimedRewardsTotal)))
			}
		}
		rs = append(rs, fmt.Sprintf("%d>%s", id, strings.Join(one, ";")))
		var c, f sdk.Coins
		var cerr error
		if !catch(func() { c, f, cerr = k.GetClaimableIncentives(e.ctx(), id) }) || cerr != nil {
			cs = append(cs, fmt.Sprintf("%d:err", id))
		} else {
			cs = append(cs, fmt.Sprintf("%d:%s/%s", id, showCoins(c), showCoins(f)))
		}
	}
	bal := sdk.Coins{}
	for _, c := range e.h.App.BankKeeper.GetAllBalances(e.ctx(), p.GetIncentivesAddress()) {
		if strings.HasPrefix(c.Denom, "inc") {
			bal = bal.Add(c)
		}
	}
	return fmt.Sprintf("ok now=%d last=%d A[%s] T[%s] I[%s] R[%s] C[%s] B[%s]",
		e.h.Ctx.BlockTime().Sub(e.inc.t0).Nanoseconds(), p.GetLastLiquidityUpdate().Sub(e.inc.t0).Nanoseconds(),
		strings.Join(as, " "), strings.Join(ts, " "), strings.Join(is, " "), strings.Join(rs, " "), strings.Join(cs, " "), showCoins(bal))
}

func ratOfDec(raw *big.Int) *big.Rat { return new(big.Rat).SetFrac(raw, pow10(18)) }

func (e *clEngine) incDenoms() []string {
	var ds []string
	for _, r := range e.inc.incs {
		ds = append(ds, r.denom)
	}
	return ds
}

// posCreated registers a new position id (creation or add-to-position).
func (e *clEngine) posCreated(id uint64) {
	e.inc.bound[id] = map[string]*big.Rat{}
	e.inc.paid[id] = map[string]*big.Int{}
	e.inc.join[id] = e.h.Ctx.BlockTime()
}

func (e *clEngine) addBound(id uint64, denom string, v *big.Rat) {
	m := e.inc.bound[id]
	if m == nil {
		m = map[string]*big.Rat{}
		e.inc.bound[id] = m
	}
	if m[denom] == nil {
		m[denom] = new(big.Rat)
	}
	m[denom].Add(m[denom], v)
}

func (e *clEngine) addPaid(id uint64, denom string, v *big.Int) {
	m := e.inc.paid[id]
	if m == nil {
		m = map[string]*big.Int{}
		e.inc.paid[id] = m
	}
	if m[denom] == nil {
		m[denom] = new(big.Int)
	}
	m[denom].Add(m[denom], v)
}

// creditInRange adds amount·liq/activeLiq to the bound of every live position whose range contains the current tick.
func (e *clEngine) creditInRange(denom string, amount *big.Rat, L *big.Int) {
	p := e.pool()
	if L == nil {
		L = p.GetLiquidity().BigInt()
	}
	if L.Sign() <= 0 {
		return
	}
	cur := p.GetCurrentTick()
	for id, q := range e.pos {
		if q.lower <= cur && cur < q.upper {
			share := new(big.Rat).SetFrac(q.liq, L)
			e.addBound(id, denom, share.Mul(share, amount))
		}
	}
}

// advanceTime: the block time moves on by d; the elapsed interval is attributed to the pool state it happened in.
func (e *clEngine) advanceTime(d time.Duration) {
	p := e.pool()
	L := p.GetLiquidity().BigInt()
	t1 := e.h.Ctx.BlockTime().Add(d)
	secs := new(big.Rat).SetFrac(big.NewInt(int64(d)), big.NewInt(1e9))
	active := L.Cmp(pow10(18)) >= 0 // qualifying liquidity >= 1
	if active {
		e.o.Count("time.advance-active")
	} else {
		e.o.Count("time.advance-zero-liquidity")
		if len(e.pos) > 0 {
			e.o.Count("time.advance-zero-liquidity-with-positions")
		}
	}
	for _, r := range e.inc.incs {
		started := r.start.Before(t1)
		if !started && !r.future {
			continue
		}
		if !active {
			continue
		}
		emit := new(big.Rat).Mul(ratOfDec(r.rate), secs)
		if emit.Cmp(r.remaining) > 0 {
			emit = new(big.Rat).Set(r.remaining)
		}
		if started {
			r.remaining = new(big.Rat).Sub(r.remaining, emit)
		}
		e.creditInRange(r.denom, emit, nil)
	}
	e.h.Ctx = e.h.Ctx.WithBlockTime(t1).WithBlockHeight(e.h.Ctx.BlockHeight() + 1)
	e.inc.synced = false
	e.o.Count("time.advance")
	e.o.Emit(fmt.Sprintf("clp advance %d", int64(d)), "ok", true)
	// sometimes bring the accumulators to now right away (as any pool-touching message would)
	if e.r.Intn(2) == 0 {
		k := e.h.App.ConcentratedLiquidityKeeper
		if err := e.atomic(func(ctx sdk.Context) error { return k.UpdatePoolUptimeAccumulatorsToNow(ctx, e.poolId) }); err == nil {
			e.inc.synced = true
			e.o.Count("time.synced")
			e.o.Emit("clp sync", "ok", true)
		} else {
			e.o.Emit("clp sync", "err", true)
		}
	}
}

func (e *clEngine) createIncentive() {
	k := e.h.App.ConcentratedLiquidityKeeper
	amt := new(big.Int).Mul(big.NewInt(int64(1+e.r.Intn(1000))), pow10(6))
	rate := new(big.Int).Mul(big.NewInt(int64(1+e.r.Intn(100000))), pow10(15))
	if e.r.Intn(4) == 0 { // slow emission: lasts over long idle periods
		rate = new(big.Int).Mul(big.NewInt(int64(1+e.r.Intn(1000))), pow10(15))
	}
	upt := cltypes.SupportedUptimes[0]
	if e.r.Intn(2) == 0 {
		upt = cltypes.SupportedUptimes[e.r.Intn(4)]
	}
	start := e.h.Ctx.BlockTime()
	future := false
	if e.r.Intn(6) == 0 {
		start = start.Add(time.Duration(1+e.r.Intn(7200)) * time.Second)
		future = true
	}
	denom := fmt.Sprintf("inc%d", e.inc.nextDen)
	creator := e.accs[e.r.Intn(3)]
	e.h.FundAcc(creator, sdk.NewCoins(sdk.NewCoin(denom, osmomath.NewIntFromBigInt(amt))))
	var rec cltypes.IncentiveRecord
	err := e.atomic(func(ctx sdk.Context) error {
		var err error
		rec, err = k.CreateIncentive(ctx, e.poolId, creator, sdk.NewCoin(denom, osmomath.NewIntFromBigInt(amt)), sd(rate), start, upt)
		return err
	})
	line := fmt.Sprintf("clp incentive %d %s %s %s %d %d", rec.IncentiveId, denom, amt, rate, start.Sub(e.inc.t0).Nanoseconds(), uptimeIndex(upt))
	if err != nil {
		e.o.Count("incentive.err")
		e.o.Emit(fmt.Sprintf("clp incentive 0 %s %s %s %d %d", denom, amt, rate, start.Sub(e.inc.t0).Nanoseconds(), uptimeIndex(upt)), "err", true)
		return
	}
	e.o.Emit(line, "ok", true)
	e.inc.nextDen++
	e.inc.synced = true // CreateIncentive syncs the accumulators first
	e.inc.incs = append(e.inc.incs, &clInc{id: rec.IncentiveId, denom: denom, rate: rate, start: start, uptime: upt, initial: amt,
		remaining: new(big.Rat).SetInt(amt), future: future, lastReal: new(big.Rat).SetInt(amt)})
	e.o.Count("incentive.ok")
	e.o.Count(fmt.Sprintf("incentive.uptime-%s", upt))
	if future {
		e.o.Count("incentive.future-start")
	}
}

func (e *clEngine) collectIncentivesOp() {
	k := e.h.App.ConcentratedLiquidityKeeper
	ms := cl.NewMsgServerImpl(k)
	q := e.anyPos()
	var c, forf sdk.Coins
	var qerr error
	if !catch(func() { c, forf, qerr = k.GetClaimableIncentives(e.ctx(), q.id) }) || qerr != nil {
		e.o.Fail("incentives:claimable-query-failed", fmt.Sprintf("op %d pos %d %v", e.opn, q.id, qerr))
		return
	}
	var resp *cltypes.MsgCollectIncentivesResponse
	err := e.atomic(func(ctx sdk.Context) error {
		var err error
		resp, err = ms.CollectIncentives(ctx, &cltypes.MsgCollectIncentives{PositionIds: []uint64{q.id}, Sender: e.accs[q.owner].String()})
		return err
	})
	e.o.Count("collect.incentives")
	iline := fmt.Sprintf("clp icollect acc%d %d", q.owner, q.id)
	if err != nil {
		e.o.Emit(iline, "err", true)
		e.o.Fail("rewards:collect-incentives-failed", fmt.Sprintf("op %d pos %d: %v", e.opn, q.id, err))
		return
	}
	e.o.Emit(iline, fmt.Sprintf("ok c=%s f=%s", showCoins(resp.CollectedIncentives), showCoins(resp.ForfeitedIncentives)), true)
	e.inc.synced = true
	if !resp.CollectedIncentives.Equal(c) || !resp.ForfeitedIncentives.Equal(forf) {
		e.o.Fail("incentives:collected!=claimable-query", fmt.Sprintf("op %d pos %d got %s/%s query %s/%s", e.opn, q.id, resp.CollectedIncentives, resp.ForfeitedIncentives, c, forf))
	}
	if !resp.CollectedIncentives.IsZero() {
		e.o.Count("collect.incentives-nonzero")
	}
	if !resp.ForfeitedIncentives.IsZero() {
		e.o.Count("collect.incentives-forfeited")
	}
	for _, coin := range resp.CollectedIncentives {
		e.addPaid(q.id, coin.Denom, coin.Amount.BigInt())
	}
	e.checkUnmetPaid(q, resp.CollectedIncentives, "collect")
	q.untouched = false
}

// checkUnmetPaid: (iii) a position younger than a record's uptime is paid nothing in that record's denom.
func (e *clEngine) checkUnmetPaid(q *clPos, got sdk.Coins, what string) {
	age := e.h.Ctx.BlockTime().Sub(e.inc.join[q.id])
	for _, r := range e.inc.incs {
		if age < r.uptime && got.AmountOf(r.denom).IsPositive() {
			e.o.Fail("incentives:unmet-uptime-paid:"+what, fmt.Sprintf("op %d pos %d age %s uptime %s got %s", e.opn, q.id, age, r.uptime, got))
		}
	}
}

// incBefore / incAfter bracket a withdrawal or add-to-position of position q (which collect, forfeit and redeposit).
type incSnap struct {
	q          *clPos
	c, forf    sdk.Coins
	bal        sdk.Coins
	ok         bool
}

func (e *clEngine) incBefore(q *clPos, owner int) incSnap {
	k := e.h.App.ConcentratedLiquidityKeeper
	s := incSnap{q: q}
	var err error
	if !catch(func() { s.c, s.forf, err = k.GetClaimableIncentives(e.ctx(), q.id) }) || err != nil {
		return s
	}
	s.bal = e.h.App.BankKeeper.GetAllBalances(e.ctx(), e.accs[owner])
	s.ok = true
	return s
}

// incAfter: the op succeeded. `self` is the id that keeps the withdrawn position's liquidity afterwards (0 = gone).
func (e *clEngine) incAfter(s incSnap, owner int, what string, L *big.Int) {
	if !s.ok {
		return
	}
	e.inc.synced = true
	p := e.pool()
	after := e.h.App.BankKeeper.GetAllBalances(e.ctx(), e.accs[owner])
	got := sdk.Coins{}
	for _, d := range e.incDenoms() {
		delta := after.AmountOf(d).Sub(s.bal.AmountOf(d))
		if delta.IsPositive() {
			got = got.Add(sdk.NewCoin(d, delta))
			e.addPaid(s.q.id, d, delta.BigInt())
		}
	}
	_ = p
	stillActive := L.Cmp(pow10(18)) >= 0
	if stillActive {
		// forfeited incentives go back to the accumulators: credited to whoever is in range now
		for _, coin := range s.forf {
			e.creditInRange(coin.Denom, new(big.Rat).SetInt(coin.Amount.BigInt()), L)
		}
		if !s.forf.IsZero() {
			e.o.Count("incentive.forfeit-redeposited")
		}
		e.checkUnmetPaid(s.q, got, what)
		// exactly the claimable part was paid
		for _, d := range e.incDenoms() {
			if !got.AmountOf(d).Equal(s.c.AmountOf(d)) {
				e.o.Fail("incentives:withdraw-paid!=claimable:"+what, fmt.Sprintf("op %d pos %d paid %s claimable %s forfeited %s", e.opn, s.q.id, got, s.c, s.forf))
				break
			}
		}
	} else if !s.forf.IsZero() {
		// no other active liquidity: the code hands the forfeited amount to the withdrawer (the property's stated exception)
		e.o.Count("incentive.forfeit-returned-no-active-liquidity")
		for _, coin := range s.forf {
			e.addBound(s.q.id, coin.Denom, new(big.Rat).SetInt(coin.Amount.BigInt()))
		}
	}
}

func (e *clEngine) posGone(id uint64) {
	for d, v := range e.inc.paid[id] {
		if e.inc.deadPaid[d] == nil {
			e.inc.deadPaid[d] = new(big.Int)
		}
		e.inc.deadPaid[d].Add(e.inc.deadPaid[d], v)
	}
	e.checkBound(id, sdk.Coins{}, "at-exit")
}

func (e *clEngine) checkBound(id uint64, claimable sdk.Coins, where string) {
	for _, r := range e.inc.incs {
		tot := new(big.Int).Set(claimable.AmountOf(r.denom).BigInt())
		if v := e.inc.paid[id][r.denom]; v != nil {
			tot.Add(tot, v)
		}
		b := new(big.Rat)
		if v := e.inc.bound[id][r.denom]; v != nil {
			b.Set(v)
		}
		b.Add(b, big.NewRat(2, 1)) // dust: every credit is truncated in the pool's favour; 2 units of slack for the bound's own rounding
		if new(big.Rat).SetInt(tot).Cmp(b) > 0 {
			e.o.Fail("incentives:paid-beyond-in-range-time:"+where, fmt.Sprintf("op %d pos %d denom %s claimed+claimable %s bound %s (rate %s uptime %s)", e.opn, id, r.denom, tot, b.FloatString(3), r.rate, r.uptime))
		} else if tot.Sign() > 0 {
			e.o.Count("incentive.bound-checked-nonzero")
		}
	}
}

// oracleIncentives: after every op.
func (e *clEngine) oracleIncentives() {
	if len(e.inc.incs) == 0 {
		return
	}
	k := e.h.App.ConcentratedLiquidityKeeper
	now := e.h.Ctx.BlockTime()
	ids := make([]uint64, 0, len(e.pos))
	for id := range e.pos {
		ids = append(ids, id)
	}
	sort.Slice(ids, func(i, j int) bool { return ids[i] < ids[j] })
	sum := map[string]*big.Int{}
	otherActive := e.pool().GetLiquidity().BigInt().Cmp(pow10(18)) >= 0
	for _, id := range ids {
		var c sdk.Coins
		var err error
		if !catch(func() { c, _, err = k.GetClaimableIncentives(e.ctx(), id) }) || err != nil {
			e.o.Fail("incentives:claimable-query-failed", fmt.Sprintf("op %d pos %d %v", e.opn, id, err))
			continue
		}
		e.checkBound(id, c, "live")
		age := now.Sub(e.inc.join[id])
		for _, r := range e.inc.incs {
			a := c.AmountOf(r.denom).BigInt()
			if sum[r.denom] == nil {
				sum[r.denom] = new(big.Int)
			}
			sum[r.denom].Add(sum[r.denom], a)
			if v := e.inc.paid[id][r.denom]; v != nil {
				sum[r.denom].Add(sum[r.denom], v)
			}
			if age < r.uptime && a.Sign() > 0 && otherActive {
				e.o.Fail("incentives:unmet-uptime-paid:claimable", fmt.Sprintf("op %d pos %d age %s uptime %s claimable %s", e.opn, id, age, r.uptime, c))
			}
			if age < r.uptime {
				e.o.Count("incentive.unmet-uptime-checked")
			}
		}
	}
	// (ii) the records
	recs, err := k.GetAllIncentiveRecordsForPool(e.ctx(), e.poolId)
	if err != nil {
		return
	}
	real := map[uint64]*big.Rat{}
	for _, r := range recs {
		real[r.IncentiveId] = ratOfDec(r.IncentiveRecordBody.RemainingCoin.Amount.BigInt())
	}
	for _, r := range e.inc.incs {
		rr, ok := real[r.id]
		if !ok {
			rr = new(big.Rat) // fully emitted records are removed from the store
		}
		if rr.Sign() < 0 || rr.Cmp(new(big.Rat).SetInt(r.initial)) > 0 {
			e.o.Fail("incentives:remaining-out-of-range", fmt.Sprintf("op %d rec %d remaining %s initial %s", e.opn, r.id, rr.FloatString(6), r.initial))
		}
		if rr.Cmp(r.lastReal) > 0 {
			e.o.Fail("incentives:remaining-increased", fmt.Sprintf("op %d rec %d %s -> %s", e.opn, r.id, r.lastReal.FloatString(6), rr.FloatString(6)))
		}
		r.lastReal = rr
		// the keeper emits lazily: it can never have emitted more than the log says; after a sync exactly as much
		if rr.Cmp(r.remaining) < 0 && !r.future {
			e.o.Fail("incentives:remaining-below-log", fmt.Sprintf("op %d rec %d keeper %s log %s", e.opn, r.id, rr.FloatString(6), r.remaining.FloatString(6)))
		}
		if e.inc.synced && !r.future && rr.Cmp(r.remaining) != 0 {
			e.o.Fail("incentives:remaining-mismatch-after-sync", fmt.Sprintf("op %d rec %d keeper %s log %s", e.opn, r.id, rr.FloatString(6), r.remaining.FloatString(6)))
		} else if e.inc.synced {
			e.o.Count("incentive.remaining-checked")
		}
		// nothing is paid or claimable beyond what the record has emitted (+ what dead positions took)
		tot := new(big.Int)
		if sum[r.denom] != nil {
			tot.Add(tot, sum[r.denom])
		}
		if v := e.inc.deadPaid[r.denom]; v != nil {
			tot.Add(tot, v)
		}
		emitted := new(big.Rat).Sub(new(big.Rat).SetInt(r.initial), rr)
		// (the claimable query itself brings the accumulators to now on a branch: compare only when the store is in sync too)
		if e.inc.synced && new(big.Rat).SetInt(tot).Cmp(emitted) > 0 {
			e.o.Fail("incentives:emitted-beyond-amount", fmt.Sprintf("op %d rec %d claimed+claimable %s emitted %s", e.opn, r.id, tot, emitted.FloatString(6)))
		}
	}
}

// oracleNoLoss: spread rewards nobody can claim are bounded by rounding dust.
// dust budget per denom: one unit per swap (the fee transfer is the ceiling of the step charges), one per loop iteration
// (growth per unit of liquidity is truncated), one per claim-like op (truncation to whole tokens, forfeited sub-unit dust),
// one per live position (its pending claim is truncated), plus two.
func (e *clEngine) oracleNoLoss(opClass string) {
	k := e.h.App.ConcentratedLiquidityKeeper
	p := e.pool()
	sum := [2]*big.Int{new(big.Int), new(big.Int)}
	for id := range e.pos {
		var c sdk.Coins
		var err error
		if !catch(func() { c, err = k.GetClaimableSpreadRewards(e.ctx(), id) }) || err != nil {
			return // reported by the state comparison / solvency oracle
		}
		sum[0].Add(sum[0], c.AmountOf(clDenom0).BigInt())
		sum[1].Add(sum[1], c.AmountOf(clDenom1).BigInt())
	}
	for i, d := range []string{clDenom0, clDenom1} {
		residue := new(big.Int).Sub(e.bal(p.GetSpreadRewardsAddress(), d), sum[i])
		budget := big.NewInt(int64(len(e.pos)) + 2)
		if e.inc.dust[i] != nil {
			budget.Add(budget, e.inc.dust[i])
		}
		if residue.Cmp(budget) > 0 {
			e.o.Fail("rewards:spread-lost:"+opClass, fmt.Sprintf("op %d %s: balance - claimable = %s > dust budget %s (paid in %s)", e.opn, d, residue, budget, e.feesPaid[i]))
		} else if e.feesPaid[i].Sign() > 0 {
			e.o.Count("noloss.checked")
		}
	}
}
