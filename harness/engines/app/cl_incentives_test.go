package app_test

// Engine `cl`, incentive side (property C08, uptime clauses) and the spread-reward NO-LOSS oracle.
// Not part of the Lean pool model (phase 2): these ops write no `clp` line; the pool / tick / position /
// spread-reward comparison (`clp dump`, `clp fdump`) keeps running around them.
//
// Independent bookkeeping (shares no code with keeper or model): the engine logs every block-time advance with the pool
// state it happened in (current tick, active liquidity, live positions) and every redeposit of forfeited incentives; from
// that log alone it computes, per position and incentive record (one private denom per record),
//   bound = Σ intervals [position live ∧ in range ∧ record started] min(rate·dt, remaining) · liq/activeLiq
//         + Σ redeposits [position in range] forfeited · liq/activeLiq
// and checks on the real keeper
//   (i)   claimed + claimable ≤ bound + dust                         key incentives:paid-beyond-in-range-time
//   (ii)  0 ≤ remaining ≤ initial, remaining never increases, equals the logged emission after a sync,
//         Σ positions (claimed + claimable) ≤ initial − remaining   keys incentives:remaining-*, incentives:emitted-beyond-amount
//   (iii) position younger than the record's uptime: nothing claimable, and a withdrawal pays it nothing in that denom
//         while other liquidity stays active                         key incentives:unmet-uptime-paid
//   (iv)  incentive balance ≥ Σ claimable (oracleSolvency).
// Non-default uptimes: per history a random non-empty subset of the six supported uptimes (1ns, 1m, 1h, 1d, 1w, 2w) is
// authorised; records are created on the authorised ones (refused on the others); advanceToAge puts a position 1 ns below /
// exactly at / 1 ns above / above / far above / below an uptime; uptimeScript builds the directed sequences.  Oracles from
// the engine's own log of join times (posCreated: creation and add-to-position; nothing else writes it), record
// parameters and block times:
//   (a)   a transfer keeps what is collectable and what is forfeitable, per denom, and the join time
//                                                                    keys incentives:transfer-changed-claimable:<uptime>:age-<class>,
//                                                                    incentives:transfer-changed-join-time, incentives:join-time-differs-from-log:<op>
//   (b)   per op and denom, on branches synced to the block time: phi = paid out + claimable + forfeitable − emitted (keeper
//         records) does not fall by more than the rounding dust: forfeits reach the accumulators (liquidity that stays active)
//         or the withdrawer (none stays active)                      keys incentives:forfeit-not-redeposited:<op>:<uptime> (position acted
//                                                                    upon younger than the uptime), incentives:attributable-lost:<op>:<uptime>
//   (c)   age ≥ uptime ⇒ nothing forfeitable / forfeited, age < uptime ⇒ nothing collectable / collected, on every claimable
//         query and claim                                            keys incentives:uptime-gate:(young-position-collects|old-position-forfeits):…
// Spread rewards, no loss: what sits in the spread-reward address and nobody can claim is bounded by rounding dust
//   balance − Σ claimable ≤ dust        (⇔ Σ claimed + Σ claimable ≥ Σ fees paid in − dust)   key rewards:spread-lost:<op-class>

import (
	"fmt"
	"math/big"
	"sort"
	"strings"
	"time"

	sdk "github.com/cosmos/cosmos-sdk/types"

	"github.com/osmosis-labs/osmosis/osmomath"
	cl "github.com/osmosis-labs/osmosis/v31/x/concentrated-liquidity"
	cltypes "github.com/osmosis-labs/osmosis/v31/x/concentrated-liquidity/types"
)

type clInc struct {
	id        uint64
	denom     string
	rate      *big.Int // Dec raw (per second)
	start     time.Time
	uptime    time.Duration
	initial   *big.Int
	remaining *big.Rat // engine's own (eager) account of the remaining amount
	future    bool     // start time after creation: bound is kept conservative
	lastReal  *big.Rat // last remaining read from the keeper
}

type clIncState struct {
	incs     []*clInc
	bound    map[uint64]map[string]*big.Rat // position id -> denom -> upper bound of what it can have been credited
	paid     map[uint64]map[string]*big.Int // position id -> denom -> incentives paid out so far
	join     map[uint64]time.Time
	synced   bool     // the keeper's accumulators were brought to the current block time since the last advance
	dust     [2]*big.Int // spread rewards: dust budget per pool denom
	nextDen  int
	deadPaid map[string]*big.Int // paid to positions that no longer exist, per denom
	t0       time.Time           // block time at pool creation (time zero of the model)
	paidOut  map[string]*big.Int // per denom: everything that reached an account from the incentive address (claims, withdrawals, returned forfeits)
	deposited map[string]*big.Int // per denom: sum of the amounts of the records created
	denomUptime map[string]time.Duration // records sharing a denom share the uptime
	// per-op conservation (oracle b): phi = paid out + claimable + forfeitable (query) - emitted (keeper records), per denom, on a
	// branch synced to the block time, as measured after the previous op; the number of live positions and the rounding unit then
	phi     map[string]*big.Rat
	phiPos  int
	phiUnit *big.Int
	opYoung map[string]bool // denoms whose uptime the position acted upon by the current op had NOT reached (engine's own join-time log)
}

func newIncState() *clIncState {
	return &clIncState{bound: map[uint64]map[string]*big.Rat{}, paid: map[uint64]map[string]*big.Int{}, join: map[uint64]time.Time{}, deadPaid: map[string]*big.Int{},
		paidOut: map[string]*big.Int{}, deposited: map[string]*big.Int{}, denomUptime: map[string]time.Duration{}, phi: map[string]*big.Rat{}, opYoung: map[string]bool{}}
}


func showCoins(c sdk.Coins) string {
	if len(c) == 0 {
		return "-"
	}
	var ps []string
	for _, x := range c {
		ps = append(ps, fmt.Sprintf("%s=%s", x.Denom, x.Amount))
	}
	return strings.Join(ps, "+")
}

func showDecCoins(c sdk.DecCoins) string {
	if len(c) == 0 {
		return "-"
	}
	var ps []string
	for _, x := range c {
		ps = append(ps, fmt.Sprintf("%s=%s", x.Denom, x.Amount.BigInt()))
	}
	return strings.Join(ps, "+")
}

func uptimeIndex(d time.Duration) int {
	for i, u := range cltypes.SupportedUptimes {
		if u == d {
			return i
		}
	}
	return -1
}

// dumpIncImpl: the uptime-incentive state of the pool read from the real stores (compared with the Lean model after
// every op): block time and LastLiquidityUpdate (ns since pool creation), the six uptime accumulators (total shares,
// value), every stored tick's six uptime trackers, the incentive records (remaining), every live position's six
// accumulator records, GetClaimableIncentives of every position (collected / forfeited), incentive address balances.
func (e *clEngine) dumpIncImpl() string {
	k := e.h.App.ConcentratedLiquidityKeeper
	p := e.pool()
	accs, err := k.GetUptimeAccumulators(e.ctx(), e.poolId)
	if err != nil {
		return "err-accums"
	}
	var as []string
	for i, a := range accs {
		as = append(as, fmt.Sprintf("%d:%s:%s", i, a.GetTotalShares().BigInt(), showDecCoins(a.GetValue())))
	}
	ticks, _ := k.GetAllInitializedTicksForPool(e.ctx(), e.poolId)
	var ts []string
	for _, t := range ticks {
		var cs []string
		for _, tr := range t.Info.UptimeTrackers.List {
			cs = append(cs, showDecCoins(tr.UptimeGrowthOutside))
		}
		ts = append(ts, fmt.Sprintf("%d:%s", t.TickIndex, strings.Join(cs, "|")))
	}
	recs, _ := k.GetAllIncentiveRecordsForPool(e.ctx(), e.poolId)
	sort.Slice(recs, func(i, j int) bool {
		ui, uj := uptimeIndex(recs[i].MinUptime), uptimeIndex(recs[j].MinUptime)
		if ui != uj {
			return ui < uj
		}
		return recs[i].IncentiveId < recs[j].IncentiveId
	})
	var is []string
	for _, r := range recs {
		is = append(is, fmt.Sprintf("%d:%d:%s:%s", r.IncentiveId, uptimeIndex(r.MinUptime), r.IncentiveRecordBody.RemainingCoin.Denom, r.IncentiveRecordBody.RemainingCoin.Amount.BigInt()))
	}
	ids := make([]uint64, 0, len(e.pos))
	for id := range e.pos {
		ids = append(ids, id)
	}
	sort.Slice(ids, func(i, j int) bool { return ids[i] < ids[j] })
	var rs, cs []string
	for _, id := range ids {
		name := string(cltypes.KeyPositionId(id))
		var one []string
		for i, a := range accs {
			rec, err := a.GetPosition(name)
			if err != nil {
				one = append(one, fmt.Sprintf("%d:none", i))
			} else {
				one = append(one, fmt.Sprintf("%d:%s:%s:%s", i, rec.NumShares.BigInt(), showDecCoins(rec.AccumValuePerShare), showDecCoins(rec.UnclaimedRewardsTotal)))
			}
		}
		rs = append(rs, fmt.Sprintf("%d>%s", id, strings.Join(one, ";")))
		var c, f sdk.Coins
		var cerr error
		if !catch(func() { c, f, cerr = k.GetClaimableIncentives(e.ctx(), id) }) || cerr != nil {
			cs = append(cs, fmt.Sprintf("%d:err", id))
		} else {
			cs = append(cs, fmt.Sprintf("%d:%s/%s", id, showCoins(c), showCoins(f)))
		}
	}
	bal := sdk.Coins{}
	for _, c := range e.h.App.BankKeeper.GetAllBalances(e.ctx(), p.GetIncentivesAddress()) {
		if strings.HasPrefix(c.Denom, "inc") {
			bal = bal.Add(c)
		}
	}
	return fmt.Sprintf("ok now=%d last=%d A[%s] T[%s] I[%s] R[%s] C[%s] B[%s]",
		e.h.Ctx.BlockTime().Sub(e.inc.t0).Nanoseconds(), p.GetLastLiquidityUpdate().Sub(e.inc.t0).Nanoseconds(),
		strings.Join(as, " "), strings.Join(ts, " "), strings.Join(is, " "), strings.Join(rs, " "), strings.Join(cs, " "), showCoins(bal))
}

func ratOfDec(raw *big.Int) *big.Rat { return new(big.Rat).SetFrac(raw, pow10(18)) }

// incDenoms: the distinct incentive denoms in creation order (several records may share a denom).
func (e *clEngine) incDenoms() []string {
	var ds []string
	seen := map[string]bool{}
	for _, r := range e.inc.incs {
		if !seen[r.denom] {
			seen[r.denom] = true
			ds = append(ds, r.denom)
		}
	}
	return ds
}

func (e *clEngine) incScaleClass() string {
	if e.ifactor.Equal(osmomath.OneDec()) {
		return "unscaled"
	}
	return "scaled"
}

// liqClass: magnitude class of a liquidity value (raw 18 decimals).
func liqClass(L *big.Int) string {
	switch {
	case L.Cmp(pow10(18)) < 0:
		return "liq<1"
	case L.Cmp(pow10(18+9)) < 0:
		return "liq<1e9"
	case L.Cmp(pow10(18+19)) < 0:
		return "liq<1e19"
	case L.Cmp(pow10(18+24)) < 0:
		return "liq<1e24"
	}
	return "liq>=1e24"
}

// posCreated registers a new position id (creation or add-to-position).
func (e *clEngine) posCreated(id uint64) {
	e.inc.bound[id] = map[string]*big.Rat{}
	e.inc.paid[id] = map[string]*big.Int{}
	e.inc.join[id] = e.h.Ctx.BlockTime()
}

func (e *clEngine) addBound(id uint64, denom string, v *big.Rat) {
	m := e.inc.bound[id]
	if m == nil {
		m = map[string]*big.Rat{}
		e.inc.bound[id] = m
	}
	if m[denom] == nil {
		m[denom] = new(big.Rat)
	}
	m[denom].Add(m[denom], v)
}

func (e *clEngine) addPaid(id uint64, denom string, v *big.Int) {
	m := e.inc.paid[id]
	if m == nil {
		m = map[string]*big.Int{}
		e.inc.paid[id] = m
	}
	if m[denom] == nil {
		m[denom] = new(big.Int)
	}
	m[denom].Add(m[denom], v)
	if e.inc.paidOut[denom] == nil {
		e.inc.paidOut[denom] = new(big.Int)
	}
	e.inc.paidOut[denom].Add(e.inc.paidOut[denom], v)
}

// creditInRange adds amount·liq/activeLiq to the bound of every live position whose range contains the current tick.
func (e *clEngine) creditInRange(denom string, amount *big.Rat, L *big.Int) {
	p := e.pool()
	if L == nil {
		L = p.GetLiquidity().BigInt()
	}
	if L.Sign() <= 0 {
		return
	}
	cur := p.GetCurrentTick()
	for id, q := range e.pos {
		if q.lower <= cur && cur < q.upper {
			share := new(big.Rat).SetFrac(q.liq, L)
			e.addBound(id, denom, share.Mul(share, amount))
		}
	}
}

// advanceTime: the block time moves on by d; the elapsed interval is attributed to the pool state it happened in.
func (e *clEngine) advanceTime(d time.Duration) {
	p := e.pool()
	L := p.GetLiquidity().BigInt()
	t1 := e.h.Ctx.BlockTime().Add(d)
	secs := new(big.Rat).SetFrac(big.NewInt(int64(d)), big.NewInt(1e9))
	active := L.Cmp(pow10(18)) >= 0 // qualifying liquidity >= 1
	if active {
		e.o.Count("time.advance-active")
	} else {
		e.o.Count("time.advance-zero-liquidity")
		if len(e.pos) > 0 {
			e.o.Count("time.advance-zero-liquidity-with-positions")
		}
	}
	for _, r := range e.inc.incs {
		started := r.start.Before(t1)
		if !started && !r.future {
			continue
		}
		if !active {
			continue
		}
		emit := new(big.Rat).Mul(ratOfDec(r.rate), secs)
		if r.remaining.Sign() > 0 {
			e.o.Count("incentive.emitting:" + e.incScaleClass() + ":" + liqClass(L))
		}
		if c := emit.Cmp(r.remaining); c >= 0 && r.remaining.Sign() > 0 && started {
			// the record RUNS DRY inside this interval (elapsed x rate overshoots what remains)
			cls := "overshoot"
			if c == 0 {
				cls = "exactly-consumed"
			}
			e.o.Count("incentive.record-exhausted")
			e.o.Count("incentive.record-exhausted:" + cls)
			e.o.Count("incentive.record-exhausted:" + e.incScaleClass() + ":" + liqClass(L))
			if r.future {
				e.o.Count("incentive.record-exhausted:future-start")
			}
			for _, r2 := range e.inc.incs {
				if r2 != r && r2.denom == r.denom && r2.remaining.Sign() > 0 {
					e.o.Count("incentive.record-exhausted:another-record-of-the-denom-still-running")
					break
				}
			}
		}
		if emit.Cmp(r.remaining) > 0 {
			emit = new(big.Rat).Set(r.remaining)
		}
		if started {
			r.remaining = new(big.Rat).Sub(r.remaining, emit)
		}
		e.creditInRange(r.denom, emit, nil)
	}
	if !active {
		for _, r := range e.inc.incs {
			if r.start.Before(t1) && r.remaining.Sign() > 0 {
				e.o.Count("incentive.zero-liquidity-gap-before-end")
				break
			}
		}
	}
	e.h.Ctx = e.h.Ctx.WithBlockTime(t1).WithBlockHeight(e.h.Ctx.BlockHeight() + 1)
	e.inc.synced = false
	e.o.Count("time.advance")
	e.o.Emit(fmt.Sprintf("clp advance %d", int64(d)), "ok", true)
	// what the next accumulator update will do with this interval, observed on a discarded branch
	e.oracleSyncStep()
	// sometimes bring the accumulators to now right away (as any pool-touching message would)
	if e.r.Intn(2) == 0 {
		k := e.h.App.ConcentratedLiquidityKeeper
		if err := e.atomic(func(ctx sdk.Context) error { return k.UpdatePoolUptimeAccumulatorsToNow(ctx, e.poolId) }); err == nil {
			e.inc.synced = true
			e.o.Count("time.synced")
			e.o.Emit("clp sync", "ok", true)
		} else {
			e.o.Emit("clp sync", "err", true)
		}
	}
}

// overshootDuration: a block-time jump aimed at the moment the next running record runs dry: exactly there, 1 ns / 1 s past
// it, well past it (overshoot), sometimes just short of it.
func (e *clEngine) overshootDuration() time.Duration {
	now := e.h.Ctx.BlockTime()
	var best *big.Int
	for _, r := range e.inc.incs {
		if r.remaining.Sign() <= 0 || r.rate.Sign() <= 0 {
			continue
		}
		// ns until dry = ceil(remaining / rate * 1e9), counted from the later of now / start
		ttd := new(big.Rat).Quo(r.remaining, ratOfDec(r.rate))
		ns := ratCeil(ttd.Mul(ttd, new(big.Rat).SetInt(pow10(9))))
		if r.start.After(now) {
			ns.Add(ns, big.NewInt(int64(r.start.Sub(now))))
		}
		if best == nil || ns.Cmp(best) < 0 {
			best = ns
		}
	}
	maxNs := big.NewInt(int64(60 * 24 * time.Hour))
	if best == nil || best.Cmp(maxNs) > 0 {
		e.o.Count("time.overshoot.no-record-in-reach")
		return time.Duration(1+e.r.Intn(72)) * time.Hour
	}
	d := time.Duration(best.Int64())
	switch e.r.Intn(6) {
	case 0: // exactly at the boundary
		e.o.Count("time.overshoot.exact")
	case 1:
		d += 1
		e.o.Count("time.overshoot.+1ns")
	case 2:
		d += time.Second
		e.o.Count("time.overshoot.+1s")
	case 3:
		if d > time.Second {
			d -= time.Second
		}
		e.o.Count("time.overshoot.just-short")
	default:
		d = d*time.Duration(2+e.r.Intn(4)) + time.Duration(e.r.Intn(3600))*time.Second
		e.o.Count("time.overshoot.far")
	}
	if d <= 0 {
		d = 1
	}
	if d > 90*24*time.Hour {
		d = 90 * 24 * time.Hour
	}
	return d
}

// createIncentiveClass creates an incentive record.  Classes: "legacy" (lasts for many advances), "dry" (small amount / high
// rate: runs dry within seconds..hours), "tiny" (1..50 units), "big" (18-decimals magnitudes), "grain" (unscaled pools with
// liquidity >= 1e19: the amount is a few units of 10^-18 per unit of liquidity, so every rounding of amount/liquidity is
// worth whole tokens), "same-denom" (a further record of an existing denom and uptime, ending at another moment).
// Rates are multiples of 10^9 raw, so rate x elapsed is exact for every nanosecond count.
func (e *clEngine) createIncentiveClass(cls string) {
	k := e.h.App.ConcentratedLiquidityKeeper
	L := e.pool().GetLiquidity().BigInt()
	unscaledBig := e.incScaleClass() == "unscaled" && L.Cmp(pow10(18+19)) >= 0
	if cls == "" {
		switch e.r.Intn(12) {
		case 0, 1, 2:
			cls = "legacy"
		case 3, 4, 5:
			cls = "dry"
		case 6:
			cls = "tiny"
		case 7:
			cls = "big"
		case 8, 9:
			cls = "same-denom"
		default:
			cls = "grain"
		}
	}
	if (cls == "dry" || cls == "same-denom") && unscaledBig && e.r.Intn(2) == 0 {
		cls = "grain"
	}
	if cls == "grain" && !unscaledBig {
		cls = "dry"
	}
	denom := fmt.Sprintf("inc%d", e.inc.nextDen)
	// minimum uptime: one of the AUTHORISED ones (a non-default one two times out of three when there is one); now and then any
	// supported one (CreateIncentive must refuse an unauthorised uptime)
	upt := cltypes.SupportedUptimes[e.auth[e.r.Intn(len(e.auth))]]
	if nd := e.nonDefaultAuth(); len(nd) > 0 && e.r.Intn(3) != 0 {
		upt = cltypes.SupportedUptimes[nd[e.r.Intn(len(nd))]]
	}
	if e.forceUptime >= 0 {
		upt = cltypes.SupportedUptimes[e.forceUptime]
	} else if e.r.Intn(12) == 0 {
		upt = cltypes.SupportedUptimes[e.r.Intn(len(cltypes.SupportedUptimes))]
	}
	shared := false
	if cls == "same-denom" {
		if len(e.inc.incs) == 0 {
			cls = "dry"
		} else {
			base := e.inc.incs[len(e.inc.incs)-1]
			if e.r.Intn(3) == 0 {
				base = e.inc.incs[e.r.Intn(len(e.inc.incs))]
			}
			denom, upt, shared = base.denom, base.uptime, true
		}
	}
	// lifetime (seconds) of the record at full emission
	life := int64(1 + e.r.Intn(7200))
	switch e.r.Intn(4) {
	case 0:
		life = int64(1 + e.r.Intn(60))
	case 1:
		life = int64(1 + e.r.Intn(200000))
	case 2: // comparable with the uptime (0.3 .. 3 x): positions are on either side of it while the record is emitting
		if us := int64(upt / time.Second); us >= 10 && cls != "same-denom" {
			life = us*3/10 + e.r.Int63n(us*27/10)
		}
	}
	var amt, rate *big.Int
	rateFor := func(a *big.Int) *big.Int { // a / life per second, as a multiple of 10^9 raw (at least 10^9)
		rr := new(big.Int).Mul(a, pow10(18))
		rr.Quo(rr, big.NewInt(life))
		rr.Quo(rr, pow10(9))
		rr.Add(rr, big.NewInt(1))
		return rr.Mul(rr, pow10(9))
	}
	switch cls {
	case "legacy":
		amt = new(big.Int).Mul(big.NewInt(int64(1+e.r.Intn(1000))), pow10(6))
		rate = new(big.Int).Mul(big.NewInt(int64(1+e.r.Intn(100000))), pow10(15))
		if e.r.Intn(4) == 0 { // slow emission: lasts over long idle periods
			rate = new(big.Int).Mul(big.NewInt(int64(1+e.r.Intn(1000))), pow10(15))
		}
	case "tiny":
		amt = big.NewInt(int64(1 + e.r.Intn(50)))
		rate = new(big.Int).Mul(big.NewInt(int64(1+e.r.Intn(1000))), pow10(15))
	case "big":
		amt = new(big.Int).Mul(big.NewInt(int64(1+e.r.Intn(1000))), pow10(6+e.mag+e.r.Intn(7)))
		rate = rateFor(amt)
	case "grain":
		// amount = x * liquidity * 10^-18 with x in [0.5, 40): amount/liquidity is a handful of units of the 18th decimal
		x := big.NewInt(int64(50 + e.r.Intn(3950)))
		amt = new(big.Int).Mul(L, x)
		amt.Quo(amt, pow10(38))
		if amt.Sign() <= 0 {
			amt = big.NewInt(1)
		}
		life = int64(1 + e.r.Intn(600))
		rate = rateFor(amt)
	default: // dry / same-denom
		amt = new(big.Int).Mul(big.NewInt(int64(1+e.r.Intn(9))), pow10(e.r.Intn(7)))
		if e.mag > 0 && e.r.Intn(3) == 0 {
			amt.Mul(amt, pow10(e.mag))
		}
		amt.Add(amt, big.NewInt(int64(e.r.Intn(1000))))
		rate = rateFor(amt)
		if e.r.Intn(4) == 0 { // very high rate: the first nanoseconds exhaust it
			rate = new(big.Int).Mul(amt, pow10(18+e.r.Intn(6)))
		}
	}
	start := e.h.Ctx.BlockTime()
	future := false
	if e.r.Intn(6) == 0 {
		start = start.Add(time.Duration(1+e.r.Intn(7200)) * time.Second)
		future = true
	}
	creator := e.accs[e.r.Intn(3)]
	e.h.FundAcc(creator, sdk.NewCoins(sdk.NewCoin(denom, osmomath.NewIntFromBigInt(amt))))
	var rec cltypes.IncentiveRecord
	err := e.atomic(func(ctx sdk.Context) error {
		var err error
		rec, err = k.CreateIncentive(ctx, e.poolId, creator, sdk.NewCoin(denom, osmomath.NewIntFromBigInt(amt)), sd(rate), start, upt)
		return err
	})
	line := fmt.Sprintf("clp incentive %d %s %s %s %d %d", rec.IncentiveId, denom, amt, rate, start.Sub(e.inc.t0).Nanoseconds(), uptimeIndex(upt))
	if err != nil {
		e.o.Count("incentive.err")
		if !e.isAuthorized(upt) {
			e.o.Count("incentive.err:unauthorized-uptime:" + uptimeLabelOf(upt))
		}
		e.o.Emit(fmt.Sprintf("clp incentive 0 %s %s %s %d %d", denom, amt, rate, start.Sub(e.inc.t0).Nanoseconds(), uptimeIndex(upt)), "err", true)
		return
	}
	e.o.Emit(line, "ok", true)
	if !e.isAuthorized(upt) {
		e.o.Fail("incentives:record-created-on-unauthorized-uptime:"+uptimeLabelOf(upt), fmt.Sprintf("op %d %s | %s", e.opn, line, e.replay()))
	}
	if !shared {
		e.inc.nextDen++
	}
	e.inc.synced = true // CreateIncentive syncs the accumulators first
	e.inc.incs = append(e.inc.incs, &clInc{id: rec.IncentiveId, denom: denom, rate: rate, start: start, uptime: upt, initial: amt,
		remaining: new(big.Rat).SetInt(amt), future: future, lastReal: new(big.Rat).SetInt(amt)})
	if e.inc.deposited[denom] == nil {
		e.inc.deposited[denom] = new(big.Int)
	}
	e.inc.deposited[denom].Add(e.inc.deposited[denom], amt)
	e.inc.denomUptime[denom] = upt
	e.o.Count("incentive.ok")
	e.o.Count("incentive.class." + cls)
	if shared {
		e.o.Count("incentive.shares-denom-with-earlier-record")
	}
	if cls == "grain" {
		e.o.Count("incentive.unscaled-large-liquidity-grain:" + liqClass(L))
	}
	e.o.Count("incentive.uptime-" + uptimeLabelOf(upt))
	if future {
		e.o.Count("incentive.future-start")
	}
}

// oracleSyncStep (keys incentives:sync-*): ONE accumulator update observed on a discarded branch, right after a block-time
// advance: the uptime accumulators and the incentive records before and after `UpdatePoolUptimeAccumulatorsToNow`.
// Zero tolerance, exact integers:
//   credited per unit of liquidity x qualifying liquidity <= decrease of the records of that (uptime, denom) x scaling factor
//   a record decreases by at most rate x elapsed, never increases, not before its start, not while liquidity < 1.
func (e *clEngine) oracleSyncStep() {
	k := e.h.App.ConcentratedLiquidityKeeper
	if len(e.inc.incs) == 0 {
		return
	}
	p := e.pool()
	L := p.GetLiquidity().BigInt()
	now := e.h.Ctx.BlockTime()
	elapsed := big.NewInt(int64(now.Sub(p.GetLastLiquidityUpdate())))
	recs0, err0 := k.GetAllIncentiveRecordsForPool(e.ctx(), e.poolId)
	vals0, err1 := k.GetUptimeAccumulatorValues(e.ctx(), e.poolId)
	cctx, _ := e.h.Ctx.CacheContext()
	var serr error
	if !catch(func() { serr = k.UpdatePoolUptimeAccumulatorsToNow(cctx, e.poolId) }) || serr != nil || err0 != nil || err1 != nil {
		e.o.Fail("incentives:sync-failed", fmt.Sprintf("op %d: %v | %s", e.opn, serr, e.replay()))
		return
	}
	recs1, _ := k.GetAllIncentiveRecordsForPool(cctx, e.poolId)
	vals1, _ := k.GetUptimeAccumulatorValues(cctx, e.poolId)
	after := map[uint64]*big.Int{}
	for _, r := range recs1 {
		after[r.IncentiveId] = r.IncentiveRecordBody.RemainingCoin.Amount.BigInt()
	}
	type ud struct {
		u int
		d string
	}
	dec := map[ud]*big.Int{}
	exhausted := map[ud]bool{}
	factor := e.ifactor.BigInt()
	cls := e.incScaleClass()
	for _, r := range recs0 {
		b := r.IncentiveRecordBody
		r0 := b.RemainingCoin.Amount.BigInt()
		r1 := after[r.IncentiveId]
		if r1 == nil {
			r1 = new(big.Int) // fully emitted records are removed
		}
		key := ud{uptimeIndex(r.MinUptime), b.RemainingCoin.Denom}
		d := new(big.Int).Sub(r0, r1)
		where := fmt.Sprintf("op %d rec %d (%s, uptime %s, rate %s) remaining %s -> %s elapsed %sns liquidity %s | %s", e.opn, r.IncentiveId, b.RemainingCoin.Denom, r.MinUptime, b.EmissionRate, sd(r0), sd(r1), elapsed, sd(L), e.replay())
		if d.Sign() < 0 {
			e.o.Fail("incentives:sync-remaining-increased", where)
		}
		if d.Sign() > 0 {
			if L.Cmp(pow10(18)) < 0 {
				e.o.Fail("incentives:sync-emission-without-liquidity", where)
			}
			if !b.StartTime.Before(now) {
				e.o.Fail("incentives:sync-emission-before-start", where)
			}
			// decrease <= rate x elapsed  (raw: d x 1e9 <= rate x ns)
			if new(big.Int).Mul(d, pow10(9)).Cmp(new(big.Int).Mul(b.EmissionRate.BigInt(), elapsed)) > 0 {
				e.o.Fail("incentives:sync-record-decrease-exceeds-rate-x-elapsed", where)
			}
		}
		if dec[key] == nil {
			dec[key] = new(big.Int)
		}
		dec[key].Add(dec[key], d)
		if r1.Sign() == 0 && r0.Sign() > 0 {
			exhausted[key] = true
		}
	}
	for u := range vals1 {
		if u >= len(vals0) {
			break
		}
		for _, c := range vals1[u] {
			credited := new(big.Int).Sub(c.Amount.BigInt(), vals0[u].AmountOf(c.Denom).BigInt())
			if credited.Sign() == 0 {
				continue
			}
			key := ud{u, c.Denom}
			d := dec[key]
			if d == nil {
				d = new(big.Int)
			}
			state := "record-running"
			if exhausted[key] {
				state = "record-exhausted"
			}
			// credited x L <= decrease x factor   (all raw 18-decimal integers: both sides carry 10^36)
			if new(big.Int).Mul(credited, L).Cmp(new(big.Int).Mul(d, factor)) > 0 {
				e.o.Fail("incentives:sync-credit-exceeds-record-decrease:"+cls+":"+state,
					fmt.Sprintf("op %d uptime %d denom %s: credited per liquidity %s x liquidity %s > record decrease %s x factor %s (elapsed %sns) | %s", e.opn, u, c.Denom, sd(credited), sd(L), sd(d), e.ifactor, elapsed, e.replay()))
			} else {
				e.o.Count("incentive.sync-step-checked:" + state)
			}
		}
	}
}

func (e *clEngine) collectIncentivesOp() {
	k := e.h.App.ConcentratedLiquidityKeeper
	ms := cl.NewMsgServerImpl(k)
	q := e.anyPos()
	var c, forf sdk.Coins
	var qerr error
	if !catch(func() { c, forf, qerr = k.GetClaimableIncentives(e.ctx(), q.id) }) || qerr != nil {
		e.o.Fail("incentives:claimable-query-failed", fmt.Sprintf("op %d pos %d %v", e.opn, q.id, qerr))
		return
	}
	var resp *cltypes.MsgCollectIncentivesResponse
	balBefore := e.h.App.BankKeeper.GetAllBalances(e.ctx(), e.accs[q.owner])
	err := e.atomic(func(ctx sdk.Context) error {
		var err error
		resp, err = ms.CollectIncentives(ctx, &cltypes.MsgCollectIncentives{PositionIds: []uint64{q.id}, Sender: e.accs[q.owner].String()})
		return err
	})
	e.o.Count("collect.incentives")
	iline := fmt.Sprintf("clp icollect acc%d %d", q.owner, q.id)
	if err != nil {
		e.o.Emit(iline, "err", true)
		e.o.Fail("rewards:collect-incentives-failed", fmt.Sprintf("op %d pos %d: %v", e.opn, q.id, err))
		return
	}
	e.o.Emit(iline, fmt.Sprintf("ok c=%s f=%s", showCoins(resp.CollectedIncentives), showCoins(resp.ForfeitedIncentives)), true)
	e.inc.synced = true
	if !resp.CollectedIncentives.Equal(c) || !resp.ForfeitedIncentives.Equal(forf) {
		e.o.Fail("incentives:collected!=claimable-query", fmt.Sprintf("op %d pos %d got %s/%s query %s/%s", e.opn, q.id, resp.CollectedIncentives, resp.ForfeitedIncentives, c, forf))
	}
	if !resp.CollectedIncentives.IsZero() {
		e.o.Count("collect.incentives-nonzero")
	}
	if !resp.ForfeitedIncentives.IsZero() {
		e.o.Count("collect.incentives-forfeited")
	}
	// what reached the owner's account (bank), per incentive denom: exactly the collected coins
	balAfter := e.h.App.BankKeeper.GetAllBalances(e.ctx(), e.accs[q.owner])
	for _, d := range e.incDenoms() {
		delta := balAfter.AmountOf(d).Sub(balBefore.AmountOf(d))
		if !delta.Equal(resp.CollectedIncentives.AmountOf(d)) {
			e.o.Fail("incentives:collect-moved-other-than-collected", fmt.Sprintf("op %d pos %d denom %s moved %s collected %s | %s", e.opn, q.id, d, delta, resp.CollectedIncentives, e.replay()))
		}
		if delta.IsPositive() {
			e.addPaid(q.id, d, delta.BigInt())
		}
	}
	e.checkUnmetPaid(q, resp.CollectedIncentives, "collect")
	e.claimClasses(q, "collect-incentives", resp.CollectedIncentives, resp.ForfeitedIncentives, "dropped")
	q.untouched = false
}

// checkUnmetPaid: (iii) a position younger than a record's uptime is paid nothing in that record's denom.
func (e *clEngine) checkUnmetPaid(q *clPos, got sdk.Coins, what string) {
	age := e.h.Ctx.BlockTime().Sub(e.inc.join[q.id])
	for _, r := range e.inc.incs {
		if age < r.uptime && got.AmountOf(r.denom).IsPositive() {
			e.o.Fail("incentives:unmet-uptime-paid:"+what, fmt.Sprintf("op %d pos %d age %s uptime %s got %s", e.opn, q.id, age, r.uptime, got))
		}
	}
}

// incBefore / incAfter bracket a withdrawal or add-to-position of position q (which collect, forfeit and redeposit).
type incSnap struct {
	q          *clPos
	c, forf    sdk.Coins
	bal        sdk.Coins
	ok         bool
}

func (e *clEngine) incBefore(q *clPos, owner int) incSnap {
	k := e.h.App.ConcentratedLiquidityKeeper
	s := incSnap{q: q}
	var err error
	if !catch(func() { s.c, s.forf, err = k.GetClaimableIncentives(e.ctx(), q.id) }) || err != nil {
		return s
	}
	s.bal = e.h.App.BankKeeper.GetAllBalances(e.ctx(), e.accs[owner])
	s.ok = true
	return s
}

// incAfter: the op succeeded. `self` is the id that keeps the withdrawn position's liquidity afterwards (0 = gone).
func (e *clEngine) incAfter(s incSnap, owner int, what string, L *big.Int) {
	if !s.ok {
		return
	}
	e.inc.synced = true
	p := e.pool()
	after := e.h.App.BankKeeper.GetAllBalances(e.ctx(), e.accs[owner])
	got := sdk.Coins{}
	for _, d := range e.incDenoms() {
		delta := after.AmountOf(d).Sub(s.bal.AmountOf(d))
		if delta.IsPositive() {
			got = got.Add(sdk.NewCoin(d, delta))
			e.addPaid(s.q.id, d, delta.BigInt())
		}
	}
	_ = p
	stillActive := L.Cmp(pow10(18)) >= 0
	if stillActive {
		e.claimClasses(s.q, e.opClass, s.c, s.forf, "redeposited")
	} else {
		e.claimClasses(s.q, e.opClass, s.c, s.forf, "refunded-no-active-liquidity")
	}
	if stillActive {
		// forfeited incentives go back to the accumulators: credited to whoever is in range now
		// On pools past the incentive scaling migration the forfeit is redeposited in SCALED form, i.e. the position's
		// entitlement BEFORE its truncation to whole tokens, while the reported forfeit is the truncated amount: up to one
		// unit more per denom reaches the accumulator (also when the reported amount is zero).  Not an over-payment: the
		// fraction was emitted by the record (incentives:claims-exceed-emitted has zero tolerance).
		age := e.h.Ctx.BlockTime().Sub(e.inc.join[s.q.id])
		for _, d := range e.incDenoms() {
			amt := new(big.Int).Set(s.forf.AmountOf(d).BigInt())
			if e.incScaleClass() == "scaled" && age < e.inc.denomUptime[d] {
				amt.Add(amt, big.NewInt(1))
			}
			if amt.Sign() > 0 {
				e.creditInRange(d, new(big.Rat).SetInt(amt), L)
			}
		}
		if !s.forf.IsZero() {
			e.o.Count("incentive.forfeit-redeposited")
		}
		e.checkUnmetPaid(s.q, got, what)
		// exactly the claimable part was paid
		for _, d := range e.incDenoms() {
			if !got.AmountOf(d).Equal(s.c.AmountOf(d)) {
				e.o.Fail("incentives:withdraw-paid!=claimable:"+what, fmt.Sprintf("op %d pos %d paid %s claimable %s forfeited %s", e.opn, s.q.id, got, s.c, s.forf))
				break
			}
		}
	} else if !s.forf.IsZero() {
		// no other active liquidity: the code hands the forfeited amount to the withdrawer (the property's stated exception)
		e.o.Count("incentive.forfeit-returned-no-active-liquidity")
		for _, coin := range s.forf {
			e.addBound(s.q.id, coin.Denom, new(big.Rat).SetInt(coin.Amount.BigInt()))
		}
	}
}

func (e *clEngine) posGone(id uint64) {
	for d, v := range e.inc.paid[id] {
		if e.inc.deadPaid[d] == nil {
			e.inc.deadPaid[d] = new(big.Int)
		}
		e.inc.deadPaid[d].Add(e.inc.deadPaid[d], v)
	}
	e.checkBound(id, sdk.Coins{}, "at-exit")
}

func (e *clEngine) checkBound(id uint64, claimable sdk.Coins, where string) {
	for _, d := range e.incDenoms() {
		tot := new(big.Int).Set(claimable.AmountOf(d).BigInt())
		if v := e.inc.paid[id][d]; v != nil {
			tot.Add(tot, v)
		}
		b := new(big.Rat)
		if v := e.inc.bound[id][d]; v != nil {
			b.Set(v)
		}
		b.Add(b, big.NewRat(2, 1)) // dust: every credit is truncated in the pool's favour; 2 units of slack for the bound's own rounding
		if new(big.Rat).SetInt(tot).Cmp(b) > 0 {
			e.o.Fail("incentives:paid-beyond-in-range-time:"+where, fmt.Sprintf("op %d pos %d denom %s claimed+claimable %s bound %s (uptime %s) | %s", e.opn, id, d, tot, b.FloatString(3), e.inc.denomUptime[d], e.replay()))
		} else if tot.Sign() > 0 {
			e.o.Count("incentive.bound-checked-nonzero")
		}
	}
}

// oracleIncentives: after every op, on a discarded branch whose accumulators were brought to the current block time (what
// any pool-touching message would do first).  Everything is judged against the engine's own log (records created, block
// times, liquidity in range, coins that reached accounts); ZERO tolerance in the direction "claims exceed what was paid in":
//   per denom   paid out + claimable + forfeited                 <= emitted by the records (keeper)       incentives:claims-exceed-emitted
//               paid out + claimable + forfeited                 <= sum of min(rate x qualifying time, amount) (log)   incentives:claims-exceed-logged-emission
//               paid out + claimable + forfeited + remaining     <= deposited                              incentives:claims-exceed-deposits
//               incentive address balance >= claimable + forfeited + remaining                            solvency:incentive-balance<claimable+remaining
//   per record  remaining = amount - min(rate x qualifying time, amount)                                  incentives:remaining-*
func (e *clEngine) oracleIncentives() {
	if len(e.inc.incs) == 0 {
		return
	}
	k := e.h.App.ConcentratedLiquidityKeeper
	now := e.h.Ctx.BlockTime()
	cctx, _ := e.h.Ctx.CacheContext()
	var serr error
	if !catch(func() { serr = k.UpdatePoolUptimeAccumulatorsToNow(cctx, e.poolId) }) || serr != nil {
		e.o.Fail("incentives:sync-failed", fmt.Sprintf("op %d: %v | %s", e.opn, serr, e.replay()))
		return
	}
	ids := make([]uint64, 0, len(e.pos))
	for id := range e.pos {
		ids = append(ids, id)
	}
	sort.Slice(ids, func(i, j int) bool { return ids[i] < ids[j] })
	denoms := e.incDenoms()
	claimC, claimF := sdk.Coins{}, sdk.Coins{}
	otherActive := e.pool().GetLiquidity().BigInt().Cmp(pow10(18)) >= 0
	queriesOK := true
	for _, id := range ids {
		var c, f sdk.Coins
		var err error
		if !catch(func() { c, f, err = k.GetClaimableIncentives(cctx, id) }) || err != nil {
			e.o.Fail("incentives:claimable-query-failed", fmt.Sprintf("op %d pos %d %v | %s", e.opn, id, err, e.replay()))
			queriesOK = false
			continue
		}
		claimC = claimC.Add(c...)
		claimF = claimF.Add(f...)
		e.checkBound(id, c, "live")
		age := now.Sub(e.inc.join[id])
		for _, d := range denoms {
			upt := e.inc.denomUptime[d]
			if age < upt && c.AmountOf(d).IsPositive() && otherActive {
				e.o.Fail("incentives:unmet-uptime-paid:claimable", fmt.Sprintf("op %d pos %d age %s uptime %s claimable %s | %s", e.opn, id, age, upt, c, e.replay()))
			}
			if age < upt {
				e.o.Count("incentive.unmet-uptime-checked")
			}
			// (c) the uptime gate against the engine's own join-time log: younger than the uptime -> nothing collectable from that
			// accumulator, at least as old -> nothing forfeitable (it collects everything it accrued)
			cls := uptimeLabelOf(upt) + ":age-" + ageClass(age, upt)
			e.o.Count("uptime-gate.checked:" + cls)
			if age < upt {
				if c.AmountOf(d).IsPositive() {
					e.o.Fail("incentives:uptime-gate:young-position-collects:"+cls, fmt.Sprintf("op %d (%s) pos %d joined %dns age %s uptime %s: claimable %s forfeitable %s | %s", e.opn, e.opClass, id, e.inc.join[id].Sub(e.inc.t0).Nanoseconds(), age, upt, c, f, e.replay()))
				}
				if f.AmountOf(d).IsPositive() {
					e.o.Count("uptime-gate.young-forfeitable-nonzero:" + cls)
				}
			} else {
				if f.AmountOf(d).IsPositive() {
					e.o.Fail("incentives:uptime-gate:old-position-forfeits:"+cls, fmt.Sprintf("op %d (%s) pos %d joined %dns age %s uptime %s: claimable %s forfeitable %s | %s", e.opn, e.opClass, id, e.inc.join[id].Sub(e.inc.t0).Nanoseconds(), age, upt, c, f, e.replay()))
				}
				if c.AmountOf(d).IsPositive() {
					e.o.Count("uptime-gate.old-collectable-nonzero:" + cls)
				}
			}
		}
	}
	// (ii) the records
	recs, err := k.GetAllIncentiveRecordsForPool(cctx, e.poolId)
	if err != nil {
		return
	}
	real := map[uint64]*big.Rat{}
	for _, r := range recs {
		real[r.IncentiveId] = ratOfDec(r.IncentiveRecordBody.RemainingCoin.Amount.BigInt())
	}
	remReal := map[string]*big.Rat{}    // per denom: sum of the remaining amounts of the keeper's records (exact 18-decimal values)
	emitReal := map[string]*big.Rat{}   // per denom: sum of amount - remaining (keeper)
	emitLog := map[string]*big.Rat{}    // per denom: sum of min(rate x qualifying time, amount) (engine log)
	hasFuture := map[string]bool{}
	anyDry := map[string]bool{}
	for _, d := range denoms {
		remReal[d], emitReal[d], emitLog[d] = new(big.Rat), new(big.Rat), new(big.Rat)
	}
	for _, r := range e.inc.incs {
		rr, ok := real[r.id]
		if !ok {
			rr = new(big.Rat) // fully emitted records are removed from the store
		}
		if rr.Sign() < 0 || rr.Cmp(new(big.Rat).SetInt(r.initial)) > 0 {
			e.o.Fail("incentives:remaining-out-of-range", fmt.Sprintf("op %d rec %d remaining %s initial %s | %s", e.opn, r.id, rr.FloatString(6), r.initial, e.replay()))
		}
		if rr.Cmp(r.lastReal) > 0 {
			e.o.Fail("incentives:remaining-increased", fmt.Sprintf("op %d rec %d %s -> %s | %s", e.opn, r.id, r.lastReal.FloatString(6), rr.FloatString(6), e.replay()))
		}
		r.lastReal = rr
		// per record: emitted = min(rate x qualifying time, amount), exactly (rates are multiples of 10^9 raw: no truncation)
		if !r.future {
			if rr.Cmp(r.remaining) < 0 {
				e.o.Fail("incentives:remaining-below-log", fmt.Sprintf("op %d rec %d keeper %s log %s | %s", e.opn, r.id, rr.FloatString(6), r.remaining.FloatString(6), e.replay()))
			} else if rr.Cmp(r.remaining) != 0 {
				e.o.Fail("incentives:remaining-mismatch-after-sync", fmt.Sprintf("op %d rec %d keeper %s log %s | %s", e.opn, r.id, rr.FloatString(6), r.remaining.FloatString(6), e.replay()))
			} else {
				e.o.Count("incentive.remaining-checked")
			}
		} else {
			hasFuture[r.denom] = true
		}
		if rr.Sign() == 0 {
			anyDry[r.denom] = true
		}
		remReal[r.denom].Add(remReal[r.denom], rr)
		emitReal[r.denom].Add(emitReal[r.denom], new(big.Rat).Sub(new(big.Rat).SetInt(r.initial), rr))
		emitLog[r.denom].Add(emitLog[r.denom], new(big.Rat).Sub(new(big.Rat).SetInt(r.initial), r.remaining))
	}
	if !queriesOK {
		e.inc.phi, e.inc.opYoung = map[string]*big.Rat{}, map[string]bool{}
		return
	}
	unitNow := e.incLiqUnit()
	unit := unitNow
	if e.inc.phiUnit != nil && e.inc.phiUnit.Cmp(unit) > 0 {
		unit = e.inc.phiUnit
	}
	bal := e.h.App.BankKeeper.GetAllBalances(cctx, e.pool().GetIncentivesAddress())
	for _, d := range denoms {
		paid := new(big.Int)
		if v := e.inc.paidOut[d]; v != nil {
			paid.Set(v)
		}
		owed := new(big.Int).Add(claimC.AmountOf(d).BigInt(), claimF.AmountOf(d).BigInt())
		tot := new(big.Int).Add(paid, owed)
		cls := e.incScaleClass() + ":all-records-running"
		if anyDry[d] {
			cls = e.incScaleClass() + ":some-record-ran-dry"
		}
		what := func() string {
			return fmt.Sprintf("op %d denom %s: paid out %s + claimable %s + forfeited %s | emitted (keeper) %s emitted (log) %s remaining %s deposited %s balance %s | %s", e.opn, d, paid,
				claimC.AmountOf(d), claimF.AmountOf(d), emitReal[d].FloatString(6), emitLog[d].FloatString(6), remReal[d].FloatString(6), e.inc.deposited[d], bal.AmountOf(d), e.replay())
		}
		if new(big.Rat).SetInt(tot).Cmp(emitReal[d]) > 0 {
			e.o.Fail("incentives:claims-exceed-emitted:"+cls, what())
		}
		if !hasFuture[d] && new(big.Rat).SetInt(tot).Cmp(emitLog[d]) > 0 {
			e.o.Fail("incentives:claims-exceed-logged-emission:"+cls, what())
		}
		if new(big.Rat).Add(new(big.Rat).SetInt(tot), remReal[d]).Cmp(new(big.Rat).SetInt(e.inc.deposited[d])) > 0 {
			e.o.Fail("incentives:claims-exceed-deposits:"+cls, what())
		}
		if new(big.Rat).SetInt(bal.AmountOf(d).BigInt()).Cmp(new(big.Rat).Add(new(big.Rat).SetInt(owed), remReal[d])) < 0 {
			e.o.Fail("solvency:incentive-balance<claimable+remaining:"+cls, what())
		}
		if new(big.Int).Add(bal.AmountOf(d).BigInt(), paid).Cmp(e.inc.deposited[d]) != 0 {
			e.o.Fail("incentives:balance!=deposited-paid-out", what())
		}
		if tot.Sign() > 0 {
			e.o.Count("incentive.conservation-checked-nonzero:" + cls)
		}
		// (b) nothing is lost by the op: phi = paid out + claimable + forfeitable - emitted must not fall by more than the
		// rounding dust (one unit per live position and truncated claim; one liquidity unit per division by the liquidity: every
		// record's emission and one redeposit, in the measurement before and after).  Forfeited amounts must therefore have reached
		// the accumulators (for the liquidity that stays active) or the withdrawer (no active liquidity left).
		phi := new(big.Rat).Sub(new(big.Rat).SetInt(tot), emitReal[d])
		if prev, ok := e.inc.phi[d]; ok {
			nrec := 0
			for _, r := range e.inc.incs {
				if r.denom == d {
					nrec++
				}
			}
			budget := new(big.Int).Mul(big.NewInt(int64(2*nrec+2)), unit)
			budget.Add(budget, big.NewInt(int64(e.inc.phiPos+len(e.pos)+2)))
			loss := new(big.Rat).Sub(prev, phi)
			lab := uptimeLabelOf(e.inc.denomUptime[d])
			if loss.Cmp(new(big.Rat).SetInt(budget)) > 0 {
				key := "incentives:attributable-lost:" + e.opClass + ":" + lab
				if e.inc.opYoung[d] {
					key = "incentives:forfeit-not-redeposited:" + e.opClass + ":" + lab
				}
				e.o.Fail(key, fmt.Sprintf("op %d: %s of denom %s (uptime %s) attributable to some position or paid out before the op belong to nobody after it (dust budget %s): ", e.opn, loss.FloatString(3), d, lab, budget)+what())
			} else if e.inc.opYoung[d] {
				e.o.Count("conservation.forfeits-flowed-back:" + e.opClass + ":" + lab)
			} else if tot.Sign() > 0 {
				e.o.Count("conservation.op-checked-nonzero:" + e.opClass)
			}
		}
		e.inc.phi[d] = phi
	}
	e.inc.phiPos, e.inc.phiUnit, e.inc.opYoung = len(e.pos), unitNow, map[string]bool{}
}

// incLiqUnit: what one truncated division by the liquidity can lose, in whole tokens (+1): the per-liquidity amount is
// truncated at 18 decimals of the SCALED amount, i.e. up to liquidity x 10^-18 / factor tokens.
func (e *clEngine) incLiqUnit() *big.Int {
	tot := new(big.Int)
	for _, q := range e.pos {
		tot.Add(tot, q.liq)
	}
	if p := e.pool().GetLiquidity().BigInt(); p.Cmp(tot) > 0 {
		tot.Set(p)
	}
	tot.Quo(tot, pow10(18))
	tot.Quo(tot, e.ifactor.BigInt())
	return tot.Add(tot, big.NewInt(1))
}

var uptimeLabels = []string{"1ns", "1m", "1h", "1d", "1w", "2w"}

func uptimeLabel(i int) string {
	if i < 0 || i >= len(uptimeLabels) {
		return "unsupported"
	}
	return uptimeLabels[i]
}

func uptimeLabelOf(d time.Duration) string { return uptimeLabel(uptimeIndex(d)) }

// ageClass: where a position's age is relative to an uptime.
func ageClass(age, u time.Duration) string {
	switch {
	case age == u-1:
		return "1ns-below"
	case age == u:
		return "exactly-at"
	case age == u+1:
		return "1ns-above"
	case age < u:
		return "below"
	case age >= 2*u:
		return "far-above"
	}
	return "above"
}

func (e *clEngine) isAuthorized(u time.Duration) bool {
	for _, i := range e.auth {
		if cltypes.SupportedUptimes[i] == u {
			return true
		}
	}
	return false
}

func (e *clEngine) nonDefaultAuth() []int {
	var nd []int
	for _, i := range e.auth {
		if i > 0 {
			nd = append(nd, i)
		}
	}
	return nd
}

// claimClasses: a claim-like op (collect incentives, withdrawal, add-to-position) on position q: per incentive denom the age
// class of the position relative to the denom's uptime (engine's join-time log), what it was paid and what it forfeited;
// marks the denoms in which the position was too young (their forfeits must flow back: oracle b).
func (e *clEngine) claimClasses(q *clPos, op string, collected, forfeited sdk.Coins, outcome string) {
	age := e.h.Ctx.BlockTime().Sub(e.inc.join[q.id])
	for _, d := range e.incDenoms() {
		u := e.inc.denomUptime[d]
		cls := op + ":" + uptimeLabelOf(u) + ":age-" + ageClass(age, u)
		e.o.Count("claim." + cls)
		if age < u {
			e.inc.opYoung[d] = true
			if forfeited.AmountOf(d).IsPositive() {
				e.o.Count("claim.forfeit-nonzero:" + cls + ":" + outcome)
			}
		} else {
			if collected.AmountOf(d).IsPositive() {
				e.o.Count("claim.collected-nonzero:" + cls)
			}
			if forfeited.AmountOf(d).IsPositive() {
				e.o.Fail("incentives:uptime-gate:old-position-forfeits:"+cls, fmt.Sprintf("op %d pos %d age %s uptime %s: collected %s forfeited %s | %s", e.opn, q.id, age, u, collected, forfeited, e.replay()))
			}
		}
	}
}

// uptimeScript: directed sequence around one non-default authorised uptime u: (new in-range position) -> incentive record(s) on
// u -> time passes while the position is younger than u (-> swap) -> block-time advance that puts the position 1 ns below /
// exactly at / 1 ns above / above / far above / below u -> transfer (-> time -> claim / withdrawal by the new owner) | partial
// withdrawal (-> claim) | full withdrawal | add-to-position (-> claim by the successor) | collect incentives -> everybody withdraws.
func (e *clEngine) uptimeScript(nd []int) []scriptStep {
	u := nd[e.r.Intn(len(nd))]
	var q []scriptStep
	id := ^uint64(0) // the position the sequence is about: the one created by its first step ...
	if e.r.Intn(3) == 0 { // ... or an existing one (any age), preferably in range
		p := e.anyPos()
		cur := e.pool().GetCurrentTick()
		for try := 0; try < 6 && !(p.lower <= cur && cur < p.upper); try++ {
			p = e.anyPos()
		}
		id = p.id
	} else {
		q = append(q, scriptStep{kind: kCreateIn})
	}
	q = append(q, scriptStep{kind: kIncentiveUptime, arg: u})
	if len(nd) > 1 && e.r.Intn(3) == 0 { // a record on a second non-default uptime: one claim can forfeit in two accumulators
		q = append(q, scriptStep{kind: kIncentiveUptime, arg: nd[e.r.Intn(len(nd))]})
	}
	q = append(q, scriptStep{kind: kAdvanceAge, id: id, arg: u*8 + 5})
	if e.r.Intn(2) == 0 {
		q = append(q, scriptStep{kind: kSwap})
	}
	q = append(q, scriptStep{kind: kAdvanceAge, id: id, arg: u*8 + e.r.Intn(6)})
	fin := func() scriptStep {
		switch e.r.Intn(4) {
		case 0:
			return scriptStep{kind: kWithdraw, id: id}
		case 1:
			return scriptStep{kind: kWithdrawFull, id: id}
		case 2:
			return scriptStep{kind: kAdd, id: id}
		}
		return scriptStep{kind: kICollect, id: id}
	}
	switch e.r.Intn(6) {
	case 0, 1: // transfer, then the new owner claims / withdraws at an age relative to u (right away, a little later, at a boundary)
		q = append(q, scriptStep{kind: kTransfer, id: id})
		switch e.r.Intn(3) {
		case 0:
			q = append(q, scriptStep{kind: kAdvance})
		case 1:
			q = append(q, scriptStep{kind: kAdvanceAge, id: id, arg: u*8 + e.r.Intn(5)})
		}
		q = append(q, fin())
		e.o.Count("script.uptime-sequence:transfer-claim:" + uptimeLabel(u))
	case 2: // partial withdrawal (while other liquidity is active), then the rest claims
		q = append(q, scriptStep{kind: kWithdraw, id: id}, scriptStep{kind: kICollect, id: id})
		e.o.Count("script.uptime-sequence:partial-withdraw:" + uptimeLabel(u))
	case 3:
		q = append(q, scriptStep{kind: kWithdrawFull, id: id})
		e.o.Count("script.uptime-sequence:full-withdraw:" + uptimeLabel(u))
	case 4: // add-to-position = full withdrawal + new position (new id, new join time); the successor claims
		q = append(q, scriptStep{kind: kAdd, id: id}, scriptStep{kind: kAdvance}, scriptStep{kind: kICollect, id: ^uint64(0)})
		e.o.Count("script.uptime-sequence:add:" + uptimeLabel(u))
	default:
		q = append(q, scriptStep{kind: kICollect, id: id})
		if e.r.Intn(2) == 0 { // and once more on the other side of the uptime
			q = append(q, scriptStep{kind: kAdvanceAge, id: id, arg: u*8 + 1 + e.r.Intn(4)}, scriptStep{kind: kICollect, id: id})
		}
		e.o.Count("script.uptime-sequence:collect:" + uptimeLabel(u))
	}
	return append(q, scriptStep{kind: kSolvency})
}

// advanceToAge: a block-time advance that puts position q at an age relative to the supported uptime with index ui:
// class 0: 1 ns below, 1: exactly at, 2: 1 ns above, 3: above (below twice the uptime), 4: far above, 5: below.
func (e *clEngine) advanceToAge(q *clPos, ui, cls int) {
	u := cltypes.SupportedUptimes[ui]
	age := e.h.Ctx.BlockTime().Sub(e.inc.join[q.id])
	var target time.Duration
	name := ""
	switch cls {
	case 0:
		target, name = u-1, "1ns-below"
	case 1:
		target, name = u, "exactly-at"
	case 2:
		target, name = u+1, "1ns-above"
	case 3:
		target, name = u+2+time.Duration(e.r.Int63n(int64(u)-2)), "above"
	case 4:
		target, name = 2*u+time.Duration(e.r.Int63n(int64(u))), "far-above"
	default:
		target, name = 1+time.Duration(e.r.Int63n(int64(u)-2)), "below"
	}
	d := target - age
	if d <= 0 {
		e.o.Count("time.age-target.already-older:" + uptimeLabel(ui))
		d = time.Duration(1 + e.r.Int63n(int64(90*time.Second)))
	} else {
		e.o.Count("time.age-target:" + uptimeLabel(ui) + ":" + name)
	}
	e.advanceTime(d)
}

// oracle (a): a transfer keeps the reward entitlement and the join time.
type transferSnap struct {
	q    *clPos
	c, f sdk.Coins
	join time.Time
	ok   bool
}

func (e *clEngine) transferBefore(q *clPos) transferSnap {
	k := e.h.App.ConcentratedLiquidityKeeper
	s := transferSnap{q: q}
	var err error
	if !catch(func() { s.c, s.f, err = k.GetClaimableIncentives(e.ctx(), q.id) }) || err != nil {
		return s
	}
	p, err := k.GetPosition(e.ctx(), q.id)
	if err != nil {
		return s
	}
	s.join, s.ok = p.JoinTime, true
	return s
}

// transferAfter: what the new owner can collect right after the transfer equals what the old owner could collect right before
// it (same block time), per denom; so does the forfeitable part; the join time is the one logged at creation.
func (e *clEngine) transferAfter(s transferSnap) {
	if !s.ok {
		return
	}
	k := e.h.App.ConcentratedLiquidityKeeper
	id := s.q.id
	var c, f sdk.Coins
	var err error
	if !catch(func() { c, f, err = k.GetClaimableIncentives(e.ctx(), id) }) || err != nil {
		e.o.Fail("incentives:claimable-query-failed", fmt.Sprintf("op %d pos %d after transfer %v | %s", e.opn, id, err, e.replay()))
		return
	}
	age := e.h.Ctx.BlockTime().Sub(e.inc.join[id])
	for _, d := range e.incDenoms() {
		u := e.inc.denomUptime[d]
		cls := uptimeLabelOf(u) + ":age-" + ageClass(age, u)
		e.o.Count("transfer.entitlement-checked:" + cls)
		if s.c.AmountOf(d).IsPositive() {
			e.o.Count("transfer.entitlement-checked:collectable-nonzero:" + cls)
		}
		if s.f.AmountOf(d).IsPositive() {
			e.o.Count("transfer.entitlement-checked:forfeitable-nonzero:" + cls)
		}
		if !c.AmountOf(d).Equal(s.c.AmountOf(d)) || !f.AmountOf(d).Equal(s.f.AmountOf(d)) {
			e.o.Fail("incentives:transfer-changed-claimable:"+cls, fmt.Sprintf("op %d pos %d age %s denom %s (uptime %s): before the transfer collectable %s forfeitable %s, after it %s / %s | %s", e.opn, id, age, d, u, s.c, s.f, c, f, e.replay()))
		}
	}
	np, err := k.GetPosition(e.ctx(), id)
	if err != nil || !np.JoinTime.Equal(s.join) || !np.JoinTime.Equal(e.inc.join[id]) {
		e.o.Fail("incentives:transfer-changed-join-time", fmt.Sprintf("op %d pos %d join time before %s after %s logged at creation %s | %s", e.opn, id, s.join, np.JoinTime, e.inc.join[id], e.replay()))
	}
}

// oracleJoinTimes: the stored join time of every live position is the block time of its creation as the engine logged it
// (create: then; add-to-position: the successor joins at the time of the add; transfer, partial withdrawal, claims: unchanged).
func (e *clEngine) oracleJoinTimes() {
	k := e.h.App.ConcentratedLiquidityKeeper
	for id := range e.pos {
		p, err := k.GetPosition(e.ctx(), id)
		if err != nil {
			continue
		}
		if !p.JoinTime.Equal(e.inc.join[id]) {
			e.o.Fail("incentives:join-time-differs-from-log:"+e.opClass, fmt.Sprintf("op %d pos %d stored %dns logged %dns | %s", e.opn, id, p.JoinTime.Sub(e.inc.t0).Nanoseconds(), e.inc.join[id].Sub(e.inc.t0).Nanoseconds(), e.replay()))
		} else {
			e.o.Count("join.checked")
		}
	}
}


// oracleNoLoss: spread rewards nobody can claim are bounded by rounding dust.
// dust budget per denom: one unit per swap (the fee transfer is the ceiling of the step charges), one per loop iteration
// (growth per unit of liquidity is truncated), one per claim-like op (truncation to whole tokens, forfeited sub-unit dust),
// one per live position (its pending claim is truncated), plus two.
func (e *clEngine) oracleNoLoss(opClass string) {
	k := e.h.App.ConcentratedLiquidityKeeper
	p := e.pool()
	sum := [2]*big.Int{new(big.Int), new(big.Int)}
	for id := range e.pos {
		var c sdk.Coins
		var err error
		if !catch(func() { c, err = k.GetClaimableSpreadRewards(e.ctx(), id) }) || err != nil {
			return // reported by the state comparison / solvency oracle
		}
		sum[0].Add(sum[0], c.AmountOf(clDenom0).BigInt())
		sum[1].Add(sum[1], c.AmountOf(clDenom1).BigInt())
	}
	for i, d := range []string{clDenom0, clDenom1} {
		residue := new(big.Int).Sub(e.bal(p.GetSpreadRewardsAddress(), d), sum[i])
		budget := big.NewInt(int64(len(e.pos)) + 2)
		if e.inc.dust[i] != nil {
			budget.Add(budget, e.inc.dust[i])
		}
		if residue.Cmp(budget) > 0 {
			e.o.Fail("rewards:spread-lost:"+opClass, fmt.Sprintf("op %d %s: balance - claimable = %s > dust budget %s (paid in %s)", e.opn, d, residue, budget, e.feesPaid[i]))
		} else if e.feesPaid[i].Sign() > 0 {
			e.o.Count("noloss.checked")
		}
	}
}
