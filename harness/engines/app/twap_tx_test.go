package app_test

// Transaction structure inside the blocks of the world histories of engine `twap` (property C10), and blocks that change MANY
// pools at once.
//
// TRANSACTIONS.  A chain delivers the price-moving messages of a block as transactions: each transaction runs its messages
// one after the other in ONE branched (cache) context with its own gas meter; the branch is written back when every message
// succeeded and DISCARDED otherwise — together with everything the messages did before the failure, including what the
// listeners of other modules (x/twap: "this pool changed in this block") wrote.  wRunTx does exactly that through the real
// message router.  Generated transactions:
//   committed   one message; two messages on one pool; messages on two pools; a multi-hop swap through two pools (or there and
//               back through one);
//   reverted    AFTER a pool was changed inside the branch: multi-hop swap whose first hop goes through and whose second hop
//               fails (unattainable min-out on the same / on another pool, second hop into a pool that does not exist); a later
//               message of the transaction fails (swap with unattainable min-out, join with impossible TokenInMaxs, exit with
//               impossible TokenOutMins) after one or two successful price-moving messages on one or two pools; out of gas in a
//               later message (limit taken from a dry run on a discarded branch — itself a reverted execution);
// in per-pool patterns (R = reverted after the pool changed, S = committed) RS, SR, RR, RRS, RSR, SRS, R, S, randomly merged
// over 1..3 pools of the block, so that fail→succeed, succeed→fail, fail→fail and fail on A → succeed on B all occur, in blocks
// with fresh and with repeated timestamps.
//
// What a transaction did is decided from the engine's OWN reads: a pool was touched when its bank balances / share supply inside
// the branch differ from the ones before the transaction.  Oracle (wBlock): every pool whose COMMITTED state changed in the block
// is expected in the block's record update (whatever the twap module's changed-pool store says) with the end-of-block prices; a
// pool touched only by reverted transactions must not be announced (pinned from the unchanged code: the transient store is part
// of the branch) and gets no record (raw-store oracle); after a discarded branch the announced pools are what they were before.
// The classes go into the keys: `…:after-reverted-tx-on-same-pool`, `…:before-reverted-tx-on-same-pool`,
// `…:reverted-tx-on-other-pool-in-block`.
//
// MANY POOLS.  Mass histories (see runWorld) promote the filler pools to modelled two-asset pools and run blocks in which N
// distinct pools get one small swap each, N over the small capacities a developer might pick; ids run past 256, so the order of
// the changed-pool store (little-endian id bytes) differs from the numeric one; the pools LAST in store order are asked.

import (
	"errors"
	"fmt"
	"math/big"
	"sort"
	"strings"
	"time"

	storetypes "cosmossdk.io/store/types"
	sdk "github.com/cosmos/cosmos-sdk/types"

	"github.com/osmosis-labs/osmosis/osmomath"
	gammtypes "github.com/osmosis-labs/osmosis/v31/x/gamm/types"
	poolmanagertypes "github.com/osmosis-labs/osmosis/v31/x/poolmanager/types"
)

type twTx struct {
	class string    // committed shapes: single / two-messages / two-pools / multihop; reverted shapes: see wBadTx
	fail  string    // the failure the generator aims at ("" = none)
	msgs  []sdk.Msg // run in ONE branch
	pools []*twPool // the modelled pools the messages refer to
	gas   uint64    // 0 = unlimited
}

type twTxRes struct {
	failedAt  int // -1: every message succeeded
	err       string
	outOfGas  bool
	stateless bool // rejected by ValidateBasic: never executed
	gasAfter  []uint64
	touched   []*twPool // pools whose state the messages changed inside the branch (committed or not)
}

var twUnattainable = new(big.Int).Exp(big.NewInt(10), big.NewInt(40), nil)

// wSig: the engine's own read of a pool's state (bank balances of the pool account; share supply of a balancer pool).
func (e *twEngine) wSig(ctx sdk.Context, p *twPool) string {
	if p.addr == nil {
		pool, err := e.h.App.PoolManagerKeeper.GetPool(ctx, p.id)
		if err != nil {
			return "?"
		}
		p.addr = pool.GetAddress()
	}
	s := e.h.App.BankKeeper.GetAllBalances(ctx, p.addr).String()
	if p.kind != "cl" {
		s += "|" + e.h.App.BankKeeper.GetSupply(ctx, gammtypes.GetPoolShareDenom(p.id)).String()
	}
	return s
}

func (e *twEngine) wBalOf(p *twPool, d string) *big.Int {
	if p.addr == nil {
		e.wSig(e.h.Ctx, p)
	}
	if p.addr == nil {
		return big.NewInt(0)
	}
	return e.h.App.BankKeeper.GetBalance(e.h.Ctx, p.addr, d).Amount.BigInt()
}

// wDeliver: one message of a transaction, in the transaction's branch.  A panic is an error of the transaction (baseapp's
// runTx recovers it), out of gas included.
func (e *twEngine) wDeliver(ctx sdk.Context, msg sdk.Msg, oog *bool) (err error) {
	handler := e.h.App.GetBaseApp().MsgServiceRouter().Handler(msg)
	if handler == nil {
		return errors.New("no handler")
	}
	defer func() {
		if r := recover(); r != nil {
			if _, ok := r.(storetypes.ErrorOutOfGas); ok {
				*oog = true
				err = errors.New("out of gas")
				return
			}
			err = fmt.Errorf("panic: %v", r)
		}
	}()
	_, err = handler(ctx, msg)
	return err
}

// wRunTx delivers one transaction: all messages in one branch, committed iff every message succeeded (never when `dry`).
// The bookkeeping of the block (w.own / w.seq / w.rev) follows what HAPPENED, not what the generator aimed at.
func (e *twEngine) wRunTx(tx *twTx, dry bool) twTxRes {
	w, o, k := e.w, e.o, e.h.App.TwapKeeper
	res := twTxRes{failedAt: -1}
	for i, m := range tx.msgs {
		if vb, ok := m.(interface{ ValidateBasic() error }); ok {
			if err := vb.ValidateBasic(); err != nil {
				res.failedAt, res.err, res.stateless = i, err.Error(), true
				o.Count("tx." + tx.class + ".rejected-by-validate-basic")
				return res
			}
		}
	}
	t, hgt := e.h.Ctx.BlockTime(), e.h.Ctx.BlockHeight()
	announcedBefore := fmt.Sprint(k.VerifGetChangedPools(e.h.Ctx))
	before := map[uint64]string{}
	for _, p := range tx.pools {
		before[p.id] = e.wSig(e.h.Ctx, p)
	}
	cctx, write := e.h.Ctx.CacheContext()
	if tx.gas > 0 {
		cctx = cctx.WithGasMeter(storetypes.NewGasMeter(tx.gas))
	} else {
		cctx = cctx.WithGasMeter(storetypes.NewInfiniteGasMeter())
	}
	byDone := map[uint64]bool{} // pools changed by a message that completed
	for i, m := range tx.msgs {
		err := e.wDeliver(cctx, m, &res.outOfGas)
		res.gasAfter = append(res.gasAfter, cctx.GasMeter().GasConsumed())
		if tx.gas > 0 && (cctx.GasMeter().IsOutOfGas() || cctx.GasMeter().IsPastLimit()) {
			res.outOfGas = true // (some call sites turn the out-of-gas panic into an error of the message)
		}
		if err != nil {
			res.failedAt, res.err = i, err.Error()
			break
		}
		// (a message that fails may have written part of its pool update to the branch before the
		// failing step, and its listener never runs; only completed messages owe an announcement)
		octx := cctx.WithGasMeter(storetypes.NewInfiniteGasMeter())
		for _, p := range tx.pools {
			if !byDone[p.id] && e.wSig(octx, p) != before[p.id] {
				byDone[p.id] = true
			}
		}
	}
	rctx := cctx.WithGasMeter(storetypes.NewInfiniteGasMeter())
	inBranch := map[uint64]bool{}
	for _, id := range k.VerifGetChangedPools(rctx) {
		inBranch[id] = true
	}
	for _, p := range tx.pools {
		if e.wSig(rctx, p) != before[p.id] {
			res.touched = append(res.touched, p)
		}
	}
	commit := res.failedAt < 0 && !dry
	outcome := "reverted"
	if commit {
		outcome = "committed"
	}
	what := tx.class
	if tx.fail != "" {
		what += ":" + tx.fail
	}
	if dry {
		what += ":dry-run"
	}
	for _, p := range res.touched {
		if !inBranch[p.id] && !res.outOfGas && byDone[p.id] {
			// (out of gas may strike between the pool's state change and the listener)
			o.Fail("track:price-moving-message-not-announced-inside-tx:"+outcome+w.txClass(p.id), fmt.Sprintf("pool %d %s block %s/%d tx %s (%d messages, failed at %d: %s) pool sequence in block %q announced in branch %v",
				p.id, p.kind, nsOf(t), hgt, what, len(tx.msgs), res.failedAt, res.err, w.seq[p.id], k.VerifGetChangedPools(rctx)))
		}
	}
	if commit {
		write()
		for _, p := range res.touched {
			w.own[p.id] = "tx." + tx.class
			w.seq[p.id] += "S"
		}
		o.Count("tx." + what + ".committed")
		return res
	}
	// the branch is dropped
	if now := fmt.Sprint(k.VerifGetChangedPools(e.h.Ctx)); now != announcedBefore {
		o.Fail("track:reverted-tx-changes-announced-pools:"+tx.class, fmt.Sprintf("block %s/%d tx %s: announced before %s after %s", nsOf(t), hgt, what, announcedBefore, now))
	}
	for _, p := range tx.pools {
		if e.wSig(e.h.Ctx, p) != before[p.id] {
			panic("twap world: a discarded branch changed a pool")
		}
	}
	for _, p := range res.touched {
		w.seq[p.id] += "R"
		w.rev[p.id] = what
	}
	switch {
	case len(res.touched) > 0:
		o.Count("tx." + what + ".reverted:after-pool-changed-in-branch")
		o.Count("class.world.tx.reverted-after-hook-fired")
	default:
		o.Count("tx." + what + ".reverted:before-any-pool-changed")
	}
	if res.outOfGas {
		o.Count("class.world.tx.out-of-gas")
	}
	return res
}

// txClass: where the pool's committed change stands relative to the reverted transactions of the open block.
func (w *twWorld) txClass(id uint64) string {
	s := w.seq[id]
	r := strings.IndexByte(s, 'R')
	switch {
	case r >= 0 && strings.LastIndexByte(s, 'S') > r:
		return ":after-reverted-tx-on-same-pool"
	case r >= 0 && strings.Contains(s, "S"):
		return ":before-reverted-tx-on-same-pool"
	case r >= 0:
		return ":only-reverted-tx-on-pool"
	case len(w.rev) > 0:
		return ":reverted-tx-on-other-pool-in-block"
	}
	return ""
}

// ---------------------------------------------------------------- messages

func (e *twEngine) wFrac(b *big.Int, maxBp int) *big.Int { // 0.01% .. maxBp/100 % of b, at least 1
	x := new(big.Int).Mul(b, big.NewInt(int64(1+e.r.Intn(maxBp))))
	x.Quo(x, big.NewInt(10000))
	if x.Sign() == 0 {
		x.SetInt64(1)
	}
	return x
}

func (e *twEngine) wTwoDenoms(p *twPool) (string, string) {
	i := e.r.Intn(len(p.denoms))
	j := e.r.Intn(len(p.denoms) - 1)
	if j >= i {
		j++
	}
	return p.denoms[i], p.denoms[j]
}

func (e *twEngine) wSwapMsg(p *twPool, in, out string, amt, minOut *big.Int) sdk.Msg {
	e.fund(coin(in, amt))
	return &poolmanagertypes.MsgSwapExactAmountIn{Sender: e.acc().String(), Routes: []poolmanagertypes.SwapAmountInRoute{{PoolId: p.id, TokenOutDenom: out}},
		TokenIn: coin(in, amt), TokenOutMinAmount: osmomath.NewIntFromBigInt(minOut)}
}

// wGoodMsg: a message that is expected to go through and to change the pool.
func (e *twEngine) wGoodMsg(p *twPool) sdk.Msg {
	r := e.r
	in, out := e.wTwoDenoms(p)
	k := r.Intn(10)
	if p.kind == "cl" {
		k = 0
	}
	switch {
	case k == 6: // single asset join
		amt := e.wFrac(e.wBalOf(p, in), 3000)
		e.fund(coin(in, amt))
		return &gammtypes.MsgJoinSwapExternAmountIn{Sender: e.acc().String(), PoolId: p.id, TokenIn: coin(in, amt), ShareOutMinAmount: osmomath.OneInt()}
	case k == 7: // proportional join
		shares := new(big.Int).Mul(big.NewInt(int64(1+r.Intn(50))), e18)
		var maxs sdk.Coins
		for _, d := range p.denoms {
			c := coin(d, new(big.Int).Add(e.wBalOf(p, d), big.NewInt(10)))
			maxs = maxs.Add(c)
			e.fund(c)
		}
		return &gammtypes.MsgJoinPool{Sender: e.acc().String(), PoolId: p.id, ShareOutAmount: osmomath.NewIntFromBigInt(shares), TokenInMaxs: maxs}
	case k == 8: // proportional exit (the account holds the creation shares)
		have := e.h.App.BankKeeper.GetBalance(e.h.Ctx, e.acc(), gammtypes.GetPoolShareDenom(p.id)).Amount.BigInt()
		if have.Sign() > 0 {
			return &gammtypes.MsgExitPool{Sender: e.acc().String(), PoolId: p.id, ShareInAmount: osmomath.NewIntFromBigInt(e.wFrac(have, 2000)), TokenOutMins: sdk.Coins{}}
		}
	case k == 9: // half of the reserve
		amt := new(big.Int).Quo(e.wBalOf(p, in), big.NewInt(2))
		if amt.Sign() == 0 {
			amt.SetInt64(1)
		}
		return e.wSwapMsg(p, in, out, amt, big.NewInt(1))
	}
	return e.wSwapMsg(p, in, out, e.wFrac(e.wBalOf(p, in), 3000), big.NewInt(1))
}

// wBadMsg: a message that fails on a limit check of its own, before it changes anything.
func (e *twEngine) wBadMsg(p *twPool) (sdk.Msg, string) {
	r := e.r
	k := r.Intn(3)
	if p.kind == "cl" {
		k = 0
	}
	switch k {
	case 1:
		var maxs sdk.Coins
		for _, d := range p.denoms {
			maxs = maxs.Add(coin(d, big.NewInt(1)))
		}
		return &gammtypes.MsgJoinPool{Sender: e.acc().String(), PoolId: p.id, ShareOutAmount: osmomath.NewIntFromBigInt(new(big.Int).Mul(big.NewInt(int64(1+r.Intn(50))), e18)), TokenInMaxs: maxs}, "join-with-impossible-token-in-maxs"
	case 2:
		var mins sdk.Coins
		for _, d := range p.denoms {
			mins = mins.Add(coin(d, twUnattainable))
		}
		return &gammtypes.MsgExitPool{Sender: e.acc().String(), PoolId: p.id, ShareInAmount: osmomath.NewIntFromBigInt(e18), TokenOutMins: mins}, "exit-with-impossible-token-out-mins"
	}
	in, out := e.wTwoDenoms(p)
	return e.wSwapMsg(p, in, out, e.wFrac(e.wBalOf(p, in), 3000), twUnattainable), "swap-with-unattainable-min-out"
}

// wNeighbour: another active pool q and denoms (a, b, c): a, b in p; b, c in q; a != b != c.  ok = false: none.
func (e *twEngine) wNeighbour(p *twPool) (q *twPool, a, b, c string, ok bool) {
	cands := append([]*twPool{}, e.w.active...)
	e.r.Shuffle(len(cands), func(i, j int) { cands[i], cands[j] = cands[j], cands[i] })
	for _, x := range cands {
		if x == p {
			continue
		}
		for _, bd := range p.denoms {
			for _, cd := range x.denoms {
				hasB := false
				for _, d := range x.denoms {
					hasB = hasB || d == bd
				}
				if !hasB || cd == bd {
					continue
				}
				for _, ad := range p.denoms {
					if ad != bd {
						return x, ad, bd, cd, true
					}
				}
			}
		}
	}
	return nil, "", "", "", false
}

func (e *twEngine) wOther(p *twPool) *twPool {
	if len(e.w.active) < 2 {
		return p
	}
	for {
		if q := e.w.active[e.r.Intn(len(e.w.active))]; q != p {
			return q
		}
	}
}

func (e *twEngine) wMultihop(p *twPool, minOut *big.Int, sameOnly bool) (sdk.Msg, []*twPool, string) {
	if q, a, b, c, ok := e.wNeighbour(p); ok && !sameOnly {
		amt := e.wFrac(e.wBalOf(p, a), 2000)
		e.fund(coin(a, amt))
		return &poolmanagertypes.MsgSwapExactAmountIn{Sender: e.acc().String(), Routes: []poolmanagertypes.SwapAmountInRoute{{PoolId: p.id, TokenOutDenom: b}, {PoolId: q.id, TokenOutDenom: c}},
			TokenIn: coin(a, amt), TokenOutMinAmount: osmomath.NewIntFromBigInt(minOut)}, []*twPool{p, q}, "second-hop-other-pool"
	}
	a, b := e.wTwoDenoms(p)
	amt := e.wFrac(e.wBalOf(p, a), 2000)
	e.fund(coin(a, amt))
	return &poolmanagertypes.MsgSwapExactAmountIn{Sender: e.acc().String(), Routes: []poolmanagertypes.SwapAmountInRoute{{PoolId: p.id, TokenOutDenom: b}, {PoolId: p.id, TokenOutDenom: a}},
		TokenIn: coin(a, amt), TokenOutMinAmount: osmomath.NewIntFromBigInt(minOut)}, []*twPool{p}, "second-hop-same-pool"
}

// wGoodTx: a transaction that is expected to commit and to change p.
func (e *twEngine) wGoodTx(p *twPool) *twTx {
	switch e.r.Intn(6) {
	case 0:
		return &twTx{class: "two-messages", msgs: []sdk.Msg{e.wGoodMsg(p), e.wGoodMsg(p)}, pools: []*twPool{p}}
	case 1:
		q := e.wOther(p)
		return &twTx{class: "two-pools", msgs: []sdk.Msg{e.wGoodMsg(p), e.wGoodMsg(q)}, pools: []*twPool{p, q}}
	case 2:
		m, pools, _ := e.wMultihop(p, big.NewInt(1), false)
		return &twTx{class: "multihop", msgs: []sdk.Msg{m}, pools: pools}
	}
	return &twTx{class: "single", msgs: []sdk.Msg{e.wGoodMsg(p)}, pools: []*twPool{p}}
}

// wBadTx: a transaction that changes p inside its branch and fails afterwards.
func (e *twEngine) wBadTx(p *twPool) *twTx {
	r := e.r
	switch r.Intn(8) {
	case 0:
		m, pools, how := e.wMultihop(p, twUnattainable, true)
		return &twTx{class: "multihop", fail: "unattainable-min-out:" + how, msgs: []sdk.Msg{m}, pools: pools}
	case 1:
		m, pools, how := e.wMultihop(p, twUnattainable, false)
		return &twTx{class: "multihop", fail: "unattainable-min-out:" + how, msgs: []sdk.Msg{m}, pools: pools}
	case 2: // the second hop names a pool that does not exist
		a, b := e.wTwoDenoms(p)
		amt := e.wFrac(e.wBalOf(p, a), 2000)
		e.fund(coin(a, amt))
		missing := e.h.App.PoolManagerKeeper.GetNextPoolId(e.h.Ctx) + uint64(r.Intn(3))
		return &twTx{class: "multihop", fail: "second-hop-pool-does-not-exist", pools: []*twPool{p}, msgs: []sdk.Msg{&poolmanagertypes.MsgSwapExactAmountIn{Sender: e.acc().String(),
			Routes:  []poolmanagertypes.SwapAmountInRoute{{PoolId: p.id, TokenOutDenom: b}, {PoolId: missing, TokenOutDenom: a}},
			TokenIn: coin(a, amt), TokenOutMinAmount: osmomath.OneInt()}}}
	case 3:
		bad, how := e.wBadMsg(p)
		return &twTx{class: "two-messages", fail: "last-message-fails:" + how, msgs: []sdk.Msg{e.wGoodMsg(p), bad}, pools: []*twPool{p}}
	case 4:
		q := e.wOther(p)
		bad, how := e.wBadMsg(q)
		return &twTx{class: "two-pools", fail: "last-message-fails-on-other-pool:" + how, msgs: []sdk.Msg{e.wGoodMsg(p), bad}, pools: []*twPool{p, q}}
	case 5:
		q := e.wOther(p)
		bad, how := e.wBadMsg([]*twPool{p, q}[r.Intn(2)])
		return &twTx{class: "three-messages", fail: "last-message-fails:" + how, msgs: []sdk.Msg{e.wGoodMsg(p), e.wGoodMsg(q), bad}, pools: []*twPool{p, q}}
	case 6:
		q := []*twPool{p, e.wOther(p)}[r.Intn(2)]
		return &twTx{class: "two-messages", fail: "out-of-gas", msgs: []sdk.Msg{e.wGoodMsg(p), e.wGoodMsg(q)}, pools: []*twPool{p, q}}
	}
	bad, how := e.wBadMsg(p)
	return &twTx{class: "three-messages", fail: "last-message-fails:" + how, msgs: []sdk.Msg{e.wGoodMsg(p), e.wGoodMsg(p), bad}, pools: []*twPool{p}}
}

func (e *twEngine) wDeliverTx(tx *twTx) {
	if tx.fail != "out-of-gas" {
		e.wRunTx(tx, false)
		return
	}
	// the gas the messages need, from a dry run on a discarded branch (a reverted execution of its own); the limit runs out
	// inside the LAST message (or, one time in four, anywhere)
	dry := e.wRunTx(tx, true)
	if dry.failedAt >= 0 || len(dry.gasAfter) < 2 {
		return
	}
	n := len(dry.gasAfter)
	lo, hi := dry.gasAfter[n-2], dry.gasAfter[n-1]
	if e.r.Intn(4) == 0 {
		lo = 0
	}
	if hi <= lo+1 {
		return
	}
	tx.gas = lo + 1 + uint64(e.r.Int63n(int64(hi-lo-1)))
	e.wRunTx(tx, false)
}

// wTxPhase: transactions on 1..3 pools of the open block, per pool a pattern of reverted (R) and committed (S) transactions,
// the patterns of the pools randomly merged.
func (e *twEngine) wTxPhase(cands []*twPool) {
	r := e.r
	if len(cands) == 0 {
		return
	}
	cands = append([]*twPool{}, cands...)
	r.Shuffle(len(cands), func(i, j int) { cands[i], cands[j] = cands[j], cands[i] })
	n := 1 + r.Intn(3)
	if n > len(cands) {
		n = len(cands)
	}
	patterns := []string{"RS", "RS", "RS", "SR", "RR", "RRS", "RSR", "SRS", "R", "S", "RSS"}
	type step struct {
		p *twPool
		k byte
	}
	queues := make([][]step, n)
	left := 0
	for i := 0; i < n; i++ {
		pat := patterns[r.Intn(len(patterns))]
		for j := 0; j < len(pat); j++ {
			queues[i] = append(queues[i], step{cands[i], pat[j]})
		}
		left += len(pat)
		e.o.Count("world.tx.pattern." + pat)
	}
	for ; left > 0; left-- {
		i := r.Intn(n)
		for len(queues[i]) == 0 {
			i = (i + 1) % n
		}
		s := queues[i][0]
		queues[i] = queues[i][1:]
		if s.k == 'S' {
			e.wDeliverTx(e.wGoodTx(s.p))
		} else {
			e.wDeliverTx(e.wBadTx(s.p))
		}
	}
	e.o.Count("class.world.block-with-transaction-structure")
}

// ---------------------------------------------------------------- many pools per block

// twMassSizes: numbers of pools changed in ONE block, around the small capacities a developer might pick.
var twMassSizes = []int{1, 2, 7, 8, 9, 15, 16, 17, 31, 32, 33, 63, 64, 65, 127, 128, 129, 130, 255, 256, 257, 258, 300}

func manyClass(n int) string {
	switch {
	case n <= 16:
		return ""
	case n <= 64:
		return ":17..64-changed-pools"
	case n <= 128:
		return ":65..128-changed-pools"
	case n <= 256:
		return ":129..256-changed-pools"
	}
	return ":more-than-256-changed-pools"
}

// wAskInterval: one interval of one pair, both strategies, both quote assets (judged from the pair's own log).
func (e *twEngine) wAskInterval(p *twPool, pr *twPair, s, en time.Time) []*twQuery {
	now := e.h.Ctx.BlockTime()
	e.view(p, pr)
	var out []*twQuery
	for _, geom := range []bool{false, true} {
		var pair []*twQuery
		for _, q0 := range []bool{true, false} {
			q := &twQuery{s: s, e: en, q0: q0, geom: geom, w: e.wq, rep: e.pickRep()}
			e.ask(q, false)
			e.o.Emit(q.op(now), q.obs(), q.status == "ok")
			if q0 {
				e.locCheck(q, now, 1)
			}
			e.judge(q, now)
			out = append(out, q)
			pair = append(pair, q)
		}
		if geom {
			e.reciprocal(pair[0], pair[1], now)
		}
	}
	return out
}

// wMassBlock: one block in which n distinct mass pools get one small swap each (each swap a transaction of its own), then
// questions on the pools that come last / first in the order of the changed-pool store.
func (e *twEngine) wMassBlock(n int) {
	r, w, o := e.r, e.w, e.o
	if n > len(w.mass) {
		n = len(w.mass)
	}
	pick := append([]*twPool{}, w.mass...)
	r.Shuffle(len(pick), func(i, j int) { pick[i], pick[j] = pick[j], pick[i] })
	if n >= 2 && n < len(pick) {
		// ids on both sides of 256, so that the store order differs from the numeric order
		hasLow, hasHigh := false, false
		for _, p := range pick[:n] {
			hasLow = hasLow || p.id < 256
			hasHigh = hasHigh || p.id >= 256
		}
		for i := n; i < len(pick) && !(hasLow && hasHigh); i++ {
			if !hasLow && pick[i].id < 256 {
				pick[0], pick[i] = pick[i], pick[0]
				hasLow = true
			} else if !hasHigh && pick[i].id >= 256 {
				pick[1], pick[i] = pick[i], pick[1]
				hasHigh = true
			}
		}
	}
	pick = pick[:n]
	done := 0
	for _, p := range pick {
		in, out := e.wTwoDenoms(p)
		tx := &twTx{class: "single", msgs: []sdk.Msg{e.wSwapMsg(p, in, out, e.wFrac(e.wBalOf(p, in), 1500), big.NewInt(1))}, pools: []*twPool{p}}
		if res := e.wRunTx(tx, false); res.failedAt < 0 {
			done++
		}
	}
	var ids []uint64
	for id := range w.own {
		ids = append(ids, id)
	}
	sort.Slice(ids, func(i, j int) bool { return leLess(ids[i], ids[j]) })
	for i := 1; i < len(ids); i++ {
		if ids[i-1] > ids[i] {
			o.Count("class.world.many-pools.store-order-differs-from-numeric-order")
			break
		}
	}
	o.Count(fmt.Sprintf("class.world.many-pools.block:%d-pools-changed", len(ids)))
	if done != n {
		o.Count("world.many-pools.swap-rejected")
	}
	t := e.h.Ctx.BlockTime()
	e.wBlock(e.wRandDt(false))
	e.wSyncPruning()
	if len(ids) == 0 {
		return
	}
	// the pools last in store order (and the first, and a random one) over the block(s) that follow
	ask := map[uint64]bool{ids[len(ids)-1]: true, ids[0]: true, ids[r.Intn(len(ids))]: true}
	if len(ids) > 1 {
		ask[ids[len(ids)-2]] = true
	}
	if r.Intn(2) == 0 {
		e.wBlock(e.wRandDt(false)) // an idle block in between
		e.wSyncPruning()
	}
	var order []uint64
	for id := range ask {
		order = append(order, id)
	}
	sort.Slice(order, func(i, j int) bool { return order[i] < order[j] })
	for _, id := range order {
		p := w.pools[id]
		e.wAskInterval(p, p.pairs[0], t, e.h.Ctx.BlockTime())
		if id == ids[len(ids)-1] {
			o.Count("class.world.many-pools.question-on-pool-last-in-store-order")
			e.view(p, p.pairs[0])
			e.queries(1)
		}
	}
}
