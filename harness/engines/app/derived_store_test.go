package app_test

// Derived stores after export -> import (property C19), shared by the module engines and by engine `det`.
//
// A genesis document carries RECORDS; every index, reference store, running total and accumulation tree is REBUILT by
// InitGenesis.  "The imported chain continues like the exporting chain" therefore needs more than an equal re-export:
// every rebuilt entry must be what the running chain holds.  The helpers below compare, at an export/import point,
//
//   * raw KV stores key by key, grouped by a stable class of the key (`storeDiffByClass`): failures are keyed
//     `export-import:derived-store-differs:<module>:<class>`; classes the unchanged tree is KNOWN to rebuild differently
//     (findings F30-F43, each with its reason) are passed in by the caller and only counted;
//   * the x/lockup accumulation store (prefix 0x20: one sum tree per denomination, synthetic denominations included)
//     by MEANING, because the shape of a sum tree legitimately depends on the insertion history: the decoded non-zero
//     leaves (denomination, duration) -> amount, and the keeper's answer at every leaf boundary against the suffix
//     sums of those leaves (an inner node that disagrees with its leaves shows here).  Reference for what InitGenesis
//     has to rebuild: a from-scratch sum over the live locks (real denominations) and over the live synthetic locks
//     (synthetic denominations: the underlying lock's amount at the SYNTHETIC lock's duration), computed from the lock
//     records with plain maps.  The running chain's synthetic trees may already have drifted (finding F43, owned by C06),
//     so for synthetic denominations the import is compared with the recomputation, not with the running chain.

import (
	"bytes"
	"encoding/binary"
	"encoding/json"
	"fmt"
	"os"
	"sort"
	"strings"
	"time"

	storetypes "cosmossdk.io/store/types"
	sdk "github.com/cosmos/cosmos-sdk/types"
	"github.com/cosmos/gogoproto/proto"

	"github.com/osmosis-labs/osmosis/osmomath"
	"github.com/osmosis-labs/osmosis/osmoutils/sumtree"
	lockupkeeper "github.com/osmosis-labs/osmosis/v31/x/lockup/keeper"
	lockuptypes "github.com/osmosis-labs/osmosis/v31/x/lockup/types"
	protorevtypes "github.com/osmosis-labs/osmosis/v31/x/protorev/types"
)

// rawStoreMap: every (key, value) of one KV store.
func rawStoreMap(ctx sdk.Context, key storetypes.StoreKey) map[string]string {
	out := map[string]string{}
	it := ctx.KVStore(key).Iterator(nil, nil)
	defer it.Close()
	for ; it.Valid(); it.Next() {
		out[string(it.Key())] = string(it.Value())
	}
	return out
}

type storeClassDiff struct {
	n      int
	key    string // smallest differing key of the class
	sample string
}

// storeDiffByClass: differing keys of two raw stores grouped by classOf(key, what) ("" = ignore the key); what = "missing"
// (only in pre), "extra" (only in post) or "changed" (different value).
func storeDiffByClass(pre, post map[string]string, classOf func(key, what string) string) map[string]*storeClassDiff {
	out := map[string]*storeClassDiff{}
	note := func(k, what string) {
		c := classOf(k, what)
		if c == "" {
			return
		}
		d := out[c]
		if d == nil {
			d = &storeClassDiff{}
			out[c] = d
		}
		d.n++
		if d.sample == "" || k < d.key {
			d.key = k
			d.sample = fmt.Sprintf("%s %q", what, k)
			if what == "changed" {
				d.sample += fmt.Sprintf(" %x -> %x", trunc(pre[k], 48), trunc(post[k], 48))
			}
		}
	}
	for k, v := range pre {
		if w, ok := post[k]; !ok {
			note(k, "missing")
		} else if w != v {
			note(k, "changed")
		}
	}
	for k := range post {
		if _, ok := pre[k]; !ok {
			note(k, "extra")
		}
	}
	return out
}

func sortedClassKeys(m map[string]*storeClassDiff) []string {
	var ks []string
	for k := range m {
		ks = append(ks, k)
	}
	sort.Strings(ks)
	return ks
}

// byteClass: class of a raw key = its first byte (the modules' key prefixes are single bytes).
func byteClass(k string) string {
	if k == "" {
		return "<empty>"
	}
	return fmt.Sprintf("0x%02x", k[0])
}

// ---------------------------------------------------------------- x/lockup accumulation store

// accLeaves: denomination -> duration (ns) -> amount, non-zero leaves only
type accLeaves map[string]map[int64]osmomath.Int

func (a accLeaves) add(dn string, d int64, x osmomath.Int) {
	if a[dn] == nil {
		a[dn] = map[int64]osmomath.Int{}
	}
	if cur, ok := a[dn][d]; ok {
		x = cur.Add(x)
	}
	if x.IsZero() {
		delete(a[dn], d)
		if len(a[dn]) == 0 {
			delete(a, dn)
		}
		return
	}
	a[dn][d] = x
}

func (a accLeaves) denoms() []string {
	var ks []string
	for k := range a {
		ks = append(ks, k)
	}
	sort.Strings(ks)
	return ks
}

func (a accLeaves) str(dn string) string {
	var ds []int64
	for d := range a[dn] {
		ds = append(ds, d)
	}
	sort.Slice(ds, func(i, j int) bool { return ds[i] < ds[j] })
	var p []string
	for _, d := range ds {
		p = append(p, fmt.Sprintf("%d:%s", d, a[dn][d]))
	}
	return "{" + strings.Join(p, " ") + "}"
}

// suffix sum "duration >= d" (d < 0 wraps to a key above every leaf, as in the keeper)
func (a accLeaves) atLeast(dn string, d int64) osmomath.Int {
	s := osmomath.ZeroInt()
	for ld, x := range a[dn] {
		if uint64(ld) >= uint64(d) {
			s = s.Add(x)
		}
	}
	return s
}

func isSyntheticDenom(dn string) bool {
	return strings.Contains(dn, "/superbonding") || strings.Contains(dn, "/superunbonding")
}

// lockupAccumLeaves decodes the leaves of every accumulation tree in the lockup store.  Raw key (after the store
// prefix 0x20): <denom> "/" "node/" <level: 2 bytes BE> <leaf key: 8 bytes BE duration, or empty for the sentinel leaf>.
func lockupAccumLeaves(ctx sdk.Context, key storetypes.StoreKey) (leaves accLeaves, nodes map[string]int, malformed []string) {
	leaves, nodes = accLeaves{}, map[string]int{}
	it := storetypes.KVStorePrefixIterator(ctx.KVStore(key), lockuptypes.KeyPrefixLockAccumulation)
	defer it.Close()
	for ; it.Valid(); it.Next() {
		k := it.Key()[len(lockuptypes.KeyPrefixLockAccumulation):]
		p := -1
		if n := len(k); n >= 16 && string(k[n-16:n-10]) == "/node/" {
			p = n - 16
		} else if n >= 8 && string(k[n-8:n-2]) == "/node/" {
			p = n - 8
		}
		if p < 0 {
			malformed = append(malformed, fmt.Sprintf("%x", it.Key()))
			continue
		}
		dn := string(k[:p])
		nodes[dn]++
		if binary.BigEndian.Uint16(k[p+6:p+8]) != 0 {
			continue
		}
		var leaf sumtree.Leaf
		if err := proto.Unmarshal(it.Value(), &leaf); err != nil || leaf.Leaf == nil {
			malformed = append(malformed, fmt.Sprintf("%x", it.Key()))
			continue
		}
		rest := k[p+8:]
		if len(rest) == 0 { // sentinel leaf at the empty key (holds the amounts booked under the empty key, F3)
			if !leaf.Leaf.Accumulation.IsZero() {
				leaves.add(dn, -1<<62, leaf.Leaf.Accumulation)
			}
			continue
		}
		if !bytes.Equal(leaf.Leaf.Index, rest) {
			malformed = append(malformed, fmt.Sprintf("%x(index %x)", it.Key(), leaf.Leaf.Index))
		}
		leaves.add(dn, int64(binary.BigEndian.Uint64(rest)), leaf.Leaf.Accumulation)
	}
	return leaves, nodes, malformed
}

// lockupAccumReference: what InitGenesis has to rebuild, from the lock records alone.
func lockupAccumReference(ctx sdk.Context, k *lockupkeeper.Keeper) (accLeaves, error) {
	ref := accLeaves{}
	locks, err := k.GetPeriodLocks(ctx)
	if err != nil {
		return nil, err
	}
	byID := map[uint64]lockuptypes.PeriodLock{}
	for _, l := range locks {
		byID[l.ID] = l
		for _, c := range l.Coins {
			ref.add(c.Denom, int64(l.Duration), c.Amount)
		}
	}
	for _, sl := range k.GetAllSyntheticLockups(ctx) {
		l, ok := byID[sl.UnderlyingLockId]
		if !ok {
			return nil, fmt.Errorf("synthetic lock %s of unknown lock %d", sl.SynthDenom, sl.UnderlyingLockId)
		}
		if len(l.Coins) != 1 {
			return nil, fmt.Errorf("synthetic lock %s on lock %d with %d coins", sl.SynthDenom, l.ID, len(l.Coins))
		}
		ref.add(sl.SynthDenom, int64(sl.Duration), l.Coins[0].Amount)
	}
	return ref, nil
}

// lockupAccumQueries: the keeper's GetPeriodLocksAccumulation at every leaf boundary (each +-1ns), 0, -1 and MaxInt64 of
// every denomination in `leaves` must be the suffix sum of the leaves (run on a discarded branch: the query creates the
// tree of an unknown denomination).  Returns the disagreements.
func lockupAccumQueries(ctx sdk.Context, k *lockupkeeper.Keeper, leaves accLeaves, denoms []string) []string {
	var bad []string
	cctx, _ := ctx.CacheContext()
	for _, dn := range denoms {
		pts := map[int64]bool{0: true, -1: true, 1<<63 - 1: true}
		for d := range leaves[dn] {
			if d >= 0 {
				pts[d], pts[d+1] = true, true
				if d > 0 {
					pts[d-1] = true
				}
			}
		}
		for _, d := range sortedI64(pts) {
			var got osmomath.Int
			if !catch(func() {
				got = k.GetPeriodLocksAccumulation(cctx, lockuptypes.QueryCondition{LockQueryType: lockuptypes.ByDuration, Denom: dn, Duration: time.Duration(d)})
			}) {
				bad = append(bad, fmt.Sprintf("accumulation(%s, >=%d) panicked", dn, d))
				continue
			}
			want := leaves.atLeast(dn, d)
			if d >= 0 { // the sentinel leaf sits below every duration key
				if s, ok := leaves[dn][-1<<62]; ok {
					want = want.Sub(s)
				}
			}
			if !got.Equal(want) {
				bad = append(bad, fmt.Sprintf("accumulation(%s, >=%d) = %s, leaves %s sum to %s", dn, d, got, leaves.str(dn), want))
			}
		}
	}
	return bad
}

// lockupDerivedOracle: the accumulation store after an import (`post`) against (i) the recomputation `ref` from the
// imported lock records — every denomination, synthetic ones included; (ii) the exporting chain (`pre`) for real
// denominations; (iii) its own trees (queries vs leaves).  The empty denomination "" (F6: a non-denomination the
// running chain books into) is not rebuilt and is left out.  fail(key, detail) receives keys below
// `export-import:derived-store-differs:lockup:accumulation:`.
func lockupDerivedOracle(ctx sdk.Context, k *lockupkeeper.Keeper, key storetypes.StoreKey, pre accLeaves, fail func(cls, detail string), count func(string)) {
	post, _, malformed := lockupAccumLeaves(ctx, key)
	if len(malformed) > 0 {
		fail("malformed-key", strings.Join(malformed, " "))
	}
	ref, err := lockupAccumReference(ctx, k)
	if err != nil {
		fail("records-unreadable", err.Error())
		return
	}
	cls := func(dn string) string {
		if isSyntheticDenom(dn) {
			return "synthetic-denom"
		}
		return "real-denom"
	}
	seen := map[string]bool{}
	for _, m := range []accLeaves{post, ref, pre} {
		for dn := range m {
			seen[dn] = true
		}
	}
	var dns []string
	for dn := range seen {
		if dn != "" {
			dns = append(dns, dn)
		}
	}
	sort.Strings(dns)
	for _, dn := range dns {
		count("exportimport.accumulation-compared." + cls(dn))
		if post.str(dn) != ref.str(dn) {
			fail(cls(dn)+":not-the-sum-over-live-locks", fmt.Sprintf("denom %s: imported store holds %s, the imported (synthetic) lock records sum to %s; exporting chain held %s", dn, post.str(dn), ref.str(dn), pre.str(dn)))
			continue
		}
		if pre != nil && pre.str(dn) != post.str(dn) {
			if isSyntheticDenom(dn) {
				count("exportimport.synthetic-accumulation-drift-of-running-chain-repaired-by-import") // F43 (C06)
			} else {
				fail(cls(dn)+":differs-from-exporting-chain", fmt.Sprintf("denom %s: exporting chain %s, imported %s", dn, pre.str(dn), post.str(dn)))
			}
		}
	}
	if len(ref[""]) > 0 {
		fail("real-denom:lock-of-empty-denom", ref.str(""))
	}
	for _, b := range lockupAccumQueries(ctx, k, post, dns) {
		fail("query-disagrees-with-leaves", b)
	}
}

// synthetic denominations with >= 2 live synthetic locks at ONE synthetic duration, at least one of them on a lock of a
// different duration: the shape in which a rebuilt accumulation bucket is a sum of several locks (input distribution).
func lockupSynthClusters(ctx sdk.Context, k *lockupkeeper.Keeper) (clusters, differing int) {
	type bk struct {
		dn string
		d  time.Duration
	}
	n, diff := map[bk]int{}, map[bk]bool{}
	for _, sl := range k.GetAllSyntheticLockups(ctx) {
		b := bk{sl.SynthDenom, sl.Duration}
		n[b]++
		if l, err := k.GetLockByID(ctx, sl.UnderlyingLockId); err == nil && l.Duration != sl.Duration {
			diff[b] = true
		}
	}
	for b, c := range n {
		if c >= 2 {
			clusters++
			if diff[b] {
				differing++
			}
		}
	}
	return
}

// ---------------------------------------------------------------- x/incentives store

// incentivesDerivedOracle: the raw x/incentives store after export -> wipe -> import against the store before.
//
//	0x03 gauge records: byte-identical, except that finished gauges are not exported (F40, reported by the caller);
//	0x04 upcoming/active/finished reference stores and 0x05 gauges-by-denomination index (values: JSON id lists in
//	  insertion order): compared as MEMBERSHIP id -> keys.  A not-finished gauge sits under exactly one 0x04 key, in the
//	  store its start time and the import time dictate (`statusAfter`; a lagging upcoming gauge is activated, F36), under
//	  the same key as before when its status did not change, and under the same 0x05 keys as before; a finished gauge is
//	  gone from both.  A different ORDER of the ids inside one value is counted, not failed (the list is rebuilt in export order);
//	everything else (last id, lockable durations, groups, ...): byte-identical.
func incentivesDerivedOracle(o *Out, pre, post map[string]string, statusAfter func(id uint64) (string, bool)) {
	fail := func(cls, detail string) { o.Fail("export-import:derived-store-differs:incentives:"+cls, detail) }
	member := func(m map[string]string, pfx byte) map[uint64][]string {
		out := map[uint64][]string{}
		for k, v := range m {
			if len(k) == 0 || k[0] != pfx {
				continue
			}
			var ids []uint64
			if json.Unmarshal([]byte(v), &ids) != nil {
				fail(fmt.Sprintf("0x%02x:undecodable", pfx), fmt.Sprintf("key %q value %q", k, trunc(v, 60)))
				continue
			}
			seen := map[uint64]bool{}
			for _, id := range ids {
				if seen[id] {
					fail(fmt.Sprintf("0x%02x:duplicate-id", pfx), fmt.Sprintf("key %q value %s", k, v))
				}
				seen[id] = true
				out[id] = append(out[id], k)
			}
		}
		for id := range out {
			sort.Strings(out[id])
		}
		return out
	}
	statusOfKey := func(k string) string {
		if len(k) < 2 {
			return "?"
		}
		return map[byte]string{0: "U", 1: "A", 2: "F"}[k[1]]
	}
	for _, pfx := range []byte{0x04, 0x05} {
		mp, mq := member(pre, pfx), member(post, pfx)
		ids := map[uint64]bool{}
		for id := range mp {
			ids[id] = true
		}
		for id := range mq {
			ids[id] = true
		}
		cls := fmt.Sprintf("0x%02x", pfx)
		for id := range ids {
			want, known := statusAfter(id)
			kp, kq := mp[id], mq[id]
			o.Count("exportimport.ref-membership-compared." + cls)
			switch {
			case !known:
				fail(cls+":unknown-gauge", fmt.Sprintf("gauge %d referenced under %q -> %q", id, kp, kq))
			case want == "F":
				if len(kq) != 0 {
					fail(cls+":finished-gauge-referenced", fmt.Sprintf("gauge %d (finished, not exported) referenced under %q after import", id, kq))
				}
			case pfx == 0x04:
				if len(kq) != 1 || statusOfKey(kq[0]) != want {
					fail(cls+":wrong-reference-store", fmt.Sprintf("gauge %d expected in store %s: before %q after %q", id, want, kp, kq))
				} else if len(kp) == 1 && statusOfKey(kp[0]) == want && kp[0] != kq[0] {
					fail(cls+":reference-key-changed", fmt.Sprintf("gauge %d: before %q after %q", id, kp, kq))
				} else if len(kp) == 1 && statusOfKey(kp[0]) != want && kp[0][2:] != kq[0][2:] {
					fail(cls+":reference-time-key-changed", fmt.Sprintf("gauge %d: before %q after %q", id, kp, kq))
				}
			default:
				if strings.Join(kp, "|") != strings.Join(kq, "|") {
					fail(cls+":membership-changed", fmt.Sprintf("gauge %d: before %q after %q", id, kp, kq))
				}
			}
		}
	}
	diffs := storeDiffByClass(pre, post, func(k, _ string) string {
		c := byteClass(k)
		if c == "0x04" || c == "0x05" {
			if pre[k] != "" && post[k] != "" {
				var a, b []uint64
				json.Unmarshal([]byte(pre[k]), &a)
				json.Unmarshal([]byte(post[k]), &b)
				sort.Slice(a, func(i, j int) bool { return a[i] < a[j] })
				sort.Slice(b, func(i, j int) bool { return b[i] < b[j] })
				if fmt.Sprint(a) == fmt.Sprint(b) {
					o.Count("exportimport.ref-list-order-differs." + c)
				}
			}
			return ""
		}
		return c
	})
	for _, c := range sortedClassKeys(diffs) {
		d := diffs[c]
		if c == "0x03" {
			// records: only finished gauges may be missing
			bad := 0
			for k, v := range pre {
				if k[0] != 0x03 {
					continue
				}
				w, ok := post[k]
				if ok && w == v {
					continue
				}
				var id uint64
				if len(k) >= 8 {
					id = binary.BigEndian.Uint64([]byte(k[len(k)-8:]))
				}
				if st, known := statusAfter(id); !ok && known && st == "F" {
					continue
				}
				bad++
			}
			for k := range post {
				if k[0] == 0x03 {
					if _, ok := pre[k]; !ok {
						bad++
					}
				}
			}
			if bad == 0 {
				o.Count("exportimport.finished-gauge-records-dropped")
				continue
			}
		}
		fail(c, fmt.Sprintf("%d keys, e.g. %s", d.n, d.sample))
	}
}

// ---------------------------------------------------------------- whole app (engine det)

// (protorev 0x02, the denom-pair -> pool index, used to be listed here as "derived state, rebuilt at the next epoch": that
// swallowed an index that InitGenesis did NOT rebuild.  It is now compared entry by entry, see protorevIndexOracle.)
//
// detKnownStoreDiff: "store:key class:kind of difference" -> why the imported node's raw store differs from the exporting
// node's on the UNCHANGED tree (exactly the classes observed over the sweep seeds 1,2,3,7,11 at quick tier and 720 imports
// at thorough tier; each entry is a recorded finding or state that no genesis carries by design).  Counted, not failed.  Every other key of every store must be byte-identical after
// InitChain(export) — the records AND everything InitGenesis derives from them.
var detKnownStoreDiff = map[string]string{
	"bank:0x58:supply-offset:missing":                     "F34: supply offsets are not part of the bank genesis",
	"epochs:0x01:changed":                                 "F30: CurrentEpochStartHeight overwritten with the import height",
	"mint:0x00:changed":                                   "F31: minter.EpochProvisions reset to the genesis value",
	"ibc:clients/09-localhost/clientState:changed":        "F33: localhost client re-created at the import height",
	"protorev:0x12:changed":                               "F32: cyclic-arb tracker start height",
	"protorev:0x11:changed":                               "F32: cyclic-arb tracker",
	"concentratedliquidity:0x13:changed":                  "F35: per-denom total liquidity recomputed from pool balances",
	"concentratedliquidity:0x0e:changed":                  "F41: full-range liquidity record recomputed",
	"concentratedliquidity:0x0e:missing":                  "F41: no record for a pool without full-range position",
	"concentratedliquidity:accum-position-record:missing": "uptime-accumulator records of deleted positions: the running chain never deletes them, the export lists live positions only (counted by engine cl as stale-uptime-records)",
	"incentives:0x03:missing":                             "F40: finished gauges are not exported",
	"incentives:0x04:missing":                             "F36/F40: reference stores re-derived from the import time; finished references dropped",
	"incentives:0x04:extra":                               "F36",
	"incentives:0x04:changed":                             "F36",
	"incentives:0x05:changed":                             "F40/F36: by-denomination index rebuilt in export order",
	"poolmanager:0x03:extra":                              "F37: pool volume records are written for every pool at import, on the running chain only once a pool has volume",
	"poolincentives:pool-incentives-pool-id:extra":        "gauge -> pool links of no-lock gauges are re-filed under duration 0 (the export carries no duration): an extra link for a pool's internal gauge (harmless), and the misplaced link of F53",
	"staking:0x50:historical-info:missing":                "HistoricalInfo embeds the previous app hash and is not part of the staking genesis",
	"staking:0x61:validator-updates:missing":              "the previous block's validator updates (consumed by the next EndBlock) are not genesis state",
	"twap:0x01:pruning-state:missing":                     "the idle pruning state is not exported (engine twap: idle-pruning-state-not-exported)",
	"wasm:0x04:sequence-counter:extra":                    "wasmd InitGenesis writes its id sequences explicitly; a chain that never stored code has no such keys",
	"wasm:0x08:tx-counter:missing":                        "F37: wasmd per-block tx counter record is not genesis state",
}

// detKeyClass: class of a raw key of a store (finer than keyClass where only a part of a prefix is known to differ)
func detKeyClass(store, key string) string {
	if key == "" {
		return "<empty>"
	}
	c := keyClass(key)
	switch store {
	case "bank":
		if key[0] == 88 {
			return "0x58:supply-offset"
		}
	case "ibc":
		if strings.HasPrefix(key, "clients/") {
			return key
		}
	case "concentratedliquidity":
		if strings.HasPrefix(key, "accum||pos||") {
			return "accum-position-record"
		}
		if strings.HasPrefix(key, "accum||") {
			return "accum-total"
		}
	case "protorev":
		// the highest-liquidity pool per (base denom, denom): derived state, rebuilt by InitGenesis (UpdatePools), read by
		// x/txfees, x/incentives, x/poolmanager and protorev's own route builder: compared by meaning (protorevIndexOracle)
		if key[0] == protorevtypes.KeyPrefixDenomPairToPool[0] {
			return "denom-pair-to-pool"
		}
	case "staking":
		if key[0] == 0x50 {
			return "0x50:historical-info"
		}
		if key == "a" {
			return "0x61:validator-updates"
		}
	case "twap":
		if key == "\x01" {
			return "0x01:pruning-state"
		}
	case "wasm":
		if key == "\x04lastCodeId" || key == "\x04lastContractId" {
			return "0x04:sequence-counter"
		}
		if key == "\x08" {
			return "0x08:tx-counter"
		}
	}
	if len(key) > 0 && len(c) > 4 && !strings.HasPrefix(c, "0x") {
		return c
	}
	return byteClass(key)
}

// detDerivedStores compares every KV store of the freshly imported node y with the exporting node x.
func detDerivedStores(o *Out, hist, k int, x, y *detNode) {
	cx, cy := x.readCtx(), y.readCtx()
	keys := x.app.GetKVStoreKey()
	var names []string
	for n := range keys {
		names = append(names, n)
	}
	sort.Strings(names)
	for _, n := range names {
		kx, ky := keys[n], y.app.GetKVStoreKey()[n]
		if ky == nil {
			continue
		}
		var mx, my map[string]string
		if !catch(func() { mx, my = rawStoreMap(cx, kx), rawStoreMap(cy, ky) }) {
			o.Count("import.derived-store.unreadable." + n)
			continue
		}
		o.Count("import.derived-store-compared")
		diffs := storeDiffByClass(mx, my, func(key, what string) string {
			if n == lockuptypes.StoreKey && strings.HasPrefix(key, string(lockuptypes.KeyPrefixLockAccumulation)) {
				return "" // sum trees: by meaning, below
			}
			if n == protorevtypes.StoreKey && detKeyClass(n, key) == "denom-pair-to-pool" {
				return "" // entry by entry against a from-scratch recomputation, below
			}
			return detKeyClass(n, key) + ":" + what
		})
		for _, c := range sortedClassKeys(diffs) {
			d := diffs[c]
			if _, ok := detKnownStoreDiff[n+":"+c]; ok {
				o.Count("import.derived-store.known-difference." + n + ":" + c)
				if os.Getenv("VERIF_DET_DEBUG") == "4" {
					fmt.Printf("KNOWNDIFF %s:%s n=%d %s\n", n, c, d.n, d.sample)
				}
				continue
			}
			detail := fmt.Sprintf("hist %d import after block %d: %d keys of store %s differ between the exporting and the imported node, e.g. %s", hist, k, d.n, n, d.sample)
			if n == "poolincentives" && strings.HasPrefix(d.key, "pool-incentives-pool-id/") {
				// what the lost link means: the lookup x/incentives' distribution does for a no-lock gauge, on both nodes
				var gid uint64
				var durStr string
				if p := strings.Split(d.key, "/"); len(p) == 3 {
					fmt.Sscan(p[1], &gid)
					durStr = p[2]
				}
				if dur, err := time.ParseDuration(durStr); err == nil {
					px, ex := x.app.IncentivesKeeper.GetPoolFromGaugeId(cx, gid, dur)
					_, ey := y.app.IncentivesKeeper.GetPoolFromGaugeId(cy, gid, dur)
					if ex == nil && ey != nil {
						detail += fmt.Sprintf(" | IncentivesKeeper.GetPoolFromGaugeId(gauge %d, %s) (the lookup of distributeInternal for a NoLock gauge; its error aborts Distribute for ALL gauges of the epoch): exporting node pool %d, imported node error %q", gid, dur, px.GetId(), ey.Error())
					}
				}
			}
			if n == "protorev" && len(d.key) > 0 && (d.key[0] == 0x04 || d.key[0] == 0x06 || d.key[0] == 0x07) {
				// trade statistics: what the module's queries report on both nodes
				tx, ex := x.app.ProtoRevKeeper.GetNumberOfTrades(cx)
				ty, ey := y.app.ProtoRevKeeper.GetNumberOfTrades(cy)
				rx, _ := x.app.ProtoRevKeeper.GetAllRoutes(cx)
				ry, _ := y.app.ProtoRevKeeper.GetAllRoutes(cy)
				detail += fmt.Sprintf(" | ProtoRevKeeper.GetNumberOfTrades: exporting node %v (err %v), imported node %v (err %v); GetAllRoutes (routes with trade statistics): %v vs %v", tx, ex, ty, ey, rx, ry)
			}
			o.Fail("export-import:derived-store-differs:"+n+":"+c, detail)
		}
		if n == protorevtypes.StoreKey {
			protorevIndexOracle(o, hist, k, x, y, mx, my)
		}
		if n == lockuptypes.StoreKey {
			pre, _, _ := lockupAccumLeaves(cx, kx)
			lockupDerivedOracle(cy, y.app.LockupKeeper, ky, pre, func(cls, detail string) {
				o.Fail("export-import:derived-store-differs:lockup:accumulation:"+cls, fmt.Sprintf("hist %d import after block %d: %s", hist, k, detail))
			}, o.Count)
		}
	}
}
