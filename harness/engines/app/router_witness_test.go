package app_test

// Self-contained witnesses for the C05 known findings against the REAL code (run with VERIF_WITNESS=1):
//   VERIF_WITNESS=1 ../.bin/app.test -test.run TestRouterWitnesses -test.v

import (
	"fmt"
	"math/big"
	"math/rand"
	"os"
	"sort"
	"testing"

	sdk "github.com/cosmos/cosmos-sdk/types"

	"github.com/osmosis-labs/osmosis/osmomath"
	"github.com/osmosis-labs/osmosis/v31/x/gamm/pool-models/balancer"
	"github.com/osmosis-labs/osmosis/v31/x/poolmanager"
	pmclient "github.com/osmosis-labs/osmosis/v31/x/poolmanager/client"
	pmgrpc "github.com/osmosis-labs/osmosis/v31/x/poolmanager/client/grpc"
	pmtypes "github.com/osmosis-labs/osmosis/v31/x/poolmanager/types"
	txfeestypes "github.com/osmosis-labs/osmosis/v31/x/txfees/types"
)

func TestRouterWitnesses(t *testing.T) {
	if os.Getenv("VERIF_WITNESS") == "" {
		t.Skip("VERIF_WITNESS not set")
	}
	h := newH(t)
	h.Reset()
	e := &rtEngine{h: h, o: NewOut(t.TempDir()), r: rand.New(rand.NewSource(1))}
	e.ms = poolmanager.NewMsgServerImpl(h.App.PoolManagerKeeper)
	e.q = pmgrpc.Querier{Q: pmclient.NewQuerier(h.App.PoolManagerKeeper)}
	e.feeAcc = h.App.AccountKeeper.GetModuleAddress(txfeestypes.TakerFeeCollectorName)
	for name := range h.App.GetKVStoreKey() {
		e.keys = append(e.keys, name)
	}
	sort.Strings(e.keys)
	e.denoms = []string{"bar", "eth", "foo", "usdc"}
	e.accs = h.TestAccs[:3]
	e.wl = map[string]bool{}
	for _, a := range e.accs {
		coins := sdk.NewCoins(sdk.NewCoin("uosmo", bi(pow10(24))))
		for _, d := range e.denoms {
			coins = coins.Add(sdk.NewCoin(d, bi(pow10(40))))
		}
		h.FundAcc(a, coins)
	}
	k := h.App.PoolManagerKeeper
	k.SetParam(h.Ctx, pmtypes.KeyDefaultTakerFee, osmomath.MustNewDecFromStr("0.01"))
	bal := h.PrepareCustomBalancerPool([]balancer.PoolAsset{
		{Weight: osmomath.NewInt(1), Token: sdk.NewCoin("bar", osmomath.NewInt(1_000_000_000))},
		{Weight: osmomath.NewInt(1), Token: sdk.NewCoin("foo", osmomath.NewInt(1_000_000_000))},
	}, balancer.PoolParams{SwapFee: osmomath.ZeroDec(), ExitFee: osmomath.ZeroDec()})
	e.pools = append(e.pools, rtPool{bal, "bal", []string{"bar", "foo"}})
	trader := e.accs[1]

	// W1: the caller's maximum input is exceeded by a successful exact-out swap (taker fee 1 %)
	{
		path := []rtHop{{bal, "foo", "bar"}}
		out := big.NewInt(1_000_000)
		poolIn, _ := e.probeCalc(h.Ctx, false, path[0], out)
		cctx, _ := branch(h.Ctx)
		before := e.bal(cctx, trader, "foo")
		res, err := e.msgOut(cctx, trader, path, out, poolIn)
		spent := new(big.Int).Sub(before, e.bal(cctx, trader, "foo"))
		fmt.Printf("W1 MsgSwapExactAmountOut{routes:[{pool %d, foo}], token_out: %sbar, token_in_max_amount: %s}, default taker fee 0.01 -> err=%v token_in_amount=%v, sender's foo balance fell by %s\n",
			bal, out, poolIn, err, res, spent)
		if err != nil || res.Cmp(poolIn) <= 0 {
			t.Errorf("W1 no longer reproduces")
		}
	}
	// W2: whitelisted sender: estimate != execution
	{
		path := []rtHop{{bal, "foo", "bar"}}
		amt := big.NewInt(1_000_000)
		k.SetParam(h.Ctx, pmtypes.KeyReducedTakerFeeByWhitelist, []string{trader.String()})
		est, ok := e.queryEstIn(path, amt)
		cctx, _ := branch(h.Ctx)
		res, err := e.msgIn(cctx, trader, path, amt, big.NewInt(1))
		fmt.Printf("W2 sender on ReducedFeeWhitelist, taker fee 0.01: EstimateSwapExactAmountIn{%sfoo, [{pool %d, bar}]} = %v (ok=%v); MsgSwapExactAmountIn same route on the same state -> err=%v token_out_amount=%v\n",
			amt, bal, est, ok, err, res)
		estO, okO := e.queryEstOut(path, amt)
		cctx2, _ := branch(h.Ctx)
		resO, errO := e.msgOut(cctx2, trader, path, amt, pow10(30))
		fmt.Printf("W2 exact-out: EstimateSwapExactAmountOut{%sbar} = %v (ok=%v); executed token_in_amount=%v err=%v\n", amt, estO, okO, resO, errO)
		if !ok || err != nil || est.Cmp(res) == 0 {
			t.Errorf("W2 no longer reproduces")
		}
		k.SetParam(h.Ctx, pmtypes.KeyReducedTakerFeeByWhitelist, []string{})
	}
	// W3: exact-out through a concentrated pool that cannot fill the request: success, less delivered
	{
		p := h.PrepareCustomConcentratedPool(e.accs[0], "eth", "usdc", 100, osmomath.ZeroDec())
		if _, err := h.App.ConcentratedLiquidityKeeper.CreateFullRangePosition(h.Ctx, p.GetId(), e.accs[0],
			sdk.NewCoins(sdk.NewCoin("eth", osmomath.NewInt(1_000_000)), sdk.NewCoin("usdc", osmomath.NewInt(1_000_000)))); err != nil {
			t.Fatal(err)
		}
		e.pools = append(e.pools, rtPool{p.GetId(), "cl", []string{"eth", "usdc"}})
		path := []rtHop{{p.GetId(), "eth", "usdc"}}
		out := big.NewInt(2_000_000) // the pool holds 1_000_000 usdc
		est, ok := e.queryEstOut(path, out)
		cctx, _ := branch(h.Ctx)
		b0, b1 := e.bal(cctx, trader, "eth"), e.bal(cctx, trader, "usdc")
		res, err := e.msgOut(cctx, trader, path, out, pow10(39))
		paid := new(big.Int).Sub(b0, e.bal(cctx, trader, "eth"))
		got := new(big.Int).Sub(e.bal(cctx, trader, "usdc"), b1)
		fmt.Printf("W3 concentrated pool %d (full-range position 1000000eth/1000000usdc, spread 0), taker fee 0.01: EstimateSwapExactAmountOut{%susdc} = %v (ok=%v); MsgSwapExactAmountOut{routes:[{pool, eth}], token_out: %susdc, token_in_max_amount: 1e39} -> err=%v token_in_amount=%v; sender paid %s eth and RECEIVED %s usdc\n",
			p.GetId(), out, est, ok, out, err, res, paid, got)
		if err != nil || got.Cmp(out) >= 0 {
			t.Errorf("W3 no longer reproduces")
		}
		// inner hop: eth -> usdc (CL, short) -> ... the sender pays the shortfall of the intermediate denom out of pocket
		bal2 := h.PrepareCustomBalancerPool([]balancer.PoolAsset{
			{Weight: osmomath.NewInt(1), Token: sdk.NewCoin("bar", osmomath.NewInt(1_000_000_000_000))},
			{Weight: osmomath.NewInt(1), Token: sdk.NewCoin("usdc", osmomath.NewInt(1_000_000_000_000))},
		}, balancer.PoolParams{SwapFee: osmomath.ZeroDec(), ExitFee: osmomath.ZeroDec()})
		e.pools = append(e.pools, rtPool{bal2, "bal", []string{"bar", "usdc"}})
		path2 := []rtHop{{p.GetId(), "eth", "usdc"}, {bal2, "usdc", "bar"}}
		out2 := big.NewInt(2_000_000)
		cctx3, _ := branch(h.Ctx)
		c0, c1, c2 := e.bal(cctx3, trader, "eth"), e.bal(cctx3, trader, "usdc"), e.bal(cctx3, trader, "bar")
		res2, err2 := e.msgOut(cctx3, trader, path2, out2, pow10(39))
		fmt.Printf("W3b route eth -[cl %d]-> usdc -[balancer %d]-> bar, token_out %sbar, max 1e39 -> err=%v token_in_amount=%v; sender's balances changed by eth %s, usdc %s, bar %s\n",
			p.GetId(), bal2, out2, err2, res2,
			new(big.Int).Sub(e.bal(cctx3, trader, "eth"), c0), new(big.Int).Sub(e.bal(cctx3, trader, "usdc"), c1), new(big.Int).Sub(e.bal(cctx3, trader, "bar"), c2))
	}
}
