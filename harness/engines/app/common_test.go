package app_test

import (
	"bufio"
	"encoding/json"
	"fmt"
	"math/big"
	"math/rand"
	"os"
	"path/filepath"
	"sort"
	"strings"
)

// Out collects the three streams every engine writes:
//   ops.txt    one op line per case, fed verbatim to the Lean driver
//   impl.txt   the implementation's canonical observation for that line
//   oracle.txt property-oracle failures: "FAIL key=<class> <detail>"
type Out struct {
	dir     string
	ops     *bufio.Writer
	impl    *bufio.Writer
	oracle  *bufio.Writer
	files   []*os.File
	n       int
	dist    map[string]int // input distribution counters
	distinct map[string]struct{}
	samples []string
	fails   int
	failKeys map[string]int
	keepHist bool     // engines that attach the op lines of the current history to an oracle failure
	hist     []string // state-changing op lines since the last `reset`
	// rename[0] != "": an op line starting with rename[0] is written with that prefix replaced by rename[1] (engine `gammg` is engine
	// `gamm` with more op lines; the Lean driver routes on the first word)
	rename [2]string
}

func NewOut(dir string) *Out {
	os.MkdirAll(dir, 0o755)
	o := &Out{dir: dir, dist: map[string]int{}, distinct: map[string]struct{}{}, failKeys: map[string]int{}}
	mk := func(n string) *bufio.Writer {
		f, err := os.Create(filepath.Join(dir, n))
		if err != nil {
			panic(err)
		}
		o.files = append(o.files, f)
		return bufio.NewWriterSize(f, 1<<20)
	}
	o.ops, o.impl, o.oracle = mk("ops.txt"), mk("impl.txt"), mk("oracle.txt")
	return o
}

// Emit records one op line and the implementation's observation.
func (o *Out) Emit(op string, obs string, nontrivial bool) {
	if o.rename[0] != "" && strings.HasPrefix(op, o.rename[0]) {
		op = o.rename[1] + op[len(o.rename[0]):]
	}
	o.ops.WriteString(op)
	o.ops.WriteByte('\n')
	o.impl.WriteString(obs)
	o.impl.WriteByte('\n')
	o.n++
	if o.keepHist {
		if f := strings.Fields(op); len(f) >= 2 {
			switch f[1] {
			case "reset":
				o.hist = append(o.hist[:0], op)
			case "dump", "fdump", "idump", "est", "nextid":
			default:
				o.hist = append(o.hist, op+" => "+strings.SplitN(obs, " ", 2)[0])
			}
		}
	}
	if nontrivial {
		o.distinct[op] = struct{}{}
	}
	if len(o.samples) < 6 && (o.n%997 == 1) {
		s := op + " => " + obs
		if len(s) > 400 {
			s = s[:400] + "…"
		}
		o.samples = append(o.samples, s)
	}
}

func (o *Out) Count(k string) { o.dist[k]++ }

func (o *Out) Fail(key string, detail string) {
	// VERIF_FAIL_FILTER=<substring>: only oracle failures whose key contains the substring are reported (a property
	// that borrows another property's engine for ONE aspect — C19 runs the module engines for their export/import op —
	// leaves the other oracles to the check that owns them); everything else is counted.
	if f := os.Getenv("VERIF_FAIL_FILTER"); f != "" && !strings.Contains(key, f) {
		o.dist["filtered-oracle-failure."+key]++
		return
	}
	// VERIF_FAIL_EXCLUDE=<substring>: the converse — the owning check leaves the borrowed aspect to the borrower
	// (export/import failures are C19's, reported there under C19's known findings), counted here.
	if f := os.Getenv("VERIF_FAIL_EXCLUDE"); f != "" && strings.Contains(key, f) {
		o.dist["excluded-oracle-failure."+key]++
		return
	}
	o.fails++
	o.failKeys[key]++
	if o.failKeys[key] > 40 {
		return
	}
	fmt.Fprintf(o.oracle, "FAIL key=%s %s\n", key, detail)
}

func (o *Out) Close(extra map[string]any) {
	o.ops.Flush()
	o.impl.Flush()
	o.oracle.Flush()
	for _, f := range o.files {
		f.Close()
	}
	st := map[string]any{"evaluations": o.n, "distinct_nontrivial": len(o.distinct), "distribution": o.dist, "samples": o.samples, "oracle_failures": o.fails, "oracle_failure_keys": o.failKeys}
	for k, v := range extra {
		st[k] = v
	}
	b, _ := json.MarshalIndent(st, "", " ")
	os.WriteFile(filepath.Join(o.dir, "stats.json"), b, 0o644)
}

// catch runs f and maps a panic to ok=false.
func catch(f func()) (ok bool) {
	defer func() {
		if r := recover(); r != nil {
			ok = false
		}
	}()
	f()
	return true
}

func obsInt(ok bool, v *big.Int) string {
	if !ok {
		return "panic"
	}
	return "ok " + v.String()
}

func pow10(n int) *big.Int { return new(big.Int).Exp(big.NewInt(10), big.NewInt(int64(n)), nil) }
func pow2(n int) *big.Int  { return new(big.Int).Lsh(big.NewInt(1), uint(n)) }

func ratFloor(r *big.Rat) *big.Int {
	n, d := r.Num(), r.Denom() // d > 0
	q, m := new(big.Int).DivMod(n, d, new(big.Int))
	_ = m
	return q // Euclidean with positive divisor = floor
}
func ratCeil(r *big.Rat) *big.Int {
	n, d := r.Num(), r.Denom()
	q, m := new(big.Int).DivMod(n, d, new(big.Int))
	if m.Sign() != 0 {
		q.Add(q, big.NewInt(1))
	}
	return q
}
func ratTrunc(r *big.Rat) *big.Int {
	if r.Sign() >= 0 {
		return ratFloor(r)
	}
	return ratCeil(r)
}

// ratHalfEven: nearest integer, ties to even.
func ratHalfEven(r *big.Rat) *big.Int {
	f := ratFloor(r)
	diff := new(big.Rat).Sub(r, new(big.Rat).SetInt(f)) // in [0,1)
	c := diff.Cmp(big.NewRat(1, 2))
	if c < 0 {
		return f
	}
	if c > 0 {
		return f.Add(f, big.NewInt(1))
	}
	if f.Bit(0) == 0 {
		return f
	}
	return f.Add(f, big.NewInt(1))
}

type Gen struct{ r *rand.Rand }

func (g *Gen) Intn(n int) int { return g.r.Intn(n) }

// randBits returns a uniformly random non-negative integer with at most n bits.
func (g *Gen) randBits(n int) *big.Int {
	if n <= 0 {
		return big.NewInt(0)
	}
	return new(big.Int).Rand(g.r, pow2(n))
}

func sortedKeys(m map[string]int) []string {
	var ks []string
	for k := range m {
		ks = append(ks, k)
	}
	sort.Strings(ks)
	return ks
}

func envInt(name string, def int) int {
	if v := os.Getenv(name); v != "" {
		var n int
		if _, err := fmt.Sscan(v, &n); err == nil {
			return n
		}
	}
	return def
}

func has(s, sub string) bool { return strings.Contains(s, sub) }
