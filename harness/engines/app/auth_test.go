package app_test

// Engine `auth` (property C20): only the owner/admin can move or alter what they own.
//
// Histories are driven through the REAL msg servers of x/tokenfactory, x/lockup,
// x/concentrated-liquidity and x/superfluid inside the app.  Each history creates
// owned objects (factory denoms with admin changes and renouncing, locks, CL
// positions with transfers so that previous owners exist, superfluid locks) and
// then sends every message type to every object from every sender class.
//
// ORACLE (shares nothing with the Lean model): the engine keeps its own
// owner/admin reference from the arguments of the messages that were accepted.
// A message from anybody else must return an error and must not have written
// anything: the message runs in a cache context and every KV/transient store of
// the cache is compared, key by key (hashed), with the parent context.

import (
	"crypto/sha256"
	"encoding/binary"
	"fmt"
	"math/rand"
	"os"
	"regexp"
	"sort"
	"strings"
	"testing"
	"time"

	storetypes "cosmossdk.io/store/types"
	sdk "github.com/cosmos/cosmos-sdk/types"
	authtypes "github.com/cosmos/cosmos-sdk/x/auth/types"
	banktypes "github.com/cosmos/cosmos-sdk/x/bank/types"
	distrtypes "github.com/cosmos/cosmos-sdk/x/distribution/types"
	govtypes "github.com/cosmos/cosmos-sdk/x/gov/types"
	stakingtypes "github.com/cosmos/cosmos-sdk/x/staking/types"

	"github.com/osmosis-labs/osmosis/osmomath"
	osmoapp "github.com/osmosis-labs/osmosis/v31/app"
	"github.com/osmosis-labs/osmosis/v31/app/apptesting"
	cl "github.com/osmosis-labs/osmosis/v31/x/concentrated-liquidity"
	wasmkeeper "github.com/CosmWasm/wasmd/x/wasm/keeper"
	cltypes "github.com/osmosis-labs/osmosis/v31/x/concentrated-liquidity/types"
	gammkeeper "github.com/osmosis-labs/osmosis/v31/x/gamm/keeper"
	"github.com/osmosis-labs/osmosis/v31/x/gamm/pool-models/stableswap"
	gammtypes "github.com/osmosis-labs/osmosis/v31/x/gamm/types"
	lockupkeeper "github.com/osmosis-labs/osmosis/v31/x/lockup/keeper"
	lockuptypes "github.com/osmosis-labs/osmosis/v31/x/lockup/types"
	sfkeeper "github.com/osmosis-labs/osmosis/v31/x/superfluid/keeper"
	sftypes "github.com/osmosis-labs/osmosis/v31/x/superfluid/types"
	tfkeeper "github.com/osmosis-labs/osmosis/v31/x/tokenfactory/keeper"
	tftypes "github.com/osmosis-labs/osmosis/v31/x/tokenfactory/types"
	vpkeeper "github.com/osmosis-labs/osmosis/v31/x/valset-pref"
	vptypes "github.com/osmosis-labs/osmosis/v31/x/valset-pref/types"
)

const badAddr = "osmo1notanaddress"

var authDebug = os.Getenv("VERIF_AUTH_DEBUG") != ""
var authReasons = os.Getenv("VERIF_AUTH_REASONS") != ""

// the texts of the ownership / admin errors of the modules (statistics only, never the oracle)
var authErrRe = regexp.MustCompile(`(?i)unauthorized|denom that already exists|not scaling factor governor|not lock owner|is not owner|not the owner|not owner of|does not match|owner mismatch|lock owner|not allowed to force unlock|NotPositionOwner`)
var digitsRe = regexp.MustCompile(`osmo1[0-9a-z]+|[0-9]+`)

func rejectReason(err error, noPanic bool) string {
	if noPanic && err != nil && authErrRe.MatchString(err.Error()) {
		return "auth"
	}
	return "other"
}

func shortErr(err error, noPanic bool) string {
	if !noPanic {
		return "panic"
	}
	if err == nil {
		return "nil"
	}
	t := digitsRe.ReplaceAllString(err.Error(), "#")
	if len(t) > 110 {
		t = t[:110]
	}
	return t
}

type authEnv struct {
	t    *testing.T
	h    *H
	o    *Out
	r    *rand.Rand
	real map[string]string // canonical name -> bech32
	name map[string]string // bech32 -> canonical name
	// universe
	users   []string
	mods    []string // all maccPerms module accounts
	modSome []string // the ones used as senders / targets
	gov     string
	cp      string
	pool    string
	keys    []storetypes.StoreKey
	base    map[string]string // snapshot of h.Ctx, nil when stale
	ops     int
	feeAmt  int64
	cw      string // canonical name of the cosmwasm contract of this history ("" = none)

	tfSrv tftypes.MsgServer
	lkSrv lockuptypes.MsgServer
	clSrv cltypes.MsgServer
	sfSrv sftypes.MsgServer
	vpSrv vptypes.MsgServer
	ssSrv stableswap.MsgServer

	// set by the senders for the next exec (consumed there)
	state string                      // life-cycle state of the addressed object (reject-reason statistics)
	twin  func(ctx sdk.Context) error // the same message sent by the owner, run on a discarded branch
	deleg map[string]bool             // engine's own record: addresses with a validator-set preference / delegation
}

func (e *authEnv) addr(n string) string {
	switch n {
	case "-":
		return ""
	case "bad":
		return badAddr
	}
	a, ok := e.real[n]
	if !ok {
		panic("unknown name " + n)
	}
	return a
}

func (e *authEnv) acc(n string) sdk.AccAddress { return sdk.MustAccAddressFromBech32(e.addr(n)) }

// addrSp: the address of n as a message field may spell it — bech32 is valid all lower-case or ALL UPPER-CASE (mixed case is
// not), and both decode to the same account: an authorisation or module-account guard must not depend on the spelling
func (e *authEnv) addrSp(n string) string {
	a := e.addr(n)
	if a != "" && a != badAddr && e.r.Intn(5) == 0 {
		e.o.Count("address-spelling.upper-case")
		return strings.ToUpper(a)
	}
	return a
}

func (e *authEnv) nm(realAddr string) string {
	if realAddr == "" {
		return "-"
	}
	if n, ok := e.name[realAddr]; ok {
		return n
	}
	return "?" + realAddr
}

func (e *authEnv) reg(n string, a sdk.AccAddress) {
	e.real[n] = a.String()
	e.name[a.String()] = n
}

func (e *authEnv) isValid(n string) bool { _, ok := e.real[n]; return ok }

func (e *authEnv) pick(xs ...string) string { return xs[e.r.Intn(len(xs))] }

// ---------------------------------------------------------------- snapshot
func (e *authEnv) snap(ctx sdk.Context) map[string]string {
	out := map[string]string{}
	ms := ctx.MultiStore()
	var lb [8]byte
	for _, k := range e.keys {
		it := ms.GetKVStore(k).Iterator(nil, nil)
		hs := sha256.New()
		for ; it.Valid(); it.Next() {
			kk, vv := it.Key(), it.Value()
			binary.BigEndian.PutUint64(lb[:], uint64(len(kk)))
			hs.Write(lb[:])
			hs.Write(kk)
			binary.BigEndian.PutUint64(lb[:], uint64(len(vv)))
			hs.Write(lb[:])
			hs.Write(vv)
		}
		it.Close()
		out[k.Name()] = string(hs.Sum(nil))
	}
	return out
}

func snapDiff(a, b map[string]string) []string {
	var d []string
	for k, v := range a {
		if b[k] != v {
			d = append(d, k)
		}
	}
	sort.Strings(d)
	return d
}

// exec runs one message in a cache context (tx atomicity).  authorised is the engine's own
// verdict (reference owner/admin); strict = the message addresses a single owned object, so a
// rejection must not have written anything even inside the discarded cache.
func (e *authEnv) exec(module, msg, class string, authorised, strict bool, failKey string, line string, run func(ctx sdk.Context) error) bool {
	if e.base == nil {
		e.base = e.snap(e.h.Ctx)
	}
	cctx, write := e.h.Ctx.CacheContext()
	var err error
	okc := catch(func() { err = run(cctx) })
	accepted := okc && err == nil
	res := "err"
	if accepted {
		res = "ok"
	}
	e.o.Count(fmt.Sprintf("%s.%s:%s:%s", module, msg, class, res))
	if authDebug && !accepted && authorised {
		fmt.Printf("DEBUG %s -> %v (panic=%v)\n", line, err, !okc)
	}
	state, twin := e.state, e.twin
	e.state, e.twin = "", nil
	if !authorised && !accepted {
		// measurement only: is the ownership / admin guard what stopped this sender?
		st := state
		if st == "" {
			st = "-"
		}
		e.o.Count(fmt.Sprintf("reject-reason.%s.%s.%s.%s", msg, class, st, rejectReason(err, okc)))
		if authReasons && rejectReason(err, okc) == "other" {
			fmt.Printf("REASON %s.%s.%s: %s\n", msg, class, st, shortErr(err, okc))
		}
		if twin != nil {
			// the very same message from the owner, on a branch that is thrown away: would the message have
			// gone through had only the sender been the owner?
			tctx, _ := e.h.Ctx.CacheContext()
			var terr error
			tok := catch(func() { terr = twin(tctx) })
			tr := "err"
			if tok && terr == nil {
				tr = "ok"
			}
			e.o.Count(fmt.Sprintf("twin-owner.%s.%s.%s", msg, st, tr))
			if tr == "ok" {
				// the sharp statistic: the message is executable as it stands, only the sender is wrong
				e.o.Count(fmt.Sprintf("able-reject.%s.%s.%s.%s", msg, class, st, rejectReason(err, okc)))
			}
			if authReasons && tr == "err" {
				fmt.Printf("TWIN %s.%s: %s\n", msg, st, shortErr(terr, tok))
			}
		}
	}
	if !authorised {
		if accepted {
			if failKey == "" {
				failKey = fmt.Sprintf("%s.%s:%s:accepted", module, msg, class)
			}
			e.o.Fail(failKey, line)
		} else if strict {
			if d := snapDiff(e.base, e.snap(cctx)); len(d) > 0 {
				e.o.Fail(fmt.Sprintf("%s.%s:%s:state-changed-on-reject", module, msg, class), line+" stores="+strings.Join(d, ","))
			}
		}
	}
	if accepted {
		write()
		e.base = nil
	}
	e.ops++
	return accepted
}

// ---------------------------------------------------------------- setup
func (e *authEnv) setup() {
	h := e.h
	h.Reset()
	e.real, e.name = map[string]string{}, map[string]string{}
	e.base = nil
	e.users = nil

	for i := 0; i < 5; i++ {
		n := fmt.Sprintf("u%d", i)
		e.reg(n, sdk.AccAddress([]byte(fmt.Sprintf("authuser%d___________", i))[:20]))
		e.users = append(e.users, n)
	}
	e.reg("t0", h.TestAccs[0])
	var maddrs []string
	for a := range osmoapp.ModuleAccountAddrs() {
		maddrs = append(maddrs, a)
	}
	sort.Strings(maddrs)
	e.mods = nil
	for i, a := range maddrs {
		n := fmt.Sprintf("m%02d", i)
		e.real[n] = a
		e.name[a] = n
		e.mods = append(e.mods, n)
	}
	e.gov = e.name[authtypes.NewModuleAddress(govtypes.ModuleName).String()]
	e.cp = e.name[authtypes.NewModuleAddress(distrtypes.ModuleName).String()]
	// module accounts exist from genesis on a real chain; in the test app some are created lazily, and a
	// plain bank transfer to a not-yet-created module address would leave a base account there
	for _, mn := range []string{govtypes.ModuleName, distrtypes.ModuleName, tftypes.ModuleName, lockuptypes.ModuleName, stakingtypes.BondedPoolName} {
		h.App.AccountKeeper.GetModuleAccount(h.Ctx, mn)
	}
	e.modSome = []string{e.gov, e.cp,
		e.name[authtypes.NewModuleAddress(tftypes.ModuleName).String()],
		e.name[authtypes.NewModuleAddress(lockuptypes.ModuleName).String()],
		e.name[authtypes.NewModuleAddress(stakingtypes.BondedPoolName).String()]}

	if e.keys == nil {
		var ks []storetypes.StoreKey
		for _, k := range h.App.GetKVStoreKey() {
			ks = append(ks, k)
		}
		for _, k := range h.App.GetTransientStoreKey() {
			ks = append(ks, k)
		}
		sort.Slice(ks, func(i, j int) bool { return ks[i].Name() < ks[j].Name() })
		e.keys = ks
	}
	e.tfSrv = tfkeeper.NewMsgServerImpl(*h.App.TokenFactoryKeeper)
	e.lkSrv = lockupkeeper.NewMsgServerImpl(h.App.LockupKeeper)
	e.clSrv = cl.NewMsgServerImpl(h.App.ConcentratedLiquidityKeeper)
	e.sfSrv = sfkeeper.NewMsgServerImpl(h.App.SuperfluidKeeper)
	e.vpSrv = vpkeeper.NewMsgServerImpl(h.App.ValidatorSetPreferenceKeeper)
	e.ssSrv = gammkeeper.NewStableswapMsgServerImpl(h.App.GAMMKeeper)
	e.deleg = map[string]bool{}
}

// ---------------------------------------------------------------- tokenfactory
type tfDenom struct {
	creator, sub string
	hist         []string // every admin so far (canonical), oldest first
}

func (d tfDenom) canon() string { return "factory/" + d.creator + "/" + d.sub }

func (e *authEnv) realDenom(canon string) string {
	p := strings.SplitN(canon, "/", 3)
	if len(p) == 3 && p[0] == "factory" {
		if a, ok := e.real[p[1]]; ok {
			return "factory/" + a + "/" + p[2]
		}
	}
	return canon
}

func (e *authEnv) tfObs(res string, canon string, addrs []string, denoms []string) string {
	h := e.h
	rd := e.realDenom(canon)
	am, _ := h.App.TokenFactoryKeeper.GetAuthorityMetadata(h.Ctx, rd)
	meta := "~"
	if md, ok := h.App.BankKeeper.GetDenomMetaData(h.Ctx, rd); ok {
		meta = "=" + md.Description
	}
	hook := h.App.TokenFactoryKeeper.GetBeforeSendHook(h.Ctx, rd)
	var bs []string
	for i, a := range addrs {
		if !e.isValid(a) {
			bs = append(bs, "x")
			continue
		}
		bs = append(bs, h.App.BankKeeper.GetBalance(h.Ctx, e.acc(a), e.realDenom(denoms[i])).Amount.String())
	}
	sup := "0"
	if sdk.ValidateDenom(rd) == nil {
		sup = h.App.BankKeeper.GetSupply(h.Ctx, rd).Amount.String()
	}
	if !strings.HasPrefix(canon, "factory/") {
		sup = "-" // native denoms: not a tokenfactory quantity
	}
	return fmt.Sprintf("%s admin=%s meta=%s hook=%s sup=%s bal=[%s]", res, e.nm(am.Admin), meta, e.nm(hook), sup, strings.Join(bs, ","))
}

func resStr(ok bool) string {
	if ok {
		return "ok"
	}
	return "err"
}

func (e *authEnv) modBalances(denom string) string {
	var sb strings.Builder
	for _, m := range e.mods {
		sb.WriteString(e.h.App.BankKeeper.GetBalance(e.h.Ctx, e.acc(m), denom).Amount.String())
		sb.WriteByte(',')
	}
	return sb.String()
}

type tfWorld struct {
	denoms []*tfDenom
	ref    map[string]string // canonical denom -> current admin (engine's own bookkeeping)
	hook   map[string]string // canonical denom -> before-send hook set by the last accepted MsgSetBeforeSendHook ("-" = none)
}

// tfSend sends one tokenfactory message and records observation + oracle.
func (e *authEnv) tfSend(w *tfWorld, kind string, sender string, canon string, class string, args []string) bool {
	h := e.h
	rd := e.realDenom(canon)
	cur, exists := w.ref[canon]
	authorised := exists && cur != "-" && cur == sender
	failKey := ""
	msgName := map[string]string{"mint": "Mint", "burn": "Burn", "force": "ForceTransfer", "admin": "ChangeAdmin", "meta": "SetDenomMetadata", "hook": "SetBeforeSendHook"}[kind]
	if exists && cur == "-" {
		failKey = "tokenfactory.renounced:" + msgName + ":accepted"
		class = "renounced-" + class
	}
	if sender == "-" {
		// not a sender a transaction can have (ValidateBasic / signer extraction reject it): a probe of the
		// raw handler, compared with the model but outside the property's quantifier
		authorised, class, failKey = true, "empty-sender", ""
	}
	line := fmt.Sprintf("auth tf.%s %s %s %s", kind, sender, canon, strings.Join(args, " "))
	if kind == "meta" {
		line = fmt.Sprintf("auth tf.meta %s %s %s", sender, canon, strings.Join(args, " "))
	}
	var addrs []string
	modBefore := ""
	if kind == "mint" || kind == "burn" || kind == "force" {
		modBefore = e.modBalances(rd)
	}
	amt := func(s string) sdk.Coin {
		var v int64
		fmt.Sscan(s, &v)
		return sdk.Coin{Denom: rd, Amount: osmomath.NewInt(v)}
	}
	if (kind == "mint" || kind == "burn" || kind == "force") && args[0] == "100" {
		args[0] = "101" // the test contract's own rule (no transfers of exactly 100) is not modelled
		line = fmt.Sprintf("auth tf.%s %s %s %s", kind, sender, canon, strings.Join(args, " "))
	}
	switch kind {
	case "mint":
		addrs = []string{args[1]}
		if args[1] == "-" {
			addrs = []string{sender}
		}
	case "burn":
		addrs = []string{args[1]}
		if args[1] == "-" {
			addrs = []string{sender}
		}
	case "force":
		addrs = []string{args[1], args[2]}
	}
	// the message as sent by S (the twin re-sends it as the current admin)
	build := func(S string) func(ctx sdk.Context) error {
		switch kind {
		case "mint":
			return func(ctx sdk.Context) error {
				_, err := e.tfSrv.Mint(ctx, &tftypes.MsgMint{Sender: S, Amount: amt(args[0]), MintToAddress: e.addrSp(args[1])})
				return err
			}
		case "burn":
			return func(ctx sdk.Context) error {
				_, err := e.tfSrv.Burn(ctx, &tftypes.MsgBurn{Sender: S, Amount: amt(args[0]), BurnFromAddress: e.addrSp(args[1])})
				return err
			}
		case "force":
			return func(ctx sdk.Context) error {
				_, err := e.tfSrv.ForceTransfer(ctx, &tftypes.MsgForceTransfer{Sender: S, Amount: amt(args[0]), TransferFromAddress: e.addrSp(args[1]), TransferToAddress: e.addrSp(args[2])})
				return err
			}
		case "admin":
			return func(ctx sdk.Context) error {
				_, err := e.tfSrv.ChangeAdmin(ctx, &tftypes.MsgChangeAdmin{Sender: S, Denom: rd, NewAdmin: e.addr(args[0])})
				return err
			}
		case "meta":
			md := banktypes.Metadata{Description: e.addrOrTag(args[1]), DenomUnits: []*banktypes.DenomUnit{{Denom: rd, Exponent: 0}}, Base: rd, Display: rd, Name: rd, Symbol: rd}
			if args[0] == "0" {
				md.Name = ""
			}
			return func(ctx sdk.Context) error {
				_, err := e.tfSrv.SetDenomMetadata(ctx, &tftypes.MsgSetDenomMetadata{Sender: S, Metadata: md})
				return err
			}
		case "hook":
			return func(ctx sdk.Context) error {
				_, err := e.tfSrv.SetBeforeSendHook(ctx, &tftypes.MsgSetBeforeSendHook{Sender: S, Denom: rd, CosmwasmAddress: e.addr(args[0])})
				return err
			}
		}
		panic(kind)
	}
	run := build(e.addr(sender))
	if exists && cur != "-" && !authorised && (class == "stranger" || class == "previous-admin") && e.isValid(cur) && sender != "-" {
		e.twin = build(e.addr(cur))
	}
	e.state = "live"
	if exists && cur == "-" {
		e.state = "renounced"
	} else if !exists {
		e.state = "no-such-denom"
	}
	ok := e.exec("tokenfactory", msgName, class, authorised, true, failKey, line, run)
	if authDebug && ok && class == "stranger" {
		fmt.Printf("DEBUG stranger accepted: %s cur=%q exists=%v authorised=%v\n", line, cur, exists, authorised)
	}
	if ok && kind == "admin" {
		w.ref[canon] = args[0]
		for _, d := range w.denoms {
			if d.canon() == canon {
				d.hist = append(d.hist, args[0])
			}
		}
	}
	if ok && kind == "hook" {
		if w.hook == nil {
			w.hook = map[string]string{}
		}
		w.hook[canon] = args[0]
	}
	if ok && (kind == "burn" || kind == "force") && args[1] == e.pool {
		e.o.Count("tokenfactory." + msgName + ":out-of-pool-address:ok") // pool accounts are not maccPerms accounts
	}
	if ok && modBefore != "" && modBefore != e.modBalances(rd) {
		e.o.Fail("tokenfactory."+msgName+":module-account-touched", line)
	}
	// the keeper's admin record must agree with the engine's bookkeeping
	if exists {
		am, _ := h.App.TokenFactoryKeeper.GetAuthorityMetadata(h.Ctx, rd)
		if e.nm(am.Admin) != w.ref[canon] {
			e.o.Fail("tokenfactory."+msgName+":admin-record-mismatch", line)
		}
	}
	ds := make([]string, len(addrs))
	for i := range ds {
		ds[i] = canon
	}
	e.o.Emit(line, e.tfObs(resStr(ok), canon, addrs, ds), authorised || !exists || cur != "-")
	return ok
}

func (e *authEnv) addrOrTag(s string) string {
	if s == "-" {
		return ""
	}
	return s
}

func (e *authEnv) tfCreate(w *tfWorld, sender, sub, class string) { e.tfCreateX(w, sender, sub, class, false) }

// tfRecreate: a denom that exists (whoever administers it now, and in particular after its admin was
// renounced) can never be created again: creating it anew would hand the admin role back to the creator.
func (e *authEnv) tfRecreate(w *tfWorld) {
	seen := map[string]bool{}
	for _, d := range append([]*tfDenom{}, w.denoms...) {
		c := d.canon()
		if seen[c] {
			continue
		}
		seen[c] = true
		cur := w.ref[c]
		if cur != "-" && e.r.Intn(3) != 0 {
			continue
		}
		sub := d.sub
		if sub == "" {
			sub = "-"
		}
		class := "recreate-existing"
		if cur == "-" {
			class = "recreate-renounced"
		} else if cur != d.creator {
			class = "recreate-foreign-admin"
		}
		e.tfCreateX(w, d.creator, sub, class, true)
	}
}

func (e *authEnv) tfCreateX(w *tfWorld, sender, sub, class string, exists bool) {
	h := e.h
	line := fmt.Sprintf("auth tf.create %s %s", sender, sub)
	realSub := sub
	if sub == "-" {
		realSub = ""
	}
	canon := "factory/" + sender + "/" + realSub
	// independent namespace oracle: the denoms of every other creator are untouched
	var names []string
	for n := range e.real {
		names = append(names, n)
	}
	sort.Strings(names)
	listOthers := func() string {
		var sb strings.Builder
		for _, n := range names {
			if n == sender {
				continue
			}
			resp, err := h.App.TokenFactoryKeeper.DenomsFromCreator(h.Ctx, &tftypes.QueryDenomsFromCreatorRequest{Creator: e.real[n]})
			if err == nil {
				sb.WriteString(n + ":" + strings.Join(resp.Denoms, ",") + ";")
			}
		}
		return sb.String()
	}
	before := listOthers()
	var newDenom string
	ok := e.exec("tokenfactory", "CreateDenom", class, !exists, false, "", line, func(ctx sdk.Context) error {
		resp, err := e.tfSrv.CreateDenom(ctx, &tftypes.MsgCreateDenom{Sender: e.addr(sender), Subdenom: realSub})
		if err == nil {
			newDenom = resp.NewTokenDenom
		}
		return err
	})
	if ok && exists {
		// (already reported by exec as "<…>:accepted"): the reference keeps the admin it had
		e.o.Emit(line, e.tfObs(resStr(ok), canon, []string{sender, e.cp}, []string{"uosmo", "uosmo"}), true)
		return
	}
	if ok {
		if newDenom != "factory/"+e.addr(sender)+"/"+realSub || before != listOthers() {
			e.o.Fail("tokenfactory.CreateDenom:"+class+":foreign-namespace", line+" created="+newDenom)
		}
		d := &tfDenom{creator: sender, sub: realSub, hist: []string{sender}}
		w.denoms = append(w.denoms, d)
		w.ref[d.canon()] = sender
	}
	e.o.Emit(line, e.tfObs(resStr(ok), canon, []string{sender, e.cp}, []string{"uosmo", "uosmo"}), true)
}

func (e *authEnv) tfTargets() []string {
	t := append([]string{}, e.users...)
	t = append(t, e.users...)
	t = append(t, e.modSome...)
	t = append(t, e.pool, "bad")
	return t
}

// tfArgs draws message arguments; plausible = arguments with which the message would go through
// if only the sender were authorised.
func (e *authEnv) tfArgs(kind, sender, canon string, plausible bool) []string {
	h := e.h
	rd := e.realDenom(canon)
	tg := e.tfTargets()
	anyT := func() string { return tg[e.r.Intn(len(tg))] }
	usr := func() string { return e.users[e.r.Intn(len(e.users))] }
	holder := func() string { // a user holding the denom, if any
		st := e.r.Intn(len(e.users))
		for i := range e.users {
			u := e.users[(st+i)%len(e.users)]
			if h.App.BankKeeper.GetBalance(h.Ctx, e.acc(u), rd).Amount.IsPositive() {
				return u
			}
		}
		return usr()
	}
	balOf := func(n string) int64 {
		if !e.isValid(n) {
			return 0
		}
		return h.App.BankKeeper.GetBalance(h.Ctx, e.acc(n), rd).Amount.Int64()
	}
	// a module account on which some of the denom is parked (tfLife case 4), if any: the admin powers must
	// not reach into it whatever the amount
	modHolder := func() string {
		st := e.r.Intn(len(e.modSome))
		for i := range e.modSome {
			m := e.modSome[(st+i)%len(e.modSome)]
			if h.App.BankKeeper.GetBalance(h.Ctx, e.acc(m), rd).Amount.IsPositive() {
				e.o.Count("tokenfactory.args:module-holder-targeted")
				return m
			}
		}
		return anyT()
	}
	switch kind {
	case "mint":
		if plausible {
			return []string{fmt.Sprint(1 + e.r.Intn(1000)), e.pick("-", usr(), usr(), e.pool)}
		}
		return []string{fmt.Sprint(e.pick("0", "1", "7", "1000")), e.pick("-", anyT(), anyT())}
	case "burn":
		if plausible {
			f := holder()
			b := balOf(f)
			a := b
			if b > 1 && e.r.Intn(2) == 0 {
				a = 1 + e.r.Int63n(b)
			}
			return []string{fmt.Sprint(a), f}
		}
		f := e.pick("-", anyT(), modHolder(), modHolder(), holder())
		fr := f
		if f == "-" {
			fr = sender
		}
		b := balOf(fr)
		return []string{fmt.Sprint(e.pick("0", "1", fmt.Sprint(b), fmt.Sprint(b+1))), f}
	case "force":
		if plausible {
			f := holder()
			b := balOf(f)
			a := b
			if b > 1 && e.r.Intn(2) == 0 {
				a = 1 + e.r.Int63n(b)
			}
			return []string{fmt.Sprint(a), f, e.pick(usr(), usr(), e.pool)}
		}
		f := e.pick(anyT(), holder(), modHolder(), modHolder())
		b := balOf(f)
		return []string{fmt.Sprint(e.pick("0", "1", fmt.Sprint(b), fmt.Sprint(b+1))), f, anyT()}
	case "admin":
		if plausible {
			return []string{e.pick(usr(), usr(), usr(), sender, "-", e.pool, e.modSome[e.r.Intn(len(e.modSome))])}
		}
		return []string{e.pick(anyT(), "-", "bad")}
	case "meta":
		if plausible {
			return []string{"1", e.pick("t1", "t2", "t3", "-")}
		}
		return []string{e.pick("1", "1", "0"), e.pick("t1", "t2", "-")}
	case "hook":
		if e.cw != "" && e.r.Intn(2) == 0 {
			return []string{e.cw}
		}
		if plausible {
			return []string{"-"}
		}
		return []string{e.pick("-", usr(), "bad")}
	}
	panic(kind)
}

var tfKinds = []string{"mint", "burn", "force", "admin", "meta", "hook"}

func (e *authEnv) tfPhase() {
	w := &tfWorld{ref: map[string]string{}, hook: map[string]string{}}
	longSub := strings.Repeat("x", 45)
	subs := []string{"a", "b", "c", "a", "b", "uosmo", longSub, "bad!", "-", "x/y"}
	// --- creation, by users (and occasionally a module account / the pool)
	nCreate := 4 + e.r.Intn(5)
	for i := 0; i < nCreate; i++ {
		s := e.users[e.r.Intn(3)]
		class := "user"
		switch e.r.Intn(12) {
		case 0:
			s, class = e.pool, "pool"
		case 1:
			s, class = e.modSome[e.r.Intn(len(e.modSome))], "module"
		}
		e.tfCreate(w, s, subs[e.r.Intn(len(subs))], class)
	}
	if len(w.denoms) == 0 {
		e.tfCreate(w, "u0", "z", "user")
	}
	for round := 0; round < 3; round++ {
		e.tfLife(w)
		if round == 0 && e.cw != "" {
			e.tfHookThenExportImport(w)
		} else if e.r.Intn(3) == 0 {
			e.tfExportImport(w)
		}
		e.tfRecreate(w)
		if e.r.Intn(4) == 0 {
			e.tfExportImport(w)
		}
		// the never-created targets (factory/u0/ghost, uosmo) are swept in the LAST round, after the last export: the raw-handler
		// probes with the empty sender (no transaction can have it) can write an authority record for a denom that has no entry in
		// the creators store, a state outside the reachable set the export/import statements (Props/C19TokenFactory) quantify over
		e.tfSweep(w, round == 2)
		if round < 2 && e.r.Intn(3) == 0 {
			e.tfExportImport(w)
		}
	}
}

// tfHookThenExportImport: the directed sequence for the one thing the tokenfactory genesis does not carry — a live admin points its
// denom's before-send hook at the history's contract, then the module is exported and imported.
func (e *authEnv) tfHookThenExportImport(w *tfWorld) {
	st := 0
	if len(w.denoms) > 0 {
		st = e.r.Intn(len(w.denoms))
	}
	for i := range w.denoms {
		d := w.denoms[(st+i)%len(w.denoms)]
		cur := w.ref[d.canon()]
		if cur == "-" || !e.isValid(cur) || cur == "bad" {
			continue
		}
		if e.tfSend(w, "hook", cur, d.canon(), "admin", []string{e.cw}) {
			e.o.Count("exportimport.directed.hook-set")
			break
		}
	}
	e.tfExportImport(w)
}

// tfExportImport (C19): the REAL x/tokenfactory ExportGenesis -> JSON -> every key of the tokenfactory store deleted -> the REAL
// InitGenesis, in a cache context written back when nothing panicked; the history continues on the imported store.  Then the state
// of every denom of the history (`tf.get`: authority metadata, bank metadata, before-send hook, supply) and the params are read back.
// Oracle (the engine's own admin / hook book): admins, creator index, params survive; a before-send hook does not (loss).
func (e *authEnv) tfExportImport(w *tfWorld) {
	h := e.h
	k := h.App.TokenFactoryKeeper
	cdc := h.App.AppCodec()
	var canons []string
	seen := map[string]bool{}
	for _, d := range w.denoms {
		if c := d.canon(); !seen[c] {
			seen[c] = true
			canons = append(canons, c)
		}
	}
	creators := func() string {
		var names []string
		for n := range e.real {
			names = append(names, n)
		}
		sort.Strings(names)
		var sb strings.Builder
		for _, n := range names {
			resp, err := k.DenomsFromCreator(h.Ctx, &tftypes.QueryDenomsFromCreatorRequest{Creator: e.real[n]})
			if err == nil && len(resp.Denoms) > 0 {
				ds := append([]string{}, resp.Denoms...)
				sort.Strings(ds)
				sb.WriteString(n + ":" + strings.Join(ds, ",") + ";")
			}
		}
		return sb.String()
	}
	// behavioural probe of a hook (discarded branch): the test contract refuses bank sends of exactly 100 units
	probe := func(c string) string {
		cur := w.ref[c]
		if cur == "-" || !e.isValid(cur) {
			return "n/a"
		}
		bctx, _ := h.Ctx.CacheContext()
		rd := e.realDenom(c)
		res := "n/a"
		catch(func() {
			if _, err := e.tfSrv.Mint(bctx, &tftypes.MsgMint{Sender: e.addr(cur), Amount: sdk.NewInt64Coin(rd, 250), MintToAddress: e.addr("u0")}); err != nil {
				return
			}
			if err := h.App.BankKeeper.SendCoins(bctx, e.acc("u0"), e.acc("u1"), sdk.NewCoins(sdk.NewInt64Coin(rd, 100))); err != nil {
				res = "rejected"
			} else {
				res = "accepted"
			}
		})
		return res
	}
	preParams := k.GetParams(h.Ctx)
	preCreators := creators()
	preProbe := map[string]string{}
	for _, c := range canons {
		if hk := w.hook[c]; hk != "" && hk != "-" {
			preProbe[c] = probe(c)
		}
	}
	cctx, write := h.Ctx.CacheContext()
	nDenoms := 0
	ok := catch(func() {
		gen := k.ExportGenesis(cctx)
		nDenoms = len(gen.FactoryDenoms)
		bz := cdc.MustMarshalJSON(gen)
		store := cctx.KVStore(h.App.GetKey(tftypes.StoreKey))
		var keys [][]byte
		it := store.Iterator(nil, nil)
		for ; it.Valid(); it.Next() {
			keys = append(keys, append([]byte{}, it.Key()...))
		}
		it.Close()
		for _, key := range keys {
			store.Delete(key)
		}
		var gs tftypes.GenesisState
		cdc.MustUnmarshalJSON(bz, &gs)
		k.InitGenesis(cctx, gs)
	})
	if !ok {
		e.o.Emit("auth tf.exportimport", "panic", true)
		e.o.Fail("export-import:tokenfactory:panics", fmt.Sprintf("%d denoms", len(canons)))
		return
	}
	write()
	e.base = nil
	e.o.Emit("auth tf.exportimport", "ok", true)
	e.o.Count("exportimport")
	e.o.Count(fmt.Sprintf("exportimport.denoms.%d", min(nDenoms, 8)))
	for _, c := range append(append([]string{}, canons...), "factory/u0/ghost") {
		e.o.Emit("auth tf.get "+c, e.tfObs("ok", c, nil, nil), true)
	}
	p := k.GetParams(h.Ctx)
	e.o.Emit("auth tf.params", fmt.Sprintf("ok fee=uosmo:%s", p.DenomCreationFee.AmountOf("uosmo")), true)
	// ---- oracle
	if !p.DenomCreationFee.Equal(preParams.DenomCreationFee) || p.DenomCreationGasConsume != preParams.DenomCreationGasConsume {
		e.o.Fail("export-import:tokenfactory:params", fmt.Sprintf("%v -> %v", preParams, p))
	}
	if post := creators(); post != preCreators {
		e.o.Fail("export-import:tokenfactory:creator-index", fmt.Sprintf("%s -> %s", preCreators, post))
	}
	for _, c := range canons {
		rd := e.realDenom(c)
		am, _ := k.GetAuthorityMetadata(h.Ctx, rd)
		if e.nm(am.Admin) != w.ref[c] {
			cls := "admin"
			if w.ref[c] == "-" {
				cls = "renounced-admin"
			}
			e.o.Fail("export-import:tokenfactory:"+cls+"-changed", fmt.Sprintf("%s admin %s -> %s", c, w.ref[c], e.nm(am.Admin)))
		}
		hk := w.hook[c]
		if hk == "" || hk == "-" {
			continue
		}
		e.o.Count("exportimport.denom-with-hook")
		if got := e.nm(k.GetBeforeSendHook(h.Ctx, rd)); got != hk {
			twLoss(e.o, "export-import:tokenfactory:before-send-hook-not-exported",
				fmt.Sprintf("%s: MsgSetBeforeSendHook(%s) accepted before the export; after ExportGenesis -> InitGenesis BeforeSendHookAddress = %q; bank send of exactly 100 (refused by the hook contract): %s before, %s after the import",
					c, hk, got, preProbe[c], probe(c)))
			w.hook[c] = "-"
		}
	}
}

// tfLife: random admin life: mints, funds parked on module accounts, admin changes incl. renouncing
func (e *authEnv) tfLife(w *tfWorld) {
	h := e.h
	for _, d := range w.denoms {
		c := d.canon()
		steps := 1 + e.r.Intn(4)
		for i := 0; i < steps; i++ {
			cur := w.ref[c]
			if cur == "-" {
				break
			}
			switch e.r.Intn(6) {
			case 0, 1:
				e.tfSend(w, "mint", cur, c, "admin", e.tfArgs("mint", cur, c, true))
			case 2, 5:
				if !e.isValid(cur) {
					continue
				}
				e.tfSend(w, "admin", cur, c, "admin", e.tfArgs("admin", cur, c, true))
			case 3:
				k := e.pick("burn", "force", "meta")
				e.tfSend(w, k, cur, c, "admin", e.tfArgs(k, cur, c, e.r.Intn(3) != 0))
			case 4:
				// park some of the denom on a module account with a plain bank transfer (not a tokenfactory message)
				u := e.users[e.r.Intn(len(e.users))]
				b := h.App.BankKeeper.GetBalance(h.Ctx, e.acc(u), e.realDenom(c)).Amount
				if b.IsPositive() {
					m := e.modSome[e.r.Intn(len(e.modSome))]
					x := osmomath.NewInt(1 + e.r.Int63n(b.Int64()))
					if err := h.App.BankKeeper.SendCoins(h.Ctx, e.acc(u), e.acc(m), sdk.NewCoins(sdk.NewCoin(e.realDenom(c), x))); err == nil {
						e.base = nil
						e.o.Emit(fmt.Sprintf("auth fund %s %s -%s", u, c, x), "ok", false)
						e.o.Emit(fmt.Sprintf("auth fund %s %s %s", m, c, x), "ok", false)
					}
				}
			}
		}
	}
}

// tfSweep: every denom x every message x every sender class
func (e *authEnv) tfSweep(w *tfWorld, withGhosts bool) {
	type target struct {
		canon string
		d     *tfDenom
	}
	var ts []target
	for _, d := range w.denoms {
		ts = append(ts, target{d.canon(), d})
	}
	if withGhosts {
		ts = append(ts, target{"factory/u0/ghost", nil}, target{"uosmo", nil})
	}
	for _, t := range ts {
		for _, kind := range tfKinds {
			type snd struct{ who, class string }
			var ss []snd
			cur := w.ref[t.canon]
			inHist := map[string]bool{}
			if t.d != nil {
				for _, a := range t.d.hist {
					inHist[a] = true
				}
			}
			for _, u := range e.users {
				if !inHist[u] {
					ss = append(ss, snd{u, "stranger"})
					break
				}
			}
			if t.d != nil {
				for i := len(t.d.hist) - 1; i >= 0; i-- {
					a := t.d.hist[i]
					if a != cur && a != "-" && a != t.d.creator {
						ss = append(ss, snd{a, "previous-admin"})
						break
					}
				}
				if t.d.creator != cur {
					ss = append(ss, snd{t.d.creator, "creator"})
				}
			}
			if e.pool != cur {
				ss = append(ss, snd{e.pool, "pool"})
			}
			for _, m := range []string{e.modSome[e.r.Intn(len(e.modSome))], e.modSome[2], e.modSome[3]} {
				if m != cur {
					ss = append(ss, snd{m, "module"})
					break
				}
			}
			for _, s := range ss {
				e.tfSend(w, kind, s.who, t.canon, s.class, e.tfArgs(kind, s.who, t.canon, e.r.Intn(4) != 0))
			}
			if cur != "" && cur != "-" && e.isValid(cur) && (kind != "admin" || e.r.Intn(3) == 0) {
				e.tfSend(w, kind, cur, t.canon, "admin", e.tfArgs(kind, cur, t.canon, e.r.Intn(3) != 0))
			}
			if (cur == "-" || t.d == nil) && e.r.Intn(6) == 0 {
				e.tfSend(w, kind, "-", t.canon, "empty-sender", e.tfArgs(kind, e.users[0], t.canon, true))
			}
		}
	}
}

// ---------------------------------------------------------------- lockup / superfluid
func (e *authEnv) showLock(id uint64) string {
	h := e.h
	l, err := h.App.LockupKeeper.GetLockByID(h.Ctx, id)
	if err != nil {
		return "gone"
	}
	sf := "n"
	if sl, _, err := h.App.LockupKeeper.GetSyntheticLockupByUnderlyingLockId(h.Ctx, id); err == nil && !sl.IsNil() {
		sf = "b"
		if sl.IsUnlocking() {
			sf = "u"
		}
	}
	amt := "0"
	if len(l.Coins) > 0 {
		amt = l.Coins[0].Amount.String()
	}
	return fmt.Sprintf("%s/%s/%d/%s/%s/%s", e.nm(l.Owner), e.nm(l.RewardReceiverAddress), int64(l.Duration/time.Second), b01(l.IsUnlocking()), amt, sf)
}

// denomKind: what the guards look at in a locked denom
func denomKind(denom string) string {
	switch {
	case denom == "uosmo":
		return "o"
	case strings.HasPrefix(denom, "gamm/pool/"):
		return "g" + strings.TrimPrefix(denom, "gamm/pool/")
	case strings.HasPrefix(denom, "cl/pool/"):
		return "c" + strings.TrimPrefix(denom, "cl/pool/")
	}
	return "x"
}

func b01(b bool) string {
	if b {
		return "1"
	}
	return "0"
}

func (e *authEnv) lkObs(ok bool, id uint64) string {
	last := e.h.App.LockupKeeper.GetLastLockID(e.h.Ctx)
	return fmt.Sprintf("%s L%d=%s last=%d Llast=%s", resStr(ok), id, e.showLock(id), last, e.showLock(last))
}

type lkWorld struct {
	owner map[uint64]string // engine's own bookkeeping
	denom map[uint64]string
	ids   []uint64
	sf    map[uint64]bool
	allow []string
	val   string
	noOwner map[uint64]bool // locks under a CL position: unauthorised attempts only (the owner's lock messages would change what the position model does not link)
	bank    string          // the account real pool shares are handed out from
	poolId  uint64          // the balancer pool whose shares are locked
}

func (e *authEnv) newLock(w *lkWorld, owner string, denom string, amt int64, dur time.Duration, sfAsset bool) uint64 {
	h := e.h
	coins := sdk.NewCoins(sdk.NewInt64Coin(denom, amt))
	if strings.HasPrefix(denom, "gamm/pool/") && w.bank != "" {
		// real pool shares (joined by the bank account), so that exiting the pool with them works
		if err := h.App.BankKeeper.SendCoins(h.Ctx, e.acc(w.bank), e.acc(owner), coins); err != nil {
			e.t.Fatalf("shares: %v", err)
		}
	} else {
		h.FundAcc(e.acc(owner), coins)
	}
	resp, err := e.lkSrv.LockTokens(h.Ctx, lockuptypes.NewMsgLockTokens(e.acc(owner), dur, coins))
	if err != nil {
		e.t.Fatalf("LockTokens: %v", err)
	}
	e.base = nil
	id := resp.ID
	w.owner[id] = owner
	w.denom[id] = denom
	w.sf[id] = sfAsset
	w.ids = append(w.ids, id)
	e.o.Emit(fmt.Sprintf("auth lk.newk %d %s %d %d %s %s", id, owner, amt, int64(dur/time.Second), b01(sfAsset), denomKind(denom)), "ok", false)
	return id
}

// lockState: life-cycle state of a lock as the keepers see it (statistics)
func (e *authEnv) lockState(id uint64) string {
	h := e.h
	l, err := h.App.LockupKeeper.GetLockByID(h.Ctx, id)
	if err != nil {
		return "gone"
	}
	st := "bonded"
	if l.IsUnlocking() {
		st = "unlocking"
	}
	if sl, _, err := h.App.LockupKeeper.GetSyntheticLockupByUnderlyingLockId(h.Ctx, id); err == nil && !sl.IsNil() {
		if sl.IsUnlocking() {
			st = "sf-undelegating+" + st
		} else {
			st = "sf-bonded"
		}
	}
	kind := "other"
	if len(l.Coins) == 1 {
		switch d := l.Coins[0].Denom; {
		case d == "uosmo":
			kind = "uosmo"
		case strings.HasPrefix(d, "gamm/pool/"):
			kind = "gamm"
		case strings.HasPrefix(d, "cl/pool/"):
			kind = "clshare"
		}
	}
	return kind + ":" + st
}

var lkMsgName = map[string]string{"lk.begin": "BeginUnlocking", "lk.extend": "ExtendLockup", "lk.recv": "SetRewardReceiverAddress", "lk.force": "ForceUnlock",
	"sf.delegate": "SuperfluidDelegate", "sf.undelegate": "SuperfluidUndelegate", "sf.unbond": "SuperfluidUnbondLock", "sf.undunbond": "SuperfluidUndelegateAndUnbondLock",
	"sf.convert": "UnbondConvertAndStake", "sf.migrate": "UnlockAndMigrateSharesToFullRangeConcentratedPosition", "vp.bonded": "DelegateBondedTokens"}

func (e *authEnv) lkSend(w *lkWorld, module, kind, sender string, id uint64, class string, args []string) bool {
	h := e.h
	own, exists := w.owner[id]
	authorised := exists && own == sender
	denom := w.denom[id]
	if denom == "" {
		denom = "lkd0"
	}
	coins := func(s string) sdk.Coins {
		var v int64
		fmt.Sscan(s, &v)
		if v == 0 {
			return sdk.Coins{}
		}
		return sdk.Coins{sdk.Coin{Denom: denom, Amount: osmomath.NewInt(v)}}
	}
	line := fmt.Sprintf("auth %s %s %d", kind, sender, id)
	if len(args) > 0 {
		line += " " + strings.Join(args, " ")
	}
	msgName, okk := lkMsgName[kind]
	if !okk {
		panic(kind)
	}
	lastBefore := h.App.LockupKeeper.GetLastLockID(h.Ctx)
	if kind == "lk.force" {
		// the allow-list is a second, independent condition of this message
		inAllow := false
		for _, a := range w.allow {
			if a == sender {
				inAllow = true
			}
		}
		authorised = authorised && inAllow
	}
	if kind == "sf.migrate" {
		authorised = false // the message is disabled: nobody may get through
	}
	// the message as sent by S (the twin re-sends it as the owner)
	build := func(S string) func(ctx sdk.Context) error {
		switch kind {
		case "lk.begin":
			return func(ctx sdk.Context) error {
				_, err := e.lkSrv.BeginUnlocking(ctx, &lockuptypes.MsgBeginUnlocking{Owner: S, ID: id, Coins: coins(args[0])})
				return err
			}
		case "lk.extend":
			var sec int64
			fmt.Sscan(args[0], &sec)
			return func(ctx sdk.Context) error {
				_, err := e.lkSrv.ExtendLockup(ctx, &lockuptypes.MsgExtendLockup{Owner: S, ID: id, Duration: time.Duration(sec) * time.Second})
				return err
			}
		case "lk.recv":
			return func(ctx sdk.Context) error {
				_, err := e.lkSrv.SetRewardReceiverAddress(ctx, &lockuptypes.MsgSetRewardReceiverAddress{Owner: S, LockID: id, RewardReceiver: e.addr(args[0])})
				return err
			}
		case "lk.force":
			return func(ctx sdk.Context) error {
				_, err := e.lkSrv.ForceUnlock(ctx, &lockuptypes.MsgForceUnlock{Owner: S, ID: id, Coins: coins(args[0])})
				return err
			}
		case "sf.delegate":
			v := args[0]
			if v == "val" {
				v = w.val
			}
			return func(ctx sdk.Context) error {
				_, err := e.sfSrv.SuperfluidDelegate(ctx, &sftypes.MsgSuperfluidDelegate{Sender: S, LockId: id, ValAddr: v})
				return err
			}
		case "sf.undelegate":
			return func(ctx sdk.Context) error {
				_, err := e.sfSrv.SuperfluidUndelegate(ctx, &sftypes.MsgSuperfluidUndelegate{Sender: S, LockId: id})
				return err
			}
		case "sf.unbond":
			return func(ctx sdk.Context) error {
				_, err := e.sfSrv.SuperfluidUnbondLock(ctx, &sftypes.MsgSuperfluidUnbondLock{Sender: S, LockId: id})
				return err
			}
		case "sf.undunbond":
			var v int64
			fmt.Sscan(args[0], &v)
			return func(ctx sdk.Context) error {
				_, err := e.sfSrv.SuperfluidUndelegateAndUnbondLock(ctx, &sftypes.MsgSuperfluidUndelegateAndUnbondLock{Sender: S, LockId: id, Coin: sdk.Coin{Denom: denom, Amount: osmomath.NewInt(v)}})
				return err
			}
		case "sf.convert":
			v := args[0]
			switch v {
			case "val":
				v = w.val
			case "-":
				v = ""
			}
			return func(ctx sdk.Context) error {
				_, err := e.sfSrv.UnbondConvertAndStake(ctx, &sftypes.MsgUnbondConvertAndStake{Sender: S, LockId: id, ValAddr: v, MinAmtToStake: osmomath.ZeroInt(),
					SharesToConvert: sdk.Coin{Denom: denom, Amount: osmomath.ZeroInt()}})
				return err
			}
		case "sf.migrate":
			return func(ctx sdk.Context) error {
				_, err := e.sfSrv.UnlockAndMigrateSharesToFullRangeConcentratedPosition(ctx, &sftypes.MsgUnlockAndMigrateSharesToFullRangeConcentratedPosition{
					Sender: S, LockId: int64(id), SharesToMigrate: sdk.Coin{Denom: denom, Amount: osmomath.ZeroInt()}, TokenOutMins: sdk.Coins{}})
				return err
			}
		case "vp.bonded":
			return func(ctx sdk.Context) error {
				_, err := e.vpSrv.DelegateBondedTokens(ctx, &vptypes.MsgDelegateBondedTokens{Delegator: S, LockID: id})
				return err
			}
		}
		panic(kind)
	}
	e.state = e.lockState(id)
	if exists && !authorised && own != sender && (class == "stranger" || (class == "allowlisted" && kind == "lk.force")) && e.isValid(own) {
		e.twin = build(e.addr(own))
	}
	ok := e.exec(module, msgName, class, authorised, true, "", line, build(e.addr(sender)))
	if ok {
		// a split creates a lock with the same owner
		last := h.App.LockupKeeper.GetLastLockID(h.Ctx)
		if last != lastBefore {
			if l, err := h.App.LockupKeeper.GetLockByID(h.Ctx, last); err == nil {
				w.owner[last] = own
				w.denom[last] = denom
				w.sf[last] = w.sf[id]
				w.ids = append(w.ids, last)
				if e.nm(l.Owner) != own {
					e.o.Fail(module+"."+msgName+":split-lock-owner-changed", line)
				}
			}
		}
		if _, err := h.App.LockupKeeper.GetLockByID(h.Ctx, id); err != nil {
			delete(w.owner, id)
		}
		if kind == "sf.convert" {
			e.deleg[sender] = true
		}
	}
	if o2, ok2 := w.owner[id]; ok2 {
		if l, err := h.App.LockupKeeper.GetLockByID(h.Ctx, id); err != nil || e.nm(l.Owner) != o2 {
			e.o.Fail(module+"."+msgName+":owner-record-mismatch", line)
		}
	}
	e.o.Emit(line, e.lkObs(ok, id), true)
	return ok
}

// unpoolSend: MsgUnPoolWhitelistedPool names no lock either.  Sent only by addresses that hold no lock of the
// pool's shares: it must then be a no-op — nothing in any store may change, whether it is accepted (pool on the
// allow-list) or not.
func (e *authEnv) unpoolSend(w *lkWorld, sender, class string, poolId uint64, shareDenom string) {
	h := e.h
	var ids []uint64
	for _, id := range w.ids {
		if o, ok := w.owner[id]; ok {
			if o == sender && w.denom[id] == shareDenom {
				return // the sender's own locks would be unpooled (pool math): not sent
			}
			ids = append(ids, id)
		}
	}
	sort.Slice(ids, func(i, j int) bool { return ids[i] < ids[j] })
	line := fmt.Sprintf("auth sf.unpool %s %d %s", sender, poolId, idsStr(ids))
	before := e.snap(h.Ctx)
	e.state = "no-own-lock"
	ok := e.exec("superfluid", "UnPoolWhitelistedPool", class, true, false, "", line, func(ctx sdk.Context) error {
		_, err := e.sfSrv.UnPoolWhitelistedPool(ctx, &sftypes.MsgUnPoolWhitelistedPool{Sender: e.addr(sender), PoolId: poolId})
		return err
	})
	if d := snapDiff(before, e.snap(h.Ctx)); len(d) > 0 {
		e.o.Fail("superfluid.UnPoolWhitelistedPool:"+class+":no-own-lock:state-changed", line+" stores="+strings.Join(d, ","))
	}
	var ps []string
	for _, id := range ids {
		ps = append(ps, fmt.Sprintf("%d:%s", id, e.showLock(id)))
	}
	e.o.Emit(line, fmt.Sprintf("%s L=[%s] last=%d", resStr(ok), strings.Join(ps, ","), h.App.LockupKeeper.GetLastLockID(h.Ctx)), true)
}

// lkBeginAllSend: MsgBeginUnlockingAll names no lock; whoever sends it, the locks of everybody else must be
// exactly what they were (independent oracle: the keeper's record of every foreign lock before / after).
func (e *authEnv) lkBeginAllSend(w *lkWorld, sender, class string) bool {
	h := e.h
	var ids []uint64
	for _, id := range w.ids {
		if _, ok := w.owner[id]; ok {
			ids = append(ids, id)
		}
	}
	sort.Slice(ids, func(i, j int) bool { return ids[i] < ids[j] })
	foreign := func() string {
		var sb strings.Builder
		for _, id := range ids {
			if w.owner[id] != sender {
				sb.WriteString(fmt.Sprintf("%d=%s;", id, e.showLock(id)))
			}
		}
		return sb.String()
	}
	before := foreign()
	line := fmt.Sprintf("auth lk.beginall %s %s", sender, idsStr(ids))
	e.state = "all-own-locks"
	ok := e.exec("lockup", "BeginUnlockingAll", class, true, false, "", line, func(ctx sdk.Context) error {
		_, err := e.lkSrv.BeginUnlockingAll(ctx, &lockuptypes.MsgBeginUnlockingAll{Owner: e.addr(sender)})
		return err
	})
	if before != foreign() {
		e.o.Fail("lockup.BeginUnlockingAll:"+class+":foreign-lock-touched", line)
	}
	var ps []string
	for _, id := range ids {
		ps = append(ps, fmt.Sprintf("%d:%s", id, e.showLock(id)))
	}
	e.o.Emit(line, fmt.Sprintf("%s L=[%s] last=%d", resStr(ok), strings.Join(ps, ","), h.App.LockupKeeper.GetLastLockID(h.Ctx)), true)
	return ok
}

func (e *authEnv) lkSenders(w *lkWorld, id uint64) [][2]string {
	own := w.owner[id]
	var ss [][2]string
	// the stranger is a user who could execute every message himself: he holds liquid pool shares (more than
	// any lock), uosmo, and — if any user has one — a validator-set preference
	stranger := ""
	for _, u := range e.users {
		if u != own && (stranger == "" || (e.deleg[u] && !e.deleg[stranger])) {
			stranger = u
		}
	}
	ss = append(ss, [2]string{stranger, "stranger"})
	for _, a := range w.allow {
		if a != own {
			ss = append(ss, [2]string{a, "allowlisted"})
			break
		}
	}
	ss = append(ss, [2]string{e.pool, "pool"}, [2]string{e.modSome[e.r.Intn(len(e.modSome))], "module"})
	if e.r.Intn(4) == 0 {
		ss = append(ss, [2]string{"bad", "malformed"})
	}
	return ss
}

// lkArgs draws message arguments; plausible = arguments with which the message goes through when the
// owner sends it in the lock's current state (if any do).
func (e *authEnv) lkArgs(w *lkWorld, kind string, id uint64, sender string, plausible bool) []string {
	h := e.h
	l, err := h.App.LockupKeeper.GetLockByID(h.Ctx, id)
	amt, dur := int64(0), int64(0)
	if err == nil && len(l.Coins) > 0 {
		amt, dur = l.Coins[0].Amount.Int64(), int64(l.Duration/time.Second)
	}
	usr := func() string { return e.users[e.r.Intn(len(e.users))] }
	part := func() string {
		k := e.r.Intn(6)
		if plausible && k == 1 {
			k = 0
		}
		switch k {
		case 0:
			return fmt.Sprint(amt)
		case 1:
			return fmt.Sprint(amt + 1)
		case 2, 3:
			if amt > 1 {
				return fmt.Sprint(1 + e.r.Int63n(amt-1))
			}
		}
		return "0"
	}
	switch kind {
	case "lk.begin", "lk.force":
		return []string{part()}
	case "lk.extend":
		if plausible {
			return []string{fmt.Sprint(dur + 3600)}
		}
		return []string{fmt.Sprint(e.pick(fmt.Sprint(dur+3600), fmt.Sprint(dur+3600), fmt.Sprint(dur), "0", fmt.Sprint(dur-1)))}
	case "lk.recv":
		if plausible {
			cur := ""
			if err == nil {
				cur = e.nm(l.RewardReceiverAddress)
			}
			for _, u := range e.users {
				if u != cur && !(cur == "-" && u == w.owner[id]) {
					return []string{u}
				}
			}
		}
		return []string{e.pick(usr(), usr(), sender, e.pool, "bad")}
	case "sf.delegate":
		if plausible {
			return []string{"val"}
		}
		return []string{e.pick("val", "val", "val", "badval")}
	case "sf.undunbond":
		p := part()
		if p == "0" && (plausible || e.r.Intn(3) != 0) {
			p = fmt.Sprint(amt)
		}
		return []string{p}
	case "sf.convert":
		if plausible {
			return []string{"val"}
		}
		return []string{e.pick("val", "val", "badval", "-")}
	}
	return nil
}

var lkKinds = []string{"lk.begin", "lk.extend", "lk.recv", "lk.force", "vp.bonded"}
var sfKinds = []string{"sf.delegate", "sf.undelegate", "sf.unbond", "sf.undunbond", "sf.convert", "sf.migrate"}

func modOf(kind string) string {
	if strings.HasPrefix(kind, "sf.") {
		return "superfluid"
	}
	if strings.HasPrefix(kind, "vp.") {
		return "valset-pref"
	}
	return "lockup"
}

func (e *authEnv) lkSweep(w *lkWorld, kinds []string, withOwner bool) {
	ids := append([]uint64{}, w.ids...)
	for _, id := range ids {
		if _, ok := w.owner[id]; !ok {
			continue
		}
		for _, kind := range kinds {
			if _, ok := w.owner[id]; !ok {
				break
			}
			if kind == "sf.undunbond" && !strings.HasSuffix(e.lockState(id), ":sf-bonded") && e.r.Intn(3) != 0 {
				continue // the handler looks at the superfluid state BEFORE the owner: mostly sent where the owner check decides
			}
			for _, s := range e.lkSenders(w, id) {
				// the resourced stranger mostly sends what the owner could send
				plausible := s[1] == "stranger" && e.r.Intn(4) != 0
				e.lkSend(w, modOf(kind), kind, s[0], id, s[1], e.lkArgs(w, kind, id, s[0], plausible))
			}
			ownerActs := e.r.Intn(3) != 0 // the owner acts two times in three …
			if kind == "sf.convert" || kind == "vp.bonded" {
				ownerActs = e.r.Intn(5) == 0 // … but rarely destroys the lock
			}
			if own, ok := w.owner[id]; ok && withOwner && !w.noOwner[id] && ownerActs {
				e.lkSend(w, modOf(kind), kind, own, id, "owner", e.lkArgs(w, kind, id, own, e.r.Intn(3) != 0))
			}
		}
	}
	// a lock that does not exist
	for _, kind := range kinds {
		e.lkSend(w, modOf(kind), kind, e.users[0], 999999, "stranger", e.lkArgs(w, kind, 999999, e.users[0], false))
	}
}

// drive sends owner messages that must succeed (set-up of a life-cycle state)
func (e *authEnv) drive(w *lkWorld, id uint64, kinds ...string) {
	own := w.owner[id]
	for _, kind := range kinds {
		args := e.lkArgs(w, kind, id, own, true)
		if kind == "lk.begin" {
			args = []string{"0"}
		}
		if !e.lkSend(w, modOf(kind), kind, own, id, "owner", args) {
			e.o.Count("setup-failed." + kind)
			return
		}
	}
}

func (e *authEnv) lkPhase(w *lkWorld, sfDenom string, unbonding time.Duration) {
	durs := []time.Duration{time.Hour, 24 * time.Hour, unbonding, unbonding + time.Hour}
	n := 1 + e.r.Intn(2)
	for i := 0; i < n; i++ {
		e.newLock(w, e.users[e.r.Intn(len(e.users))], fmt.Sprintf("lkd%d", i), int64(100+e.r.Intn(1000)), durs[e.r.Intn(len(durs))], false)
	}
	// bonded uosmo locks (the objects of valset-pref's DelegateBondedTokens): within and beyond two weeks
	for i := 0; i < 1+e.r.Intn(2); i++ {
		d := []time.Duration{time.Hour, 24 * time.Hour, 14 * 24 * time.Hour, 14*24*time.Hour + time.Second}[e.r.Intn(4)]
		e.newLock(w, e.users[e.r.Intn(len(e.users))], "uosmo", int64(100+e.r.Intn(1000)), d+time.Duration(i)*time.Minute, false)
	}
	// locked gamm shares, one lock per life-cycle state (distinct durations: LockTokens would otherwise merge)
	states := []string{"bonded", "unlocking", "sf-bonded", "sf-undelegating", "sf-unbonding"}
	e.r.Shuffle(len(states), func(i, j int) { states[i], states[j] = states[j], states[i] })
	states = states[:3+e.r.Intn(3)]
	for i, st := range states {
		u := e.users[e.r.Intn(len(e.users))]
		d := unbonding + time.Duration(i)*time.Hour
		if (st == "bonded" || st == "unlocking") && e.r.Intn(2) == 0 {
			d = time.Hour + time.Duration(i)*time.Minute
		}
		id := e.newLock(w, u, sfDenom, int64(100000000000000000+e.r.Int63n(800000000000000000)), d, true)
		switch st {
		case "unlocking":
			e.drive(w, id, "lk.begin")
		case "sf-bonded":
			e.drive(w, id, "sf.delegate")
		case "sf-undelegating":
			e.drive(w, id, "sf.delegate", "sf.undelegate")
		case "sf-unbonding":
			e.drive(w, id, "sf.delegate", "sf.undelegate", "sf.unbond")
		}
		e.o.Count("lock-state-setup." + st)
	}
	all := append(append([]string{}, lkKinds...), sfKinds...)
	// first every message from the non-owners on the states just set up …
	e.lkSweep(w, all, false)
	// … then several rounds: non-owners on every state the owners drive the locks through
	rounds := 2
	for r := 0; r < rounds; r++ {
		e.r.Shuffle(len(all), func(i, j int) { all[i], all[j] = all[j], all[i] })
		e.lkSweep(w, all, true)
	}
	// UnPoolWhitelistedPool from addresses without a lock of the pool
	for _, u := range e.users {
		e.unpoolSend(w, u, "no-lock-of-pool", w.poolId, sfDenom)
	}
	e.unpoolSend(w, e.pool, "pool", w.poolId, sfDenom)
	e.unpoolSend(w, e.modSome[e.r.Intn(len(e.modSome))], "module", w.poolId, sfDenom)
	e.unpoolSend(w, "bad", "malformed", w.poolId, sfDenom)
	e.unpoolSend(w, e.users[0], "other-pool", w.poolId+1000, sfDenom)
	// BeginUnlockingAll last (it levels the states): some users, the pool address, a module account, a malformed sender
	for _, u := range e.users {
		if e.r.Intn(2) == 0 {
			e.lkBeginAllSend(w, u, "owner-of-some")
		}
	}
	e.lkBeginAllSend(w, e.pool, "pool")
	e.lkBeginAllSend(w, e.modSome[e.r.Intn(len(e.modSome))], "module")
	e.lkBeginAllSend(w, "bad", "malformed")
	// … and once more the unauthorised senders on what is left
	e.lkSweep(w, []string{"lk.begin", "sf.convert", "vp.bonded", "sf.unbond"}, false)
}

// ---------------------------------------------------------------- concentrated liquidity
type clWorld struct {
	owner map[uint64]string
	prev  map[uint64][]string
	pool  map[uint64]uint64
	ids   []uint64
	lockOf map[uint64]uint64 // position -> underlying lock
	lk     *lkWorld
}

func (e *authEnv) showPos(id uint64) string {
	p, err := e.h.App.ConcentratedLiquidityKeeper.GetPosition(e.h.Ctx, id)
	if err != nil {
		return "gone"
	}
	return e.nm(p.Address)
}

func (e *authEnv) clObs(ok bool, ids []uint64) string {
	var ps []string
	for _, i := range ids {
		ps = append(ps, fmt.Sprintf("%d:%s", i, e.showPos(i)))
	}
	next := e.h.App.ConcentratedLiquidityKeeper.GetNextPositionId(e.h.Ctx)
	return fmt.Sprintf("%s P=[%s] next=%d Pnew=%s", resStr(ok), strings.Join(ps, ","), next, e.showPos(next-1))
}

func idsStr(ids []uint64) string {
	if len(ids) == 0 {
		return "-"
	}
	var s []string
	for _, i := range ids {
		s = append(s, fmt.Sprint(i))
	}
	return strings.Join(s, ",")
}

func (e *authEnv) clRegister(w *clWorld, id uint64, owner string, pool uint64, locked bool) {
	w.owner[id] = owner
	w.pool[id] = pool
	w.ids = append(w.ids, id)
	e.o.Emit(fmt.Sprintf("auth cl.new %d %s %d %s", id, owner, pool, b01(locked)), "ok", false)
}

var clMsgName = map[string]string{"cl.withdraw": "WithdrawPosition", "cl.add": "AddToPosition", "cl.fees": "CollectSpreadRewards", "cl.inc": "CollectIncentives", "cl.xfer": "TransferPositions",
	"sf.addcl": "AddToConcentratedLiquiditySuperfluidPosition"}

// posState: plain / locked (an underlying lock that is not superfluid staked) / sf-staked
func (e *authEnv) posState(id uint64) string {
	h := e.h
	if _, err := h.App.ConcentratedLiquidityKeeper.GetPosition(h.Ctx, id); err != nil {
		return "gone"
	}
	has, lockId, err := h.App.ConcentratedLiquidityKeeper.PositionHasActiveUnderlyingLock(h.Ctx, id)
	if err != nil || !has {
		return "plain"
	}
	if st := e.lockState(lockId); st != "clshare:bonded" {
		return "lock-" + strings.TrimPrefix(st, "clshare:")
	}
	return "locked"
}

func (e *authEnv) clSend(w *clWorld, kind, sender string, ids []uint64, class string, args []string) bool {
	h := e.h
	k := h.App.ConcentratedLiquidityKeeper
	// engine's own verdict: the sender owns every addressed position (or is gov, for transfers)
	authorised := len(ids) > 0
	ownsSome := false
	for _, id := range ids {
		if o, ok := w.owner[id]; !ok || o != sender {
			authorised = false
		} else {
			ownsSome = true
		}
	}
	if kind == "cl.xfer" && sender == e.gov {
		authorised = true
		for _, id := range ids {
			if _, ok := w.owner[id]; !ok {
				authorised = false
			}
		}
	}
	if len(ids) == 0 {
		authorised = true // nothing is addressed
	}
	strict := !ownsSome // a mixed list may legitimately process the sender's own positions before failing
	if len(ids) == 0 {
		class = "list-empty"
	} else if authorised && !(kind == "cl.xfer" && sender == e.gov) && !strings.HasPrefix(class, "list-") {
		class = "owner"
	}
	var line string
	var newID, newLock uint64
	newAmt := osmomath.ZeroInt()
	module := "concentrated-liquidity"
	liq := osmomath.ZeroDec()
	var a0, a1 int64
	fundFor := func(who string) {
		if (strings.HasPrefix(who, "u") || who == "t0") && a0 >= 0 && a1 >= 0 {
			h.FundAcc(e.acc(who), sdk.NewCoins(sdk.NewInt64Coin("eth", a0+10), sdk.NewInt64Coin("usdc", a1+10)))
			e.base = nil
		}
	}
	switch kind {
	case "cl.withdraw":
		id := ids[0]
		line = fmt.Sprintf("auth cl.withdraw %s %d %s", sender, id, args[0])
		if p, err := k.GetPosition(h.Ctx, id); err == nil {
			liq = p.Liquidity
		}
		switch args[0] {
		case "part":
			liq = liq.QuoInt64(2)
		case "excess":
			liq = liq.Add(osmomath.OneDec())
		case "neg":
			liq = osmomath.OneDec().Neg()
		}
	case "cl.add", "sf.addcl":
		id := ids[0]
		line = fmt.Sprintf("auth %s %s %d %s %s", kind, sender, id, args[0], args[1])
		fmt.Sscan(args[0], &a0)
		fmt.Sscan(args[1], &a1)
		fundFor(sender)
		if kind == "sf.addcl" {
			module = "superfluid"
		}
	case "cl.fees":
		line = fmt.Sprintf("auth cl.fees %s %s", sender, idsStr(ids))
	case "cl.inc":
		line = fmt.Sprintf("auth cl.inc %s %s", sender, idsStr(ids))
	case "cl.xfer":
		line = fmt.Sprintf("auth cl.xfer %s %s %s", sender, idsStr(ids), args[0])
	}
	// the message as sent by S (the twin re-sends it as the owner)
	build := func(S string, record bool) func(ctx sdk.Context) error {
		switch kind {
		case "cl.withdraw":
			return func(ctx sdk.Context) error {
				_, err := e.clSrv.WithdrawPosition(ctx, &cltypes.MsgWithdrawPosition{PositionId: ids[0], Sender: S, LiquidityAmount: liq})
				return err
			}
		case "cl.add":
			return func(ctx sdk.Context) error {
				resp, err := e.clSrv.AddToPosition(ctx, &cltypes.MsgAddToPosition{PositionId: ids[0], Sender: S, Amount0: osmomath.NewInt(a0), Amount1: osmomath.NewInt(a1),
					TokenMinAmount0: osmomath.ZeroInt(), TokenMinAmount1: osmomath.ZeroInt()})
				if err == nil && record {
					newID = resp.PositionId
				}
				return err
			}
		case "sf.addcl":
			return func(ctx sdk.Context) error {
				resp, err := e.sfSrv.AddToConcentratedLiquiditySuperfluidPosition(ctx, &sftypes.MsgAddToConcentratedLiquiditySuperfluidPosition{PositionId: ids[0], Sender: S,
					TokenDesired0: sdk.Coin{Denom: "eth", Amount: osmomath.NewInt(a0)}, TokenDesired1: sdk.Coin{Denom: "usdc", Amount: osmomath.NewInt(a1)}})
				if err == nil && record {
					newID, newLock = resp.PositionId, resp.LockId
					if l, lerr := h.App.LockupKeeper.GetLockByID(ctx, resp.LockId); lerr == nil && len(l.Coins) == 1 {
						newAmt = l.Coins[0].Amount
					}
				}
				return err
			}
		case "cl.fees":
			return func(ctx sdk.Context) error {
				_, err := e.clSrv.CollectSpreadRewards(ctx, &cltypes.MsgCollectSpreadRewards{PositionIds: ids, Sender: S})
				return err
			}
		case "cl.inc":
			return func(ctx sdk.Context) error {
				_, err := e.clSrv.CollectIncentives(ctx, &cltypes.MsgCollectIncentives{PositionIds: ids, Sender: S})
				return err
			}
		case "cl.xfer":
			return func(ctx sdk.Context) error {
				_, err := e.clSrv.TransferPositions(ctx, &cltypes.MsgTransferPositions{PositionIds: ids, Sender: S, NewOwner: e.addr(args[0])})
				return err
			}
		}
		panic(kind)
	}
	if len(ids) == 1 {
		e.state = e.posState(ids[0])
		if own, ok := w.owner[ids[0]]; ok && !authorised && class == "stranger" && e.isValid(own) {
			if kind == "cl.add" || kind == "sf.addcl" {
				fundFor(own)
			}
			e.twin = build(e.addr(own), false)
		}
	}
	ok := e.exec(module, clMsgName[kind], class, authorised, strict, "", line, build(e.addr(sender), true))
	if ok {
		switch kind {
		case "cl.withdraw":
			if _, err := k.GetPosition(h.Ctx, ids[0]); err != nil {
				delete(w.owner, ids[0])
			}
		case "cl.add", "sf.addcl":
			delete(w.owner, ids[0])
			w.owner[newID] = sender
			w.pool[newID] = w.pool[ids[0]]
			w.prev[newID] = w.prev[ids[0]]
			w.ids = append(w.ids, newID)
		case "cl.xfer":
			for _, id := range ids {
				if o, ok := w.owner[id]; ok && o != args[0] {
					w.prev[id] = append(w.prev[id], o)
				}
				w.owner[id] = args[0]
			}
		}
	}
	for _, id := range ids {
		if o, ok2 := w.owner[id]; ok2 && e.showPos(id) != o {
			e.o.Fail(module+"."+clMsgName[kind]+":owner-record-mismatch", line)
		}
	}
	if kind == "sf.addcl" {
		// the liquidity of the re-created position (= the amount of its new lock) is an input of the model
		line += " " + newAmt.String()
		if ok && w.lk != nil {
			old := w.lockOf[ids[0]]
			delete(w.lk.owner, old)
			w.lk.owner[newLock] = sender
			w.lk.denom[newLock] = w.lk.denom[old]
			w.lk.sf[newLock] = true
			w.lk.noOwner[newLock] = true
			w.lk.ids = append(w.lk.ids, newLock)
			w.lockOf[newID] = newLock
		}
		e.o.Emit(line, e.clObs(ok, ids)+" "+e.lkObs(ok, h.App.LockupKeeper.GetLastLockID(h.Ctx)), true)
		return ok
	}
	e.o.Emit(line, e.clObs(ok, ids), true)
	return ok
}

func (e *authEnv) clSenders(w *clWorld, id uint64) [][2]string {
	own := w.owner[id]
	var ss [][2]string
	isPrev := map[string]bool{}
	for _, p := range w.prev[id] {
		isPrev[p] = true
	}
	for _, u := range e.users {
		if u != own && !isPrev[u] {
			ss = append(ss, [2]string{u, "stranger"})
			break
		}
	}
	for i := len(w.prev[id]) - 1; i >= 0; i-- {
		if w.prev[id][i] != own {
			ss = append(ss, [2]string{w.prev[id][i], "previous-owner"})
			break
		}
	}
	ss = append(ss, [2]string{e.pool, "pool"})
	for {
		m := e.modSome[e.r.Intn(len(e.modSome))]
		if m != e.gov {
			ss = append(ss, [2]string{m, "module"})
			break
		}
	}
	ss = append(ss, [2]string{e.gov, "gov"})
	return ss
}

func (e *authEnv) clArgs(kind string) []string { return e.clArgsP(kind, false) }

// clArgsP: plausible = arguments with which the owner's message goes through (on a position without lock)
func (e *authEnv) clArgsP(kind string, plausible bool) []string {
	usr := func() string { return e.users[e.r.Intn(len(e.users))] }
	if plausible {
		switch kind {
		case "cl.withdraw":
			return []string{e.pick("full", "part")}
		case "cl.add", "sf.addcl":
			return []string{e.pick("1000", "5000"), e.pick("1000", "7000")}
		case "cl.xfer":
			return []string{usr()}
		}
	}
	switch kind {
	case "cl.withdraw":
		return []string{e.pick("full", "part", "part", "excess", "neg")}
	case "cl.add", "sf.addcl":
		return []string{e.pick("1000", "5000", "0", "1000", "-1"), e.pick("1000", "7000", "0", "1000")}
	case "cl.xfer":
		return []string{e.pick(usr(), usr(), usr(), e.pool, "bad")}
	}
	return nil
}

var clKinds = []string{"cl.fees", "cl.inc", "cl.xfer", "sf.addcl", "cl.add", "cl.withdraw"}

func (e *authEnv) clPhase(w *clWorld, pools []uint64) {
	h := e.h
	k := h.App.ConcentratedLiquidityKeeper
	// positions of users
	n := 3 + e.r.Intn(4)
	for i := 0; i < n; i++ {
		u := e.users[e.r.Intn(len(e.users))]
		pid := pools[e.r.Intn(len(pools))]
		coins := sdk.NewCoins(sdk.NewInt64Coin("eth", int64(100000+e.r.Intn(100000))), sdk.NewInt64Coin("usdc", int64(100000+e.r.Intn(100000))))
		h.FundAcc(e.acc(u), coins)
		d, err := k.CreateFullRangePosition(h.Ctx, pid, e.acc(u), coins)
		if err != nil {
			e.t.Fatalf("CreateFullRangePosition: %v", err)
		}
		e.base = nil
		e.clRegister(w, d.ID, u, pid, false)
	}
	live := func() []uint64 {
		var l []uint64
		for _, id := range w.ids {
			if _, ok := w.owner[id]; ok {
				l = append(l, id)
			}
		}
		return l
	}
	// ownership changes first, so that previous owners exist
	for i := 0; i < 2+e.r.Intn(3); i++ {
		l := live()
		id := l[e.r.Intn(len(l))]
		s := w.owner[id]
		cls := "owner"
		if e.r.Intn(5) == 0 {
			s, cls = e.gov, "gov"
		}
		e.clSend(w, "cl.xfer", s, []uint64{id}, cls, []string{e.users[e.r.Intn(len(e.users))]})
	}
	for round := 0; round < 2; round++ {
		for _, id := range live() {
			if _, ok := w.owner[id]; !ok {
				continue
			}
			for _, kind := range clKinds {
				if _, ok := w.owner[id]; !ok {
					break
				}
				if kind == "sf.addcl" && e.posState(id) == "plain" && e.r.Intn(4) != 0 {
					continue // not superfluid staked: rejected before the owner is looked at; mostly sent to staked positions
				}
				for _, s := range e.clSenders(w, id) {
					e.clSend(w, kind, s[0], []uint64{id}, s[1], e.clArgsP(kind, s[1] == "stranger" && e.r.Intn(4) != 0))
				}
				if own, ok := w.owner[id]; ok && e.isValid(own) && own != e.pool && e.r.Intn(4) != 0 {
					e.clSend(w, kind, own, []uint64{id}, "owner", e.clArgs(kind))
				}
			}
		}
		// lists: own + foreign, duplicates, unknown ids, empty
		l := live()
		for _, kind := range []string{"cl.fees", "cl.inc", "cl.xfer"} {
			for j := 0; j < 4 && len(l) >= 2; j++ {
				a, b := l[e.r.Intn(len(l))], l[e.r.Intn(len(l))]
				ids := []uint64{a, b}
				switch e.r.Intn(6) {
				case 0:
					ids = []uint64{a, a}
				case 1:
					ids = []uint64{a, 999999}
				case 2:
					ids = []uint64{}
				case 3:
					ids = []uint64{b, a, l[e.r.Intn(len(l))]}
				}
				s := e.users[e.r.Intn(len(e.users))]
				if len(ids) > 0 {
					if o, ok := w.owner[ids[0]]; ok && e.r.Intn(2) == 0 {
						s = o
					}
				}
				cls := "list-stranger"
				all := len(ids) > 0
				some := false
				for _, id := range ids {
					if w.owner[id] == s {
						some = true
					} else {
						all = false
					}
				}
				if all {
					cls = "list-owner"
				} else if some {
					cls = "list-mixed"
				}
				if !e.isValid(s) || s == e.pool {
					continue
				}
				e.clSend(w, kind, s, ids, cls, e.clArgs(kind))
			}
		}
	}
}

// ---------------------------------------------------------------- gamm: stableswap scaling-factor controller
type gmPool struct {
	id         uint64
	controller string // canonical name, "-" = none
}

func (e *authEnv) gmSend(p gmPool, sender, class string, factorsOk bool) bool {
	authorised := p.controller != "-" && sender == p.controller
	factors := []uint64{1, 1, 1}
	if e.r.Intn(2) == 0 {
		factors = []uint64{2, 1, 1}
	}
	if !factorsOk {
		factors = []uint64{1}
	}
	line := fmt.Sprintf("auth gm.scaling %s %d %s", sender, p.id, b01(factorsOk))
	build := func(S string) func(ctx sdk.Context) error {
		return func(ctx sdk.Context) error {
			_, err := e.ssSrv.StableSwapAdjustScalingFactors(ctx, &stableswap.MsgStableSwapAdjustScalingFactors{Sender: S, PoolID: p.id, ScalingFactors: factors})
			return err
		}
	}
	e.state = "controlled"
	if p.controller == "-" {
		e.state = "no-controller"
	} else if !authorised && class == "stranger" {
		e.twin = build(e.addr(p.controller))
	}
	ok := e.exec("gamm", "StableSwapAdjustScalingFactors", class, authorised, true, "", line, build(e.addr(sender)))
	e.o.Emit(line, resStr(ok), true)
	return ok
}

func (e *authEnv) gmPhase(pools []gmPool, balancerPool uint64) {
	for round := 0; round < 2; round++ {
		for _, p := range pools {
			stranger := ""
			for _, u := range e.users {
				if u != p.controller {
					stranger = u
					break
				}
			}
			for _, s := range [][2]string{{stranger, "stranger"}, {"t0", "pool-creator"}, {e.pool, "pool"}, {e.gov, "gov"}, {e.modSome[e.r.Intn(len(e.modSome))], "module"}, {"bad", "malformed"}} {
				if s[0] == p.controller {
					continue
				}
				e.gmSend(p, s[0], s[1], e.r.Intn(4) != 0)
			}
			if p.controller != "-" {
				e.gmSend(p, p.controller, "controller", e.r.Intn(4) != 0)
			}
		}
		// a pool that is not a stableswap pool, and one that does not exist
		e.gmSend(gmPool{balancerPool, "-"}, e.users[0], "not-stableswap", true)
		e.gmSend(gmPool{999999, "-"}, e.users[0], "no-such-pool", true)
	}
}

// ---------------------------------------------------------------- driver
func runAuth(t *testing.T, seed int64, n int, dir string) {
	repoDir := os.Getenv("VERIF_REPO")
	if repoDir == "" {
		repoDir = "/repo"
	}
	// the contract used by x/tokenfactory's own tests: rejects transfers of exactly 100 units
	wasmCode, _ := os.ReadFile(repoDir + "/x/tokenfactory/keeper/testdata/no100.wasm")
	e := &authEnv{t: t, h: newH(t), o: NewOut(dir), r: rand.New(rand.NewSource(seed))}
	h := e.h
	// VERIF_AUTH_FOCUS=tokenfactory (C19 borrows this engine for the tokenfactory export/import only): histories end after the
	// tokenfactory phase and two in three (instead of one in three) have a contract that can serve as a before-send hook
	tfOnly := os.Getenv("VERIF_AUTH_FOCUS") == "tokenfactory"
	for e.ops < n {
		e.setup()
		// --- universe: CL pools, a balancer pool whose shares are a superfluid asset, a validator
		clPool := h.PrepareConcentratedPoolWithCoinsAndFullRangePosition("eth", "usdc")
		pools := []uint64{clPool.GetId()}
		e.reg("pool", clPool.GetAddress())
		e.pool = "pool"
		cw := &clWorld{owner: map[uint64]string{}, prev: map[uint64][]string{}, pool: map[uint64]uint64{}, lockOf: map[uint64]uint64{}}
		// stableswap pools: one with a scaling-factor controller, one without
		var gms []gmPool
		for i := 0; i < 2; i++ {
			h.FundAcc(h.TestAccs[0], apptesting.DefaultStableswapLiquidity)
			ctl := e.pick(e.users[e.r.Intn(len(e.users))], e.users[e.r.Intn(len(e.users))], "pool")
			if i == 1 {
				ctl = "-"
			}
			msg := stableswap.NewMsgCreateStableswapPool(h.TestAccs[0], stableswap.PoolParams{SwapFee: osmomath.ZeroDec(), ExitFee: osmomath.ZeroDec()},
				apptesting.DefaultStableswapLiquidity, []uint64{1, 1, 1}, "")
			msg.ScalingFactorController = e.addr(ctl)
			h.FundAcc(h.TestAccs[0], h.App.PoolManagerKeeper.GetParams(h.Ctx).PoolCreationFee)
			pid, err := h.App.PoolManagerKeeper.CreatePool(h.Ctx, msg)
			if err != nil {
				t.Fatalf("stableswap pool: %v", err)
			}
			gms = append(gms, gmPool{pid, ctl})
		}

		val := h.SetupValidator(stakingtypes.Bonded)
		sp, _ := h.App.StakingKeeper.GetParams(h.Ctx)
		unbonding := sp.UnbondingTime
		// as on the real chain the bond denom is uosmo (the test app's genesis and SetupValidator say "stake"):
		// valset-pref's DelegateBondedTokens stakes the uosmo it unlocks
		sp.BondDenom = "uosmo"
		if err := h.App.StakingKeeper.SetParams(h.Ctx, sp); err != nil {
			t.Fatalf("staking params: %v", err)
		}
		gpools := h.SetupGammPoolsWithBondDenomMultiplier([]osmomath.Dec{osmomath.NewDec(20)})
		sfDenom := gammtypes.GetPoolShareDenom(gpools[0].GetId())
		if err := h.App.SuperfluidKeeper.AddNewSuperfluidAsset(h.Ctx, sftypes.SuperfluidAsset{Denom: sfDenom, AssetType: sftypes.SuperfluidAssetTypeLPShare}); err != nil {
			t.Fatalf("AddNewSuperfluidAsset: %v", err)
		}
		h.App.IncentivesKeeper.SetLockableDurations(h.Ctx, []time.Duration{time.Hour, 24 * time.Hour, unbonding})
		// the shares of full-range positions of the CL pool are a superfluid asset as well
		clDenom := cltypes.GetConcentratedLockupDenomFromPoolId(clPool.GetId())
		if err := h.App.SuperfluidKeeper.AddNewSuperfluidAsset(h.Ctx, sftypes.SuperfluidAsset{Denom: clDenom, AssetType: sftypes.SuperfluidAssetTypeConcentratedShare}); err != nil {
			t.Fatalf("AddNewSuperfluidAsset(cl): %v", err)
		}
		h.App.SuperfluidKeeper.SetOsmoEquivalentMultiplier(h.Ctx, 1, clDenom, osmomath.NewDec(2))
		// RESOURCES: real pool shares.  The bank account t0 joins the balancer pool; every user (and the CL pool's
		// address) gets liquid shares exceeding any lock, so that a non-owner could exit the pool himself
		big := func(s string) osmomath.Int { v, _ := osmomath.NewIntFromString(s); return v }
		bondDenom, _ := h.App.StakingKeeper.BondDenom(h.Ctx)
		h.FundAcc(h.TestAccs[0], sdk.NewCoins(sdk.NewCoin(bondDenom, big("500000000000000000000")), sdk.NewInt64Coin("token0", 2500)))
		if _, _, err := h.App.GAMMKeeper.JoinPoolNoSwap(h.Ctx, h.TestAccs[0], gpools[0].GetId(), big("20000000000000000000"),
			sdk.NewCoins(sdk.NewCoin(bondDenom, big("500000000000000000000")), sdk.NewInt64Coin("token0", 2500))); err != nil {
			t.Fatalf("JoinPoolNoSwap: %v", err)
		}
		for _, u := range append(append([]string{}, e.users...), "pool") {
			if err := h.App.BankKeeper.SendCoins(h.Ctx, h.TestAccs[0], e.acc(u), sdk.NewCoins(sdk.NewCoin(sfDenom, big("2000000000000000000")))); err != nil {
				t.Fatalf("hand out shares: %v", err)
			}
		}
		lw := &lkWorld{owner: map[uint64]string{}, denom: map[uint64]string{}, sf: map[uint64]bool{}, noOwner: map[uint64]bool{}, val: val.String(), bank: "t0", poolId: gpools[0].GetId()}
		cw.lk = lw
		// positions with an underlying lock: a plainly locked one and / or a superfluid-staked one
		type lockedPos struct {
			pos, lock uint64
			owner     string
			amt       osmomath.Int
			dur       time.Duration
			stake     bool
		}
		var lps []lockedPos
		mkLocked := func(dur time.Duration, stake bool) {
			coins := sdk.NewCoins(sdk.NewInt64Coin("eth", 100000), sdk.NewInt64Coin("usdc", 100000))
			u := e.users[e.r.Intn(len(e.users))]
			h.FundAcc(e.acc(u), coins)
			d, lockId, err := h.App.ConcentratedLiquidityKeeper.CreateFullRangePositionLocked(h.Ctx, clPool.GetId(), e.acc(u), coins, dur)
			if err != nil {
				t.Fatalf("CreateFullRangePositionLocked: %v", err)
			}
			l, _ := h.App.LockupKeeper.GetLockByID(h.Ctx, lockId)
			lps = append(lps, lockedPos{d.ID, lockId, u, l.Coins[0].Amount, dur, stake})
			cw.owner[d.ID] = u
		}
		if e.r.Intn(2) == 0 {
			mkLocked(24*time.Hour, false)
		}
		if e.r.Intn(3) != 0 {
			mkLocked(unbonding, true)
		}
		// validator-set preferences (creator messages: they act on the sender's own record only)
		prefs := append(append([]string{}, e.users...), "pool")
		prefs = append(prefs, e.modSome...)
		for i, u := range prefs {
			if (i == len(e.users)-1 && e.r.Intn(2) == 0) || e.deleg[u] {
				continue // one user without any preference / delegation
			}
			if _, err := e.vpSrv.SetValidatorSetPreference(h.Ctx, &vptypes.MsgSetValidatorSetPreference{Delegator: e.addr(u),
				Preferences: []vptypes.ValidatorPreference{{ValOperAddress: val.String(), Weight: osmomath.OneDec()}}}); err != nil {
				t.Fatalf("SetValidatorSetPreference: %v", err)
			}
			e.deleg[u] = true
		}

		// one history in three has a cosmwasm contract that can serve as a before-send hook
		contracts := "-"
		e.cw = ""
		if wasmCode != nil && (e.r.Intn(3) == 0) != tfOnly {
			ck := wasmkeeper.NewGovPermissionKeeper(h.App.WasmKeeper)
			codeID, _, err := ck.Create(h.Ctx, h.TestAccs[0], wasmCode, nil)
			if err != nil {
				t.Fatalf("wasm create: %v", err)
			}
			caddr, _, err := ck.Instantiate(h.Ctx, codeID, h.TestAccs[0], h.TestAccs[0], []byte("{}"), "", sdk.NewCoins())
			if err != nil {
				t.Fatalf("wasm instantiate: %v", err)
			}
			e.reg("cw", caddr)
			e.cw = "cw"
			contracts = "cw"
			e.o.Count("histories.with-contract")
		}
		// tokenfactory / lockup parameters of this history
		e.feeAmt = []int64{0, 1000, 1000}[e.r.Intn(3)]
		tfp := h.App.TokenFactoryKeeper.GetParams(h.Ctx)
		if e.feeAmt > 0 {
			tfp.DenomCreationFee = sdk.NewCoins(sdk.NewInt64Coin("uosmo", e.feeAmt))
		} else {
			tfp.DenomCreationFee = nil
		}
		h.App.TokenFactoryKeeper.SetParams(h.Ctx, tfp)
		switch e.r.Intn(8) {
		case 0:
			lw.allow = []string{e.users[e.r.Intn(len(e.users))]}
		case 1, 2, 3:
			lw.allow = []string{e.users[0], e.users[1], e.users[2]}
		case 4, 5, 6:
			lw.allow = append([]string{}, e.users...)
		}
		lp := h.App.LockupKeeper.GetParams(h.Ctx)
		lp.ForceUnlockAllowedAddresses = nil
		for _, a := range lw.allow {
			lp.ForceUnlockAllowedAddresses = append(lp.ForceUnlockAllowedAddresses, e.addr(a))
		}
		h.App.LockupKeeper.SetParams(h.Ctx, lp)
		for _, u := range e.users {
			h.FundAcc(e.acc(u), sdk.NewCoins(sdk.NewInt64Coin("uosmo", int64(500+e.r.Intn(3)*1000))))
		}
		var valid []string
		for nme := range e.real {
			valid = append(valid, nme)
		}
		sort.Strings(valid)
		native := []string{}
		for _, d := range []string{"uosmo", "stake", "eth", "usdc"} {
			if h.App.BankKeeper.HasSupply(h.Ctx, d) {
				native = append(native, d)
			}
		}
		lst := func(x []string) string {
			if len(x) == 0 {
				return "-"
			}
			return strings.Join(x, ",")
		}
		e.o.Emit(fmt.Sprintf("auth reset %s %s %s %s uosmo %d %s %d val %s %s", lst(valid), lst(e.mods), e.gov, e.cp, e.feeAmt, lst(lw.allow),
			int64(unbonding/time.Second), lst(native), contracts), "ok", false)
		for _, nme := range valid {
			if b := h.App.BankKeeper.GetBalance(h.Ctx, e.acc(nme), "uosmo").Amount; b.IsPositive() {
				e.o.Emit(fmt.Sprintf("auth fund %s uosmo %s", nme, b), "ok", false)
			}
		}
		e.base = nil
		e.o.Count("histories")

		for _, u := range prefs {
			if e.deleg[u] {
				e.o.Emit("auth vp.set "+u, "ok", false)
				e.deleg[u] = false // (announced once: modSome may list an account twice)
			}
		}
		for _, u := range prefs {
			if _, ok := h.App.ValidatorSetPreferenceKeeper.GetValidatorSetPreference(h.Ctx, e.addr(u)); ok {
				e.deleg[u] = true
			}
		}
		for _, g := range gms {
			e.o.Emit(fmt.Sprintf("auth gm.pool %d %s", g.id, g.controller), "ok", false)
		}
		if e.r.Intn(2) == 0 {
			h.App.SuperfluidKeeper.SetUnpoolAllowedPools(h.Ctx, []uint64{gpools[0].GetId()})
			e.base = nil
			e.o.Emit(fmt.Sprintf("auth sf.unpoolallow %d", gpools[0].GetId()), "ok", false)
			e.o.Count("histories.unpool-allowed")
		}
		e.tfPhase()
		if tfOnly {
			continue
		}
		e.gmPhase(gms, gpools[0].GetId())
		e.clRegister(cw, 1, "t0", clPool.GetId(), false)
		for _, lp := range lps {
			// the underlying lock first, then the position that points to it
			lw.owner[lp.lock], lw.denom[lp.lock], lw.sf[lp.lock], lw.noOwner[lp.lock] = lp.owner, clDenom, true, true
			lw.ids = append(lw.ids, lp.lock)
			e.o.Emit(fmt.Sprintf("auth lk.newk %d %s %s %d 1 %s", lp.lock, lp.owner, lp.amt, int64(lp.dur/time.Second), denomKind(clDenom)), "ok", false)
			cw.pool[lp.pos] = clPool.GetId()
			cw.ids = append(cw.ids, lp.pos)
			cw.lockOf[lp.pos] = lp.lock
			e.o.Emit(fmt.Sprintf("auth cl.newl %d %s %d %d", lp.pos, lp.owner, clPool.GetId(), lp.lock), "ok", false)
			if lp.stake {
				e.drive(lw, lp.lock, "sf.delegate")
				e.o.Count("positions.sf-staked")
			} else {
				e.o.Count("positions.locked")
			}
		}
		e.clPhase(cw, pools)
		e.o.Emit(fmt.Sprintf("auth lk.last %d", h.App.LockupKeeper.GetLastLockID(h.Ctx)), "ok", false)
		e.lkPhase(lw, sfDenom, unbonding)
	}
	e.o.Close(nil)
}
