package app_test

// Engine `auth` (property C20): only the owner/admin can move or alter what they own.
//
// Histories are driven through the REAL msg servers of x/tokenfactory, x/lockup,
// x/concentrated-liquidity and x/superfluid inside the app.  Each history creates
// owned objects (factory denoms with admin changes and renouncing, locks, CL
// positions with transfers so that previous owners exist, superfluid locks) and
// then sends every message type to every object from every sender class.
//
// ORACLE (shares nothing with the Lean model): the engine keeps its own
// owner/admin reference from the arguments of the messages that were accepted.
// A message from anybody else must return an error and must not have written
// anything: the message runs in a cache context and every KV/transient store of
// the cache is compared, key by key (hashed), with the parent context.

import (
	"crypto/sha256"
	"encoding/binary"
	"fmt"
	"math/rand"
	"os"
	"sort"
	"strings"
	"testing"
	"time"

	storetypes "cosmossdk.io/store/types"
	sdk "github.com/cosmos/cosmos-sdk/types"
	authtypes "github.com/cosmos/cosmos-sdk/x/auth/types"
	banktypes "github.com/cosmos/cosmos-sdk/x/bank/types"
	distrtypes "github.com/cosmos/cosmos-sdk/x/distribution/types"
	govtypes "github.com/cosmos/cosmos-sdk/x/gov/types"
	stakingtypes "github.com/cosmos/cosmos-sdk/x/staking/types"

	"github.com/osmosis-labs/osmosis/osmomath"
	osmoapp "github.com/osmosis-labs/osmosis/v31/app"
	cl "github.com/osmosis-labs/osmosis/v31/x/concentrated-liquidity"
	wasmkeeper "github.com/CosmWasm/wasmd/x/wasm/keeper"
	cltypes "github.com/osmosis-labs/osmosis/v31/x/concentrated-liquidity/types"
	gammtypes "github.com/osmosis-labs/osmosis/v31/x/gamm/types"
	lockupkeeper "github.com/osmosis-labs/osmosis/v31/x/lockup/keeper"
	lockuptypes "github.com/osmosis-labs/osmosis/v31/x/lockup/types"
	sfkeeper "github.com/osmosis-labs/osmosis/v31/x/superfluid/keeper"
	sftypes "github.com/osmosis-labs/osmosis/v31/x/superfluid/types"
	tfkeeper "github.com/osmosis-labs/osmosis/v31/x/tokenfactory/keeper"
	tftypes "github.com/osmosis-labs/osmosis/v31/x/tokenfactory/types"
)

const badAddr = "osmo1notanaddress"

var authDebug = os.Getenv("VERIF_AUTH_DEBUG") != ""

type authEnv struct {
	t    *testing.T
	h    *H
	o    *Out
	r    *rand.Rand
	real map[string]string // canonical name -> bech32
	name map[string]string // bech32 -> canonical name
	// universe
	users   []string
	mods    []string // all maccPerms module accounts
	modSome []string // the ones used as senders / targets
	gov     string
	cp      string
	pool    string
	keys    []storetypes.StoreKey
	base    map[string]string // snapshot of h.Ctx, nil when stale
	ops     int
	feeAmt  int64
	cw      string // canonical name of the cosmwasm contract of this history ("" = none)

	tfSrv tftypes.MsgServer
	lkSrv lockuptypes.MsgServer
	clSrv cltypes.MsgServer
	sfSrv sftypes.MsgServer
}

func (e *authEnv) addr(n string) string {
	switch n {
	case "-":
		return ""
	case "bad":
		return badAddr
	}
	a, ok := e.real[n]
	if !ok {
		panic("unknown name " + n)
	}
	return a
}

func (e *authEnv) acc(n string) sdk.AccAddress { return sdk.MustAccAddressFromBech32(e.addr(n)) }

func (e *authEnv) nm(realAddr string) string {
	if realAddr == "" {
		return "-"
	}
	if n, ok := e.name[realAddr]; ok {
		return n
	}
	return "?" + realAddr
}

func (e *authEnv) reg(n string, a sdk.AccAddress) {
	e.real[n] = a.String()
	e.name[a.String()] = n
}

func (e *authEnv) isValid(n string) bool { _, ok := e.real[n]; return ok }

func (e *authEnv) pick(xs ...string) string { return xs[e.r.Intn(len(xs))] }

// ---------------------------------------------------------------- snapshot
func (e *authEnv) snap(ctx sdk.Context) map[string]string {
	out := map[string]string{}
	ms := ctx.MultiStore()
	var lb [8]byte
	for _, k := range e.keys {
		it := ms.GetKVStore(k).Iterator(nil, nil)
		hs := sha256.New()
		for ; it.Valid(); it.Next() {
			kk, vv := it.Key(), it.Value()
			binary.BigEndian.PutUint64(lb[:], uint64(len(kk)))
			hs.Write(lb[:])
			hs.Write(kk)
			binary.BigEndian.PutUint64(lb[:], uint64(len(vv)))
			hs.Write(lb[:])
			hs.Write(vv)
		}
		it.Close()
		out[k.Name()] = string(hs.Sum(nil))
	}
	return out
}

func snapDiff(a, b map[string]string) []string {
	var d []string
	for k, v := range a {
		if b[k] != v {
			d = append(d, k)
		}
	}
	sort.Strings(d)
	return d
}

// exec runs one message in a cache context (tx atomicity).  authorised is the engine's own
// verdict (reference owner/admin); strict = the message addresses a single owned object, so a
// rejection must not have written anything even inside the discarded cache.
func (e *authEnv) exec(module, msg, class string, authorised, strict bool, failKey string, line string, run func(ctx sdk.Context) error) bool {
	if e.base == nil {
		e.base = e.snap(e.h.Ctx)
	}
	cctx, write := e.h.Ctx.CacheContext()
	var err error
	okc := catch(func() { err = run(cctx) })
	accepted := okc && err == nil
	res := "err"
	if accepted {
		res = "ok"
	}
	e.o.Count(fmt.Sprintf("%s.%s:%s:%s", module, msg, class, res))
	if authDebug && !accepted && authorised {
		fmt.Printf("DEBUG %s -> %v (panic=%v)\n", line, err, !okc)
	}
	if !authorised {
		if accepted {
			if failKey == "" {
				failKey = fmt.Sprintf("%s.%s:%s:accepted", module, msg, class)
			}
			e.o.Fail(failKey, line)
		} else if strict {
			if d := snapDiff(e.base, e.snap(cctx)); len(d) > 0 {
				e.o.Fail(fmt.Sprintf("%s.%s:%s:state-changed-on-reject", module, msg, class), line+" stores="+strings.Join(d, ","))
			}
		}
	}
	if accepted {
		write()
		e.base = nil
	}
	e.ops++
	return accepted
}

// ---------------------------------------------------------------- setup
func (e *authEnv) setup() {
	h := e.h
	h.Reset()
	e.real, e.name = map[string]string{}, map[string]string{}
	e.base = nil
	e.users = nil
	for i := 0; i < 5; i++ {
		n := fmt.Sprintf("u%d", i)
		e.reg(n, sdk.AccAddress([]byte(fmt.Sprintf("authuser%d___________", i))[:20]))
		e.users = append(e.users, n)
	}
	e.reg("t0", h.TestAccs[0])
	var maddrs []string
	for a := range osmoapp.ModuleAccountAddrs() {
		maddrs = append(maddrs, a)
	}
	sort.Strings(maddrs)
	e.mods = nil
	for i, a := range maddrs {
		n := fmt.Sprintf("m%02d", i)
		e.real[n] = a
		e.name[a] = n
		e.mods = append(e.mods, n)
	}
	e.gov = e.name[authtypes.NewModuleAddress(govtypes.ModuleName).String()]
	e.cp = e.name[authtypes.NewModuleAddress(distrtypes.ModuleName).String()]
	// module accounts exist from genesis on a real chain; in the test app some are created lazily, and a
	// plain bank transfer to a not-yet-created module address would leave a base account there
	for _, mn := range []string{govtypes.ModuleName, distrtypes.ModuleName, tftypes.ModuleName, lockuptypes.ModuleName, stakingtypes.BondedPoolName} {
		h.App.AccountKeeper.GetModuleAccount(h.Ctx, mn)
	}
	e.modSome = []string{e.gov, e.cp,
		e.name[authtypes.NewModuleAddress(tftypes.ModuleName).String()],
		e.name[authtypes.NewModuleAddress(lockuptypes.ModuleName).String()],
		e.name[authtypes.NewModuleAddress(stakingtypes.BondedPoolName).String()]}

	if e.keys == nil {
		var ks []storetypes.StoreKey
		for _, k := range h.App.GetKVStoreKey() {
			ks = append(ks, k)
		}
		for _, k := range h.App.GetTransientStoreKey() {
			ks = append(ks, k)
		}
		sort.Slice(ks, func(i, j int) bool { return ks[i].Name() < ks[j].Name() })
		e.keys = ks
	}
	e.tfSrv = tfkeeper.NewMsgServerImpl(*h.App.TokenFactoryKeeper)
	e.lkSrv = lockupkeeper.NewMsgServerImpl(h.App.LockupKeeper)
	e.clSrv = cl.NewMsgServerImpl(h.App.ConcentratedLiquidityKeeper)
	e.sfSrv = sfkeeper.NewMsgServerImpl(h.App.SuperfluidKeeper)
}

// ---------------------------------------------------------------- tokenfactory
type tfDenom struct {
	creator, sub string
	hist         []string // every admin so far (canonical), oldest first
}

func (d tfDenom) canon() string { return "factory/" + d.creator + "/" + d.sub }

func (e *authEnv) realDenom(canon string) string {
	p := strings.SplitN(canon, "/", 3)
	if len(p) == 3 && p[0] == "factory" {
		if a, ok := e.real[p[1]]; ok {
			return "factory/" + a + "/" + p[2]
		}
	}
	return canon
}

func (e *authEnv) tfObs(res string, canon string, addrs []string, denoms []string) string {
	h := e.h
	rd := e.realDenom(canon)
	am, _ := h.App.TokenFactoryKeeper.GetAuthorityMetadata(h.Ctx, rd)
	meta := "~"
	if md, ok := h.App.BankKeeper.GetDenomMetaData(h.Ctx, rd); ok {
		meta = "=" + md.Description
	}
	hook := h.App.TokenFactoryKeeper.GetBeforeSendHook(h.Ctx, rd)
	var bs []string
	for i, a := range addrs {
		if !e.isValid(a) {
			bs = append(bs, "x")
			continue
		}
		bs = append(bs, h.App.BankKeeper.GetBalance(h.Ctx, e.acc(a), e.realDenom(denoms[i])).Amount.String())
	}
	sup := "0"
	if sdk.ValidateDenom(rd) == nil {
		sup = h.App.BankKeeper.GetSupply(h.Ctx, rd).Amount.String()
	}
	if !strings.HasPrefix(canon, "factory/") {
		sup = "-" // native denoms: not a tokenfactory quantity
	}
	return fmt.Sprintf("%s admin=%s meta=%s hook=%s sup=%s bal=[%s]", res, e.nm(am.Admin), meta, e.nm(hook), sup, strings.Join(bs, ","))
}

func resStr(ok bool) string {
	if ok {
		return "ok"
	}
	return "err"
}

func (e *authEnv) modBalances(denom string) string {
	var sb strings.Builder
	for _, m := range e.mods {
		sb.WriteString(e.h.App.BankKeeper.GetBalance(e.h.Ctx, e.acc(m), denom).Amount.String())
		sb.WriteByte(',')
	}
	return sb.String()
}

type tfWorld struct {
	denoms []*tfDenom
	ref    map[string]string // canonical denom -> current admin (engine's own bookkeeping)
}

// tfSend sends one tokenfactory message and records observation + oracle.
func (e *authEnv) tfSend(w *tfWorld, kind string, sender string, canon string, class string, args []string) bool {
	h := e.h
	rd := e.realDenom(canon)
	cur, exists := w.ref[canon]
	authorised := exists && cur != "-" && cur == sender
	failKey := ""
	msgName := map[string]string{"mint": "Mint", "burn": "Burn", "force": "ForceTransfer", "admin": "ChangeAdmin", "meta": "SetDenomMetadata", "hook": "SetBeforeSendHook"}[kind]
	if exists && cur == "-" {
		failKey = "tokenfactory.renounced:" + msgName + ":accepted"
		class = "renounced-" + class
	}
	if sender == "-" {
		// not a sender a transaction can have (ValidateBasic / signer extraction reject it): a probe of the
		// raw handler, compared with the model but outside the property's quantifier
		authorised, class, failKey = true, "empty-sender", ""
	}
	line := fmt.Sprintf("auth tf.%s %s %s %s", kind, sender, canon, strings.Join(args, " "))
	if kind == "meta" {
		line = fmt.Sprintf("auth tf.meta %s %s %s", sender, canon, strings.Join(args, " "))
	}
	var addrs []string
	modBefore := ""
	if kind == "mint" || kind == "burn" || kind == "force" {
		modBefore = e.modBalances(rd)
	}
	var run func(ctx sdk.Context) error
	S := e.addr(sender)
	amt := func(s string) sdk.Coin {
		var v int64
		fmt.Sscan(s, &v)
		return sdk.Coin{Denom: rd, Amount: osmomath.NewInt(v)}
	}
	if (kind == "mint" || kind == "burn" || kind == "force") && args[0] == "100" {
		args[0] = "101" // the test contract's own rule (no transfers of exactly 100) is not modelled
		line = fmt.Sprintf("auth tf.%s %s %s %s", kind, sender, canon, strings.Join(args, " "))
	}
	switch kind {
	case "mint":
		to := args[1]
		addrs = []string{to}
		if to == "-" {
			addrs = []string{sender}
		}
		run = func(ctx sdk.Context) error {
			_, err := e.tfSrv.Mint(ctx, &tftypes.MsgMint{Sender: S, Amount: amt(args[0]), MintToAddress: e.addr(to)})
			return err
		}
	case "burn":
		from := args[1]
		addrs = []string{from}
		if from == "-" {
			addrs = []string{sender}
		}
		run = func(ctx sdk.Context) error {
			_, err := e.tfSrv.Burn(ctx, &tftypes.MsgBurn{Sender: S, Amount: amt(args[0]), BurnFromAddress: e.addr(from)})
			return err
		}
	case "force":
		addrs = []string{args[1], args[2]}
		run = func(ctx sdk.Context) error {
			_, err := e.tfSrv.ForceTransfer(ctx, &tftypes.MsgForceTransfer{Sender: S, Amount: amt(args[0]), TransferFromAddress: e.addr(args[1]), TransferToAddress: e.addr(args[2])})
			return err
		}
	case "admin":
		run = func(ctx sdk.Context) error {
			_, err := e.tfSrv.ChangeAdmin(ctx, &tftypes.MsgChangeAdmin{Sender: S, Denom: rd, NewAdmin: e.addr(args[0])})
			return err
		}
	case "meta":
		md := banktypes.Metadata{Description: e.addrOrTag(args[1]), DenomUnits: []*banktypes.DenomUnit{{Denom: rd, Exponent: 0}}, Base: rd, Display: rd, Name: rd, Symbol: rd}
		if args[0] == "0" {
			md.Name = ""
		}
		run = func(ctx sdk.Context) error {
			_, err := e.tfSrv.SetDenomMetadata(ctx, &tftypes.MsgSetDenomMetadata{Sender: S, Metadata: md})
			return err
		}
	case "hook":
		run = func(ctx sdk.Context) error {
			_, err := e.tfSrv.SetBeforeSendHook(ctx, &tftypes.MsgSetBeforeSendHook{Sender: S, Denom: rd, CosmwasmAddress: e.addr(args[0])})
			return err
		}
	}
	ok := e.exec("tokenfactory", msgName, class, authorised, true, failKey, line, run)
	if ok && kind == "admin" {
		w.ref[canon] = args[0]
		for _, d := range w.denoms {
			if d.canon() == canon {
				d.hist = append(d.hist, args[0])
			}
		}
	}
	if ok && (kind == "burn" || kind == "force") && args[1] == e.pool {
		e.o.Count("tokenfactory." + msgName + ":out-of-pool-address:ok") // pool accounts are not maccPerms accounts
	}
	if ok && modBefore != "" && modBefore != e.modBalances(rd) {
		e.o.Fail("tokenfactory."+msgName+":module-account-touched", line)
	}
	// the keeper's admin record must agree with the engine's bookkeeping
	if exists {
		am, _ := h.App.TokenFactoryKeeper.GetAuthorityMetadata(h.Ctx, rd)
		if e.nm(am.Admin) != w.ref[canon] {
			e.o.Fail("tokenfactory."+msgName+":admin-record-mismatch", line)
		}
	}
	ds := make([]string, len(addrs))
	for i := range ds {
		ds[i] = canon
	}
	e.o.Emit(line, e.tfObs(resStr(ok), canon, addrs, ds), authorised || !exists || cur != "-")
	return ok
}

func (e *authEnv) addrOrTag(s string) string {
	if s == "-" {
		return ""
	}
	return s
}

func (e *authEnv) tfCreate(w *tfWorld, sender, sub, class string) { e.tfCreateX(w, sender, sub, class, false) }

// tfRecreate: a denom that exists (whoever administers it now, and in particular after its admin was
// renounced) can never be created again: creating it anew would hand the admin role back to the creator.
func (e *authEnv) tfRecreate(w *tfWorld) {
	seen := map[string]bool{}
	for _, d := range append([]*tfDenom{}, w.denoms...) {
		c := d.canon()
		if seen[c] {
			continue
		}
		seen[c] = true
		cur := w.ref[c]
		if cur != "-" && e.r.Intn(3) != 0 {
			continue
		}
		sub := d.sub
		if sub == "" {
			sub = "-"
		}
		class := "recreate-existing"
		if cur == "-" {
			class = "recreate-renounced"
		} else if cur != d.creator {
			class = "recreate-foreign-admin"
		}
		e.tfCreateX(w, d.creator, sub, class, true)
	}
}

func (e *authEnv) tfCreateX(w *tfWorld, sender, sub, class string, exists bool) {
	h := e.h
	line := fmt.Sprintf("auth tf.create %s %s", sender, sub)
	realSub := sub
	if sub == "-" {
		realSub = ""
	}
	canon := "factory/" + sender + "/" + realSub
	// independent namespace oracle: the denoms of every other creator are untouched
	var names []string
	for n := range e.real {
		names = append(names, n)
	}
	sort.Strings(names)
	listOthers := func() string {
		var sb strings.Builder
		for _, n := range names {
			if n == sender {
				continue
			}
			resp, err := h.App.TokenFactoryKeeper.DenomsFromCreator(h.Ctx, &tftypes.QueryDenomsFromCreatorRequest{Creator: e.real[n]})
			if err == nil {
				sb.WriteString(n + ":" + strings.Join(resp.Denoms, ",") + ";")
			}
		}
		return sb.String()
	}
	before := listOthers()
	var newDenom string
	ok := e.exec("tokenfactory", "CreateDenom", class, !exists, false, "", line, func(ctx sdk.Context) error {
		resp, err := e.tfSrv.CreateDenom(ctx, &tftypes.MsgCreateDenom{Sender: e.addr(sender), Subdenom: realSub})
		if err == nil {
			newDenom = resp.NewTokenDenom
		}
		return err
	})
	if ok && exists {
		// (already reported by exec as "<…>:accepted"): the reference keeps the admin it had
		e.o.Emit(line, e.tfObs(resStr(ok), canon, []string{sender, e.cp}, []string{"uosmo", "uosmo"}), true)
		return
	}
	if ok {
		if newDenom != "factory/"+e.addr(sender)+"/"+realSub || before != listOthers() {
			e.o.Fail("tokenfactory.CreateDenom:"+class+":foreign-namespace", line+" created="+newDenom)
		}
		d := &tfDenom{creator: sender, sub: realSub, hist: []string{sender}}
		w.denoms = append(w.denoms, d)
		w.ref[d.canon()] = sender
	}
	e.o.Emit(line, e.tfObs(resStr(ok), canon, []string{sender, e.cp}, []string{"uosmo", "uosmo"}), true)
}

func (e *authEnv) tfTargets() []string {
	t := append([]string{}, e.users...)
	t = append(t, e.users...)
	t = append(t, e.modSome...)
	t = append(t, e.pool, "bad")
	return t
}

// tfArgs draws message arguments; plausible = arguments with which the message would go through
// if only the sender were authorised.
func (e *authEnv) tfArgs(kind, sender, canon string, plausible bool) []string {
	h := e.h
	rd := e.realDenom(canon)
	tg := e.tfTargets()
	anyT := func() string { return tg[e.r.Intn(len(tg))] }
	usr := func() string { return e.users[e.r.Intn(len(e.users))] }
	holder := func() string { // a user holding the denom, if any
		st := e.r.Intn(len(e.users))
		for i := range e.users {
			u := e.users[(st+i)%len(e.users)]
			if h.App.BankKeeper.GetBalance(h.Ctx, e.acc(u), rd).Amount.IsPositive() {
				return u
			}
		}
		return usr()
	}
	balOf := func(n string) int64 {
		if !e.isValid(n) {
			return 0
		}
		return h.App.BankKeeper.GetBalance(h.Ctx, e.acc(n), rd).Amount.Int64()
	}
	switch kind {
	case "mint":
		if plausible {
			return []string{fmt.Sprint(1 + e.r.Intn(1000)), e.pick("-", usr(), usr(), e.pool)}
		}
		return []string{fmt.Sprint(e.pick("0", "1", "7", "1000")), e.pick("-", anyT(), anyT())}
	case "burn":
		if plausible {
			f := holder()
			b := balOf(f)
			a := b
			if b > 1 && e.r.Intn(2) == 0 {
				a = 1 + e.r.Int63n(b)
			}
			return []string{fmt.Sprint(a), f}
		}
		f := e.pick("-", anyT(), anyT(), holder())
		fr := f
		if f == "-" {
			fr = sender
		}
		b := balOf(fr)
		return []string{fmt.Sprint(e.pick("0", "1", fmt.Sprint(b), fmt.Sprint(b+1))), f}
	case "force":
		if plausible {
			f := holder()
			b := balOf(f)
			a := b
			if b > 1 && e.r.Intn(2) == 0 {
				a = 1 + e.r.Int63n(b)
			}
			return []string{fmt.Sprint(a), f, e.pick(usr(), usr(), e.pool)}
		}
		f := e.pick(anyT(), holder())
		b := balOf(f)
		return []string{fmt.Sprint(e.pick("0", "1", fmt.Sprint(b), fmt.Sprint(b+1))), f, anyT()}
	case "admin":
		if plausible {
			return []string{e.pick(usr(), usr(), usr(), sender, "-", e.pool, e.modSome[e.r.Intn(len(e.modSome))])}
		}
		return []string{e.pick(anyT(), "-", "bad")}
	case "meta":
		if plausible {
			return []string{"1", e.pick("t1", "t2", "t3", "-")}
		}
		return []string{e.pick("1", "1", "0"), e.pick("t1", "t2", "-")}
	case "hook":
		if e.cw != "" && e.r.Intn(2) == 0 {
			return []string{e.cw}
		}
		if plausible {
			return []string{"-"}
		}
		return []string{e.pick("-", usr(), "bad")}
	}
	panic(kind)
}

var tfKinds = []string{"mint", "burn", "force", "admin", "meta", "hook"}

func (e *authEnv) tfPhase() {
	w := &tfWorld{ref: map[string]string{}}
	longSub := strings.Repeat("x", 45)
	subs := []string{"a", "b", "c", "a", "b", "uosmo", longSub, "bad!", "-", "x/y"}
	// --- creation, by users (and occasionally a module account / the pool)
	nCreate := 4 + e.r.Intn(5)
	for i := 0; i < nCreate; i++ {
		s := e.users[e.r.Intn(3)]
		class := "user"
		switch e.r.Intn(12) {
		case 0:
			s, class = e.pool, "pool"
		case 1:
			s, class = e.modSome[e.r.Intn(len(e.modSome))], "module"
		}
		e.tfCreate(w, s, subs[e.r.Intn(len(subs))], class)
	}
	if len(w.denoms) == 0 {
		e.tfCreate(w, "u0", "z", "user")
	}
	for round := 0; round < 3; round++ {
		e.tfLife(w)
		e.tfRecreate(w)
		e.tfSweep(w, round == 0)
	}
}

// tfLife: random admin life: mints, funds parked on module accounts, admin changes incl. renouncing
func (e *authEnv) tfLife(w *tfWorld) {
	h := e.h
	for _, d := range w.denoms {
		c := d.canon()
		steps := 1 + e.r.Intn(4)
		for i := 0; i < steps; i++ {
			cur := w.ref[c]
			if cur == "-" {
				break
			}
			switch e.r.Intn(6) {
			case 0, 1:
				e.tfSend(w, "mint", cur, c, "admin", e.tfArgs("mint", cur, c, true))
			case 2, 5:
				if !e.isValid(cur) {
					continue
				}
				e.tfSend(w, "admin", cur, c, "admin", e.tfArgs("admin", cur, c, true))
			case 3:
				k := e.pick("burn", "force", "meta")
				e.tfSend(w, k, cur, c, "admin", e.tfArgs(k, cur, c, true))
			case 4:
				// park some of the denom on a module account with a plain bank transfer (not a tokenfactory message)
				u := e.users[e.r.Intn(len(e.users))]
				b := h.App.BankKeeper.GetBalance(h.Ctx, e.acc(u), e.realDenom(c)).Amount
				if b.IsPositive() {
					m := e.modSome[e.r.Intn(len(e.modSome))]
					x := osmomath.NewInt(1 + e.r.Int63n(b.Int64()))
					if err := h.App.BankKeeper.SendCoins(h.Ctx, e.acc(u), e.acc(m), sdk.NewCoins(sdk.NewCoin(e.realDenom(c), x))); err == nil {
						e.base = nil
						e.o.Emit(fmt.Sprintf("auth fund %s %s -%s", u, c, x), "ok", false)
						e.o.Emit(fmt.Sprintf("auth fund %s %s %s", m, c, x), "ok", false)
					}
				}
			}
		}
	}
}

// tfSweep: every denom x every message x every sender class
func (e *authEnv) tfSweep(w *tfWorld, withGhosts bool) {
	type target struct {
		canon string
		d     *tfDenom
	}
	var ts []target
	for _, d := range w.denoms {
		ts = append(ts, target{d.canon(), d})
	}
	if withGhosts {
		ts = append(ts, target{"factory/u0/ghost", nil}, target{"uosmo", nil})
	}
	for _, t := range ts {
		for _, kind := range tfKinds {
			type snd struct{ who, class string }
			var ss []snd
			cur := w.ref[t.canon]
			inHist := map[string]bool{}
			if t.d != nil {
				for _, a := range t.d.hist {
					inHist[a] = true
				}
			}
			for _, u := range e.users {
				if !inHist[u] {
					ss = append(ss, snd{u, "stranger"})
					break
				}
			}
			if t.d != nil {
				for i := len(t.d.hist) - 1; i >= 0; i-- {
					a := t.d.hist[i]
					if a != cur && a != "-" && a != t.d.creator {
						ss = append(ss, snd{a, "previous-admin"})
						break
					}
				}
				if t.d.creator != cur {
					ss = append(ss, snd{t.d.creator, "creator"})
				}
			}
			if e.pool != cur {
				ss = append(ss, snd{e.pool, "pool"})
			}
			for _, m := range []string{e.modSome[e.r.Intn(len(e.modSome))], e.modSome[2], e.modSome[3]} {
				if m != cur {
					ss = append(ss, snd{m, "module"})
					break
				}
			}
			for _, s := range ss {
				e.tfSend(w, kind, s.who, t.canon, s.class, e.tfArgs(kind, s.who, t.canon, e.r.Intn(4) != 0))
			}
			if cur != "" && cur != "-" && e.isValid(cur) && (kind != "admin" || e.r.Intn(3) == 0) {
				e.tfSend(w, kind, cur, t.canon, "admin", e.tfArgs(kind, cur, t.canon, e.r.Intn(3) != 0))
			}
			if (cur == "-" || t.d == nil) && e.r.Intn(6) == 0 {
				e.tfSend(w, kind, "-", t.canon, "empty-sender", e.tfArgs(kind, e.users[0], t.canon, true))
			}
		}
	}
}

// ---------------------------------------------------------------- lockup / superfluid
func (e *authEnv) showLock(id uint64) string {
	h := e.h
	l, err := h.App.LockupKeeper.GetLockByID(h.Ctx, id)
	if err != nil {
		return "gone"
	}
	sf := "n"
	if sl, _, err := h.App.LockupKeeper.GetSyntheticLockupByUnderlyingLockId(h.Ctx, id); err == nil && !sl.IsNil() {
		sf = "b"
		if sl.IsUnlocking() {
			sf = "u"
		}
	}
	amt := "0"
	if len(l.Coins) > 0 {
		amt = l.Coins[0].Amount.String()
	}
	return fmt.Sprintf("%s/%s/%d/%s/%s/%s", e.nm(l.Owner), e.nm(l.RewardReceiverAddress), int64(l.Duration/time.Second), b01(l.IsUnlocking()), amt, sf)
}

func b01(b bool) string {
	if b {
		return "1"
	}
	return "0"
}

func (e *authEnv) lkObs(ok bool, id uint64) string {
	last := e.h.App.LockupKeeper.GetLastLockID(e.h.Ctx)
	return fmt.Sprintf("%s L%d=%s last=%d Llast=%s", resStr(ok), id, e.showLock(id), last, e.showLock(last))
}

type lkWorld struct {
	owner map[uint64]string // engine's own bookkeeping
	denom map[uint64]string
	ids   []uint64
	sf    map[uint64]bool
	allow []string
	val   string
}

func (e *authEnv) newLock(w *lkWorld, owner string, denom string, amt int64, dur time.Duration, sfAsset bool) uint64 {
	h := e.h
	coins := sdk.NewCoins(sdk.NewInt64Coin(denom, amt))
	h.FundAcc(e.acc(owner), coins)
	resp, err := e.lkSrv.LockTokens(h.Ctx, lockuptypes.NewMsgLockTokens(e.acc(owner), dur, coins))
	if err != nil {
		e.t.Fatalf("LockTokens: %v", err)
	}
	e.base = nil
	id := resp.ID
	w.owner[id] = owner
	w.denom[id] = denom
	w.sf[id] = sfAsset
	w.ids = append(w.ids, id)
	e.o.Emit(fmt.Sprintf("auth lk.new %d %s %d %d %s", id, owner, amt, int64(dur/time.Second), b01(sfAsset)), "ok", false)
	return id
}

func (e *authEnv) lkSend(w *lkWorld, module, kind, sender string, id uint64, class string, args []string) bool {
	h := e.h
	own, exists := w.owner[id]
	authorised := exists && own == sender
	S := e.addr(sender)
	denom := w.denom[id]
	coins := func(s string) sdk.Coins {
		var v int64
		fmt.Sscan(s, &v)
		if v == 0 {
			return sdk.Coins{}
		}
		return sdk.Coins{sdk.Coin{Denom: denom, Amount: osmomath.NewInt(v)}}
	}
	line := fmt.Sprintf("auth %s %s %d", kind, sender, id)
	if len(args) > 0 {
		line += " " + strings.Join(args, " ")
	}
	var run func(ctx sdk.Context) error
	var msgName string
	lastBefore := h.App.LockupKeeper.GetLastLockID(h.Ctx)
	switch kind {
	case "lk.begin":
		msgName = "BeginUnlocking"
		run = func(ctx sdk.Context) error {
			_, err := e.lkSrv.BeginUnlocking(ctx, &lockuptypes.MsgBeginUnlocking{Owner: S, ID: id, Coins: coins(args[0])})
			return err
		}
	case "lk.extend":
		msgName = "ExtendLockup"
		var sec int64
		fmt.Sscan(args[0], &sec)
		run = func(ctx sdk.Context) error {
			_, err := e.lkSrv.ExtendLockup(ctx, &lockuptypes.MsgExtendLockup{Owner: S, ID: id, Duration: time.Duration(sec) * time.Second})
			return err
		}
	case "lk.recv":
		msgName = "SetRewardReceiverAddress"
		run = func(ctx sdk.Context) error {
			_, err := e.lkSrv.SetRewardReceiverAddress(ctx, &lockuptypes.MsgSetRewardReceiverAddress{Owner: S, LockID: id, RewardReceiver: e.addr(args[0])})
			return err
		}
	case "lk.force":
		msgName = "ForceUnlock"
		// the allow-list is a second, independent condition of this message
		inAllow := false
		for _, a := range w.allow {
			if a == sender {
				inAllow = true
			}
		}
		authorised = authorised && inAllow
		run = func(ctx sdk.Context) error {
			_, err := e.lkSrv.ForceUnlock(ctx, &lockuptypes.MsgForceUnlock{Owner: S, ID: id, Coins: coins(args[0])})
			return err
		}
	case "sf.delegate":
		msgName = "SuperfluidDelegate"
		v := args[0]
		if v == "val" {
			v = w.val
		}
		run = func(ctx sdk.Context) error {
			_, err := e.sfSrv.SuperfluidDelegate(ctx, &sftypes.MsgSuperfluidDelegate{Sender: S, LockId: id, ValAddr: v})
			return err
		}
	case "sf.undelegate":
		msgName = "SuperfluidUndelegate"
		run = func(ctx sdk.Context) error {
			_, err := e.sfSrv.SuperfluidUndelegate(ctx, &sftypes.MsgSuperfluidUndelegate{Sender: S, LockId: id})
			return err
		}
	case "sf.unbond":
		msgName = "SuperfluidUnbondLock"
		run = func(ctx sdk.Context) error {
			_, err := e.sfSrv.SuperfluidUnbondLock(ctx, &sftypes.MsgSuperfluidUnbondLock{Sender: S, LockId: id})
			return err
		}
	case "sf.undunbond":
		msgName = "SuperfluidUndelegateAndUnbondLock"
		var v int64
		fmt.Sscan(args[0], &v)
		run = func(ctx sdk.Context) error {
			_, err := e.sfSrv.SuperfluidUndelegateAndUnbondLock(ctx, &sftypes.MsgSuperfluidUndelegateAndUnbondLock{Sender: S, LockId: id, Coin: sdk.Coin{Denom: denom, Amount: osmomath.NewInt(v)}})
			return err
		}
	default:
		panic(kind)
	}
	ok := e.exec(module, msgName, class, authorised, true, "", line, run)
	if ok {
		// a split creates a lock with the same owner
		last := h.App.LockupKeeper.GetLastLockID(h.Ctx)
		if last != lastBefore {
			if l, err := h.App.LockupKeeper.GetLockByID(h.Ctx, last); err == nil {
				w.owner[last] = own
				w.denom[last] = denom
				w.sf[last] = w.sf[id]
				w.ids = append(w.ids, last)
				if e.nm(l.Owner) != own {
					e.o.Fail(module+"."+msgName+":split-lock-owner-changed", line)
				}
			}
		}
		if _, err := h.App.LockupKeeper.GetLockByID(h.Ctx, id); err != nil {
			delete(w.owner, id)
		}
	}
	if o2, ok2 := w.owner[id]; ok2 {
		if l, err := h.App.LockupKeeper.GetLockByID(h.Ctx, id); err != nil || e.nm(l.Owner) != o2 {
			e.o.Fail(module+"."+msgName+":owner-record-mismatch", line)
		}
	}
	e.o.Emit(line, e.lkObs(ok, id), true)
	return ok
}

func (e *authEnv) lkSenders(w *lkWorld, id uint64) [][2]string {
	own := w.owner[id]
	var ss [][2]string
	for _, u := range e.users {
		if u != own {
			ss = append(ss, [2]string{u, "stranger"})
			break
		}
	}
	for _, a := range w.allow {
		if a != own {
			ss = append(ss, [2]string{a, "allowlisted"})
			break
		}
	}
	ss = append(ss, [2]string{e.pool, "pool"}, [2]string{e.modSome[e.r.Intn(len(e.modSome))], "module"})
	if e.r.Intn(4) == 0 {
		ss = append(ss, [2]string{"bad", "malformed"})
	}
	return ss
}

func (e *authEnv) lkArgs(w *lkWorld, kind string, id uint64, sender string) []string {
	h := e.h
	l, err := h.App.LockupKeeper.GetLockByID(h.Ctx, id)
	amt, dur := int64(0), int64(0)
	if err == nil && len(l.Coins) > 0 {
		amt, dur = l.Coins[0].Amount.Int64(), int64(l.Duration/time.Second)
	}
	usr := func() string { return e.users[e.r.Intn(len(e.users))] }
	part := func() string {
		switch e.r.Intn(6) {
		case 0:
			return fmt.Sprint(amt)
		case 1:
			return fmt.Sprint(amt + 1)
		case 2, 3:
			if amt > 1 {
				return fmt.Sprint(1 + e.r.Int63n(amt-1))
			}
		}
		return "0"
	}
	switch kind {
	case "lk.begin", "lk.force":
		return []string{part()}
	case "lk.extend":
		return []string{fmt.Sprint(e.pick(fmt.Sprint(dur+3600), fmt.Sprint(dur+3600), fmt.Sprint(dur), "0", fmt.Sprint(dur-1)))}
	case "lk.recv":
		return []string{e.pick(usr(), usr(), sender, e.pool, "bad")}
	case "sf.delegate":
		return []string{e.pick("val", "val", "val", "badval")}
	case "sf.undunbond":
		p := part()
		if p == "0" && e.r.Intn(3) != 0 {
			p = fmt.Sprint(amt)
		}
		return []string{p}
	}
	return nil
}

var lkKinds = []string{"lk.begin", "lk.extend", "lk.recv", "lk.force"}
var sfKinds = []string{"sf.delegate", "sf.undelegate", "sf.unbond", "sf.undunbond"}

func modOf(kind string) string {
	if strings.HasPrefix(kind, "sf.") {
		return "superfluid"
	}
	return "lockup"
}

func (e *authEnv) lkSweep(w *lkWorld, kinds []string, withOwner bool) {
	ids := append([]uint64{}, w.ids...)
	for _, id := range ids {
		if _, ok := w.owner[id]; !ok {
			continue
		}
		for _, kind := range kinds {
			for _, s := range e.lkSenders(w, id) {
				e.lkSend(w, modOf(kind), kind, s[0], id, s[1], e.lkArgs(w, kind, id, s[0]))
			}
			if own, ok := w.owner[id]; ok && withOwner && e.r.Intn(3) != 0 {
				e.lkSend(w, modOf(kind), kind, own, id, "owner", e.lkArgs(w, kind, id, own))
			}
		}
	}
	// a lock that does not exist
	for _, kind := range kinds {
		e.lkSend(w, modOf(kind), kind, e.users[0], 999999, "stranger", e.lkArgs(w, kind, 999999, e.users[0]))
	}
}

func (e *authEnv) lkPhase(w *lkWorld, sfDenom string, unbonding time.Duration) {
	durs := []time.Duration{time.Hour, 24 * time.Hour, unbonding, unbonding + time.Hour}
	n := 2 + e.r.Intn(3)
	for i := 0; i < n; i++ {
		e.newLock(w, e.users[e.r.Intn(len(e.users))], fmt.Sprintf("lkd%d", i), int64(100+e.r.Intn(1000)), durs[e.r.Intn(len(durs))], false)
	}
	// superfluid-capable locks (gamm shares), distinct (owner, duration) pairs
	used := map[string]bool{}
	ns := 2 + e.r.Intn(2)
	for i := 0; i < ns; i++ {
		u := e.users[e.r.Intn(len(e.users))]
		d := []time.Duration{unbonding, unbonding, unbonding + time.Hour, time.Hour}[e.r.Intn(4)]
		k := fmt.Sprintf("%s/%d", u, d)
		if used[k] {
			continue
		}
		used[k] = true
		e.newLock(w, u, sfDenom, int64(1000000+e.r.Intn(1000000)), d, true)
	}
	all := append(append([]string{}, lkKinds...), sfKinds...)
	// several rounds: non-owners on every state the owners drive the locks through
	rounds := 2
	for r := 0; r < rounds; r++ {
		e.r.Shuffle(len(all), func(i, j int) { all[i], all[j] = all[j], all[i] })
		e.lkSweep(w, all, true)
	}
}

// ---------------------------------------------------------------- concentrated liquidity
type clWorld struct {
	owner map[uint64]string
	prev  map[uint64][]string
	pool  map[uint64]uint64
	ids   []uint64
}

func (e *authEnv) showPos(id uint64) string {
	p, err := e.h.App.ConcentratedLiquidityKeeper.GetPosition(e.h.Ctx, id)
	if err != nil {
		return "gone"
	}
	return e.nm(p.Address)
}

func (e *authEnv) clObs(ok bool, ids []uint64) string {
	var ps []string
	for _, i := range ids {
		ps = append(ps, fmt.Sprintf("%d:%s", i, e.showPos(i)))
	}
	next := e.h.App.ConcentratedLiquidityKeeper.GetNextPositionId(e.h.Ctx)
	return fmt.Sprintf("%s P=[%s] next=%d Pnew=%s", resStr(ok), strings.Join(ps, ","), next, e.showPos(next-1))
}

func idsStr(ids []uint64) string {
	if len(ids) == 0 {
		return "-"
	}
	var s []string
	for _, i := range ids {
		s = append(s, fmt.Sprint(i))
	}
	return strings.Join(s, ",")
}

func (e *authEnv) clRegister(w *clWorld, id uint64, owner string, pool uint64, locked bool) {
	w.owner[id] = owner
	w.pool[id] = pool
	w.ids = append(w.ids, id)
	e.o.Emit(fmt.Sprintf("auth cl.new %d %s %d %s", id, owner, pool, b01(locked)), "ok", false)
}

var clMsgName = map[string]string{"cl.withdraw": "WithdrawPosition", "cl.add": "AddToPosition", "cl.fees": "CollectSpreadRewards", "cl.inc": "CollectIncentives", "cl.xfer": "TransferPositions"}

func (e *authEnv) clSend(w *clWorld, kind, sender string, ids []uint64, class string, args []string) bool {
	h := e.h
	k := h.App.ConcentratedLiquidityKeeper
	S := e.addr(sender)
	// engine's own verdict: the sender owns every addressed position (or is gov, for transfers)
	authorised := len(ids) > 0
	ownsSome := false
	for _, id := range ids {
		if o, ok := w.owner[id]; !ok || o != sender {
			authorised = false
		} else {
			ownsSome = true
		}
	}
	if kind == "cl.xfer" && sender == e.gov {
		authorised = true
		for _, id := range ids {
			if _, ok := w.owner[id]; !ok {
				authorised = false
			}
		}
	}
	if len(ids) == 0 {
		authorised = true // nothing is addressed
	}
	strict := !ownsSome // a mixed list may legitimately process the sender's own positions before failing
	if len(ids) == 0 {
		class = "list-empty"
	} else if authorised && !(kind == "cl.xfer" && sender == e.gov) && !strings.HasPrefix(class, "list-") {
		class = "owner"
	}
	var line string
	var run func(ctx sdk.Context) error
	var newID uint64
	switch kind {
	case "cl.withdraw":
		id := ids[0]
		line = fmt.Sprintf("auth cl.withdraw %s %d %s", sender, id, args[0])
		liq := osmomath.ZeroDec()
		if p, err := k.GetPosition(h.Ctx, id); err == nil {
			liq = p.Liquidity
		}
		switch args[0] {
		case "part":
			liq = liq.QuoInt64(2)
		case "excess":
			liq = liq.Add(osmomath.OneDec())
		case "neg":
			liq = osmomath.OneDec().Neg()
		}
		run = func(ctx sdk.Context) error {
			_, err := e.clSrv.WithdrawPosition(ctx, &cltypes.MsgWithdrawPosition{PositionId: id, Sender: S, LiquidityAmount: liq})
			return err
		}
	case "cl.add":
		id := ids[0]
		line = fmt.Sprintf("auth cl.add %s %d %s %s", sender, id, args[0], args[1])
		var a0, a1 int64
		fmt.Sscan(args[0], &a0)
		fmt.Sscan(args[1], &a1)
		if (strings.HasPrefix(sender, "u") || sender == "t0") && a0 >= 0 && a1 >= 0 {
			h.FundAcc(e.acc(sender), sdk.NewCoins(sdk.NewInt64Coin("eth", a0+10), sdk.NewInt64Coin("usdc", a1+10)))
			e.base = nil
		}
		run = func(ctx sdk.Context) error {
			resp, err := e.clSrv.AddToPosition(ctx, &cltypes.MsgAddToPosition{PositionId: id, Sender: S, Amount0: osmomath.NewInt(a0), Amount1: osmomath.NewInt(a1),
				TokenMinAmount0: osmomath.ZeroInt(), TokenMinAmount1: osmomath.ZeroInt()})
			if err == nil {
				newID = resp.PositionId
			}
			return err
		}
	case "cl.fees":
		line = fmt.Sprintf("auth cl.fees %s %s", sender, idsStr(ids))
		run = func(ctx sdk.Context) error {
			_, err := e.clSrv.CollectSpreadRewards(ctx, &cltypes.MsgCollectSpreadRewards{PositionIds: ids, Sender: S})
			return err
		}
	case "cl.inc":
		line = fmt.Sprintf("auth cl.inc %s %s", sender, idsStr(ids))
		run = func(ctx sdk.Context) error {
			_, err := e.clSrv.CollectIncentives(ctx, &cltypes.MsgCollectIncentives{PositionIds: ids, Sender: S})
			return err
		}
	case "cl.xfer":
		line = fmt.Sprintf("auth cl.xfer %s %s %s", sender, idsStr(ids), args[0])
		run = func(ctx sdk.Context) error {
			_, err := e.clSrv.TransferPositions(ctx, &cltypes.MsgTransferPositions{PositionIds: ids, Sender: S, NewOwner: e.addr(args[0])})
			return err
		}
	}
	ok := e.exec("concentrated-liquidity", clMsgName[kind], class, authorised, strict, "", line, run)
	if ok {
		switch kind {
		case "cl.withdraw":
			if _, err := k.GetPosition(h.Ctx, ids[0]); err != nil {
				delete(w.owner, ids[0])
			}
		case "cl.add":
			delete(w.owner, ids[0])
			w.owner[newID] = sender
			w.pool[newID] = w.pool[ids[0]]
			w.prev[newID] = w.prev[ids[0]]
			w.ids = append(w.ids, newID)
		case "cl.xfer":
			for _, id := range ids {
				if o, ok := w.owner[id]; ok && o != args[0] {
					w.prev[id] = append(w.prev[id], o)
				}
				w.owner[id] = args[0]
			}
		}
	}
	for _, id := range ids {
		if o, ok2 := w.owner[id]; ok2 && e.showPos(id) != o {
			e.o.Fail("concentrated-liquidity."+clMsgName[kind]+":owner-record-mismatch", line)
		}
	}
	e.o.Emit(line, e.clObs(ok, ids), true)
	return ok
}

func (e *authEnv) clSenders(w *clWorld, id uint64) [][2]string {
	own := w.owner[id]
	var ss [][2]string
	isPrev := map[string]bool{}
	for _, p := range w.prev[id] {
		isPrev[p] = true
	}
	for _, u := range e.users {
		if u != own && !isPrev[u] {
			ss = append(ss, [2]string{u, "stranger"})
			break
		}
	}
	for i := len(w.prev[id]) - 1; i >= 0; i-- {
		if w.prev[id][i] != own {
			ss = append(ss, [2]string{w.prev[id][i], "previous-owner"})
			break
		}
	}
	ss = append(ss, [2]string{e.pool, "pool"})
	for {
		m := e.modSome[e.r.Intn(len(e.modSome))]
		if m != e.gov {
			ss = append(ss, [2]string{m, "module"})
			break
		}
	}
	ss = append(ss, [2]string{e.gov, "gov"})
	return ss
}

func (e *authEnv) clArgs(kind string) []string {
	usr := func() string { return e.users[e.r.Intn(len(e.users))] }
	switch kind {
	case "cl.withdraw":
		return []string{e.pick("full", "part", "part", "excess", "neg")}
	case "cl.add":
		return []string{e.pick("1000", "5000", "0", "1000", "-1"), e.pick("1000", "7000", "0", "1000")}
	case "cl.xfer":
		return []string{e.pick(usr(), usr(), usr(), e.pool, "bad")}
	}
	return nil
}

var clKinds = []string{"cl.fees", "cl.inc", "cl.xfer", "cl.add", "cl.withdraw"}

func (e *authEnv) clPhase(w *clWorld, pools []uint64) {
	h := e.h
	k := h.App.ConcentratedLiquidityKeeper
	// positions of users
	n := 3 + e.r.Intn(4)
	for i := 0; i < n; i++ {
		u := e.users[e.r.Intn(len(e.users))]
		pid := pools[e.r.Intn(len(pools))]
		coins := sdk.NewCoins(sdk.NewInt64Coin("eth", int64(100000+e.r.Intn(100000))), sdk.NewInt64Coin("usdc", int64(100000+e.r.Intn(100000))))
		h.FundAcc(e.acc(u), coins)
		d, err := k.CreateFullRangePosition(h.Ctx, pid, e.acc(u), coins)
		if err != nil {
			e.t.Fatalf("CreateFullRangePosition: %v", err)
		}
		e.base = nil
		e.clRegister(w, d.ID, u, pid, false)
	}
	live := func() []uint64 {
		var l []uint64
		for _, id := range w.ids {
			if _, ok := w.owner[id]; ok {
				l = append(l, id)
			}
		}
		return l
	}
	// ownership changes first, so that previous owners exist
	for i := 0; i < 2+e.r.Intn(3); i++ {
		l := live()
		id := l[e.r.Intn(len(l))]
		s := w.owner[id]
		cls := "owner"
		if e.r.Intn(5) == 0 {
			s, cls = e.gov, "gov"
		}
		e.clSend(w, "cl.xfer", s, []uint64{id}, cls, []string{e.users[e.r.Intn(len(e.users))]})
	}
	for round := 0; round < 2; round++ {
		for _, id := range live() {
			if _, ok := w.owner[id]; !ok {
				continue
			}
			for _, kind := range clKinds {
				if _, ok := w.owner[id]; !ok {
					break
				}
				for _, s := range e.clSenders(w, id) {
					e.clSend(w, kind, s[0], []uint64{id}, s[1], e.clArgs(kind))
				}
				if own, ok := w.owner[id]; ok && e.isValid(own) && own != e.pool && e.r.Intn(4) != 0 {
					e.clSend(w, kind, own, []uint64{id}, "owner", e.clArgs(kind))
				}
			}
		}
		// lists: own + foreign, duplicates, unknown ids, empty
		l := live()
		for _, kind := range []string{"cl.fees", "cl.inc", "cl.xfer"} {
			for j := 0; j < 4 && len(l) >= 2; j++ {
				a, b := l[e.r.Intn(len(l))], l[e.r.Intn(len(l))]
				ids := []uint64{a, b}
				switch e.r.Intn(6) {
				case 0:
					ids = []uint64{a, a}
				case 1:
					ids = []uint64{a, 999999}
				case 2:
					ids = []uint64{}
				case 3:
					ids = []uint64{b, a, l[e.r.Intn(len(l))]}
				}
				s := e.users[e.r.Intn(len(e.users))]
				if len(ids) > 0 {
					if o, ok := w.owner[ids[0]]; ok && e.r.Intn(2) == 0 {
						s = o
					}
				}
				cls := "list-stranger"
				all := len(ids) > 0
				some := false
				for _, id := range ids {
					if w.owner[id] == s {
						some = true
					} else {
						all = false
					}
				}
				if all {
					cls = "list-owner"
				} else if some {
					cls = "list-mixed"
				}
				if !e.isValid(s) || s == e.pool {
					continue
				}
				e.clSend(w, kind, s, ids, cls, e.clArgs(kind))
			}
		}
	}
}

// ---------------------------------------------------------------- driver
func runAuth(t *testing.T, seed int64, n int, dir string) {
	repoDir := os.Getenv("VERIF_REPO")
	if repoDir == "" {
		repoDir = "/repo"
	}
	// the contract used by x/tokenfactory's own tests: rejects transfers of exactly 100 units
	wasmCode, _ := os.ReadFile(repoDir + "/x/tokenfactory/keeper/testdata/no100.wasm")
	e := &authEnv{t: t, h: newH(t), o: NewOut(dir), r: rand.New(rand.NewSource(seed))}
	h := e.h
	for e.ops < n {
		e.setup()
		// --- universe: CL pools, a balancer pool whose shares are a superfluid asset, a validator
		clPool := h.PrepareConcentratedPoolWithCoinsAndFullRangePosition("eth", "usdc")
		pools := []uint64{clPool.GetId()}
		e.reg("pool", clPool.GetAddress())
		e.pool = "pool"
		cw := &clWorld{owner: map[uint64]string{}, prev: map[uint64][]string{}, pool: map[uint64]uint64{}}
		lockedPos := uint64(0)
		if e.r.Intn(2) == 0 {
			// a position with an active underlying lock
			coins := sdk.NewCoins(sdk.NewInt64Coin("eth", 100000), sdk.NewInt64Coin("usdc", 100000))
			u := e.users[e.r.Intn(len(e.users))]
			h.FundAcc(e.acc(u), coins)
			d, _, err := h.App.ConcentratedLiquidityKeeper.CreateFullRangePositionLocked(h.Ctx, clPool.GetId(), e.acc(u), coins, 24*time.Hour)
			if err != nil {
				t.Fatalf("CreateFullRangePositionLocked: %v", err)
			}
			lockedPos = d.ID
			cw.owner[d.ID] = u
		}
		gpools := h.SetupGammPoolsWithBondDenomMultiplier([]osmomath.Dec{osmomath.NewDec(20)})
		sfDenom := gammtypes.GetPoolShareDenom(gpools[0].GetId())
		if err := h.App.SuperfluidKeeper.AddNewSuperfluidAsset(h.Ctx, sftypes.SuperfluidAsset{Denom: sfDenom, AssetType: sftypes.SuperfluidAssetTypeLPShare}); err != nil {
			t.Fatalf("AddNewSuperfluidAsset: %v", err)
		}
		val := h.SetupValidator(stakingtypes.Bonded)
		sp, _ := h.App.StakingKeeper.GetParams(h.Ctx)
		unbonding := sp.UnbondingTime
		h.App.IncentivesKeeper.SetLockableDurations(h.Ctx, []time.Duration{time.Hour, 24 * time.Hour, unbonding})

		// one history in three has a cosmwasm contract that can serve as a before-send hook
		contracts := "-"
		e.cw = ""
		if wasmCode != nil && e.r.Intn(3) == 0 {
			ck := wasmkeeper.NewGovPermissionKeeper(h.App.WasmKeeper)
			codeID, _, err := ck.Create(h.Ctx, h.TestAccs[0], wasmCode, nil)
			if err != nil {
				t.Fatalf("wasm create: %v", err)
			}
			caddr, _, err := ck.Instantiate(h.Ctx, codeID, h.TestAccs[0], h.TestAccs[0], []byte("{}"), "", sdk.NewCoins())
			if err != nil {
				t.Fatalf("wasm instantiate: %v", err)
			}
			e.reg("cw", caddr)
			e.cw = "cw"
			contracts = "cw"
			e.o.Count("histories.with-contract")
		}
		// tokenfactory / lockup parameters of this history
		e.feeAmt = []int64{0, 1000, 1000}[e.r.Intn(3)]
		tfp := h.App.TokenFactoryKeeper.GetParams(h.Ctx)
		if e.feeAmt > 0 {
			tfp.DenomCreationFee = sdk.NewCoins(sdk.NewInt64Coin("uosmo", e.feeAmt))
		} else {
			tfp.DenomCreationFee = nil
		}
		h.App.TokenFactoryKeeper.SetParams(h.Ctx, tfp)
		lw := &lkWorld{owner: map[uint64]string{}, denom: map[uint64]string{}, sf: map[uint64]bool{}, val: val.String()}
		switch e.r.Intn(3) {
		case 0:
			lw.allow = []string{e.users[e.r.Intn(len(e.users))]}
		case 1:
			lw.allow = []string{e.users[0], e.users[1], e.users[2]}
		}
		lp := h.App.LockupKeeper.GetParams(h.Ctx)
		lp.ForceUnlockAllowedAddresses = nil
		for _, a := range lw.allow {
			lp.ForceUnlockAllowedAddresses = append(lp.ForceUnlockAllowedAddresses, e.addr(a))
		}
		h.App.LockupKeeper.SetParams(h.Ctx, lp)
		for _, u := range e.users {
			h.FundAcc(e.acc(u), sdk.NewCoins(sdk.NewInt64Coin("uosmo", int64(500+e.r.Intn(3)*1000))))
		}
		var valid []string
		for nme := range e.real {
			valid = append(valid, nme)
		}
		sort.Strings(valid)
		native := []string{}
		for _, d := range []string{"uosmo", "stake", "eth", "usdc"} {
			if h.App.BankKeeper.HasSupply(h.Ctx, d) {
				native = append(native, d)
			}
		}
		lst := func(x []string) string {
			if len(x) == 0 {
				return "-"
			}
			return strings.Join(x, ",")
		}
		e.o.Emit(fmt.Sprintf("auth reset %s %s %s %s uosmo %d %s %d val %s %s", lst(valid), lst(e.mods), e.gov, e.cp, e.feeAmt, lst(lw.allow),
			int64(unbonding/time.Second), lst(native), contracts), "ok", false)
		for _, nme := range valid {
			if b := h.App.BankKeeper.GetBalance(h.Ctx, e.acc(nme), "uosmo").Amount; b.IsPositive() {
				e.o.Emit(fmt.Sprintf("auth fund %s uosmo %s", nme, b), "ok", false)
			}
		}
		e.base = nil
		e.o.Count("histories")

		e.tfPhase()
		e.clRegister(cw, 1, "t0", clPool.GetId(), false)
		if lockedPos != 0 {
			e.clRegister(cw, lockedPos, cw.owner[lockedPos], clPool.GetId(), true)
		}
		e.clPhase(cw, pools)
		e.o.Emit(fmt.Sprintf("auth lk.last %d", h.App.LockupKeeper.GetLastLockID(h.Ctx)), "ok", false)
		e.lkPhase(lw, sfDenom, unbonding)
	}
	e.o.Close(nil)
}
