package app_test

import (
	"bytes"
	"strings"
	"fmt"
	"math/big"
	"sort"

	storetypes "cosmossdk.io/store/types"
	sdk "github.com/cosmos/cosmos-sdk/types"

	"github.com/osmosis-labs/osmosis/osmomath"
	cl "github.com/osmosis-labs/osmosis/v31/x/concentrated-liquidity"
	clmath "github.com/osmosis-labs/osmosis/v31/x/concentrated-liquidity/math"
	cltypes "github.com/osmosis-labs/osmosis/v31/x/concentrated-liquidity/types"
)

var (
	p36r = pow10(36)
	p18r = pow10(18)
)

// storeDigest: concatenation-free digest of the concentrated-liquidity and bank stores (iteration order is the
// store's key order), used to show that a query changed nothing.
func (e *clEngine) storeDigest(ctx sdk.Context) []byte {
	var buf bytes.Buffer
	for _, name := range []string{cltypes.StoreKey, "bank"} {
		key := e.h.App.GetKey(name)
		if key == nil {
			continue
		}
		st := ctx.KVStore(key)
		it := storetypes.KVStorePrefixIterator(st, nil)
		for ; it.Valid(); it.Next() {
			buf.Write(it.Key())
			buf.WriteByte(0)
			buf.Write(it.Value())
			buf.WriteByte(1)
		}
		it.Close()
	}
	return buf.Bytes()
}

type tickNet struct {
	tick int64
	net  *big.Int
	sp   *big.Int
}

// idealWalk: the exact piecewise constant-liquidity curve through the pool's initialised ticks (bucket
// boundaries = the tick sqrt prices the code uses) with the pool's spread factor, in rational arithmetic.
// exact-in:  returns the ideal amount out for `amount` in.   exact-out: the ideal amount in for `amount` out.
// ok=false when the curve runs out of ticks / liquidity before the amount is exhausted.
func idealWalk(outGivenIn, zfo bool, spf *big.Int, sp0 *big.Int, liq0 *big.Int, ahead []tickNet, amount *big.Int) (*big.Rat, int, bool) {
	one := big.NewRat(1, 1)
	phi := new(big.Rat).SetFrac(spf, p18r)
	oneMinus := new(big.Rat).Sub(one, phi)
	sp := new(big.Rat).SetFrac(sp0, p36r)   // sqrt price as a rational VALUE
	L := new(big.Rat).SetFrac(liq0, p18r)   // liquidity VALUE
	rem := new(big.Rat).SetInt(amount)      // token units
	total := new(big.Rat)
	steps := 0
	for _, t := range ahead {
		if rem.Sign() <= 0 {
			break
		}
		steps++
		target := new(big.Rat).SetFrac(t.sp, p36r)
		if L.Sign() > 0 {
			// amounts to move sp -> target
			var d0, d1 *big.Rat // token0 / token1 exact amounts (positive)
			lo, hi := sp, target
			if lo.Cmp(hi) > 0 {
				lo, hi = hi, lo
			}
			d0 = new(big.Rat).Sub(new(big.Rat).Inv(lo), new(big.Rat).Inv(hi))
			d0.Mul(d0, L)
			d1 = new(big.Rat).Sub(hi, lo)
			d1.Mul(d1, L)
			var needSpecified, other *big.Rat
			if outGivenIn {
				if zfo {
					needSpecified, other = d0, d1
				} else {
					needSpecified, other = d1, d0
				}
				gross := new(big.Rat).Quo(needSpecified, oneMinus) // incl. spread fee
				if rem.Cmp(gross) >= 0 {
					rem.Sub(rem, gross)
					total.Add(total, other)
					sp = target
				} else {
					net := new(big.Rat).Mul(rem, oneMinus)
					var spN *big.Rat
					if zfo { // token0 in: 1/sp' = 1/sp + net/L
						inv := new(big.Rat).Add(new(big.Rat).Inv(sp), new(big.Rat).Quo(net, L))
						spN = new(big.Rat).Inv(inv)
						total.Add(total, new(big.Rat).Mul(L, new(big.Rat).Sub(sp, spN)))
					} else { // token1 in: sp' = sp + net/L
						spN = new(big.Rat).Add(sp, new(big.Rat).Quo(net, L))
						x := new(big.Rat).Sub(new(big.Rat).Inv(sp), new(big.Rat).Inv(spN))
						total.Add(total, x.Mul(x, L))
					}
					rem.SetInt64(0)
					return total, steps, true
				}
			} else {
				// exact out: specified side is the OUT token
				var avail, costNet *big.Rat
				if zfo {
					avail, costNet = d1, d0
				} else {
					avail, costNet = d0, d1
				}
				if rem.Cmp(avail) >= 0 {
					rem.Sub(rem, avail)
					total.Add(total, new(big.Rat).Quo(costNet, oneMinus))
					sp = target
				} else {
					var spN, cost *big.Rat
					if zfo { // token1 out: sp' = sp − rem/L ; cost token0
						spN = new(big.Rat).Sub(sp, new(big.Rat).Quo(rem, L))
						cost = new(big.Rat).Sub(new(big.Rat).Inv(spN), new(big.Rat).Inv(sp))
						cost.Mul(cost, L)
					} else { // token0 out: 1/sp' = 1/sp − rem/L ; cost token1
						inv := new(big.Rat).Sub(new(big.Rat).Inv(sp), new(big.Rat).Quo(rem, L))
						if inv.Sign() <= 0 {
							return nil, steps, false
						}
						spN = new(big.Rat).Inv(inv)
						cost = new(big.Rat).Sub(spN, sp)
						cost.Mul(cost, L)
					}
					total.Add(total, new(big.Rat).Quo(cost, oneMinus))
					rem.SetInt64(0)
					return total, steps, true
				}
			}
		} else {
			sp = target
		}
		// cross the tick
		n := new(big.Rat).SetFrac(t.net, p18r)
		if zfo {
			L = new(big.Rat).Sub(L, n)
		} else {
			L = new(big.Rat).Add(L, n)
		}
	}
	if rem.Sign() > 0 {
		return total, steps, false
	}
	return total, steps, true
}

func (e *clEngine) ticksAhead(zfo bool) []tickNet {
	k := e.h.App.ConcentratedLiquidityKeeper
	cur := e.pool().GetCurrentTick()
	ticks, _ := k.GetAllInitializedTicksForPool(e.ctx(), e.poolId)
	var out []tickNet
	for _, t := range ticks {
		sp, err := clmath.TickToSqrtPrice(t.TickIndex)
		if err != nil {
			continue
		}
		tn := tickNet{t.TickIndex, t.Info.LiquidityNet.BigInt(), sp.BigInt()}
		if zfo && t.TickIndex <= cur || !zfo && t.TickIndex > cur {
			out = append(out, tn)
		}
	}
	if zfo {
		sort.Slice(out, func(i, j int) bool { return out[i].tick > out[j].tick })
	} else {
		sort.Slice(out, func(i, j int) bool { return out[i].tick < out[j].tick })
	}
	return out
}

func (e *clEngine) swap() {
	k := e.h.App.ConcentratedLiquidityKeeper
	o := e.o
	ogi := e.r.Intn(2) == 0
	zfo := e.r.Intn(2) == 0
	class := e.swapClass
	e.swapClass = ""
	var given *big.Int
	if ov := e.swapOverride; ov != nil { // scripted swap (directed sequences): kind, direction and (optionally) amount are given
		e.swapOverride = nil
		ogi, zfo, class, given = ov.ogi, ov.zfo, ov.class, ov.amt
	}
	e.lastSwap = swapRes{}
	if class == "" {
		switch e.r.Intn(16) {
		case 0, 1:
			class = "land"
		case 2:
			class = "limit"
		}
	}
	p := e.pool()
	inDenom, outDenom := clDenom0, clDenom1
	if !zfo {
		inDenom, outDenom = clDenom1, clDenom0
	}
	// amounts: 1 unit .. draining the pool side
	var amt *big.Int
	poolOut := e.bal(p.GetAddress(), outDenom)
	poolIn := e.bal(p.GetAddress(), inDenom)
	switch e.r.Intn(7) {
	case 0:
		amt = big.NewInt(int64(1 + e.r.Intn(3)))
	case 1:
		amt = big.NewInt(int64(1 + e.r.Intn(1000)))
	case 2:
		amt = new(big.Int).Rand(e.r, new(big.Int).Add(poolOut, big.NewInt(2)))
	case 3:
		amt = new(big.Int).Quo(poolOut, big.NewInt(int64(1+e.r.Intn(100))))
	case 4: // draining and beyond
		amt = new(big.Int).Add(poolOut, big.NewInt(int64(e.r.Intn(5)-2)))
		if ogi {
			amt = new(big.Int).Mul(new(big.Int).Add(poolIn, big.NewInt(1)), big.NewInt(int64(1+e.r.Intn(1000))))
		}
	default:
		amt = e.randAmount()
	}
	switch class {
	case "land": // the amount that brings the price EXACTLY onto the n-th initialised tick ahead (computed with the real math), +-1 unit
		if a := e.landingAmount(ogi, zfo, inDenom); a != nil {
			amt = a
			o.Count("swap.class.land")
		}
	case "limit": // more than the pool can absorb: the swap stops at the price limit (partial fill) when liquidity reaches the min/max tick
		if ogi {
			amt = new(big.Int).Mul(new(big.Int).Add(poolIn, pow10(6+e.r.Intn(30))), big.NewInt(int64(2+e.r.Intn(1000))))
		} else {
			amt = new(big.Int).Add(poolOut, big.NewInt(int64(e.r.Intn(3))))
			if e.r.Intn(2) == 0 {
				amt.Mul(amt, big.NewInt(int64(2+e.r.Intn(9))))
			}
		}
		o.Count("swap.class.limit")
	case "given":
		amt = new(big.Int).Set(given)
		o.Count("swap.class.scripted-amount")
	}
	if amt.Sign() <= 0 {
		amt = big.NewInt(1)
	}
	trader := e.accs[e.r.Intn(3)]
	sp0 := p.GetCurrentSqrtPrice().BigInt()
	liq0 := p.GetLiquidity().BigInt()
	ahead := e.ticksAhead(zfo)

	// --- estimate on the same state: must not change the store ---
	before := e.storeDigest(e.ctx())
	var est sdk.Coin
	var estErr error
	estOK := catch(func() {
		if ogi {
			est, estErr = k.CalcOutAmtGivenIn(e.ctx(), p, sdk.NewCoin(inDenom, osmomath.NewIntFromBigInt(amt)), outDenom, e.spf)
		} else {
			est, estErr = k.CalcInAmtGivenOut(e.ctx(), p, sdk.NewCoin(outDenom, osmomath.NewIntFromBigInt(amt)), inDenom, e.spf)
		}
	})
	if !bytes.Equal(before, e.storeDigest(e.ctx())) {
		o.Fail("quote:estimate-changed-state", fmt.Sprintf("op %d", e.opn))
	}
	estLine := fmt.Sprintf("clp est %s %s %s", b2sApp(ogi), b2sApp(zfo), amt)
	if estOK && estErr == nil {
		o.Emit(estLine, "ok "+est.Amount.String(), true)
	} else {
		o.Emit(estLine, "err", true)
	}

	// --- there-and-back on a discarded branch (before executing) ---
	if ogi && e.r.Intn(3) == 0 {
		e.roundTrip(trader, inDenom, outDenom, amt)
	}

	// the trader always has enough to pay (the model has no trader balances): top up to the quoted need
	need := new(big.Int).Set(amt)
	if !ogi {
		need = big.NewInt(0)
		if estOK && estErr == nil {
			need = est.Amount.BigInt()
		}
	}
	if have := e.bal(trader, inDenom); have.Cmp(need) < 0 && need.BitLen() < 250 {
		e.h.FundAcc(trader, sdk.NewCoins(sdk.NewCoin(inDenom, osmomath.NewIntFromBigInt(new(big.Int).Sub(need, have)))))
	}
	// --- execute ---
	swapUnit := e.liqUnit()
	feeAddr := p.GetSpreadRewardsAddress()
	feeBefore := e.bal(feeAddr, inDenom)
	tIn, tOut := e.bal(trader, inDenom), e.bal(trader, outDenom)
	var res osmomath.Int
	err := e.atomic(func(ctx sdk.Context) error {
		var err error
		if ogi {
			res, err = k.SwapExactAmountIn(ctx, trader, p, sdk.NewCoin(inDenom, osmomath.NewIntFromBigInt(amt)), outDenom, osmomath.ZeroInt(), e.spf)
		} else {
			res, err = k.SwapExactAmountOut(ctx, trader, p, inDenom, osmomath.NewIntFromBigInt(pow2(250)), sdk.NewCoin(outDenom, osmomath.NewIntFromBigInt(amt)), e.spf)
		}
		return err
	})
	line := fmt.Sprintf("clp swap %s %s %s", b2sApp(ogi), b2sApp(zfo), amt)
	if err != nil {
		o.Emit(line, "err", true)
		o.Count("swap.err")
		if msg := err.Error(); true {
			if i := strings.IndexAny(msg, "(0123456789"); i > 20 { // amounts / ids are not part of the class
				msg = msg[:i]
			}
			if len(msg) > 70 {
				msg = msg[:70]
			}
			o.Count("swap.err:" + strings.ReplaceAll(msg, " ", "_"))
		}
		if estOK && estErr == nil && !isBalanceErr(err) {
			// an estimate succeeded for a swap that cannot execute: only legitimate when the trader lacks funds
			o.Count("swap.err-but-estimated")
		}
		return
	}
	paid := new(big.Int).Sub(tIn, e.bal(trader, inDenom))
	got := new(big.Int).Sub(e.bal(trader, outDenom), tOut)
	fee := new(big.Int).Sub(e.bal(feeAddr, inDenom), feeBefore)
	o.Emit(line, fmt.Sprintf("ok in=%s out=%s fee=%s", paid, got, fee), true)
	o.Count("swap.ok")
	if zfo {
		o.Count("swap.zfo")
		e.feesPaid[0].Add(e.feesPaid[0], fee)
		e.addDust(0, new(big.Int).Mul(big.NewInt(int64(len(ahead)+3)), swapUnit))
	} else {
		o.Count("swap.ofz")
		e.feesPaid[1].Add(e.feesPaid[1], fee)
		e.addDust(1, new(big.Int).Mul(big.NewInt(int64(len(ahead)+3)), swapUnit))
	}
	e.lastSwap = swapRes{ok: true, ogi: ogi, zfo: zfo, paid: paid, got: got}
	// --- the integer amounts against the EXACT curve between the start and the end price over the ticks actually traversed ---
	e.oracleSwapEndpoints(line, class, ogi, zfo, amt, paid, got, sp0, liq0, ahead)
	// positions in range during this swap (for the never-in-range check)
	e.markInRange(sp0)
	// response agrees with balances
	if ogi && res.BigInt().Cmp(got) != 0 || !ogi && res.BigInt().Cmp(paid) != 0 {
		o.Fail("swap:response!=balance-delta", line)
	}
	// whenever a swap executes its result equals the estimate for the same state
	if !estOK || estErr != nil {
		o.Fail("quote:executed-but-estimate-failed", line)
	} else if ogi && est.Amount.BigInt().Cmp(got) != 0 || !ogi && est.Amount.BigInt().Cmp(paid) != 0 {
		o.Fail("quote:estimate!=execution", fmt.Sprintf("%s est %s", line, est.Amount))
	}
	// --- exact curve ---
	var ideal *big.Rat
	var steps int
	var ok bool
	if ogi {
		ideal, steps, ok = idealWalk(true, zfo, e.spf.BigInt(), sp0, liq0, ahead, paid)
	} else {
		ideal, steps, ok = idealWalk(false, zfo, e.spf.BigInt(), sp0, liq0, ahead, got)
	}
	o.Count(fmt.Sprintf("swap.steps%d", minInt(steps, 6)))
	if ok {
		// bounded rounding: every step rounds the charged side up and the paid side down by less than one unit, and
		// the totals once more; a unit of one token is worth 1/price units of the other, so the bound is taken on the
		// curve itself: the result must lie between the ideal for the amount and the ideal for the amount shifted by the
		// slack: Sin units of the in-token, Sout units of the out-token, each 2*steps+4 units plus
		//  * the spread charge of a step that reaches its target is in x QuoRoundUp(spf, 1-spf), a ratio rounded up at 18
		//    decimals: up to in x 10^-18 more than exact (whole units once amounts reach 10^18: 18-decimals assets);
		//  * the sqrt price is a 36-decimal number and every step rounds the next price by a few units of 10^-36 in the pool's
		//    favour: one such quantum is worth L x 10^-36 units of token1 and L x 10^-36 / sqrtP^2 units of token0 (whole units
		//    only for liquidity beyond ~10^30, or ~10^24 at the minimum price; nothing for ordinary magnitudes).
		sp1 := e.pool().GetCurrentSqrtPrice().BigInt()
		Lmax := new(big.Int).Set(liq0)
		for _, t := range ahead {
			if zfo && t.sp.Cmp(sp1) < 0 || !zfo && t.sp.Cmp(sp1) > 0 {
				break
			}
			Lmax.Add(Lmax, new(big.Int).Abs(t.net))
		}
		spLo := sp0
		if sp1.Cmp(spLo) < 0 {
			spLo = sp1
		}
		q1 := new(big.Rat).SetFrac(new(big.Int).Mul(Lmax, big.NewInt(int64(4*(steps+1)))), pow10(18+36)) // token1 units
		q0 := new(big.Rat).Set(q1)
		if spLo.Sign() > 0 {
			inv := new(big.Rat).SetFrac(p36r, spLo)
			q0.Mul(q0, inv).Mul(q0, inv)
		}
		qIn, qOut := ratCeil(q0), ratCeil(q1)
		if !zfo {
			qIn, qOut = qOut, qIn
		}
		Sin := big.NewInt(int64(2*steps + 4))
		Sout := big.NewInt(int64(2*steps + 4))
		if !e.spf.IsZero() {
			Sin.Add(Sin, new(big.Int).Quo(paid, pow10(18)))
			Sin.Add(Sin, big.NewInt(1))
		}
		if qIn.Cmp(big.NewInt(1)) > 0 || qOut.Cmp(big.NewInt(1)) > 0 {
			o.Count("swap.sqrt-price-quantum-worth-whole-units")
		}
		Sin.Add(Sin, qIn)
		Sout.Add(Sout, qOut)
		if ogi {
			if new(big.Rat).SetInt(got).Cmp(ideal) > 0 {
				o.Fail("curve:out-above-ideal", fmt.Sprintf("%s paid %s got %s ideal %s | %s", line, paid, got, ideal.FloatString(6), e.replay()))
			}
			if lessIn := new(big.Int).Sub(paid, Sin); lessIn.Sign() > 0 {
				lo, _, ok2 := idealWalk(true, zfo, e.spf.BigInt(), sp0, liq0, ahead, lessIn)
				if ok2 && new(big.Rat).SetInt(new(big.Int).Add(got, Sout)).Cmp(lo) < 0 {
					o.Fail("curve:out-far-below-ideal", fmt.Sprintf("%s paid %s got %s ideal %s ideal(in-%s) %s slack out %s steps %d liquidity %s sqrt price %s -> %s | %s", line, paid, got, ideal.FloatString(6), Sin, lo.FloatString(6), Sout, steps, liq0, sp0, sp1, e.replay()))
				}
			}
		} else {
			if new(big.Rat).SetInt(paid).Cmp(ideal) < 0 {
				o.Fail("curve:in-below-ideal", fmt.Sprintf("%s paid %s got %s ideal %s | %s", line, paid, got, ideal.FloatString(6), e.replay()))
			}
			hi, _, ok2 := idealWalk(false, zfo, e.spf.BigInt(), sp0, liq0, ahead, new(big.Int).Add(got, Sout))
			if ok2 && new(big.Rat).SetInt(paid).Cmp(new(big.Rat).Add(hi, new(big.Rat).SetInt(Sin))) > 0 {
				o.Fail("curve:in-far-above-ideal", fmt.Sprintf("%s paid %s got %s ideal %s ideal(out+%s) %s slack in %s steps %d liquidity %s sqrt price %s -> %s | %s", line, paid, got, ideal.FloatString(6), Sout, hi.FloatString(6), Sin, steps, liq0, sp0, sp1, e.replay()))
			}
		}
	} else {
		o.Count("swap.ideal-ran-out-of-liquidity")
	}
}

// swapRes: outcome of the last executed swap (directed sequences swap the proceeds back).
type swapRes struct {
	ok        bool
	ogi, zfo  bool
	paid, got *big.Int
}

type swapOv struct {
	ogi, zfo bool
	class    string
	amt      *big.Int
}

// landingAmount: the specified amount of a swap that ends EXACTLY on the n-th initialised tick ahead (n = 1..3), computed
// with the real math (ComputeMaxInAmtGivenMaxTicksCrossed / CalcAmount0Delta / CalcAmount1Delta), sometimes +-1 unit.
func (e *clEngine) landingAmount(ogi, zfo bool, inDenom string) *big.Int {
	k := e.h.App.ConcentratedLiquidityKeeper
	p := e.pool()
	n := 1 + e.r.Intn(3)
	var amt *big.Int
	how := "maxin"
	if e.r.Intn(3) == 0 || !ogi && e.r.Intn(2) == 0 { // first tick ahead whose price differs from the current one, by the delta functions
		how = "delta"
		sp0 := p.GetCurrentSqrtPrice()
		liq := p.GetLiquidity()
		for _, t := range e.ticksAhead(zfo) {
			if t.sp.Cmp(sp0.BigInt()) == 0 {
				if zfo {
					liq = liq.Sub(sd(t.net))
				} else {
					liq = liq.Add(sd(t.net))
				}
				continue
			}
			if !liq.IsPositive() {
				break
			}
			catch(func() {
				if ogi {
					var in osmomath.Dec
					if zfo {
						in = clmath.CalcAmount0Delta(liq, bd(t.sp), sp0, true).DecRoundUp().Ceil()
					} else {
						in = clmath.CalcAmount1Delta(liq, bd(t.sp), sp0, true).DecRoundUp().Ceil()
					}
					// plus the spread charge in * spf / (1 - spf), rounded up
					tot := new(big.Rat).Quo(new(big.Rat).SetInt(in.TruncateInt().BigInt()), new(big.Rat).Sub(big.NewRat(1, 1), new(big.Rat).SetFrac(e.spf.BigInt(), p18r)))
					amt = ratCeil(tot)
				} else {
					if zfo {
						amt = clmath.CalcAmount1Delta(liq, bd(t.sp), sp0, false).Dec().TruncateInt().BigInt()
					} else {
						amt = clmath.CalcAmount0Delta(liq, bd(t.sp), sp0, false).Dec().TruncateInt().BigInt()
					}
				}
			})
			break
		}
	} else {
		var in, out sdk.Coin
		var err error
		if !catch(func() { in, out, err = k.ComputeMaxInAmtGivenMaxTicksCrossed(e.ctx(), e.poolId, inDenom, uint64(n)) }) || err != nil {
			return nil
		}
		if ogi {
			amt = in.Amount.BigInt()
		} else {
			amt = out.Amount.BigInt()
		}
	}
	if amt == nil || amt.Sign() <= 0 {
		return nil
	}
	amt = new(big.Int).Set(amt)
	switch e.r.Intn(5) {
	case 0:
		amt.Add(amt, big.NewInt(1))
		how += "+1"
	case 1:
		if amt.Cmp(big.NewInt(1)) > 0 {
			amt.Sub(amt, big.NewInt(1))
			how += "-1"
		}
	}
	e.o.Count("swap.land." + how)
	return amt
}

// oracleSwapEndpoints (property C03, keys swap:*): the constant-liquidity curve walked EXACTLY (big.Rat) from the swap's start
// price to its end price through the initialised ticks in between, with the liquidity of every bucket taken from the ticks'
// net liquidity.  One-sided, zero tolerance, for every executed swap of the four kinds incl. partial fills (swap stopped at
// the price limit): what the trader was charged >= exact in-amount / (1 - spread factor), what he was paid <= exact out-amount.
// (The comparison with the ideal FOR THE AMOUNT, both sides, stays with idealWalk below.)
func (e *clEngine) oracleSwapEndpoints(line, class string, ogi, zfo bool, amt, paid, got, sp0, liq0 *big.Int, ahead []tickNet) {
	e.oracleSwapEndpointsAt(line, class, ogi, zfo, amt, paid, got, sp0, e.pool().GetCurrentSqrtPrice().BigInt(), liq0, ahead)
}

// probeLimit: a swap larger than the pool can absorb, executed on a DISCARDED branch of the current state (the history and
// the model are not touched) and judged by the same exact-curve oracle: partial fills in every state the history visits.
func (e *clEngine) probeLimit(ogi, zfo bool) {
	k := e.h.App.ConcentratedLiquidityKeeper
	p := e.pool()
	inDenom, outDenom := clDenom0, clDenom1
	if !zfo {
		inDenom, outDenom = clDenom1, clDenom0
	}
	ahead := e.ticksAhead(zfo)
	if len(ahead) == 0 {
		return
	}
	if last := ahead[len(ahead)-1].tick; zfo && last != cltypes.MinInitializedTick || !zfo && last != cltypes.MaxTick {
		return // liquidity does not reach the limit tick: the swap would run out of ticks
	}
	var amt *big.Int
	if ogi {
		amt = new(big.Int).Mul(new(big.Int).Add(e.bal(p.GetAddress(), inDenom), pow10(6+e.r.Intn(30))), big.NewInt(int64(2+e.r.Intn(1000))))
	} else {
		amt = new(big.Int).Add(e.bal(p.GetAddress(), outDenom), big.NewInt(int64(e.r.Intn(3))))
	}
	trader := e.accs[e.r.Intn(3)]
	if e.bal(trader, inDenom).Cmp(pow10(60)) < 0 {
		e.h.FundAcc(trader, sdk.NewCoins(sdk.NewCoin(inDenom, osmomath.NewIntFromBigInt(pow10(62)))))
	}
	sp0 := p.GetCurrentSqrtPrice().BigInt()
	liq0 := p.GetLiquidity().BigInt()
	cctx, _ := e.h.Ctx.CacheContext()
	balOf := func(a sdk.AccAddress, d string) *big.Int { return e.h.App.BankKeeper.GetBalance(cctx, a, d).Amount.BigInt() }
	tIn, tOut := balOf(trader, inDenom), balOf(trader, outDenom)
	var err error
	ok := catch(func() {
		if ogi {
			_, err = k.SwapExactAmountIn(cctx, trader, p, sdk.NewCoin(inDenom, osmomath.NewIntFromBigInt(amt)), outDenom, osmomath.ZeroInt(), e.spf)
		} else {
			_, err = k.SwapExactAmountOut(cctx, trader, p, inDenom, osmomath.NewIntFromBigInt(pow2(250)), sdk.NewCoin(outDenom, osmomath.NewIntFromBigInt(amt)), e.spf)
		}
	})
	if !ok || err != nil {
		e.o.Count("probe.limit-err")
		return
	}
	e.o.Count("probe.limit-ok")
	paid := new(big.Int).Sub(tIn, balOf(trader, inDenom))
	got := new(big.Int).Sub(balOf(trader, outDenom), tOut)
	p1, err := k.GetConcentratedPoolById(cctx, e.poolId)
	if err != nil {
		return
	}
	line := fmt.Sprintf("clp swap %s %s %s (probe: executed on a discarded branch of the state after the replayed ops)", b2sApp(ogi), b2sApp(zfo), amt)
	e.oracleSwapEndpointsAt(line, "probe", ogi, zfo, amt, paid, got, sp0, p1.GetCurrentSqrtPrice().BigInt(), liq0, ahead)
}

func (e *clEngine) oracleSwapEndpointsAt(line, class string, ogi, zfo bool, amt, paid, got, sp0, sp1, liq0 *big.Int, ahead []tickNet) {
	o := e.o
	kind := fmt.Sprintf("ogi=%s:zfo=%s", b2sApp(ogi), b2sApp(zfo))
	spfClass := "spf>0"
	if e.spf.IsZero() {
		spfClass = "spf=0"
	}
	// (an exact-out swap can deliver ONE unit less than requested away from the limit: the loop stops with up to 10^-18 of the
	// request left and the delivered amount is truncated; counted, not a partial fill)
	partial := ogi && paid.Cmp(amt) < 0 || !ogi && new(big.Int).Add(got, big.NewInt(1)).Cmp(amt) < 0
	if !ogi && got.Cmp(amt) < 0 && !partial {
		o.Count("swap.exact-out-one-unit-short")
	}
	// the specified amount is a LIMIT on its own side: an exact-in swap never debits more than the amount given, an exact-out
	// swap never delivers more than the amount asked for
	if ogi && paid.Cmp(amt) > 0 {
		o.Fail("swap:exact-in-charged-more-than-specified:"+kind+":"+spfClass, fmt.Sprintf("%s paid %s got %s | %s", line, paid, got, e.replay()))
	}
	if !ogi && got.Cmp(amt) > 0 {
		o.Fail("swap:exact-out-delivered-more-than-specified:"+kind+":"+spfClass, fmt.Sprintf("%s paid %s got %s | %s", line, paid, got, e.replay()))
	}
	atLimit := sp1.Cmp(cltypes.MinSqrtPriceBigDec.BigInt()) == 0 || sp1.Cmp(cltypes.MaxSqrtPriceBigDec.BigInt()) == 0
	fill := "full"
	pre := "swap."
	if class == "probe" {
		pre = "probe."
	}
	if partial {
		fill = "partial"
		o.Count(pre + "partial-fill")
		o.Count(pre + "partial-fill:" + kind + ":" + spfClass)
	}
	if atLimit {
		o.Count(pre + "stopped-at-price-limit")
		o.Count(pre + "stopped-at-price-limit:" + kind)
	}
	if partial && !atLimit {
		// a swap consumes its whole specified amount unless it reaches the price limit
		o.Fail("swap:partial-fill-away-from-price-limit:"+kind, fmt.Sprintf("%s paid %s got %s end sqrt price %s | %s", line, paid, got, sp1, e.replay()))
	}
	if zfo && sp1.Cmp(sp0) > 0 || !zfo && sp1.Cmp(sp0) < 0 {
		o.Fail("swap:price-moved-against-direction:"+kind, fmt.Sprintf("%s sqrt price %s -> %s | %s", line, sp0, sp1, e.replay()))
		return
	}
	// exact walk sp0 -> sp1
	L := new(big.Rat).SetFrac(liq0, p18r)
	cur := new(big.Rat).SetFrac(sp0, p36r)
	end := new(big.Rat).SetFrac(sp1, p36r)
	exIn, exOut := new(big.Rat), new(big.Rat)
	seg := func(to *big.Rat) {
		lo, hi := cur, to
		if lo.Cmp(hi) > 0 {
			lo, hi = hi, lo
		}
		if lo.Cmp(hi) == 0 || L.Sign() <= 0 {
			return
		}
		d0 := new(big.Rat).Sub(new(big.Rat).Inv(lo), new(big.Rat).Inv(hi))
		d0.Mul(d0, L)
		d1 := new(big.Rat).Sub(hi, lo)
		d1.Mul(d1, L)
		if zfo {
			exIn.Add(exIn, d0)
			exOut.Add(exOut, d1)
		} else {
			exIn.Add(exIn, d1)
			exOut.Add(exOut, d0)
		}
	}
	crossed, landed := 0, false
	for _, t := range ahead {
		tsp := new(big.Rat).SetFrac(t.sp, p36r)
		if zfo && tsp.Cmp(end) < 0 || !zfo && tsp.Cmp(end) > 0 {
			break
		}
		if t.sp.Cmp(sp1) == 0 && t.sp.Cmp(sp0) != 0 {
			landed = true
		}
		seg(tsp)
		cur = tsp
		n := new(big.Rat).SetFrac(t.net, p18r)
		if zfo {
			L = new(big.Rat).Sub(L, n)
		} else {
			L = new(big.Rat).Add(L, n)
		}
		crossed++
	}
	seg(end)
	o.Count(fmt.Sprintf(pre+"ticks-traversed%d", minInt(crossed, 6)))
	if landed && class == "probe" {
		o.Count("probe.landed-on-tick")
	} else if landed {
		o.Count("swap.landed-on-tick")
		o.Count("swap.landed-on-tick:" + kind + ":" + spfClass)
		if class == "land" {
			o.Count("swap.landed-on-tick.directed")
		}
		if class != "probe" {
			e.landedNow = true
		}
	}
	charge := new(big.Rat).Quo(exIn, new(big.Rat).Sub(big.NewRat(1, 1), new(big.Rat).SetFrac(e.spf.BigInt(), p18r)))
	detail := func() string {
		return fmt.Sprintf("%s paid %s got %s | exact in (incl. spread charge) %s exact out %s | sqrt price %s -> %s liquidity %s ticks traversed %d spread factor %s | %s",
			line, paid, got, charge.FloatString(6), exOut.FloatString(6), sp0, sp1, liq0, crossed, e.spf, e.replay())
	}
	if new(big.Rat).SetInt(paid).Cmp(charge) < 0 {
		o.Fail("swap:charged-below-exact-curve:"+kind+":"+fill+":"+spfClass, detail())
	}
	if new(big.Rat).SetInt(got).Cmp(exOut) > 0 {
		o.Fail("swap:paid-out-above-exact-curve:"+kind+":"+fill+":"+spfClass, detail())
	}
	o.Count(pre + "endpoints-checked:" + fill)
	
}

func isBalanceErr(err error) bool { return err != nil && (has(err.Error(), "insufficient") || has(err.Error(), "Insufficient")) }

func minInt(a, b int) int {
	if a < b {
		return a
	}
	return b
}

func b2sApp(b bool) string {
	if b {
		return "1"
	}
	return "0"
}

// roundTrip: swap A in, then swap the proceeds straight back, on a discarded branch: never more than A comes back.
func (e *clEngine) roundTrip(trader sdk.AccAddress, inDenom, outDenom string, amt *big.Int) {
	k := e.h.App.ConcentratedLiquidityKeeper
	cctx, _ := e.h.Ctx.CacheContext()
	var out, back osmomath.Int
	var err error
	ok := catch(func() {
		p, _ := k.GetConcentratedPoolById(cctx, e.poolId)
		out, err = k.SwapExactAmountIn(cctx, trader, p, sdk.NewCoin(inDenom, osmomath.NewIntFromBigInt(amt)), outDenom, osmomath.ZeroInt(), e.spf)
		if err != nil {
			return
		}
		p, _ = k.GetConcentratedPoolById(cctx, e.poolId)
		back, err = k.SwapExactAmountIn(cctx, trader, p, sdk.NewCoin(outDenom, out), inDenom, osmomath.ZeroInt(), e.spf)
	})
	if !ok || err != nil {
		e.o.Count("roundtrip.skipped")
		return
	}
	e.o.Count("roundtrip.done")
	if back.BigInt().Cmp(amt) > 0 {
		e.o.Fail("curve:roundtrip-profit", fmt.Sprintf("op %d in %s out %s back %s", e.opn, amt, out, back))
	}
}

func (e *clEngine) markInRange(spBefore *big.Int) {
	// any position whose range contains a tick visited between the old and the new current tick was in range
	p := e.pool()
	cur := p.GetCurrentTick()
	oldTick, err := clmath.CalculateSqrtPriceToTick(bd(spBefore))
	if err != nil {
		oldTick = cur
	}
	lo, hi := oldTick, cur
	if lo > hi {
		lo, hi = hi, lo
	}
	for _, q := range e.pos {
		if q.lower <= hi+1 && q.upper >= lo-1 { // conservative (±1 tick): only used to EXEMPT positions from the zero-reward check
			q.everInRange = true
		}
	}
}

// oracleBookkeeping: property C07 recomputed from the positions after every op.
func (e *clEngine) oracleBookkeeping() {
	k := e.h.App.ConcentratedLiquidityKeeper
	o := e.o
	p := e.pool()
	cur := p.GetCurrentTick()
	where := fmt.Sprintf("op %d", e.opn)
	if e.mainPool != 0 && e.poolId != e.mainPool {
		where = fmt.Sprintf("op %d (%s) pool %d next to the pool under test %d", e.opn, e.opClass, e.poolId, e.mainPool)
	}
	// positions as the keeper reports them (per owner query) must be exactly the shadow set
	seen := map[uint64]bool{}
	active := new(big.Int)
	gross := map[int64]*big.Int{}
	net := map[int64]*big.Int{}
	addTo := func(m map[int64]*big.Int, t int64, v *big.Int) {
		if m[t] == nil {
			m[t] = new(big.Int)
		}
		m[t].Add(m[t], v)
	}
	for i, a := range e.accs {
		// the owner's positions in this pool: the unfiltered per-owner query (pool id 0 = every pool), reduced to this pool by
		// the stored PoolId; the keeper's own pool filter must give the same list
		byPool, _ := k.GetUserPositions(e.ctx(), a, e.poolId)
		all, _ := k.GetUserPositions(e.ctx(), a, 0)
		ps := all[:0]
		for _, q := range all {
			if q.PoolId == e.poolId {
				ps = append(ps, q)
			}
		}
		if len(byPool) != len(ps) {
			key := "book:user-positions-by-pool-query-differs:pool-id<10"
			if e.poolId >= 10 {
				key = "book:user-positions-by-pool-query-differs:pool-id>=10"
			}
			o.Fail(key, fmt.Sprintf("%s: GetUserPositions(acc%d, pool %d) lists %d positions, GetUserPositions(acc%d, 0) lists %d with PoolId %d", where, i, e.poolId, len(byPool), i, len(ps), e.poolId))
		} else if len(ps) > 0 {
			o.Count("book.user-positions-by-pool-query-agrees")
		}
		for _, q := range ps {
			seen[q.PositionId] = true
			sh, ok := e.pos[q.PositionId]
			if !ok {
				o.Fail("book:unknown-position", fmt.Sprintf("%s id %d", where, q.PositionId))
				continue
			}
			if sh.owner != i || sh.lower != q.LowerTick || sh.upper != q.UpperTick || sh.liq.Cmp(q.Liquidity.BigInt()) != 0 {
				o.Fail("book:position-record-changed", fmt.Sprintf("%s id %d", where, q.PositionId))
			}
			l := q.Liquidity.BigInt()
			if q.LowerTick <= cur && cur < q.UpperTick {
				active.Add(active, l)
			}
			addTo(gross, q.LowerTick, l)
			addTo(gross, q.UpperTick, l)
			addTo(net, q.LowerTick, l)
			addTo(net, q.UpperTick, new(big.Int).Neg(l))
		}
	}
	for id := range e.pos {
		if !seen[id] {
			o.Fail("book:position-lost", fmt.Sprintf("%s id %d", where, id))
		}
	}
	if len(e.pos) == 0 {
		if p.GetCurrentSqrtPrice().BigInt().Sign() != 0 || cur != 0 || p.GetLiquidity().BigInt().Sign() != 0 {
			o.Fail("book:empty-pool-has-price", where)
		}
	} else if active.Cmp(p.GetLiquidity().BigInt()) != 0 {
		o.Fail("book:active-liquidity", fmt.Sprintf("%s pool %s positions %s current tick %d | %s", where, p.GetLiquidity().BigInt(), active, cur, e.replay()))
	}
	ticks, _ := k.GetAllInitializedTicksForPool(e.ctx(), e.poolId)
	for _, t := range ticks {
		g, ok := gross[t.TickIndex]
		if !ok {
			o.Fail("book:stray-tick", fmt.Sprintf("%s tick %d", where, t.TickIndex))
			continue
		}
		if g.Cmp(t.Info.LiquidityGross.BigInt()) != 0 {
			o.Fail("book:tick-gross", fmt.Sprintf("%s tick %d", where, t.TickIndex))
		}
		if net[t.TickIndex].Cmp(t.Info.LiquidityNet.BigInt()) != 0 {
			o.Fail("book:tick-net", fmt.Sprintf("%s tick %d", where, t.TickIndex))
		}
		delete(gross, t.TickIndex)
	}
	for t := range gross {
		o.Fail("book:missing-tick", fmt.Sprintf("%s tick %d", where, t))
	}
	// the current price agrees with the current tick about every position (below / inside / above its range)
	sp := p.GetCurrentSqrtPrice()
	for _, q := range e.pos {
		lo, err1 := clmath.TickToSqrtPrice(q.lower)
		hi, err2 := clmath.TickToSqrtPrice(q.upper)
		if err1 != nil || err2 != nil {
			continue
		}
		switch {
		case cur < q.lower:
			if sp.GT(lo) {
				o.Fail("book:price-tick-disagree:below", fmt.Sprintf("%s pos %d [%d,%d) tick %d sp %s", where, q.id, q.lower, q.upper, cur, sp))
			}
		case cur >= q.upper:
			if sp.LT(hi) {
				o.Fail("book:price-tick-disagree:above", fmt.Sprintf("%s pos %d [%d,%d) tick %d sp %s", where, q.id, q.lower, q.upper, cur, sp))
			}
		default:
			if sp.LT(lo) || sp.GT(hi) {
				o.Fail("book:price-tick-disagree:inside", fmt.Sprintf("%s pos %d [%d,%d) tick %d sp %s", where, q.id, q.lower, q.upper, cur, sp))
			}
		}
	}
}

// oracleSolvency: properties C01 / C08 on a discarded branch: everybody claims everything and withdraws everything.
func (e *clEngine) oracleSolvency() {
	k := e.h.App.ConcentratedLiquidityKeeper
	ms := cl.NewMsgServerImpl(k)
	o := e.o
	p := e.pool()
	where := fmt.Sprintf("op %d", e.opn)
	ids := make([]uint64, 0, len(e.pos))
	for id := range e.pos {
		ids = append(ids, id)
	}
	sort.Slice(ids, func(i, j int) bool { return ids[i] < ids[j] })
	// --- claimable sums vs balances (queries, no state change) ---
	sumFee := sdk.Coins{}
	sumInc := sdk.Coins{}
	claim := map[uint64]sdk.Coins{}
	for _, id := range ids {
		var c, inc sdk.Coins
		var err, err2 error
		if !catch(func() { c, err = k.GetClaimableSpreadRewards(e.ctx(), id) }) {
			o.Fail("solvency:claimable-query-panicked", fmt.Sprintf("%s pos %d", where, id))
			continue
		}
		if err != nil {
			o.Fail("solvency:claimable-query-failed", fmt.Sprintf("%s pos %d %v", where, id, err))
			continue
		}
		claim[id] = c
		sumFee = sumFee.Add(c...)
		if !catch(func() { inc, _, err2 = k.GetClaimableIncentives(e.ctx(), id) }) {
			o.Fail("solvency:claimable-incentives-query-panicked", fmt.Sprintf("%s pos %d", where, id))
			continue
		}
		if err2 == nil {
			sumInc = sumInc.Add(inc...)
		}
	}
	feeBal := e.h.App.BankKeeper.GetAllBalances(e.ctx(), p.GetSpreadRewardsAddress())
	if !feeBal.IsAllGTE(sumFee) {
		o.Fail("solvency:spread-balance<claimable", fmt.Sprintf("%s balance %s claimable %s", where, feeBal, sumFee))
	}
	incBal := e.h.App.BankKeeper.GetAllBalances(e.ctx(), p.GetIncentivesAddress())
	if !incBal.IsAllGTE(sumInc) {
		o.Fail("solvency:incentive-balance<claimable", fmt.Sprintf("%s balance %s claimable %s", where, incBal, sumInc))
	}
	// total ever claimable never exceeds the total paid in (C08)
	for i, d := range []string{clDenom0, clDenom1} {
		tot := new(big.Int).Add(e.feesOut[i], sumFee.AmountOf(d).BigInt())
		if tot.Cmp(e.feesPaid[i]) > 0 {
			o.Fail("rewards:claimable>paid-in", fmt.Sprintf("%s %s claimed+claimable %s paid %s", where, d, tot, e.feesPaid[i]))
		}
	}
	// fairness (C08)
	for _, id := range ids {
		q := e.pos[id]
		if !q.everInRange && !claim[id].IsZero() {
			o.Fail("rewards:never-in-range-earned", fmt.Sprintf("%s pos %d %s", where, id, claim[id]))
		}
		if q.twinOf != 0 {
			if b, ok := e.pos[q.twinOf]; ok && b.untouched && q.untouched {
				if !claim[id].Equal(claim[q.twinOf]) {
					o.Fail("rewards:twins-differ", fmt.Sprintf("%s pos %d %s vs %d %s", where, id, claim[id], q.twinOf, claim[q.twinOf]))
				} else {
					o.Count("fair.twin-checked")
				}
			}
		}
		if q.kOf != 0 {
			if b, ok := e.pos[q.kOf]; ok && b.untouched && q.untouched {
				// liquidity ratio is exactly what the pool computed; compare rewards with that ratio, up to rounding
				for _, d := range []string{clDenom0, clDenom1} {
					rb := claim[q.kOf].AmountOf(d).BigInt()
					rq := claim[id].AmountOf(d).BigInt()
					// rq*Lb vs rb*Lq within (Lq+Lb) (one unit of truncation on each side)
					lhs := new(big.Int).Mul(rq, b.liq)
					rhs := new(big.Int).Mul(rb, q.liq)
					diff := new(big.Int).Sub(lhs, rhs)
					diff.Abs(diff)
					if diff.Cmp(new(big.Int).Add(q.liq, b.liq)) > 0 {
						o.Fail("rewards:not-proportional-to-liquidity", fmt.Sprintf("%s pos %d (%s) vs %d (%s) %s", where, id, rq, q.kOf, rb, d))
					} else {
						o.Count("fair.k-checked")
					}
				}
			}
		}
	}
	// --- everybody exits on a branch ---
	cctx, _ := e.h.Ctx.CacheContext()
	for _, id := range ids {
		q := e.pos[id]
		owner := e.accs[q.owner]
		var err error
		ok := catch(func() {
			_, err = ms.CollectSpreadRewards(cctx, &cltypes.MsgCollectSpreadRewards{PositionIds: []uint64{id}, Sender: owner.String()})
			if err != nil {
				return
			}
			_, err = ms.CollectIncentives(cctx, &cltypes.MsgCollectIncentives{PositionIds: []uint64{id}, Sender: owner.String()})
			if err != nil {
				return
			}
			_, _, err = k.WithdrawPosition(cctx, owner, id, sd(q.liq))
		})
		if !ok || err != nil {
			o.Fail("solvency:cannot-exit", fmt.Sprintf("%s pos %d: %v", where, id, err))
		}
	}
	o.Count("solvency.full-exit-checked")
}
