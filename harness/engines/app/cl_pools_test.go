package app_test

// Engine `cl`, OTHER concentrated pools next to the pool under test (property C07): in a share of the histories one or
// more additional concentrated pools exist, with pool ids below and above the pool under test (also ids 1 / 10 / 11: the
// accumulator names and several store keys carry the pool id as a decimal string), with and without positions.  They are
// oracle-only (the Lean pool model is per pool: no op lines; position ids are global, so `clp setnextid` tells the model the
// next id after another pool created a position).  Now and then an op goes to one of them: create a position, withdraw
// one completely (the pool may become empty while pools with lower and higher ids hold positions), a small swap.
// Oracles after EVERY op, for EVERY pool: the `book:` oracle (oracleBookkeeping: positions = shadow, empty pool has no
// price / tick / liquidity, active liquidity = sum in range, stored ticks = position boundaries with their gross / net
// liquidity, price agrees with tick), and the frame oracle: an op on pool A changes nothing in pool B
//   frame:other-pool-changed:<pool|ticks|positions|balances|accumulators>

import (
	"fmt"
	"math/big"
	"sort"
	"strings"

	sdk "github.com/cosmos/cosmos-sdk/types"

	"github.com/osmosis-labs/osmosis/osmomath"
	cltypes "github.com/osmosis-labs/osmosis/v31/x/concentrated-liquidity/types"
)

type clExtra struct {
	poolId  uint64
	spacing int64
	spf     osmomath.Dec
	pos     map[uint64]*clPos
}

// addExtraPool creates one more concentrated pool (same denoms as the pool under test: the accounts are funded).
func (e *clEngine) addExtraPool(withPosition bool) {
	spacing := []int64{1, 10, 100, 1000}[e.r.Intn(4)]
	spf := cltypes.AuthorizedSpreadFactors[e.r.Intn(len(cltypes.AuthorizedSpreadFactors))]
	p := e.h.PrepareCustomConcentratedPool(e.accs[0], clDenom0, clDenom1, uint64(spacing), spf)
	x := &clExtra{poolId: p.GetId(), spacing: spacing, spf: spf, pos: map[uint64]*clPos{}}
	e.extra = append(e.extra, x)
	e.o.Count("pools.extra-created")
	if withPosition {
		e.extraCreate(x)
	}
}

// fillerPools: pools that only take up pool ids (so that the ids 1 / 10 / 11 coexist).
func (e *clEngine) fillerPools(n int) {
	for i := 0; i < n; i++ {
		e.h.PrepareCustomConcentratedPool(e.accs[0], clDenom0, clDenom1, 100, osmomath.ZeroDec())
	}
}

func (e *clEngine) extraCreate(x *clExtra) {
	k := e.h.App.ConcentratedLiquidityKeeper
	owner := e.r.Intn(3)
	lower, upper := cltypes.MinInitializedTick, cltypes.MaxTick
	if e.r.Intn(3) == 0 {
		n := int64(1 + e.r.Intn(1000))
		lower, upper = -n*x.spacing, n*x.spacing
		if len(x.pos) > 0 && e.r.Intn(2) == 0 { // possibly out of range
			lower, upper = upper, upper+n*x.spacing
		}
	}
	a0 := new(big.Int).Mul(big.NewInt(int64(1+e.r.Intn(1000))), pow10(6+e.r.Intn(6)))
	a1 := new(big.Int).Mul(big.NewInt(int64(1+e.r.Intn(1000))), pow10(6+e.r.Intn(6)))
	coins := sdk.NewCoins(sdk.NewCoin(clDenom0, osmomath.NewIntFromBigInt(a0)), sdk.NewCoin(clDenom1, osmomath.NewIntFromBigInt(a1)))
	err := e.atomic(func(ctx sdk.Context) error {
		data, err := k.CreatePosition(ctx, x.poolId, e.accs[owner], coins, osmomath.ZeroInt(), osmomath.ZeroInt(), lower, upper)
		if err == nil {
			x.pos[data.ID] = &clPos{id: data.ID, owner: owner, lower: data.LowerTick, upper: data.UpperTick, liq: data.Liquidity.BigInt()}
		}
		return err
	})
	if err != nil {
		e.o.Count("pools.extra-create.err")
		return
	}
	e.o.Count("pools.extra-create.ok")
	if e.resetDone { // position ids are global: the model's pool continues with the keeper's next id
		e.o.Emit(fmt.Sprintf("clp setnextid %d", k.GetNextPositionId(e.ctx())), "ok", true)
	}
}

func (e *clEngine) poolRelation(x *clExtra) string {
	if x.poolId < e.poolId {
		return "lower-id"
	}
	return "higher-id"
}

// otherPoolOp: one op on one of the additional pools; the pool under test (and every further pool) must not change.
func (e *clEngine) otherPoolOp() {
	k := e.h.App.ConcentratedLiquidityKeeper
	x := e.extra[e.r.Intn(len(e.extra))]
	before := e.poolSnapshot(e.poolId)
	others := map[uint64]map[string]string{}
	for _, y := range e.extra {
		if y != x {
			others[y.poolId] = e.poolSnapshot(y.poolId)
		}
	}
	sel := e.r.Intn(3)
	if len(x.pos) == 0 {
		sel = 0
	}
	switch sel {
	case 0:
		if len(x.pos) < 3 {
			e.extraCreate(x)
		}
	case 1: // complete withdrawal of one position (the pool may become empty)
		ids := make([]uint64, 0, len(x.pos))
		for id := range x.pos {
			ids = append(ids, id)
		}
		sort.Slice(ids, func(i, j int) bool { return ids[i] < ids[j] })
		q := x.pos[ids[e.r.Intn(len(ids))]]
		err := e.atomic(func(ctx sdk.Context) error {
			_, _, err := k.WithdrawPosition(ctx, e.accs[q.owner], q.id, sd(q.liq))
			return err
		})
		if err == nil {
			delete(x.pos, q.id)
			e.o.Count("pools.extra-withdraw-full.ok")
			if len(x.pos) == 0 {
				e.o.Count("pools.extra-emptied:" + e.poolRelation(x))
				if len(e.pos) > 0 {
					e.o.Count("pools.extra-emptied-while-pool-under-test-holds-positions:" + e.poolRelation(x))
				}
			}
		} else {
			e.o.Count("pools.extra-withdraw-full.err")
		}
	default:
		p, err := k.GetConcentratedPoolById(e.ctx(), x.poolId)
		if err == nil {
			in, out := clDenom0, clDenom1
			if e.r.Intn(2) == 0 {
				in, out = out, in
			}
			amt := big.NewInt(int64(1 + e.r.Intn(100000)))
			err = e.atomic(func(ctx sdk.Context) error {
				_, err := k.SwapExactAmountIn(ctx, e.accs[e.r.Intn(3)], p, sdk.NewCoin(in, osmomath.NewIntFromBigInt(amt)), out, osmomath.ZeroInt(), x.spf)
				return err
			})
		}
		if err == nil {
			e.o.Count("pools.extra-swap.ok")
		} else {
			e.o.Count("pools.extra-swap.err")
		}
	}
	e.frameCompare(e.poolId, before, "op on pool "+fmt.Sprint(x.poolId))
	for id, s := range others {
		e.frameCompare(id, s, "op on pool "+fmt.Sprint(x.poolId))
	}
}

// poolSnapshot: everything the keeper stores for one pool, by store class (read through the keeper's queries).
func (e *clEngine) poolSnapshot(poolId uint64) map[string]string {
	k := e.h.App.ConcentratedLiquidityKeeper
	out := map[string]string{}
	p, err := k.GetConcentratedPoolById(e.ctx(), poolId)
	if err != nil {
		out["pool"] = "err"
		return out
	}
	out["pool"] = fmt.Sprintf("%s %d %s %d", p.GetCurrentSqrtPrice().BigInt(), p.GetCurrentTick(), p.GetLiquidity().BigInt(), p.GetLastLiquidityUpdate().UnixNano())
	ticks, _ := k.GetAllInitializedTicksForPool(e.ctx(), poolId)
	var ts []string
	for _, t := range ticks {
		ts = append(ts, fmt.Sprintf("%d:%s", t.TickIndex, t.Info.String()))
	}
	out["ticks"] = strings.Join(ts, ";")
	var ps []string
	for _, a := range e.accs {
		qs, _ := k.GetUserPositions(e.ctx(), a, 0) // unfiltered (the keeper's pool filter misses pools with id >= 10: F84)
		for _, q := range qs {
			if q.PoolId == poolId {
				ps = append(ps, q.String())
			}
		}
	}
	sort.Strings(ps)
	out["positions"] = strings.Join(ps, ";")
	bk := e.h.App.BankKeeper
	out["balances"] = bk.GetAllBalances(e.ctx(), p.GetAddress()).String() + "|" + bk.GetAllBalances(e.ctx(), p.GetSpreadRewardsAddress()).String() + "|" + bk.GetAllBalances(e.ctx(), p.GetIncentivesAddress()).String()
	acc := ""
	if a, err := k.GetSpreadRewardAccumulator(e.ctx(), poolId); err == nil {
		acc = fmt.Sprintf("%s/%s", a.GetValue(), a.GetTotalShares())
	}
	if us, err := k.GetUptimeAccumulators(e.ctx(), poolId); err == nil {
		for _, u := range us {
			acc += fmt.Sprintf("|%s/%s", u.GetValue(), u.GetTotalShares())
		}
	}
	out["accumulators"] = acc
	return out
}

func (e *clEngine) frameCompare(poolId uint64, before map[string]string, what string) {
	after := e.poolSnapshot(poolId)
	for _, cls := range []string{"pool", "ticks", "positions", "balances", "accumulators"} {
		if before[cls] != after[cls] {
			e.o.Fail("frame:other-pool-changed:"+cls, fmt.Sprintf("op %d (%s): pool %d before %.300s after %.300s", e.opn, what, poolId, before[cls], after[cls]))
		} else {
			e.o.Count("frame.other-pool-unchanged:" + cls)
		}
	}
}

// extraSnapshots / extraFrame: the additional pools around an op on the pool under test.
func (e *clEngine) extraSnapshots() map[uint64]map[string]string {
	if len(e.extra) == 0 {
		return nil
	}
	s := map[uint64]map[string]string{}
	for _, x := range e.extra {
		s[x.poolId] = e.poolSnapshot(x.poolId)
	}
	return s
}

func (e *clEngine) extraFrame(s map[uint64]map[string]string) {
	for _, x := range e.extra {
		if b, ok := s[x.poolId]; ok {
			e.frameCompare(x.poolId, b, e.opClass+" on the pool under test")
		}
	}
}

// extraBookkeeping: the `book:` oracle for every additional pool.
func (e *clEngine) extraBookkeeping() {
	if len(e.extra) == 0 {
		return
	}
	mainId, mainPos := e.poolId, e.pos
	e.mainPool = mainId
	for _, x := range e.extra {
		e.poolId, e.pos = x.poolId, x.pos
		e.oracleBookkeeping()
		if len(x.pos) == 0 {
			e.o.Count("book.extra-pool-checked:empty:" + map[bool]string{true: "lower-id", false: "higher-id"}[x.poolId < mainId])
		} else {
			e.o.Count("book.extra-pool-checked:with-positions")
		}
	}
	e.poolId, e.pos = mainId, mainPos
	if len(e.pos) == 0 {
		for _, x := range e.extra {
			if len(x.pos) > 0 {
				e.o.Count("book.pool-under-test-empty-while-another-holds-positions:" + e.poolRelation(x))
			}
		}
	}
}
