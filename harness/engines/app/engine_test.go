package app_test

// One Go test binary for every engine that needs the full osmosis app (real
// keepers, bank, stores) through app/apptesting.KeeperTestHelper.  Selected by
// VERIF_ENGINE; output protocol identical to the pure engines.

import (
	"os"
	"testing"

	"github.com/osmosis-labs/osmosis/v31/app/apptesting"
)

type H struct {
	apptesting.KeeperTestHelper
}

func newH(t *testing.T) *H {
	h := &H{}
	h.SetT(t)
	h.Setup()
	return h
}

func TestEngine(t *testing.T) {
	engine := os.Getenv("VERIF_ENGINE")
	seed := int64(envInt("VERIF_SEED", 1))
	n := envInt("VERIF_OPS", 100)
	dir := os.Getenv("VERIF_OUT")
	if dir == "" {
		t.Skip("VERIF_OUT not set")
	}
	switch engine {
	case "mint":
		runMint(t, seed, n, dir)
	case "auth":
		runAuth(t, seed, n, dir)
	case "lockup":
		runLockup(t, seed, n, dir)
	case "gamm":
		runGamm(t, seed, n, dir)
	case "twap":
		runTwap(t, seed, n, dir)
	case "router":
		runRouter(t, seed, n, dir)
	case "incentives":
		runIncentives(t, seed, n, dir)
	case "superfluid":
		runSuperfluid(t, seed, n, dir)
	case "det":
		runDet(t, seed, n, dir)
	case "cl":
		runCL(t, seed, n, dir)
	case "pm":
		runPM(t, seed, n, dir)
	case "gammg":
		runGammG(t, seed, n, dir)
	default:
		t.Fatalf("unknown engine %q", engine)
	}
}
