package app_test

// Witness for the C03Limit finding against the REAL code (run with VERIF_WITNESS=1):
//   VERIF_WITNESS=1 ../.bin/app.test -test.run TestCLLimitWitness -test.v
// An exact-in swap with a caller-supplied price limit strictly inside a bucket and a positive spread factor ends BEYOND
// the limit (Lean: Props/C03Limit.price_passes_limit_witness, same state, same numbers).  No exported function of this
// tree passes a limit other than GetPriceLimit / 0, so the limit parameter is reached through a build-time export.

import (
	"os"
	"testing"

	sdk "github.com/cosmos/cosmos-sdk/types"

	"github.com/osmosis-labs/osmosis/osmomath"
	swapstrategy "github.com/osmosis-labs/osmosis/v31/x/concentrated-liquidity/swapstrategy"
)

func TestCLLimitWitness(t *testing.T) {
	if os.Getenv("VERIF_WITNESS") == "" {
		t.Skip("VERIF_WITNESS not set")
	}
	h := newH(t)
	h.Reset()
	k := h.App.ConcentratedLiquidityKeeper
	spf := osmomath.MustNewDecFromStr("0.001")
	for _, a := range h.TestAccs[:2] {
		h.FundAcc(a, sdk.NewCoins(sdk.NewCoin(clDenom0, osmomath.NewInt(1_000_000_000)), sdk.NewCoin(clDenom1, osmomath.NewInt(1_000_000_000)),
			sdk.NewCoin("uosmo", osmomath.NewInt(1_000_000_000_000))))
	}
	p := h.PrepareCustomConcentratedPool(h.TestAccs[0], clDenom0, clDenom1, 100, spf)
	id := p.GetId()
	if _, err := k.CreatePosition(h.Ctx, id, h.TestAccs[0], sdk.NewCoins(sdk.NewCoin(clDenom0, osmomath.NewInt(1_000_000)), sdk.NewCoin(clDenom1, osmomath.NewInt(1_000_000))),
		osmomath.ZeroInt(), osmomath.ZeroInt(), -1000, 1000); err != nil {
		t.Fatal(err)
	}
	if _, err := k.CreatePosition(h.Ctx, id, h.TestAccs[1], sdk.NewCoins(sdk.NewCoin(clDenom0, osmomath.NewInt(500_000)), sdk.NewCoin(clDenom1, osmomath.NewInt(500_000))),
		osmomath.ZeroInt(), osmomath.ZeroInt(), 0, 2000); err != nil {
		t.Fatal(err)
	}
	// one-for-zero (token1 in), price limit 1.00000008
	limit := osmomath.MustNewBigDecFromStr("1.00000008")
	sqrtLimit, err := swapstrategy.GetSqrtPriceLimit(limit, false)
	if err != nil {
		t.Fatal(err)
	}
	ain, aout, sp, err := k.VerifComputeOutAmtGivenIn(h.Ctx, id, sdk.NewCoin(clDenom1, osmomath.NewInt(101)), clDenom0, spf, limit)
	if err != nil {
		t.Fatal(err)
	}
	t.Logf("one-for-zero 101 in, limit sqrt %s: amountIn=%s amountOut=%s final sqrt price=%s", sqrtLimit, ain, aout, sp)
	if !sp.GT(sqrtLimit) {
		t.Fatalf("expected the final sqrt price beyond the limit")
	}
	if sp.String() != "1.000000040323313047567405822755534205" || ain.String() != "101" || aout.String() != "100" {
		t.Fatalf("differs from the Lean model: %s %s %s", sp, ain, aout)
	}
	// the partial fill: 1000 in stops exactly at the limit after charging 102
	ain, aout, sp, err = k.VerifComputeOutAmtGivenIn(h.Ctx, id, sdk.NewCoin(clDenom1, osmomath.NewInt(1000)), clDenom0, spf, limit)
	if err != nil {
		t.Fatal(err)
	}
	t.Logf("one-for-zero 1000 in: amountIn=%s amountOut=%s final sqrt price=%s", ain, aout, sp)
	if !sp.Equal(sqrtLimit) || ain.String() != "102" || aout.String() != "100" {
		t.Fatalf("differs from the Lean model: %s %s %s", sp, ain, aout)
	}
	// zero-for-one (token0 in), price limit 0.99999992
	limit = osmomath.MustNewBigDecFromStr("0.99999992")
	sqrtLimit, err = swapstrategy.GetSqrtPriceLimit(limit, true)
	if err != nil {
		t.Fatal(err)
	}
	ain, aout, sp, err = k.VerifComputeOutAmtGivenIn(h.Ctx, id, sdk.NewCoin(clDenom0, osmomath.NewInt(81)), clDenom1, spf, limit)
	if err != nil {
		t.Fatal(err)
	}
	t.Logf("zero-for-one 81 in, limit sqrt %s: amountIn=%s amountOut=%s final sqrt price=%s", sqrtLimit, ain, aout, sp)
	if !sp.LT(sqrtLimit) {
		t.Fatalf("expected the final sqrt price beyond the limit")
	}
	if sp.String() != "0.999999959570820994437460498185757681" || ain.String() != "81" || aout.String() != "80" {
		t.Fatalf("differs from the Lean model: %s %s %s", sp, ain, aout)
	}
}
