package app_test

// Engine `pm` (property C19): the KV store of x/poolmanager as a whole, driven through the REAL keeper
// (CreatePool over the real pool modules, SetParams, MsgSetDenomPairTakerFee, the taker-fee trackers, volume,
// taker-fee share agreements / registered alloyed pools / skim accumulators) with export -> import at random
// points: the REAL ExportGenesis -> JSON -> every key of the store deleted -> the REAL InitGenesis.  Every op
// line and a dump of the whole store after every op are replayed by Model/PoolManagerGenesis.lean
// (`initGenesis (exportGenesis s)` for `pm exportimport`).
//
// ORACLE (shares nothing with the model): the raw store before and after an import, key by key
// (pmJudgeStoreDiff in router_test.go), and GetTradingPairTakerFee against the engine's own book.

import (
	"fmt"
	"math/big"
	"math/rand"
	"os"
	"path/filepath"
	"sort"
	"strconv"
	"strings"
	"testing"

	sdk "github.com/cosmos/cosmos-sdk/types"

	"github.com/osmosis-labs/osmosis/osmomath"
	"github.com/osmosis-labs/osmosis/v31/app/apptesting"
	clmodel "github.com/osmosis-labs/osmosis/v31/x/concentrated-liquidity/model"
	"github.com/osmosis-labs/osmosis/v31/x/gamm/pool-models/balancer"
	"github.com/osmosis-labs/osmosis/v31/x/gamm/pool-models/stableswap"
	"github.com/osmosis-labs/osmosis/v31/x/poolmanager"
	pmtypes "github.com/osmosis-labs/osmosis/v31/x/poolmanager/types"
)

type pmEngine struct {
	t    *testing.T
	h    *H
	o    *Out
	r    *rand.Rand
	ms   pmtypes.MsgServer
	accs []sdk.AccAddress // acc0..acc3
	// the engine's own book of the fee configuration
	defFee *big.Int
	admins map[string]bool
	feeRef map[string]*big.Int
	pools  []uint64
	alloy  []uint64 // transmuter (alloyed asset) pools that can be registered
	repo   string
}

var pmDenoms = []string{"bar", "eth", "foo", "uosmo", "usdc"}
var pmShareDenoms = []string{"shra", "shrb", "axlusdc"}

func (e *pmEngine) accName(a string) string {
	for i, x := range e.accs {
		if x.String() == a {
			return fmt.Sprintf("acc%d", i)
		}
	}
	return "other"
}

func pmKV(m map[string]string) string {
	if len(m) == 0 {
		return "-"
	}
	ks := make([]string, 0, len(m))
	for k := range m {
		ks = append(ks, k)
	}
	sort.Strings(ks)
	var p []string
	for _, k := range ks {
		p = append(p, k+"="+m[k])
	}
	return strings.Join(p, ",")
}

func pmCoinsKV(cs []sdk.Coin) string {
	m := map[string]string{}
	for _, c := range cs {
		m[c.Denom] = c.Amount.String()
	}
	return pmKV(m)
}

// dump: every store of the module, read through the keeper's getters and (for the three stores without a list getter that keeps the
// keys) the raw prefix.
func (e *pmEngine) dump() string {
	k := e.h.App.PoolManagerKeeper
	ctx := e.h.Ctx
	p := k.GetParams(ctx)
	names := func(l []string) string {
		var n []string
		for _, a := range l {
			n = append(n, e.accName(a))
		}
		return strings.Join(n, ",")
	}
	routes, vols := map[string]string{}, map[string]string{}
	store := ctx.KVStore(e.h.App.GetKey(pmtypes.StoreKey))
	it := store.Iterator(pmtypes.SwapModuleRouterPrefix, []byte{pmtypes.SwapModuleRouterPrefix[0] + 1})
	for ; it.Valid(); it.Next() {
		id, _ := strconv.ParseUint(string(it.Key()[1:]), 10, 64)
		mr, err := pmtypes.ParseModuleRouteFromBz(it.Value())
		if err != nil {
			continue
		}
		key := fmt.Sprintf("%012d", id)
		routes[key] = fmt.Sprint(int32(mr.PoolType))
		vols[key] = "[" + pmCoinsKV(k.GetTotalVolumeForPool(ctx, id)) + "]"
	}
	it.Close()
	pairs := map[string]string{}
	pf, _ := k.GetAllTradingPairTakerFees(ctx)
	for _, f := range pf {
		pairs[f.TokenInDenom+"|"+f.TokenOutDenom] = f.TakerFee.BigInt().String()
	}
	ag := map[string]string{}
	ags, _ := k.GetAllTakerFeesShareAgreements(ctx)
	for _, a := range ags {
		ag[a.Denom] = a.SkimPercent.BigInt().String()
	}
	var al []uint64
	it = store.Iterator(pmtypes.KeyRegisteredAlloyPool, []byte{pmtypes.KeyRegisteredAlloyPool[0] + 1})
	for ; it.Valid(); it.Next() {
		parts := strings.Split(string(it.Key()), pmtypes.KeySeparator)
		if len(parts) >= 3 {
			id, _ := strconv.ParseUint(parts[len(parts)-2], 10, 64)
			al = append(al, id)
		}
	}
	it.Close()
	sort.Slice(al, func(i, j int) bool { return al[i] < al[j] })
	var als []string
	for _, id := range al {
		als = append(als, fmt.Sprint(id))
	}
	acc := map[string]string{}
	it = store.Iterator(pmtypes.TakerFeeSkimAccrualPrefix, []byte{pmtypes.TakerFeeSkimAccrualPrefix[0] + 1})
	for ; it.Valid(); it.Next() {
		parts := strings.Split(string(it.Key()), pmtypes.KeySeparator)
		var v sdk.IntProto
		if len(parts) == 3 && v.Unmarshal(it.Value()) == nil {
			acc[parts[1]+"|"+parts[2]] = v.Int.String()
		}
	}
	it.Close()
	return fmt.Sprintf("next=%d default=%s wl=[%s] admins=[%s] cfee=[%s] routes=[%s] pairs=[%s] stakers=[%s] community=[%s] burn=[%s] height=%d volumes=[%s] agreements=[%s] alloyed=[%s] accrued=[%s]",
		k.GetNextPoolId(ctx), p.TakerFeeParams.DefaultTakerFee.BigInt(), names(p.TakerFeeParams.ReducedFeeWhitelist), names(p.TakerFeeParams.AdminAddresses),
		pmCoinsKV(p.PoolCreationFee), pmKV(routes), pmKV(pairs), pmCoinsKV(k.GetTakerFeeTrackerForStakers(ctx)), pmCoinsKV(k.GetTakerFeeTrackerForCommunityPool(ctx)),
		pmCoinsKV(k.GetTakerFeeTrackerForBurn(ctx)), k.GetTakerFeeTrackerStartHeight(ctx), pmKV(vols), pmKV(ag), strings.Join(als, ","), pmKV(acc))
}

func (e *pmEngine) emit(line, obs string) {
	e.o.Emit(line, obs, true)
	e.o.Emit("pm dump", e.dump(), false)
}

// atomic: a state-changing call in a cache context written back on success only; a panic is an error.
func (e *pmEngine) atomic(f func(ctx sdk.Context) error) error {
	cctx, write := e.h.Ctx.CacheContext()
	var err error
	if !catch(func() { err = f(cctx) }) {
		return fmt.Errorf("panic")
	}
	if err == nil {
		write()
	}
	return err
}

func (e *pmEngine) randFee() *big.Int {
	switch e.r.Intn(8) {
	case 0:
		return big.NewInt(0)
	case 1:
		return pow10(15)
	case 2:
		return pow10(16)
	case 3:
		return new(big.Int).Rand(e.r, pow10(17))
	case 4:
		return big.NewInt(int64(1 + e.r.Intn(1000)))
	case 5:
		return pow10(18) // 100%: a valid default, a valid override for the keeper (the message's ValidateBasic is not the keeper's)
	default:
		return new(big.Int).Mul(big.NewInt(int64(1+e.r.Intn(99))), pow10(14))
	}
}

func (e *pmEngine) randCoinsStr(max int) (sdk.Coins, string) {
	cs := sdk.Coins{}
	for i, n := 0, e.r.Intn(max+1); i < n; i++ {
		cs = cs.Add(sdk.NewInt64Coin(pmDenoms[e.r.Intn(len(pmDenoms))], int64(1+e.r.Intn(100000))))
	}
	if len(cs) == 0 {
		return cs, "-"
	}
	var p []string
	for _, c := range cs {
		p = append(p, c.Denom+":"+c.Amount.String())
	}
	return cs, strings.Join(p, ",")
}

func (e *pmEngine) opParams(valid bool) {
	k := e.h.App.PoolManagerKeeper
	def := e.randFee()
	if !valid {
		def = []*big.Int{big.NewInt(-1), new(big.Int).Add(pow10(18), big.NewInt(1)), new(big.Int).Neg(pow10(17))}[e.r.Intn(3)]
	} else if len(e.feeRef) > 0 && e.r.Intn(3) == 0 {
		// move the default ONTO a stored override: the override is now stale (equal to the default) but stays in the store
		for _, key := range sortedBigKeys(e.feeRef) {
			def = new(big.Int).Set(e.feeRef[key])
			e.o.Count("params.default-moved-onto-override")
			break
		}
	}
	var wl, adm, wln, admn []string
	for i, a := range e.accs {
		if e.r.Intn(3) == 0 {
			wl, wln = append(wl, a.String()), append(wln, fmt.Sprintf("acc%d", i))
		}
		if e.r.Intn(2) == 0 {
			adm, admn = append(adm, a.String()), append(admn, fmt.Sprintf("acc%d", i))
		}
	}
	if wl == nil {
		wl = []string{}
	}
	if adm == nil {
		adm = []string{}
	}
	fee, feeStr := e.randCoinsStr(2)
	line := fmt.Sprintf("pm params %s %s %s %s", def, joinOrDash(wln), joinOrDash(admn), feeStr)
	err := e.atomic(func(ctx sdk.Context) error {
		p := k.GetParams(ctx)
		p.TakerFeeParams.DefaultTakerFee = sd(def)
		p.TakerFeeParams.ReducedFeeWhitelist = wl
		p.TakerFeeParams.AdminAddresses = adm
		p.PoolCreationFee = fee
		k.SetParams(ctx, p) // panics on a value its validator rejects
		return nil
	})
	if err != nil {
		e.emit(line, "err")
		e.o.Count("params.err")
		if valid {
			e.o.Fail("harness:pm-params-rejected", line)
		}
		return
	}
	if !valid {
		e.o.Fail("pm:invalid-default-taker-fee-accepted", line)
	}
	e.defFee = def
	e.admins = map[string]bool{}
	for _, a := range admn {
		e.admins[a] = true
	}
	e.emit(line, "ok")
	e.o.Count("params.ok")
}

func sortedBigKeys(m map[string]*big.Int) []string {
	ks := make([]string, 0, len(m))
	for k := range m {
		ks = append(ks, k)
	}
	sort.Strings(ks)
	return ks
}

func (e *pmEngine) opCreatePool(ty int) {
	h := e.h
	k := h.App.PoolManagerKeeper
	owner := e.accs[0]
	var id uint64
	err := e.atomic(func(ctx sdk.Context) error {
		fee := k.GetParams(ctx).PoolCreationFee
		fund := sdk.NewCoins(sdk.NewInt64Coin("bar", 10_000_000), sdk.NewInt64Coin("foo", 10_000_000), sdk.NewInt64Coin("usdc", 10_000_000), sdk.NewInt64Coin("eth", 10_000_000)).Add(fee...)
		if err := h.App.BankKeeper.MintCoins(ctx, "mint", fund); err != nil {
			return err
		}
		if err := h.App.BankKeeper.SendCoinsFromModuleToAccount(ctx, "mint", owner, fund); err != nil {
			return err
		}
		var msg pmtypes.CreatePoolMsg
		switch ty {
		case 0:
			msg = balancer.NewMsgCreateBalancerPool(owner, balancer.PoolParams{SwapFee: osmomath.ZeroDec(), ExitFee: osmomath.ZeroDec()},
				[]balancer.PoolAsset{{Weight: osmomath.NewInt(1), Token: sdk.NewInt64Coin("bar", 1_000_000)}, {Weight: osmomath.NewInt(2), Token: sdk.NewInt64Coin("foo", 2_000_000)}}, "")
		case 1:
			msg = stableswap.NewMsgCreateStableswapPool(owner, stableswap.PoolParams{SwapFee: osmomath.ZeroDec(), ExitFee: osmomath.ZeroDec()},
				sdk.NewCoins(sdk.NewInt64Coin("bar", 1_000_000), sdk.NewInt64Coin("usdc", 1_000_000)), []uint64{1, 1}, "")
		default:
			msg = clmodel.NewMsgCreateConcentratedPool(owner, "eth", "usdc", 100, osmomath.ZeroDec())
		}
		var err error
		id, err = k.CreatePool(ctx, msg)
		return err
	})
	line := fmt.Sprintf("pm createpool %d", ty)
	if err != nil {
		e.o.Fail("harness:pm-createpool", fmt.Sprintf("%s: %v", line, err))
		return
	}
	e.pools = append(e.pools, id)
	e.emit(line, fmt.Sprintf("ok %d", id))
	e.o.Count(fmt.Sprintf("createpool.%d", ty))
}

// a transmuter pool with an alloyed asset (pool type 3) through the repository's own helper; the wasm byte code is read from
// <repo>/x/cosmwasmpool/bytecode (the helper locates it relative to the working directory).
func (e *pmEngine) opCreateAlloyedPool() {
	h := e.h
	fee := h.App.PoolManagerKeeper.GetParams(h.Ctx).PoolCreationFee
	h.FundAcc(h.TestAccs[0], fee)
	pool := h.PrepareCustomTransmuterPoolV3CustomProject(h.TestAccs[0], []string{apptesting.DefaultTransmuterDenomA, apptesting.DefaultTransmuterDenomB}, []uint16{1, 1},
		filepath.Base(e.repo), "x/cosmwasmpool/bytecode")
	e.pools = append(e.pools, pool.GetId())
	e.alloy = append(e.alloy, pool.GetId())
	e.emit("pm createpool 3", fmt.Sprintf("ok %d", pool.GetId()))
	e.o.Count("createpool.3")
}

func (e *pmEngine) opPairFee() {
	sender := e.r.Intn(len(e.accs))
	ds := e.r.Perm(len(pmDenoms))
	a, b := pmDenoms[ds[0]], pmDenoms[ds[1]]
	f := e.randFee()
	if e.r.Intn(5) == 0 && e.defFee != nil {
		f = new(big.Int).Set(e.defFee) // equal to the default: the setter deletes
	}
	line := fmt.Sprintf("pm pairfee acc%d %s %s %s", sender, a, b, f)
	err := e.atomic(func(ctx sdk.Context) error {
		_, err := e.ms.SetDenomPairTakerFee(ctx, &pmtypes.MsgSetDenomPairTakerFee{Sender: e.accs[sender].String(),
			DenomPairTakerFee: []pmtypes.DenomPairTakerFee{{TokenInDenom: a, TokenOutDenom: b, TakerFee: sd(f)}}})
		return err
	})
	isAdmin := e.admins[fmt.Sprintf("acc%d", sender)]
	if (err == nil) != isAdmin {
		e.o.Fail("pm:pairfee-admin-guard", fmt.Sprintf("%s: err=%v admin=%v", line, err, isAdmin))
	}
	if err != nil {
		e.emit(line, "err")
		e.o.Count("pairfee.err")
		return
	}
	if f.Cmp(e.defFee) == 0 {
		delete(e.feeRef, a+">"+b)
		e.o.Count("pairfee.equal-to-default")
	} else {
		e.feeRef[a+">"+b] = f
	}
	e.emit(line, "ok")
	e.o.Count("pairfee.ok")
}

func (e *pmEngine) opFee() {
	k := e.h.App.PoolManagerKeeper
	ds := e.r.Perm(len(pmDenoms))
	a, b := pmDenoms[ds[0]], pmDenoms[ds[1]]
	if len(e.feeRef) > 0 && e.r.Intn(2) == 0 {
		ks := sortedBigKeys(e.feeRef)
		p := strings.Split(ks[e.r.Intn(len(ks))], ">")
		a, b = p[0], p[1]
	}
	f, err := k.GetTradingPairTakerFee(e.h.Ctx, a, b)
	if err != nil {
		e.o.Emit(fmt.Sprintf("pm fee %s %s", a, b), "err", true)
		return
	}
	e.o.Emit(fmt.Sprintf("pm fee %s %s", a, b), "ok "+f.BigInt().String(), true)
	want := e.defFee
	if v, ok := e.feeRef[a+">"+b]; ok {
		want = v
	}
	if f.BigInt().Cmp(want) != 0 {
		e.o.Fail("pm:fee-in-force!=configured", fmt.Sprintf("fee %s %s = %s, book %s", a, b, f.BigInt(), want))
	}
}

func (e *pmEngine) opTrack() {
	k := e.h.App.PoolManagerKeeper
	kind := []string{"s", "c", "b"}[e.r.Intn(3)]
	d := pmDenoms[e.r.Intn(len(pmDenoms))]
	x := int64(e.r.Intn(100000))
	if e.r.Intn(6) == 0 {
		x = 0 // a zero entry is a stored entry
	}
	err := e.atomic(func(ctx sdk.Context) error {
		switch kind {
		case "s":
			return k.UpdateTakerFeeTrackerForStakersByDenom(ctx, d, osmomath.NewInt(x))
		case "c":
			return k.UpdateTakerFeeTrackerForCommunityPoolByDenom(ctx, d, osmomath.NewInt(x))
		}
		return k.UpdateTakerFeeTrackerForBurnByDenom(ctx, d, osmomath.NewInt(x))
	})
	line := fmt.Sprintf("pm track %s %s %d", kind, d, x)
	if err != nil {
		e.o.Fail("harness:pm-track", line+": "+err.Error())
		return
	}
	e.emit(line, "ok")
	e.o.Count("track." + kind)
}

func (e *pmEngine) opHeight() {
	hgt := int64(e.r.Intn(1000000))
	e.h.App.PoolManagerKeeper.SetTakerFeeTrackerStartHeight(e.h.Ctx, hgt)
	e.emit(fmt.Sprintf("pm height %d", hgt), "ok")
}

func (e *pmEngine) opVolume() {
	k := e.h.App.PoolManagerKeeper
	id := uint64(1 + e.r.Intn(len(e.pools)+2))
	if len(e.pools) > 0 && e.r.Intn(5) != 0 {
		id = e.pools[e.r.Intn(len(e.pools))]
	}
	d := []string{"uosmo", "uosmo", "usdc"}[e.r.Intn(3)]
	x := int64(1 + e.r.Intn(1000000))
	line := fmt.Sprintf("pm volume %d %s %d", id, d, x)
	// trackVolume runs inside a swap, after the pool's module was resolved through its route (GetPoolModule)
	if _, err := k.GetPoolModule(e.h.Ctx, id); err != nil {
		e.emit(line, "err")
		e.o.Count("volume.no-route")
		return
	}
	if err := e.atomic(func(ctx sdk.Context) error { k.VerifAddVolume(ctx, id, sdk.NewInt64Coin(d, x)); return nil }); err != nil {
		e.o.Fail("harness:pm-volume", line)
		return
	}
	e.emit(line, "ok")
	e.o.Count("volume.ok")
}

func (e *pmEngine) opAgreement() {
	gov := e.h.App.AccountKeeper.GetModuleAddress("gov").String()
	d := pmShareDenoms[e.r.Intn(len(pmShareDenoms))]
	pct := int64(1 + e.r.Intn(99))
	raw := new(big.Int).Mul(big.NewInt(pct), pow10(16))
	line := fmt.Sprintf("pm agreement %s %s", d, raw)
	err := e.atomic(func(ctx sdk.Context) error {
		_, err := e.ms.SetTakerFeeShareAgreementForDenom(ctx, &pmtypes.MsgSetTakerFeeShareAgreementForDenom{Sender: gov, Denom: d, SkimPercent: sd(raw), SkimAddress: e.accs[3].String()})
		return err
	})
	if err != nil {
		e.o.Fail("harness:pm-agreement", line+": "+err.Error())
		// the message mutates an in-memory map before it can fail: resynchronise it with the (unchanged) store
		e.h.App.PoolManagerKeeper.VerifRestartShareCaches(e.h.Ctx)
		return
	}
	e.emit(line, "ok")
	e.o.Count("agreement")
}

func (e *pmEngine) opAlloyed() {
	if len(e.alloy) == 0 {
		return
	}
	id := e.alloy[e.r.Intn(len(e.alloy))]
	line := fmt.Sprintf("pm alloyed %d", id)
	err := e.atomic(func(ctx sdk.Context) error { return e.h.App.PoolManagerKeeper.VerifSetRegisteredAlloyedPool(ctx, id) })
	if err != nil {
		e.o.Fail("harness:pm-alloyed", line+": "+err.Error())
		e.h.App.PoolManagerKeeper.VerifRestartShareCaches(e.h.Ctx)
		return
	}
	e.emit(line, "ok")
	e.o.Count("alloyed")
}

func (e *pmEngine) opAccrue() {
	sd0 := pmShareDenoms[e.r.Intn(len(pmShareDenoms))]
	fd := pmDenoms[e.r.Intn(len(pmDenoms))]
	x := int64(1 + e.r.Intn(100000))
	line := fmt.Sprintf("pm accrue %s %s %d", sd0, fd, x)
	if err := e.atomic(func(ctx sdk.Context) error {
		return e.h.App.PoolManagerKeeper.VerifIncreaseAccrued(ctx, sd0, fd, osmomath.NewInt(x))
	}); err != nil {
		e.o.Fail("harness:pm-accrue", line+": "+err.Error())
		return
	}
	e.emit(line, "ok")
	e.o.Count("accrue")
}

func (e *pmEngine) opExportImport() {
	pre := pmRawStore(e.h, e.h.Ctx)
	ok, msg := pmExportImportReal(e.h)
	if !ok {
		e.emit("pm exportimport", "panic")
		e.o.Fail("export-import:poolmanager:panics", msg)
		return
	}
	e.emit("pm exportimport", "ok")
	e.o.Count("exportimport")
	post := pmRawStore(e.h, e.h.Ctx)
	for _, p := range pmJudgeStoreDiff(e.o, e.h, pre, post, e.defFee, "") {
		delete(e.feeRef, p)
		e.o.Count("exportimport.override-equal-to-default-dropped")
	}
	for _, key := range sortedBigKeys(e.feeRef) {
		p := strings.Split(key, ">")
		f, _ := e.h.App.PoolManagerKeeper.GetTradingPairTakerFee(e.h.Ctx, p[0], p[1])
		e.o.Emit(fmt.Sprintf("pm fee %s %s", p[0], p[1]), "ok "+f.BigInt().String(), true)
		if f.BigInt().Cmp(e.feeRef[key]) != 0 {
			e.o.Fail("export-import:poolmanager:override-lost", fmt.Sprintf("%s: %s before, %s after the import (default %s)", key, e.feeRef[key], f.BigInt(), e.defFee))
		}
	}
}

func runPM(t *testing.T, seed int64, n int, dir string) {
	r := rand.New(rand.NewSource(seed))
	o := NewOut(dir)
	h := newH(t)
	repo := os.Getenv("VERIF_REPO")
	if repo == "" {
		repo = "/repo"
	}
	repo, _ = filepath.Abs(repo)
	haveWasm := os.Chdir(filepath.Join(repo, "x")) == nil // the transmuter helper finds the byte code relative to the working directory
	if _, err := os.Stat(filepath.Join(repo, "x/cosmwasmpool/bytecode/transmuter_v3.wasm")); err != nil {
		haveWasm = false
	}
	done := 0
	for done < n {
		h.Reset()
		k := h.App.PoolManagerKeeper
		k.VerifRestartShareCaches(h.Ctx)
		e := &pmEngine{t: t, h: h, o: o, r: r, repo: repo, ms: poolmanager.NewMsgServerImpl(k), feeRef: map[string]*big.Int{}, admins: map[string]bool{}}
		e.accs = append(append([]sdk.AccAddress{}, h.TestAccs[:3]...), sdk.AccAddress([]byte("pmengineacc3________")))
		if nx := k.GetNextPoolId(h.Ctx); nx != 1 {
			t.Fatalf("fresh chain with next pool id %d", nx)
		}
		o.Emit("pm reset", "ok", false)
		o.Count("histories")
		// the test app's genesis is not the model's empty chain: params and accounting height are set explicitly
		e.opParams(true)
		e.opHeight()
		if haveWasm && r.Intn(3) == 0 {
			e.opCreateAlloyedPool()
		}
		nops := 25 + r.Intn(50)
		for i := 0; i < nops && done < n; i++ {
			done++
			switch x := r.Intn(100); {
			case x < 10:
				if len(e.pools) < 8 {
					e.opCreatePool(r.Intn(3))
				}
			case x < 18:
				e.opParams(r.Intn(6) != 0)
			case x < 36:
				e.opPairFee()
			case x < 46:
				e.opTrack()
			case x < 49:
				e.opHeight()
			case x < 60:
				e.opVolume()
			case x < 67:
				e.opAgreement()
			case x < 71:
				e.opAlloyed()
			case x < 77:
				e.opAccrue()
			case x < 88:
				e.opExportImport()
			default:
				e.opFee()
			}
		}
	}
	o.Close(nil)
}
