package app_test

// Keeper tail of the `lockup` engine (property C06).  After the model-checked part of a history (messages, EndBlocker
// withdrawal, CL share locks — every line of which the Lean model replays) a short ORACLE-ONLY tail drives the part of
// x/lockup's keeper API that only other modules call and that the model leaves out: synthetic locks
// (Create/DeleteSyntheticLockup, DeleteAllMaturedSyntheticLocks — the first half of the real EndBlocker), keeper
// ForceUnlock (which breaks a synthetic lock), BeginForceUnlock (ignores it), SlashTokensFromLockByID and its CL-share
// variant, AddTokensToLockByID on a lock with a synthetic lock, the two accumulation-store rebuilds of the upgrade
// handlers, and the messages that must be REFUSED while a synthetic lock exists.  Nothing is emitted to the model (the
// next history starts with `reset`); every oracle of the engine keeps running from the same shadow list, plus the
// synthetic-lock oracle below.
//
// Callers' contract kept by the generator (x/superfluid's usage): a synthetic lock is created on a lock that is not
// unlocking, with a duration <= the lock's; BeginForceUnlock is used on locks without a synthetic lock or with an
// unlocking one; a lock is never slashed completely.

import (
	"fmt"
	"sort"
	"strings"
	"time"

	sdk "github.com/cosmos/cosmos-sdk/types"

	"github.com/osmosis-labs/osmosis/osmomath"
	lockuptypes "github.com/osmosis-labs/osmosis/v31/x/lockup/types"
)

type shSynth struct {
	denom string
	base  string // denomination of the underlying lock
	dur   int64
	end   int64 // 0 = not unlocking
}

// accumulation of a synthetic denomination as the CODE books it (for classifying a deviation, never as the reference)
func (e *lockupEnv) codedAdd(sd string, key int64, units int64) {
	if e.synthCoded[sd] == nil {
		e.synthCoded[sd] = map[int64]int64{}
	}
	e.synthCoded[sd][key] += units
}

// synthetic-lock oracle.  Reference = the meaning RebuildSuperfluidAccumulationStoresForDenom gives the store: the
// accumulation of a synthetic denomination for "at least d" is the sum, over the LIVE synthetic locks of that
// denomination with synthetic duration >= d, of the underlying lock's current amount.
func (e *lockupEnv) synthOracle(op string) {
	k := e.h.App.LockupKeeper
	// records
	var got, want []string
	if !catch(func() {
		for _, sl := range k.GetAllSyntheticLockups(e.ctx()) {
			got = append(got, fmt.Sprintf("%d/%s/%d/%d", sl.UnderlyingLockId, sl.SynthDenom, int64(sl.Duration), endOf(sl.EndTime)))
		}
	}) {
		e.o.Fail("synthlocks:query-panicked", fmt.Sprintf("after %s%s", op, e.histStr()))
	}
	for id, sy := range e.synth {
		want = append(want, fmt.Sprintf("%d/%s/%d/%d", id, sy.denom, sy.dur, sy.end))
	}
	sort.Strings(got)
	sort.Strings(want)
	if strings.Join(got, " ") != strings.Join(want, " ") {
		e.o.Fail("synthlocks:records:after-"+op, fmt.Sprintf("store %v expected %v%s", got, want, e.histStr()))
	}
	for id := range e.synth {
		if _, ok := e.shadow[id]; !ok {
			e.o.Fail("synthlocks:dangling:after-"+op, fmt.Sprintf("synthetic lock of withdrawn lock %d%s", id, e.histStr()))
		}
	}
	// accumulations
	pts := e.accumPoints()
	var sds []string
	for sd := range e.synthDenoms {
		sds = append(sds, sd)
	}
	sort.Strings(sds)
	for _, sd := range sds {
		base := e.synthBase[sd]
		for _, d := range pts {
			var intent, coded int64
			if d >= 0 {
				for id, sy := range e.synth {
					if sy.denom == sd && sy.dur >= d {
						if l, ok := e.shadow[id]; ok {
							intent += l.amt
						}
					}
				}
				for key, a := range e.synthCoded[sd] {
					if key >= d {
						coded += a
					}
				}
			}
			if intent != coded && e.synthCause[sd] == "" {
				e.synthCause[sd] = e.pendingCause
				if e.pendingCause == "" {
					e.synthCause[sd] = "unexplained"
				}
				e.o.Count("tail.synthetic-accumulation-drift." + e.synthCause[sd])
			}
			var real osmomath.Int
			if !catch(func() { real = e.accum(sd, d) }) {
				e.o.Fail("synthaccum:query-panicked", fmt.Sprintf("after %s: accumulation(%s, >=%d) panicked%s", op, sd, d, e.histStr()))
				continue
			}
			if real.Equal(e.real(base, intent)) {
				continue
			}
			key := "synthaccum:after-" + op
			if real.Equal(e.real(base, coded)) && e.synthCause[sd] != "" && e.synthCause[sd] != "unexplained" {
				key = "synthaccum:drift:" + e.synthCause[sd]
			} else if e.accWiped["synth:"+sd] {
				key = "synthaccum:drift:store-cleared-by-rebuild-of-prefix-denom"
			}
			e.o.Fail(key, fmt.Sprintf("after %s: accumulation(%s, duration>=%d) = %s, live synthetic locks' underlying amounts sum to %s%s",
				op, sd, d, real, e.real(base, intent), e.histStr()))
		}
	}
	e.pendingCause = ""
}

func (e *lockupEnv) keeperTail(steps int, lastID *uint64, ms lockuptypes.MsgServer) {
	k := e.h.App.LockupKeeper
	o, r, h := e.o, e.r, e.h
	e.synth = map[uint64]*shSynth{}
	e.synthDenoms = map[string]bool{}
	e.synthCoded = map[string]map[int64]int64{}
	e.synthCause = map[string]string{}
	e.synthBase = map[string]string{}
	e.pendingCause = ""
	o.Count("tail.histories")
	ops := []string{"synthcreate", "synthdelete", "addtolock", "slash", "keeperforceunlock", "beginforceunlock", "endblock", "rebuild", "refused", "lock", "exportimport"}
	weights := []int{22, 10, 8, 12, 8, 12, 10, 4, 8, 6, 9}
	// the history's "unbonding time": x/superfluid gives EVERY synthetic lock the staking unbonding time, whatever the
	// duration of the lock underneath; one of the two shortest durations of the history plays that part
	U := e.durs[r.Intn(min(2, len(e.durs)))]
	suffixes := []string{"/superbonding/v1", "/superbonding/v2", "/superunbonding/v1"}
	// directed opener of about every second tail: a CLUSTER of 2..4 synthetic locks of ONE synthetic denomination, all
	// lasting U, on locks of whatever durations (created when there are too few): the shape two delegators of one
	// validator produce.  One bucket of that denomination's accumulation tree is then a sum over several locks.
	clusterLeft, clusterDenom, clusterSD := 0, "", ""
	if r.Intn(100) < 60 {
		clusterLeft = 2 + r.Intn(3)
		elig := map[string]int{}
		for _, l := range e.shadow {
			if l.end == 0 {
				elig[l.denom]++
			}
		}
		for _, dn := range e.denoms {
			if elig[dn] > elig[clusterDenom] || clusterDenom == "" && !isCLDenom(dn) {
				clusterDenom = dn
			}
		}
		if r.Intn(3) == 0 || clusterDenom == "" {
			var base []string
			for _, dn := range e.denoms {
				if !isCLDenom(dn) {
					base = append(base, dn)
				}
			}
			clusterDenom = base[r.Intn(len(base))]
		}
		clusterSD = clusterDenom + suffixes[r.Intn(3)]
		for _, real := range e.denoms { // never the name of a real denomination of the alphabet (see synthcreate below)
			if real == clusterSD {
				clusterSD = clusterDenom + "/superbonding/v3"
				o.Count("tail.cluster.name-of-a-real-denom-avoided")
			}
		}
		steps += clusterLeft + 2
		o.Count("tail.cluster.histories")
	}
	exported := false
	for i := 0; i < steps; i++ {
		e.advance()
		now := e.now
		op := pickWeighted(r, ops, weights)
		forcedLockDenom := ""
		if clusterLeft > 0 {
			op = "synthcreate"
			if e.randLock(func(l *shLock) bool { return e.synth[l.id] == nil && l.end == 0 && l.denom == clusterDenom }) == nil {
				if isCLDenom(clusterDenom) {
					clusterLeft = 0
					op = pickWeighted(r, ops, weights)
				} else {
					op, forcedLockDenom = "lock", clusterDenom
				}
			}
		} else if i == steps-1 && !exported && len(e.synth) > 0 {
			op = "exportimport" // every tail that still has synthetic locks ends with an export/import point
		}
		before := map[string]int64{}
		for _, nm := range e.names {
			for _, d := range e.denoms {
				before[nm+"/"+d] = e.bal(nm, d)
			}
		}
		exp := map[string]int64{} // expected balance movement owner/denom -> units
		line, res := op, "err"
		withSynth := func(p func(l *shLock, sy *shSynth) bool) *shLock {
			return e.randLock(func(l *shLock) bool { sy := e.synth[l.id]; return sy != nil && p(l, sy) })
		}
		noSynth := func(p func(l *shLock) bool) *shLock {
			return e.randLock(func(l *shLock) bool { return e.synth[l.id] == nil && p(l) })
		}
		switch op {
		case "synthcreate":
			inCluster := clusterLeft > 0
			l := noSynth(func(l *shLock) bool { return l.end == 0 && (!inCluster || l.denom == clusterDenom) })
			if l == nil {
				break
			}
			id := l.id
			if !inCluster && r.Intn(12) == 0 { // a lock that already has one
				if l2 := withSynth(func(*shLock, *shSynth) bool { return true }); l2 != nil {
					l, id = l2, l2.id
				}
			}
			sd := l.denom + suffixes[r.Intn(3)]
			if !inCluster && r.Intn(2) == 0 { // join a synthetic denomination of this denomination that is already in use
				var used []string
				for x := range e.synthDenoms {
					if strings.HasPrefix(x, l.denom+"/super") {
						used = append(used, x)
					}
				}
				sort.Strings(used)
				if len(used) > 0 {
					sd = used[r.Intn(len(used))]
				}
			}
			// a synthetic denomination is a NAME in the same index and accumulation namespace as the real ones; superfluid
			// derives it from share denominations nobody can extend, so it never equals a real denomination: kept so here
			// (the +names alphabet has real coins called bar/superbonding/v1, foo/superunbonding/v1)
			for _, real := range e.denoms {
				if real == sd {
					sd = l.denom + "/superbonding/v3"
					o.Count("tail.synthcreate.name-of-a-real-denom-avoided")
				}
			}
			u := l.dur
			if inCluster {
				sd, u = clusterSD, U
				clusterLeft--
				o.Count("tail.cluster.synthcreate")
			} else if r.Intn(5) < 2 {
				u = U
			} else if r.Intn(5) < 2 { // a shorter synthetic duration (superfluid: the staking unbonding time <= lock duration)
				var shorter []int64
				for d := range e.durEver {
					if d > 0 && d < l.dur {
						shorter = append(shorter, d)
					}
				}
				sort.Slice(shorter, func(i, j int) bool { return shorter[i] < shorter[j] })
				if len(shorter) > 0 {
					u = shorter[r.Intn(len(shorter))]
				} else {
					u = l.dur - 1
				}
			}
			unl := r.Intn(2) == 0
			if inCluster {
				unl = strings.Contains(sd, "/superunbonding") && u <= l.dur
			} else if r.Intn(15) == 0 {
				u = l.dur + 1 // refused when unlocking
			}
			line = fmt.Sprintf("synthcreate %d %d %s %d %v", now, id, sd, u, unl)
			ok := e.runTx(func(c sdk.Context) error { return k.CreateSyntheticLockup(c, id, sd, time.Duration(u), unl) })
			expOK := e.synth[id] == nil && (!unl || u <= l.dur)
			if ok != expOK {
				o.Fail("synthcreate:result-differs", fmt.Sprintf("%s: accepted=%v expected=%v%s", line, ok, expOK, e.histStr()))
			}
			if ok {
				res = "ok"
				sy := &shSynth{denom: sd, base: l.denom, dur: u}
				e.synthBase[sd] = l.denom
				if unl {
					sy.end = now + u
					e.noteTime(sy.end)
				}
				e.synth[id] = sy
				e.synthDenoms[sd] = true
				e.noteDur(u)
				e.codedAdd(sd, u, l.amt)
				o.Count("tail.synthcreate." + map[bool]string{true: "duration-equals-lock", false: "duration-differs-from-lock"}[u == l.dur])
				if e.dclass[l.denom] != "" {
					o.Count("tail.synthcreate.on-related-name." + e.dclass[l.denom])
				}
			}
		case "synthdelete":
			l := withSynth(func(*shLock, *shSynth) bool { return true })
			if l == nil {
				break
			}
			sy := e.synth[l.id]
			sd := sy.denom
			if r.Intn(10) == 0 {
				sd = l.denom + "/superbonding/v9"
			}
			line = fmt.Sprintf("synthdelete %d %d %s", now, l.id, sd)
			ok := e.runTx(func(c sdk.Context) error { return k.DeleteSyntheticLockup(c, l.id, sd) })
			if ok != (sd == sy.denom) {
				o.Fail("synthdelete:result-differs", fmt.Sprintf("%s: accepted=%v%s", line, ok, e.histStr()))
			}
			if ok {
				res = "ok"
				e.codedAdd(sd, sy.dur, -l.amt) // the code decreases at the SYNTHETIC lock's duration (repo fix a5a45987b4; before it: the lock's)
				delete(e.synth, l.id)
			}
		case "addtolock":
			l := withSynth(func(l *shLock, _ *shSynth) bool { return !e.isShare(l.denom) })
			if l == nil || r.Intn(4) == 0 {
				l = e.randLock(func(l *shLock) bool { return !e.isShare(l.denom) })
			}
			if l == nil {
				break
			}
			amt := int64(1 + r.Intn(50))
			line = fmt.Sprintf("addtolock %d %d %s %s", now, l.id, l.owner, e.coin(l.denom, amt))
			ok := e.runTx(func(c sdk.Context) error {
				_, err := k.AddTokensToLockByID(c, l.id, e.addrs[l.owner], e.coin(l.denom, amt))
				return err
			})
			if ok {
				res = "ok"
				l.amt += amt
				exp[l.owner+"/"+l.denom] -= amt
				if sy := e.synth[l.id]; sy != nil {
					e.codedAdd(sy.denom, sy.dur, amt)
					o.Count("tail.addtolock.with-synthetic-lock")
				}
			}
		case "slash":
			l := e.randLock(func(l *shLock) bool { return l.amt >= 2 })
			if l == nil {
				break
			}
			x := 1 + r.Int63n(l.amt-1)
			coins := sdk.NewCoins(e.coin(l.denom, x))
			line = fmt.Sprintf("slash %d %d %s", now, l.id, coins)
			var ok bool
			if e.isShare(l.denom) {
				pool, err := h.App.ConcentratedLiquidityKeeper.GetConcentratedPoolById(e.ctx(), e.clPools[l.denom])
				if err != nil {
					break
				}
				ok = e.runTx(func(c sdk.Context) error {
					_, err := k.SlashTokensFromLockByIDSendUnderlyingAndBurn(c, l.id, coins, sdk.NewCoins(sdk.NewInt64Coin("eth", 1)), pool.GetAddress())
					return err
				})
			} else {
				ok = e.runTx(func(c sdk.Context) error { _, err := k.SlashTokensFromLockByID(c, l.id, coins); return err })
			}
			if !ok {
				o.Fail("slash:refused", fmt.Sprintf("%s%s", line, e.histStr()))
				break
			}
			res = "ok"
			l.amt -= x
			if !e.isShare(l.denom) {
				e.funded[l.owner][l.denom] -= x // gone to the community pool
			}
			if sy := e.synth[l.id]; sy != nil {
				e.codedAdd(sy.denom, sy.dur, -x)
				o.Count("tail.slash.with-synthetic-lock")
			}
			o.Count("tail.slash." + map[bool]string{false: "ordinary-denom", true: "cl-share-denom"}[e.isShare(l.denom)])
			if e.dclass[l.denom] != "" {
				o.Count("tail.slash.related-name." + e.dclass[l.denom])
			}
		case "keeperforceunlock":
			l := e.randLock(func(l *shLock) bool { return true })
			if l == nil {
				break
			}
			line = fmt.Sprintf("keeperforceunlock %d %d", now, l.id)
			ok := e.runTx(func(c sdk.Context) error {
				lk, err := k.GetLockByID(c, l.id)
				if err != nil {
					return err
				}
				return k.ForceUnlock(c, *lk)
			})
			if !ok {
				o.Fail("keeperforceunlock:refused", fmt.Sprintf("%s%s", line, e.histStr()))
				break
			}
			res = "ok"
			if sy := e.synth[l.id]; sy != nil {
				e.codedAdd(sy.denom, sy.dur, -l.amt)
				delete(e.synth, l.id)
				o.Count("tail.keeperforceunlock.breaks-synthetic-lock")
			}
			if !isCLDenom(l.denom) {
				exp[l.owner+"/"+l.denom] += l.amt
			} else if !e.isShare(l.denom) {
				e.burned[l.owner][l.denom] += l.amt
			}
			o.Count("released." + e.classOf(l.denom) + ".by-keeper-forceunlock")
			delete(e.shadow, l.id)
		case "beginforceunlock":
			l := e.randLock(func(l *shLock) bool { sy := e.synth[l.id]; return l.end == 0 && (sy == nil || sy.end != 0) })
			if l == nil {
				break
			}
			coins := sdk.Coins{}
			x := l.amt
			if l.amt > 1 && r.Intn(2) == 0 {
				x = 1 + r.Int63n(l.amt-1)
				coins = sdk.Coins{e.coin(l.denom, x)}
			} else if r.Intn(2) == 0 {
				coins = sdk.Coins{e.coin(l.denom, l.amt)}
			}
			line = fmt.Sprintf("beginforceunlock %d %d %s", now, l.id, e.coinsStr(coins))
			var nid uint64
			ok := e.runTx(func(c sdk.Context) (err error) { nid, err = k.BeginForceUnlock(c, l.id, coins); return err })
			if !ok {
				o.Fail("beginforceunlock:refused", fmt.Sprintf("%s%s", line, e.histStr()))
				break
			}
			res = "ok"
			if x == l.amt {
				if nid != l.id {
					o.Fail("beginforceunlock:full-unlock-changed-id", line)
				}
				l.end, l.begin = now+l.dur, now
			} else {
				if nid <= *lastID {
					o.Fail("beginforceunlock:split-id-reused", line)
				}
				l.amt -= x
				e.shadow[nid] = &shLock{id: nid, owner: l.owner, dur: l.dur, end: now + l.dur, begin: now, denom: l.denom, amt: x, recv: l.recv}
				if e.synth[l.id] != nil {
					e.pendingCause = "lock-split-under-synthetic-lock"
					o.Count("tail.beginforceunlock.split-under-synthetic-lock")
				}
			}
			e.noteTime(now + l.dur)
		case "endblock": // the real EndBlocker body: matured synthetic locks first, then matured locks
			line = fmt.Sprintf("endblock %d", now)
			ok := e.runTx(func(c sdk.Context) error {
				k.DeleteAllMaturedSyntheticLocks(c)
				k.WithdrawMaturedLocks(c, 1000)
				return nil
			})
			if !ok {
				o.Fail("endblock:panicked", fmt.Sprintf("%s%s", line, e.histStr()))
				break
			}
			res = "ok"
			for id, sy := range e.synth {
				if sy.end != 0 && sy.end <= now {
					if l, ok := e.shadow[id]; ok {
						e.codedAdd(sy.denom, sy.dur, -l.amt)
					}
					delete(e.synth, id)
					o.Count("tail.endblock.matured-synthetic-lock-deleted")
				}
			}
			for id, l := range e.shadow {
				if l.end != 0 && l.end <= now {
					if !isCLDenom(l.denom) {
						exp[l.owner+"/"+l.denom] += l.amt
					} else if !e.isShare(l.denom) {
						e.burned[l.owner][l.denom] += l.amt
					}
					o.Count("released." + e.classOf(l.denom) + ".by-keeper-endblock")
					delete(e.shadow, id)
					o.Count("tail.endblock.lock-withdrawn")
				}
			}
		case "rebuild":
			dn := e.denoms[r.Intn(len(e.denoms))]
			line = fmt.Sprintf("rebuild %d %s", now, dn)
			ok := e.runTx(func(c sdk.Context) error {
				k.RebuildAccumulationStoreForDenom(c, dn)
				k.RebuildSuperfluidAccumulationStoresForDenom(c, dn)
				return nil
			})
			if !ok {
				o.Fail("rebuild:panicked", fmt.Sprintf("%s%s", line, e.histStr()))
				break
			}
			res = "ok"
			// what the two calls do to the store: RebuildAccumulationStoreForDenom clears the key range `0x20 dn "/"` — the
			// store of dn, of every synthetic denomination of dn, and of EVERY denomination whose name extends dn + "/" (and of
			// their synthetic denominations) — and rewrites dn's from the live locks; RebuildSuperfluidAccumulationStoresForDenom
			// clears `0x20 dn "/super"…` and rewrites the synthetic denominations of dn's locks from the live synthetic locks.
			// A cleared store that is not rewritten is finding F55 (keyed; +names puts such pairs into one history).
			delete(e.accWiped, dn)
			for _, x := range e.denoms {
				if strings.HasPrefix(x, dn+"/") {
					e.accWiped[x] = true
					o.Count("tail.rebuild.clears-store-of-extension-denom." + e.classOf(x))
				}
			}
			for sd := range e.synthDenoms {
				if !strings.HasPrefix(sd, dn+"/") {
					continue
				}
				e.synthCoded[sd] = map[int64]int64{}
				e.synthCause[sd] = ""
				if e.synthBase[sd] == dn {
					for id, sy := range e.synth {
						if sy.denom != sd {
							continue
						}
						if e.shadow[id].denom == dn {
							e.codedAdd(sd, sy.dur, e.shadow[id].amt)
						} else {
							// a synthetic denomination whose NAME extends dn + "/super" but whose lock holds another (real)
							// denomination, e.g. the real coin bar/superbonding/v1 with the synthetic denomination
							// bar/superbonding/v1/superbonding/v1: cleared with dn's range, rewritten only from dn's own locks (F55)
							e.pendingCause = "store-cleared-by-rebuild-of-prefix-denom"
							e.accWiped["synth:"+sd] = true
							o.Count("tail.rebuild.clears-store-of-extension-denoms-synthetic-denom:nested-name")
						}
					}
				} else {
					e.pendingCause = "store-cleared-by-rebuild-of-prefix-denom"
					// the store of this synthetic denomination lies INSIDE the key range the rebuild of dn clears and rewrites
					// (F55: overlapping ranges; what remains readable there is not what either rebuild wrote for it): every
					// later mismatch of this store is that finding until an import rewrites it
					e.accWiped["synth:"+sd] = true
					o.Count("tail.rebuild.clears-store-of-extension-denoms-synthetic-denom")
				}
			}
		case "exportimport": // REAL ExportGenesis -> store wiped -> REAL InitGenesis with synthetic locks alive (oracle-only)
			line = fmt.Sprintf("exportimport %d", now)
			e.hist = append(e.hist, "[keeper] "+line)
			if !e.exportImportCore(false) {
				break
			}
			res = "ok"
			exported = true
			o.Count(fmt.Sprintf("tail.exportimport.live-synthetic-locks.%s", bucketOf(len(e.synth), 1, 2, 4, 8)))
			// InitGenesis writes every synthetic tree anew from the live synthetic locks (what `rebuild` does for one denomination)
			for sd := range e.synthDenoms {
				e.synthCoded[sd] = map[int64]int64{}
				for id, sy := range e.synth {
					if sy.denom == sd {
						e.codedAdd(sd, sy.dur, e.shadow[id].amt)
					}
				}
				if e.synthCause[sd] != "" {
					o.Count("tail.exportimport.drifted-synthetic-accumulation-rebuilt")
				}
				e.synthCause[sd] = ""
			}
			e.hist = e.hist[:len(e.hist)-1]
		case "refused": // messages that must fail while a synthetic lock exists
			l := withSynth(func(*shLock, *shSynth) bool { return true })
			if l == nil {
				break
			}
			a := e.addrs[l.owner].String()
			which := []string{"beginunlock", "extend", "forceunlock"}[r.Intn(3)]
			if which == "forceunlock" && l.owner != e.allowed {
				which = "extend" // a force unlock by a non-whitelisted owner is refused for that reason already
			}
			line = fmt.Sprintf("refused-%s %d %d", which, now, l.id)
			var ok bool
			switch which {
			case "beginunlock":
				ok = e.runTx(func(c sdk.Context) error {
					_, err := ms.BeginUnlocking(c, &lockuptypes.MsgBeginUnlocking{Owner: a, ID: l.id})
					return err
				})
				ok = ok && l.end == 0
			case "extend":
				ok = e.runTx(func(c sdk.Context) error {
					_, err := ms.ExtendLockup(c, &lockuptypes.MsgExtendLockup{Owner: a, ID: l.id, Duration: time.Duration(l.dur + 1)})
					return err
				})
			default:
				ok = e.runTx(func(c sdk.Context) error {
					_, err := ms.ForceUnlock(c, &lockuptypes.MsgForceUnlock{Owner: a, ID: l.id})
					return err
				})
			}
			if ok {
				o.Fail("synthetic-lock:"+which+"-accepted", fmt.Sprintf("%s%s", line, e.histStr()))
			}
			o.Count("tail.refused." + which)
		default: // "lock": keep creating locks (MsgLockTokens)
			owner := e.names[r.Intn(3)]
			var base []string
			for _, d := range e.denoms {
				if !e.isShare(d) {
					base = append(base, d)
				}
			}
			dn := base[r.Intn(len(base))]
			if forcedLockDenom != "" {
				dn = forcedLockDenom
			}
			dur := e.durs[r.Intn(len(e.durs))]
			amt := int64(1 + r.Intn(60))
			line = fmt.Sprintf("lock %d %s %d %s", now, owner, dur, e.coin(dn, amt))
			var resp *lockuptypes.MsgLockTokensResponse
			ok := e.runTx(func(c sdk.Context) (err error) {
				resp, err = ms.LockTokens(c, &lockuptypes.MsgLockTokens{Owner: e.addrs[owner].String(), Duration: time.Duration(dur), Coins: sdk.Coins{e.coin(dn, amt)}})
				return err
			})
			if ok {
				res = "ok"
				exp[owner+"/"+dn] -= amt
				if l, exists := e.shadow[resp.ID]; exists {
					l.amt += amt
					if sy := e.synth[l.id]; sy != nil {
						e.codedAdd(sy.denom, sy.dur, amt)
					}
				} else {
					e.shadow[resp.ID] = &shLock{id: resp.ID, owner: owner, dur: dur, denom: dn, amt: amt}
				}
			}
		}
		if line == op { // nothing to do for this op in this state
			o.Count("tail.op." + op + ".skipped")
			continue
		}
		e.hist = append(e.hist, "[keeper] "+line+" => "+res)
		o.Count("tail.op." + op + "." + res)
		if nl := k.GetLastLockID(h.Ctx); nl > *lastID {
			*lastID = nl
		}
		for _, nm := range e.names {
			for _, d := range e.denoms {
				if got := e.bal(nm, d) - before[nm+"/"+d]; got != exp[nm+"/"+d] {
					o.Fail("wrong-recipient:keeper-"+op, fmt.Sprintf("%s: %s %s balance moved by %d, expected %d%s", line, nm, d, got, exp[nm+"/"+d], e.histStr()))
				}
			}
		}
		e.oracle("keeper-" + op)
		e.synthOracle("keeper-" + op)
	}
}
