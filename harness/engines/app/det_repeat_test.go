package app_test

// Engine `det`, second half (property C19): FRESH EXECUTIONS ON IDENTICAL STATE.
//
// Go randomises the iteration order of every `range` over a map anew for every loop.  Two nodes (A, B) and a second
// process (X) give three executions of a transaction: a dependence on map order that shows only in, say, the gas
// consumed up to an early return is seen with a probability that is too small for a quick check.  Here every
// transaction of the workload is, BEFORE its block is delivered, executed `detReps` (8) more times on node A's
// committed state, each time on a fresh branch that is thrown away: the real message handlers (MsgServiceRouter, after
// ValidateBasic, with the transaction's gas limit, as simulate traffic on a real node would run them).  Observed per
// execution: the error, the gas consumed (at the out-of-gas panic when it runs out), the ordered events, and the
// complete WRITE SET of the branch (a recording multistore notes every Set/Delete of every KV store, through nested
// cache contexts; identical base state + identical write set = identical resulting raw stores, x/auth account numbers
// included).  All executions must agree:
//
//   nondeterminism:gas:<msg kind>        nondeterminism:result:<msg kind>      nondeterminism:events:<msg kind>
//   nondeterminism:account-numbers       (the differing writes are x/auth account records / the account-number counter)
//   nondeterminism:raw-store:<msg kind>  (any other differing write)
//
// The same harness drives, on a prepared branch, the keeper entry points no message of the workload reaches but which the
// regenerated map-range audit lists as sorted-then-iterated (gamm UpdateMigrationRecords, pool-incentives
// UpdateDistrRecords, lockup InitGenesis with > fan-out durations per denomination and per synthetic denomination), and
// the pure functions of that list (DisjointArrays, partialord TotalOrdering, IsJsonSuperset).  A removed sort is then
// a failing input of an oracle, not only a broken audit obligation.

import (
	"crypto/sha256"
	"encoding/hex"
	"fmt"
	"io"
	"os"
	"reflect"
	"sort"
	"strings"
	"time"

	sdkmath "cosmossdk.io/math"
	storetypes "cosmossdk.io/store/types"
	sdk "github.com/cosmos/cosmos-sdk/types"
	authtypes "github.com/cosmos/cosmos-sdk/x/auth/types"
	"github.com/cosmos/gogoproto/proto"

	"github.com/osmosis-labs/osmosis/osmomath"
	"github.com/osmosis-labs/osmosis/osmoutils"
	"github.com/osmosis-labs/osmosis/osmoutils/partialord"
	osmoapp "github.com/osmosis-labs/osmosis/v31/app"
	clmodel "github.com/osmosis-labs/osmosis/v31/x/concentrated-liquidity/model"
	"github.com/osmosis-labs/osmosis/v31/x/gamm/pool-models/balancer"
	gammmigration "github.com/osmosis-labs/osmosis/v31/x/gamm/types/migration"
	lockuptypes "github.com/osmosis-labs/osmosis/v31/x/lockup/types"
	poolincentivestypes "github.com/osmosis-labs/osmosis/v31/x/pool-incentives/types"
	"github.com/osmosis-labs/osmosis/v31/x/smart-account/authenticator"
)

var detReps = envInt("VERIF_DET_REPS", 8)

// ---------------------------------------------------------------- recording multistore

type recEntry struct {
	store, key string
	val        []byte
	del        bool
}

// recMS wraps a cache multistore: every KV store it hands out records Set/Delete.  A nested branch (ctx.CacheContext()
// inside a handler) records into its own log, which is appended to the parent's when — and only when — it is written.
type recMS struct {
	inner  storetypes.CacheMultiStore
	parent *recMS
	log    []recEntry
}

func newRecMS(inner storetypes.CacheMultiStore, parent *recMS) *recMS {
	return &recMS{inner: inner, parent: parent}
}

func (m *recMS) GetStoreType() storetypes.StoreType { return m.inner.GetStoreType() }
func (m *recMS) CacheWrap() storetypes.CacheWrap    { return m.CacheMultiStore().(storetypes.CacheWrap) }
func (m *recMS) CacheWrapWithTrace(io.Writer, storetypes.TraceContext) storetypes.CacheWrap {
	return m.CacheWrap()
}
func (m *recMS) CacheMultiStore() storetypes.CacheMultiStore {
	return newRecMS(m.inner.CacheMultiStore(), m)
}
func (m *recMS) CacheMultiStoreWithVersion(v int64) (storetypes.CacheMultiStore, error) {
	return m.inner.CacheMultiStoreWithVersion(v)
}
func (m *recMS) GetStore(k storetypes.StoreKey) storetypes.Store {
	s := m.inner.GetStore(k)
	if kv, ok := s.(storetypes.KVStore); ok {
		return &recKV{KVStore: kv, name: k.Name(), ms: m}
	}
	return s
}
func (m *recMS) GetKVStore(k storetypes.StoreKey) storetypes.KVStore {
	return &recKV{KVStore: m.inner.GetKVStore(k), name: k.Name(), ms: m}
}
func (m *recMS) TracingEnabled() bool                                            { return false }
func (m *recMS) SetTracer(io.Writer) storetypes.MultiStore                       { return m }
func (m *recMS) SetTracingContext(storetypes.TraceContext) storetypes.MultiStore { return m }
func (m *recMS) LatestVersion() int64                                            { return m.inner.LatestVersion() }
func (m *recMS) Write() {
	m.inner.Write()
	if m.parent != nil {
		m.parent.log = append(m.parent.log, m.log...)
	}
	m.log = nil
}

type recKV struct {
	storetypes.KVStore
	name string
	ms   *recMS
}

func (s *recKV) Set(key, value []byte) {
	s.KVStore.Set(key, value)
	s.ms.log = append(s.ms.log, recEntry{store: s.name, key: string(key), val: append([]byte{}, value...)})
}
func (s *recKV) Delete(key []byte) {
	s.KVStore.Delete(key)
	s.ms.log = append(s.ms.log, recEntry{store: s.name, key: string(key), del: true})
}

// writeSet: final value per (store, key) of a log ("\x00del" marks a deletion)
func writeSet(log []recEntry) map[string]string {
	out := map[string]string{}
	for _, e := range log {
		if e.del {
			out[e.store+"\x00"+e.key] = "\x00del"
		} else {
			out[e.store+"\x00"+e.key] = "=" + string(e.val)
		}
	}
	return out
}

func writeSetDigest(ws map[string]string) string {
	ks := make([]string, 0, len(ws))
	for k := range ws {
		ks = append(ks, k)
	}
	sort.Strings(ks)
	h := sha256.New()
	for _, k := range ks {
		fmt.Fprintf(h, "%d:%s%d:%s", len(k), k, len(ws[k]), ws[k])
	}
	return hex.EncodeToString(h.Sum(nil))[:24]
}

// ---------------------------------------------------------------- one execution

type repObs struct {
	err    string
	gas    uint64
	events string
	writes map[string]string
}

func (r repObs) digest() string { return writeSetDigest(r.writes) }

// detBranch: a fresh recording branch of the node's committed state, in simulate mode with a finite gas meter.
func detBranch(a *detNode, gasLimit uint64) (sdk.Context, *recMS) {
	base := a.readCtx()
	rec := newRecMS(base.MultiStore().CacheMultiStore(), nil)
	ctx := base.WithMultiStore(rec).WithEventManager(sdk.NewEventManager()).WithGasMeter(storetypes.NewGasMeter(gasLimit)).WithExecMode(sdk.ExecModeSimulate)
	return ctx, rec
}

// detRun executes f on ctx and returns what a node would put into the transaction result.
func detRun(ctx sdk.Context, rec *recMS, f func(ctx sdk.Context) (string, error)) (obs repObs) {
	defer func() {
		if r := recover(); r != nil {
			switch r.(type) {
			case storetypes.ErrorOutOfGas:
				obs.err = "out of gas"
			default:
				obs.err = fmt.Sprintf("panic: %.200v", r)
			}
			obs.gas = ctx.GasMeter().GasConsumed()
			obs.writes = writeSet(rec.log)
		}
	}()
	ev, err := f(ctx)
	obs.events = ev
	if err != nil {
		obs.err = err.Error()
	}
	obs.gas = ctx.GasMeter().GasConsumed()
	obs.writes = writeSet(rec.log)
	return obs
}

// cloneMsg: handlers may write into the message they are given (tokenfactory fills in an empty address): every execution
// gets its own copy, the workload's message stays what the generator made.
func cloneMsg(m sdk.Msg) (sdk.Msg, error) {
	bz, err := proto.Marshal(m)
	if err != nil {
		return nil, err
	}
	out, ok := reflect.New(reflect.TypeOf(m).Elem()).Interface().(sdk.Msg)
	if !ok {
		return nil, fmt.Errorf("not a message: %T", m)
	}
	if err := proto.Unmarshal(bz, out); err != nil {
		return nil, err
	}
	return out, nil
}

func detExecTx(a *detNode, tx detTx) repObs {
	ctx, rec := detBranch(a, tx.gas)
	return detRun(ctx, rec, func(ctx sdk.Context) (string, error) {
		var evs strings.Builder
		for _, m0 := range tx.msgs {
			m, err := cloneMsg(m0)
			if err != nil {
				return evs.String(), fmt.Errorf("clone: %w", err)
			}
			if vb, ok := m.(sdk.HasValidateBasic); ok {
				if err := vb.ValidateBasic(); err != nil {
					return evs.String(), err
				}
			}
			h := a.app.MsgServiceRouter().Handler(m)
			if h == nil {
				return evs.String(), fmt.Errorf("no handler for %s", sdk.MsgTypeURL(m))
			}
			res, err := h(ctx, m)
			if err != nil {
				return evs.String(), err
			}
			evs.WriteString(canonEvents(res.Events))
		}
		return evs.String(), nil
	})
}

// msgKind: "tokenfactory.MsgForceTransfer" from "/osmosis.tokenfactory.v1beta1.MsgForceTransfer"
func msgKind(m sdk.Msg) string {
	p := strings.Split(strings.TrimPrefix(sdk.MsgTypeURL(m), "/"), ".")
	if len(p) < 3 {
		return strings.Join(p, ".")
	}
	return p[1] + "." + p[len(p)-1]
}

func msgsStr(ms []sdk.Msg) string {
	var p []string
	for _, m := range ms {
		p = append(p, fmt.Sprintf("%T{%.500v}", m, m))
	}
	return strings.Join(p, " ; ")
}

// ---------------------------------------------------------------- comparison

func distinctU64(vs []uint64) string {
	m := map[uint64]int{}
	for _, v := range vs {
		m[v]++
	}
	var ks []uint64
	for k := range m {
		ks = append(ks, k)
	}
	sort.Slice(ks, func(i, j int) bool { return ks[i] < ks[j] })
	var p []string
	for _, k := range ks {
		p = append(p, fmt.Sprintf("%d(x%d)", k, m[k]))
	}
	return strings.Join(p, " ")
}

// accountNumbers decodes the x/auth account records among a write set: "name-or-address=number"
func accountNumbers(a *detNode, ws map[string]string) string {
	var p []string
	for k, v := range ws {
		if !strings.HasPrefix(k, authtypes.StoreKey+"\x00") || !strings.HasPrefix(v, "=") {
			continue
		}
		var acc sdk.AccountI
		if err := a.app.AppCodec().UnmarshalInterface([]byte(v[1:]), &acc); err != nil || acc == nil {
			continue
		}
		name := acc.GetAddress().String()
		if ma, ok := acc.(sdk.ModuleAccountI); ok {
			name = ma.GetName()
		}
		p = append(p, fmt.Sprintf("%s=%d", name, acc.GetAccountNumber()))
	}
	sort.Strings(p)
	return strings.Join(p, " ")
}

// detCompareReps: all executions of `what` on identical state must agree.  kind = class of the failing input.
func detCompareReps(o *Out, a *detNode, kind, what string, obs []repObs) {
	o.Count("repeat." + kind)
	if len(obs) < 2 {
		return
	}
	first := obs[0]
	var gases []uint64
	gasDiff, errDiff, evDiff, wrDiff := false, -1, -1, -1
	d0 := first.digest()
	for i, x := range obs {
		gases = append(gases, x.gas)
		if x.gas != first.gas {
			gasDiff = true
		}
		if x.err != first.err && errDiff < 0 {
			errDiff = i
		}
		if x.events != first.events && evDiff < 0 {
			evDiff = i
		}
		// the writes of a rejected execution are thrown away by the node: only those of successful executions are state
		if wrDiff < 0 && first.err == "" && x.err == "" && x.digest() != d0 {
			wrDiff = i
		}
	}
	res := "ok"
	if first.err != "" {
		res = "rejected: " + trunc(first.err, 160)
	}
	if errDiff >= 0 {
		o.Fail("nondeterminism:result:"+kind, fmt.Sprintf("%s: %d executions on identical state: execution 0 %q, execution %d %q", what, len(obs), trunc(first.err, 200), errDiff, trunc(obs[errDiff].err, 200)))
	}
	if gasDiff {
		o.Fail("nondeterminism:gas:"+kind, fmt.Sprintf("%s: gas consumed by %d executions on identical state (%s): %s", what, len(obs), res, distinctU64(gases)))
	}
	if evDiff >= 0 {
		o.Fail("nondeterminism:events:"+kind, fmt.Sprintf("%s: %d executions on identical state: events of execution 0 and %d differ: %s", what, len(obs), evDiff, diffWindow(first.events, obs[evDiff].events)))
	}
	if wrDiff >= 0 {
		x, y := first.writes, obs[wrDiff].writes
		var accDiff, otherDiff []string
		keys := map[string]bool{}
		for k := range x {
			keys[k] = true
		}
		for k := range y {
			keys[k] = true
		}
		for k := range keys {
			if x[k] != y[k] {
				if strings.HasPrefix(k, authtypes.StoreKey+"\x00") {
					accDiff = append(accDiff, k)
				} else {
					otherDiff = append(otherDiff, k)
				}
			}
		}
		sort.Strings(accDiff)
		sort.Strings(otherDiff)
		if len(accDiff) > 0 {
			o.Fail("nondeterminism:account-numbers", fmt.Sprintf("%s (%s): %d executions on identical state wrote different x/auth records (%d keys differ between execution 0 and %d): accounts written by execution 0: [%s] | by execution %d: [%s]",
				what, res, len(obs), len(accDiff), wrDiff, trunc(accountNumbers(a, x), 900), wrDiff, trunc(accountNumbers(a, y), 900)))
		}
		if len(otherDiff) > 0 {
			k := otherDiff[0]
			o.Fail("nondeterminism:raw-store:"+kind, fmt.Sprintf("%s (%s): %d executions on identical state wrote different stores (%d keys differ between execution 0 and %d), e.g. %q: %x | %x",
				what, res, len(obs), len(otherDiff), wrDiff, k, trunc(x[k], 80), trunc(y[k], 80)))
		}
	}
}

// detRepeatBlock: every transaction of the block about to be delivered, detReps executions each on A's committed state.
func detRepeatBlock(o *Out, hist, k int, a *detNode, txs []detTx) {
	if detReps < 2 {
		return
	}
	{ // input distribution: module accounts of the permission table not created yet
		ctx := a.readCtx()
		miss := 0
		for n := range osmoapp.GetMaccPerms() {
			if !a.app.AccountKeeper.HasAccount(ctx, authtypes.NewModuleAddress(n)) {
				miss++
			}
		}
		o.Count("state.module-accounts-not-created-yet." + bucketOf(miss, 1, 2, 5, 10, 20))
	}
	for i, tx := range txs {
		if len(tx.msgs) == 0 {
			continue
		}
		var kinds []string
		for _, m := range tx.msgs {
			if mk := msgKind(m); !has(strings.Join(kinds, "+")+"+", mk+"+") {
				kinds = append(kinds, mk)
			}
		}
		kind := strings.Join(kinds, "+")
		obs := make([]repObs, 0, detReps)
		for r := 0; r < detReps; r++ {
			obs = append(obs, detExecTx(a, tx))
		}
		nAcc := 0
		for wk, wv := range obs[0].writes {
			if strings.HasPrefix(wk, authtypes.StoreKey+"\x00\x01") && strings.HasPrefix(wv, "=") {
				nAcc++
			}
		}
		if nAcc >= 2 {
			o.Count("repeat.writes->=2-account-records." + kind)
		}
		if obs[0].err == "" {
			o.Count("repeat-ok." + kind)
		} else if obs[0].err == "out of gas" {
			o.Count("repeat-out-of-gas." + kind)
		}
		detCompareReps(o, a, kind, fmt.Sprintf("hist %d before block %d tx %d (%s, gas limit %d) %s", hist, k, i, tx.kind, tx.gas, msgsStr(tx.msgs)), obs)
	}
}

// ---------------------------------------------------------------- keeper entry points behind sorted map ranges

// detKeeperReps: f on detReps fresh branches of ctx0 (itself a branch holding the prepared state).
func detKeeperReps(o *Out, a *detNode, ctx0 sdk.Context, kind, what string, f func(ctx sdk.Context) error) {
	var obs []repObs
	for r := 0; r < detReps; r++ {
		rec := newRecMS(ctx0.MultiStore().CacheMultiStore(), nil)
		ctx := ctx0.WithMultiStore(rec).WithEventManager(sdk.NewEventManager()).WithGasMeter(storetypes.NewGasMeter(1 << 40))
		obs = append(obs, detRun(ctx, rec, func(ctx sdk.Context) (string, error) {
			err := f(ctx)
			return canonEvents(ctx.EventManager().ABCIEvents()), err
		}))
	}
	if obs[0].err != "" {
		o.Count("probe." + kind + ".rejected")
		if os.Getenv("VERIF_DET_DEBUG") != "" {
			fmt.Printf("PROBE %s rejected: %s\n", kind, obs[0].err)
		}
	} else {
		o.Count("probe." + kind + ".ok")
	}
	detCompareReps(o, a, kind, what, obs)
}

func detProbeSortedSites(o *Out, hist int, a *detNode, accts []detAcct) {
	defer func() {
		if r := recover(); r != nil {
			o.Count("probe.sorted-sites.panicked")
			if os.Getenv("VERIF_DET_DEBUG") != "" {
				fmt.Printf("PROBE panicked: %v\n", r)
			}
		}
	}()
	base := a.readCtx()
	sctx, _ := base.CacheContext()
	sctx = sctx.WithExecMode(sdk.ExecModeSimulate)
	creator := accts[0].addr
	app := a.app

	// (1) pools: four balancer + four concentrated pools over the same pairs; their creation also creates perpetual gauges
	pairs := [][2]string{{"bar", "foo"}, {"bar", "baz"}, {"baz", "eth"}, {"eth", "usdc"}}
	lastGauge0 := app.IncentivesKeeper.GetLastGaugeID(sctx)
	var balIDs, clIDs []uint64
	for _, pr := range pairs {
		m := balancer.NewMsgCreateBalancerPool(creator, balancer.PoolParams{SwapFee: osmomath.MustNewDecFromStr("0.003"), ExitFee: osmomath.ZeroDec()},
			[]balancer.PoolAsset{{Weight: sdkmath.NewInt(1), Token: sdk.NewInt64Coin(pr[0], 1_000_000)}, {Weight: sdkmath.NewInt(1), Token: sdk.NewInt64Coin(pr[1], 1_000_000)}}, "")
		id, err := app.PoolManagerKeeper.CreatePool(sctx, m)
		if err != nil {
			o.Count("probe.sorted-sites.setup-failed")
			return
		}
		balIDs = append(balIDs, id)
		cid, err := app.PoolManagerKeeper.CreatePool(sctx, clmodel.NewMsgCreateConcentratedPool(creator, pr[0], pr[1], 100, osmomath.MustNewDecFromStr("0.001")))
		if err != nil {
			o.Count("probe.sorted-sites.setup-failed")
			return
		}
		clIDs = append(clIDs, cid)
	}
	lastGauge1 := app.IncentivesKeeper.GetLastGaugeID(sctx)

	// x/gamm UpdateMigrationRecords (governance): existing links {0,1}, update adds {3,2} and redirects nothing
	link := func(i int) gammmigration.BalancerToConcentratedPoolLink {
		return gammmigration.BalancerToConcentratedPoolLink{BalancerPoolId: balIDs[i], ClPoolId: clIDs[i]}
	}
	{
		c0, _ := sctx.CacheContext()
		if err := app.GAMMKeeper.UpdateMigrationRecords(c0, []gammmigration.BalancerToConcentratedPoolLink{link(0), link(1)}); err != nil {
			o.Count("probe.gamm.UpdateMigrationRecords.setup-rejected")
		} else {
			detKeeperReps(o, a, c0, "gamm.UpdateMigrationRecords", fmt.Sprintf("hist %d end: gamm.UpdateMigrationRecords(links of balancer pools %d,%d) on a state holding links of pools %d,%d", hist, balIDs[2], balIDs[3], balIDs[0], balIDs[1]),
				func(ctx sdk.Context) error {
					return app.GAMMKeeper.UpdateMigrationRecords(ctx, []gammmigration.BalancerToConcentratedPoolLink{link(2), link(3)})
				})
		}
	}
	// x/pool-incentives UpdateDistrRecords (governance): perpetual gauges created with the pools
	if lastGauge1 >= lastGauge0+8 {
		rec := func(id uint64, w int64) poolincentivestypes.DistrRecord {
			return poolincentivestypes.DistrRecord{GaugeId: id, Weight: sdkmath.NewInt(w)}
		}
		c0, _ := sctx.CacheContext()
		if err := app.PoolIncentivesKeeper.UpdateDistrRecords(c0, rec(lastGauge0+2, 10), rec(lastGauge0+5, 20), rec(lastGauge0+7, 30)); err != nil {
			o.Count("probe.poolincentives.UpdateDistrRecords.setup-rejected")
		} else {
			detKeeperReps(o, a, c0, "poolincentives.UpdateDistrRecords", fmt.Sprintf("hist %d end: pool-incentives UpdateDistrRecords(gauges %d..%d) on a state holding records of gauges %d,%d,%d", hist, lastGauge0+1, lastGauge0+8, lastGauge0+2, lastGauge0+5, lastGauge0+7),
				func(ctx sdk.Context) error {
					return app.PoolIncentivesKeeper.UpdateDistrRecords(ctx, rec(lastGauge0+1, 5), rec(lastGauge0+3, 6), rec(lastGauge0+4, 7), rec(lastGauge0+5, 0), rec(lastGauge0+6, 8), rec(lastGauge0+8, 9))
				})
		}
	}
	// x/lockup InitGenesis: more durations than the sum tree's fan-out per denomination (the workload's warm-up locks) and
	// per synthetic denomination (created here through the keeper, one synthetic duration per lock)
	{
		c0, _ := sctx.CacheContext()
		locks, err := app.LockupKeeper.GetPeriodLocks(c0)
		nSynth := 0
		if err == nil {
			sort.Slice(locks, func(i, j int) bool { return locks[i].ID < locks[j].ID })
			for i, l := range locks {
				if len(l.Coins) != 1 || l.IsUnlocking() || l.Duration < time.Hour {
					continue
				}
				if app.LockupKeeper.CreateSyntheticLockup(c0, l.ID, l.Coins[0].Denom+"/superbonding/valprobe", l.Duration-time.Duration(i%50+1)*time.Minute, false) == nil {
					nSynth++
				}
			}
		}
		o.Count(fmt.Sprintf("probe.lockup.InitGenesis.synthetic-locks.%s", bucketOf(nSynth, 1, 11, 20)))
		var gs *lockuptypes.GenesisState
		if catch(func() { gs = app.LockupKeeper.ExportGenesis(c0) }) && gs != nil {
			skey := app.GetKey(lockuptypes.StoreKey)
			var keys [][]byte
			it := c0.KVStore(skey).Iterator(nil, nil)
			for ; it.Valid(); it.Next() {
				keys = append(keys, append([]byte{}, it.Key()...))
			}
			it.Close()
			detKeeperReps(o, a, c0, "lockup.InitGenesis", fmt.Sprintf("hist %d end: x/lockup store wiped, InitGenesis of the chain's own export (%d locks, %d synthetic locks)", hist, len(gs.Locks), len(gs.SyntheticLocks)),
				func(ctx sdk.Context) error {
					st := ctx.KVStore(skey)
					for _, k := range keys {
						st.Delete(k)
					}
					app.LockupKeeper.InitGenesis(ctx, *gs)
					return nil
				})
		}
	}
}

// detPureProbes: the pure functions of the audit's sorted-then-iterated list, called repeatedly on one input.
func detPureProbes(o *Out) {
	same := func(kind, input string, f func() string) {
		first := f()
		o.Count("probe." + kind)
		for i := 1; i < 2*detReps; i++ {
			if got := f(); got != first {
				o.Fail("nondeterminism:result:"+kind, fmt.Sprintf("%s: call 0 returned %s, call %d returned %s", input, trunc(first, 300), i, trunc(got, 300)))
				return
			}
		}
	}
	var xs, ys []uint64
	for i := uint64(0); i < 40; i++ {
		xs = append(xs, 3*i)
		ys = append(ys, 1000-5*i)
	}
	same("osmoutils.DisjointArrays", "DisjointArrays(3i | i<40, 1000-5i | i<40)", func() string { return fmt.Sprint(osmoutils.DisjointArrays(xs, ys)) })
	var names []string
	for i := 0; i < 24; i++ {
		names = append(names, fmt.Sprintf("m%02d", i))
	}
	same("partialord.TotalOrdering", "24 modules, m00 before all, m23 after all, m05 before m02..m04", func() string {
		po := partialord.NewPartialOrdering(names)
		po.FirstElements("m00")
		po.LastElements("m23")
		po.Before("m05", "m02")
		po.Before("m05", "m03")
		po.Before("m05", "m04")
		var out string
		catch(func() { out = strings.Join(po.TotalOrdering(), ",") })
		return out
	})
	var pat, msg []string
	for i := 0; i < 16; i++ {
		pat = append(pat, fmt.Sprintf("%q:%q", fmt.Sprintf("k%02d", i), "x"))
		if i%3 == 0 {
			msg = append(msg, fmt.Sprintf("%q:%q", fmt.Sprintf("k%02d", i), "x"))
		} else if i%3 == 1 {
			msg = append(msg, fmt.Sprintf("%q:%q", fmt.Sprintf("k%02d", i), "y"))
		}
	}
	pattern, message := "{"+strings.Join(pat, ",")+"}", "{"+strings.Join(msg, ",")+"}"
	same("smartaccount.IsJsonSuperset", "pattern with 16 keys, message lacking 5 of them and differing in 5", func() string {
		return fmt.Sprint(authenticator.IsJsonSuperset([]byte(pattern), []byte(message)))
	})
}
