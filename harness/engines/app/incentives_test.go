package app_test

// Engine `incentives` (property C09): REAL x/incentives + x/lockup keepers through the app.
// A history = one chain state: 3 lock owners (+2 pure reward receivers, +1 gauge creator), 2 lock denoms,
// lock durations around the lockable set, 4 reward denoms (base denom, "stake", two pool-priced denoms, one of which can lose
// its protorev route), lock-based gauges perpetual / non-perpetual (1..6 epochs) starting before / at / after "now", top-ups.
// Between epochs locks are created / topped up / begin unlocking (fully or split) / change their reward receiver / mature.
// An epoch = incentives.AfterEpochEnd(distribution epoch identifier) on a context whose block time advanced, inside a cache
// context (as the epochs module's hook wrapper does).  The epoch op line carries the lock snapshot read from the lockup
// keeper with the very query the distribution uses, and the minimum-value table the real filter will use.
// The ORACLE shares nothing with the Lean model: own lock book + big.Rat floor shares + own schedule counters.

import (
	"os"
	"fmt"
	"math/big"
	"math/rand"
	"sort"
	"strings"
	"testing"
	"time"

	sdk "github.com/cosmos/cosmos-sdk/types"

	"github.com/osmosis-labs/osmosis/osmomath"
	appparams "github.com/osmosis-labs/osmosis/v31/app/params"
	incentivestypes "github.com/osmosis-labs/osmosis/v31/x/incentives/types"
	lockupkeeper "github.com/osmosis-labs/osmosis/v31/x/lockup/keeper"
	lockuptypes "github.com/osmosis-labs/osmosis/v31/x/lockup/types"
)

type incLock struct {
	id        uint64
	owner     int
	recv      int // -1 = owner
	dur       time.Duration
	denom     string
	amt       *big.Int
	unlocking bool
	end       time.Time
}

type incGaugeObs struct {
	id        uint64
	perpetual bool
	denom     string
	dur       time.Duration
	coins     sdk.Coins
	dist      sdk.Coins
	start     time.Time
	n         uint64
	filled    uint64
	status    string // U / A / F by the reference stores
}

func coinsStr(c sdk.Coins) string {
	if len(c) == 0 {
		return "-"
	}
	var p []string
	for _, x := range c.Sort() {
		p = append(p, x.Denom+"="+x.Amount.String())
	}
	return strings.Join(p, ",")
}

func incIdsStr(ids []uint64) string {
	var p []string
	for _, i := range ids {
		p = append(p, fmt.Sprint(i))
	}
	return "[" + strings.Join(p, ",") + "]"
}

func runIncentives(t *testing.T, seed int64, n int, dir string) {
	r := rand.New(rand.NewSource(seed))
	o := NewOut(dir)
	h := newH(t)
	base := appparams.BaseCoinUnit
	rewardDenoms := []string{"rewa", "rewb", "stake", base} // sorted
	sort.Strings(rewardDenoms)
	lockDenoms := []string{"lpa", "lpb"}
	var lockable []time.Duration // the chain's lockable durations (1s, 1h, 3h, 7h in the test genesis), read per history
	lockDurs := []time.Duration{30 * time.Minute, time.Hour, 2 * time.Hour, 3 * time.Hour, 7 * time.Hour, 10 * time.Hour}
	var addrs []sdk.AccAddress
	for i := 0; i < 5; i++ {
		addrs = append(addrs, sdk.AccAddress([]byte(fmt.Sprintf("c09_account________%d", i))))
	}
	creator := sdk.AccAddress([]byte("c09_gauge_creator___"))
	addrIdx := map[string]int{}
	for i, a := range addrs {
		addrIdx[a.String()] = i
	}
	lines := 0
	emit := func(op, obs string, nt bool) { o.Emit(op, obs, nt); lines++ }

	for lines < n {
		h.Reset()
		ik := h.App.IncentivesKeeper
		lk := h.App.LockupKeeper
		bk := h.App.BankKeeper
		lms := lockupkeeper.NewMsgServerImpl(lk)
		// magnitude class of this history: now and then lock amounts and gauge coins around 2^118..2^134 each (valid
		// bank amounts whose PRODUCT exceeds 2^256: only the quotient of the share computation has to fit)
		huge := r.Intn(7) == 0
		if huge {
			o.Count("history.huge-magnitudes")
		}
		scaleUp := func(a int64) *big.Int {
			v := big.NewInt(a)
			if huge && r.Intn(5) != 0 {
				v.Lsh(v, uint(110+r.Intn(14)))
				v.Add(v, big.NewInt(int64(r.Intn(1000))))
			}
			return v
		}
		now := time.Unix(1_700_000_000, 0).UTC().Add(time.Duration(r.Intn(1000)) * time.Second)
		h.Ctx = h.Ctx.WithBlockTime(now)
		modAddr := h.App.AccountKeeper.GetModuleAddress(incentivestypes.ModuleName)
		ident := ik.GetParams(h.Ctx).DistrEpochIdentifier
		lockable = ik.GetLockableDurations(h.Ctx)

		// ---- price routes: base<->d balancer pools registered in protorev
		minAmt := []int64{1, 10, 150, 1000, 10000}[r.Intn(5)]
		minCoin := sdk.NewCoin(base, osmomath.NewInt(minAmt))
		ik.SetParam(h.Ctx, incentivestypes.KeyMinValueForDistr, minCoin)
		pools := map[string]uint64{}
		for _, d := range rewardDenoms {
			if d == base {
				continue
			}
			ratio := []int64{2, 3, 10, 50}[r.Intn(4)]
			pid := h.PrepareBalancerPoolWithCoins(sdk.NewCoin(base, osmomath.NewInt(1_000_000)), sdk.NewCoin(d, osmomath.NewInt(1_000_000*ratio)))
			pools[d] = pid
			h.App.ProtoRevKeeper.SetPoolForDenomPair(h.Ctx, base, d, pid) // (protorev's own pool-creation hook registers it too)
		}
		routed := map[string]bool{"rewa": true, "rewb": true, "stake": true}
		setRoutes := func() {
			for _, d := range rewardDenoms {
				h.App.ProtoRevKeeper.DeleteAllPoolsForBaseDenom(h.Ctx, d)
			}
			for _, d := range rewardDenoms {
				if d != base && routed[d] {
					h.App.ProtoRevKeeper.SetPoolForDenomPair(h.Ctx, base, d, pools[d])
				}
			}
		}
		setRoutes()
		routedCsv := func() string {
			var p []string
			for _, d := range rewardDenoms {
				if routed[d] {
					p = append(p, d)
				}
			}
			if len(p) == 0 {
				return "-"
			}
			return strings.Join(p, ",")
		}
		// thresholds as the real filter computes them (same pool-module call, read-only)
		thresholds := func(ctx sdk.Context) map[string]*big.Int {
			m := map[string]*big.Int{base: big.NewInt(minAmt)}
			for _, d := range rewardDenoms {
				if d == base || !routed[d] {
					continue
				}
				pid, err := h.App.ProtoRevKeeper.GetPoolForDenomPairNoOrder(ctx, base, d)
				if err != nil {
					o.Fail("engine:route-missing", d)
					continue
				}
				mod, pool, err := h.App.PoolManagerKeeper.GetPoolModuleAndPool(ctx, pid)
				if err != nil {
					o.Fail("engine:pool-missing", d)
					continue
				}
				out, err := mod.CalcOutAmtGivenIn(ctx, pool, minCoin, d, osmomath.ZeroDec())
				if err != nil || !out.Amount.IsPositive() {
					o.Fail("engine:zero-threshold", d)
					continue
				}
				m[d] = out.Amount.BigInt()
			}
			return m
		}
		for _, a := range addrs {
			h.FundAcc(a, sdk.NewCoins(sdk.NewCoin(base, osmomath.NewInt(1))))
		}
		for _, a := range addrs[:3] { // make the lock denoms exist
			h.FundAcc(a, sdk.NewCoins(sdk.NewCoin("lpa", osmomath.NewInt(1)), sdk.NewCoin("lpb", osmomath.NewInt(1))))
		}
		rewardBal := func(ctx sdk.Context, a sdk.AccAddress) sdk.Coins {
			out := sdk.Coins{}
			for _, d := range rewardDenoms {
				c := bk.GetBalance(ctx, a, d)
				if c.Amount.IsPositive() {
					out = out.Add(c)
				}
			}
			return out
		}
		var ld []string
		for _, d := range lockable {
			ld = append(ld, fmt.Sprint(int64(d)))
		}
		// the pools created above own perpetual, empty lock gauges on their share denoms (pool-incentives hook): they are
		// part of the state (ids, stores, top-ups) and are replayed to the model as the creategauge calls they were
		existing := ik.GetGauges(h.Ctx)
		sort.Slice(existing, func(i, j int) bool { return existing[i].Id < existing[j].Id })
		supply := append([]string{}, lockDenoms...)
		for _, g := range existing {
			dup := false
			for _, x := range supply {
				dup = dup || x == g.DistributeTo.Denom
			}
			if !dup {
				supply = append(supply, g.DistributeTo.Denom)
			}
		}
		emit(fmt.Sprintf("incentives reset %s %s %s %s", strings.Join(ld, ","), strings.Join(supply, ","), routedCsv(), coinsStr(rewardBal(h.Ctx, modAddr))), "ok", false)
		o.Count(fmt.Sprintf("history.min%d", minAmt))
		book := map[uint64]*incLock{}
		payingEpochs := map[uint64]uint64{} // oracle: epochs in which the gauge was active and had qualifying locks
		everFinished := map[uint64]bool{}

		readGauges := func(ctx sdk.Context) (map[uint64]*incGaugeObs, []uint64, []uint64, []uint64) {
			m := map[uint64]*incGaugeObs{}
			var up, act, fin []uint64
			add := func(gs []incentivestypes.Gauge, st string, ids *[]uint64) {
				for _, g := range gs {
					*ids = append(*ids, g.Id)
					if prev, dup := m[g.Id]; dup {
						o.Fail("refs:gauge-in-two-stores", fmt.Sprintf("gauge %d in %s and %s", g.Id, prev.status, st))
					}
					m[g.Id] = &incGaugeObs{g.Id, g.IsPerpetual, g.DistributeTo.Denom, g.DistributeTo.Duration, g.Coins, g.DistributedCoins, g.StartTime, g.NumEpochsPaidOver, g.FilledEpochs, st}
				}
			}
			add(ik.GetUpcomingGauges(ctx), "U", &up)
			add(ik.GetActiveGauges(ctx), "A", &act)
			add(ik.GetFinishedGauges(ctx), "F", &fin)
			return m, up, act, fin
		}
		sortedIds := func(m map[uint64]*incGaugeObs) []uint64 {
			var ids []uint64
			for id := range m {
				ids = append(ids, id)
			}
			sort.Slice(ids, func(i, j int) bool { return ids[i] < ids[j] })
			return ids
		}
		// invariants the property states for EVERY reachable state
		checkInvariants := func(ctx sdk.Context, where string) {
			gs, _, _, _ := readGauges(ctx)
			need := sdk.Coins{}
			for _, id := range sortedIds(gs) {
				g := gs[id]
				for _, c := range g.dist {
					if c.Amount.GT(g.coins.AmountOf(c.Denom)) {
						o.Fail("gauge:overdistributed", fmt.Sprintf("%s gauge %d %s distributed %s of %s", where, id, c.Denom, c.Amount, g.coins.AmountOf(c.Denom)))
					}
				}
				if g.status != "F" {
					rem, neg := g.coins.SafeSub(g.dist...)
					if !neg {
						need = need.Add(rem...)
					}
				}
			}
			for _, c := range need {
				if bk.GetBalance(ctx, modAddr, c.Denom).Amount.LT(c.Amount) {
					o.Fail("module:balance<remaining", fmt.Sprintf("%s %s module holds %s, unfinished gauges still owe %s", where, c.Denom, bk.GetBalance(ctx, modAddr, c.Denom).Amount, c.Amount))
				}
			}
		}
		randCoins := func(allowBad bool) sdk.Coins {
			k := 1 + r.Intn(3)
			cs := sdk.Coins{}
			for i := 0; i < k; i++ {
				d := rewardDenoms[r.Intn(len(rewardDenoms))]
				if allowBad && r.Intn(25) == 0 {
					d = "rewc" // no route at all
				}
				var a int64
				switch r.Intn(8) {
				case 6:
					a = int64(1+r.Intn(1000)) * 10_000
				case 7:
					a = int64(1 + r.Intn(100_000_000))
				case 0:
					a = int64(1 + r.Intn(100)) // spam range
				case 1:
					a = int64(101 + r.Intn(900))
				case 2:
					a = int64(1+r.Intn(6)) * 1000
				case 3:
					a = int64(1 + r.Intn(1_000_000))
				case 4:
					a = int64(1+r.Intn(9)) * 100_000
				default:
					a = int64(1 + r.Intn(50_000))
				}
				cs = cs.Add(sdk.NewCoin(d, osmomath.NewIntFromBigInt(scaleUp(a))))
			}
			return cs
		}

		dumpObs := func() string {
			gs, up, act, fin := readGauges(h.Ctx)
			var p []string
			for _, id := range sortedIds(gs) {
				g := gs[id]
				pf := 0
				if g.perpetual {
					pf = 1
				}
				p = append(p, fmt.Sprintf("%d:%d:%s:%d:%s:%s:%d:%d:%d", id, pf, g.denom, int64(g.dur), coinsStr(g.coins), coinsStr(g.dist), g.start.UnixNano(), g.n, g.filled))
			}
			return fmt.Sprintf("last=%d gauges=[%s] up=%s act=%s fin=%s bal=%s", ik.GetLastGaugeID(h.Ctx), strings.Join(p, ";"), incIdsStr(up), incIdsStr(act), incIdsStr(fin), coinsStr(rewardBal(h.Ctx, modAddr)))
		}
		{
			var upIds []uint64
			for i, g := range existing {
				if g.Id != uint64(i+1) || g.DistributeTo.LockQueryType != lockuptypes.ByDuration || !g.StartTime.Equal(now) {
					o.Fail("engine:unexpected-genesis-gauge", fmt.Sprint(g.Id))
				}
				upIds = append(upIds, g.Id)
				pf := 0
				if g.IsPerpetual {
					pf = 1
				}
				emit(fmt.Sprintf("incentives creategauge %d %s %d %s %d %d", pf, g.DistributeTo.Denom, int64(g.DistributeTo.Duration), coinsStr(g.Coins), g.StartTime.UnixNano(), g.NumEpochsPaidOver),
					fmt.Sprintf("ok %d up=%s bal=%s", g.Id, incIdsStr(upIds), coinsStr(rewardBal(h.Ctx, modAddr))), false)
			}
		}

		emit("incentives dump", dumpObs(), false)

		// exportImport: the REAL ExportGenesis (through the JSON codec), every key of the incentives store deleted
		// (records, the three reference stores, last id, lockable durations, by-denom index), then the REAL InitGenesis
		// at the current block time.  Bank, lockup, protorev, pool-incentives are other modules and stay.
		// Oracle (C19): every NOT-finished gauge keeps all its fields, sits in the store its fields + the block time
		// dictate, last id and lockable durations are restored, nothing appears.  What the code is SEEN to lose
		// (finished gauges are not exported) is a counter unless VERIF_EXPORT_IMPORT_LOSSES=fail.
		loss := func(key, detail string) {
			if os.Getenv("VERIF_EXPORT_IMPORT_LOSSES") != "count" {
				o.Fail(key, detail)
			} else {
				o.Count("exportimport.LOSS." + key)
			}
		}
		exportImport := func() {
			ctx := h.Ctx
			pre, _, _, _ := readGauges(ctx)
			preRaw := rawStoreMap(ctx, h.App.GetKey(incentivestypes.StoreKey))
			preLast := ik.GetLastGaugeID(ctx)
			preLockable := fmt.Sprint(ik.GetLockableDurations(ctx))
			cdc := h.App.AppCodec()
			line := fmt.Sprintf("incentives exportimport %d", now.UnixNano())
			var bz []byte
			if !catch(func() { bz = cdc.MustMarshalJSON(ik.ExportGenesis(ctx)) }) {
				emit(line, "panic", true)
				o.Fail("incentives:export-import:export-panics", "")
				return
			}
			store := ctx.KVStore(h.App.GetKey(incentivestypes.StoreKey))
			var keys [][]byte
			it := store.Iterator(nil, nil)
			for ; it.Valid(); it.Next() {
				keys = append(keys, append([]byte{}, it.Key()...))
			}
			it.Close()
			for _, key := range keys {
				store.Delete(key)
			}
			var gs incentivestypes.GenesisState
			if !catch(func() { cdc.MustUnmarshalJSON(bz, &gs); ik.InitGenesis(ctx, gs) }) {
				emit(line, "panic", true)
				o.Fail("incentives:export-import:import-panics", "")
				return
			}
			emit(line, "ok", true)
			o.Count("exportimport")
			post, _, _, _ := readGauges(ctx)
			for _, id := range sortedIds(pre) {
				g, pg := pre[id], post[id]
				if g.status == "F" {
					if pg == nil {
						loss("incentives:export-import:finished-gauge-not-exported", fmt.Sprintf("gauge %d (filled %d of %d, distributed %s of %s)", id, g.filled, g.n, coinsStr(g.dist), coinsStr(g.coins)))
						if g.perpetual || g.filled < g.n {
							o.Count("exportimport.dropped-finished-gauge-that-still-accepts-topups")
						}
					}
					continue
				}
				if pg == nil {
					o.Fail("incentives:export-import:unfinished-gauge-dropped", fmt.Sprintf("gauge %d status %s", id, g.status))
					continue
				}
				if pg.perpetual != g.perpetual || pg.denom != g.denom || pg.dur != g.dur || !pg.coins.Equal(g.coins) || !pg.dist.Equal(g.dist) ||
					!pg.start.Equal(g.start) || pg.n != g.n || pg.filled != g.filled {
					o.Fail("incentives:export-import:gauge-fields", fmt.Sprintf("gauge %d", id))
				}
				want := "A"
				if now.Before(g.start) {
					want = "U"
				}
				if pg.status != want {
					o.Fail("incentives:export-import:status-not-by-fields-and-time", fmt.Sprintf("gauge %d was %s is %s expected %s", id, g.status, pg.status, want))
				}
				if pg.status != g.status {
					o.Count("exportimport.reclassified." + g.status + "->" + pg.status) // F36
				}
			}
			for _, id := range sortedIds(post) {
				if pre[id] == nil {
					o.Fail("incentives:export-import:gauge-appeared", fmt.Sprint(id))
				}
			}
			if l := ik.GetLastGaugeID(ctx); l != preLast {
				o.Fail("incentives:export-import:last-gauge-id", fmt.Sprintf("%d -> %d", preLast, l))
			}
			if l := fmt.Sprint(ik.GetLockableDurations(ctx)); l != preLockable {
				o.Fail("incentives:export-import:lockable-durations", preLockable+" -> "+l)
			}
			incentivesDerivedOracle(o, preRaw, rawStoreMap(ctx, h.App.GetKey(incentivestypes.StoreKey)), func(id uint64) (string, bool) {
				g := pre[id]
				if g == nil {
					return "", false
				}
				if g.status != "F" && !now.Before(g.start) {
					return "A", true
				}
				return g.status, true
			})
			var ld []string
			for _, d := range ik.GetLockableDurations(ctx) {
				ld = append(ld, fmt.Sprint(int64(d)))
			}
			emit("incentives lockable", "ok "+strings.Join(ld, ","), false)
			emit("incentives dump", dumpObs(), true)
			checkInvariants(ctx, "exportimport")
		}

		nEpochs := 4 + r.Intn(9)
		for ep := 0; ep < nEpochs && lines < n; ep++ {
			// ---------------- between epochs: gauge and lock operations
			nOps := 1 + r.Intn(6)
			if ep == 0 {
				nOps += 3
			}
			for k := 0; k < nOps; k++ {
				if r.Intn(8) == 0 {
					exportImport()
				}
				switch x := r.Intn(20); {
				case x < 5: // create gauge
					perp := r.Intn(3) == 0
					numEpochs := uint64(1 + r.Intn(6))
					if perp {
						numEpochs = 1
						if r.Intn(4) == 0 {
							numEpochs = uint64(r.Intn(4)) // keeper level: ignored for perpetual gauges
						}
					} else if r.Intn(15) == 0 {
						numEpochs = 0 // rejected
					}
					denom := lockDenoms[r.Intn(2)]
					if r.Intn(25) == 0 {
						denom = "lpc" // no supply
					}
					dur := lockable[r.Intn(len(lockable))]
					if r.Intn(25) == 0 {
						dur = 2 * time.Hour // not lockable
					}
					coins := randCoins(true)
					if r.Intn(12) == 0 {
						coins = sdk.Coins{}
					}
					var start time.Time
					switch r.Intn(6) {
					case 0:
						start = now.Add(-2 * time.Hour)
					case 1:
						start = now
					case 2:
						start = now.Add(30 * time.Minute)
					case 3:
						start = now.Add(time.Hour) // exactly the next epoch's block time
					case 4:
						start = now.Add(time.Hour + time.Nanosecond)
					default:
						start = now.Add(time.Duration(1+r.Intn(4)) * time.Hour)
					}
					h.FundAcc(creator, coins)
					cctx, write := h.Ctx.CacheContext()
					var id uint64
					var err error
					ok := catch(func() {
						id, err = ik.CreateGauge(cctx, perp, creator, coins, lockuptypes.QueryCondition{LockQueryType: lockuptypes.ByDuration, Denom: denom, Duration: dur}, start, numEpochs, 0)
					})
					pf := 0
					if perp {
						pf = 1
					}
					line := fmt.Sprintf("incentives creategauge %d %s %d %s %d %d", pf, denom, int64(dur), coinsStr(coins), start.UnixNano(), numEpochs)
					if !ok || err != nil {
						emit(line, "err", true)
						o.Count("creategauge.err")
					} else {
						write()
						_, up, _, _ := readGauges(h.Ctx)
						emit(line, fmt.Sprintf("ok %d up=%s bal=%s", id, incIdsStr(up), coinsStr(rewardBal(h.Ctx, modAddr))), true)
						o.Count("creategauge.ok")
						if perp {
							o.Count("creategauge.perpetual")
						}
						if !start.After(now) {
							o.Count("creategauge.start<=now")
						}
					}
					checkInvariants(h.Ctx, line)
				case x < 8: // top up
					last := ik.GetLastGaugeID(h.Ctx)
					id := uint64(1 + r.Intn(int(last)+2))
					coins := randCoins(true)
					h.FundAcc(creator, coins)
					pre, _, _, _ := readGauges(h.Ctx)
					cctx, write := h.Ctx.CacheContext()
					var err error
					ok := catch(func() { err = ik.AddToGaugeRewards(cctx, creator, coins, id) })
					line := fmt.Sprintf("incentives addtogauge %d %s %d", id, coinsStr(coins), now.UnixNano())
					if !ok || err != nil {
						emit(line, "err", true)
						o.Count("addtogauge.err")
						post, _, _, _ := readGauges(h.Ctx)
						for gid, g := range pre {
							if !post[gid].coins.Equal(g.coins) {
								o.Fail("failed-op:changed-state", line)
							}
						}
					} else {
						write()
						g, _ := ik.GetGaugeByID(h.Ctx, id)
						emit(line, fmt.Sprintf("ok %s bal=%s", coinsStr(g.Coins), coinsStr(rewardBal(h.Ctx, modAddr))), true)
						o.Count("addtogauge.ok")
						if p := pre[id]; p != nil {
							o.Count("addtogauge.to-" + p.status)
							if !g.Coins.Equal(p.coins.Add(coins...)) {
								o.Fail("addtogauge:coins", line)
							}
						}
					}
					checkInvariants(h.Ctx, line)
				case x < 13: // lock tokens (same owner+denom+duration tops up the existing lock)
					ow := r.Intn(3)
					denom := lockDenoms[r.Intn(2)]
					dur := lockDurs[r.Intn(len(lockDurs))]
					amt := int64(1 + r.Intn(1000))
					if r.Intn(4) == 0 {
						amt = int64(1+r.Intn(5)) * 100
					}
					amtB := scaleUp(amt)
					coins := sdk.NewCoins(sdk.NewCoin(denom, osmomath.NewIntFromBigInt(amtB)))
					h.FundAcc(addrs[ow], coins)
					cctx, write := h.Ctx.CacheContext()
					var resp *lockuptypes.MsgLockTokensResponse
					var err error
					ok := catch(func() { resp, err = lms.LockTokens(cctx, lockuptypes.NewMsgLockTokens(addrs[ow], dur, coins)) })
					if ok && err == nil {
						write()
						if l := book[resp.ID]; l != nil {
							l.amt.Add(l.amt, amtB)
							o.Count("lock.topup")
						} else {
							book[resp.ID] = &incLock{resp.ID, ow, -1, dur, denom, new(big.Int).Set(amtB), false, time.Time{}}
							o.Count("lock.new")
						}
					} else {
						o.Count("lock.err")
					}
				case x < 16: // begin unlocking (all or part)
					var cand []*incLock
					for _, l := range book {
						if !l.unlocking {
							cand = append(cand, l)
						}
					}
					if len(cand) == 0 {
						continue
					}
					sort.Slice(cand, func(i, j int) bool { return cand[i].id < cand[j].id })
					l := cand[r.Intn(len(cand))]
					coins := sdk.Coins{}
					part := new(big.Int).Set(l.amt)
					if r.Intn(2) == 0 && l.amt.Cmp(big.NewInt(1)) > 0 {
						part = new(big.Int).Add(big.NewInt(1), new(big.Int).Rand(r, new(big.Int).Sub(l.amt, big.NewInt(1))))
						coins = sdk.NewCoins(sdk.NewCoin(l.denom, osmomath.NewIntFromBigInt(part)))
					}
					cctx, write := h.Ctx.CacheContext()
					var resp *lockuptypes.MsgBeginUnlockingResponse
					var err error
					ok := catch(func() { resp, err = lms.BeginUnlocking(cctx, lockuptypes.NewMsgBeginUnlocking(addrs[l.owner], l.id, coins)) })
					if ok && err == nil {
						write()
						if resp.UnlockingLockID == l.id {
							l.unlocking = true
							l.end = now.Add(l.dur)
							o.Count("unlock.full")
						} else {
							l.amt.Sub(l.amt, part)
							book[resp.UnlockingLockID] = &incLock{resp.UnlockingLockID, l.owner, l.recv, l.dur, l.denom, part, true, now.Add(l.dur)}
							o.Count("unlock.split")
						}
					} else {
						o.Count("unlock.err")
					}
				case x < 19: // change the reward receiver of one lock
					var cand []*incLock
					for _, l := range book {
						cand = append(cand, l)
					}
					if len(cand) == 0 {
						continue
					}
					sort.Slice(cand, func(i, j int) bool { return cand[i].id < cand[j].id })
					l := cand[r.Intn(len(cand))]
					to := r.Intn(5)
					cctx, write := h.Ctx.CacheContext()
					var err error
					ok := catch(func() { _, err = lms.SetRewardReceiverAddress(cctx, lockuptypes.NewMsgSetRewardReceiverAddress(addrs[l.owner], addrs[to], l.id)) })
					if ok && err == nil {
						write()
						if to == l.owner {
							l.recv = -1
						} else {
							l.recv = to
						}
						o.Count("receiver.set")
					} else {
						o.Count("receiver.err")
					}
				default: // the pool-priced denom rewb loses / regains its protorev route
					routed["rewb"] = !routed["rewb"]
					setRoutes()
					emit("incentives routes "+routedCsv(), "ok", false)
					o.Count("routes.toggle")
				}
			}

			// ---------------- the epoch
			step := time.Hour
			if r.Intn(5) == 0 {
				step = time.Duration(1+r.Intn(3)) * time.Hour
			}
			now = now.Add(step)
			h.Ctx = h.Ctx.WithBlockTime(now).WithBlockHeight(h.Ctx.BlockHeight() + 1)
			// the lockup end blocker withdraws matured unlocking locks
			if r.Intn(4) != 0 {
				lk.WithdrawMaturedLocks(h.Ctx, 1000)
				for id, l := range book {
					if l.unlocking && !l.end.After(now) {
						delete(book, id)
						o.Count("lock.matured")
					}
				}
			}
			ctx := h.Ctx
			// lock snapshot: the query the distribution itself uses, per lock denom
			var lockStrs []string
			seen := map[uint64]bool{}
			for _, d := range lockDenoms {
				for _, l := range lk.GetLocksLongerThanDurationDenom(ctx, d, time.Millisecond) {
					oi, okk := addrIdx[l.Owner]
					if !okk {
						o.Fail("engine:unknown-owner", l.Owner)
						continue
					}
					rv := "-"
					if l.RewardReceiverAddress != "" {
						rv = fmt.Sprint(addrIdx[l.RewardReceiverAddress])
					}
					unl := 0
					if l.IsUnlocking() {
						unl = 1
					}
					lockStrs = append(lockStrs, fmt.Sprintf("%d:%d:%s:%d:%s:%s:%d", l.ID, oi, rv, int64(l.Duration), d, l.Coins.AmountOf(d), unl))
					seen[l.ID] = true
					// the query must agree with the engine's own book of lock operations
					b := book[l.ID]
					brv := "-"
					if b != nil && b.recv >= 0 {
						brv = fmt.Sprint(b.recv)
					}
					if b == nil || b.owner != oi || brv != rv || b.dur != l.Duration || b.denom != d || b.amt.Cmp(l.Coins.AmountOf(d).BigInt()) != 0 || b.unlocking != l.IsUnlocking() {
						o.Fail("locks:query-mismatch", fmt.Sprintf("lock %d", l.ID))
					}
				}
			}
			for id := range book {
				if !seen[id] {
					o.Fail("locks:query-mismatch", fmt.Sprintf("lock %d missing from query", id))
				}
			}
			locksArg := "-"
			if len(lockStrs) > 0 {
				locksArg = strings.Join(lockStrs, ";")
			}
			thr := thresholds(ctx)
			var thrStrs []string
			for _, d := range rewardDenoms {
				if v, okk := thr[d]; okk {
					thrStrs = append(thrStrs, d+"="+v.String())
				}
			}
			line := fmt.Sprintf("incentives epoch %d %s %s", now.UnixNano(), strings.Join(thrStrs, ","), locksArg)

			pre, _, preAct, _ := readGauges(ctx)
			preBal := make([]sdk.Coins, len(addrs))
			for i, a := range addrs {
				preBal[i] = rewardBal(ctx, a)
			}
			preMod := rewardBal(ctx, modAddr)
			cctx, write := ctx.CacheContext()
			var err error
			ok := catch(func() { err = ik.AfterEpochEnd(cctx, ident, int64(ep+1)) })
			if !ok || err != nil {
				emit(line, "err", true)
				o.Count("epoch.err")
				o.Fail("epoch:hook-failed", fmt.Sprintf("%s: %v", line, err))
				continue
			}
			write()
			post, up, act, fin := readGauges(ctx)
			delta := make([]sdk.Coins, len(addrs))
			var payStrs []string
			for i, a := range addrs {
				d, neg := rewardBal(ctx, a).SafeSub(preBal[i]...)
				if neg {
					o.Fail("payout:balance-decreased", line)
				}
				delta[i] = d
				if !d.IsZero() {
					payStrs = append(payStrs, fmt.Sprintf("%d:%s", i, coinsStr(d)))
				}
			}
			var gStrs []string
			for _, id := range sortedIds(post) {
				gStrs = append(gStrs, fmt.Sprintf("%d:%d:%s", id, post[id].filled, coinsStr(post[id].dist)))
			}
			emit(line, fmt.Sprintf("ok pay=[%s] up=%s act=%s fin=%s g=[%s] bal=%s", strings.Join(payStrs, ";"), incIdsStr(up), incIdsStr(act), incIdsStr(fin), strings.Join(gStrs, ";"), coinsStr(rewardBal(ctx, modAddr))), true)
			o.Count("epoch.ok")
			o.Count(fmt.Sprintf("epoch.active-own-gauges%d", min(len(act)-min(len(act), len(existing)), 6)))
			o.Count(fmt.Sprintf("epoch.locks%d", min(len(lockStrs)/3*3, 12)))

			// ================= property oracle =================
			expect := make([]map[string]*big.Int, len(addrs)) // expected receipts per address and denom
			for i := range expect {
				expect[i] = map[string]*big.Int{}
			}
			spamExpect := make([]map[string]*big.Int, len(addrs)) // what the spam rule withheld (counted separately)
			for i := range spamExpect {
				spamExpect[i] = map[string]*big.Int{}
			}
			multiRecvOwner := false
			ownerRecv := map[int]int{} // over all paying gauges of this epoch
			_ = preAct
			for _, id := range sortedIds(pre) {
				g := pre[id]
				pg := post[id]
				if pg == nil {
					o.Fail("refs:gauge-vanished", fmt.Sprintf("%s gauge %d", line, id))
					continue
				}
				// --- schedule: upcoming -> active exactly when start <= block time
				if g.status == "U" {
					due := !g.start.After(now)
					if pg.status != "U" && !due {
						o.Fail("schedule:activated-early", fmt.Sprintf("%s gauge %d start %d", line, id, g.start.UnixNano()))
					}
					if pg.status == "U" && due {
						o.Fail("schedule:not-activated-at-start", fmt.Sprintf("%s gauge %d start %d", line, id, g.start.UnixNano()))
					}
					if due {
						o.Count("oracle.activated")
						if g.start.Equal(now) {
							o.Count("oracle.activated-exactly-at-start")
						}
					}
				}
				if g.status == "F" {
					if pg.status != "F" || !pg.dist.Equal(g.dist) || pg.filled != g.filled {
						o.Fail("finished:paid", fmt.Sprintf("%s gauge %d", line, id))
					}
					continue
				}
				activeNow := g.status == "A" || (g.status == "U" && !g.start.After(now))
				if !activeNow {
					if !pg.dist.Equal(g.dist) || pg.filled != g.filled {
						o.Fail("schedule:upcoming-gauge-paid", fmt.Sprintf("%s gauge %d", line, id))
					}
					continue
				}
				// --- qualifying locks, from the engine's own book
				var q []*incLock
				for _, l := range book {
					if l.denom == g.denom && l.dur >= g.dur {
						q = append(q, l)
					}
				}
				sort.Slice(q, func(i, j int) bool { return q[i].id < q[j].id })
				lockSum := new(big.Int)
				for _, l := range q {
					lockSum.Add(lockSum, l.amt)
				}
				remaining, neg := g.coins.SafeSub(g.dist...)
				if neg {
					continue // reported as gauge:overdistributed
				}
				remEpochs := int64(1)
				if !g.perpetual {
					remEpochs = int64(g.n) - int64(g.filled)
				}
				paying := len(q) > 0 && len(g.coins) > 0 && remEpochs > 0
				spam := len(remaining) == 1 && remaining[0].Amount.LTE(osmomath.NewInt(100)) && remaining[0].Denom != "stake"
				if spam && paying {
					o.Count("oracle.gauge-in-spam-range")
				}
				gaugeTotal := map[string]*big.Int{}
				if paying {
					payingEpochs[id]++
					o.Count("oracle.gauge-paying-epoch")
					for _, l := range q {
						for _, c := range remaining {
							x := ratFloor(new(big.Rat).SetFrac(new(big.Int).Mul(c.Amount.BigInt(), l.amt), new(big.Int).Mul(lockSum, big.NewInt(remEpochs))))
							v, routedOk := thr[c.Denom]
							if !routedOk {
								o.Count("oracle.skipped-not-valuable-at-all")
								continue
							}
							if x.Cmp(v) < 0 {
								o.Count("oracle.skipped-below-minimum")
								continue
							}
							if x.Sign() == 0 {
								continue
							}
							to := l.recv
							if to < 0 {
								to = l.owner
							}
							// `expect` is what the property promises; `spamExpect` the part of it owed by gauges that the
							// code's spam rule (single remaining coin of at most 100 units, not "stake") silently skips
							addTo := func(tgt []map[string]*big.Int) {
								if tgt[to][c.Denom] == nil {
									tgt[to][c.Denom] = new(big.Int)
								}
								tgt[to][c.Denom].Add(tgt[to][c.Denom], x)
							}
							addTo(expect)
							if spam {
								addTo(spamExpect)
							}
							if gaugeTotal[c.Denom] == nil {
								gaugeTotal[c.Denom] = new(big.Int)
							}
							gaugeTotal[c.Denom].Add(gaugeTotal[c.Denom], x)
							o.Count("oracle.lock-payout")
						}
					}
					// does one owner hold qualifying locks with different receivers?
					for _, l := range q {
						to := l.recv
						if to < 0 {
							to = l.owner
						}
						if prev, okk := ownerRecv[l.owner]; okk && prev != to {
							multiRecvOwner = true
						}
						ownerRecv[l.owner] = to
					}
				} else {
					o.Count("oracle.gauge-active-no-qualifying-lock")
				}
				// per gauge: distributed grows by exactly what its locks were owed
				for _, d := range rewardDenoms {
					got := new(big.Int).Sub(pg.dist.AmountOf(d).BigInt(), g.dist.AmountOf(d).BigInt())
					want := gaugeTotal[d]
					if want == nil {
						want = new(big.Int)
					}
					if got.Cmp(want) != 0 {
						if spam && got.Sign() == 0 {
							o.Fail("payout:not-floor-share:spam-rule-single-denom-remaining<=100", fmt.Sprintf("%s gauge %d remaining %s paid nothing", line, id, coinsStr(remaining)))
						} else {
							o.Fail("payout:not-floor-share:gauge-total", fmt.Sprintf("%s gauge %d %s distributed +%s want +%s", line, id, d, got, want))
						}
					}
				}
				// --- filled epochs and finishing
				wantFilled := g.filled
				if paying {
					wantFilled++
				}
				if pg.filled != wantFilled {
					o.Fail("schedule:filled-epochs", fmt.Sprintf("%s gauge %d filled %d want %d", line, id, pg.filled, wantFilled))
				}
				if g.perpetual {
					if pg.status == "F" {
						o.Fail("schedule:perpetual-finished", fmt.Sprintf("%s gauge %d", line, id))
					}
				} else {
					shouldFinish := payingEpochs[id] >= g.n
					if (pg.status == "F") != shouldFinish {
						key := "schedule:finished-wrong-epoch"
						if pg.status == "F" && !paying {
							key += ":last-epoch-without-qualifying-lock"
						}
						o.Fail(key, fmt.Sprintf("%s gauge %d numEpochs %d paying epochs %d filled %d status %s", line, id, g.n, payingEpochs[id], pg.filled, pg.status))
					}
					if pg.status == "F" {
						everFinished[id] = true
						o.Count("oracle.finished")
					}
				}
			}
			// --- receipts: every address got exactly the floor shares addressed to it, nobody anything else
			gotTot := map[string]*big.Int{}
			cmp := func(withSpam bool) (mismatch bool, totalsMatch bool) {
				wantTot := map[string]*big.Int{}
				for _, d := range rewardDenoms {
					gotTot[d], wantTot[d] = new(big.Int), new(big.Int)
				}
				for i := range addrs {
					for _, d := range rewardDenoms {
						got := delta[i].AmountOf(d).BigInt()
						want := new(big.Int)
						if expect[i][d] != nil {
							want.Set(expect[i][d])
						}
						if !withSpam && spamExpect[i][d] != nil {
							want.Sub(want, spamExpect[i][d])
						}
						gotTot[d].Add(gotTot[d], got)
						wantTot[d].Add(wantTot[d], want)
						if got.Cmp(want) != 0 {
							mismatch = true
						}
					}
				}
				totalsMatch = true
				for _, d := range rewardDenoms {
					if gotTot[d].Cmp(wantTot[d]) != 0 {
						totalsMatch = false
					}
				}
				return
			}
			if mismatch, totalsMatch := cmp(true); mismatch {
				mm2, tm2 := cmp(false)
				switch {
				case totalsMatch && multiRecvOwner:
					o.Fail("payout:wrong-receiver:owner-has-qualifying-locks-with-different-receivers", fmt.Sprintf("%s got %v", line, payStrs))
				case totalsMatch:
					o.Fail("payout:wrong-receiver", fmt.Sprintf("%s got %v", line, payStrs))
				case !mm2:
					o.Fail("payout:not-floor-share:spam-rule-single-denom-remaining<=100", fmt.Sprintf("%s got %v", line, payStrs))
				case tm2 && multiRecvOwner: // both deviations in one epoch
					o.Fail("payout:not-floor-share:spam-rule-single-denom-remaining<=100", fmt.Sprintf("%s got %v", line, payStrs))
					o.Fail("payout:wrong-receiver:owner-has-qualifying-locks-with-different-receivers", fmt.Sprintf("%s got %v", line, payStrs))
				default:
					o.Fail("payout:not-floor-share:receipts", fmt.Sprintf("%s got %v", line, payStrs))
				}
			}
			// module account pays exactly what was received
			modDelta, neg := preMod.SafeSub(rewardBal(ctx, modAddr)...)
			if neg {
				o.Fail("module:balance-grew-in-epoch", line)
			}
			for _, d := range rewardDenoms {
				if modDelta.AmountOf(d).BigInt().Cmp(gotTot[d]) != 0 {
					o.Fail("module:paid!=received", line)
				}
			}
			checkInvariants(ctx, line)
		}
		emit("incentives dump", dumpObs(), false)
	}
	o.Close(nil)
}
