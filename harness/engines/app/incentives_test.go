package app_test

// Engine `incentives` (property C09): REAL x/incentives + x/lockup keepers through the app.
// A history = one chain state: 3 lock owners (+2 pure reward receivers, +1 gauge creator), 2 lock denoms,
// lock durations around the lockable set, 6 reward denoms (base denom, "stake", two balancer-priced denoms, one of which can lose
// its protorev route, "rewe" priced by a balancer pool that in some histories is so expensive that the pool's quote of the
// minimum FAILS (the denom is then not valuable in that epoch; before repository fix d4c28ad126 the whole hook failed), "rewz"
// priced by a concentrated pool that in half of the histories quotes the minimum as 0 (every positive share is then owed;
// before af3cbe6371 only the first lock was paid), a configured
// minimum of 0 / 1 .. 10000 / 1e15, lock-based gauges perpetual / non-perpetual (1..6 epochs) starting before / at / after "now", top-ups.
// Between epochs locks are created / topped up / begin unlocking (fully or split) / change their reward receiver / mature.
// An epoch = incentives.AfterEpochEnd(distribution epoch identifier) on a context whose block time advanced, inside a cache
// context (as the epochs module's hook wrapper does).  The epoch op line carries the lock snapshot read from the lockup
// keeper with the very query the distribution uses, and the quote table the real filter will obtain (per routed denom: the
// amount CalcOutAmtGivenIn(route pool, minimum) returns, or `!` when that call fails).
// The ORACLE shares nothing with the Lean model: own lock book + big.Rat floor shares + own schedule counters; it states the
// property's clause: a qualifying lock's share is skipped iff it is worth less than the configured minimum converted through the
// route's pool quote, or the denom has no route.

import (
	"os"
	"fmt"
	"math/big"
	"math/rand"
	"sort"
	"strings"
	"testing"
	"time"

	storetypes "cosmossdk.io/store/types"
	sdk "github.com/cosmos/cosmos-sdk/types"

	"github.com/osmosis-labs/osmosis/osmomath"
	appparams "github.com/osmosis-labs/osmosis/v31/app/params"
	incentivestypes "github.com/osmosis-labs/osmosis/v31/x/incentives/types"
	lockupkeeper "github.com/osmosis-labs/osmosis/v31/x/lockup/keeper"
	lockuptypes "github.com/osmosis-labs/osmosis/v31/x/lockup/types"
	poolincentivestypes "github.com/osmosis-labs/osmosis/v31/x/pool-incentives/types"
)

type incLock struct {
	id        uint64
	owner     int
	recv      int // -1 = owner
	dur       time.Duration
	denom     string
	amt       *big.Int
	unlocking bool
	end       time.Time
}

type incGaugeObs struct {
	id        uint64
	perpetual bool
	denom     string
	dur       time.Duration
	coins     sdk.Coins
	dist      sdk.Coins
	start     time.Time
	n         uint64
	filled    uint64
	status    string // U / A / F by the reference stores
}

func coinsStr(c sdk.Coins) string {
	if len(c) == 0 {
		return "-"
	}
	var p []string
	for _, x := range c.Sort() {
		p = append(p, x.Denom+"="+x.Amount.String())
	}
	return strings.Join(p, ",")
}

func incIdsStr(ids []uint64) string {
	var p []string
	for _, i := range ids {
		p = append(p, fmt.Sprint(i))
	}
	return "[" + strings.Join(p, ",") + "]"
}

// restoreRawStore puts a module store back to a recorded content (keys added since are deleted, changed ones rewritten).
func restoreRawStore(ctx sdk.Context, key storetypes.StoreKey, want map[string]string) {
	store := ctx.KVStore(key)
	for k, v := range rawStoreMap(ctx, key) {
		if w, ok := want[k]; !ok {
			store.Delete([]byte(k))
		} else if w != v {
			store.Set([]byte(k), []byte(w))
		}
	}
	for k, w := range want {
		if !store.Has([]byte(k)) {
			store.Set([]byte(k), []byte(w))
		}
	}
}

func runIncentives(t *testing.T, seed int64, n int, dir string) {
	r := rand.New(rand.NewSource(seed))
	o := NewOut(dir)
	h := newH(t)
	base := appparams.BaseCoinUnit
	rewardDenoms := []string{"rewa", "rewb", "rewe", "rewz", "stake", base} // sorted
	sort.Strings(rewardDenoms)
	lockDenoms := []string{"lpa", "lpb"}
	var lockable []time.Duration // the chain's lockable durations (1s, 1h, 3h, 7h in the test genesis), read per history
	lockDurs := []time.Duration{30 * time.Minute, time.Hour, 2 * time.Hour, 3 * time.Hour, 7 * time.Hour, 10 * time.Hour}
	var addrs []sdk.AccAddress
	for i := 0; i < 5; i++ {
		addrs = append(addrs, sdk.AccAddress([]byte(fmt.Sprintf("c09_account________%d", i))))
	}
	creator := sdk.AccAddress([]byte("c09_gauge_creator___"))
	addrIdx := map[string]int{}
	for i, a := range addrs {
		addrIdx[a.String()] = i
	}
	lines := 0
	emit := func(op, obs string, nt bool) { o.Emit(op, obs, nt); lines++ }

	for lines < n {
		h.Reset()
		ik := h.App.IncentivesKeeper
		lk := h.App.LockupKeeper
		bk := h.App.BankKeeper
		lms := lockupkeeper.NewMsgServerImpl(lk)
		// magnitude class of this history: now and then lock amounts and gauge coins around 2^118..2^134 each (valid
		// bank amounts whose PRODUCT exceeds 2^256: only the quotient of the share computation has to fit)
		huge := r.Intn(7) == 0
		if huge {
			o.Count("history.huge-magnitudes")
		}
		scaleUp := func(a int64) *big.Int {
			v := big.NewInt(a)
			if huge && r.Intn(5) != 0 {
				v.Lsh(v, uint(110+r.Intn(14)))
				v.Add(v, big.NewInt(int64(r.Intn(1000))))
			}
			return v
		}
		now := time.Unix(1_700_000_000, 0).UTC().Add(time.Duration(r.Intn(1000)) * time.Second)
		h.Ctx = h.Ctx.WithBlockTime(now)
		modAddr := h.App.AccountKeeper.GetModuleAddress(incentivestypes.ModuleName)
		ident := ik.GetParams(h.Ctx).DistrEpochIdentifier
		lockable = ik.GetLockableDurations(h.Ctx)

		// ---- the configured minimum: 0 (a zero input: balancer quotes fail, the concentrated pool quotes 0), tiny .. default, huge
		minAmt := []int64{1, 10, 150, 1000, 10000, 10000, 1, 150}[r.Intn(8)]
		switch r.Intn(16) {
		case 0:
			minAmt = 0
		case 1:
			minAmt = 1_000_000_000_000_000
		}
		minCoin := sdk.NewCoin(base, osmomath.NewInt(minAmt))
		ik.SetParam(h.Ctx, incentivestypes.KeyMinValueForDistr, minCoin)
		// ---- price routes registered in protorev: base<->d balancer pools; rewe: in 1 of 4 histories a balancer pool in which one
		// unit of rewe costs 1e9 base units (the quote of a minimum below that rounds to 0: the balancer pool returns an ERROR);
		// rewz: a concentrated pool (full-range position), in half of the histories at 1e9 base units per unit (the quote of the
		// minimum is 0, without error).  The concentrated pool's own NoLock gauge is outside the modelled fragment: the
		// incentives and pool-incentives stores are put back to what they were before that pool was created.
		pools := map[string]uint64{}
		reserves := map[string][2]int64{} // d -> (base reserve, d reserve) at creation: the oracle's own idea of the price
		exp := map[string]bool{"rewe": r.Intn(4) == 0, "rewz": r.Intn(2) == 0}
		for _, d := range rewardDenoms {
			if d == base {
				continue
			}
			ratio := []int64{2, 3, 10, 50}[r.Intn(4)]
			rb, rd := int64(1_000_000), 1_000_000*ratio
			if exp[d] {
				rb, rd = 1_000_000_000_000, 1000
				o.Count("history.expensive-" + d)
			}
			reserves[d] = [2]int64{rb, rd}
			if d == "rewz" {
				preInc := rawStoreMap(h.Ctx, h.App.GetKey(incentivestypes.StoreKey))
				prePI := rawStoreMap(h.Ctx, h.App.GetKey(poolincentivestypes.StoreKey))
				p := h.PrepareCustomConcentratedPool(h.TestAccs[0], d, base, 100, osmomath.ZeroDec())
				h.CreateFullRangePosition(p, sdk.NewCoins(sdk.NewCoin(d, osmomath.NewInt(rd)), sdk.NewCoin(base, osmomath.NewInt(rb))))
				restoreRawStore(h.Ctx, h.App.GetKey(incentivestypes.StoreKey), preInc)
				restoreRawStore(h.Ctx, h.App.GetKey(poolincentivestypes.StoreKey), prePI)
				pools[d] = p.GetId()
				continue
			}
			pid := h.PrepareBalancerPoolWithCoins(sdk.NewCoin(base, osmomath.NewInt(rb)), sdk.NewCoin(d, osmomath.NewInt(rd)))
			pools[d] = pid
		}
		routed := map[string]bool{"rewa": true, "rewb": true, "rewe": true, "rewz": true, "stake": true}
		setRoutes := func() {
			for _, d := range rewardDenoms {
				h.App.ProtoRevKeeper.DeleteAllPoolsForBaseDenom(h.Ctx, d)
			}
			for _, d := range rewardDenoms {
				if d != base && routed[d] {
					h.App.ProtoRevKeeper.SetPoolForDenomPair(h.Ctx, base, d, pools[d])
				}
			}
		}
		setRoutes()
		routedCsv := func() string {
			var p []string
			for _, d := range rewardDenoms {
				if routed[d] {
					p = append(p, d)
				}
			}
			if len(p) == 0 {
				return "-"
			}
			return strings.Join(p, ",")
		}
		// the quotes the real filter will obtain (same protorev and pool-module calls, read-only): per routed denom the
		// converted minimum, nil = the quote fails
		type quote struct{ amt *big.Int } // amt == nil: the call failed
		thresholds := func(ctx sdk.Context) map[string]quote {
			m := map[string]quote{base: {big.NewInt(minAmt)}}
			for _, d := range rewardDenoms {
				if d == base || !routed[d] {
					continue
				}
				pid, err := h.App.ProtoRevKeeper.GetPoolForDenomPairNoOrder(ctx, base, d)
				if err != nil {
					o.Fail("engine:route-missing", d)
					continue
				}
				mod, pool, err := h.App.PoolManagerKeeper.GetPoolModuleAndPool(ctx, pid)
				if err != nil {
					m[d] = quote{nil}
					continue
				}
				var out sdk.Coin
				if !catch(func() { out, err = mod.CalcOutAmtGivenIn(ctx, pool, minCoin, d, osmomath.ZeroDec()) }) || err != nil {
					m[d] = quote{nil}
					continue
				}
				if out.Amount.IsNegative() {
					o.Fail("engine:negative-quote", d)
					continue
				}
				m[d] = quote{out.Amount.BigInt()}
			}
			return m
		}
		for _, a := range addrs {
			h.FundAcc(a, sdk.NewCoins(sdk.NewCoin(base, osmomath.NewInt(1))))
		}
		for _, a := range addrs[:3] { // make the lock denoms exist
			h.FundAcc(a, sdk.NewCoins(sdk.NewCoin("lpa", osmomath.NewInt(1)), sdk.NewCoin("lpb", osmomath.NewInt(1))))
		}
		rewardBal := func(ctx sdk.Context, a sdk.AccAddress) sdk.Coins {
			out := sdk.Coins{}
			for _, d := range rewardDenoms {
				c := bk.GetBalance(ctx, a, d)
				if c.Amount.IsPositive() {
					out = out.Add(c)
				}
			}
			return out
		}
		var ld []string
		for _, d := range lockable {
			ld = append(ld, fmt.Sprint(int64(d)))
		}
		// the pools created above own perpetual, empty lock gauges on their share denoms (pool-incentives hook): they are
		// part of the state (ids, stores, top-ups) and are replayed to the model as the creategauge calls they were
		existing := ik.GetGauges(h.Ctx)
		sort.Slice(existing, func(i, j int) bool { return existing[i].Id < existing[j].Id })
		supply := append([]string{}, lockDenoms...)
		for _, g := range existing {
			dup := false
			for _, x := range supply {
				dup = dup || x == g.DistributeTo.Denom
			}
			if !dup {
				supply = append(supply, g.DistributeTo.Denom)
			}
		}
		emit(fmt.Sprintf("incentives reset %s %s %s %s", strings.Join(ld, ","), strings.Join(supply, ","), routedCsv(), coinsStr(rewardBal(h.Ctx, modAddr))), "ok", false)
		o.Count(fmt.Sprintf("history.min%d", minAmt))
		book := map[uint64]*incLock{}
		payingEpochs := map[uint64]uint64{} // oracle: epochs in which the gauge was active and had qualifying locks
		everFinished := map[uint64]bool{}

		readGauges := func(ctx sdk.Context) (map[uint64]*incGaugeObs, []uint64, []uint64, []uint64) {
			m := map[uint64]*incGaugeObs{}
			var up, act, fin []uint64
			add := func(gs []incentivestypes.Gauge, st string, ids *[]uint64) {
				for _, g := range gs {
					*ids = append(*ids, g.Id)
					if prev, dup := m[g.Id]; dup {
						o.Fail("refs:gauge-in-two-stores", fmt.Sprintf("gauge %d in %s and %s", g.Id, prev.status, st))
					}
					m[g.Id] = &incGaugeObs{g.Id, g.IsPerpetual, g.DistributeTo.Denom, g.DistributeTo.Duration, g.Coins, g.DistributedCoins, g.StartTime, g.NumEpochsPaidOver, g.FilledEpochs, st}
				}
			}
			add(ik.GetUpcomingGauges(ctx), "U", &up)
			add(ik.GetActiveGauges(ctx), "A", &act)
			add(ik.GetFinishedGauges(ctx), "F", &fin)
			return m, up, act, fin
		}
		sortedIds := func(m map[uint64]*incGaugeObs) []uint64 {
			var ids []uint64
			for id := range m {
				ids = append(ids, id)
			}
			sort.Slice(ids, func(i, j int) bool { return ids[i] < ids[j] })
			return ids
		}
		// invariants the property states for EVERY reachable state
		checkInvariants := func(ctx sdk.Context, where string) {
			gs, _, _, _ := readGauges(ctx)
			need := sdk.Coins{}
			for _, id := range sortedIds(gs) {
				g := gs[id]
				for _, c := range g.dist {
					if c.Amount.GT(g.coins.AmountOf(c.Denom)) {
						o.Fail("gauge:overdistributed", fmt.Sprintf("%s gauge %d %s distributed %s of %s", where, id, c.Denom, c.Amount, g.coins.AmountOf(c.Denom)))
					}
				}
				if g.status != "F" {
					rem, neg := g.coins.SafeSub(g.dist...)
					if !neg {
						need = need.Add(rem...)
					}
				}
			}
			for _, c := range need {
				if bk.GetBalance(ctx, modAddr, c.Denom).Amount.LT(c.Amount) {
					o.Fail("module:balance<remaining", fmt.Sprintf("%s %s module holds %s, unfinished gauges still owe %s", where, c.Denom, bk.GetBalance(ctx, modAddr, c.Denom).Amount, c.Amount))
				}
			}
		}
		randCoins := func(allowBad bool) sdk.Coins {
			k := 1 + r.Intn(3)
			cs := sdk.Coins{}
			for i := 0; i < k; i++ {
				d := rewardDenoms[r.Intn(len(rewardDenoms))]
				if allowBad && r.Intn(25) == 0 {
					d = "rewc" // no route at all
				}
				var a int64
				switch r.Intn(8) {
				case 6:
					a = int64(1+r.Intn(1000)) * 10_000
				case 7:
					a = int64(1 + r.Intn(100_000_000))
				case 0:
					a = int64(1 + r.Intn(100)) // spam range
				case 1:
					a = int64(101 + r.Intn(900))
				case 2:
					a = int64(1+r.Intn(6)) * 1000
				case 3:
					a = int64(1 + r.Intn(1_000_000))
				case 4:
					a = int64(1+r.Intn(9)) * 100_000
				default:
					a = int64(1 + r.Intn(50_000))
				}
				cs = cs.Add(sdk.NewCoin(d, osmomath.NewIntFromBigInt(scaleUp(a))))
			}
			return cs
		}

		dumpObs := func() string {
			gs, up, act, fin := readGauges(h.Ctx)
			var p []string
			for _, id := range sortedIds(gs) {
				g := gs[id]
				pf := 0
				if g.perpetual {
					pf = 1
				}
				p = append(p, fmt.Sprintf("%d:%d:%s:%d:%s:%s:%d:%d:%d", id, pf, g.denom, int64(g.dur), coinsStr(g.coins), coinsStr(g.dist), g.start.UnixNano(), g.n, g.filled))
			}
			return fmt.Sprintf("last=%d gauges=[%s] up=%s act=%s fin=%s bal=%s", ik.GetLastGaugeID(h.Ctx), strings.Join(p, ";"), incIdsStr(up), incIdsStr(act), incIdsStr(fin), coinsStr(rewardBal(h.Ctx, modAddr)))
		}
		{
			var upIds []uint64
			for i, g := range existing {
				if g.Id != uint64(i+1) || g.DistributeTo.LockQueryType != lockuptypes.ByDuration || !g.StartTime.Equal(now) {
					o.Fail("engine:unexpected-genesis-gauge", fmt.Sprint(g.Id))
				}
				upIds = append(upIds, g.Id)
				pf := 0
				if g.IsPerpetual {
					pf = 1
				}
				emit(fmt.Sprintf("incentives creategauge %d %s %d %s %d %d", pf, g.DistributeTo.Denom, int64(g.DistributeTo.Duration), coinsStr(g.Coins), g.StartTime.UnixNano(), g.NumEpochsPaidOver),
					fmt.Sprintf("ok %d up=%s bal=%s", g.Id, incIdsStr(upIds), coinsStr(rewardBal(h.Ctx, modAddr))), false)
			}
		}

		emit("incentives dump", dumpObs(), false)

		// exportImport: the REAL ExportGenesis (through the JSON codec), every key of the incentives store deleted
		// (records, the three reference stores, last id, lockable durations, by-denom index), then the REAL InitGenesis
		// at the current block time.  Bank, lockup, protorev, pool-incentives are other modules and stay.
		// Oracle (C19): every NOT-finished gauge keeps all its fields, sits in the store its fields + the block time
		// dictate, last id and lockable durations are restored, nothing appears.  What the code is SEEN to lose
		// (finished gauges are not exported) is a counter unless VERIF_EXPORT_IMPORT_LOSSES=fail.
		loss := func(key, detail string) {
			if os.Getenv("VERIF_EXPORT_IMPORT_LOSSES") != "count" {
				o.Fail(key, detail)
			} else {
				o.Count("exportimport.LOSS." + key)
			}
		}
		exportImport := func() {
			ctx := h.Ctx
			pre, _, _, _ := readGauges(ctx)
			preRaw := rawStoreMap(ctx, h.App.GetKey(incentivestypes.StoreKey))
			preLast := ik.GetLastGaugeID(ctx)
			preLockable := fmt.Sprint(ik.GetLockableDurations(ctx))
			cdc := h.App.AppCodec()
			line := fmt.Sprintf("incentives exportimport %d", now.UnixNano())
			var bz []byte
			if !catch(func() { bz = cdc.MustMarshalJSON(ik.ExportGenesis(ctx)) }) {
				emit(line, "panic", true)
				o.Fail("incentives:export-import:export-panics", "")
				return
			}
			store := ctx.KVStore(h.App.GetKey(incentivestypes.StoreKey))
			var keys [][]byte
			it := store.Iterator(nil, nil)
			for ; it.Valid(); it.Next() {
				keys = append(keys, append([]byte{}, it.Key()...))
			}
			it.Close()
			for _, key := range keys {
				store.Delete(key)
			}
			var gs incentivestypes.GenesisState
			if !catch(func() { cdc.MustUnmarshalJSON(bz, &gs); ik.InitGenesis(ctx, gs) }) {
				emit(line, "panic", true)
				o.Fail("incentives:export-import:import-panics", "")
				return
			}
			emit(line, "ok", true)
			o.Count("exportimport")
			post, _, _, _ := readGauges(ctx)
			for _, id := range sortedIds(pre) {
				g, pg := pre[id], post[id]
				if g.status == "F" {
					if pg == nil {
						loss("incentives:export-import:finished-gauge-not-exported", fmt.Sprintf("gauge %d (filled %d of %d, distributed %s of %s)", id, g.filled, g.n, coinsStr(g.dist), coinsStr(g.coins)))
						if g.perpetual || g.filled < g.n {
							o.Count("exportimport.dropped-finished-gauge-that-still-accepts-topups")
						}
					}
					continue
				}
				if pg == nil {
					o.Fail("incentives:export-import:unfinished-gauge-dropped", fmt.Sprintf("gauge %d status %s", id, g.status))
					continue
				}
				if pg.perpetual != g.perpetual || pg.denom != g.denom || pg.dur != g.dur || !pg.coins.Equal(g.coins) || !pg.dist.Equal(g.dist) ||
					!pg.start.Equal(g.start) || pg.n != g.n || pg.filled != g.filled {
					o.Fail("incentives:export-import:gauge-fields", fmt.Sprintf("gauge %d", id))
				}
				want := "A"
				if now.Before(g.start) {
					want = "U"
				}
				if pg.status != want {
					o.Fail("incentives:export-import:status-not-by-fields-and-time", fmt.Sprintf("gauge %d was %s is %s expected %s", id, g.status, pg.status, want))
				}
				if pg.status != g.status {
					o.Count("exportimport.reclassified." + g.status + "->" + pg.status) // F36
				}
			}
			for _, id := range sortedIds(post) {
				if pre[id] == nil {
					o.Fail("incentives:export-import:gauge-appeared", fmt.Sprint(id))
				}
			}
			if l := ik.GetLastGaugeID(ctx); l != preLast {
				o.Fail("incentives:export-import:last-gauge-id", fmt.Sprintf("%d -> %d", preLast, l))
			}
			if l := fmt.Sprint(ik.GetLockableDurations(ctx)); l != preLockable {
				o.Fail("incentives:export-import:lockable-durations", preLockable+" -> "+l)
			}
			incentivesDerivedOracle(o, preRaw, rawStoreMap(ctx, h.App.GetKey(incentivestypes.StoreKey)), func(id uint64) (string, bool) {
				g := pre[id]
				if g == nil {
					return "", false
				}
				if g.status != "F" && !now.Before(g.start) {
					return "A", true
				}
				return g.status, true
			})
			var ld []string
			for _, d := range ik.GetLockableDurations(ctx) {
				ld = append(ld, fmt.Sprint(int64(d)))
			}
			emit("incentives lockable", "ok "+strings.Join(ld, ","), false)
			emit("incentives dump", dumpObs(), true)
			checkInvariants(ctx, "exportimport")
		}

		nEpochs := 4 + r.Intn(9)
		for ep := 0; ep < nEpochs && lines < n; ep++ {
			// ---------------- between epochs: gauge and lock operations
			nOps := 1 + r.Intn(6)
			if ep == 0 {
				nOps += 3
			}
			for k := 0; k < nOps; k++ {
				if r.Intn(8) == 0 {
					exportImport()
				}
				switch x := r.Intn(20); {
				case x < 5: // create gauge
					perp := r.Intn(3) == 0
					numEpochs := uint64(1 + r.Intn(6))
					if perp {
						numEpochs = 1
						if r.Intn(4) == 0 {
							numEpochs = uint64(r.Intn(4)) // keeper level: ignored for perpetual gauges
						}
					} else if r.Intn(15) == 0 {
						numEpochs = 0 // rejected
					}
					denom := lockDenoms[r.Intn(2)]
					if r.Intn(25) == 0 {
						denom = "lpc" // no supply
					}
					dur := lockable[r.Intn(len(lockable))]
					if r.Intn(25) == 0 {
						dur = 2 * time.Hour // not lockable
					}
					coins := randCoins(true)
					if r.Intn(12) == 0 {
						coins = sdk.Coins{}
					}
					var start time.Time
					switch r.Intn(6) {
					case 0:
						start = now.Add(-2 * time.Hour)
					case 1:
						start = now
					case 2:
						start = now.Add(30 * time.Minute)
					case 3:
						start = now.Add(time.Hour) // exactly the next epoch's block time
					case 4:
						start = now.Add(time.Hour + time.Nanosecond)
					default:
						start = now.Add(time.Duration(1+r.Intn(4)) * time.Hour)
					}
					h.FundAcc(creator, coins)
					cctx, write := h.Ctx.CacheContext()
					var id uint64
					var err error
					ok := catch(func() {
						id, err = ik.CreateGauge(cctx, perp, creator, coins, lockuptypes.QueryCondition{LockQueryType: lockuptypes.ByDuration, Denom: denom, Duration: dur}, start, numEpochs, 0)
					})
					pf := 0
					if perp {
						pf = 1
					}
					line := fmt.Sprintf("incentives creategauge %d %s %d %s %d %d", pf, denom, int64(dur), coinsStr(coins), start.UnixNano(), numEpochs)
					if !ok || err != nil {
						emit(line, "err", true)
						o.Count("creategauge.err")
					} else {
						write()
						_, up, _, _ := readGauges(h.Ctx)
						emit(line, fmt.Sprintf("ok %d up=%s bal=%s", id, incIdsStr(up), coinsStr(rewardBal(h.Ctx, modAddr))), true)
						o.Count("creategauge.ok")
						if perp {
							o.Count("creategauge.perpetual")
						}
						if !start.After(now) {
							o.Count("creategauge.start<=now")
						}
					}
					checkInvariants(h.Ctx, line)
				case x < 8: // top up
					last := ik.GetLastGaugeID(h.Ctx)
					id := uint64(1 + r.Intn(int(last)+2))
					coins := randCoins(true)
					h.FundAcc(creator, coins)
					pre, _, _, preFin := readGauges(h.Ctx)
					if len(preFin) > 0 && r.Intn(4) == 0 { // a gauge of the finished store
						sort.Slice(preFin, func(i, j int) bool { return preFin[i] < preFin[j] })
						id = preFin[r.Intn(len(preFin))]
					}
					cctx, write := h.Ctx.CacheContext()
					var err error
					ok := catch(func() { err = ik.AddToGaugeRewards(cctx, creator, coins, id) })
					line := fmt.Sprintf("incentives addtogauge %d %s %d", id, coinsStr(coins), now.UnixNano())
					if !ok || err != nil {
						emit(line, "err", true)
						o.Count("addtogauge.err")
						post, _, _, _ := readGauges(h.Ctx)
						for gid, g := range pre {
							if !post[gid].coins.Equal(g.coins) {
								o.Fail("failed-op:changed-state", line)
							}
						}
					} else {
						write()
						g, _ := ik.GetGaugeByID(h.Ctx, id)
						emit(line, fmt.Sprintf("ok %s bal=%s", coinsStr(g.Coins), coinsStr(rewardBal(h.Ctx, modAddr))), true)
						o.Count("addtogauge.ok")
						if p := pre[id]; p != nil {
							o.Count("addtogauge.to-" + p.status)
							if !g.Coins.Equal(p.coins.Add(coins...)) {
								o.Fail("addtogauge:coins", line)
							}
							// finished gauges pay nothing, for ever: a deposit into a gauge of the finished store can never be paid out
							// (since repository fix 21bb9c1bc7 a finished gauge has all its epochs filled and rejects it)
							if p.status == "F" {
								key := "addtogauge:accepted-into-finished-gauge"
								if !p.perpetual && p.filled < p.n {
									key += ":filled<numEpochs"
								}
								o.Fail(key, fmt.Sprintf("%s gauge %d is in the finished store (filled %d of %d, distributed %s of %s) and accepted %s", line, id, p.filled, p.n, coinsStr(p.dist), coinsStr(p.coins), coinsStr(coins)))
							}
						}
					}
					checkInvariants(h.Ctx, line)
				case x < 13: // lock tokens (same owner+denom+duration tops up the existing lock)
					ow := r.Intn(3)
					denom := lockDenoms[r.Intn(2)]
					dur := lockDurs[r.Intn(len(lockDurs))]
					amt := int64(1 + r.Intn(1000))
					if r.Intn(4) == 0 {
						amt = int64(1+r.Intn(5)) * 100
					}
					amtB := scaleUp(amt)
					coins := sdk.NewCoins(sdk.NewCoin(denom, osmomath.NewIntFromBigInt(amtB)))
					h.FundAcc(addrs[ow], coins)
					cctx, write := h.Ctx.CacheContext()
					var resp *lockuptypes.MsgLockTokensResponse
					var err error
					ok := catch(func() { resp, err = lms.LockTokens(cctx, lockuptypes.NewMsgLockTokens(addrs[ow], dur, coins)) })
					if ok && err == nil {
						write()
						if l := book[resp.ID]; l != nil {
							l.amt.Add(l.amt, amtB)
							o.Count("lock.topup")
						} else {
							book[resp.ID] = &incLock{resp.ID, ow, -1, dur, denom, new(big.Int).Set(amtB), false, time.Time{}}
							o.Count("lock.new")
						}
					} else {
						o.Count("lock.err")
					}
				case x < 16: // begin unlocking (all or part)
					var cand []*incLock
					for _, l := range book {
						if !l.unlocking {
							cand = append(cand, l)
						}
					}
					if len(cand) == 0 {
						continue
					}
					sort.Slice(cand, func(i, j int) bool { return cand[i].id < cand[j].id })
					l := cand[r.Intn(len(cand))]
					coins := sdk.Coins{}
					part := new(big.Int).Set(l.amt)
					if r.Intn(2) == 0 && l.amt.Cmp(big.NewInt(1)) > 0 {
						part = new(big.Int).Add(big.NewInt(1), new(big.Int).Rand(r, new(big.Int).Sub(l.amt, big.NewInt(1))))
						coins = sdk.NewCoins(sdk.NewCoin(l.denom, osmomath.NewIntFromBigInt(part)))
					}
					cctx, write := h.Ctx.CacheContext()
					var resp *lockuptypes.MsgBeginUnlockingResponse
					var err error
					ok := catch(func() { resp, err = lms.BeginUnlocking(cctx, lockuptypes.NewMsgBeginUnlocking(addrs[l.owner], l.id, coins)) })
					if ok && err == nil {
						write()
						if resp.UnlockingLockID == l.id {
							l.unlocking = true
							l.end = now.Add(l.dur)
							o.Count("unlock.full")
						} else {
							l.amt.Sub(l.amt, part)
							book[resp.UnlockingLockID] = &incLock{resp.UnlockingLockID, l.owner, l.recv, l.dur, l.denom, part, true, now.Add(l.dur)}
							o.Count("unlock.split")
						}
					} else {
						o.Count("unlock.err")
					}
				case x < 19: // change the reward receiver of one lock
					var cand []*incLock
					for _, l := range book {
						cand = append(cand, l)
					}
					if len(cand) == 0 {
						continue
					}
					sort.Slice(cand, func(i, j int) bool { return cand[i].id < cand[j].id })
					l := cand[r.Intn(len(cand))]
					to := r.Intn(5)
					cctx, write := h.Ctx.CacheContext()
					var err error
					ok := catch(func() { _, err = lms.SetRewardReceiverAddress(cctx, lockuptypes.NewMsgSetRewardReceiverAddress(addrs[l.owner], addrs[to], l.id)) })
					if ok && err == nil {
						write()
						if to == l.owner {
							l.recv = -1
						} else {
							l.recv = to
						}
						o.Count("receiver.set")
					} else {
						o.Count("receiver.err")
					}
				default: // a pool-priced denom (rewb; less often rewe, rewz) loses / regains its protorev route
					td := []string{"rewb", "rewb", "rewe", "rewz"}[r.Intn(4)]
					routed[td] = !routed[td]
					setRoutes()
					emit("incentives routes "+routedCsv(), "ok", false)
					o.Count("routes.toggle")
				}
			}

			// ---------------- the epoch
			step := time.Hour
			if r.Intn(5) == 0 {
				step = time.Duration(1+r.Intn(3)) * time.Hour
			}
			now = now.Add(step)
			h.Ctx = h.Ctx.WithBlockTime(now).WithBlockHeight(h.Ctx.BlockHeight() + 1)
			// the lockup end blocker withdraws matured unlocking locks
			if r.Intn(4) != 0 {
				lk.WithdrawMaturedLocks(h.Ctx, 1000)
				for id, l := range book {
					if l.unlocking && !l.end.After(now) {
						delete(book, id)
						o.Count("lock.matured")
					}
				}
			}
			ctx := h.Ctx
			// lock snapshot: the query the distribution itself uses, per lock denom
			var lockStrs []string
			seen := map[uint64]bool{}
			chainOrder := map[uint64]int{} // position of each lock in the chain's own query result
			for _, d := range lockDenoms {
				for _, l := range lk.GetLocksLongerThanDurationDenom(ctx, d, time.Millisecond) {
					chainOrder[l.ID] = len(chainOrder)
					oi, okk := addrIdx[l.Owner]
					if !okk {
						o.Fail("engine:unknown-owner", l.Owner)
						continue
					}
					rv := "-"
					if l.RewardReceiverAddress != "" {
						rv = fmt.Sprint(addrIdx[l.RewardReceiverAddress])
					}
					unl := 0
					if l.IsUnlocking() {
						unl = 1
					}
					lockStrs = append(lockStrs, fmt.Sprintf("%d:%d:%s:%d:%s:%s:%d", l.ID, oi, rv, int64(l.Duration), d, l.Coins.AmountOf(d), unl))
					seen[l.ID] = true
					// the query must agree with the engine's own book of lock operations
					b := book[l.ID]
					brv := "-"
					if b != nil && b.recv >= 0 {
						brv = fmt.Sprint(b.recv)
					}
					if b == nil || b.owner != oi || brv != rv || b.dur != l.Duration || b.denom != d || b.amt.Cmp(l.Coins.AmountOf(d).BigInt()) != 0 || b.unlocking != l.IsUnlocking() {
						o.Fail("locks:query-mismatch", fmt.Sprintf("lock %d", l.ID))
					}
				}
			}
			for id := range book {
				if !seen[id] {
					o.Fail("locks:query-mismatch", fmt.Sprintf("lock %d missing from query", id))
				}
			}
			locksArg := "-"
			if len(lockStrs) > 0 {
				locksArg = strings.Join(lockStrs, ";")
			}
			thr := thresholds(ctx)
			var thrStrs []string
			for _, d := range rewardDenoms {
				if v, okk := thr[d]; okk {
					if v.amt == nil {
						thrStrs = append(thrStrs, d+"=!")
					} else {
						thrStrs = append(thrStrs, d+"="+v.amt.String())
					}
				}
			}
			line := fmt.Sprintf("incentives epoch %d %s %s", now.UnixNano(), strings.Join(thrStrs, ","), locksArg)

			pre, _, preAct, _ := readGauges(ctx)
			preBal := make([]sdk.Coins, len(addrs))
			for i, a := range addrs {
				preBal[i] = rewardBal(ctx, a)
			}
			preMod := rewardBal(ctx, modAddr)
			cctx, write := ctx.CacheContext()
			var err error
			ok := catch(func() { err = ik.AfterEpochEnd(cctx, ident, int64(ep+1)) })
			if !ok || err != nil {
				emit(line, "err", true)
				o.Count("epoch.err")
				// does a gauge that pays in this epoch hold a coin whose minimum-value quote fails?  (book-keeping of the
				// engine only: active or due gauges with a qualifying lock and a non-spam remainder; since repository fix d4c28ad126
				// such a quote must not fail the hook: every epoch:hook-failed key is a violation)
				key := "epoch:hook-failed"
				for _, id := range sortedIds(pre) {
					g := pre[id]
					if !(g.status == "A" || (g.status == "U" && !g.start.After(now))) {
						continue
					}
					remaining, neg := g.coins.SafeSub(g.dist...)
					hasLock := false
					for _, l := range book {
						hasLock = hasLock || (l.denom == g.denom && l.dur >= g.dur)
					}
					if neg || !hasLock || len(remaining) == 0 || (len(remaining) == 1 && remaining[0].Amount.LTE(osmomath.NewInt(100)) && remaining[0].Denom != "stake") {
						continue
					}
					for _, c := range remaining {
						if v, okk := thr[c.Denom]; okk && v.amt == nil {
							// class of the failing quote by the oracle's own idea of the price (reserves at pool creation)
							rs := reserves[c.Denom]
							switch {
							case minAmt == 0:
								key = "epoch:hook-failed:minimum-value-quote-error:configured-minimum-is-zero"
							case new(big.Int).Mul(big.NewInt(minAmt), big.NewInt(rs[1])).Cmp(big.NewInt(rs[0])) < 0:
								key = "epoch:hook-failed:minimum-value-quote-error:converted-minimum-below-one-unit"
							default:
								key = "epoch:hook-failed:minimum-value-quote-error:other"
							}
						}
					}
				}
				if key != "epoch:hook-failed" {
					o.Count("epoch.err.minimum-value-quote-error")
				}
				o.Fail(key, fmt.Sprintf("%s: %v", line, err))
				continue
			}
			write()
			post, up, act, fin := readGauges(ctx)
			delta := make([]sdk.Coins, len(addrs))
			var payStrs []string
			for i, a := range addrs {
				d, neg := rewardBal(ctx, a).SafeSub(preBal[i]...)
				if neg {
					o.Fail("payout:balance-decreased", line)
				}
				delta[i] = d
				if !d.IsZero() {
					payStrs = append(payStrs, fmt.Sprintf("%d:%s", i, coinsStr(d)))
				}
			}
			var gStrs []string
			for _, id := range sortedIds(post) {
				gStrs = append(gStrs, fmt.Sprintf("%d:%d:%s", id, post[id].filled, coinsStr(post[id].dist)))
			}
			emit(line, fmt.Sprintf("ok pay=[%s] up=%s act=%s fin=%s g=[%s] bal=%s", strings.Join(payStrs, ";"), incIdsStr(up), incIdsStr(act), incIdsStr(fin), strings.Join(gStrs, ";"), coinsStr(rewardBal(ctx, modAddr))), true)
			o.Count("epoch.ok")
			o.Count(fmt.Sprintf("epoch.active-own-gauges%d", min(len(act)-min(len(act), len(existing)), 6)))
			o.Count(fmt.Sprintf("epoch.locks%d", min(len(lockStrs)/3*3, 12)))

			// ================= property oracle =================
			expect := make([]map[string]*big.Int, len(addrs)) // expected receipts per address and denom
			for i := range expect {
				expect[i] = map[string]*big.Int{}
			}
			spamExpect := make([]map[string]*big.Int, len(addrs)) // what the spam rule withheld (counted separately)
			for i := range spamExpect {
				spamExpect[i] = map[string]*big.Int{}
			}
			zeroSkip := make([]map[string]*big.Int, len(addrs)) // what the zero-sentinel of the minimum-value cache withheld
			for i := range zeroSkip {
				zeroSkip[i] = map[string]*big.Int{}
			}
			zeroMinGauges := map[string]int{} // paying gauges per denom whose converted minimum is 0
			multiRecvOwner := false
			ownerRecv := map[int]int{} // over all paying gauges of this epoch
			_ = preAct
			for _, id := range sortedIds(pre) {
				g := pre[id]
				pg := post[id]
				if pg == nil {
					o.Fail("refs:gauge-vanished", fmt.Sprintf("%s gauge %d", line, id))
					continue
				}
				// --- schedule: upcoming -> active exactly when start <= block time
				if g.status == "U" {
					due := !g.start.After(now)
					if pg.status != "U" && !due {
						o.Fail("schedule:activated-early", fmt.Sprintf("%s gauge %d start %d", line, id, g.start.UnixNano()))
					}
					if pg.status == "U" && due {
						o.Fail("schedule:not-activated-at-start", fmt.Sprintf("%s gauge %d start %d", line, id, g.start.UnixNano()))
					}
					if due {
						o.Count("oracle.activated")
						if g.start.Equal(now) {
							o.Count("oracle.activated-exactly-at-start")
						}
					}
				}
				if g.status == "F" {
					if pg.status != "F" || !pg.dist.Equal(g.dist) || pg.filled != g.filled {
						o.Fail("finished:paid", fmt.Sprintf("%s gauge %d", line, id))
					}
					continue
				}
				activeNow := g.status == "A" || (g.status == "U" && !g.start.After(now))
				if !activeNow {
					if !pg.dist.Equal(g.dist) || pg.filled != g.filled {
						o.Fail("schedule:upcoming-gauge-paid", fmt.Sprintf("%s gauge %d", line, id))
					}
					continue
				}
				// --- qualifying locks, from the engine's own book
				var q []*incLock
				for _, l := range book {
					if l.denom == g.denom && l.dur >= g.dur {
						q = append(q, l)
					}
				}
				sort.Slice(q, func(i, j int) bool { return q[i].id < q[j].id })
				lockSum := new(big.Int)
				for _, l := range q {
					lockSum.Add(lockSum, l.amt)
				}
				remaining, neg := g.coins.SafeSub(g.dist...)
				if neg {
					continue // reported as gauge:overdistributed
				}
				remEpochs := int64(1)
				if !g.perpetual {
					remEpochs = int64(g.n) - int64(g.filled)
				}
				paying := len(q) > 0 && len(g.coins) > 0 && remEpochs > 0
				spam := len(remaining) == 1 && remaining[0].Amount.LTE(osmomath.NewInt(100)) && remaining[0].Denom != "stake"
				if spam && paying {
					o.Count("oracle.gauge-in-spam-range")
				}
				gaugeTotal := map[string]*big.Int{}
				type lockShare struct {
					l *incLock
					x *big.Int
				}
				owed := map[string][]lockShare{} // per denom: the shares the property promises, in the chain's lock order
				recvOf := func(l *incLock) int {
					if l.recv < 0 {
						return l.owner
					}
					return l.recv
				}
				if paying {
					payingEpochs[id]++
					o.Count("oracle.gauge-paying-epoch")
					o.Count(fmt.Sprintf("oracle.gauge-paying-epoch.locks%d", min(len(q), 4)))
					byChain := append([]*incLock{}, q...)
					sort.Slice(byChain, func(i, j int) bool { return chainOrder[byChain[i].id] < chainOrder[byChain[j].id] })
					for _, c := range remaining {
						// THE CLAUSE: a share is skipped iff the denom has no route ("not valuable at all") or the share is worth
						// less than the configured minimum converted through the route's pool quote
						v, routedOk := thr[c.Denom]
						switch {
						case !routedOk:
							o.Count("oracle.denom-class.no-route")
						case v.amt == nil:
							o.Count("oracle.denom-class.quote-error") // only reachable when the hook did not fail
						case v.amt.Sign() == 0 && c.Denom != base:
							o.Count("oracle.denom-class.converted-minimum-zero")
							if !spam {
								zeroMinGauges[c.Denom]++
							}
						case c.Denom == base:
							o.Count("oracle.denom-class.base")
						default:
							o.Count("oracle.denom-class.converted-minimum-positive")
						}
						for _, l := range byChain {
							x := ratFloor(new(big.Rat).SetFrac(new(big.Int).Mul(c.Amount.BigInt(), l.amt), new(big.Int).Mul(lockSum, big.NewInt(remEpochs))))
							if !routedOk {
								o.Count("oracle.skipped-not-valuable-at-all")
								continue
							}
							if v.amt == nil {
								continue
							}
							if x.Cmp(v.amt) < 0 {
								o.Count("oracle.skipped-below-minimum")
								continue
							}
							if x.Sign() == 0 {
								continue
							}
							to := recvOf(l)
							// `expect` is what the property promises; `spamExpect` the part of it owed by gauges that the
							// code's spam rule (single remaining coin of at most 100 units, not "stake") silently skips
							addTo := func(tgt []map[string]*big.Int) {
								if tgt[to][c.Denom] == nil {
									tgt[to][c.Denom] = new(big.Int)
								}
								tgt[to][c.Denom].Add(tgt[to][c.Denom], x)
							}
							addTo(expect)
							if spam {
								addTo(spamExpect)
							}
							if gaugeTotal[c.Denom] == nil {
								gaugeTotal[c.Denom] = new(big.Int)
							}
							gaugeTotal[c.Denom].Add(gaugeTotal[c.Denom], x)
							owed[c.Denom] = append(owed[c.Denom], lockShare{l, x})
							o.Count("oracle.lock-payout")
						}
					}
					// does one owner hold qualifying locks with different receivers?
					for _, l := range q {
						to := recvOf(l)
						if prev, okk := ownerRecv[l.owner]; okk && prev != to {
							multiRecvOwner = true
						}
						ownerRecv[l.owner] = to
					}
				} else {
					o.Count("oracle.gauge-active-no-qualifying-lock")
				}
				// per gauge: distributed grows by exactly what its locks were owed
				for _, d := range rewardDenoms {
					got := new(big.Int).Sub(pg.dist.AmountOf(d).BigInt(), g.dist.AmountOf(d).BigInt())
					want := gaugeTotal[d]
					if want == nil {
						want = new(big.Int)
					}
					if got.Cmp(want) == 0 {
						continue
					}
					v := thr[d]
					zeroMin := d != base && v.amt != nil && v.amt.Sign() == 0
					// with a converted minimum of 0 every positive share is owed; before repository fix af3cbe6371 the code paid at most one
					// lock (class kept to name a regression: its keys are no longer known findings)
					paidOne := -1
					if zeroMin && got.Sign() > 0 && got.Cmp(want) < 0 {
						for i, ls := range owed[d] {
							if ls.x.Cmp(got) == 0 {
								paidOne = i
								break
							}
						}
					}
					switch {
					case spam && got.Sign() == 0:
						o.Fail("payout:not-floor-share:spam-rule-single-denom-remaining<=100", fmt.Sprintf("%s gauge %d remaining %s paid nothing", line, id, coinsStr(remaining)))
					case zeroMin && (got.Sign() == 0 || paidOne >= 0):
						key := "payout:qualifying-lock-skipped:converted-minimum-is-zero:later-lock"
						if got.Sign() == 0 {
							key = "payout:qualifying-lock-skipped:converted-minimum-is-zero:no-lock-paid"
						}
						o.Fail(key, fmt.Sprintf("%s gauge %d %s: %d qualifying locks are owed %s (minimum %s converts to 0%s), distributed +%s", line, id, d, len(owed[d]), want, minCoin, d, got))
						for i, ls := range owed[d] {
							if i == paidOne {
								continue
							}
							to := recvOf(ls.l)
							if zeroSkip[to][d] == nil {
								zeroSkip[to][d] = new(big.Int)
							}
							zeroSkip[to][d].Add(zeroSkip[to][d], ls.x)
						}
					default:
						o.Fail("payout:not-floor-share:gauge-total", fmt.Sprintf("%s gauge %d %s distributed +%s want +%s", line, id, d, got, want))
					}
				}
				// --- filled epochs and finishing
				wantFilled := g.filled
				if paying {
					wantFilled++
				}
				if pg.filled != wantFilled {
					o.Fail("schedule:filled-epochs", fmt.Sprintf("%s gauge %d filled %d want %d", line, id, pg.filled, wantFilled))
				}
				if g.perpetual {
					if pg.status == "F" {
						o.Fail("schedule:perpetual-finished", fmt.Sprintf("%s gauge %d", line, id))
					}
				} else {
					shouldFinish := payingEpochs[id] >= g.n
					if (pg.status == "F") != shouldFinish {
						key := "schedule:finished-wrong-epoch"
						if pg.status == "F" && !paying {
							key += ":last-epoch-without-qualifying-lock"
						}
						o.Fail(key, fmt.Sprintf("%s gauge %d numEpochs %d paying epochs %d filled %d status %s", line, id, g.n, payingEpochs[id], pg.filled, pg.status))
					}
					if pg.status == "F" {
						everFinished[id] = true
						o.Count("oracle.finished")
					}
				}
			}
			// --- receipts: every address got exactly the floor shares addressed to it, nobody anything else
			gotTot := map[string]*big.Int{}
			for d, k := range zeroMinGauges {
				if k > 1 {
					o.Count("oracle.epoch-with-several-gauges-sharing-zero-minimum-denom")
					_ = d
				}
			}
			// cmp(false): receipts against the property; cmp(true): against the property minus what the spam rule and the
			// zero-sentinel of the minimum-value cache were seen to withhold per gauge (both keyed above)
			cmp := func(adjusted bool) (mismatch bool, totalsMatch bool) {
				wantTot := map[string]*big.Int{}
				for _, d := range rewardDenoms {
					gotTot[d], wantTot[d] = new(big.Int), new(big.Int)
				}
				for i := range addrs {
					for _, d := range rewardDenoms {
						got := delta[i].AmountOf(d).BigInt()
						want := new(big.Int)
						if expect[i][d] != nil {
							want.Set(expect[i][d])
						}
						if adjusted && spamExpect[i][d] != nil {
							want.Sub(want, spamExpect[i][d])
						}
						if adjusted && zeroSkip[i][d] != nil {
							want.Sub(want, zeroSkip[i][d])
						}
						gotTot[d].Add(gotTot[d], got)
						wantTot[d].Add(wantTot[d], want)
						if got.Cmp(want) != 0 {
							mismatch = true
						}
					}
				}
				totalsMatch = true
				for _, d := range rewardDenoms {
					if gotTot[d].Cmp(wantTot[d]) != 0 {
						totalsMatch = false
					}
				}
				return
			}
			nonEmpty := func(m []map[string]*big.Int) bool {
				for _, x := range m {
					if len(x) > 0 {
						return true
					}
				}
				return false
			}
			withheld := func() { // the per-gauge deviations that explain the receipts
				if nonEmpty(spamExpect) {
					o.Fail("payout:not-floor-share:spam-rule-single-denom-remaining<=100", fmt.Sprintf("%s got %v", line, payStrs))
				}
				if nonEmpty(zeroSkip) {
					o.Fail("payout:qualifying-lock-skipped:converted-minimum-is-zero:receipts", fmt.Sprintf("%s got %v", line, payStrs))
				}
			}
			if mismatch, totalsMatch := cmp(false); mismatch {
				mm2, tm2 := cmp(true)
				switch {
				case totalsMatch && multiRecvOwner:
					o.Fail("payout:wrong-receiver:owner-has-qualifying-locks-with-different-receivers", fmt.Sprintf("%s got %v", line, payStrs))
				case totalsMatch:
					o.Fail("payout:wrong-receiver", fmt.Sprintf("%s got %v", line, payStrs))
				case !mm2 && (nonEmpty(spamExpect) || nonEmpty(zeroSkip)):
					withheld()
				case tm2 && multiRecvOwner && (nonEmpty(spamExpect) || nonEmpty(zeroSkip)): // both deviations in one epoch
					withheld()
					o.Fail("payout:wrong-receiver:owner-has-qualifying-locks-with-different-receivers", fmt.Sprintf("%s got %v", line, payStrs))
				default:
					o.Fail("payout:not-floor-share:receipts", fmt.Sprintf("%s got %v", line, payStrs))
				}
			}
			// module account pays exactly what was received
			modDelta, neg := preMod.SafeSub(rewardBal(ctx, modAddr)...)
			if neg {
				o.Fail("module:balance-grew-in-epoch", line)
			}
			for _, d := range rewardDenoms {
				if modDelta.AmountOf(d).BigInt().Cmp(gotTot[d]) != 0 {
					o.Fail("module:paid!=received", line)
				}
			}
			checkInvariants(ctx, line)
		}
		emit("incentives dump", dumpObs(), false)
	}
	o.Close(nil)
}
