package app_test

// Engine `twap` (property C10): the REAL x/twap keeper driven through the app.
//
// Two kinds of histories share the op budget.  WORLD histories (twap_world_test.go): a chain of its own with many
// pools (ids that are prefixes / neighbours of each other in the key encodings), several pairs per pool (denoms that
// are prefixes / byte neighbours of each other), blocks that repeat a timestamp so that one pool's update is rejected
// while others go through, all-pairs questions around pruning passes, a raw-store oracle.  SINGLE-POOL histories (this
// file): every history creates a fresh pool (balancer 2/3 assets or concentrated) and follows ONE asset pair of it.
// Blocks are real ABCI blocks (FinalizeBlock + Commit) with chosen, irregular block times: prices are moved by real swap / join / exit / position messages, the
// pool is tracked by the twap listeners, the twap EndBlocker writes the records and prunes.
// After every block the engine reads the stored most recent record back and emits the op line
// (`create` / `update`) carrying the spot prices the keeper used; queries go to the public
// GetArithmeticTwap / GetGeometricTwap (+ToNow) API.
//
// A third file (twap_time_test.go) adds: the representation of the query instants (Location, monotonic reading, API
// path: every question is asked in several of them and the answers compared), block headers with a non-UTC Location
// (observed), sub-millisecond shapes of block / query times, and DIRECTED drain / refill histories with their own
// error-flag oracle.
//
// ORACLE (shares nothing with the Lean model): the engine keeps its own never-pruned log of the
// recorded end-of-block prices and recomputes every answer from scratch with big.Int / big.Rat /
// 700-bit big.Float (see `judge`).  Tolerances are stated at `geomTol`.

import (
	"errors"
	"os"
	"fmt"
	"math/big"
	"math/rand"
	"sort"
	"strings"
	"testing"
	"time"

	coreheader "cosmossdk.io/core/header"
	storetypes "cosmossdk.io/store/types"
	abci "github.com/cometbft/cometbft/abci/types"
	sdk "github.com/cosmos/cosmos-sdk/types"

	"github.com/osmosis-labs/osmosis/osmomath"
	cl "github.com/osmosis-labs/osmosis/v31/x/concentrated-liquidity"
	clmodel "github.com/osmosis-labs/osmosis/v31/x/concentrated-liquidity/model"
	cltypes "github.com/osmosis-labs/osmosis/v31/x/concentrated-liquidity/types"
	"github.com/osmosis-labs/osmosis/v31/x/gamm/pool-models/balancer"
	gammtypes "github.com/osmosis-labs/osmosis/v31/x/gamm/types"
	poolmanagertypes "github.com/osmosis-labs/osmosis/v31/x/poolmanager/types"
	"github.com/osmosis-labs/osmosis/v31/x/twap"
	twaptypes "github.com/osmosis-labs/osmosis/v31/x/twap/types"
)

var (
	e6  = big.NewInt(1000000)
	e9  = big.NewInt(1000000000)
	e36 = new(big.Int).Exp(big.NewInt(10), big.NewInt(36), nil)
)

// nsOf: the instant as nanoseconds since the Unix epoch (works for time.Time{} too).
func nsOf(t time.Time) *big.Int {
	x := new(big.Int).Mul(big.NewInt(t.Unix()), e9)
	return x.Add(x, big.NewInt(int64(t.Nanosecond())))
}

// msOf: the canonical millisecond of the code's accumulators = floor(ns / 10^6).
func msOf(t time.Time) *big.Int {
	q, _ := new(big.Int).DivMod(nsOf(t), e6, new(big.Int))
	return q
}

func recStr(r twaptypes.TwapRecord) string {
	return fmt.Sprintf("%s %d %s %s %s %s %s %s", nsOf(r.Time), r.Height, r.P0LastSpotPrice.BigInt(), r.P1LastSpotPrice.BigInt(),
		r.P0ArithmeticTwapAccumulator.BigInt(), r.P1ArithmeticTwapAccumulator.BigInt(), r.GeometricTwapAccumulator.BigInt(), nsOf(r.LastErrorTime))
}

func twB01(b bool) string {
	if b {
		return "1"
	}
	return "0"
}

// oracle's own log entry: the price recorded for the block at time t.
type twRec struct {
	t        time.Time
	sp0, sp1 *big.Int // raw Dec, as recorded
	errInd   bool     // a spot price read at this block time failed (engine's own read of the pool)
}

type twQuery struct {
	s, e     time.Time
	q0       bool
	geom     bool
	status   string // ok / err / panic
	v        *big.Int
	flag     bool
	zero     bool // judged as a zero-result finding
	panicMsg string
	w        string // "<pool> <d0> <d1>" for a query of a world history (ops `warith` / `wgeom`), else ""
	rep      string // how the two instants are handed to the code (twap_time_test.go: Location / monotonic reading); "" = UTC
	path     string // "" = keeper API, "querier" = client.Querier, "grpc" = the app's gRPC query router (protobuf round trip)
	toNow    bool
}

// catchMsg: like catch, and keeps the panic value.
func catchMsg(msg *string, f func()) (ok bool) {
	defer func() {
		if r := recover(); r != nil {
			ok = false
			*msg = fmt.Sprint(r)
		}
	}()
	f()
	return true
}

type twEngine struct {
	h        *H
	r        *rand.Rand
	o        *Out
	kind     string
	poolId   uint64
	d0, d1   string // tracked pair, d0 < d1
	denoms   []string
	recs     []twRec
	lastKept *time.Time // cutoff of the latest pruning pass seen
	posIds   []uint64   // CL positions of this history
	logCache map[string]*big.Float
	prunedAt time.Time // pruning state LastKeptTime already reported to the model
	hugeExp  int       // decimal exponent of the reserves of a huge-reserves pool

	// world histories (twap_world_test.go): several pools with several pairs on one chain
	w          *twWorld
	wq         string     // query prefix of the pair in view
	pickCut    *time.Time // cutoff of the pruning pass about to be armed: pickTime aims at it
	lastAct    string     // kind and outcome of the last action()
	lastActErr error

	// twap_time_test.go
	hdrZone   *time.Location // this history's block HEADERS carry this (non-UTC) location; nil = UTC, what consensus delivers
	directed  string         // kind of pool the next createPool builds for a directed drain / refill history ("" = random)
	seed      int64 // twap_tx_test.go: mass histories alternate with the seed and the number of the world history
	worldIdx  int
	massOK    bool
	edgeBig   string         // bal2-edge pools: the denom with the huge reserve (the price against it rounds to zero)
	edgeSmall string
}

// finalize ends the current block through the real ABCI flow and opens the next one at `next`.
func (e *twEngine) finalize(next time.Time) {
	h := e.h
	reqTime := h.Ctx.BlockTime()
	if e.hdrZone != nil {
		// the same instants, the header carrying a non-UTC Location (not what consensus delivers: observed, see headerObservation)
		reqTime, next = reqTime.In(e.hdrZone), next.In(e.hdrZone)
		e.o.Count("class.block-header.non-utc-location")
	}
	if _, err := h.App.FinalizeBlock(&abci.RequestFinalizeBlock{Height: h.Ctx.BlockHeight(), Time: reqTime}); err != nil {
		panic(err)
	}
	if _, err := h.App.Commit(); err != nil {
		panic(err)
	}
	header := h.Ctx.BlockHeader()
	header.Time = next
	header.Height++
	h.Ctx = h.App.BaseApp.NewUncachedContext(false, header).WithHeaderInfo(coreheader.Info{Height: header.Height, Time: header.Time})
	if e.hdrZone != nil {
		if h.Ctx.BlockTime().Location() == time.UTC && h.Ctx.HeaderInfo().Time.Location() == time.UTC {
			e.o.Count("observation.block-header.non-utc-location:normalised-to-utc-by-sdk-context")
		} else {
			e.o.Count("observation.block-header.non-utc-location:SURVIVES-in-context")
		}
	}
}

// runMsg: one message through the real msg service router, atomically.
func (e *twEngine) runMsg(msg sdk.Msg) error {
	cctx, write := e.h.Ctx.CacheContext()
	handler := e.h.App.GetBaseApp().MsgServiceRouter().Handler(msg)
	if handler == nil {
		return errors.New("no handler")
	}
	var err error
	ok := catch(func() { _, err = handler(cctx, msg) })
	if !ok {
		return errors.New("panic")
	}
	if err == nil {
		write()
	}
	return err
}

func (e *twEngine) atomically(f func(ctx sdk.Context) error) error {
	cctx, write := e.h.Ctx.CacheContext()
	var err error
	ok := catch(func() { err = f(cctx) })
	if !ok {
		return errors.New("panic")
	}
	if err == nil {
		write()
	}
	return err
}

func (e *twEngine) mostRecent() (twaptypes.TwapRecord, bool) {
	r, err := e.h.App.TwapKeeper.VerifMostRecentRecordStoreRepresentation(e.h.Ctx, e.poolId, e.d0, e.d1)
	return r, err == nil
}

// poolPrices: the engine's own read of what the pool reports right now (both directions).
func (e *twEngine) poolPrices() (q0, q1 osmomath.BigDec, e0, e1 error) {
	cctx, _ := e.h.Ctx.CacheContext()
	q0, e0 = e.h.App.PoolManagerKeeper.RouteCalculateSpotPrice(cctx, e.poolId, e.d0, e.d1)
	q1, e1 = e.h.App.PoolManagerKeeper.RouteCalculateSpotPrice(cctx, e.poolId, e.d1, e.d0)
	return
}

func ppStr(q osmomath.BigDec, err error) string {
	if (q == osmomath.BigDec{}) {
		if err != nil {
			return "e"
		}
		return "nil"
	}
	if err != nil {
		return "E" + q.BigInt().String()
	}
	return q.BigInt().String()
}

// expected stored price for one direction (independent restatement of the documented rule: error ->
// zero, otherwise the pool price truncated to 18 decimals; pools never report above the twap maximum).
func expectStored(q osmomath.BigDec, err error) *big.Int {
	if err != nil {
		return big.NewInt(0)
	}
	return new(big.Int).Quo(q.BigInt(), e18)
}

// emitSpot ties getSpotPrices (error rule, clamp, truncation) to the model on the pool's current state.
func (e *twEngine) emitSpot(prev time.Time) {
	q0, q1, e0, e1 := e.poolPrices()
	cctx, _ := e.h.Ctx.CacheContext()
	var s0, s1 osmomath.Dec
	var le time.Time
	ok := catch(func() {
		s0, s1, le = twap.VerifGetSpotPrices(cctx, e.h.App.TwapKeeper.VerifPoolManager(), e.poolId, e.d0, e.d1, prev)
	})
	obs := "panic"
	if ok {
		obs = fmt.Sprintf("%s %s %s", s0.BigInt(), s1.BigInt(), nsOf(le))
	}
	e.o.Emit(fmt.Sprintf("twap spot %s %s %s %s", ppStr(q0, e0), ppStr(q1, e1), nsOf(prev), nsOf(e.h.Ctx.BlockTime())), obs, true)
	e.o.Count("spot.real")
}

// mock pool manager: getSpotPrices on synthetic pool answers (clamp branch is unreachable through the
// real pool modules, which already reject prices above 2^128).
type mockPM struct {
	d0     string
	p0, p1 osmomath.BigDec
	e0, e1 error
}

func (m mockPM) RouteGetPoolDenoms(ctx sdk.Context, poolId uint64) ([]string, error) { return nil, nil }
func (m mockPM) RouteCalculateSpotPrice(ctx sdk.Context, poolID uint64, quote, base string) (osmomath.BigDec, error) {
	if quote == m.d0 {
		return m.p0, m.e0
	}
	return m.p1, m.e1
}
func (m mockPM) GetNextPoolId(ctx sdk.Context) uint64 { return 1 }

func (e *twEngine) emitSpotSynthetic() {
	r := e.r
	maxBD := twaptypes.MaxSpotPriceBigDec.BigInt()
	gen := func() (osmomath.BigDec, error) {
		var v *big.Int
		switch r.Intn(7) {
		case 0:
			if r.Intn(5) == 0 {
				return osmomath.BigDec{}, nil // empty value without an error: nil dereference unless the other side errs
			}
			return osmomath.BigDec{}, errors.New("x")
		case 1:
			v = new(big.Int).Add(maxBD, big.NewInt(int64(r.Intn(3))-1))
		case 2:
			v = new(big.Int).Mul(maxBD, big.NewInt(int64(2+r.Intn(5))))
		case 3:
			v = big.NewInt(int64(r.Intn(3)))
		case 4:
			v = new(big.Int).Rand(r, new(big.Int).Lsh(big.NewInt(1), uint(1+r.Intn(250))))
		default:
			v = new(big.Int).Rand(r, new(big.Int).Mul(e36, big.NewInt(1000)))
		}
		bd := osmomath.NewBigDecFromBigIntWithPrec(v, 36)
		if r.Intn(6) == 0 {
			return bd, errors.New("x")
		}
		return bd, nil
	}
	m := mockPM{d0: "a"}
	m.p0, m.e0 = gen()
	m.p1, m.e1 = gen()
	now := e.h.Ctx.BlockTime()
	prev := time.Time{}
	if r.Intn(2) == 0 {
		prev = now.Add(-time.Duration(r.Intn(100000)) * time.Millisecond)
	}
	var s0, s1 osmomath.Dec
	var le time.Time
	ok := catch(func() { s0, s1, le = twap.VerifGetSpotPrices(e.h.Ctx, m, 1, "a", "b", prev) })
	obs := "panic"
	if ok {
		obs = fmt.Sprintf("%s %s %s", s0.BigInt(), s1.BigInt(), nsOf(le))
		// independent oracle ("an interval touching a spot-price error is flagged"): the error time is the
		// current block time exactly when a direction's query failed or its price had to be clamped to the
		// maximum; otherwise the previous error time is carried over unchanged.  Stored prices never exceed the maximum.
		var causes []string
		if m.e0 != nil {
			causes = append(causes, "err0")
		}
		if m.e1 != nil {
			causes = append(causes, "err1")
		}
		if (m.p0 != osmomath.BigDec{}) && m.p0.BigInt().Cmp(maxBD) > 0 {
			causes = append(causes, "clamp0")
		}
		if (m.p1 != osmomath.BigDec{}) && m.p1.BigInt().Cmp(maxBD) > 0 {
			causes = append(causes, "clamp1")
		}
		line := fmt.Sprintf("twap spot %s %s %s %s => %s", ppStr(m.p0, m.e0), ppStr(m.p1, m.e1), nsOf(prev), nsOf(now), obs)
		if len(causes) > 0 && !le.Equal(now) {
			e.o.Fail("spot:error-not-flagged:"+strings.Join(causes, "+"), line)
		}
		if len(causes) == 0 && !le.Equal(prev) {
			e.o.Fail("spot:spurious-error-flag", line)
		}
		maxDec := new(big.Int).Quo(maxBD, e18)
		if s0.BigInt().Cmp(maxDec) > 0 || s1.BigInt().Cmp(maxDec) > 0 {
			e.o.Fail("spot:stored-above-max", line)
		}
	}
	e.o.Emit(fmt.Sprintf("twap spot %s %s %s %s", ppStr(m.p0, m.e0), ppStr(m.p1, m.e1), nsOf(prev), nsOf(now)), obs, true)
	e.o.Count("spot.synthetic")
}

// ---------------------------------------------------------------- pool actions

func (e *twEngine) acc() sdk.AccAddress { return e.h.TestAccs[0] }

func (e *twEngine) fund(coins ...sdk.Coin) { e.h.FundAcc(e.acc(), sdk.NewCoins(coins...)) }

func coin(d string, a *big.Int) sdk.Coin { return sdk.NewCoin(d, osmomath.NewIntFromBigInt(a)) }

func (e *twEngine) randMag(lo, hi int) *big.Int {
	d := lo + e.r.Intn(hi-lo+1)
	x := new(big.Int).Mul(big.NewInt(int64(1+e.r.Intn(9999))), pow10(d))
	return x.Quo(x, big.NewInt(1000)).Add(x, big.NewInt(1))
}

// createPool creates the pool of this history (in the current block) and returns false if creation failed.
func (e *twEngine) createPool() bool {
	r := e.r
	all := []string{"bar", "baz", "foo"}
	r.Shuffle(3, func(i, j int) { all[i], all[j] = all[j], all[i] })
	k := r.Intn(10)
	if e.directed == "cl" {
		k = 0
	}
	var err error
	switch {
	case e.directed == "bal-edge":
		err = e.createEdgePool(all)
	case k < 3:
		e.kind = "cl"
		e.denoms = []string{all[0], all[1]}
		var id uint64
		err = e.atomically(func(ctx sdk.Context) error {
			e.h.FundAcc(e.acc(), e.h.App.PoolManagerKeeper.GetParams(ctx).PoolCreationFee)
			spread := osmomath.ZeroDec()
			if r.Intn(2) == 0 {
				spread = osmomath.MustNewDecFromStr("0.003")
			}
			var er error
			id, er = e.h.App.PoolManagerKeeper.CreatePool(ctx, clmodel.NewMsgCreateConcentratedPool(e.acc(), e.denoms[0], e.denoms[1], []uint64{1, 10, 100}[r.Intn(3)], spread))
			return er
		})
		e.poolId = id
	default:
		n := 2
		e.kind = "bal2"
		if k == 9 {
			n = 3
			e.kind = "bal3"
		}
		e.denoms = append([]string{}, all[:n]...)
		var assets []balancer.PoolAsset
		shape := r.Intn(8)
		for i := 0; i < n; i++ {
			amt := e.randMag(4, 14)
			w := int64(1 + r.Intn(20))
			switch shape {
			case 0: // price exactly one
				amt, w = big.NewInt(1000000), 1
				e.kind = fmt.Sprintf("bal%d-unit", n)
			case 1: // extreme imbalance: one direction rounds to zero -> spot price error
				if i == 0 {
					amt = new(big.Int).Mul(big.NewInt(int64(1+r.Intn(5))), pow10(20+r.Intn(4)))
				} else {
					amt = big.NewInt(int64(60 + r.Intn(100)))
				}
				w = 1
				e.kind = fmt.Sprintf("bal%d-extreme", n)
			case 2: // powers of two: exact logarithms
				amt = new(big.Int).Lsh(big.NewInt(1), uint(10+r.Intn(30)))
				w = 1
			case 3:
				w = int64(1 + r.Intn(1<<20-1))
			case 4: // huge reserves (2^63 .. 2^150), prices still moderate
				if r.Intn(2) == 0 {
					if i == 0 {
						e.o.Count("class.reserves.huge")
						e.hugeExp = []int{19, 20, 27, 38, 39, 45}[r.Intn(6)]
					}
					amt = e.randMag(e.hugeExp, e.hugeExp+2)
				}
			}
			assets = append(assets, balancer.PoolAsset{Weight: osmomath.NewInt(w), Token: coin(e.denoms[i], amt)})
		}
		fee := osmomath.ZeroDec()
		if r.Intn(2) == 0 {
			fee = osmomath.MustNewDecFromStr("0.002")
		}
		var id uint64
		err = e.atomically(func(ctx sdk.Context) error {
			e.h.FundAcc(e.acc(), e.h.App.PoolManagerKeeper.GetParams(ctx).PoolCreationFee)
			for _, a := range assets {
				e.h.FundAcc(e.acc(), sdk.NewCoins(a.Token))
			}
			var er error
			id, er = e.h.App.PoolManagerKeeper.CreatePool(ctx, balancer.NewMsgCreateBalancerPool(e.acc(), balancer.PoolParams{SwapFee: fee, ExitFee: osmomath.ZeroDec()}, assets, ""))
			return er
		})
		e.poolId = id
	}
	if err != nil {
		e.o.Count("create.failed")
		return false
	}
	pair := append([]string{}, e.denoms...)
	e.r.Shuffle(len(pair), func(i, j int) { pair[i], pair[j] = pair[j], pair[i] })
	pair = pair[:2]
	sort.Strings(pair)
	e.d0, e.d1 = pair[0], pair[1]
	e.o.Count("pool." + e.kind)
	return true
}

func (e *twEngine) poolBalance(d string) *big.Int {
	switch e.kind {
	case "cl":
		p, err := e.h.App.ConcentratedLiquidityKeeper.GetConcentratedPoolById(e.h.Ctx, e.poolId)
		if err != nil {
			return big.NewInt(0)
		}
		return e.h.App.BankKeeper.GetBalance(e.h.Ctx, p.GetAddress(), d).Amount.BigInt()
	default:
		liq, err := e.h.App.GAMMKeeper.GetTotalPoolLiquidity(e.h.Ctx, e.poolId)
		if err != nil {
			return big.NewInt(0)
		}
		return liq.AmountOf(d).BigInt()
	}
}

// action performs one price-moving (or neutral) operation on the pool.
func (e *twEngine) action() {
	r := e.r
	in := e.denoms[r.Intn(len(e.denoms))]
	out := in
	for out == in {
		out = e.denoms[r.Intn(len(e.denoms))]
	}
	bal := e.poolBalance(in)
	frac := func(b *big.Int) *big.Int { // 0.01% .. 45% of b, at least 1
		x := new(big.Int).Mul(b, big.NewInt(int64(1+r.Intn(4500))))
		x.Quo(x, big.NewInt(10000))
		if x.Sign() == 0 {
			x.SetInt64(1)
		}
		return x
	}
	if e.kind == "cl" {
		switch k := r.Intn(10); {
		case len(e.posIds) == 0 || k == 0: // (re)fill: full range position at a chosen price
			a0 := e.randMag(6, 15)
			a1 := e.randMag(6, 15)
			if r.Intn(8) == 0 { // price below the CL spot price floor of 10^-12 for one direction
				a0 = e.randMag(16, 18)
				a1 = big.NewInt(int64(100 + r.Intn(900)))
			} else if r.Intn(8) == 0 { // huge position (amounts past 2^64 / 2^100)
				x := []int{20, 24, 30}[r.Intn(3)]
				a0, a1 = e.randMag(x, x+3), e.randMag(x, x+3)
				e.o.Count("class.cl-position.huge")
			}
			pool, err := e.h.App.ConcentratedLiquidityKeeper.GetConcentratedPoolById(e.h.Ctx, e.poolId)
			if err != nil {
				return
			}
			coins := sdk.NewCoins(coin(pool.GetToken0(), a0), coin(pool.GetToken1(), a1))
			err = e.atomically(func(ctx sdk.Context) error {
				e.h.FundAcc(e.acc(), coins)
				pd, er := e.h.App.ConcentratedLiquidityKeeper.CreateFullRangePosition(ctx, e.poolId, e.acc(), coins)
				if er == nil {
					e.posIds = append(e.posIds, pd.ID)
				}
				return er
			})
			e.note("cl.position", err)
		case k == 1: // drain: withdraw every position -> no spot price
			ids := e.posIds
			err := e.atomically(func(ctx sdk.Context) error {
				srv := cl.NewMsgServerImpl(e.h.App.ConcentratedLiquidityKeeper)
				for _, id := range ids {
					pos, er := e.h.App.ConcentratedLiquidityKeeper.GetPosition(ctx, id)
					if er != nil {
						return er
					}
					if _, er = srv.WithdrawPosition(ctx, &cltypes.MsgWithdrawPosition{PositionId: id, Sender: e.acc().String(), LiquidityAmount: pos.Liquidity}); er != nil {
						return er
					}
				}
				return nil
			})
			if err == nil {
				e.posIds = nil
			}
			e.note("cl.drain", err)
		default:
			amt := frac(bal)
			e.fund(coin(in, amt))
			err := e.runMsg(&poolmanagertypes.MsgSwapExactAmountIn{Sender: e.acc().String(), Routes: []poolmanagertypes.SwapAmountInRoute{{PoolId: e.poolId, TokenOutDenom: out}},
				TokenIn: coin(in, amt), TokenOutMinAmount: osmomath.OneInt()})
			e.note("cl.swap", err)
		}
		return
	}
	switch k := r.Intn(10); {
	case k < 6:
		amt := frac(bal)
		e.fund(coin(in, amt))
		err := e.runMsg(&poolmanagertypes.MsgSwapExactAmountIn{Sender: e.acc().String(), Routes: []poolmanagertypes.SwapAmountInRoute{{PoolId: e.poolId, TokenOutDenom: out}},
			TokenIn: coin(in, amt), TokenOutMinAmount: osmomath.OneInt()})
		e.note("bal.swap", err)
	case k == 6: // single asset join: moves the price
		amt := frac(bal)
		e.fund(coin(in, amt))
		err := e.runMsg(&gammtypes.MsgJoinSwapExternAmountIn{Sender: e.acc().String(), PoolId: e.poolId, TokenIn: coin(in, amt), ShareOutMinAmount: osmomath.OneInt()})
		e.note("bal.joinswap", err)
	case k == 7: // proportional join: price (almost) unchanged, pool still tracked
		shares := new(big.Int).Mul(big.NewInt(int64(1+r.Intn(50))), e18)
		var maxs sdk.Coins
		for _, d := range e.denoms {
			c := coin(d, new(big.Int).Add(e.poolBalance(d), big.NewInt(10)))
			maxs = maxs.Add(c)
			e.fund(c)
		}
		err := e.runMsg(&gammtypes.MsgJoinPool{Sender: e.acc().String(), PoolId: e.poolId, ShareOutAmount: osmomath.NewIntFromBigInt(shares), TokenInMaxs: maxs})
		e.note("bal.join", err)
	case k == 8: // proportional exit
		shareDenom := gammtypes.GetPoolShareDenom(e.poolId)
		have := e.h.App.BankKeeper.GetBalance(e.h.Ctx, e.acc(), shareDenom).Amount.BigInt()
		x := frac(have)
		if r.Intn(6) == 0 {
			x = new(big.Int).Sub(have, big.NewInt(int64(r.Intn(3)))) // (almost) everything
		}
		err := e.runMsg(&gammtypes.MsgExitPool{Sender: e.acc().String(), PoolId: e.poolId, ShareInAmount: osmomath.NewIntFromBigInt(x), TokenOutMins: sdk.Coins{}})
		e.note("bal.exit", err)
	default: // large swap towards one side (drain / refill of the extreme pools)
		amt := new(big.Int).Quo(bal, big.NewInt(2))
		if amt.Sign() == 0 {
			amt.SetInt64(1)
		}
		e.fund(coin(in, amt))
		err := e.runMsg(&poolmanagertypes.MsgSwapExactAmountIn{Sender: e.acc().String(), Routes: []poolmanagertypes.SwapAmountInRoute{{PoolId: e.poolId, TokenOutDenom: out}},
			TokenIn: coin(in, amt), TokenOutMinAmount: osmomath.OneInt()})
		e.note("bal.bigswap", err)
	}
}

func (e *twEngine) note(k string, err error) {
	e.lastAct, e.lastActErr = k, err
	if err != nil {
		e.o.Count("action." + k + ".rejected")
	} else {
		e.o.Count("action." + k)
	}
}

// ---------------------------------------------------------------- blocks

func (e *twEngine) randDt() time.Duration {
	r := e.r
	var d time.Duration
	switch r.Intn(12) {
	case 0:
		d = time.Millisecond
	case 1:
		d = 999 * time.Millisecond
	case 2, 3:
		d = time.Duration(1+r.Intn(10)) * time.Second
	case 4:
		d = time.Duration(1+r.Intn(120)) * time.Minute
	case 5:
		d = 13 * time.Hour
	case 6:
		d = time.Duration(1+r.Intn(5000)) * time.Millisecond
	case 7:
		d = time.Duration(1 + r.Intn(999999)) // below one millisecond
	case 8:
		if r.Intn(3) == 0 && len(e.denoms) == 2 {
			// two blocks with the same time.  Not for pools with several pairs: updateRecords stops at the first pair whose
			// update is rejected, so whether THIS pair is updated depends on the other pairs (outside the one-pair model).
			d = 0
		} else {
			d = 5 * time.Second
		}
	default:
		d = time.Duration(1+r.Intn(60000)) * time.Millisecond
	}
	if d > 0 && r.Intn(5) == 0 {
		d += time.Duration(r.Intn(1000000)) // nanosecond part
	}
	if d > 0 && r.Intn(5) == 0 {
		d = e.shapeSubMs(e.h.Ctx.BlockTime(), d, "")
	}
	if r.Intn(40) == 0 { // long gaps: the accumulators grow by price x up to 2^40 ms in one step
		long := []time.Duration{24 * time.Hour, 30 * 24 * time.Hour, 365 * 24 * time.Hour, 30 * 365 * 24 * time.Hour}[r.Intn(4)] + d
		if e.h.Ctx.BlockTime().Add(long).Before(twLatest) { // block times stay representable as int64 nanoseconds
			e.o.Count(fmt.Sprintf("class.gap.%dd", int64(long/(24*time.Hour))))
			return long
		}
	}
	return d
}

var twLatest = time.Date(2200, 1, 1, 0, 0, 0, 0, time.UTC)

func (e *twEngine) tracked() bool {
	for _, id := range e.h.App.TwapKeeper.VerifGetChangedPools(e.h.Ctx) {
		if id == e.poolId {
			return true
		}
	}
	return false
}

func sameRec(a, b twaptypes.TwapRecord) bool { return recStr(a) == recStr(b) }

// logRecord appends / replaces the oracle's log entry for the record just stored.
func (e *twEngine) logRecord(t time.Time, rec twaptypes.TwapRecord, errInd bool) {
	n := twRec{t: t, sp0: rec.P0LastSpotPrice.BigInt(), sp1: rec.P1LastSpotPrice.BigInt(), errInd: errInd}
	if k := len(e.recs); k > 0 && e.recs[k-1].t.Equal(t) {
		n.errInd = n.errInd || e.recs[k-1].errInd // a failed read at the same block time stays a failed read at that time
		e.recs[k-1] = n
		return
	}
	e.recs = append(e.recs, n)
}

// endBlock closes the current block and emits the record update the twap EndBlocker made (if any).
func (e *twEngine) endBlock(dt time.Duration) {
	t, hgt := e.h.Ctx.BlockTime(), e.h.Ctx.BlockHeight()
	tracked := e.tracked()
	before, had := e.mostRecent()
	q0, q1, e0, e1 := e.poolPrices()
	indErr := e0 != nil || e1 != nil
	if tracked && had && e.r.Intn(3) == 0 {
		e.emitSpot(before.LastErrorTime)
	}
	e.finalize(t.Add(dt))
	after, _ := e.mostRecent()
	switch {
	case !had:
	case tracked && (!sameRec(before, after) || before.Height == hgt):
		errNow := after.LastErrorTime.Equal(t)
		e.o.Emit(fmt.Sprintf("twap update %s %d %s %s %s", nsOf(t), hgt, after.P0LastSpotPrice.BigInt(), after.P1LastSpotPrice.BigInt(), twB01(errNow)), "ok "+recStr(after), true)
		e.o.Count("update.ok")
		if errNow {
			e.o.Count("update.error-time-set")
		}
		if !after.Time.Equal(t) || after.Height != hgt {
			e.o.Fail("update:record-not-at-block-time", fmt.Sprintf("pool %d block %s/%d record %s", e.poolId, nsOf(t), hgt, recStr(after)))
		}
		// the recorded prices are the end-of-block pool prices (error -> zero, truncated to 18 decimals)
		if after.P0LastSpotPrice.BigInt().Cmp(expectStored(q0, e0)) != 0 || after.P1LastSpotPrice.BigInt().Cmp(expectStored(q1, e1)) != 0 {
			e.o.Fail("update:recorded-price-is-not-end-of-block-pool-price", fmt.Sprintf("pool %d %s pool=(%s,%s) record %s", e.poolId, e.kind, ppStr(q0, e0), ppStr(q1, e1), recStr(after)))
		}
		if indErr && !errNow {
			e.o.Fail("update:failed-spot-price-read-not-recorded-as-error", fmt.Sprintf("pool %d record %s", e.poolId, recStr(after)))
		}
		if (after.P0LastSpotPrice.IsZero() || after.P1LastSpotPrice.IsZero()) && !errNow {
			e.o.Fail("update:zero-price-recorded-without-error", fmt.Sprintf("pool %d record %s", e.poolId, recStr(after)))
		}
		e.logRecord(t, after, indErr)
		e.headerObservation(t)
	case tracked:
		// the EndBlocker saw the pool but stored nothing: updateRecord rejected the block
		e.o.Emit(fmt.Sprintf("twap update %s %d 0 0 0", nsOf(t), hgt), "err", true)
		e.o.Count("update.rejected")
	default:
		if !sameRec(before, after) {
			e.o.Fail("update:untracked-pool-record-changed", fmt.Sprintf("pool %d", e.poolId))
		}
		e.o.Count("block.idle")
	}
	e.syncPruning()
}

// syncPruning reports a pruning pass (started by the epoch hook, manual or natural) to the model once
// the keeper has finished it; blocks in between are idle.
func (e *twEngine) syncPruning() {
	k := e.h.App.TwapKeeper
	st := k.GetPruningState(e.h.Ctx)
	if st.LastKeptTime.Equal(e.prunedAt) && !st.IsPruning {
		return
	}
	for i := 0; st.IsPruning; i++ {
		if i > 3000 {
			e.o.Fail("prune:pass-never-finishes", fmt.Sprintf("pool %d state %v", e.poolId, st))
			return
		}
		e.o.Count("prune.continuation-block")
		e.finalize(e.h.Ctx.BlockTime().Add(time.Duration(1+e.r.Intn(3000)) * time.Millisecond))
		st = k.GetPruningState(e.h.Ctx)
	}
	if st.LastKeptTime.Equal(e.prunedAt) {
		return
	}
	e.prunedAt = st.LastKeptTime
	if e.poolId == 0 {
		return
	}
	lk := st.LastKeptTime
	if e.lastKept == nil || lk.After(*e.lastKept) {
		// the retention window only shrinks: what an earlier pass with a later cutoff removed stays removed
		e.lastKept = &lk
	}
	e.o.Emit(fmt.Sprintf("twap prune %s", nsOf(lk)), fmt.Sprintf("ok %d", len(e.stored())), true)
	e.o.Count("prune.pass")
	e.dump()
}

// stored: the historical records of the tracked pair, ascending by time.
func (e *twEngine) stored() []twaptypes.TwapRecord {
	all, err := e.h.App.TwapKeeper.GetAllHistoricalPoolIndexedTWAPsForPoolId(e.h.Ctx, e.poolId)
	if err != nil {
		panic(err)
	}
	var out []twaptypes.TwapRecord
	for _, r := range all {
		if r.PoolId == e.poolId && r.Asset0Denom == e.d0 && r.Asset1Denom == e.d1 {
			out = append(out, r)
		}
	}
	sort.SliceStable(out, func(i, j int) bool { return out[i].Time.Before(out[j].Time) })
	return out
}

func (e *twEngine) dump() {
	var ss []string
	for _, r := range e.stored() {
		ss = append(ss, recStr(r))
	}
	rec, ok := e.mostRecent()
	rs := "-"
	if ok {
		rs = recStr(rec)
	}
	e.o.Emit("twap dump", rs+"|"+strings.Join(ss, ";"), true)
}

// ---------------------------------------------------------------- genesis export / import (C19)

func twLoss(o *Out, key, detail string) {
	if os.Getenv("VERIF_EXPORT_IMPORT_LOSSES") != "count" {
		o.Fail(key, detail)
	} else {
		o.Count("exportimport.LOSS." + key)
	}
}

func twRaw(ctx sdk.Context, e *twEngine, prefixes ...[]byte) []string {
	store := ctx.KVStore(e.h.App.GetKey(twaptypes.StoreKey))
	var out []string
	if len(prefixes) == 0 {
		prefixes = [][]byte{nil}
	}
	for _, p := range prefixes {
		var it storetypes.Iterator
		if p == nil {
			it = store.Iterator(nil, nil)
		} else {
			it = storetypes.KVStorePrefixIterator(store, p)
		}
		for ; it.Valid(); it.Next() {
			out = append(out, fmt.Sprintf("%x=%x", it.Key(), it.Value()))
		}
		it.Close()
	}
	return out
}

func twWipe(ctx sdk.Context, e *twEngine, prefixes ...[]byte) {
	store := ctx.KVStore(e.h.App.GetKey(twaptypes.StoreKey))
	var keys [][]byte
	for _, p := range prefixes {
		var it storetypes.Iterator
		if p == nil {
			it = store.Iterator(nil, nil)
		} else {
			it = storetypes.KVStorePrefixIterator(store, p)
		}
		for ; it.Valid(); it.Next() {
			keys = append(keys, append([]byte{}, it.Key()...))
		}
		it.Close()
	}
	for _, k := range keys {
		store.Delete(k)
	}
}

// exportImport, two runs of the REAL ExportGenesis / InitGenesis (through the JSON codec):
//  (A) compared with the model (which follows ONE pair): the exported document restricted to the tracked pair, that
//      pair's historical + most-recent keys deleted, InitGenesis of the restricted document; committed when it does not
//      panic (the history continues on the imported records), dropped when it panics (Validate rejected a record).
//  (B) the whole module on a DISCARDED branch: export, every key deleted, import; observed: panic (the chain cannot
//      import its own export), raw store equality, pruning state.
func (e *twEngine) exportImport() {
	k := e.h.App.TwapKeeper
	o := e.o
	cdc := e.h.App.AppCodec()
	if e.poolId == 0 {
		return
	}
	pairPrefixes := [][]byte{twaptypes.FormatHistoricalPoolIndexTimePrefix(e.poolId, e.d0, e.d1)}
	recentKey := twaptypes.FormatMostRecentTWAPKey(e.poolId, e.d0, e.d1)
	// ---- (A)
	{
		cctx, write := e.h.Ctx.CacheContext()
		pre := append(twRaw(cctx, e, pairPrefixes...), fmt.Sprintf("recent=%x", cctx.KVStore(e.h.App.GetKey(twaptypes.StoreKey)).Get(recentKey)))
		var gs twaptypes.GenesisState
		var msg string
		ok := catchMsg(&msg, func() {
			full := k.ExportGenesis(cctx)
			sub := twaptypes.GenesisState{Params: full.Params}
			for _, r := range full.Twaps {
				if r.PoolId == e.poolId && r.Asset0Denom == e.d0 && r.Asset1Denom == e.d1 {
					sub.Twaps = append(sub.Twaps, r)
				}
			}
			cdc.MustUnmarshalJSON(cdc.MustMarshalJSON(&sub), &gs)
		})
		if !ok {
			o.Emit("twap exportimport", "panic", true)
			o.Fail("twap:export-import:export-panics", msg)
			return
		}
		twWipe(cctx, e, pairPrefixes...)
		cctx.KVStore(e.h.App.GetKey(twaptypes.StoreKey)).Delete(recentKey)
		if !catchMsg(&msg, func() { k.InitGenesis(cctx, &gs) }) {
			o.Emit("twap exportimport", "panic", true)
			o.Count("exportimport.pair.panic")
			twLoss(o, "twap:export-import:init-genesis-rejects-own-export", fmt.Sprintf("pool %d %s: %s", e.poolId, e.kind, msg))
		} else {
			post := append(twRaw(cctx, e, pairPrefixes...), fmt.Sprintf("recent=%x", cctx.KVStore(e.h.App.GetKey(twaptypes.StoreKey)).Get(recentKey)))
			if strings.Join(pre, " ") != strings.Join(post, " ") {
				o.Fail("twap:export-import:records-differ", fmt.Sprintf("pool %d before %d entries after %d", e.poolId, len(pre), len(post)))
			}
			write()
			o.Emit("twap exportimport", "ok", true)
			o.Count("exportimport.pair.ok")
		}
		e.dump()
	}
	e.exportImportModule()
}

// exportImportModule: run (B) of exportImport (the whole module on a discarded branch).
func (e *twEngine) exportImportModule() {
	k := e.h.App.TwapKeeper
	o := e.o
	cdc := e.h.App.AppCodec()
	{
		cctx, _ := e.h.Ctx.CacheContext()
		prePrune := k.GetPruningState(cctx)
		pre := twRaw(cctx, e)
		var gs twaptypes.GenesisState
		var msg string
		if !catchMsg(&msg, func() { cdc.MustUnmarshalJSON(cdc.MustMarshalJSON(k.ExportGenesis(cctx)), &gs) }) {
			o.Fail("twap:export-import:export-panics", msg)
			return
		}
		twWipe(cctx, e, nil)
		if !catchMsg(&msg, func() { k.InitGenesis(cctx, &gs) }) {
			o.Count("exportimport.module.panic")
			twLoss(o, "twap:export-import:init-genesis-rejects-own-export", msg)
			return
		}
		o.Count("exportimport.module.ok")
		post := twRaw(cctx, e)
		pruneKey := fmt.Sprintf("%x=", twaptypes.PruningStateKey)
		filter := func(l []string) string {
			var out []string
			for _, x := range l {
				if !strings.HasPrefix(x, pruneKey) {
					out = append(out, x)
				}
			}
			return strings.Join(out, " ")
		}
		if filter(pre) != filter(post) {
			o.Fail("twap:export-import:store-differs", fmt.Sprintf("%d entries before, %d after", len(pre), len(post)))
		}
		if postPrune := k.GetPruningState(cctx); postPrune.IsPruning != prePrune.IsPruning || !postPrune.LastKeptTime.Equal(prePrune.LastKeptTime) || postPrune.LastSeenPoolId != prePrune.LastSeenPoolId {
			if prePrune.IsPruning {
				twLoss(o, "twap:export-import:pruning-pass-in-progress-forgotten", fmt.Sprintf("%v -> %v", prePrune, postPrune))
			} else {
				o.Count("exportimport.module.idle-pruning-state-not-exported")
			}
		}
	}
}

// ---------------------------------------------------------------- queries + oracle

func (e *twEngine) pickTime(now time.Time) time.Time {
	r := e.r
	recs := e.recs
	cut := e.lastKept
	if e.pickCut != nil {
		cut = e.pickCut
	}
	if cut != nil && r.Intn(8) != 0 { // mostly inside the retained part of the history
		from := 0
		for i, rc := range recs {
			if rc.t.Before(*cut) {
				from = i
			}
		}
		recs = recs[from:]
	}
	n := len(recs)
	first, last := recs[0].t, recs[n-1].t
	small := []time.Duration{0, 1, -1, time.Millisecond, -time.Millisecond, 500 * time.Microsecond, -500 * time.Microsecond, 999999, time.Second,
		700 * time.Microsecond, -700 * time.Microsecond, -999999}
	switch r.Intn(16) {
	case 0:
		return now
	case 1:
		if r.Intn(3) == 0 {
			return now.Add([]time.Duration{1, time.Second, time.Hour}[r.Intn(3)])
		}
		return now
	case 2:
		if r.Intn(3) == 0 {
			return e.recs[0].t.Add(-[]time.Duration{1, time.Millisecond, time.Hour}[r.Intn(3)])
		}
		return first
	case 3, 4, 5:
		return recs[r.Intn(n)].t
	case 6, 7:
		return recs[r.Intn(n)].t.Add(small[r.Intn(len(small))])
	case 8:
		span := now.Sub(first)
		if span <= 0 {
			return first
		}
		return first.Add(time.Duration(r.Int63n(int64(span) + 1)))
	case 9:
		span := now.Sub(first) / time.Millisecond
		if span <= 0 {
			return first
		}
		return first.Truncate(time.Millisecond).Add(time.Duration(r.Int63n(int64(span)+1)) * time.Millisecond)
	case 10:
		if cut != nil {
			return cut.Add(small[r.Intn(3)])
		}
		return last
	case 11:
		i := r.Intn(n)
		nx := now
		if i+1 < n {
			nx = recs[i+1].t
		}
		return recs[i].t.Add(nx.Sub(recs[i].t) / 2)
	case 12:
		return last
	case 13, 14:
		// exactly on / 1 ns around the millisecond boundaries next to a record time (the accumulators see canonical
		// milliseconds, the error bookkeeping compares nanosecond instants)
		t := recs[r.Intn(n)].t.Truncate(time.Millisecond)
		e.o.Count("class.query-time.on-ms-boundary-next-to-record")
		return t.Add([]time.Duration{0, -1, 1, time.Millisecond, time.Millisecond - 1, time.Millisecond + 1, -time.Millisecond, 700 * time.Microsecond}[r.Intn(8)])
	default:
		return last.Add(small[r.Intn(len(small))])
	}
}

// ask runs one query against the keeper: through q.path (keeper API / client.Querier / gRPC router), the two instants
// handed over in the representation q.rep (twap_time_test.go).
func (e *twEngine) ask(q *twQuery, toNow bool) {
	q.toNow = toNow
	base, quote := e.d1, e.d0
	if !q.q0 {
		base, quote = e.d0, e.d1
	}
	var v osmomath.Dec
	var err error
	cctx, _ := e.h.Ctx.CacheContext()
	ok := catchMsg(&q.panicMsg, func() { v, err = e.callTwap(cctx, q, base, quote) })
	flagged := err != nil && strings.Contains(err.Error(), "error in pool spot price occurred")
	switch {
	case !ok:
		q.status = "panic"
	case v.IsNil() && flagged:
		q.status = "flagged-without-value" // the gRPC path drops the value that comes with the "may be faulty" error
		q.flag = true
	case v.IsNil():
		q.status = "err"
	default:
		q.status = "ok"
		q.v = v.BigInt()
		q.flag = err != nil
		if err != nil && !flagged {
			q.status = "err" // a value together with an unrelated error does not happen; keep it visible
		}
	}
}

func (q *twQuery) op(now time.Time) string {
	name := "arith"
	if q.geom {
		name = "geom"
	}
	if q.w != "" {
		return fmt.Sprintf("twap w%s %s %s %s %s %s", name, q.w, nsOf(now), nsOf(q.s), nsOf(q.e), twB01(q.q0))
	}
	return fmt.Sprintf("twap %s %s %s %s %s", name, nsOf(now), nsOf(q.s), nsOf(q.e), twB01(q.q0))
}

func (q *twQuery) obs() string {
	if q.status != "ok" {
		return q.status
	}
	return fmt.Sprintf("ok %s %s", q.v, twB01(q.flag))
}

func (e *twEngine) log2Of(p *big.Int) *big.Float {
	key := p.String()
	if v, ok := e.logCache[key]; ok {
		return v
	}
	v := log2Ref(bfRat(p, e18))
	e.logCache[key] = v
	return v
}

// geomTol: |returned - true| allowed for a geometric TWAP whose true value is T (as a Dec, i.e. in units of 1):
//   - SigFigRound(·, 10^8): half a unit of the 8th decimal of T·10^k, k the least exponent with T·10^k ≥ 0.1
//     (k = 0 for T ≥ 0.1), i.e. 0.5·10^-8·10^-k;
//   - the two truncations to 18 decimals around it (BigDec.Dec() before, QuoInt after): 2·10^-18;
//   - relative error of the exponent path: every recorded log2 is truncated to 18 decimals (LogBase2 itself:
//     abs 10^-32), the mean is truncated once more (so |Δexponent| ≤ 2·10^-18 + 10^-32, a factor 2^Δ ≤ 1 + 1.4·10^-18·…),
//     Exp2 rel 10^-18, the reciprocal 10^-36 abs: together below 10^-17 relative, taken as T·10^-17.
//
// k is taken from T·(1+10^-15) so that a value a hair below a power of ten gets the coarser grid.
func geomTol(T *big.Float) *big.Float {
	tol := bf(0.5e-8)
	tt := new(big.Float).SetPrec(refPrec).Mul(T, bf(1+1e-15))
	pointOne := bfRat(big.NewInt(1), big.NewInt(10))
	for i := 0; i < 60 && tt.Cmp(pointOne) < 0; i++ {
		tt.Mul(tt, bf(10))
		tol.Quo(tol, bf(10))
	}
	tol.Add(tol, bfRat(big.NewInt(2), e18))
	tol.Add(tol, new(big.Float).SetPrec(refPrec).Mul(T, bfRat(big.NewInt(1), pow10(17))))
	return tol
}

func decF(v *big.Int) *big.Float { return bfRat(v, e18) }

func intervalClass(q *twQuery, k, j int, recs []twRec) string {
	c := "interval-"
	switch {
	case q.s.Equal(q.e):
		c += "point"
	case msOf(q.s).Cmp(msOf(q.e)) == 0:
		c += "within-one-millisecond"
	case k == j:
		c += "inside-one-record"
	default:
		c += "across-records"
	}
	return c
}

// judge evaluates the property on one answered query, from the oracle's own log.
func (e *twEngine) judge(q *twQuery, now time.Time) {
	o := e.o
	name := "arith"
	if q.geom {
		name = "geom"
	}
	line := fmt.Sprintf("pool %d %s %s -> %s", e.poolId, e.kind, q.op(now), q.obs())
	recs := e.recs
	// --- which answers must exist
	if q.s.After(q.e) || q.e.After(now) || q.s.Before(recs[0].t) {
		o.Count("query.outside")
		if q.status != "err" {
			o.Fail(name+":answer-outside-domain:"+q.status, line)
		}
		return
	}
	inWindow := e.lastKept == nil || !q.s.Before(*e.lastKept)
	k := -1 // latest record at or before the start, j: at or before the end
	j := -1
	for i, rc := range recs {
		if !rc.t.After(q.s) {
			k = i
		}
		if !rc.t.After(q.e) {
			j = i
		}
	}
	class := intervalClass(q, k, j, recs)
	if q.status == "err" {
		if inWindow {
			o.Fail(name+":no-answer-inside-retention-window:"+class, line)
		} else {
			o.Count("query.pruned-away")
		}
		return
	}
	if q.status == "panic" {
		o.Fail(name+":panic:"+class, line+" ("+q.panicMsg+")")
		return
	}
	o.Count("query." + name + "." + class)
	// --- error flag: an error time is in force during [s,e] iff it was recorded at or before e and no later record at or before s
	wantFlag := false
	zeroInForce := false
	for i := k; i <= j; i++ {
		if recs[i].errInd {
			wantFlag = true
		}
		if recs[i].sp0.Sign() == 0 {
			zeroInForce = true
		}
	}
	if q.flag != wantFlag {
		if q.flag {
			o.Fail(name+":error-flag-spurious:"+class, line)
		} else {
			o.Fail(name+":error-flag-missing:"+class, line)
		}
	}
	if q.flag {
		o.Count("query.flagged")
	}
	sel := func(rc twRec) *big.Int {
		if q.q0 {
			return rc.sp0
		}
		return rc.sp1
	}
	// --- point interval: the last recorded price
	if q.s.Equal(q.e) {
		if q.v.Cmp(sel(recs[j])) != 0 {
			o.Fail(name+":point-interval-is-not-last-recorded-price", line)
		}
		return
	}
	// --- weights: overlap of [ms s, ms e] with [ms t_i, ms t_{i+1})
	ms, me := msOf(q.s), msOf(q.e)
	total := new(big.Int).Sub(me, ms)
	type seg struct {
		rc twRec
		w  *big.Int
	}
	var segs []seg
	sumW := new(big.Int)
	for i := k; i <= j; i++ {
		lo := msOf(recs[i].t)
		if lo.Cmp(ms) < 0 {
			lo = ms
		}
		hi := me
		if i+1 < len(recs) {
			if nx := msOf(recs[i+1].t); nx.Cmp(hi) < 0 {
				hi = nx
			}
		}
		w := new(big.Int).Sub(hi, lo)
		if w.Sign() > 0 {
			segs = append(segs, seg{recs[i], w})
			sumW.Add(sumW, w)
		}
	}
	if sumW.Cmp(total) != 0 {
		panic("oracle: weights do not cover the interval")
	}
	if !q.geom {
		if total.Sign() == 0 {
			o.Fail("arith:value-for-interval-within-one-millisecond", line)
			return
		}
		num := new(big.Int)
		var mn, mx *big.Int
		for _, s := range segs {
			p := sel(s.rc)
			num.Add(num, new(big.Int).Mul(p, s.w))
			if mn == nil || p.Cmp(mn) < 0 {
				mn = p
			}
			if mx == nil || p.Cmp(mx) > 0 {
				mx = p
			}
		}
		// exact: the time weighted mean, truncated to 18 decimals (prices are non-negative: floor)
		want := ratFloor(new(big.Rat).SetFrac(num, total))
		if q.v.Cmp(want) != 0 {
			o.Fail("arith:not-the-time-weighted-mean:"+class, fmt.Sprintf("%s want %s", line, want))
		}
		if q.v.Cmp(mn) < 0 || q.v.Cmp(mx) > 0 {
			o.Fail("arith:outside-min-max:"+class, fmt.Sprintf("%s min %s max %s", line, mn, mx))
		}
		return
	}
	// --- geometric
	if zeroInForce {
		o.Count("query.geom.zero-price-in-force") // flagged above; the value is documented as unreliable
		return
	}
	if total.Sign() == 0 {
		// all weight is below the clock resolution: the answer should still be the price in force
		p := decF(recs[k].sp0)
		if !q.q0 {
			p = new(big.Float).SetPrec(refPrec).Quo(bf(1), p)
		}
		if d := new(big.Float).Abs(new(big.Float).SetPrec(refPrec).Sub(decF(q.v), p)); d.Cmp(geomTol(p)) > 0 {
			if q.v.Sign() == 0 {
				q.zero = true
				o.Fail("geom:zero-result:interval-within-one-millisecond", line)
			} else {
				o.Fail("geom:not-two-to-the-mean-log:interval-within-one-millisecond", line)
			}
		}
		return
	}
	L := new(big.Float).SetPrec(refPrec)
	var mn, mx *big.Float
	allOne := true
	for _, s := range segs {
		if s.rc.sp0.Cmp(e18) != 0 {
			allOne = false
		}
		L.Add(L, new(big.Float).SetPrec(refPrec).Mul(e.log2Of(s.rc.sp0), bfInt(s.w)))
		// prices in force in the asked direction: sp0, resp. the recorded sp1
		p := decF(sel(s.rc))
		if mn == nil || p.Cmp(mn) < 0 {
			mn = p
		}
		if mx == nil || p.Cmp(mx) > 0 {
			mx = p
		}
	}
	L.Quo(L, bfInt(total))
	if !q.q0 {
		L.Neg(L)
	}
	T := exp2Ref(L)
	got := decF(q.v)
	tol := geomTol(T)
	if d := new(big.Float).Abs(new(big.Float).SetPrec(refPrec).Sub(got, T)); d.Cmp(tol) > 0 {
		wt, _ := T.Float64()
		key := "geom:not-two-to-the-mean-log:" + class
		if q.v.Sign() == 0 {
			q.zero = true
			if allOne {
				key = "geom:zero-result:all-prices-in-force-equal-one"
			} else {
				key = "geom:zero-result:log-accumulator-difference-zero"
			}
		}
		o.Fail(key, fmt.Sprintf("%s want≈%.12g", line, wt))
		return
	}
	// between the minimum and maximum price in force.  For quote = asset1 the recorded sp1 prices are only
	// approximately the reciprocals of the sp0 prices the geometric accumulator is built from (each side is
	// rounded by the pool on its own), so the bounds are widened by the largest recorded discrepancy.
	slack := bf(1)
	if !q.q0 {
		for _, s := range segs {
			if s.rc.sp1.Sign() == 0 { // failed read of this direction (flagged): no price in force to compare with
				o.Count("query.geom.zero-sp1-in-force")
				return
			}
			prod := new(big.Float).SetPrec(refPrec).Mul(decF(s.rc.sp0), decF(s.rc.sp1))
			if prod.Cmp(bf(1)) < 0 {
				prod.Quo(bf(1), prod)
			}
			if prod.Cmp(slack) > 0 {
				slack = prod
			}
		}
	}
	lo := new(big.Float).SetPrec(refPrec).Quo(mn, slack)
	lo.Sub(lo, tol)
	hi := new(big.Float).SetPrec(refPrec).Mul(mx, slack)
	hi.Add(hi, tol)
	if got.Cmp(lo) < 0 || got.Cmp(hi) > 0 {
		o.Fail("geom:outside-min-max:"+class, fmt.Sprintf("%s min %s max %s", line, mn.Text('g', 20), mx.Text('g', 20)))
	}
}

// reciprocal: the two quote directions of the geometric TWAP multiply to one.
func (e *twEngine) reciprocal(a, b *twQuery, now time.Time) {
	if a.status != "ok" || b.status != "ok" || a.s.Equal(a.e) || a.zero || b.zero {
		return // (a zero result is reported by judge under its own key)
	}
	for i := range e.recs { // skip intervals with a zero price in force (flagged, unreliable)
		if e.recs[i].sp0.Sign() == 0 {
			nx := now
			if i+1 < len(e.recs) {
				nx = e.recs[i+1].t
			}
			if !e.recs[i].t.After(a.e) && nx.After(a.s) {
				return
			}
		}
	}
	line := fmt.Sprintf("pool %d %s %s -> %s / %s", e.poolId, e.kind, a.op(now), a.obs(), b.obs())
	if a.v.Sign() == 0 && b.v.Sign() == 0 {
		e.o.Fail("geom:reciprocal:both-directions-zero", line)
		return
	}
	if a.v.Sign() == 0 || b.v.Sign() == 0 {
		// one side below 10^-18: its partner must be above 10^17 (true product 1 within the 8 figure rounding)
		big_ := a.v
		if big_.Sign() == 0 {
			big_ = b.v
		}
		if decF(big_).Cmp(bf(0.9e17)) < 0 {
			e.o.Fail("geom:reciprocal:one-direction-zero", line)
		}
		return
	}
	ga, gb := decF(a.v), decF(b.v)
	// g = T(1+ε)+δ on each side with T_a·T_b = 1: |g_a g_b − 1| ≤ tol_a/T_a + tol_b/T_b + tol_a tol_b (first order, ×1.01)
	ra := new(big.Float).SetPrec(refPrec).Quo(geomTol(ga), ga)
	rb := new(big.Float).SetPrec(refPrec).Quo(geomTol(gb), gb)
	bound := new(big.Float).SetPrec(refPrec).Add(ra, rb)
	bound.Add(bound, new(big.Float).SetPrec(refPrec).Mul(ra, rb))
	bound.Mul(bound, bf(1.01))
	prod := new(big.Float).SetPrec(refPrec).Mul(ga, gb)
	if d := new(big.Float).Abs(prod.Sub(prod, bf(1))); d.Cmp(bound) > 0 {
		e.o.Fail("geom:reciprocal:product-not-one", line)
	}
	e.o.Count("query.geom.reciprocal-pair")
}

// queries asks a batch of questions at the current block and judges the answers.
func (e *twEngine) queries(cnt int) []*twQuery {
	now := e.h.Ctx.BlockTime()
	var out []*twQuery
	for i := 0; i < cnt; i++ {
		s, en := e.pickTime(now), e.pickTime(now)
		if en.Before(s) && e.r.Intn(8) != 0 {
			s, en = en, s
		}
		q := &twQuery{s: s, e: en, q0: e.r.Intn(2) == 0, geom: e.r.Intn(2) == 0, w: e.wq, rep: e.pickRep()}
		toNow := en.Equal(now) && e.r.Intn(2) == 0
		e.ask(q, toNow)
		e.o.Emit(q.op(now), q.obs(), q.status == "ok")
		e.locCheck(q, now, 2)
		e.judge(q, now)
		out = append(out, q)
		if q.geom { // the opposite quote direction of the same interval
			p := &twQuery{s: s, e: en, q0: !q.q0, geom: true, w: e.wq, rep: e.pickRep()}
			e.ask(p, toNow)
			e.o.Emit(p.op(now), p.obs(), p.status == "ok")
			e.locCheck(p, now, 1)
			e.judge(p, now)
			e.reciprocal(q, p, now)
			out = append(out, p)
		}
	}
	return out
}

// pruneRound: answers before and after a pruning pass must agree for every interval inside the window.
func (e *twEngine) pruneRound() {
	r := e.r
	k := e.h.App.TwapKeeper
	keep := []time.Duration{1, time.Millisecond, 3 * time.Second, time.Minute, time.Hour, 14 * time.Hour, 48 * time.Hour}[r.Intn(7)]
	if r.Intn(3) == 0 && len(e.recs) > 1 { // cutoff exactly on / next to a record time
		keep = e.h.Ctx.BlockTime().Sub(e.recs[r.Intn(len(e.recs))].t) + []time.Duration{0, 1, -1}[r.Intn(3)]
		if keep <= 0 {
			keep = 1 // the parameter must be positive
		}
	}
	params := k.GetParams(e.h.Ctx)
	params.RecordHistoryKeepPeriod = keep
	k.SetParams(e.h.Ctx, params)
	twap.NumRecordsToPrunePerBlock = []uint16{200, 200, 3, 1, 7}[r.Intn(5)]
	before := e.queries(10)
	oldNow := e.h.Ctx.BlockTime()
	// the epoch hook of the prune epoch arms the pruning state; the EndBlocker does the work
	if err := k.EpochHooks().AfterEpochEnd(e.h.Ctx, params.PruneEpochIdentifier, 1); err != nil {
		panic(err)
	}
	st := k.GetPruningState(e.h.Ctx)
	e.o.Count("prune.armed")
	e.endBlock(e.randDt())
	if e.prunedAt.Before(st.LastKeptTime) || e.lastKept == nil { // (a later cutoff armed by a natural epoch in between subsumes this one)
		e.o.Fail("prune:pass-not-run", fmt.Sprintf("pool %d armed %v", e.poolId, st))
		return
	}
	now := e.h.Ctx.BlockTime()
	for _, b := range before {
		if b.e.After(oldNow) {
			continue
		}
		a := &twQuery{s: b.s, e: b.e, q0: b.q0, geom: b.geom, w: b.w, rep: e.pickRep()}
		e.ask(a, false)
		e.o.Emit(a.op(now), a.obs(), a.status == "ok")
		e.judge(a, now)
		if b.s.Before(*e.lastKept) {
			continue
		}
		if a.obs() != b.obs() {
			name := "arith"
			if b.geom {
				name = "geom"
			}
			e.o.Fail("prune:answer-changed-inside-window:"+name, fmt.Sprintf("pool %d cutoff %s %s before %s after %s", e.poolId, nsOf(*e.lastKept), a.op(now), b.obs(), a.obs()))
		}
		e.o.Count("prune.answer-compared")
	}
}

// openHistory starts a single-pool history: a fresh pool (kind chosen by createPool), `reset` + `create` for the model, the
// creation record into the own log.  false: nothing was created (the block is closed).
func (e *twEngine) openHistory() bool {
	h, o := e.h, e.o
	e.recs, e.lastKept, e.posIds, e.poolId = nil, nil, nil, 0
	if !e.createPool() {
		e.endBlock(e.randDt())
		return false
	}
	o.Emit("twap reset", "ok", false)
	rec, ok := e.mostRecent()
	if !ok {
		o.Fail("create:no-record-for-new-pool", fmt.Sprintf("pool %d %s", e.poolId, e.kind))
		return false
	}
	_, _, e0, e1 := e.poolPrices()
	errNow := rec.LastErrorTime.Equal(h.Ctx.BlockTime())
	o.Emit(fmt.Sprintf("twap create %s %d %s %s %s", nsOf(h.Ctx.BlockTime()), h.Ctx.BlockHeight(), rec.P0LastSpotPrice.BigInt(), rec.P1LastSpotPrice.BigInt(), twB01(errNow)), "ok "+recStr(rec), true)
	if (e0 != nil || e1 != nil) != errNow {
		o.Fail("create:error-time-does-not-match-spot-price-read", fmt.Sprintf("pool %d %s record %s", e.poolId, e.kind, recStr(rec)))
	}
	if (rec.P0LastSpotPrice.IsZero() || rec.P1LastSpotPrice.IsZero()) && !errNow {
		o.Fail("create:zero-price-recorded-without-error", fmt.Sprintf("pool %d %s record %s", e.poolId, e.kind, recStr(rec)))
	}
	if !rec.Time.Equal(h.Ctx.BlockTime()) {
		o.Fail("create:record-not-at-block-time", fmt.Sprintf("pool %d %s block %s record %s", e.poolId, e.kind, nsOf(h.Ctx.BlockTime()), recStr(rec)))
	}
	e.logRecord(h.Ctx.BlockTime(), rec, e0 != nil || e1 != nil)
	return true
}

func runTwap(t *testing.T, seed int64, n int, dir string) {
	r := rand.New(rand.NewSource(seed))
	o := NewOut(dir)
	defaultPrune := twap.NumRecordsToPrunePerBlock
	defer func() { twap.NumRecordsToPrunePerBlock = defaultPrune }()
	e := &twEngine{r: r, o: o, logCache: map[string]*big.Float{}, seed: seed}
	// deterministic clock: the helper starts at time.Now()
	base := time.Date(2030, 1, 1, 0, 0, 0, 0, time.UTC).Add(time.Duration(seed%977) * time.Hour)
	freshApp := func() {
		// a new chain (pool ids start over; keeps the per-block cost of pruning passes over all pools bounded)
		h := newH(t)
		h.Ctx = h.Ctx.WithBlockTime(base)
		h.SetEpochStartTime()
		e.h = h
		e.finalize(base.Add(5 * time.Second))
		e.prunedAt = h.App.TwapKeeper.GetPruningState(h.Ctx).LastKeptTime
	}
	histories := 0
	worlds, opsWorld, opsDirected := 0, 0, 0
	share := 2
	if strings.Contains(os.Getenv("VERIF_FAIL_FILTER"), "export-import") {
		share = 4 // C19 borrows this engine for the export / import op of the single-pool histories
	}
	for o.n < n {
		// world histories (several pools / pairs on a chain of their own, twap_world_test.go) get half of the op budget
		if os.Getenv("VERIF_TWAP_WORLD") != "0" && opsWorld*share <= o.n {
			before := o.n
			hs, ps := e.h, e.prunedAt
			wbase := time.Date(2040, 1, 1, 0, 0, 0, 0, time.UTC).Add(time.Duration(seed%977)*time.Hour + time.Duration(worlds%300)*700*time.Hour)
			e.worldIdx, e.massOK = worlds, share == 2
			worlds++
			h := newH(t)
			h.Ctx = h.Ctx.WithBlockTime(wbase)
			h.SetEpochStartTime()
			e.h = h
			e.hdrZone = nil
			if r.Intn(5) == 0 {
				e.hdrZone = twZones()[r.Intn(len(twZones()))]
			}
			e.finalize(wbase.Add(5 * time.Second))
			budget := n / 6
			if budget < 700 {
				budget = 700
			}
			e.runWorld(budget)
			e.hdrZone = nil
			e.h, e.prunedAt = hs, ps
			opsWorld += o.n - before
			continue
		}
		if histories%100 == 0 {
			if e.h != nil {
				base = e.h.Ctx.BlockTime().Add(time.Hour).Truncate(time.Second)
			}
			freshApp()
		}
		histories++
		e.hdrZone = nil
		if r.Intn(6) == 0 {
			e.hdrZone = twZones()[r.Intn(len(twZones()))]
		}
		// directed drain / refill histories with sub-millisecond structure (twap_time_test.go): 40% of the single-pool budget
		if os.Getenv("VERIF_TWAP_DIRECTED") != "0" && share == 2 && opsDirected*5 <= 2*(o.n-opsWorld) {
			before := o.n
			e.errHistory(n)
			opsDirected += o.n - before
			continue
		}
		// ---- new history: new pool
		if !e.openHistory() {
			continue
		}
		if e.kind == "cl" && r.Intn(4) != 0 {
			e.action() // first position in the creation block
		}
		e.endBlock(e.randDt())
		blocks := 4 + r.Intn(30)
		for b := 0; b < blocks && o.n < n; b++ {
			switch k := r.Intn(10); {
			case k < 3: // idle block
			case k < 8:
				e.action()
			default:
				for i := 0; i < 2+r.Intn(3); i++ {
					e.action()
				}
			}
			e.endBlock(e.randDt())
			if r.Intn(2) == 0 {
				e.queries(1 + r.Intn(6))
			}
			if r.Intn(12) == 0 {
				e.emitSpotSynthetic()
			}
			if len(e.recs) >= 3 && r.Intn(9) == 0 {
				e.pruneRound()
			}
			if r.Intn(10) == 0 {
				e.dump()
			}
			if r.Intn(7) == 0 {
				e.exportImport()
				if r.Intn(2) == 0 {
					e.queries(2)
				}
			}
		}
		e.queries(4)
		e.dump()
	}
	o.Close(nil)
}
