package app_test

// Engine `mint` (property C18): real x/mint keeper through the app.  Each history
// draws a parameter set, then feeds consecutive epoch numbers to AfterEpochEnd
// (inside a cache context, as the epoch hook wrapper does) and observes every
// account the property names.

import (
	"fmt"
	"math/big"
	"math/rand"
	"strings"
	"testing"

	sdk "github.com/cosmos/cosmos-sdk/types"
	authtypes "github.com/cosmos/cosmos-sdk/x/auth/types"
	distrtypes "github.com/cosmos/cosmos-sdk/x/distribution/types"

	"github.com/osmosis-labs/osmosis/osmomath"
	minttypes "github.com/osmosis-labs/osmosis/v31/x/mint/types"
	poolincentivestypes "github.com/osmosis-labs/osmosis/v31/x/pool-incentives/types"
)

func decRaw(v *big.Int) osmomath.Dec { return osmomath.NewDecFromBigIntWithPrec(v, 18) }

var e18 = new(big.Int).Exp(big.NewInt(10), big.NewInt(18), nil)

// randProportions: k non-negative Decs summing to exactly 1, with d decimals.
func randProportions(r *rand.Rand, k int, positive bool) []*big.Int {
	d := []int{1, 2, 3, 6, 18}[r.Intn(5)]
	unit := new(big.Int).Exp(big.NewInt(10), big.NewInt(int64(18-d)), nil)
	total := new(big.Int).Exp(big.NewInt(10), big.NewInt(int64(d)), nil)
	out := make([]*big.Int, k)
	rem := new(big.Int).Set(total)
	if positive { // one unit each up front, added back below
		rem.Sub(rem, big.NewInt(int64(k)))
	}
	defer func() {
		if positive {
			for i := range out {
				out[i].Add(out[i], unit)
			}
		}
	}()
	for i := 0; i < k-1; i++ {
		var x *big.Int
		if r.Intn(5) == 0 {
			x = big.NewInt(0)
		} else {
			x = new(big.Int).Rand(r, new(big.Int).Add(rem, big.NewInt(1)))
			if r.Intn(2) == 0 {
				x.Quo(x, big.NewInt(int64(1+r.Intn(4))))
			}
		}
		out[i] = new(big.Int).Mul(x, unit)
		rem.Sub(rem, x)
	}
	out[k-1] = new(big.Int).Mul(rem, unit)
	r.Shuffle(k, func(i, j int) { out[i], out[j] = out[j], out[i] })
	return out
}

func runMint(t *testing.T, seed int64, n int, dir string) {
	r := rand.New(rand.NewSource(seed))
	o := NewOut(dir)
	h := newH(t)
	epochsDone := 0
	for epochsDone < n {
		h.Reset()
		ctx := h.Ctx
		mk := h.App.MintKeeper
		bk := h.App.BankKeeper
		ak := h.App.AccountKeeper
		params := mk.GetParams(ctx)
		denom := params.MintDenom
		props := randProportions(r, 4, false)
		params.DistributionProportions = minttypes.DistributionProportions{
			Staking: decRaw(props[0]), PoolIncentives: decRaw(props[1]), DeveloperRewards: decRaw(props[2]), CommunityPool: decRaw(props[3]),
		}
		start := int64(r.Intn(6))
		period := int64(1 + r.Intn(8))
		// boundary classes of the epoch numbers (int64 in the code, unbounded in the model): large start epoch, huge period
		eclass := "small"
		if x := r.Intn(100); x < 10 {
			base := []int64{1<<31 - 3, 1<<32 - 3, 1 << 53, 1 << 62}[x%4]
			start += base
			eclass = fmt.Sprintf("start~2^%d", []int{31, 32, 53, 62}[x%4])
			if r.Intn(4) == 0 {
				period = []int64{1 << 31, 1 << 40}[r.Intn(2)] // start + period stays below 2^63
				eclass += "+huge-period"
			}
		}
		o.Count("class.epoch." + eclass)
		factor := new(big.Int).Rand(r, new(big.Int).Add(e18, big.NewInt(1))) // [0,1]
		switch r.Intn(4) {
		case 0:
			factor = new(big.Int).Quo(new(big.Int).Mul(e18, big.NewInt(2)), big.NewInt(3)) // 2/3 truncated
		case 1:
			factor = new(big.Int).Quo(e18, big.NewInt(2))
		}
		params.MintingRewardsDistributionStartEpoch = start
		params.ReductionPeriodInEpochs = period
		params.ReductionFactor = decRaw(factor)
		nrecv := r.Intn(5)
		var recv []minttypes.WeightedAddress
		var recvAddrs []sdk.AccAddress
		var recvStr []string
		if nrecv > 0 {
			ws := randProportions(r, nrecv, true)
			for i := 0; i < nrecv; i++ {
				addr := sdk.AccAddress([]byte(fmt.Sprintf("devreceiver%09d", i)))
				a := addr.String()
				comm := "0"
				if r.Intn(4) == 0 {
					a = ""
					comm = "1"
				}
				recv = append(recv, minttypes.WeightedAddress{Address: a, Weight: decRaw(ws[i])})
				recvAddrs = append(recvAddrs, addr)
				recvStr = append(recvStr, ws[i].String()+":"+comm)
			}
		}
		params.WeightedDeveloperRewardsReceivers = recv
		mk.SetParams(ctx, params)
		// initial provisions: integers, thirds, tiny, large
		var prov *big.Int
		switch r.Intn(5) {
		case 0:
			prov = new(big.Int).Mul(big.NewInt(int64(r.Intn(5000000))), e18)
		case 1:
			prov = new(big.Int).Rand(r, new(big.Int).Mul(big.NewInt(1000), e18))
		case 2:
			prov = new(big.Int).Add(new(big.Int).Mul(big.NewInt(1000003), e18), big.NewInt(int64(r.Intn(1000))))
		case 3:
			prov = new(big.Int).Rand(r, new(big.Int).Exp(big.NewInt(10), big.NewInt(int64(20+r.Intn(25))), nil))
		default:
			prov = new(big.Int).Mul(big.NewInt(int64(1+r.Intn(100))), e18)
		}
		// magnitude classes of the provisions (whole tokens around 2^63, 2^64, 2^127..2^129, near the top of Dec)
		pclass := "ordinary"
		if x := r.Intn(100); x < 16 {
			tok := func(bits int) *big.Int { // (2^bits + {-1,0,1}) tokens + a random fraction
				v := new(big.Int).Add(pow2(bits), big.NewInt(int64(r.Intn(3)-1)))
				v.Mul(v, e18)
				if r.Intn(2) == 0 {
					v.Add(v, new(big.Int).Rand(r, e18))
				}
				return v
			}
			switch x % 4 {
			case 0:
				prov, pclass = tok(63), "2^63"
			case 1:
				prov, pclass = tok(64), "2^64"
			case 2:
				prov, pclass = tok(127+r.Intn(3)), "2^127..2^129"
			default:
				// raw value of 300..305 bits: provisions x reduction factor exceeds the 315 bits of Dec before chopping,
				// the sum of all mints of the history stays below 2^256
				prov, pclass = new(big.Int).Add(pow2(300+r.Intn(5)), new(big.Int).Rand(r, pow2(300))), "near-dec-max"
			}
			if r.Intn(5) != 0 { // let the developer vesting account afford its share (else: insufficient-balance path)
				h.FundModuleAcc(minttypes.DeveloperVestingModuleAcctName, sdk.NewCoins(sdk.NewCoin(denom, osmomath.NewIntFromBigInt(pow2(251)))))
			}
		}
		o.Count("class.provisions." + pclass)
		mk.SetMinter(ctx, minttypes.NewMinter(decRaw(prov)))
		// params.GenesisEpochProvisions, the value InitGenesis puts back into the minter (C19): the history's initial provisions (a chain
		// that started from this genesis: an import then differs only after a reduction) or, one history in three, an unrelated value
		g0 := new(big.Int).Set(prov)
		if r.Intn(3) == 0 {
			g0 = new(big.Int).Mul(big.NewInt(int64(1+r.Intn(9000000))), e18)
			o.Count("class.genesis-provisions.unrelated")
		}
		params.GenesisEpochProvisions = decRaw(g0)
		mk.SetParams(ctx, params)
		devAcc := ak.GetModuleAddress(minttypes.DeveloperVestingModuleAcctName)
		vest := bk.GetBalance(ctx, devAcc, denom).Amount
		if r.Intn(6) == 0 { // drain most of the vesting account: insufficient-balance path
			keep := osmomath.NewInt(int64(r.Intn(1000)))
			if vest.GT(keep) {
				_ = bk.SendCoinsFromModuleToAccount(ctx, minttypes.DeveloperVestingModuleAcctName, sdk.AccAddress([]byte("sink_______________")), sdk.NewCoins(sdk.NewCoin(denom, vest.Sub(keep))))
				vest = bk.GetBalance(ctx, devAcc, denom).Amount
			}
		}
		o.Emit(fmt.Sprintf("mint reset %d %d %s %s %s %s %s %s %s %s", start, period, factor, props[0], props[1], props[2], props[3], prov, vest.BigInt(), strings.Join(recvStr, " ")), "ok", true)
		o.Count(fmt.Sprintf("receivers.%d", nrecv))

		mintAcc := ak.GetModuleAddress(minttypes.ModuleName)
		feeColl := ak.GetModuleAddress(authtypes.FeeCollectorName)
		poolInc := ak.GetModuleAddress(poolincentivestypes.ModuleName)
		distrAcc := ak.GetModuleAddress(distrtypes.ModuleName)
		bal := func(c sdk.Context, a sdk.AccAddress) *big.Int { return bk.GetBalance(c, a, denom).Amount.BigInt() }
		lastReduction := int64(0)
		provNow := new(big.Int).Set(prov)
		nEpochs := 3 + r.Intn(40)
		first := int64(0)
		if r.Intn(3) == 0 {
			first = start
		}
		if eclass != "small" && r.Intn(3) != 0 { // a few epochs before the (large) start epoch
			first = start - int64(r.Intn(4))
		}
		for e := first; e < first+int64(nEpochs) && epochsDone < n; e++ {
			epochsDone++
			if r.Intn(10) == 0 {
				// C19: the REAL x/mint ExportGenesis -> JSON -> every key of the mint store deleted -> the REAL InitGenesis; the epochs go on
				cdc := h.App.AppCodec()
				cctx, write := ctx.CacheContext()
				okI := catch(func() {
					bz := cdc.MustMarshalJSON(mk.ExportGenesis(cctx))
					store := cctx.KVStore(h.App.GetKey(minttypes.StoreKey))
					var keys [][]byte
					it := store.Iterator(nil, nil)
					for ; it.Valid(); it.Next() {
						keys = append(keys, append([]byte{}, it.Key()...))
					}
					it.Close()
					for _, key := range keys {
						store.Delete(key)
					}
					var gs minttypes.GenesisState
					cdc.MustUnmarshalJSON(bz, &gs)
					mk.InitGenesis(cctx, &gs)
				})
				line := fmt.Sprintf("mint exportimport %s", g0)
				if !okI {
					o.Emit(line, "panic", true)
					o.Fail("export-import:mint:panics", line)
				} else {
					write()
					after := mk.ExportGenesis(ctx)
					impProv := after.Minter.EpochProvisions.BigInt()
					o.Emit(line, fmt.Sprintf("ok prov=%s last=%d", impProv, after.ReductionStartedEpoch), true)
					o.Count("exportimport")
					if after.ReductionStartedEpoch != lastReduction {
						o.Fail("export-import:mint:last-reduction-epoch", fmt.Sprintf("%d -> %d", lastReduction, after.ReductionStartedEpoch))
					}
					if !after.Params.GenesisEpochProvisions.Equal(params.GenesisEpochProvisions) || after.Params.ReductionPeriodInEpochs != period ||
						!after.Params.ReductionFactor.Equal(params.ReductionFactor) || after.Params.MintingRewardsDistributionStartEpoch != start {
						o.Fail("export-import:mint:params", line)
					}
					if impProv.Cmp(provNow) != 0 {
						// InitGenesis overwrites the minter's provisions with params.GenesisEpochProvisions (F31)
						twLoss(o, "export-import:module-state:mint:.minter.epoch_provisions",
							fmt.Sprintf("epoch provisions %s before ExportGenesis, %s after InitGenesis (= params.GenesisEpochProvisions %s); last reduction epoch %d", provNow, impProv, g0, lastReduction))
						provNow = impProv
					}
				}
			}
			before := map[string]*big.Int{"mint": bal(ctx, mintAcc), "fee": bal(ctx, feeColl), "pool": bal(ctx, poolInc), "distr": bal(ctx, distrAcc), "vest": bal(ctx, devAcc)}
			var rb []*big.Int
			for _, a := range recvAddrs {
				rb = append(rb, bal(ctx, a))
			}
			supplyB := bk.GetSupplyWithOffset(ctx, denom).Amount.BigInt()
			cctx, write := ctx.CacheContext()
			var err error
			ok := catch(func() { err = mk.AfterEpochEnd(cctx, params.EpochIdentifier, e) })
			line := fmt.Sprintf("mint epoch %d", e)
			minter := mk.GetMinter(ctx)
			if !ok || err != nil {
				o.Emit(line, fmt.Sprintf("err prov=%s last=%d", provNow, lastReduction), true)
				o.Count("epoch.err")
				continue
			}
			write()
			minter = mk.GetMinter(ctx)
			newProv := minter.EpochProvisions.BigInt()
			d := func(k string, a sdk.AccAddress) *big.Int { return new(big.Int).Sub(bal(ctx, a), before[k]) }
			if e < start {
				o.Emit(line, fmt.Sprintf("skip prov=%s last=%d", newProv, lastReduction), true)
				o.Count("epoch.skip")
				if d("mint", mintAcc).Sign() != 0 || d("fee", feeColl).Sign() != 0 || d("distr", distrAcc).Sign() != 0 || newProv.Cmp(provNow) != 0 {
					o.Fail("schedule:minted-before-start-epoch", line)
				}
				continue
			}
			// --- observations ---
			staking := d("fee", feeColl)
			distrDelta := d("distr", distrAcc)
			vestDelta := d("vest", devAcc)
			poolLeft := d("pool", poolInc)
			var paid []string
			paidSum := new(big.Int)
			commFromDev := new(big.Int)
			for i, a := range recvAddrs {
				if recv[i].Address == "" {
					// goes to the community pool from the vesting account: reconstruct below
					paid = append(paid, "?")
					continue
				}
				x := new(big.Int).Sub(bal(ctx, a), rb[i])
				paid = append(paid, x.String())
				paidSum.Add(paidSum, x)
			}
			supplyDelta := new(big.Int).Sub(bk.GetSupplyWithOffset(ctx, denom).Amount.BigInt(), supplyB)
			// reduction bookkeeping as the property states it (oracle, independent of the model)
			expectReduce := false
			lr := lastReduction
			if e == start {
				lr = e
			}
			if e >= period+lr {
				expectReduce = true
			}
			wantProv := new(big.Int).Set(provNow)
			if expectReduce {
				wantProv = decRaw(provNow).Mul(decRaw(factor)).BigInt()
				lr = e
			}
			minted := new(big.Int).Quo(wantProv, e18)
			// exact integer shares
			share := func(p *big.Int) *big.Int { return ratTrunc(new(big.Rat).SetFrac(new(big.Int).Mul(minted, p), e18)) }
			wantStaking, wantPool, wantDev := share(props[0]), share(props[1]), share(props[2])
			wantComm := new(big.Int).Sub(new(big.Int).Sub(new(big.Int).Sub(minted, wantStaking), wantPool), wantDev)
			// per-receiver payouts out of the vesting account
			for i := range recvAddrs {
				w := recv[i].Weight.BigInt()
				x := ratTrunc(new(big.Rat).SetFrac(new(big.Int).Mul(wantDev, w), e18))
				if recv[i].Address == "" {
					paid[i] = x.String()
					commFromDev.Add(commFromDev, x)
				}
			}
			if len(recvAddrs) == 0 {
				commFromDev.Set(wantDev)
			}
			totalPaid := new(big.Int).Add(paidSum, commFromDev)
			if len(recvAddrs) == 0 {
				paid = nil
			}
			lastReduction = lr
			provNow = newProv
			obs := fmt.Sprintf("ok minted=%s staking=%s pool=%s dev=%s comm=%s paid=[%s] supply=%s mintacct=%s vest=%s prov=%s last=%d",
				minted, staking, wantPool, wantDev, wantComm, strings.Join(paid, ","), supplyDelta, bal(ctx, mintAcc), bal(ctx, devAcc), newProv, lastReduction)
			o.Emit(line, obs, true)
			o.Count("epoch.ok")
			if expectReduce {
				o.Count("epoch.reduction")
			}
			// --- property oracle ---
			if newProv.Cmp(wantProv) != 0 {
				o.Fail("schedule:provision", fmt.Sprintf("%s got %s want %s", line, newProv, wantProv))
			}
			if bal(ctx, mintAcc).Sign() != 0 {
				o.Fail("allocation:mint-account-not-empty", line)
			}
			if staking.Cmp(wantStaking) != 0 {
				o.Fail("allocation:staking-share", line)
			}
			if poolLeft.Sign() != 0 {
				o.Fail("allocation:pool-incentives-left-in-module", line)
			}
			// community pool receives remainder + (unallocated) pool incentives + dev portions addressed to it
			wantDistr := new(big.Int).Add(new(big.Int).Add(wantComm, wantPool), commFromDev)
			if distrDelta.Cmp(wantDistr) != 0 {
				o.Fail("allocation:community-pool", fmt.Sprintf("%s got %s want %s", line, distrDelta, wantDistr))
			}
			if new(big.Int).Neg(vestDelta).Cmp(totalPaid) != 0 {
				o.Fail("allocation:vesting-payout", line)
			}
			// everything minted is allocated: staking + pool + dev + community == minted
			sum := new(big.Int).Add(new(big.Int).Add(wantStaking, wantPool), new(big.Int).Add(wantDev, wantComm))
			if sum.Cmp(minted) != 0 {
				o.Fail("allocation:sum", line)
			}
			// reported supply grows by exactly the minted amount
			if supplyDelta.Cmp(minted) != 0 {
				if totalPaid.Cmp(wantDev) < 0 && new(big.Int).Sub(minted, supplyDelta).Cmp(new(big.Int).Sub(wantDev, totalPaid)) == 0 {
					o.Fail("supply:dev-receiver-weights-do-not-divide", fmt.Sprintf("%s minted %s reported %s", line, minted, supplyDelta))
				} else {
					o.Fail("supply:other", fmt.Sprintf("%s minted %s reported %s", line, minted, supplyDelta))
				}
			}
		}
	}
	o.Close(nil)
}
