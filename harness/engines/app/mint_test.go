package app_test

// Engine `mint` (property C18): real x/mint keeper through the app, INCLUDING what the mint hook triggers in
// x/pool-incentives.  Each history draws a parameter set (with zero-proportion and tiny-provision classes) and a
// world (gauges created through real pools / the incentives keeper, a distribution table built by real
// Update/ReplacePoolIncentives proposals run through the gov handler), then feeds consecutive epoch numbers to the
// mint epoch hook THE WAY x/epochs DOES (MultiEpochHooks -> panicCatchingEpochHook -> ApplyFuncIfNoError: a
// panicking hook is "nothing happened"), interleaved with further proposals (add, re-weight, remove with weight 0,
// remove all, duplicate / unsorted / unknown / non-perpetual gauges, gauge id 0 = community pool), and observes
// every account the property names plus every gauge.

import (
	"fmt"
	"math/big"
	"math/rand"
	"sort"
	"strings"
	"testing"
	"time"

	sdk "github.com/cosmos/cosmos-sdk/types"
	authtypes "github.com/cosmos/cosmos-sdk/x/auth/types"
	distrtypes "github.com/cosmos/cosmos-sdk/x/distribution/types"

	"github.com/osmosis-labs/osmosis/osmomath"
	appparams "github.com/osmosis-labs/osmosis/v31/app/params"
	incentivestypes "github.com/osmosis-labs/osmosis/v31/x/incentives/types"
	lockuptypes "github.com/osmosis-labs/osmosis/v31/x/lockup/types"
	minttypes "github.com/osmosis-labs/osmosis/v31/x/mint/types"
	poolincentives "github.com/osmosis-labs/osmosis/v31/x/pool-incentives"
	poolincentivestypes "github.com/osmosis-labs/osmosis/v31/x/pool-incentives/types"
	epochstypes "github.com/osmosis-labs/osmosis/x/epochs/types"
)

func decRaw(v *big.Int) osmomath.Dec { return osmomath.NewDecFromBigIntWithPrec(v, 18) }

var e18 = new(big.Int).Exp(big.NewInt(10), big.NewInt(18), nil)

// randProportions: k non-negative Decs summing to exactly 1, with d decimals.
func randProportions(r *rand.Rand, k int, positive bool) []*big.Int {
	d := []int{1, 2, 3, 6, 18}[r.Intn(5)]
	unit := new(big.Int).Exp(big.NewInt(10), big.NewInt(int64(18-d)), nil)
	total := new(big.Int).Exp(big.NewInt(10), big.NewInt(int64(d)), nil)
	out := make([]*big.Int, k)
	rem := new(big.Int).Set(total)
	if positive { // one unit each up front, added back below
		rem.Sub(rem, big.NewInt(int64(k)))
	}
	defer func() {
		if positive {
			for i := range out {
				out[i].Add(out[i], unit)
			}
		}
	}()
	for i := 0; i < k-1; i++ {
		var x *big.Int
		if r.Intn(5) == 0 {
			x = big.NewInt(0)
		} else {
			x = new(big.Int).Rand(r, new(big.Int).Add(rem, big.NewInt(1)))
			if r.Intn(2) == 0 {
				x.Quo(x, big.NewInt(int64(1+r.Intn(4))))
			}
		}
		out[i] = new(big.Int).Mul(x, unit)
		rem.Sub(rem, x)
	}
	out[k-1] = new(big.Int).Mul(rem, unit)
	r.Shuffle(k, func(i, j int) { out[i], out[j] = out[j], out[i] })
	return out
}

// mintRecHook wraps the mint module's epoch hook and records how it ended; the panic (if any) is re-raised so that
// the real wrapper (panicCatchingEpochHook -> osmoutils.ApplyFuncIfNoError) deals with it exactly as on chain.
type mintRecHook struct {
	inner    epochstypes.EpochHooks
	err      error
	panicked bool
	pv       any
}

func (h *mintRecHook) GetModuleName() string { return h.inner.GetModuleName() }
func (h *mintRecHook) BeforeEpochStart(ctx sdk.Context, id string, n int64) error {
	return h.inner.BeforeEpochStart(ctx, id, n)
}
func (h *mintRecHook) AfterEpochEnd(ctx sdk.Context, id string, n int64) (err error) {
	defer func() {
		if r := recover(); r != nil {
			h.panicked, h.pv = true, r
			panic(r)
		}
	}()
	err = h.inner.AfterEpochEnd(ctx, id, n)
	h.err = err
	return err
}

type drec struct {
	g uint64
	w *big.Int
}

func drecsStr(rs []drec) string {
	var xs []string
	for _, r := range rs {
		xs = append(xs, fmt.Sprintf("%d:%s", r.g, r.w))
	}
	return strings.Join(xs, " ")
}


// refWeightRatio: the 18-decimal weight ratio as the code computes it (LegacyDec.Quo: the quotient of w*10^36 by W
// truncated, then rounded half-even at 10^18), recomputed with plain big.Int arithmetic.
func refWeightRatio(w, total *big.Int) *big.Int {
	q := new(big.Int).Quo(new(big.Int).Mul(w, e36), total) // operands are non-negative
	return ratHalfEven(new(big.Rat).SetFrac(q, e18))
}

func runMint(t *testing.T, seed int64, n int, dir string) {
	r := rand.New(rand.NewSource(seed))
	o := NewOut(dir)
	h := newH(t)
	epochsDone := 0
	propName := []string{"staking", "pool-incentives", "developer", "community"}
	for epochsDone < n {
		h.Reset()
		ctx := h.Ctx
		mk := h.App.MintKeeper
		bk := h.App.BankKeeper
		ak := h.App.AccountKeeper
		pik := h.App.PoolIncentivesKeeper
		ik := h.App.IncentivesKeeper
		params := mk.GetParams(ctx)
		denom := params.MintDenom
		props := randProportions(r, 4, false)
		// zero-proportion classes: each of the four proportions is forced to 0 in a share of the histories
		if x := r.Intn(10); x < 4 {
			i := r.Intn(4)
			j := (i + 1 + r.Intn(3)) % 4
			props[j] = new(big.Int).Add(props[j], props[i])
			props[i] = big.NewInt(0)
			if x == 0 { // two zero proportions
				k := (j + 1 + r.Intn(3)) % 4
				if k != j {
					props[j] = new(big.Int).Add(props[j], props[k])
					props[k] = big.NewInt(0)
				}
			}
		}
		for i, p := range props {
			if p.Sign() == 0 {
				o.Count("class.zero-proportion." + propName[i])
			}
		}
		params.DistributionProportions = minttypes.DistributionProportions{
			Staking: decRaw(props[0]), PoolIncentives: decRaw(props[1]), DeveloperRewards: decRaw(props[2]), CommunityPool: decRaw(props[3]),
		}
		start := int64(r.Intn(6))
		period := int64(1 + r.Intn(8))
		// boundary classes of the epoch numbers (int64 in the code, unbounded in the model): large start epoch, huge period
		eclass := "small"
		if x := r.Intn(100); x < 10 {
			base := []int64{1<<31 - 3, 1<<32 - 3, 1 << 53, 1 << 62}[x%4]
			start += base
			eclass = fmt.Sprintf("start~2^%d", []int{31, 32, 53, 62}[x%4])
			if r.Intn(4) == 0 {
				period = []int64{1 << 31, 1 << 40}[r.Intn(2)] // start + period stays below 2^63
				eclass += "+huge-period"
			}
		}
		o.Count("class.epoch." + eclass)
		factor := new(big.Int).Rand(r, new(big.Int).Add(e18, big.NewInt(1))) // [0,1]
		switch r.Intn(4) {
		case 0:
			factor = new(big.Int).Quo(new(big.Int).Mul(e18, big.NewInt(2)), big.NewInt(3)) // 2/3 truncated
		case 1:
			factor = new(big.Int).Quo(e18, big.NewInt(2))
		}
		params.MintingRewardsDistributionStartEpoch = start
		params.ReductionPeriodInEpochs = period
		params.ReductionFactor = decRaw(factor)
		nrecv := r.Intn(5)
		var recv []minttypes.WeightedAddress
		var recvAddrs []sdk.AccAddress
		var recvStr []string
		if nrecv > 0 {
			ws := randProportions(r, nrecv, true)
			for i := 0; i < nrecv; i++ {
				addr := sdk.AccAddress([]byte(fmt.Sprintf("devreceiver%09d", i)))
				a := addr.String()
				comm := "0"
				if r.Intn(4) == 0 {
					a = ""
					comm = "1"
				}
				recv = append(recv, minttypes.WeightedAddress{Address: a, Weight: decRaw(ws[i])})
				recvAddrs = append(recvAddrs, addr)
				recvStr = append(recvStr, ws[i].String()+":"+comm)
			}
		}
		params.WeightedDeveloperRewardsReceivers = recv
		mk.SetParams(ctx, params)
		// initial provisions: integers, thirds, tiny, large
		var prov *big.Int
		switch r.Intn(5) {
		case 0:
			prov = new(big.Int).Mul(big.NewInt(int64(r.Intn(5000000))), e18)
		case 1:
			prov = new(big.Int).Rand(r, new(big.Int).Mul(big.NewInt(1000), e18))
		case 2:
			prov = new(big.Int).Add(new(big.Int).Mul(big.NewInt(1000003), e18), big.NewInt(int64(r.Intn(1000))))
		case 3:
			prov = new(big.Int).Rand(r, new(big.Int).Exp(big.NewInt(10), big.NewInt(int64(20+r.Intn(25))), nil))
		default:
			prov = new(big.Int).Mul(big.NewInt(int64(1+r.Intn(100))), e18)
		}
		// magnitude classes of the provisions (whole tokens around 2^63, 2^64, 2^127..2^129, near the top of Dec)
		pclass := "ordinary"
		if x := r.Intn(100); x < 16 {
			tok := func(bits int) *big.Int { // (2^bits + {-1,0,1}) tokens + a random fraction
				v := new(big.Int).Add(pow2(bits), big.NewInt(int64(r.Intn(3)-1)))
				v.Mul(v, e18)
				if r.Intn(2) == 0 {
					v.Add(v, new(big.Int).Rand(r, e18))
				}
				return v
			}
			switch x % 4 {
			case 0:
				prov, pclass = tok(63), "2^63"
			case 1:
				prov, pclass = tok(64), "2^64"
			case 2:
				prov, pclass = tok(127+r.Intn(3)), "2^127..2^129"
			default:
				// raw value of 300..305 bits: provisions x reduction factor exceeds the 315 bits of Dec before chopping,
				// the sum of all mints of the history stays below 2^256
				prov, pclass = new(big.Int).Add(pow2(300+r.Intn(5)), new(big.Int).Rand(r, pow2(300))), "near-dec-max"
			}
			if r.Intn(5) != 0 { // let the developer vesting account afford its share (else: insufficient-balance path)
				h.FundModuleAcc(minttypes.DeveloperVestingModuleAcctName, sdk.NewCoins(sdk.NewCoin(denom, osmomath.NewIntFromBigInt(pow2(251)))))
			}
		} else if x < 28 {
			// tiny provisions: nothing to mint, exactly one coin, a few coins (every share truncates to 0 or 1)
			switch r.Intn(7) {
			case 0:
				prov, pclass = big.NewInt(0), "tiny:0"
			case 1:
				prov, pclass = big.NewInt(int64(1+r.Intn(1000))), "tiny:<1"
			case 2:
				prov, pclass = new(big.Int).Sub(e18, big.NewInt(1)), "tiny:1-ulp"
			case 3:
				prov, pclass = new(big.Int).Set(e18), "tiny:1"
			case 4:
				prov, pclass = new(big.Int).Add(e18, big.NewInt(int64(r.Intn(3)))), "tiny:1+ulps"
			case 5:
				prov, pclass = new(big.Int).Mul(big.NewInt(int64(2+r.Intn(3))), e18), "tiny:2..4"
			default:
				prov, pclass = new(big.Int).Rand(r, new(big.Int).Mul(big.NewInt(20), e18)), "tiny:<20"
			}
		}
		o.Count("class.provisions." + pclass)
		mk.SetMinter(ctx, minttypes.NewMinter(decRaw(prov)))
		// params.GenesisEpochProvisions, the value InitGenesis puts back into the minter (C19): the history's initial provisions (a chain
		// that started from this genesis: an import then differs only after a reduction) or, one history in three, an unrelated value
		g0 := new(big.Int).Set(prov)
		if r.Intn(3) == 0 {
			g0 = new(big.Int).Mul(big.NewInt(int64(1+r.Intn(9000000))), e18)
			o.Count("class.genesis-provisions.unrelated")
		}
		params.GenesisEpochProvisions = decRaw(g0)
		mk.SetParams(ctx, params)
		devAcc := ak.GetModuleAddress(minttypes.DeveloperVestingModuleAcctName)
		vest := bk.GetBalance(ctx, devAcc, denom).Amount
		if r.Intn(6) == 0 { // drain most of the vesting account: insufficient-balance path
			keep := osmomath.NewInt(int64(r.Intn(1000)))
			if vest.GT(keep) {
				_ = bk.SendCoinsFromModuleToAccount(ctx, minttypes.DeveloperVestingModuleAcctName, sdk.AccAddress([]byte("sink_______________")), sdk.NewCoins(sdk.NewCoin(denom, vest.Sub(keep))))
				vest = bk.GetBalance(ctx, devAcc, denom).Amount
			}
		}
		o.Emit(fmt.Sprintf("mint reset %d %d %s %s %s %s %s %s %s %s", start, period, factor, props[0], props[1], props[2], props[3], prov, vest.BigInt(), strings.Join(recvStr, " ")), "ok", true)
		o.Count(fmt.Sprintf("receivers.%d", nrecv))

		mintAcc := ak.GetModuleAddress(minttypes.ModuleName)
		feeColl := ak.GetModuleAddress(authtypes.FeeCollectorName)
		poolInc := ak.GetModuleAddress(poolincentivestypes.ModuleName)
		distrAcc := ak.GetModuleAddress(distrtypes.ModuleName)
		incAcc := ak.GetModuleAddress(incentivestypes.ModuleName)
		bal := func(c sdk.Context, a sdk.AccAddress) *big.Int { return bk.GetBalance(c, a, denom).Amount.BigInt() }

		// ---------------------------------------------------------------- world: gauges + distribution table
		// the minted denom is made distributable (on mainnet it is the base denom; here a protorev route stands in)
		if denom != appparams.BaseCoinUnit {
			h.App.ProtoRevKeeper.SetPoolForDenomPair(ctx, appparams.BaseCoinUnit, denom, 9999)
		}
		wclass := []string{"no-gauges", "pool-gauges", "pool-gauges", "keeper-gauges", "pools+keeper-gauges"}[r.Intn(5)]
		o.Count("class.world." + wclass)
		creator := sdk.AccAddress([]byte("c18_gauge_creator___"))
		mkGauge := func(perp bool) {
			c := sdk.NewCoins(sdk.NewCoin(appparams.BaseCoinUnit, osmomath.NewInt(1000)))
			h.FundAcc(creator, c.Add(sdk.NewCoin("lpa", osmomath.NewInt(1)))) // the lock denom must have supply
			ne := uint64(1)
			if !perp {
				ne = uint64(2 + r.Intn(5))
			}
			durs := ik.GetLockableDurations(ctx)
			_, err := ik.CreateGauge(ctx, perp, creator, c, lockuptypes.QueryCondition{LockQueryType: lockuptypes.ByDuration, Denom: "lpa", Duration: durs[r.Intn(len(durs))]}, ctx.BlockTime(), ne, 0)
			if err != nil {
				t.Fatalf("CreateGauge: %v", err)
			}
		}
		if wclass == "pool-gauges" || wclass == "pools+keeper-gauges" {
			h.PrepareBalancerPool() // one perpetual gauge per lockable duration through the pool-incentives hook
			if r.Intn(3) == 0 {
				h.PrepareBalancerPool()
			}
		}
		if wclass == "keeper-gauges" || wclass == "pools+keeper-gauges" {
			for k, kn := 0, 1+r.Intn(4); k < kn; k++ {
				mkGauge(r.Intn(3) != 0)
			}
		}
		ctx = h.Ctx
		var perpIDs, nonPerpIDs []uint64
		var gaugeToks []string
		maxGauge := uint64(0)
		for _, g := range ik.GetGauges(ctx) {
			if g.IsPerpetual {
				perpIDs = append(perpIDs, g.Id)
				gaugeToks = append(gaugeToks, fmt.Sprintf("%d:1", g.Id))
			} else {
				nonPerpIDs = append(nonPerpIDs, g.Id)
				gaugeToks = append(gaugeToks, fmt.Sprintf("%d:0", g.Id))
			}
			if g.Id > maxGauge {
				maxGauge = g.Id
			}
		}
		isPerp := map[uint64]bool{}
		for _, g := range perpIDs {
			isPerp[g] = true
		}
		o.Emit("mint gauges "+strings.Join(gaugeToks, " "), "ok", false)
		stored := func() (total *big.Int, recs []drec) {
			di := pik.GetDistrInfo(ctx)
			for _, rc := range di.Records {
				recs = append(recs, drec{rc.GaugeId, rc.Weight.BigInt()})
			}
			return di.TotalWeight.BigInt(), recs
		}
		t0, recs0 := stored()
		o.Emit(strings.TrimSpace(fmt.Sprintf("mint distrinit %s %s %s", bal(ctx, poolInc), t0, drecsStr(recs0))), "ok", false)
		// the oracle's own table: what the accepted proposals mean (gauge id -> positive weight)
		table := map[uint64]*big.Int{}
		for _, rc := range recs0 {
			if rc.w.Sign() > 0 {
				table[rc.g] = rc.w
			}
		}
		tableIDs := func() []uint64 {
			var ids []uint64
			for g := range table {
				ids = append(ids, g)
			}
			sort.Slice(ids, func(i, j int) bool { return ids[i] < ids[j] })
			return ids
		}
		lastDistr := "initial"
		handler := poolincentives.NewPoolIncentivesProposalHandler(*pik)
		randWeight := func() *big.Int {
			switch r.Intn(12) {
			case 0:
				return big.NewInt(0)
			case 1, 2:
				return big.NewInt(int64(1 + r.Intn(3)))
			case 3:
				return big.NewInt(int64([]int{4, 9, 7, 17, 13}[r.Intn(5)]))
			case 4:
				return new(big.Int).Add(pow2(60+r.Intn(8)), big.NewInt(int64(r.Intn(1000))))
			case 5:
				return big.NewInt(int64(1_000_000 + r.Intn(1_000_000)))
			default:
				return big.NewInt(int64(1 + r.Intn(1000)))
			}
		}
		// one proposal (mostly valid), run as governance runs it: ValidateBasic at submission, the handler in a
		// cache context that is written back iff it returned nil
		distrOp := func(directed string) {
			candidates := append([]uint64{0}, perpIDs...)
			replace := r.Intn(4) == 0
			var recs []drec
			malformed := ""
			ids := tableIDs()
			switch {
			case directed == "remove-one" && len(ids) > 0:
				replace = false
				recs = []drec{{ids[r.Intn(len(ids))], big.NewInt(0)}}
			case directed == "remove-all" && len(ids) > 0:
				replace = false
				for _, g := range ids {
					recs = append(recs, drec{g, big.NewInt(0)})
				}
			case directed == "reweight" && len(ids) > 0:
				replace = false
				w := randWeight()
				if w.Sign() == 0 {
					w = big.NewInt(5)
				}
				recs = []drec{{ids[r.Intn(len(ids))], w}}
			case directed == "ratios-round-up":
				// weight ratios whose 18-decimal roundings add up to MORE than one (4/17, 4/17, 9/17)
				if len(candidates) >= 3 {
					replace = true
					pm := r.Perm(len(candidates))[:3]
					sort.Ints(pm)
					for i, w := range []int64{4, 4, 9} {
						recs = append(recs, drec{candidates[pm[i]], big.NewInt(w)})
					}
				}
			}
			if recs == nil {
				k := 1 + r.Intn(len(candidates))
				if k > 5 {
					k = 5
				}
				pm := r.Perm(len(candidates))[:k]
				sort.Ints(pm)
				for _, i := range pm {
					recs = append(recs, drec{candidates[i], randWeight()})
				}
				if !replace && len(ids) > 0 && r.Intn(3) == 0 { // aim at an existing record
					g := ids[r.Intn(len(ids))]
					found := false
					for i := range recs {
						if recs[i].g == g {
							found = true
							if r.Intn(2) == 0 {
								recs[i].w = big.NewInt(0)
							}
						}
					}
					if !found {
						recs = append(recs, drec{g, []*big.Int{big.NewInt(0), randWeight()}[r.Intn(2)]})
						sort.Slice(recs, func(i, j int) bool { return recs[i].g < recs[j].g })
					}
				}
				if r.Intn(9) == 0 {
					switch r.Intn(6) {
					case 0:
						malformed = "duplicate-id"
						recs = append(recs, recs[r.Intn(len(recs))])
						sort.SliceStable(recs, func(i, j int) bool { return recs[i].g < recs[j].g })
					case 1:
						if len(recs) >= 2 && recs[0].g != recs[len(recs)-1].g {
							malformed = "unsorted"
							recs[0], recs[len(recs)-1] = recs[len(recs)-1], recs[0]
						}
					case 2:
						malformed = "unknown-gauge"
						recs = append(recs, drec{maxGauge + 1 + uint64(r.Intn(3)), randWeight()})
					case 3:
						if len(nonPerpIDs) > 0 {
							malformed = "non-perpetual-gauge"
							recs = append(recs, drec{nonPerpIDs[r.Intn(len(nonPerpIDs))], randWeight()})
							sort.SliceStable(recs, func(i, j int) bool { return recs[i].g < recs[j].g })
						}
					case 4:
						malformed = "negative-weight"
						recs[r.Intn(len(recs))].w = big.NewInt(int64(-1 - r.Intn(5)))
					default:
						malformed = "empty"
						recs = []drec{}
					}
				}
			}
			// ---- what the proposal means (oracle, from the proposal text alone)
			valid := len(recs) > 0
			for i, rc := range recs {
				if rc.w.Sign() < 0 {
					valid = false
				}
				if i > 0 && recs[i-1].g >= rc.g {
					valid = false
				}
				if rc.g != 0 && !isPerp[rc.g] {
					valid = false
				}
			}
			opclass := "replace"
			if !replace {
				removes, hits, all := 0, 0, len(table) > 0
				for _, rc := range recs {
					if _, ok := table[rc.g]; ok {
						hits++
						if rc.w.Sign() == 0 {
							removes++
						}
					}
				}
				for g := range table {
					gone := false
					for _, rc := range recs {
						if rc.g == g && rc.w.Sign() == 0 {
							gone = true
						}
					}
					if !gone {
						all = false
					}
				}
				switch {
				case removes > 0 && all:
					opclass = "update-remove-all"
				case removes > 0:
					opclass = "update-remove"
				case hits > 0:
					opclass = "update-reweight"
				default:
					opclass = "update-add"
				}
			} else {
				allZero := true
				for _, rc := range recs {
					if rc.w.Sign() != 0 {
						allZero = false
					}
				}
				if allZero {
					opclass = "replace-all-zero"
				}
			}
			if !valid {
				opclass = "invalid"
				if malformed != "" {
					opclass = "invalid:" + malformed
				}
			}
			o.Count("distr." + opclass)
			var prs []poolincentivestypes.DistrRecord
			for _, rc := range recs {
				prs = append(prs, poolincentivestypes.DistrRecord{GaugeId: rc.g, Weight: osmomath.NewIntFromBigInt(rc.w)})
			}
			var content interface {
				ValidateBasic() error
			}
			opname := "update"
			if replace {
				opname = "replace"
				content = poolincentivestypes.NewReplacePoolIncentivesProposal("t", "d", prs)
			} else {
				content = poolincentivestypes.NewUpdatePoolIncentivesProposal("t", "d", prs)
			}
			line := strings.TrimSpace(fmt.Sprintf("mint %s %s", opname, drecsStr(recs)))
			var err error
			cctx, write := ctx.CacheContext()
			okc := catch(func() {
				if err = content.ValidateBasic(); err == nil {
					if replace {
						err = handler(cctx, content.(*poolincentivestypes.ReplacePoolIncentivesProposal))
					} else {
						err = handler(cctx, content.(*poolincentivestypes.UpdatePoolIncentivesProposal))
					}
				}
			})
			detail := fmt.Sprintf("table-before=%v %s", tableIDs(), line)
			switch {
			case !okc:
				o.Emit(line, "panic", true)
				o.Fail("distr:proposal-panicked:"+opclass, detail)
				return
			case err != nil:
				o.Emit(line, "err", true)
				if valid {
					o.Fail("distr:validation:valid-proposal-rejected:"+opclass, detail+" err="+err.Error())
				}
				return
			}
			write()
			if !valid {
				o.Fail("distr:validation:accepted:"+opclass, detail)
			}
			tw, srecs := stored()
			o.Emit(line, strings.TrimSpace(fmt.Sprintf("ok total=%s records=[%s]", tw, strings.ReplaceAll(drecsStr(srecs), " ", ","))), true)
			// the oracle's table
			if replace {
				table = map[uint64]*big.Int{}
			}
			for _, rc := range recs {
				if rc.w.Sign() > 0 {
					table[rc.g] = rc.w
				} else {
					delete(table, rc.g)
				}
			}
			lastDistr = opclass
			// DistrInfo.TotalWeight = sum of the stored record weights
			sum := new(big.Int)
			var pos []drec
			for _, rc := range srecs {
				sum.Add(sum, rc.w)
				if rc.w.Sign() != 0 {
					pos = append(pos, rc)
				}
			}
			if sum.Cmp(tw) != 0 {
				o.Fail("distr:total-weight!=sum:"+opclass, fmt.Sprintf("%s stored total=%s records=[%s]", detail, tw, drecsStr(srecs)))
			}
			// the stored records are what the accepted proposals mean
			same := len(pos) == len(table)
			for i, g := range tableIDs() {
				if !same || pos[i].g != g || pos[i].w.Cmp(table[g]) != 0 {
					same = false
				}
			}
			if !same {
				o.Fail("distr:records!=proposals:"+opclass, fmt.Sprintf("%s stored=[%s] want=%v", detail, drecsStr(srecs), table))
			}
			if !replace && len(pos) != len(srecs) {
				o.Fail("distr:update-kept-zero-weight-record", detail)
			}
		}
		for k, kn := 0, r.Intn(4); k < kn && wclass != "no-gauges" || k < kn && r.Intn(2) == 0; k++ {
			distrOp("")
		}
		if x := r.Intn(12); x == 0 {
			distrOp("ratios-round-up")
		}

		lastReduction := int64(0)
		provNow := new(big.Int).Set(prov)
		nEpochs := 3 + r.Intn(40)
		first := int64(0)
		if r.Intn(3) == 0 {
			first = start
		}
		if eclass != "small" && r.Intn(3) != 0 { // a few epochs before the (large) start epoch
			first = start - int64(r.Intn(4))
		}
		hooks := func(rec *mintRecHook) epochstypes.MultiEpochHooks { return epochstypes.NewMultiEpochHooks(rec) }
		allGauges := append(append([]uint64{}, perpIDs...), nonPerpIDs...)
		gaugeCoins := func() map[uint64]*big.Int {
			m := map[uint64]*big.Int{}
			for _, g := range allGauges {
				gg, err := ik.GetGaugeByID(ctx, g)
				if err == nil {
					m[g] = gg.Coins.AmountOf(denom).BigInt()
				}
			}
			return m
		}
		for e := first; e < first+int64(nEpochs) && epochsDone < n; e++ {
			if x := r.Intn(16); x < 4 {
				distrOp([]string{"", "remove-one", "remove-all", "reweight"}[x])
			}
			epochsDone++
			if r.Intn(10) == 0 {
				// C19: the REAL x/mint ExportGenesis -> JSON -> every key of the mint store deleted -> the REAL InitGenesis; the epochs go on
				cdc := h.App.AppCodec()
				cctx, write := ctx.CacheContext()
				okI := catch(func() {
					bz := cdc.MustMarshalJSON(mk.ExportGenesis(cctx))
					store := cctx.KVStore(h.App.GetKey(minttypes.StoreKey))
					var keys [][]byte
					it := store.Iterator(nil, nil)
					for ; it.Valid(); it.Next() {
						keys = append(keys, append([]byte{}, it.Key()...))
					}
					it.Close()
					for _, key := range keys {
						store.Delete(key)
					}
					var gs minttypes.GenesisState
					cdc.MustUnmarshalJSON(bz, &gs)
					mk.InitGenesis(cctx, &gs)
				})
				line := fmt.Sprintf("mint exportimport %s", g0)
				if !okI {
					o.Emit(line, "panic", true)
					o.Fail("export-import:mint:panics", line)
				} else {
					write()
					after := mk.ExportGenesis(ctx)
					impProv := after.Minter.EpochProvisions.BigInt()
					o.Emit(line, fmt.Sprintf("ok prov=%s last=%d", impProv, after.ReductionStartedEpoch), true)
					o.Count("exportimport")
					if after.ReductionStartedEpoch != lastReduction {
						o.Fail("export-import:mint:last-reduction-epoch", fmt.Sprintf("%d -> %d", lastReduction, after.ReductionStartedEpoch))
					}
					if !after.Params.GenesisEpochProvisions.Equal(params.GenesisEpochProvisions) || after.Params.ReductionPeriodInEpochs != period ||
						!after.Params.ReductionFactor.Equal(params.ReductionFactor) || after.Params.MintingRewardsDistributionStartEpoch != start {
						o.Fail("export-import:mint:params", line)
					}
					if impProv.Cmp(provNow) != 0 {
						// InitGenesis overwrites the minter's provisions with params.GenesisEpochProvisions (F31)
						twLoss(o, "export-import:module-state:mint:.minter.epoch_provisions",
							fmt.Sprintf("epoch provisions %s before ExportGenesis, %s after InitGenesis (= params.GenesisEpochProvisions %s); last reduction epoch %d", provNow, impProv, g0, lastReduction))
						provNow = impProv
					}
				}
			}
			before := map[string]*big.Int{"mint": bal(ctx, mintAcc), "fee": bal(ctx, feeColl), "pool": bal(ctx, poolInc), "distr": bal(ctx, distrAcc), "vest": bal(ctx, devAcc), "inc": bal(ctx, incAcc)}
			var rb []*big.Int
			for _, a := range recvAddrs {
				rb = append(rb, bal(ctx, a))
			}
			gBefore := gaugeCoins()
			supplyB := bk.GetSupplyWithOffset(ctx, denom).Amount.BigInt()
			line := fmt.Sprintf("mint epoch %d", e)

			// ---- what the property demands of this epoch (oracle; from the history alone, before the call)
			expectReduce := false
			lr := lastReduction
			if e == start {
				lr = e
			}
			if e >= period+lr {
				expectReduce = true
			}
			wantProv := new(big.Int).Set(provNow)
			overflow := false
			if expectReduce {
				if !catch(func() { wantProv = decRaw(provNow).Mul(decRaw(factor)).BigInt() }) {
					overflow = true
				}
				lr = e
			}
			minted := new(big.Int).Quo(wantProv, e18)
			if minted.BitLen() > 255 {
				overflow = true
			}
			share := func(p *big.Int) *big.Int { return ratTrunc(new(big.Rat).SetFrac(new(big.Int).Mul(minted, p), e18)) }
			wantStaking, wantPool, wantDev := share(props[0]), share(props[1]), share(props[2])
			wantComm := new(big.Int).Sub(new(big.Int).Sub(new(big.Int).Sub(minted, wantStaking), wantPool), wantDev)
			// allocation of the pool-incentives module account (its whole balance) over the oracle's table
			asset := new(big.Int).Add(before["pool"], wantPool)
			totalW := new(big.Int)
			ids := tableIDs()
			for _, g := range ids {
				totalW.Add(totalW, table[g])
			}
			pinned := map[uint64]*big.Int{} // the amount the code's formula gives each record
			ideal := map[uint64]*big.Int{}  // floor(asset * w / W)
			pinnedSum, ratioSum := new(big.Int), new(big.Int)
			wantPoolComm := new(big.Int)
			if asset.Sign() > 0 {
				if totalW.Sign() == 0 {
					wantPoolComm.Set(asset)
				}
				for _, g := range ids {
					q := refWeightRatio(table[g], totalW)
					ratioSum.Add(ratioSum, q)
					a := new(big.Int).Quo(new(big.Int).Mul(asset, q), e18)
					pinned[g] = a
					pinnedSum.Add(pinnedSum, a)
					ideal[g] = new(big.Int).Quo(new(big.Int).Mul(asset, table[g]), totalW)
					if g == 0 {
						wantPoolComm.Add(wantPoolComm, a)
					}
				}
			}

			rec := &mintRecHook{inner: mk.Hooks()}
			propagated := !catch(func() { _ = hooks(rec).AfterEpochEnd(ctx, params.EpochIdentifier, e) })
			failed := propagated || rec.panicked || rec.err != nil
			minter := mk.GetMinter(ctx)
			newProv := minter.EpochProvisions.BigInt()
			d := func(k string, a sdk.AccAddress) *big.Int { return new(big.Int).Sub(bal(ctx, a), before[k]) }
			if failed {
				o.Emit(line, fmt.Sprintf("err prov=%s last=%d", provNow, lastReduction), true)
				o.Count("epoch.err")
				// a failed hook is "nothing happened": from the start epoch on that is a mint epoch in which nothing was minted
				class := "ordinary"
				var zero []string
				for i, w := range []*big.Int{wantStaking, wantPool, wantDev, wantComm} {
					if w.Sign() == 0 {
						zero = append(zero, propName[i])
					}
				}
				switch {
				case e < start:
					class = "before-start-epoch"
				case overflow:
					class = "provision-beyond-dec-range"
				case wantDev.Cmp(before["vest"]) > 0:
					class = "dev-vesting-account-short"
				case pinnedSum.Cmp(asset) > 0:
					class = "distr-weight-ratios-round-above-one"
				case minted.Sign() == 0:
					class = "nothing-to-mint"
				case len(zero) > 0:
					class = "zero-share:" + strings.Join(zero, "+")
				}
				how := "error"
				if rec.panicked {
					how = fmt.Sprintf("panic: %v", rec.pv)
				}
				if len(how) > 300 {
					how = how[:300]
				}
				o.Fail("epoch:hook-failed:"+class, fmt.Sprintf("%s minted-should-be=%s shares=[%s %s %s %s] table=%v asset=%s %s", line, minted, wantStaking, wantPool, wantDev, wantComm, table, asset, how))
				if newProv.Cmp(provNow) != 0 || d("mint", mintAcc).Sign() != 0 || d("fee", feeColl).Sign() != 0 || d("distr", distrAcc).Sign() != 0 || d("pool", poolInc).Sign() != 0 || d("vest", devAcc).Sign() != 0 {
					o.Fail("epoch:failed-hook-left-state", line)
					provNow = newProv
				}
				continue
			}
			if e < start {
				o.Emit(line, fmt.Sprintf("skip prov=%s last=%d", newProv, lastReduction), true)
				o.Count("epoch.skip")
				if d("mint", mintAcc).Sign() != 0 || d("fee", feeColl).Sign() != 0 || d("distr", distrAcc).Sign() != 0 || newProv.Cmp(provNow) != 0 {
					o.Fail("schedule:minted-before-start-epoch", line)
				}
				continue
			}
			// --- observations ---
			staking := d("fee", feeColl)
			distrDelta := d("distr", distrAcc)
			vestDelta := d("vest", devAcc)
			poolAfter := bal(ctx, poolInc)
			incDelta := d("inc", incAcc)
			gAfter := gaugeCoins()
			var allocToks []string
			receiptSum := new(big.Int)
			receipts := map[uint64]*big.Int{}
			sort.Slice(allGauges, func(i, j int) bool { return allGauges[i] < allGauges[j] })
			for _, g := range allGauges {
				if gAfter[g] == nil || gBefore[g] == nil {
					continue
				}
				x := new(big.Int).Sub(gAfter[g], gBefore[g])
				receipts[g] = x
				receiptSum.Add(receiptSum, x)
				if x.Sign() != 0 {
					allocToks = append(allocToks, fmt.Sprintf("%d:%s", g, x))
				}
			}
			var paid []string
			paidSum := new(big.Int)
			commFromDev := new(big.Int)
			for i, a := range recvAddrs {
				if recv[i].Address == "" {
					// goes to the community pool from the vesting account: reconstruct below
					paid = append(paid, "?")
					continue
				}
				x := new(big.Int).Sub(bal(ctx, a), rb[i])
				paid = append(paid, x.String())
				paidSum.Add(paidSum, x)
			}
			supplyDelta := new(big.Int).Sub(bk.GetSupplyWithOffset(ctx, denom).Amount.BigInt(), supplyB)
			// per-receiver payouts out of the vesting account
			for i := range recvAddrs {
				w := recv[i].Weight.BigInt()
				x := ratTrunc(new(big.Rat).SetFrac(new(big.Int).Mul(wantDev, w), e18))
				if recv[i].Address == "" {
					paid[i] = x.String()
					commFromDev.Add(commFromDev, x)
				}
			}
			if len(recvAddrs) == 0 {
				commFromDev.Set(wantDev)
			}
			totalPaid := new(big.Int).Add(paidSum, commFromDev)
			if len(recvAddrs) == 0 {
				paid = nil
			}
			lastReduction = lr
			provNow = newProv
			obs := fmt.Sprintf("ok minted=%s staking=%s pool=%s dev=%s comm=%s paid=[%s] supply=%s mintacct=%s vest=%s prov=%s last=%d alloc=[%s] commtotal=%s pacct=%s",
				minted, staking, wantPool, wantDev, wantComm, strings.Join(paid, ","), supplyDelta, bal(ctx, mintAcc), bal(ctx, devAcc), newProv, lastReduction,
				strings.Join(allocToks, ","), distrDelta, poolAfter)
			o.Emit(line, obs, true)
			o.Count("epoch.ok")
			if expectReduce {
				o.Count("epoch.reduction")
			}
			for i, w := range []*big.Int{wantStaking, wantPool, wantDev, wantComm} {
				if w.Sign() == 0 && minted.Sign() > 0 {
					if props[i].Sign() == 0 {
						o.Count("epoch.zero-share." + propName[i] + ":zero-proportion")
					} else {
						o.Count("epoch.zero-share." + propName[i] + ":truncated")
					}
				}
			}
			if minted.Sign() == 0 {
				o.Count("epoch.minted=0")
			} else if minted.Cmp(big.NewInt(1)) == 0 {
				o.Count("epoch.minted=1")
			}
			if asset.Sign() > 0 {
				switch {
				case len(ids) == 0:
					o.Count("epoch.alloc.empty-table")
				case len(ids) == 1:
					o.Count("epoch.alloc.records=1:after-" + lastDistr)
				default:
					o.Count("epoch.alloc.records>=2:after-" + lastDistr)
				}
			}
			// --- property oracle ---
			detail := fmt.Sprintf("%s asset=%s table=%v", line, asset, table)
			if newProv.Cmp(wantProv) != 0 {
				o.Fail("schedule:provision", fmt.Sprintf("%s got %s want %s", line, newProv, wantProv))
			}
			if bal(ctx, mintAcc).Sign() != 0 {
				o.Fail("allocation:mint-account-not-empty", line)
			}
			if staking.Cmp(wantStaking) != 0 {
				o.Fail("allocation:staking-share", line)
			}
			// every record receives what the code's formula promises ...
			wrongReceipt := false
			for _, g := range allGauges {
				want := pinned[g]
				if want == nil || g == 0 {
					want = new(big.Int)
				}
				if receipts[g] != nil && receipts[g].Cmp(want) != 0 {
					wrongReceipt = true
					o.Fail("distr:gauge-receipt:after-"+lastDistr, fmt.Sprintf("%s gauge %d received %s, its weight share is %s", detail, g, receipts[g], want))
				}
			}
			if incDelta.Cmp(receiptSum) != 0 {
				o.Fail("distr:incentives-module-balance!=gauge-receipts", fmt.Sprintf("%s module %s gauges %s", detail, incDelta, receiptSum))
			}
			// ... which is the weight share floor(asset*w/W) up to the 18-decimal rounding of the ratio
			if !wrongReceipt {
				for _, g := range ids {
					if pinned[g].Cmp(ideal[g]) != 0 {
						o.Fail("distr:share!=floor-of-weight-share:weight-ratio-rounded-to-18-decimals", fmt.Sprintf("%s gauge %d gets %s, floor(asset*w/W)=%s", detail, g, pinned[g], ideal[g]))
						break
					}
				}
			}
			// community pool receives remainder + dev portions addressed to it + what pool incentives forwards to it
			wantDistr := new(big.Int).Add(new(big.Int).Add(wantComm, wantPoolComm), commFromDev)
			if distrDelta.Cmp(wantDistr) != 0 {
				o.Fail("allocation:community-pool", fmt.Sprintf("%s got %s want %s", detail, distrDelta, wantDistr))
			}
			// gauge receipts + community pool funding + what stays behind = the asset
			poolCommObserved := new(big.Int).Sub(new(big.Int).Sub(distrDelta, wantComm), commFromDev)
			if new(big.Int).Add(new(big.Int).Add(receiptSum, poolCommObserved), poolAfter).Cmp(asset) != 0 {
				o.Fail("distr:conservation", fmt.Sprintf("%s gauges %s community %s left %s", detail, receiptSum, poolCommObserved, poolAfter))
			}
			// everything is forwarded: the pool-incentives module account is empty afterwards
			if poolAfter.Sign() != 0 {
				// explained by rounding: each record loses < 1 by truncation and <= asset * 0.5e-18 by the rounded ratio
				bound := new(big.Int).Quo(new(big.Int).Mul(asset, big.NewInt(int64(len(ids)))), new(big.Int).Mul(big.NewInt(2), e18))
				bound.Add(bound, big.NewInt(int64(2*len(ids))))
				if poolAfter.Cmp(bound) <= 0 {
					o.Fail("distr:left-in-module:truncation-dust", fmt.Sprintf("%s left %s", detail, poolAfter))
				} else {
					o.Fail("distr:left-in-module:beyond-truncation-dust:after-"+lastDistr, fmt.Sprintf("%s left %s (rounding explains at most %s)", detail, poolAfter, bound))
				}
			}
			if new(big.Int).Neg(vestDelta).Cmp(totalPaid) != 0 {
				o.Fail("allocation:vesting-payout", line)
			}
			// everything minted is allocated: staking + pool + dev + community == minted
			sum := new(big.Int).Add(new(big.Int).Add(wantStaking, wantPool), new(big.Int).Add(wantDev, wantComm))
			if sum.Cmp(minted) != 0 {
				o.Fail("allocation:sum", line)
			}
			// reported supply grows by exactly the minted amount
			if supplyDelta.Cmp(minted) != 0 {
				if totalPaid.Cmp(wantDev) < 0 && new(big.Int).Sub(minted, supplyDelta).Cmp(new(big.Int).Sub(wantDev, totalPaid)) == 0 {
					o.Fail("supply:dev-receiver-weights-do-not-divide", fmt.Sprintf("%s minted %s reported %s", line, minted, supplyDelta))
				} else {
					o.Fail("supply:other", fmt.Sprintf("%s minted %s reported %s", line, minted, supplyDelta))
				}
			}
		}
	}
	o.Close(nil)
}

var _ = time.Second
