package app_test

// Engine `lockup` (property C06): the real x/lockup msg server + keeper through the app.
// Histories: 3 owners (+ a stranger), 3 denominations, 5 durations (two of them 1ns apart) so that many
// locks share duration keys, monotone block times (incl. no advance, +1ns, exactly / 1ns before an end
// time), MsgLockTokens (creating or adding), keeper AddTokensToLockByID, MsgExtendLockup,
// MsgBeginUnlocking (full / partial → split), MsgBeginUnlockingAll, UnlockMaturedLock,
// WithdrawMaturedLocks (the EndBlocker call), MsgSetRewardReceiverAddress, MsgForceUnlock.
// Every state-changing call runs in a cache context that is written only on success.
//
// History classes (chosen per history, independent of each other and of the amount-unit / duration-base classes):
//   - many-durations: 11..25 pairwise distinct durations (the accumulation tree of a denomination has fan-out 10, so
//     its tree gets inner levels), most locks in one focus denomination, a lock per duration first, then whole
//     (denomination, duration) buckets are drained again (begin-unlock in full or in parts, advance to the end
//     times, unlock / withdraw; extend away).  The accumulation oracle queries every leaf boundary after every op.
//   - +cl: locks of concentrated-liquidity share denominations cl/pool/<id>, created by the CL keeper
//     (CreateFullRangePositionLocked / ...Unlocking), which x/lockup BURNS on withdrawal instead of paying out.
//   - +names: the denomination ALPHABET gets names related to every string x/lockup (and the key layout it writes) treats
//     specially (lockup_names_test.go): names that contain / end with / are a strict prefix or an extension of the CL share
//     prefix `cl/pool`, of LP share names `gamm/pool/<id>`, of the synthetic-lock suffixes `/superbonding`, `/superunbonding`,
//     of the native denomination, and of each other (prefix-related index keys and accumulation-store key ranges), one of
//     them a real token-factory denomination `factory/<creator>/cl/pool/1`.  They are real bank denominations held by the
//     owners and go through the whole life cycle like bar/foo/uosmo; every oracle runs for them.
//   - keeper tail (lockup_tail_test.go): oracle-only ops of the keeper API other modules call (synthetic locks, slash, ...).
//
// The ORACLE keeps its own shadow list of locks (plain Go, updated from the meaning of each successful
// message) and after EVERY op recomputes from it everything the property talks about and compares with
// what the keeper reports.  It shares nothing with the Lean model.

import (
	"bytes"
	"encoding/binary"
	"fmt"
	"math"
	"math/big"
	"math/rand"
	"sort"
	"strings"
	"testing"
	"time"

	storetypes "cosmossdk.io/store/types"
	sdk "github.com/cosmos/cosmos-sdk/types"

	"github.com/osmosis-labs/osmosis/osmomath"
	cltypes "github.com/osmosis-labs/osmosis/v31/x/concentrated-liquidity/types"
	lockupkeeper "github.com/osmosis-labs/osmosis/v31/x/lockup/keeper"
	lockuptypes "github.com/osmosis-labs/osmosis/v31/x/lockup/types"
)

type shLock struct {
	id    uint64
	owner string // name
	dur   int64
	end   int64 // 0 = not unlocking
	begin int64 // block time at which unlocking began
	denom string
	amt   int64
	recv  string // "" = owner
}

type lockupEnv struct {
	h        *H
	o        *Out
	r        *rand.Rand
	names    []string
	addrs    map[string]sdk.AccAddress
	nameOf   map[string]string
	denoms   []string
	durs     []int64
	now      int64
	shadow   map[uint64]*shLock
	funded   map[string]map[string]int64
	allowed  string
	durSeen  map[int64]bool
	timeSeen map[int64]bool
	lastOp   string
	K        osmomath.Int // per-history magnitude scale: every real amount is (shadow units) x K
	// history classes (see runLockup)
	class     string // "few-durations" | "many-durations", "+cl" appended when CL-share locks take part
	many      bool   // > sumtree fan-out distinct durations, concentrated on the denomination `focus`
	focus     string
	clPools   map[string]uint64         // CL-share denomination "cl/pool/<id>" -> pool id (empty: no CL-share locks in this history)
	durEver   map[int64]bool            // every duration a lock of this history ever had (exact values; durSeen is its +-1 closure)
	target    *bucket                   // many-durations: the (denom, duration) bucket the generator is currently draining
	fill      []int64                   // many-durations: durations not yet used for the focus denomination
	hist      []string                  // op lines of the current history's transactions (replay of an oracle failure)
	denomDurs map[string]map[int64]bool // denomination -> every duration a lock of it had in this history
	splitIn   map[bucket]bool           // buckets in which a lock was split by a partial begin-unlock
	// +names (lockup_names_test.go)
	dclass  map[string]string           // denomination -> name class (input distribution, failure keys)
	look    []string                    // the related names of this history (subset of denoms)
	burned  map[string]map[string]int64 // owner -> denomination -> units burned at withdrawal (HELD denominations carrying the CL share prefix)
	supply0 map[string]osmomath.Int     // bank supply of every held denomination after funding
	// keeper tail: real / synthetic denominations whose accumulation store a rebuild of a prefix denomination cleared (F55)
	accWiped map[string]bool
	// keeper tail (lockup_tail_test.go): synthetic locks
	synth        map[uint64]*shSynth
	synthDenoms  map[string]bool
	synthCoded   map[string]map[int64]int64
	synthCause   map[string]string
	synthBase    map[string]string // synthetic denomination -> denomination of its underlying locks
	pendingCause string
}

// a (denomination, duration) bucket = one leaf of the denomination's accumulation tree
type bucket struct {
	denom string
	dur   int64
}

// the property's meaning of "concentrated-liquidity share coin" (burned at withdrawal, never paid out): the name STARTS
// with the CL share prefix.  (A name that merely contains it, ends with it, or is a strict prefix of it is an ordinary coin.)
func isCLDenom(dn string) bool {
	return strings.HasPrefix(dn, cltypes.ConcentratedLiquidityTokenPrefix)
}

// share denomination of a CL pool of this history: minted by the CL keeper into the lock, held by no account.
// (The +names alphabet also has HELD denominations with the CL prefix: funded like any coin, burned when withdrawn.)
func (e *lockupEnv) isShare(dn string) bool {
	_, ok := e.clPools[dn]
	return ok
}

// amount unit of a denomination: K, except CL pool shares (their amount is the liquidity the CL module computed)
func (e *lockupEnv) kOf(dn string) osmomath.Int {
	if e.isShare(dn) {
		return osmomath.OneInt()
	}
	return e.K
}

func (e *lockupEnv) ctx() sdk.Context { return e.h.Ctx }

// magnitude scaling: the shadow keeps int64 UNITS, the chain (and the op lines / observations) the REAL amounts units x K.
func (e *lockupEnv) real(dn string, units int64) osmomath.Int { return e.kOf(dn).MulRaw(units) }
func (e *lockupEnv) coin(denom string, units int64) sdk.Coin {
	return sdk.Coin{Denom: denom, Amount: e.real(denom, units)} // not NewCoin: negative / zero amounts must reach ValidateBasic
}

// units of a real amount; lockup only adds and subtracts amounts that are multiples of K, so must every observable be
func (e *lockupEnv) units(dn string, x osmomath.Int, what string) int64 {
	q, m := new(big.Int).QuoRem(x.BigInt(), e.kOf(dn).BigInt(), new(big.Int))
	if m.Sign() != 0 || !q.IsInt64() {
		e.o.Fail("amount-not-a-sum-of-locked-amounts:"+what, fmt.Sprintf("%s%s is not a (small) multiple of the history's amount unit %s", x, dn, e.kOf(dn)))
		return -1
	}
	return q.Int64()
}

func lockIDs(ls []lockuptypes.PeriodLock) []uint64 {
	out := make([]uint64, 0, len(ls))
	for _, l := range ls {
		out = append(out, l.ID)
	}
	sort.Slice(out, func(i, j int) bool { return out[i] < out[j] })
	return out
}

func lkIdsStr(ids []uint64) string {
	var b strings.Builder
	b.WriteString("ok")
	for _, i := range ids {
		fmt.Fprintf(&b, " %d", i)
	}
	return b.String()
}

func eqIDs(a, b []uint64) bool {
	if len(a) != len(b) {
		return false
	}
	for i := range a {
		if a[i] != b[i] {
			return false
		}
	}
	return true
}

func endOf(t time.Time) int64 {
	if t.Equal(time.Time{}) {
		return 0
	}
	return t.UnixNano()
}

func tm(ns int64) time.Time { return time.Unix(0, ns).UTC() }

func (e *lockupEnv) coinsStr(cs sdk.Coins) string {
	if len(cs) == 0 {
		return "-"
	}
	var p []string
	for _, c := range cs {
		p = append(p, c.Denom+":"+c.Amount.String())
	}
	return strings.Join(p, ",")
}

func (e *lockupEnv) name(addr string) string {
	if addr == "" {
		return "-"
	}
	if n, ok := e.nameOf[addr]; ok {
		return n
	}
	return "?"
}

func (e *lockupEnv) lockStr(l *lockuptypes.PeriodLock) string {
	return fmt.Sprintf("%d %s %d %d %s %s", l.ID, e.name(l.Owner), int64(l.Duration), endOf(l.EndTime), e.coinsStr(l.Coins), e.name(l.RewardReceiverAddress))
}

// shadow selection: ids of shadow locks satisfying p, ascending
func (e *lockupEnv) sel(p func(l *shLock) bool) []uint64 {
	// the predicate may draw from the PRNG: evaluate it in id order, not in Go's map order, so that a seed replays exactly
	ids := make([]uint64, 0, len(e.shadow))
	for id := range e.shadow {
		ids = append(ids, id)
	}
	sort.Slice(ids, func(i, j int) bool { return ids[i] < ids[j] })
	var out []uint64
	for _, id := range ids {
		if l := e.shadow[id]; p(l) {
			out = append(out, l.id)
		}
	}
	return out
}

func (e *lockupEnv) iterIDs(it storetypes.Iterator) []uint64 {
	defer it.Close()
	var out []uint64
	for ; it.Valid(); it.Next() {
		out = append(out, sdk.BigEndianToUint64(it.Value()))
	}
	sort.Slice(out, func(i, j int) bool { return out[i] < out[j] })
	return out
}

// decodeRefs dumps the reference index straight from the KV store in the model's symbolic form.
func (e *lockupEnv) decodeRefs() (string, bool) {
	store := e.ctx().KVStore(e.h.App.GetKey(lockuptypes.StoreKey))
	var out []string
	ok := true
	for _, pfx := range []byte{0x03, 0x04} {
		it := storetypes.KVStorePrefixIterator(store, []byte{pfx})
		for ; it.Valid(); it.Next() {
			k := it.Key()
			if len(k) < 4 || k[1] != 0xFF || k[3] != 0xFF {
				ok = false
				continue
			}
			fam := k[2]
			rest := k[4:]
			u := "0"
			if pfx == 0x04 {
				u = "1"
			}
			isTime := fam >= 0x0B
			tail := 19
			if isTime {
				tail = 47
			}
			if len(rest) < tail {
				ok = false
				continue
			}
			mid := rest[:len(rest)-tail]
			tl := rest[len(rest)-tail:]
			id := binary.BigEndian.Uint64(tl[len(tl)-8:])
			if id != sdk.BigEndianToUint64(it.Value()) {
				ok = false
			}
			var val string
			if isTime {
				if tl[0] != 0x05 || binary.BigEndian.Uint64(tl[1:9]) != 29 || tl[38] != 0xFF {
					ok = false
					continue
				}
				t, err := sdk.ParseTimeBytes(tl[9:38])
				if err != nil {
					ok = false
					continue
				}
				val = fmt.Sprint(endOf(t))
			} else {
				if tl[0] != 0x06 || tl[1] != 0xFF || tl[10] != 0xFF {
					ok = false
					continue
				}
				val = fmt.Sprint(int64(binary.BigEndian.Uint64(tl[2:10])))
			}
			owner, denom := "", ""
			hasOwner := fam == 0x08 || fam == 0x0A || fam == 0x0C || fam == 0x0E
			hasDenom := fam == 0x09 || fam == 0x0A || fam == 0x0D || fam == 0x0E
			if hasOwner {
				if len(mid) < 21 || mid[20] != 0xFF {
					ok = false
					continue
				}
				owner = e.name(sdk.AccAddress(mid[:20]).String())
				mid = mid[21:]
			}
			if hasDenom {
				if len(mid) < 1 || mid[len(mid)-1] != 0xFF || bytes.IndexByte(mid[:len(mid)-1], 0xFF) >= 0 {
					ok = false
					continue
				}
				denom = string(mid[:len(mid)-1])
				mid = nil
			}
			if len(mid) != 0 {
				ok = false
				continue
			}
			code := map[byte]string{0x07: "D", 0x08: "OD", 0x09: "ND", 0x0A: "OND", 0x0B: "T", 0x0C: "OT", 0x0D: "NT", 0x0E: "ONT"}[fam]
			s := u + "/" + code
			if hasOwner {
				s += "/" + owner
			}
			if hasDenom {
				s += "/" + denom
			}
			out = append(out, fmt.Sprintf("%s/%s/%d", s, val, id))
		}
		it.Close()
	}
	sort.Strings(out)
	return "ok " + strings.Join(out, " "), ok
}

// expected index entries of the shadow locks (what the property means by "exactly indexed").
func (e *lockupEnv) shadowRefs() string {
	var out []string
	for _, l := range e.shadow {
		u := "0"
		if l.end != 0 {
			u = "1"
		}
		out = append(out,
			fmt.Sprintf("%s/D/%d/%d", u, l.dur, l.id),
			fmt.Sprintf("%s/OD/%s/%d/%d", u, l.owner, l.dur, l.id),
			fmt.Sprintf("%s/ND/%s/%d/%d", u, l.denom, l.dur, l.id),
			fmt.Sprintf("%s/OND/%s/%s/%d/%d", u, l.owner, l.denom, l.dur, l.id))
		if l.end != 0 {
			out = append(out,
				fmt.Sprintf("%s/T/%d/%d", u, l.end, l.id),
				fmt.Sprintf("%s/OT/%s/%d/%d", u, l.owner, l.end, l.id),
				fmt.Sprintf("%s/NT/%s/%d/%d", u, l.denom, l.end, l.id),
				fmt.Sprintf("%s/ONT/%s/%s/%d/%d", u, l.owner, l.denom, l.end, l.id))
		}
	}
	// synthetic locks (keeper tail): four entries each, under the synthetic denomination and the SYNTHETIC lock's
	// duration / end time / unlocking flag, pointing at the underlying lock
	for id, sy := range e.synth {
		l, ok := e.shadow[id]
		if !ok {
			continue
		}
		u := "0"
		if sy.end != 0 {
			u = "1"
		}
		out = append(out,
			fmt.Sprintf("%s/NT/%s/%d/%d", u, sy.denom, sy.end, id),
			fmt.Sprintf("%s/ND/%s/%d/%d", u, sy.denom, sy.dur, id),
			fmt.Sprintf("%s/ONT/%s/%s/%d/%d", u, l.owner, sy.denom, sy.end, id),
			fmt.Sprintf("%s/OND/%s/%s/%d/%d", u, l.owner, sy.denom, sy.dur, id))
	}
	sort.Strings(out)
	return "ok " + strings.Join(out, " ")
}

func (e *lockupEnv) bal(owner, denom string) int64 {
	return e.units(denom, e.h.App.BankKeeper.GetBalance(e.ctx(), e.addrs[owner], denom).Amount, "balance")
}

func (e *lockupEnv) modBal(denom string) int64 {
	return e.units(denom, e.h.App.BankKeeper.GetBalance(e.ctx(), e.h.App.AccountKeeper.GetModuleAddress(lockuptypes.ModuleName), denom).Amount, "module-balance")
}

func (e *lockupEnv) accum(denom string, d int64) osmomath.Int {
	return e.h.App.LockupKeeper.GetPeriodLocksAccumulation(e.ctx(), lockuptypes.QueryCondition{LockQueryType: lockuptypes.ByDuration, Denom: denom, Duration: time.Duration(d)})
}

func pastDur(now, ts int64) int64 {
	if ts > now {
		return ts - now
	}
	return 0
}

// one named list query: implementation result and the shadow's answer
type lq struct {
	line string
	impl func() []uint64
	want func() []uint64
	key  string
}

// which parameters a query depends on: g(lobal), o(wner), d(enom), od
var lqScope = map[string]string{"query:all": "g", "query:unlockingBeforeTime": "g", "query:unlockingAfterTime": "g",
	"query:byOwner": "o", "query:byOwnerLongerDuration": "o", "query:byOwnerLongerDurationNotUnlocking": "o", "query:byOwnerDuration": "o",
	"query:byOwnerPastTime": "o", "query:byOwnerUnlockedBeforeTime": "o",
	"query:byDenomLongerDuration": "d", "query:byDenomPastTime": "d", "query:locksDenom": "d",
	"query:byOwnerDenom": "od", "query:byOwnerDenomNotUnlocking": "od", "query:byOwnerDenomDurationNotUnlocking": "od", "query:byOwnerDenomPastTime": "od"}

func (e *lockupEnv) queries(owner, denom string, d int64, ts int64) []lq {
	k := e.h.App.LockupKeeper
	c := e.ctx()
	a := e.addrs[owner]
	now := e.now
	dd := time.Duration(d)
	dk := d // getDurationKey clamps negatives
	if dk < 0 {
		dk = 0
	}
	unl := func(l *shLock) bool { return l.end != 0 }
	return []lq{
		{"all", func() []uint64 { ls, _ := k.GetPeriodLocks(c); return lockIDs(ls) }, func() []uint64 { return e.sel(func(l *shLock) bool { return true }) }, "query:all"},
		{"byowner " + owner, func() []uint64 { return lockIDs(k.GetAccountPeriodLocks(c, a)) }, func() []uint64 { return e.sel(func(l *shLock) bool { return l.owner == owner }) }, "query:byOwner"},
		{fmt.Sprintf("ownerlonger %s %d 0", owner, d), func() []uint64 { return lockIDs(k.GetAccountLockedLongerDuration(c, a, dd)) },
			func() []uint64 { return e.sel(func(l *shLock) bool { return l.owner == owner && l.dur >= dk }) }, "query:byOwnerLongerDuration"},
		{fmt.Sprintf("ownerlonger %s %d 1", owner, d), func() []uint64 { return lockIDs(k.GetAccountLockedLongerDurationNotUnlockingOnly(c, a, dd)) },
			func() []uint64 {
				return e.sel(func(l *shLock) bool { return l.owner == owner && l.dur >= dk && !unl(l) })
			}, "query:byOwnerLongerDurationNotUnlocking"},
		{fmt.Sprintf("ownerduration %s %d", owner, d), func() []uint64 { return lockIDs(k.GetAccountLockedDuration(c, a, dd)) },
			func() []uint64 { return e.sel(func(l *shLock) bool { return l.owner == owner && l.dur == dk }) }, "query:byOwnerDuration"},
		{fmt.Sprintf("byownerdenom %s %s %d 0", owner, denom, d), func() []uint64 { return lockIDs(k.GetAccountLockedLongerDurationDenom(c, a, denom, dd)) },
			func() []uint64 {
				return e.sel(func(l *shLock) bool { return l.owner == owner && l.denom == denom && l.dur >= dk })
			}, "query:byOwnerDenom"},
		{fmt.Sprintf("byownerdenom %s %s %d 1", owner, denom, d), func() []uint64 {
			return lockIDs(k.GetAccountLockedLongerDurationDenomNotUnlockingOnly(c, a, denom, dd))
		},
			func() []uint64 {
				return e.sel(func(l *shLock) bool { return l.owner == owner && l.denom == denom && l.dur >= dk && !unl(l) })
			}, "query:byOwnerDenomNotUnlocking"},
		{fmt.Sprintf("ownerdenomduration %s %s %d", owner, denom, d), func() []uint64 { return lockIDs(k.GetAccountLockedDurationNotUnlockingOnly(c, a, denom, dd)) },
			func() []uint64 {
				return e.sel(func(l *shLock) bool { return l.owner == owner && l.denom == denom && l.dur == dk && !unl(l) })
			}, "query:byOwnerDenomDurationNotUnlocking"},
		{fmt.Sprintf("bydenom %s %d", denom, d), func() []uint64 { return lockIDs(k.GetLocksLongerThanDurationDenom(c, denom, dd)) },
			func() []uint64 { return e.sel(func(l *shLock) bool { return l.denom == denom && l.dur >= dk }) }, "query:byDenomLongerDuration"},
		// GetLocksDenom (LocksBalancesInvariant, the two accumulation rebuilds): every lock holding the denomination, each
		// ONCE (ids are compared as a multiset); the model answers it as "at least 0 long"
		{fmt.Sprintf("bydenom %s 0", denom), func() []uint64 { return lockIDs(k.GetLocksDenom(c, denom)) },
			func() []uint64 { return e.sel(func(l *shLock) bool { return l.denom == denom }) }, "query:locksDenom"},
		{fmt.Sprintf("unlockingbefore %d", ts), func() []uint64 { return e.iterIDs(k.LockIteratorBeforeTime(c, tm(ts))) },
			func() []uint64 { return e.sel(func(l *shLock) bool { return unl(l) && l.end <= ts }) }, "query:unlockingBeforeTime"},
		{fmt.Sprintf("unlockingafter %d", ts), func() []uint64 { return e.iterIDs(k.LockIteratorAfterTime(c, tm(ts))) },
			func() []uint64 { return e.sel(func(l *shLock) bool { return unl(l) && l.end > ts }) }, "query:unlockingAfterTime"},
		{fmt.Sprintf("ownerpasttime %d %s %d", now, owner, ts), func() []uint64 { return lockIDs(k.GetAccountLockedPastTime(c, a, tm(ts))) },
			func() []uint64 {
				return e.sel(func(l *shLock) bool {
					return l.owner == owner && ((unl(l) && l.end > ts) || (!unl(l) && l.dur >= pastDur(now, ts)))
				})
			}, "query:byOwnerPastTime"},
		{fmt.Sprintf("ownerunlockedbefore %d %s %d", now, owner, ts), func() []uint64 { return lockIDs(k.GetAccountUnlockedBeforeTime(c, a, tm(ts))) },
			func() []uint64 {
				return e.sel(func(l *shLock) bool {
					return l.owner == owner && ((unl(l) && l.end <= ts) || (!unl(l) && ts >= now && l.dur < ts-now))
				})
			}, "query:byOwnerUnlockedBeforeTime"},
		{fmt.Sprintf("ownerdenompasttime %d %s %s %d", now, owner, denom, ts), func() []uint64 { return lockIDs(k.GetAccountLockedPastTimeDenom(c, a, denom, tm(ts))) },
			func() []uint64 {
				return e.sel(func(l *shLock) bool {
					return l.owner == owner && l.denom == denom && ((unl(l) && l.end > ts) || (!unl(l) && l.dur >= pastDur(now, ts)))
				})
			}, "query:byOwnerDenomPastTime"},
		{fmt.Sprintf("denompasttime %d %s %d", now, denom, ts), func() []uint64 { return lockIDs(k.GetLocksPastTimeDenom(c, denom, tm(ts))) },
			func() []uint64 {
				return e.sel(func(l *shLock) bool {
					return l.denom == denom && ((unl(l) && l.end > ts) || (!unl(l) && l.dur >= pastDur(now, ts)))
				})
			}, "query:byDenomPastTime"},
	}
}

func sortedI64(m map[int64]bool) []int64 {
	var out []int64
	for k := range m {
		out = append(out, k)
	}
	sort.Slice(out, func(i, j int) bool { return out[i] < out[j] })
	return out
}

// oracle: everything the property states, recomputed from the shadow list.
func (e *lockupEnv) oracle(op string) {
	k := e.h.App.LockupKeeper
	c := e.ctx()
	// lock records
	for _, l := range e.shadow {
		got, err := k.GetLockByID(c, l.id)
		if err != nil {
			e.o.Fail("lockrecord:missing:after-"+op, fmt.Sprintf("lock %d", l.id))
			continue
		}
		recv := "-"
		if l.recv != "" {
			recv = l.recv
		}
		want := fmt.Sprintf("%d %s %d %d %s:%s %s", l.id, l.owner, l.dur, l.end, l.denom, e.real(l.denom, l.amt), recv)
		if s := e.lockStr(got); s != want {
			e.o.Fail("lockrecord:fields:after-"+op, fmt.Sprintf("got %q want %q", s, want))
		}
	}
	// module balance = sum of live locks; conservation per owner
	for _, dn := range e.denoms {
		var sum int64
		per := map[string]int64{}
		for _, l := range e.shadow {
			if l.denom == dn {
				sum += l.amt
				per[l.owner] += l.amt
			}
		}
		if got := e.modBal(dn); got != sum {
			e.o.Fail("modbal:after-"+op, fmt.Sprintf("denom %s module holds %d, live locks sum to %d", dn, got, sum))
		}
		if e.isShare(dn) {
			// CL shares are minted into the module account when the position is locked and burned when the lock is
			// withdrawn: they exist nowhere but in live locks, and never reach an account
			if sup := e.units(dn, e.h.App.BankKeeper.GetSupply(c, dn).Amount, "supply"); sup != sum {
				e.o.Fail("clshares:supply-differs-from-locked:after-"+op, fmt.Sprintf("denom %s supply %d, live locks sum to %d%s", dn, sup, sum, e.histStr()))
			}
			for _, o := range append(append([]string{}, e.names...), "X") {
				if got := e.bal(o, dn); got != 0 {
					e.o.Fail("clshares:held-by-account:after-"+op, fmt.Sprintf("owner %s holds %d %s%s", o, got, dn, e.histStr()))
				}
			}
			continue
		}
		// held denominations: balance + locked = funded; the only exception is a held coin whose name carries the CL
		// share prefix (burned at withdrawal, +names): balance + locked = funded - withdrawn.  The bank supply moves
		// with those burns and with nothing else lockup does.
		var burnt int64
		for _, o := range e.names {
			b := e.burned[o][dn]
			burnt += b
			if got := e.bal(o, dn) + per[o]; got != e.funded[o][dn]-b {
				e.o.Fail("conservation:after-"+op, fmt.Sprintf("owner %s denom %s (%s) balance+locked %d, funded %d - burned at withdrawal %d%s", o, dn, e.classOf(dn), got, e.funded[o][dn], b, e.histStr()))
				e.o.Fail("conservation:owner-balance-plus-locked:"+e.classOf(dn), fmt.Sprintf("after %s: owner %s denom %s balance+locked %d, funded %d - burned at withdrawal %d%s", op, o, dn, got, e.funded[o][dn], b, e.histStr()))
			}
		}
		if s0, ok := e.supply0[dn]; ok {
			if sup := e.h.App.BankKeeper.GetSupply(c, dn).Amount; !sup.Equal(s0.Sub(e.real(dn, burnt))) {
				e.o.Fail("supply:changed-by-lockup:"+e.classOf(dn), fmt.Sprintf("after %s: denom %s supply %s, at funding %s, withdrawn coins with the CL share prefix %s%s", op, dn, sup, s0, e.real(dn, burnt), e.histStr()))
			}
		}
	}
	e.accumOracle(op)
	e.coinQueries(op)
	// index, straight from the store
	if got, ok := e.decodeRefs(); !ok {
		e.o.Fail("index:undecodable-key:after-"+op, "")
	} else if want := e.shadowRefs(); got != want {
		e.o.Fail("index:entries:after-"+op, fmt.Sprintf("store %q expected %q", got, want))
	}
	// queries: every owner and denom; a sample of the closure's durations and times plus the boundaries
	ds := sortedI64(e.durSeen)
	ts := sortedI64(e.timeSeen)
	pickD := func() int64 { return ds[e.r.Intn(len(ds))] }
	pickT := func() int64 {
		if len(ts) == 0 || e.r.Intn(4) == 0 {
			return e.now + int64(e.r.Intn(3)-1)
		}
		return ts[e.r.Intn(len(ts))]
	}
	owners := append(append([]string{}, e.names...), "X")
	for oi, o := range owners {
		for di, dn := range e.denoms {
			for rep := 0; rep < 2; rep++ {
				for _, q := range e.queries(o, dn, pickD(), pickT()) {
					switch lqScope[q.key] {
					case "g":
						if oi != 0 || di != 0 {
							continue
						}
					case "o":
						if di != 0 {
							continue
						}
					case "d":
						if oi != 0 {
							continue
						}
					case "od":
						if rep != 0 {
							continue
						}
					default:
						panic("unscoped query " + q.key)
					}
					var got []uint64
					if !catch(func() { got = q.impl() }) { // getLocksFromIterator panics on a reference to a missing lock
						e.o.Fail(q.key+":panic", fmt.Sprintf("after %s: %s panicked", op, q.line))
						continue
					}
					if want := q.want(); !eqIDs(got, want) {
						e.o.Fail(q.key, fmt.Sprintf("after %s: %s returned %v, matching locks %v", op, q.line, got, want))
					}
				}
			}
		}
	}
}

// accumulation oracle.  RULE (verified against the code): a lock counts from creation until it is WITHDRAWN —
// beginning to unlock does not touch the accumulation store (only lock/unlockMaturedLockInternalLogic/ExtendLockup do).
// Query points, for EVERY denomination: every duration any lock of the history ever had (also the ones whose bucket
// has been emptied since), each +-1ns, the midpoints between neighbouring durations, 0, -1 (uint64 wrap: above every
// key), twice the maximum and MaxInt64.  The reference is a from-scratch sum over the shadow locks.  A panicking query
// is a failing input of its own.
func (e *lockupEnv) accumPoints() []int64 {
	pts := map[int64]bool{0: true, -1: true, math.MaxInt64: true}
	for d := range e.durSeen {
		pts[d] = true
	}
	ever := sortedI64(e.durEver)
	for i, d := range ever {
		if i+1 < len(ever) {
			pts[d+(ever[i+1]-d)/2] = true
		}
	}
	if n := len(ever); n > 0 && ever[n-1] < math.MaxInt64/2 {
		pts[2*ever[n-1]] = true
	}
	return sortedI64(pts)
}

func (e *lockupEnv) accumOracle(op string) {
	pts := e.accumPoints()
	for _, dn := range e.denoms {
		// live locks of the denomination by duration, from scratch
		live := map[int64]int64{}
		for _, l := range e.shadow {
			if l.denom == dn {
				live[l.dur] += l.amt
			}
		}
		for _, d := range pts {
			var want int64
			if d >= 0 {
				for ld, a := range live {
					if ld >= d {
						want += a
					}
				}
			}
			var got osmomath.Int
			if !catch(func() { got = e.accum(dn, d) }) {
				e.o.Fail("accum:query-panicked:"+e.class, fmt.Sprintf("after %s: GetPeriodLocksAccumulation(%s, duration>=%d) panicked; live locks sum to %s%s", op, dn, d, e.real(dn, want), e.histStr()))
				continue
			}
			if !got.Equal(e.real(dn, want)) {
				key := "accum:after-" + op
				if e.accWiped[dn] { // keeper tail, F55: a rebuild of a prefix denomination cleared this denomination's store
					key = "accum:drift:store-cleared-by-rebuild-of-prefix-denom"
				}
				e.o.Fail(key, fmt.Sprintf("denom %s duration>=%d accumulation %s, live locks sum to %s%s", dn, d, got, e.real(dn, want), e.histStr()))
			}
		}
	}
	e.o.Count(fmt.Sprintf("accum.query-points.%s", bucketOf(len(pts), 10, 20, 40, 80)))
}

// coin-sum queries (store.go): what is locked / unlocking / unlockable, per account and for the module
func (e *lockupEnv) coinQueries(op string) {
	k := e.h.App.LockupKeeper
	c := e.ctx()
	now := e.now
	sum := func(p func(l *shLock) bool) string {
		m := map[string]int64{}
		for _, l := range e.shadow {
			if p(l) {
				m[l.denom] += l.amt
			}
		}
		var ds []string
		for d := range m {
			ds = append(ds, d)
		}
		sort.Strings(ds)
		var out []string
		for _, d := range ds {
			if m[d] != 0 {
				out = append(out, d+":"+e.real(d, m[d]).String())
			}
		}
		if len(out) == 0 {
			return "-"
		}
		return strings.Join(out, ",")
	}
	chk := func(key, what string, impl func() sdk.Coins, want string) {
		var got sdk.Coins
		if !catch(func() { got = impl() }) {
			e.o.Fail(key+":panic", fmt.Sprintf("after %s: %s panicked%s", op, what, e.histStr()))
			return
		}
		if g := e.coinsStr(got); g != want {
			e.o.Fail(key, fmt.Sprintf("after %s: %s returned %s, matching locks hold %s%s", op, what, g, want, e.histStr()))
		}
	}
	chk("coins:moduleLocked", "GetModuleLockedCoins", func() sdk.Coins { return k.GetModuleLockedCoins(c) },
		sum(func(l *shLock) bool { return l.end == 0 || l.end > now }))
	for _, o := range append(append([]string{}, e.names...), "X") {
		o := o
		a := e.addrs[o]
		chk("coins:accountUnlockable", "GetAccountUnlockableCoins("+o+")", func() sdk.Coins { return k.GetAccountUnlockableCoins(c, a) },
			sum(func(l *shLock) bool { return l.owner == o && l.end != 0 && l.end <= now }))
		chk("coins:accountUnlocking", "GetAccountUnlockingCoins("+o+")", func() sdk.Coins { return k.GetAccountUnlockingCoins(c, a) },
			sum(func(l *shLock) bool { return l.owner == o && l.end != 0 && l.end > now }))
		chk("coins:accountLocked", "GetAccountLockedCoins("+o+")", func() sdk.Coins { return k.GetAccountLockedCoins(c, a) },
			sum(func(l *shLock) bool { return l.owner == o && (l.end == 0 || l.end > now) }))
	}
}

func bucketOf(n int, bounds ...int) string {
	lo := 0
	for _, b := range bounds {
		if n < b {
			return fmt.Sprintf("%d..%d", lo, b-1)
		}
		lo = b
	}
	return fmt.Sprintf("%d+", lo)
}

// histStr: the transactions of the current history (replay of a failing input), newest last, bounded.
func (e *lockupEnv) histStr() string {
	var b strings.Builder
	b.WriteString(" | history, newest transaction first: ")
	for i := len(e.hist) - 1; i >= 0 && i >= len(e.hist)-60; i-- {
		b.WriteString(strings.TrimPrefix(e.hist[i], "lockup "))
		b.WriteString(" ; ")
	}
	return b.String()
}

// accumStr: the accumulation query as an observation ("panic" when the sum tree panics)
func (e *lockupEnv) accumStr(dn string, d int64) string {
	out := "panic"
	catch(func() { out = "ok " + e.accum(dn, d).String() })
	return out
}

func (e *lockupEnv) noteDur(d int64) {
	if d >= 0 {
		e.durEver[d] = true
	}
	for _, x := range []int64{d - 1, d, d + 1} {
		if x >= 0 {
			e.durSeen[x] = true
		}
	}
}
func (e *lockupEnv) noteTime(t int64) {
	for _, x := range []int64{t - 1, t, t + 1} {
		e.timeSeen[x] = true
	}
}

// emit a few model-checked observations
func (e *lockupEnv) observe(k int) {
	ds := sortedI64(e.durSeen)
	ts := sortedI64(e.timeSeen)
	for i := 0; i < k; i++ {
		o := append(append([]string{}, e.names...), "X")[e.r.Intn(4)]
		dn := e.denoms[e.r.Intn(len(e.denoms))]
		d := ds[e.r.Intn(len(ds))]
		if e.r.Intn(12) == 0 {
			d = -1
		}
		t := e.now
		if len(ts) > 0 && e.r.Intn(4) != 0 {
			t = ts[e.r.Intn(len(ts))]
		}
		switch e.r.Intn(7) {
		case 0:
			e.o.Emit("lockup modbal "+dn, fmt.Sprintf("ok %s", e.real(dn, e.modBal(dn))), true)
		case 1:
			if o != "X" {
				e.o.Emit("lockup bal "+o+" "+dn, fmt.Sprintf("ok %s", e.real(dn, e.bal(o, dn))), true)
			}
		case 2, 3:
			e.o.Emit(fmt.Sprintf("lockup accum %s %d", dn, d), e.accumStr(dn, d), true)
		default:
			qs := e.queries(o, dn, d, t)
			q := qs[e.r.Intn(len(qs))]
			obs := "panic"
			catch(func() { obs = lkIdsStr(q.impl()) })
			e.o.Emit("lockup "+q.line, obs, true)
			e.o.Count("observe." + strings.Fields(q.line)[0])
		}
	}
}

func (e *lockupEnv) dump() {
	var ls []lockuptypes.PeriodLock
	if catch(func() { ls, _ = e.h.App.LockupKeeper.GetPeriodLocks(e.ctx()) }) {
		sort.Slice(ls, func(i, j int) bool { return ls[i].ID < ls[j].ID })
		var p []string
		for i := range ls {
			p = append(p, e.lockStr(&ls[i]))
		}
		e.o.Emit("lockup dump", "ok "+strings.Join(p, " | "), true)
	} else {
		e.o.Emit("lockup dump", "panic", true)
	}
	refs, _ := e.decodeRefs()
	e.o.Emit("lockup refs", refs, true)
	e.o.Emit("lockup lastid", fmt.Sprintf("ok %d", e.h.App.LockupKeeper.GetLastLockID(e.ctx())), true)
}

// rawStore: every (key, value) of the lockup KV store outside the accumulation trees (prefix 0x20), hex.
func (e *lockupEnv) rawStore() []string {
	store := e.ctx().KVStore(e.h.App.GetKey(lockuptypes.StoreKey))
	it := store.Iterator(nil, nil)
	defer it.Close()
	var out []string
	for ; it.Valid(); it.Next() {
		if len(it.Key()) > 0 && it.Key()[0] == 0x20 {
			continue
		}
		out = append(out, fmt.Sprintf("%x=%x", it.Key(), it.Value()))
	}
	return out
}

func (e *lockupEnv) paramsStr() string {
	var p []string
	for _, a := range e.h.App.LockupKeeper.GetParams(e.ctx()).ForceUnlockAllowedAddresses {
		p = append(p, e.name(a))
	}
	if len(p) == 0 {
		return "ok"
	}
	return "ok " + strings.Join(p, " ")
}

// exportImport: the REAL ExportGenesis (through the JSON codec, as AppModule does), the lockup store wiped
// (records, index, last id, accumulation trees) and the params reset, then the REAL InitGenesis.  The bank is
// left alone (it is another module's genesis).  The history continues on the imported store.
// Oracle (C19): everything observable must be what it was: raw records/index/last-id bytes (synthetic lock records and
// their time index included), params, the accumulation of every real denomination at every duration of the closure,
// the WHOLE accumulation store by meaning (lockupDerivedOracle: every denomination that has a tree, synthetic ones
// included, leaf by leaf against a from-scratch sum over the imported lock records, against the exporting chain, and
// the keeper's answers against the leaves), and (through e.oracle) every keeper query against the shadow list.
// emit=false: the oracle-only variant used inside the keeper tail (the model does not follow the tail).
func (e *lockupEnv) exportImport() { e.exportImportCore(true) }

func (e *lockupEnv) exportImportCore(emit bool) bool {
	k := e.h.App.LockupKeeper
	o := e.o
	cdc := e.h.App.AppCodec()
	skey := e.h.App.GetKey(lockuptypes.StoreKey)
	emitf := func(op, obs string) {
		if emit {
			o.Emit(op, obs, true)
		}
	}
	preRaw := e.rawStore()
	preParams := e.paramsStr()
	preAcc := map[string]string{}
	for _, dn := range e.denoms {
		for d := range e.durSeen {
			preAcc[fmt.Sprintf("%s|%d", dn, d)] = e.accumStr(dn, d)
		}
	}
	preEmpty := e.accumStr("", 0)
	preLeaves, _, _ := lockupAccumLeaves(e.ctx(), skey)
	nClusters, nDiffering := lockupSynthClusters(e.ctx(), k)
	var bz []byte
	if !catch(func() { bz = cdc.MustMarshalJSON(k.ExportGenesis(e.ctx())) }) {
		emitf("lockup exportimport", "panic")
		o.Fail("lockup:export-import:export-panics", e.histStr())
		return false
	}
	store := e.ctx().KVStore(skey)
	var keys [][]byte
	it := store.Iterator(nil, nil)
	for ; it.Valid(); it.Next() {
		keys = append(keys, append([]byte{}, it.Key()...))
	}
	it.Close()
	for _, key := range keys {
		store.Delete(key)
	}
	k.SetParams(e.ctx(), lockuptypes.NewParams([]string{e.addrs["X"].String()})) // a fresh chain has no such params
	var gs lockuptypes.GenesisState
	if !catch(func() { cdc.MustUnmarshalJSON(bz, &gs); k.InitGenesis(e.ctx(), gs) }) {
		emitf("lockup exportimport", "panic")
		o.Fail("lockup:export-import:import-panics", e.histStr())
		return false
	}
	emitf("lockup exportimport", "ok")
	o.Count("exportimport")
	o.Count(fmt.Sprintf("exportimport.locks.%d", min(len(gs.Locks), 6)))
	o.Count(fmt.Sprintf("exportimport.synthetic-locks.%s", bucketOf(len(gs.SyntheticLocks), 1, 2, 4, 8)))
	if nClusters > 0 {
		o.Count("exportimport.synthetic-denom-with->=2-locks-at-one-duration")
	}
	if nDiffering > 0 {
		o.Count("exportimport.synthetic-denom-with->=2-locks-at-one-duration.lock-duration-differs")
	}
	postRaw := e.rawStore()
	if strings.Join(preRaw, "\n") != strings.Join(postRaw, "\n") {
		pre := map[string]bool{}
		for _, x := range preRaw {
			pre[x] = true
		}
		var diff []string
		for _, x := range postRaw {
			if !pre[x] {
				diff = append(diff, "+"+x)
			}
			delete(pre, x)
		}
		for x := range pre {
			diff = append(diff, "-"+x)
		}
		sort.Strings(diff)
		if len(diff) > 6 {
			diff = diff[:6]
		}
		o.Fail("lockup:export-import:records-or-index-or-lastid-differ", strings.Join(diff, " ")+e.histStr())
	}
	if p := e.paramsStr(); p != preParams {
		o.Fail("lockup:export-import:params", fmt.Sprintf("before %q after %q", preParams, p))
	}
	for key, v := range preAcc {
		var dn string
		var d int64
		parts := strings.SplitN(key, "|", 2)
		dn = parts[0]
		fmt.Sscan(parts[1], &d)
		if got := e.accumStr(dn, d); got != v {
			if e.accWiped[dn] {
				// the exporting chain's store of this denomination had been cleared by a rebuild of a prefix denomination
				// (finding F55, reported by C06 as accum:drift:store-cleared-by-rebuild-of-prefix-denom); InitGenesis
				// rebuilds it from the lock records: the import REPAIRS the running chain's defect
				o.Count("exportimport.store-cleared-by-rebuild-of-prefix-denom-repaired-by-import")
				continue
			}
			o.Fail("lockup:export-import:accumulation", fmt.Sprintf("denom %s duration>=%d before %s after %s", dn, d, v, got))
		}
	}
	// the whole accumulation store, synthetic denominations included
	lockupDerivedOracle(e.ctx(), k, skey, preLeaves, func(cls, detail string) {
		if strings.HasSuffix(cls, ":differs-from-exporting-chain") {
			// same consequence of F55 seen on the raw store: the imported store equals the sum over the lock records
			// (checked just before), the exporting chain's had been cleared by a rebuild of a prefix denomination
			for dn := range e.accWiped {
				if strings.HasPrefix(detail, "denom "+dn+":") {
					o.Count("exportimport.store-cleared-by-rebuild-of-prefix-denom-repaired-by-import:raw-store")
					return
				}
			}
		}
		o.Fail("export-import:derived-store-differs:lockup:accumulation:"+cls, detail+e.histStr())
	}, o.Count)
	e.accWiped = map[string]bool{} // InitGenesis rebuilt every accumulation store
	// ... and against the engine's own shadow of the live synthetic locks (shares nothing with the keeper's records)
	if e.synth != nil {
		pts := e.accumPoints()
		for sd := range e.synthDenoms {
			base := sd[:strings.Index(sd, "/super")]
			for _, d := range pts {
				var intent int64
				if d >= 0 {
					for id, sy := range e.synth {
						if l, ok := e.shadow[id]; ok && sy.denom == sd && sy.dur >= d {
							intent += l.amt
						}
					}
				}
				got := "panic"
				catch(func() { got = e.accum(sd, d).String() })
				if got != e.real(base, intent).String() {
					o.Fail("export-import:derived-store-differs:lockup:accumulation:synthetic-denom:query-vs-live-synthetic-locks",
						fmt.Sprintf("after export/import: accumulation(%s, duration>=%d) = %s, live synthetic locks' underlying amounts sum to %s%s", sd, d, got, e.real(base, intent), e.histStr()))
				}
			}
			o.Count("exportimport.synthetic-denom-queried")
		}
	}
	// the accumulation tree of the non-denomination "" (F6) is not rebuilt: recorded, not a property failure
	if post := e.accumStr("", 0); post != preEmpty {
		o.Count("exportimport.empty-denom-accum-dropped")
	}
	if !emit {
		return true
	}
	e.oracle("exportimport")
	o.Emit("lockup accumempty 0", e.accumStr("", 0), true)
	o.Emit("lockup params", e.paramsStr(), true)
	e.dump()
	e.observe(4)
	return true
}

func (e *lockupEnv) randLock(p func(l *shLock) bool) *shLock {
	ids := e.sel(p)
	if len(ids) == 0 {
		return nil
	}
	return e.shadow[ids[e.r.Intn(len(ids))]]
}

func pickWeighted(r *rand.Rand, names []string, w []int) string {
	tot := 0
	for _, x := range w {
		tot += x
	}
	x := r.Intn(tot)
	for i, wi := range w {
		if x < wi {
			return names[i]
		}
		x -= wi
	}
	return names[len(names)-1]
}

// live locks per (denomination, duration) bucket
func (e *lockupEnv) buckets() map[bucket]int {
	out := map[bucket]int{}
	for _, l := range e.shadow {
		out[bucket{l.denom, l.dur}]++
	}
	return out
}

// many-durations histories drain one bucket after the other: the target is a non-empty bucket, mostly of the focus denomination
func (e *lockupEnv) retarget() {
	if !e.many || len(e.fill) > 0 {
		return
	}
	bs := e.buckets()
	if e.target != nil && bs[*e.target] > 0 {
		return
	}
	e.target = nil
	var cands, focus []bucket
	for b := range bs {
		cands = append(cands, b)
		if b.denom == e.focus {
			focus = append(focus, b)
		}
	}
	if len(focus) > 0 && e.r.Intn(5) != 0 {
		cands = focus
	}
	if len(cands) == 0 {
		return
	}
	sort.Slice(cands, func(i, j int) bool {
		if cands[i].denom != cands[j].denom {
			return cands[i].denom < cands[j].denom
		}
		return cands[i].dur < cands[j].dur
	})
	b := cands[e.r.Intn(len(cands))]
	e.target = &b
}

// a lock of the target bucket satisfying p (nil: none, or no target)
func (e *lockupEnv) targetLock(p func(l *shLock) bool) *shLock {
	if e.target == nil {
		return nil
	}
	return e.randLock(func(l *shLock) bool { return l.denom == e.target.denom && l.dur == e.target.dur && p(l) })
}

func (e *lockupEnv) advance() {
	r := e.r
	if e.target != nil && r.Intn(2) == 0 {
		// the whole target bucket is unlocking: go to (or 1ns before) the time its last lock matures
		all, last := true, int64(0)
		for _, l := range e.shadow {
			if l.denom == e.target.denom && l.dur == e.target.dur {
				if l.end == 0 {
					all = false
				} else if l.end > last {
					last = l.end
				}
			}
		}
		if all && last > e.now && last < math.MaxInt64-2*(e.durs[len(e.durs)-1]+int64(time.Minute)) {
			e.now = last - int64(r.Intn(8)/7)
			e.h.Ctx = e.h.Ctx.WithBlockTime(tm(e.now))
			e.noteTime(e.now)
			e.o.Count("advance.to-end-of-target-bucket")
			return
		}
	}
	switch x := r.Intn(20); {
	case x < 5: // same block time
	case x < 7:
		e.now++
	case x < 10: // land exactly on / just before an end time
		var ends []int64
		for _, l := range e.shadow {
			if l.end >= e.now {
				ends = append(ends, l.end, l.end-1)
			}
		}
		if len(ends) > 0 {
			sort.Slice(ends, func(i, j int) bool { return ends[i] < ends[j] })
			t := ends[r.Intn(len(ends))]
			if t >= e.now && t < math.MaxInt64-2*(e.durs[len(e.durs)-1]+int64(time.Minute)) { // now + duration stays an int64 ns
				e.now = t
			}
		}
	case x < 17:
		e.now += int64(r.Intn(4000)) * int64(time.Millisecond)
	default:
		e.now += int64(5+r.Intn(40)) * int64(time.Second)
	}
	e.h.Ctx = e.h.Ctx.WithBlockTime(tm(e.now))
	e.noteTime(e.now)
}

// runTx runs f in a cache context, written only on success; a panic counts as failure.
func (e *lockupEnv) runTx(f func(c sdk.Context) error) bool {
	cctx, write := e.h.Ctx.CacheContext()
	var err error
	ok := catch(func() { err = f(cctx) })
	if !ok || err != nil {
		return false
	}
	write()
	return true
}

func runLockup(t *testing.T, seed int64, n int, dir string) {
	r := rand.New(rand.NewSource(seed))
	o := NewOut(dir)
	h := newH(t)
	e := &lockupEnv{h: h, o: o, r: r, names: []string{"A", "B", "C"}, denoms: []string{"bar", "foo", "uosmo"},
		durs: []int64{int64(2 * time.Second), int64(5 * time.Second), int64(5*time.Second) + 1, int64(12 * time.Second), int64(40 * time.Second)}}
	done := 0
	f6Seen, f6Adds := 0, 0
	for done < n {
		h.Reset()
		k := h.App.LockupKeeper
		ms := lockupkeeper.NewMsgServerImpl(k)
		e.addrs = map[string]sdk.AccAddress{}
		e.nameOf = map[string]string{}
		for i, nm := range []string{"A", "B", "C", "X"} {
			a := sdk.AccAddress([]byte(fmt.Sprintf("lockupowner_______%02d", i)))
			e.addrs[nm] = a
			e.nameOf[a.String()] = nm
		}
		e.shadow = map[uint64]*shLock{}
		e.funded = map[string]map[string]int64{}
		e.durSeen = map[int64]bool{0: true}
		e.durEver = map[int64]bool{}
		e.timeSeen = map[int64]bool{}
		e.hist = nil
		e.synth = nil
		e.target = nil
		e.denomDurs = map[string]map[int64]bool{}
		e.splitIn = map[bucket]bool{}
		e.denoms = []string{"bar", "foo", "uosmo"}
		e.dclass = map[string]string{}
		e.look = nil
		e.burned = map[string]map[string]int64{}
		e.supply0 = map[string]osmomath.Int{}
		e.accWiped = map[string]bool{}
		e.clPools = map[string]uint64{}
		if done == 0 {
			e.namespaceProbe()
		}
		// magnitude classes (per history): amount unit K and a base added to the five durations
		e.K = osmomath.OneInt()
		kclass := "1"
		if x := r.Intn(100); x < 30 {
			big2 := func(n uint, add int64) osmomath.Int {
				return osmomath.NewIntFromBigInt(new(big.Int).Add(new(big.Int).Lsh(big.NewInt(1), n), big.NewInt(add)))
			}
			switch x % 6 {
			case 0:
				e.K, kclass = big2(40, 0), "2^40"
			case 1:
				e.K, kclass = big2(63, int64(r.Intn(3))-1), "2^63+-1" // amounts straddle int64
			case 2:
				e.K, kclass = big2(64, 1+2*int64(r.Intn(1000))), "2^64+odd"
			case 3:
				e.K, kclass = big2(100+uint(r.Intn(29)), int64(r.Intn(2))), "2^100..2^128"
			case 4:
				e.K, kclass = big2(200, int64(r.Intn(1000))), "2^200"
			default:
				e.K, kclass = big2(241, -int64(r.Intn(2))), "2^241" // total supply of a denom just below 2^255
			}
		}
		o.Count("class.amount-unit." + kclass)
		dbase, dclass := int64(0), "seconds"
		if x := r.Intn(100); x < 15 {
			switch x % 3 {
			case 0:
				dbase, dclass = int64(14*24*time.Hour), "14d"
			case 1:
				dbase, dclass = int64(365*24*time.Hour), "1y"
			default:
				dbase, dclass = int64(30*365*24*time.Hour), "30y"
			}
		}
		o.Count("class.duration-base." + dclass)
		e.durs = []int64{dbase + int64(2*time.Second), dbase + int64(5*time.Second), dbase + int64(5*time.Second) + 1, dbase + int64(12*time.Second), dbase + int64(40*time.Second)}
		// history class "many-durations": 11..25 pairwise distinct durations (more than the accumulation tree's fan-out,
		// so that the tree of the focus denomination gets inner levels), most locks in ONE denomination, every duration
		// used early, then whole (denomination, duration) buckets are drained again: begin-unlock (full or in parts that
		// sum to the total), time advance to the end times, withdraw — and extended away.
		e.many = r.Intn(100) < 35
		e.class = "few-durations"
		e.focus = ""
		e.fill = nil
		if e.many {
			e.class = "many-durations"
			e.focus = e.denoms[r.Intn(3)]
			nd := 11 + r.Intn(15)
			seen := map[int64]bool{}
			for _, d := range e.durs {
				seen[d] = true
			}
			for len(e.durs) < nd {
				var d int64
				switch r.Intn(5) {
				case 0: // 1ns next to an existing one
					d = e.durs[r.Intn(len(e.durs))] + int64(r.Intn(2))*2 - 1
				case 1: // whole seconds
					d = dbase + int64(1+r.Intn(60))*int64(time.Second)
				default:
					d = dbase + int64(1+r.Intn(60000))*int64(time.Millisecond) + int64(r.Intn(3))
				}
				if d > dbase && !seen[d] {
					seen[d] = true
					e.durs = append(e.durs, d)
				}
			}
			sort.Slice(e.durs, func(i, j int) bool { return e.durs[i] < e.durs[j] })
			e.fill = append([]int64{}, e.durs...)
			switch r.Intn(3) { // order in which the tree's leaves are created: ascending, descending, shuffled
			case 0:
			case 1:
				sort.Slice(e.fill, func(i, j int) bool { return e.fill[i] > e.fill[j] })
			default:
				r.Shuffle(len(e.fill), func(i, j int) { e.fill[i], e.fill[j] = e.fill[j], e.fill[i] })
			}
			o.Count(fmt.Sprintf("class.many-durations.distinct-durations.%s", bucketOf(len(e.durs), 11, 16, 21)))
		}
		for _, d := range e.durs {
			e.noteDur(d)
		}
		e.now = int64(1_700_000_000)*int64(time.Second) + int64(r.Intn(1000))
		h.Ctx = h.Ctx.WithBlockTime(tm(e.now))
		// history class "+cl": locks of concentrated-liquidity share denominations cl/pool/<id>, created the way the chain
		// does (full-range position whose minted shares are locked by the CL keeper through CreateLockNoSend; the variant
		// that starts unlocking at once is the balancer->CL migration path).  Such shares are burned, not paid out.
		if r.Intn(100) < 35 {
			e.class += "+cl"
			for i := 0; i < 1+r.Intn(2); i++ {
				pool := h.PrepareConcentratedPoolWithCoins("eth", "usdc")
				dn := cltypes.GetConcentratedLockupDenomFromPoolId(pool.GetId())
				if !isCLDenom(dn) {
					t.Fatalf("CL share denomination %q without the CL prefix", dn)
				}
				e.clPools[dn] = pool.GetId()
				e.denoms = append(e.denoms, dn)
			}
			sort.Strings(e.denoms)
			if e.many && r.Intn(3) == 0 {
				cl := []string{}
				for _, dn := range e.denoms {
					if e.isShare(dn) {
						cl = append(cl, dn)
					}
				}
				e.focus = cl[r.Intn(len(cl))]
			}
		}
		// history class "+names": names related to the strings lockup treats specially (lockup_names_test.go)
		if r.Intn(100) < 55 {
			ns := e.pickNames(r)
			if e.createNames(ns) {
				e.class += "+names"
				for _, x := range ns {
					e.denoms = append(e.denoms, x.name)
					e.look = append(e.look, x.name)
					e.dclass[x.name] = x.class
					o.Count("class.names.denom-class." + x.class)
				}
				sort.Strings(e.denoms)
				if e.many && !e.isShare(e.focus) && r.Intn(2) == 0 {
					e.focus = e.look[r.Intn(len(e.look))]
				}
			}
		}
		o.Count("class.history." + e.class)
		o.Count(fmt.Sprintf("class.denominations-per-history.%d", len(e.denoms)))
		if e.many {
			fc := map[bool]string{false: "ordinary-denom", true: "cl-share-denom"}[e.isShare(e.focus)]
			if e.dclass[e.focus] != "" {
				fc = "related-name." + e.dclass[e.focus]
			}
			o.Count("class.many-durations.focus." + fc)
		}
		var fund []string
		for _, nm := range e.names {
			e.funded[nm] = map[string]int64{}
			e.burned[nm] = map[string]int64{}
			for _, dn := range e.denoms {
				if e.isShare(dn) {
					continue // nobody ever holds CL pool shares
				}
				amt := int64(0)
				if r.Intn(8) != 0 || dn == e.focus {
					amt = int64(200 + r.Intn(3000))
				}
				if amt > 0 {
					e.fundName(nm, dn, amt)
				}
				// whatever genesis gave the account counts as funding
				e.funded[nm][dn] = e.bal(nm, dn)
				fund = append(fund, fmt.Sprintf("%s %s %s", nm, dn, e.real(dn, e.funded[nm][dn])))
			}
		}
		for _, dn := range e.denoms {
			if !e.isShare(dn) {
				e.supply0[dn] = h.App.BankKeeper.GetSupply(h.Ctx, dn).Amount
			}
		}
		e.allowed = "-"
		if r.Intn(2) == 0 {
			e.allowed = e.names[r.Intn(3)]
			k.SetParams(h.Ctx, lockuptypes.NewParams([]string{e.addrs[e.allowed].String()}))
		} else {
			k.SetParams(h.Ctx, lockuptypes.NewParams([]string{}))
		}
		o.Emit("lockup reset "+e.allowed+" "+strings.Join(fund, " "), "ok", true)
		for _, dn := range e.denoms {
			if e.modBal(dn) != 0 {
				o.Fail("modbal:genesis", dn)
			}
		}
		lastID := k.GetLastLockID(h.Ctx)
		if lastID != 0 {
			o.Fail("genesis:locks-exist", "")
		}
		// probe (C19, candidate finding L2; discarded branch): InitGenesis of a document that lists lock id 1 twice.
		// Model: Props.C19.lockup_init_genesis_swallows_error_witness — no panic, the error of InitializeAllLocks is
		// dropped, lock 2 is never imported and no accumulation store is written.
		if done == 0 {
			cctx, _ := h.Ctx.CacheContext()
			mk := func(id uint64, owner string, amt int64) lockuptypes.PeriodLock {
				return lockuptypes.PeriodLock{ID: id, Owner: e.addrs[owner].String(), Duration: 10 * time.Second, Coins: sdk.NewCoins(sdk.NewInt64Coin("foo", amt))}
			}
			gs := lockuptypes.GenesisState{LastLockId: 2, Locks: []lockuptypes.PeriodLock{mk(1, "A", 100), mk(1, "B", 7), mk(2, "B", 5)}}
			panicked := !catch(func() { k.InitGenesis(cctx, gs) })
			_, err2 := k.GetLockByID(cctx, 2)
			l1, _ := k.GetLockByID(cctx, 1)
			acc := k.GetPeriodLocksAccumulation(cctx, lockuptypes.QueryCondition{LockQueryType: lockuptypes.ByDuration, Denom: "foo", Duration: 0})
			if !panicked && err2 != nil && l1 != nil && l1.Owner == e.addrs["B"].String() && acc.IsZero() {
				o.Count("probe.init-genesis-swallows-error.confirmed")
			} else {
				o.Count(fmt.Sprintf("probe.init-genesis-swallows-error.NOT-as-modelled.panicked=%v.lock2missing=%v.acc=%s", panicked, err2 != nil, acc))
			}
		}
		hist := 25 + r.Intn(70)
		if e.many {
			hist = len(e.durs) + 40 + r.Intn(50)
		}
		for step := 0; step < hist && done < n; step++ {
			if step > 2 && r.Intn(10) == 0 {
				e.exportImport()
			}
			done++
			e.retarget()
			e.advance()
			now := e.now
			owner := e.names[r.Intn(3)]
			if r.Intn(25) == 0 {
				owner = "X"
			}
			dn := e.denoms[r.Intn(len(e.denoms))]
			if len(e.look) > 0 && r.Intn(5) < 2 { // +names: the related names take part in every kind of transaction
				dn = e.look[r.Intn(len(e.look))]
			}
			if e.many && r.Intn(10) < 7 {
				dn = e.focus
			}
			if len(e.look) > 0 && step > 5 && r.Intn(12) == 0 {
				e.multiCoinBranch()
			}
			var line, obs, opk string
			bucketsBefore := e.buckets()
			before := map[string]int64{}
			for _, nm := range e.names {
				for _, d := range e.denoms {
					before[nm+"/"+d] = e.bal(nm, d)
				}
			}
			released := []*shLock{} // locks whose coins this op returned
			forced := false
			// operation mix; many-durations histories first create a lock per duration, then lean towards draining
			weights := []int{30, 8, 10, 20, 4, 10, 8, 4, 6}
			if e.many {
				weights = []int{14, 4, 8, 30, 3, 14, 17, 3, 7}
				if len(e.fill) > 0 {
					weights = []int{85, 2, 1, 4, 0, 2, 3, 1, 2}
				}
			}
			opk = pickWeighted(r, []string{"lock", "addtolock", "extend", "beginunlock", "beginunlockall", "unlock", "withdraw", "setreceiver", "forceunlock"}, weights)
			if opk == "lock" && e.isShare(dn) && r.Intn(8) != 0 {
				opk = "cllock" // the only way CL shares get locked; MsgLockTokens of a CL denomination (nobody holds any) is tried rarely
			}
			switch opk {
			case "cllock": // ConcentratedLiquidityKeeper.CreateFullRangePositionLocked / ...Unlocking
				dur := e.durs[r.Intn(len(e.durs))]
				if e.many && dn == e.focus && len(e.fill) > 0 {
					dur, e.fill = e.fill[0], e.fill[1:]
				}
				e.noteDur(dur)
				unlocking := r.Intn(5) == 0
				tok := int64(1000 + r.Intn(300000))
				if r.Intn(12) == 0 {
					tok = int64(r.Intn(3)) // no liquidity / next to none: the call fails
				}
				coins := sdk.NewCoins(sdk.NewInt64Coin("eth", tok+int64(r.Intn(50))), sdk.NewInt64Coin("usdc", tok+int64(r.Intn(50))))
				if owner != "X" { // the stranger has nothing to provide: the call fails
					h.FundAcc(e.addrs[owner], coins)
				}
				var id uint64
				var shares sdk.Coins
				ok := e.runTx(func(c sdk.Context) (err error) {
					if unlocking {
						_, id, err = h.App.ConcentratedLiquidityKeeper.CreateFullRangePositionUnlocking(c, e.clPools[dn], e.addrs[owner], coins, time.Duration(dur))
					} else {
						_, id, err = h.App.ConcentratedLiquidityKeeper.CreateFullRangePositionLocked(c, e.clPools[dn], e.addrs[owner], coins, time.Duration(dur))
					}
					if err != nil {
						return err
					}
					l, lerr := k.GetLockByID(c, id)
					if lerr != nil {
						return lerr
					}
					if len(l.Coins) != 1 { // liquidity below one share: a lock without coins; not a lock the property talks about
						return fmt.Errorf("no shares")
					}
					shares = l.Coins
					return nil
				})
				u := 0
				if unlocking {
					u = 1
				}
				if !ok {
					// the model is told the shares the CL module minted; none were
					line = fmt.Sprintf("lockup cllock %d %s %d %s:0 %d", now, owner, dur, dn, u)
					obs = "err"
					break
				}
				line = fmt.Sprintf("lockup cllock %d %s %d %s %d", now, owner, dur, e.coinsStr(shares), u)
				obs = fmt.Sprintf("ok %d", id)
				if shares[0].Denom != dn || id <= lastID {
					o.Fail("cllock:wrong-denom-or-id-reused", line)
				}
				if _, exists := e.shadow[id]; exists {
					o.Fail("cllock:existing-lock-reused", line)
				}
				sl := &shLock{id: id, owner: owner, dur: dur, denom: dn, amt: e.units(dn, shares[0].Amount, "cl-shares")}
				if unlocking {
					sl.end, sl.begin = now+dur, now
					e.noteTime(sl.end)
				}
				e.shadow[id] = sl
				o.Count("cllock." + map[bool]string{false: "locked", true: "unlocking"}[unlocking])
			case "lock": // MsgLockTokens
				dur := e.durs[r.Intn(len(e.durs))]
				if e.many && dn == e.focus && len(e.fill) > 0 {
					dur, e.fill = e.fill[0], e.fill[1:]
				}
				amt := int64(1 + r.Intn(300))
				if e.many {
					amt = int64(1 + r.Intn(40))
				}
				if r.Intn(15) == 0 {
					amt = int64(r.Intn(5000))
				}
				coins := sdk.Coins{e.coin(dn, amt)}
				switch r.Intn(40) {
				case 0:
					dur = 0
				case 1:
					coins = sdk.Coins{e.coin("bar", 1), e.coin("foo", 2)}
				case 2:
					coins = sdk.Coins{}
				case 3:
					dur = dur + int64(r.Intn(3)) - 1
				}
				e.noteDur(dur)
				line = fmt.Sprintf("lockup lock %d %s %d %s", now, owner, dur, e.coinsStr(coins))
				msg := &lockuptypes.MsgLockTokens{Owner: e.addrs[owner].String(), Duration: time.Duration(dur), Coins: coins}
				var resp *lockuptypes.MsgLockTokensResponse
				ok := msg.ValidateBasic() == nil && e.runTx(func(c sdk.Context) (err error) { resp, err = ms.LockTokens(c, msg); return err })
				if !ok {
					obs = "err"
					break
				}
				obs = fmt.Sprintf("ok %d", resp.ID)
				// meaning: add to THE existing not-unlocking lock of this owner/denom/duration, else a new lock
				match := e.sel(func(l *shLock) bool { return l.owner == owner && l.denom == dn && l.dur == dur && l.end == 0 })
				if l, exists := e.shadow[resp.ID]; exists {
					if !(l.owner == owner && l.denom == dn && l.dur == dur && l.end == 0) {
						o.Fail("lock:added-to-non-matching-lock", line)
					}
					l.amt += amt
					o.Count("lock.add")
				} else {
					if len(match) > 0 {
						o.Fail("lock:new-lock-although-matching-lock-exists", line)
					}
					if resp.ID <= lastID {
						o.Fail("lock:id-reused", line)
					}
					e.shadow[resp.ID] = &shLock{id: resp.ID, owner: owner, dur: dur, denom: dn, amt: amt}
					o.Count("lock.create")
				}
			case "addtolock": // keeper AddTokensToLockByID (same denom: its callers' contract)
				l := e.randLock(func(l *shLock) bool { return true })
				id := uint64(r.Intn(int(lastID) + 2))
				ldn := dn
				own := owner
				if l != nil && r.Intn(8) != 0 {
					id, ldn, own = l.id, l.denom, l.owner
					if r.Intn(8) == 0 {
						own = owner
					}
				} else if sl, ok := e.shadow[id]; ok {
					ldn = sl.denom
				}
				amt := int64(1 + r.Intn(200))
				line = fmt.Sprintf("lockup addtolock %d %d %s %s %s", now, id, own, ldn, e.real(ldn, amt))
				ok := e.runTx(func(c sdk.Context) error {
					_, err := k.AddTokensToLockByID(c, id, e.addrs[own], e.coin(ldn, amt))
					return err
				})
				if !ok {
					obs = "err"
					break
				}
				obs = "ok"
				f6Adds++
				if sl, ok := e.shadow[id]; ok {
					sl.amt += amt
					if sl.end != 0 {
						o.Count("addtolock.unlocking")
					}
				} else {
					o.Fail("addtolock:unknown-lock-accepted", line)
				}
			case "extend": // MsgExtendLockup
				l := e.randLock(func(l *shLock) bool { return r.Intn(6) == 0 || l.end == 0 })
				id := uint64(r.Intn(int(lastID) + 2))
				own := owner
				dur := e.durs[r.Intn(len(e.durs))]
				if l != nil {
					id = l.id
					if r.Intn(10) != 0 {
						own = l.owner
					}
					switch r.Intn(6) {
					case 0:
						dur = l.dur + 1
					case 1:
						dur = l.dur
					case 2:
						dur = l.dur - 1
					}
				}
				if r.Intn(30) == 0 {
					dur = 0
				}
				e.noteDur(dur)
				line = fmt.Sprintf("lockup extend %d %s %d %d", now, own, id, dur)
				msg := &lockuptypes.MsgExtendLockup{Owner: e.addrs[own].String(), ID: id, Duration: time.Duration(dur)}
				ok := msg.ValidateBasic() == nil && e.runTx(func(c sdk.Context) error { _, err := ms.ExtendLockup(c, msg); return err })
				if !ok {
					obs = "err"
					break
				}
				obs = "ok"
				if sl, ok := e.shadow[id]; ok {
					if sl.end != 0 {
						o.Fail("extend:unlocking-lock-extended", line)
					}
					if dur <= sl.dur {
						o.Fail("extend:not-longer", line)
					}
					sl.dur = dur
				} else {
					o.Fail("extend:unknown-lock-accepted", line)
				}
			case "beginunlock": // MsgBeginUnlocking
				l := e.randLock(func(l *shLock) bool { return r.Intn(8) == 0 || l.end == 0 })
				if tl := e.targetLock(func(l *shLock) bool { return l.end == 0 }); tl != nil && r.Intn(10) < 8 {
					l = tl
				}
				id := uint64(r.Intn(int(lastID) + 2))
				own := owner
				coins := sdk.Coins{}
				if l != nil {
					id = l.id
					if r.Intn(12) != 0 {
						own = l.owner
					}
					switch r.Intn(10) {
					case 0, 1, 2:
					case 3:
						coins = sdk.Coins{e.coin(l.denom, l.amt)}
					case 4:
						coins = sdk.Coins{e.coin(l.denom, l.amt+1)}
						if r.Intn(2) == 0 { // real amount + 1 (the same request when K = 1)
							coins = sdk.Coins{e.coin(l.denom, l.amt).AddAmount(osmomath.OneInt())}
						}
					case 5:
						coins = sdk.Coins{e.coin(dn, 1)}
					default:
						if l.amt > 1 {
							coins = sdk.Coins{e.coin(l.denom, 1+r.Int63n(l.amt-1))}
						}
					}
				}
				if r.Intn(40) == 0 {
					coins = sdk.Coins{e.coin(dn, 0)}
				}
				line = fmt.Sprintf("lockup beginunlock %d %s %d %s", now, own, id, e.coinsStr(coins))
				msg := &lockuptypes.MsgBeginUnlocking{Owner: e.addrs[own].String(), ID: id, Coins: coins}
				var resp *lockuptypes.MsgBeginUnlockingResponse
				ok := msg.ValidateBasic() == nil && e.runTx(func(c sdk.Context) (err error) { resp, err = ms.BeginUnlocking(c, msg); return err })
				if !ok {
					obs = "err"
					break
				}
				obs = fmt.Sprintf("ok %d", resp.UnlockingLockID)
				sl, exists := e.shadow[id]
				if !exists || sl.owner != own || sl.end != 0 {
					o.Fail("beginunlock:accepted-for-wrong-lock", line)
					break
				}
				if len(coins) == 0 || (coins[0].Denom == sl.denom && coins[0].Amount.Equal(e.real(sl.denom, sl.amt))) {
					if resp.UnlockingLockID != id {
						o.Fail("beginunlock:full-unlock-changed-id", line)
					}
					sl.end, sl.begin = now+sl.dur, now
					o.Count("beginunlock.full")
				} else {
					x := e.units(coins[0].Denom, coins[0].Amount, "request")
					if coins[0].Denom != sl.denom || x <= 0 || x > sl.amt || resp.UnlockingLockID <= lastID {
						o.Fail("beginunlock:bad-partial-accepted", line)
						break
					}
					sl.amt -= x
					e.shadow[resp.UnlockingLockID] = &shLock{id: resp.UnlockingLockID, owner: sl.owner, dur: sl.dur, end: now + sl.dur, begin: now, denom: sl.denom, amt: x, recv: sl.recv}
					e.splitIn[bucket{sl.denom, sl.dur}] = true
					o.Count("beginunlock.split")
				}
				e.noteTime(now + sl.dur)
			case "beginunlockall": // MsgBeginUnlockingAll
				line = fmt.Sprintf("lockup beginunlockall %d %s", now, owner)
				msg := &lockuptypes.MsgBeginUnlockingAll{Owner: e.addrs[owner].String()}
				ok := msg.ValidateBasic() == nil && e.runTx(func(c sdk.Context) error { _, err := ms.BeginUnlockingAll(c, msg); return err })
				if !ok {
					obs = "err"
					break
				}
				obs = "ok"
				for _, sl := range e.shadow {
					if sl.owner == owner && sl.end == 0 {
						sl.end, sl.begin = now+sl.dur, now
						e.noteTime(sl.end)
					}
				}
			case "unlock": // UnlockMaturedLock
				l := e.randLock(func(l *shLock) bool { return r.Intn(8) == 0 || l.end != 0 })
				if tl := e.targetLock(func(l *shLock) bool { return l.end != 0 && (l.end <= now || r.Intn(4) == 0) }); tl != nil && r.Intn(10) < 8 {
					l = tl
				}
				id := uint64(r.Intn(int(lastID) + 2))
				if l != nil {
					id = l.id
				}
				line = fmt.Sprintf("lockup unlock %d %d", now, id)
				ok := e.runTx(func(c sdk.Context) error { return k.UnlockMaturedLock(c, id) })
				if !ok {
					obs = "err"
					break
				}
				obs = "ok"
				if sl, ok := e.shadow[id]; ok {
					released = append(released, sl)
					delete(e.shadow, id)
				} else {
					o.Fail("unlock:unknown-lock-accepted", line)
				}
			case "withdraw": // WithdrawMaturedLocks (EndBlocker)
				num := []int{0, 1, 2, 1000}[r.Intn(4)]
				line = fmt.Sprintf("lockup withdraw %d %d", now, num)
				ok := e.runTx(func(c sdk.Context) error { k.WithdrawMaturedLocks(c, num); return nil })
				if !ok {
					obs = "err"
					break
				}
				obs = "ok"
				// meaning: the matured locks, earliest end time first, at most num of them
				var mat []*shLock
				for _, sl := range e.shadow {
					if sl.end != 0 && sl.end <= now {
						mat = append(mat, sl)
					}
				}
				sort.Slice(mat, func(i, j int) bool {
					if mat[i].end != mat[j].end {
						return mat[i].end < mat[j].end
					}
					return mat[i].id < mat[j].id
				})
				if num > 0 && len(mat) > num {
					mat = mat[:num]
				}
				want := map[uint64]bool{}
				for _, sl := range mat {
					want[sl.id] = true
				}
				for id, sl := range e.shadow {
					_, err := k.GetLockByID(h.Ctx, id)
					gone := err != nil
					if gone {
						released = append(released, sl)
						delete(e.shadow, id)
					}
					if gone != want[id] {
						o.Fail("withdraw:released-set-differs", fmt.Sprintf("%s lock %d gone=%v expected=%v", line, id, gone, want[id]))
					}
				}
				o.Count(fmt.Sprintf("withdraw.released.%d", min(len(released), 3)))
			case "setreceiver": // MsgSetRewardReceiverAddress
				l := e.randLock(func(l *shLock) bool { return true })
				id := uint64(r.Intn(int(lastID) + 2))
				own := owner
				if l != nil {
					id = l.id
					if r.Intn(8) != 0 {
						own = l.owner
					}
				}
				recv := []string{"A", "B", "C", "X"}[r.Intn(4)]
				line = fmt.Sprintf("lockup setreceiver %d %s %d %s", now, own, id, recv)
				msg := &lockuptypes.MsgSetRewardReceiverAddress{Owner: e.addrs[own].String(), LockID: id, RewardReceiver: e.addrs[recv].String()}
				ok := msg.ValidateBasic() == nil && e.runTx(func(c sdk.Context) error { _, err := ms.SetRewardReceiverAddress(c, msg); return err })
				if !ok {
					obs = "err"
					break
				}
				obs = "ok"
				if sl, ok := e.shadow[id]; ok && sl.owner == own {
					sl.recv = recv
					if recv == sl.owner {
						sl.recv = ""
					}
				} else {
					o.Fail("setreceiver:accepted-for-wrong-lock", line)
				}
			default: // MsgForceUnlock
				l := e.randLock(func(l *shLock) bool { return e.allowed == "-" || r.Intn(5) == 0 || l.owner == e.allowed })
				id := uint64(r.Intn(int(lastID) + 2))
				own := owner
				coins := sdk.Coins{}
				if l != nil {
					id = l.id
					if r.Intn(10) != 0 {
						own = l.owner
					}
					switch r.Intn(6) {
					case 0, 1:
					case 2:
						coins = sdk.Coins{e.coin(l.denom, l.amt)}
					case 3:
						coins = sdk.Coins{e.coin(l.denom, l.amt+1)}
					default:
						if l.amt > 1 {
							coins = sdk.Coins{e.coin(l.denom, 1+r.Int63n(l.amt-1))}
						}
					}
				}
				line = fmt.Sprintf("lockup forceunlock %d %s %d %s", now, own, id, e.coinsStr(coins))
				msg := &lockuptypes.MsgForceUnlock{Owner: e.addrs[own].String(), ID: id, Coins: coins}
				ok := msg.ValidateBasic() == nil && e.runTx(func(c sdk.Context) error { _, err := ms.ForceUnlock(c, msg); return err })
				if !ok {
					obs = "err"
					break
				}
				obs = "ok"
				forced = true
				sl, exists := e.shadow[id]
				if !exists || sl.owner != own || own != e.allowed {
					o.Fail("forceunlock:accepted-without-authority", line)
					break
				}
				if len(coins) == 0 || coins[0].Amount.Equal(e.real(sl.denom, sl.amt)) {
					released = append(released, sl)
					delete(e.shadow, id)
					o.Count("forceunlock.full")
				} else {
					x := e.units(coins[0].Denom, coins[0].Amount, "request")
					sl.amt -= x
					released = append(released, &shLock{id: 0, owner: sl.owner, denom: sl.denom, amt: x, end: sl.end, dur: sl.dur})
					o.Count("forceunlock.partial")
				}
			}
			e.lastOp = opk
			o.Emit(line, obs, true)
			e.hist = append(e.hist, line+" => "+obs)
			o.Count("op." + opk + "." + strings.Fields(obs)[0])
			e.countNames(opk, line, obs)
			// input distribution: buckets (leaves of a denomination's accumulation tree) that this transaction emptied, and
			// whether that tree has inner levels (more distinct durations than the fan-out ever used for the denomination)
			for _, l := range e.shadow {
				if e.denomDurs[l.denom] == nil {
					e.denomDurs[l.denom] = map[int64]bool{}
				}
				e.denomDurs[l.denom][l.dur] = true
			}
			if obs != "err" {
				after := e.buckets()
				for b, c := range bucketsBefore {
					if c > 0 && after[b] == 0 {
						cls := "ordinary-denom"
						if e.isShare(b.denom) {
							cls = "cl-share-denom"
						} else if e.dclass[b.denom] != "" {
							cls = "related-name"
						}
						o.Count("bucket-emptied.by-" + opk + "." + cls)
						if len(e.denomDurs[b.denom]) > 10 {
							o.Count("bucket-emptied.tree-has-inner-levels." + cls)
						}
						if c > 1 {
							o.Count("bucket-emptied.several-locks-at-once")
						}
						if e.splitIn[b] {
							o.Count("bucket-emptied.unlocked-in-parts")
							delete(e.splitIn, b)
						}
					}
				}
			}
			if nl := k.GetLastLockID(h.Ctx); nl > lastID {
				lastID = nl
			}
			// --- safety of releases: only matured, only to the owner, exactly the lock's coins
			if len(released) > 0 {
				exp := map[string]int64{}
				for _, sl := range released {
					if !isCLDenom(sl.denom) { // CL shares are burned, nobody receives them
						exp[sl.owner+"/"+sl.denom] += sl.amt
					} else {
						o.Count("released.cl-shares-burned.by-" + opk)
						if !e.isShare(sl.denom) { // a HELD coin with the CL share prefix (+names): gone from the owner's funds
							e.burned[sl.owner][sl.denom] += sl.amt
						}
					}
					o.Count("released." + e.classOf(sl.denom) + ".by-" + opk)
					if !forced && (sl.end == 0 || now < sl.end || sl.end != sl.begin+sl.dur) {
						o.Fail("early-unlock:"+opk, fmt.Sprintf("%s released lock %d at %d, unlock start %d + duration %d", line, sl.id, now, sl.begin, sl.dur))
					}
				}
				for _, nm := range e.names {
					for _, d := range e.denoms {
						if got := e.bal(nm, d) - before[nm+"/"+d]; got != exp[nm+"/"+d] {
							o.Fail("wrong-recipient:"+opk, fmt.Sprintf("%s: %s %s balance moved by %d, released locks give %d", line, nm, d, got, exp[nm+"/"+d]))
							if got < exp[nm+"/"+d] {
								o.Fail("release:coins-not-returned-to-owner:"+e.classOf(d), fmt.Sprintf("%s: the released locks of %s hold %s %s, the balance moved by %s%s", line, nm, e.real(d, exp[nm+"/"+d]), d, e.real(d, got), e.histStr()))
							} else if isCLDenom(d) {
								o.Fail("release:cl-share-paid-out:"+e.classOf(d), fmt.Sprintf("%s: %s received %s %s%s", line, nm, e.real(d, got), d, e.histStr()))
							}
						}
					}
				}
			} else if obs != "err" && opk != "lock" && opk != "addtolock" {
				for _, nm := range e.names {
					for _, d := range e.denoms {
						if got := e.bal(nm, d) - before[nm+"/"+d]; got != 0 {
							o.Fail("wrong-recipient:"+opk, fmt.Sprintf("%s: %s %s balance moved by %d without a release", line, nm, d, got))
						}
					}
				}
			}
			if obs == "err" {
				for key, v := range before {
					p := strings.SplitN(key, "/", 2)
					if e.bal(p[0], p[1]) != v {
						o.Fail("failed-op-moved-coins:"+opk, line)
					}
				}
			}
			e.oracle(opk)
			// F6 observation (not part of C06): accumulation store of denom ""
			if opk == "addtolock" && obs == "ok" {
				v := e.accumStr("", 0)
				o.Emit("lockup accumempty 0", v, true)
				if v != "panic" && v != "ok 0" {
					f6Seen++
				}
			}
			e.observe(3)
			if step%9 == 8 || step == hist-1 || done == n {
				e.dump()
			}
		}
		// oracle-only tail over the keeper API other modules use (synthetic locks, slashing, keeper force unlock, rebuilds)
		if r.Intn(100) < 60 {
			e.keeperTail(6+r.Intn(10), &lastID, ms)
		}
	}
	o.Close(map[string]any{"f6_addtolock_ok": f6Adds, "f6_empty_denom_accumulation_positive_after": f6Seen})
}
