package app_test

// Minimal histories against the REAL incentives + lockup keepers that exhibit the C09 known findings F19 (receiver) and
// F21 (spam rule), and the history of the former finding F20 (finish; repaired by repository fix 21bb9c1bc7: the gauge now
// stays active, pays when a lock appears, and the top-up of the finished gauge is rejected).  Not part of ./check; run with
//   VERIF_WITNESS=1 .bin/app.test -test.run TestC09Witness -test.v
// Each sub-history prints what the chain did next to what the property promises.

import (
	"os"
	"testing"
	"time"

	sdk "github.com/cosmos/cosmos-sdk/types"

	"github.com/osmosis-labs/osmosis/osmomath"
	appparams "github.com/osmosis-labs/osmosis/v31/app/params"
	incentivestypes "github.com/osmosis-labs/osmosis/v31/x/incentives/types"
	lockupkeeper "github.com/osmosis-labs/osmosis/v31/x/lockup/keeper"
	lockuptypes "github.com/osmosis-labs/osmosis/v31/x/lockup/types"
)

func TestC09Witness(t *testing.T) {
	if os.Getenv("VERIF_WITNESS") == "" {
		t.Skip("VERIF_WITNESS not set")
	}
	base := appparams.BaseCoinUnit
	h := newH(t)
	a := sdk.AccAddress([]byte("c09_witness_owner__a"))
	b := sdk.AccAddress([]byte("c09_witness_recv___b"))
	creator := sdk.AccAddress([]byte("c09_witness_creator_"))
	coin := func(d string, x int64) sdk.Coin { return sdk.NewCoin(d, osmomath.NewInt(x)) }
	setup := func() (sdk.Context, string) {
		h.Reset()
		h.Ctx = h.Ctx.WithBlockTime(time.Unix(1_700_000_000, 0).UTC())
		h.App.IncentivesKeeper.SetParam(h.Ctx, incentivestypes.KeyMinValueForDistr, coin(base, 1))
		h.FundAcc(a, sdk.NewCoins(coin(base, 1)))
		h.FundAcc(b, sdk.NewCoins(coin(base, 1), coin("lpa", 1))) // the lock denom exists
		return h.Ctx, h.App.IncentivesKeeper.GetParams(h.Ctx).DistrEpochIdentifier
	}
	lock := func(owner sdk.AccAddress, amt int64, d time.Duration) uint64 {
		h.FundAcc(owner, sdk.NewCoins(coin("lpa", amt)))
		r, err := lockupkeeper.NewMsgServerImpl(h.App.LockupKeeper).LockTokens(h.Ctx, lockuptypes.NewMsgLockTokens(owner, d, sdk.NewCoins(coin("lpa", amt))))
		if err != nil {
			t.Fatal(err)
		}
		return r.ID
	}
	gauge := func(perp bool, amt int64, n uint64) uint64 {
		c := sdk.NewCoins(coin(base, amt))
		h.FundAcc(creator, c)
		id, err := h.App.IncentivesKeeper.CreateGauge(h.Ctx, perp, creator, c, lockuptypes.QueryCondition{LockQueryType: lockuptypes.ByDuration, Denom: "lpa", Duration: time.Hour}, h.Ctx.BlockTime(), n, 0)
		if err != nil {
			t.Fatal(err)
		}
		return id
	}
	epoch := func(ident string) {
		h.Ctx = h.Ctx.WithBlockTime(h.Ctx.BlockTime().Add(time.Hour))
		if err := h.App.IncentivesKeeper.AfterEpochEnd(h.Ctx, ident, 1); err != nil {
			t.Fatal(err)
		}
	}
	status := func(id uint64) string {
		for _, g := range h.App.IncentivesKeeper.GetFinishedGauges(h.Ctx) {
			if g.Id == id {
				return "finished"
			}
		}
		for _, g := range h.App.IncentivesKeeper.GetActiveGauges(h.Ctx) {
			if g.Id == id {
				return "active"
			}
		}
		return "upcoming"
	}

	// F-C09-receiver
	{
		_, ident := setup()
		lock(a, 100, time.Hour) // lock 1: receiver = owner
		l2 := lock(a, 100, 3*time.Hour)
		if _, err := lockupkeeper.NewMsgServerImpl(h.App.LockupKeeper).SetRewardReceiverAddress(h.Ctx, lockuptypes.NewMsgSetRewardReceiverAddress(a, b, l2)); err != nil {
			t.Fatal(err)
		}
		gauge(true, 1000, 1)
		ba, bb := h.App.BankKeeper.GetBalance(h.Ctx, a, base).Amount, h.App.BankKeeper.GetBalance(h.Ctx, b, base).Amount
		epoch(ident)
		t.Logf("F-C09-receiver: owner A got %s, lock 2's receiver B got %s (property: 500 / 500)",
			h.App.BankKeeper.GetBalance(h.Ctx, a, base).Amount.Sub(ba), h.App.BankKeeper.GetBalance(h.Ctx, b, base).Amount.Sub(bb))
	}
	// F-C09-finish
	{
		_, ident := setup()
		id := gauge(false, 1000, 1)
		epoch(ident) // no lock at all
		g, _ := h.App.IncentivesKeeper.GetGaugeByID(h.Ctx, id)
		t.Logf("F-C09-finish: 1-epoch gauge, first epoch without a qualifying lock: store=%s filled=%d/%d distributed=%s of %s",
			status(id), g.FilledEpochs, g.NumEpochsPaidOver, g.DistributedCoins, g.Coins)
		lock(a, 100, time.Hour)
		ba := h.App.BankKeeper.GetBalance(h.Ctx, a, base).Amount
		epoch(ident)
		t.Logf("F-C09-finish: next epoch WITH a lock pays %s (before 21bb9c1bc7: 0, the 1000 stayed in the module account); top-up of the now finished gauge: %v",
			h.App.BankKeeper.GetBalance(h.Ctx, a, base).Amount.Sub(ba), func() error {
				c := sdk.NewCoins(coin(base, 5))
				h.FundAcc(creator, c)
				return h.App.IncentivesKeeper.AddToGaugeRewards(h.Ctx, creator, c, id)
			}())
	}
	// F-C09-spam
	{
		_, ident := setup()
		lock(a, 100, time.Hour)
		id := gauge(false, 100, 2)
		ba := h.App.BankKeeper.GetBalance(h.Ctx, a, base).Amount
		epoch(ident)
		g, _ := h.App.IncentivesKeeper.GetGaugeByID(h.Ctx, id)
		t.Logf("F-C09-spam: minimum 1%s, gauge 100%s over 2 epochs, one lock: paid %s (property: 50), filled=%d", base, base,
			h.App.BankKeeper.GetBalance(h.Ctx, a, base).Amount.Sub(ba), g.FilledEpochs)
	}
}
