package app_test

// High-precision references (700-bit big.Float) for 2^x, log2 x and x^y,
// independent of osmomath: plain Taylor / atanh series.

import "math/big"

const refPrec = 700

func bf(x float64) *big.Float { return new(big.Float).SetPrec(refPrec).SetFloat64(x) }
func bfInt(i *big.Int) *big.Float {
	return new(big.Float).SetPrec(refPrec).SetInt(i)
}
func bfRat(n, d *big.Int) *big.Float {
	return new(big.Float).SetPrec(refPrec).Quo(bfInt(n), bfInt(d))
}

var refEps = func() *big.Float {
	e := bf(1)
	return e.SetMantExp(e, -(refPrec - 20))
}()

// lnRef: natural log of x > 0. x = m·2^e, m in [0.5,1) -> use m' in [1,2): ln m' = 2 atanh((m'-1)/(m'+1)).
func lnRef(x *big.Float) *big.Float {
	m := new(big.Float).SetPrec(refPrec)
	e := x.MantExp(m) // x = m * 2^e, 0.5 <= m < 1
	m.Mul(m, bf(2))
	e--
	z := new(big.Float).SetPrec(refPrec).Quo(new(big.Float).SetPrec(refPrec).Sub(m, bf(1)), new(big.Float).SetPrec(refPrec).Add(m, bf(1)))
	z2 := new(big.Float).SetPrec(refPrec).Mul(z, z)
	sum := new(big.Float).SetPrec(refPrec)
	term := new(big.Float).SetPrec(refPrec).Set(z)
	for k := int64(1); ; k += 2 {
		t := new(big.Float).SetPrec(refPrec).Quo(term, bf(float64(k)))
		sum.Add(sum, t)
		term.Mul(term, z2)
		if new(big.Float).Abs(t).Cmp(refEps) < 0 {
			break
		}
	}
	sum.Mul(sum, bf(2))
	// + e ln2
	if e != 0 {
		sum.Add(sum, new(big.Float).SetPrec(refPrec).Mul(bf(float64(e)), ln2Ref()))
	}
	return sum
}

var ln2Cache *big.Float

func ln2Ref() *big.Float {
	if ln2Cache == nil {
		// ln 2 = 2 atanh(1/3)
		z := new(big.Float).SetPrec(refPrec).Quo(bf(1), bf(3))
		z2 := new(big.Float).SetPrec(refPrec).Mul(z, z)
		sum := new(big.Float).SetPrec(refPrec)
		term := new(big.Float).SetPrec(refPrec).Set(z)
		for k := int64(1); ; k += 2 {
			t := new(big.Float).SetPrec(refPrec).Quo(term, bf(float64(k)))
			sum.Add(sum, t)
			term.Mul(term, z2)
			if t.Cmp(refEps) < 0 {
				break
			}
		}
		ln2Cache = sum.Mul(sum, bf(2))
	}
	return ln2Cache
}

// expRef: e^x for moderate |x| (argument reduced by halving).
func expRef(x *big.Float) *big.Float {
	// reduce: x / 2^k with |x/2^k| < 2^-8
	k := 0
	y := new(big.Float).SetPrec(refPrec).Set(x)
	lim := bf(1.0 / 256)
	for new(big.Float).Abs(y).Cmp(lim) > 0 {
		y.Quo(y, bf(2))
		k++
	}
	sum := bf(1)
	term := bf(1)
	for i := int64(1); ; i++ {
		term.Mul(term, y)
		term.Quo(term, bf(float64(i)))
		sum.Add(sum, term)
		if new(big.Float).Abs(term).Cmp(refEps) < 0 {
			break
		}
	}
	for ; k > 0; k-- {
		sum.Mul(sum, sum)
	}
	return sum
}

func log2Ref(x *big.Float) *big.Float {
	return new(big.Float).SetPrec(refPrec).Quo(lnRef(x), ln2Ref())
}

// exp2Ref: 2^x.
func exp2Ref(x *big.Float) *big.Float {
	return expRef(new(big.Float).SetPrec(refPrec).Mul(x, ln2Ref()))
}

// powRef: b^e, b > 0.
func powRef(b, e *big.Float) *big.Float {
	return expRef(new(big.Float).SetPrec(refPrec).Mul(e, lnRef(b)))
}
