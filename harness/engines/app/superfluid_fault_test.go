package app_test

// Fault injection for the `superfluid` engine (property C11): histories and probes in which an INNER step of
// superfluid's all-or-nothing branches (stake.go mintOsmoTokensAndDelegate / forceUndelegateAndBurnOsmoTokens, each
// wrapped in osmoutils.ApplyFuncIfNoError) fails while the OUTER transaction survives, because the caller swallows
// the error: the lockup AfterAddTokensToLock hook (top-up of a delegated lock) and the epoch refresh.
//
// Faults reached through the REAL keepers (no store is written by hand):
//   invalid-exrate   a validator driven to zero tokens with outstanding shares by StakingKeeper.Slash (fraction 1, power
//                    above the validator's): staking Delegate fails with ErrDelegatorShareExRateInvalid AFTER the
//                    superfluid code has validated the validator, minted, offset and sent the coins.  The slash
//                    empties every lock marked for that validator; the engine's composite op `slashrefill` tops them
//                    all up again (the hook's mint fails and is swallowed), so that delegated locks with a positive
//                    amount sit on a validator without tokens — the state the model can follow;
//   power-overflow   a top-up / refresh whose mint would take the validator's tokens to 2^63 power units: the LAST
//                    inner step (staking's SetValidatorByPowerIndex inside Delegate) panics, ApplyFuncIfNoError
//                    recovers, everything written before it in the branch has to be rolled back;
//   no-validator     the account's validator address is no validator (rejected before the branch).
// Faults that no message can produce are injected on DISCARDED cache contexts only (probes; the model is not involved):
//   pool-drained     the bonded pool's coins are moved to the not-bonded pool, so that InstantUndelegate fails AFTER
//                    Unbond has removed the shares — the burn branch fails midway;
//   a real 100 % slash on the discarded branch followed by top-ups / refreshes of the emptied locks.
//
// Oracles (independent of the model): snapshots of everything a branch may write — bank supply, supply offset,
// reported supply, balances of the superfluid module account / the intermediary accounts / the two staking pools,
// every validator's tokens and shares, every intermediary account's delegation shares, markers, connections —
// taken by the engine right before the call; a FAILED branch has to leave all of them alone
// (`atomicity:failed-branch-left-trace:<what>:<caller>`), a successful one moves supply, validator tokens and pool
// balance by the same amount and the offset by its negative (`atomicity:successful-branch:<what>:<caller>`).

import (
	"fmt"
	"math"
	"math/big"
	"sort"
	"strings"

	sdk "github.com/cosmos/cosmos-sdk/types"
	stakingtypes "github.com/cosmos/cosmos-sdk/x/staking/types"

	"github.com/osmosis-labs/osmosis/osmomath"
	minttypes "github.com/osmosis-labs/osmosis/v31/x/mint/types"
	sftypes "github.com/osmosis-labs/osmosis/v31/x/superfluid/types"
)

type sfSnap struct {
	sup, off, rep     *big.Int
	mod               *big.Int // x/superfluid module account, bond denom
	bonded, notBonded *big.Int
	accBal            map[string]string   // intermediary account -> all balances
	accSh             map[string]*big.Int // intermediary account -> delegation shares (nil = no record)
	valTok, valSh     []*big.Int
	markers, conns    string
}

func (e *sfEngine) snap(ctx sdk.Context) sfSnap {
	app := e.h.App
	bk := app.BankKeeper
	s := sfSnap{accBal: map[string]string{}, accSh: map[string]*big.Int{}}
	s.sup = bk.GetSupply(ctx, e.bond).Amount.BigInt()
	s.off = bk.GetSupplyOffset(ctx, e.bond).BigInt()
	s.rep = bk.GetSupplyWithOffset(ctx, e.bond).Amount.BigInt()
	s.mod = bk.GetBalance(ctx, app.AccountKeeper.GetModuleAddress(sftypes.ModuleName), e.bond).Amount.BigInt()
	s.bonded = bk.GetBalance(ctx, app.AccountKeeper.GetModuleAddress(stakingtypes.BondedPoolName), e.bond).Amount.BigInt()
	s.notBonded = bk.GetBalance(ctx, app.AccountKeeper.GetModuleAddress(stakingtypes.NotBondedPoolName), e.bond).Amount.BigInt()
	for i := 0; i < len(e.vals)-1; i++ {
		val, err := app.StakingKeeper.GetValidator(ctx, e.vals[i])
		if err != nil {
			s.valTok, s.valSh = append(s.valTok, big.NewInt(-1)), append(s.valSh, big.NewInt(-1))
			continue
		}
		s.valTok, s.valSh = append(s.valTok, val.Tokens.BigInt()), append(s.valSh, val.DelegatorShares.BigInt())
	}
	for _, a := range app.SuperfluidKeeper.GetAllIntermediaryAccounts(ctx) {
		key := fmt.Sprintf("%d.%d", e.denomIdx(a.Denom), e.valIdx(a.ValAddr))
		s.accBal[key] = bk.GetAllBalances(ctx, a.GetAccAddress()).String()
		s.accSh[key] = nil
		if va, err := sdk.ValAddressFromBech32(a.ValAddr); err == nil {
			if del, err := app.StakingKeeper.GetDelegation(ctx, a.GetAccAddress(), va); err == nil {
				s.accSh[key] = del.Shares.BigInt()
			}
		}
	}
	var ms, cs []string
	for _, sy := range app.LockupKeeper.GetAllSyntheticLockups(ctx) {
		ms = append(ms, fmt.Sprintf("%d:%s:%d:%d", sy.UnderlyingLockId, sy.SynthDenom, sy.EndTime.UnixNano(), sy.Duration))
	}
	sort.Strings(ms)
	for _, c := range app.SuperfluidKeeper.GetAllLockIdIntermediaryAccountConnections(ctx) {
		cs = append(cs, fmt.Sprintf("%d>%s", c.LockId, c.IntermediaryAccount))
	}
	sort.Strings(cs)
	s.markers, s.conns = strings.Join(ms, ","), strings.Join(cs, ",")
	return s
}

func shEq(a, b *big.Int) bool {
	if a == nil || b == nil {
		return a == nil && b == nil
	}
	return a.Cmp(b) == 0
}

// diff: the components in which two snapshots differ (names used in the oracle keys).
func (a sfSnap) diff(b sfSnap, withMarkers bool) []string {
	var out []string
	add := func(c bool, n string) {
		if c {
			out = append(out, n)
		}
	}
	add(a.sup.Cmp(b.sup) != 0, "supply")
	add(a.off.Cmp(b.off) != 0, "offset")
	add(a.rep.Cmp(b.rep) != 0, "reported")
	add(a.mod.Cmp(b.mod) != 0, "module-balance")
	add(a.bonded.Cmp(b.bonded) != 0 || a.notBonded.Cmp(b.notBonded) != 0, "pool-balance")
	bal, del := false, false
	for k, v := range a.accBal {
		if w, ok := b.accBal[k]; ok && w != v {
			bal = true
		}
	}
	for k, v := range a.accSh {
		if w, ok := b.accSh[k]; ok && !shEq(v, w) {
			del = true
		}
	}
	add(bal, "intermediary-balance")
	add(del, "delegation")
	vd := false
	for i := range a.valTok {
		if i < len(b.valTok) && (a.valTok[i].Cmp(b.valTok[i]) != 0 || a.valSh[i].Cmp(b.valSh[i]) != 0) {
			vd = true
		}
	}
	add(vd, "validator")
	if withMarkers {
		add(a.markers != b.markers, "markers")
		add(a.conns != b.conns, "connections")
	}
	return out
}

func (a sfSnap) String() string {
	var sh []string
	for k, v := range a.accSh {
		sh = append(sh, fmt.Sprintf("%s=%v/%s", k, v, a.accBal[k]))
	}
	sort.Strings(sh)
	return fmt.Sprintf("sup=%s off=%s rep=%s mod=%s bonded=%s notbonded=%s val=%v/%v acc=%v", a.sup, a.off, a.rep, a.mod, a.bonded, a.notBonded, a.valTok, a.valSh, sh)
}

// tokDelta: sum over the validators of the change of their tokens.
func (a sfSnap) tokDelta(b sfSnap) *big.Int {
	d := new(big.Int)
	for i := range a.valTok {
		if i < len(b.valTok) {
			d.Add(d, new(big.Int).Sub(b.valTok[i], a.valTok[i]))
		}
	}
	return d
}

// mintBlocked: would a mint of `amount` to validator index v fail inside the branch / before it, judged from a snapshot
// (the engine's own prediction; shares no code with the model).
func (e *sfEngine) mintBlocked(s sfSnap, v int, amount *big.Int) string {
	if v < 0 || v >= len(s.valTok) || s.valTok[v].Sign() < 0 {
		return "no-validator"
	}
	if s.valTok[v].Sign() == 0 && s.valSh[v].Sign() > 0 {
		return "invalid-exrate"
	}
	if new(big.Int).Add(s.valTok[v], amount).Cmp(e.powLimit) >= 0 {
		return "power-overflow"
	}
	return ""
}

// noTrace: a branch that failed (or was never attempted) has to leave every component alone.
func (e *sfEngine) noTrace(kind, caller string, pre, post sfSnap, withMarkers bool, line string) bool {
	d := pre.diff(post, withMarkers)
	for _, w := range d {
		e.o.Fail("atomicity:"+kind+"-left-trace:"+w+":"+caller, fmt.Sprintf("before {%s} after {%s} | %s", pre, post, line))
	}
	return len(d) == 0
}

// moved: the law of a successful branch (and of any mixture of successful and failed ones): bank supply, the validators'
// tokens and the staking pools move by the same amount, the offset by its negative, nothing stays on the module account
// or on an intermediary account.
func (e *sfEngine) moved(kind, caller string, pre, post sfSnap, line string) {
	dSup := new(big.Int).Sub(post.sup, pre.sup)
	dOff := new(big.Int).Sub(post.off, pre.off)
	dTok := pre.tokDelta(post)
	dPool := new(big.Int).Sub(new(big.Int).Add(post.bonded, post.notBonded), new(big.Int).Add(pre.bonded, pre.notBonded))
	fail := func(w string) {
		e.o.Fail("atomicity:"+kind+":"+w+":"+caller, fmt.Sprintf("d(supply) %s d(offset) %s d(validator tokens) %s d(pools) %s; before {%s} after {%s} | %s", dSup, dOff, dTok, dPool, pre, post, line))
	}
	if new(big.Int).Add(dSup, dOff).Sign() != 0 {
		fail("offset")
	}
	if dSup.Cmp(dTok) != 0 {
		fail("supply")
	}
	if dPool.Cmp(dTok) != 0 {
		fail("pool-balance")
	}
	if pre.mod.Cmp(post.mod) != 0 {
		fail("module-balance")
	}
	for k, v := range pre.accBal {
		if w, ok := post.accBal[k]; ok && w != v {
			fail("intermediary-balance")
			break
		}
	}
}

// atomicityTopup: the top-up hook (AfterAddTokensToLock -> IncreaseSuperfluidDelegation) around one successful
// AddTokensToLockByID.  key = the account the lock is connected to ("" = none), mint = what the hook has to mint by
// the engine's reference (0 = nothing).
func (e *sfEngine) atomicityTopup(pre, post sfSnap, key string, mint *big.Int, line string) {
	const caller = "topup-hook"
	if key == "" || mint.Sign() == 0 {
		e.o.Count("atomic.topup.no-branch")
		e.noTrace("no-branch", caller, pre, post, true, line)
		return
	}
	var d, v int
	fmt.Sscanf(key, "%d.%d", &d, &v)
	blocked := e.mintBlocked(pre, v, mint)
	grew := !shEq(pre.accSh[key], post.accSh[key])
	switch {
	case !grew:
		if blocked == "" {
			blocked = "unpredicted"
		} else {
			e.blockedTopup[key] = blocked
		}
		e.o.Count("atomic.topup.failed-branch." + blocked)
		e.noTrace("failed-branch", caller, pre, post, true, line)
	case blocked != "":
		e.o.Fail("atomicity:blocked-mint-went-through:"+blocked+":"+caller, fmt.Sprintf("mint %s; before {%s} after {%s} | %s", mint, pre, post, line))
	default:
		e.o.Count("atomic.topup.minted")
		e.moved("successful-branch", caller, pre, post, line)
		if new(big.Int).Sub(post.sup, pre.sup).Cmp(mint) != 0 {
			e.o.Fail("atomicity:successful-branch:minted-amount:"+caller, fmt.Sprintf("minted %s, value of the added tokens %s | %s", new(big.Int).Sub(post.sup, pre.sup), mint, line))
		}
		if pre.markers != post.markers || pre.conns != post.conns {
			e.o.Fail("atomicity:successful-branch:markers:"+caller, line)
		}
	}
}

// atomicityRefresh: the epoch (multiplier update + RefreshIntermediaryDelegationAmounts, every error logged and
// ignored).  want = per account the expected delegation after the multiplier update (engine's reference), cur = what
// the refresh read for it (RoundInt of the delegation's worth before the epoch).
func (e *sfEngine) atomicityRefresh(pre, post sfSnap, want, cur map[string]*big.Int, line string) {
	const caller = "refresh"
	attempted, failed, changed := 0, 0, 0
	var keys []string
	for k := range want {
		keys = append(keys, k)
	}
	sort.Strings(keys)
	for _, k := range keys {
		var d, v int
		fmt.Sscanf(k, "%d.%d", &d, &v)
		c := want[k].Cmp(cur[k])
		grew := !shEq(pre.accSh[k], post.accSh[k])
		if grew {
			changed++
		}
		if c == 0 {
			continue
		}
		attempted++
		dir := "burn"
		if c > 0 {
			dir = "mint"
		}
		if grew {
			e.o.Count("atomic.refresh." + dir + ".done")
			if dir == "mint" {
				if b := e.mintBlocked(pre, v, new(big.Int).Sub(want[k], cur[k])); b == "invalid-exrate" || b == "no-validator" {
					e.o.Fail("atomicity:blocked-mint-went-through:"+b+":"+caller, fmt.Sprintf("%s expected %s current %s; before {%s} after {%s} | %s", k, want[k], cur[k], pre, post, line))
				}
			}
			continue
		}
		failed++
		why := "rejected"
		if dir == "mint" {
			if why = e.mintBlocked(pre, v, new(big.Int).Sub(want[k], cur[k])); why == "" {
				why = e.mintBlocked(post, v, new(big.Int).Sub(want[k], cur[k])) // an earlier account of the loop filled the validator
			}
			if why == "" {
				why = "unpredicted"
			} else {
				e.blockedTopup[k] = why
			}
		}
		e.o.Count("atomic.refresh.failed-branch." + dir + "." + why)
	}
	kind := "successful-branch"
	if failed > 0 {
		kind = "failed-branch"
	}
	if changed == 0 {
		if attempted == 0 {
			kind = "no-branch"
		}
		e.noTrace(kind, caller, pre, post, true, line)
		return
	}
	if kind == "failed-branch" {
		kind = "failed-branch-left-trace" // a mixture: whatever breaks the law of the successful branches is the failed ones' trace
	}
	e.moved(kind, caller, pre, post, line)
	if pre.markers != post.markers || pre.conns != post.conns {
		e.o.Fail("atomicity:"+kind+":markers:"+caller, line)
	}
}

// ---------------------------------------------------------------------------------------------- probes
// faultProbe: one fault on a DISCARDED cache context, the real calls on it, snapshots around every call that has to
// fail.  Nothing is written back, no op line is emitted: the model is not involved.
func (e *sfEngine) faultProbe(line string) {
	app := e.h.App
	sk := app.SuperfluidKeeper
	accs := sk.GetAllIntermediaryAccounts(e.ctx())
	if len(accs) == 0 {
		return
	}
	acc := accs[e.r.Intn(len(accs))]
	v := e.valIdx(acc.ValAddr)
	d := e.denomIdx(acc.Denom)
	if d < 0 || v < 0 {
		return
	}
	key := fmt.Sprintf("%d.%d", d, v)
	isVal := v < len(e.vals)-1
	cctx, _ := e.h.Ctx.CacheContext()
	// a connected lock of this account (for the callers that start from a lock)
	var lockID uint64
	var owner sdk.AccAddress
	for _, c := range sk.GetAllLockIdIntermediaryAccountConnections(cctx) {
		if c.IntermediaryAccount == acc.GetAccAddress().String() {
			if l, err := app.LockupKeeper.GetLockByID(cctx, c.LockId); err == nil && len(l.Coins) == 1 && !strings.HasPrefix(l.Coins[0].Denom, "cl/") {
				lockID, owner = c.LockId, l.OwnerAddress()
				break
			}
		}
	}
	mustFail := func(caller, fault string, withMarkers bool, call func() error) {
		pre := e.snap(cctx)
		var err error
		if !catch(func() { err = call() }) {
			e.o.Fail("atomicity:panic-escaped:"+fault+":"+caller, line)
			return
		}
		post := e.snap(cctx)
		if err == nil {
			e.o.Count("probe." + caller + "." + fault + ".succeeded")
			e.moved("successful-branch", "probe-"+caller, pre, post, line+" fault="+fault)
			return
		}
		e.o.Count("probe." + caller + "." + fault + ".failed")
		e.noTrace("failed-branch", "probe-"+caller+":"+fault, pre, post, withMarkers, line)
	}
	swallowed := func(caller, fault string, wantFail func(pre, post sfSnap) bool, call func()) {
		pre := e.snap(cctx)
		if !catch(call) {
			e.o.Fail("atomicity:panic-escaped:"+fault+":"+caller, line)
			return
		}
		post := e.snap(cctx)
		if wantFail(pre, post) {
			e.o.Count("probe." + caller + "." + fault + ".failed")
			e.noTrace("failed-branch", "probe-"+caller+":"+fault, pre, post, true, line)
		} else {
			e.o.Count("probe." + caller + "." + fault + ".done")
			e.moved("successful-branch", "probe-"+caller, pre, post, line+" fault="+fault)
		}
	}
	unchangedShares := func(pre, post sfSnap) bool { return shEq(pre.accSh[key], post.accSh[key]) }
	one := big.NewInt(1)
	kinds := []string{"mint-direct", "burn-direct", "zero-real", "overflow-real", "drained", "jailed"}
	switch kind := kinds[e.r.Intn(len(kinds))]; kind {
	case "mint-direct": // the branch itself with an amount / a validator it has to refuse
		s0 := e.snap(cctx)
		var amt *big.Int
		fault := ""
		switch e.r.Intn(4) {
		case 0:
			amt, fault = new(big.Int), "zero-amount"
		case 1:
			amt, fault = big.NewInt(-int64(1+e.r.Intn(1000))), "negative-amount"
		case 2:
			if !isVal {
				amt, fault = big.NewInt(int64(1+e.r.Intn(1000))), "no-validator"
			} else {
				amt, fault = new(big.Int).Sub(e.powLimit, s0.valTok[v]), "power-overflow"
				if e.r.Intn(2) == 0 {
					amt.Add(amt, new(big.Int).Rand(e.r, pow10(30)))
				}
			}
		default:
			if !isVal {
				return
			}
			amt, fault = new(big.Int).Sub(new(big.Int).Sub(e.powLimit, s0.valTok[v]), one), "at-power-limit"
			if s0.valTok[v].Sign() == 0 && s0.valSh[v].Sign() > 0 {
				fault = "invalid-exrate"
			}
		}
		mustFail("mint", fault, true, func() error {
			return sk.VerifMintOsmoTokensAndDelegate(cctx, osmomath.NewIntFromBigInt(amt), acc)
		})
	case "burn-direct":
		s0 := e.snap(cctx)
		stake := new(big.Int)
		if sh := s0.accSh[key]; sh != nil && isVal && s0.valSh[v].Sign() > 0 {
			stake.Quo(new(big.Int).Mul(sh, s0.valTok[v]), s0.valSh[v])
		}
		var amt *big.Int
		fault := ""
		switch e.r.Intn(3) {
		case 0:
			amt, fault = new(big.Int).Add(stake, big.NewInt(int64(2+e.r.Intn(1000)))), "more-than-delegated"
		case 1:
			amt, fault = new(big.Int), "zero-amount"
		default:
			amt, fault = big.NewInt(-int64(1+e.r.Intn(1000))), "negative-amount"
		}
		if s0.accSh[key] == nil {
			fault += ":no-delegation"
		}
		mustFail("burn", fault, true, func() error {
			return sk.VerifForceUndelegateAndBurnOsmoTokens(cctx, osmomath.NewIntFromBigInt(amt), acc)
		})
	case "zero-real": // the REAL 100 % slash on the discarded branch, then the error-swallowing callers
		if !isVal || lockID == 0 {
			return
		}
		val, err := app.StakingKeeper.GetValidator(cctx, e.vals[v])
		if err != nil || val.Tokens.IsZero() {
			return
		}
		cons, _ := val.GetConsAddr()
		power := val.Tokens.Quo(app.StakingKeeper.PowerReduction(cctx)).Int64()
		if power < math.MaxInt64 {
			power++
		}
		if !catch(func() { _, err = app.StakingKeeper.Slash(cctx, cons, cctx.BlockHeight(), power, osmomath.OneDec()) }) || err != nil {
			e.o.Count("probe.zero-real.slash-failed")
			return
		}
		if val, _ = app.StakingKeeper.GetValidator(cctx, e.vals[v]); !val.InvalidExRate() {
			e.o.Count("probe.zero-real.validator-still-valid")
			return
		}
		amt := e.randAmount()
		coin := sdk.NewCoin(acc.Denom, osmomath.NewIntFromBigInt(amt))
		if e.fundOn(cctx, owner, coin) != nil {
			return
		}
		swallowed("topup-hook", "invalid-exrate", func(pre, post sfSnap) bool { return true }, func() {
			if _, err := app.LockupKeeper.AddTokensToLockByID(cctx, lockID, owner, coin); err != nil {
				panic(err)
			}
		})
		mustFail("increase", "invalid-exrate", true, func() error {
			if err := sk.IncreaseSuperfluidDelegation(cctx, lockID, sdk.NewCoins(coin)); err != nil {
				return err
			}
			if e.osmoValue(e.mult(e.pools[d]), amt).Sign() == 0 {
				return fmt.Errorf("nothing to mint") // worth nothing: the call returns nil without reaching the branch
			}
			return nil
		})
		var mine []sftypes.SuperfluidIntermediaryAccount
		for _, a := range accs {
			if a.ValAddr == acc.ValAddr {
				mine = append(mine, a)
			}
		}
		swallowed("refresh", "invalid-exrate", func(pre, post sfSnap) bool { return true }, func() {
			sk.RefreshIntermediaryDelegationAmounts(cctx, mine)
		})
		mustFail("undelegate", "invalid-exrate", false, func() error {
			return sk.SuperfluidUndelegate(cctx, owner.String(), lockID)
		})
	case "overflow-real": // a top-up worth more than the validator can take, then a refresh that wants to mint it again
		if !isVal || lockID == 0 {
			return
		}
		s0 := e.snap(cctx)
		if s0.valTok[v].Sign() == 0 && s0.valSh[v].Sign() > 0 {
			return
		}
		amt := e.sharesWorth(d, new(big.Int).Sub(e.powLimit, s0.valTok[v]))
		if amt == nil {
			return
		}
		coin := sdk.NewCoin(acc.Denom, osmomath.NewIntFromBigInt(amt))
		if e.fundOn(cctx, owner, coin) != nil {
			return
		}
		swallowed("topup-hook", "power-overflow", func(pre, post sfSnap) bool { return true }, func() {
			if _, err := app.LockupKeeper.AddTokensToLockByID(cctx, lockID, owner, coin); err != nil {
				panic(err)
			}
		})
		swallowed("refresh", "power-overflow", unchangedShares, func() {
			sk.RefreshIntermediaryDelegationAmounts(cctx, []sftypes.SuperfluidIntermediaryAccount{acc})
		})
	case "jailed": // the REAL StakingKeeper.Jail on the discarded branch: staking keeps accepting delegations, outside the power index
		if !isVal {
			return
		}
		val, err := app.StakingKeeper.GetValidator(cctx, e.vals[v])
		if err != nil || val.Jailed {
			return
		}
		cons, _ := val.GetConsAddr()
		if !catch(func() { err = app.StakingKeeper.Jail(cctx, cons) }) || err != nil {
			e.o.Count("probe.jailed.jail-failed")
			return
		}
		catch(func() { _, _ = app.StakingKeeper.ApplyAndReturnValidatorSetUpdates(cctx) })
		mustFail("mint", "jailed", true, func() error {
			return sk.VerifMintOsmoTokensAndDelegate(cctx, osmomath.NewIntFromBigInt(e.randAmount()), acc)
		})
		s0 := e.snap(cctx)
		if sh := s0.accSh[key]; sh != nil && s0.valSh[v].Sign() > 0 {
			if stake := new(big.Int).Quo(new(big.Int).Mul(sh, s0.valTok[v]), s0.valSh[v]); stake.Sign() > 0 {
				mustFail("burn", "jailed", true, func() error {
					return sk.VerifForceUndelegateAndBurnOsmoTokens(cctx, osmomath.NewIntFromBigInt(new(big.Int).Add(new(big.Int).Rand(e.r, stake), one)), acc)
				})
			}
		}
		if lockID != 0 {
			// a jailed validator is not written to the power index: a top-up beyond 2^63 power units goes through
			amt := e.randAmount()
			if e.r.Intn(2) == 0 {
				if x := e.sharesWorth(d, new(big.Int).Sub(e.powLimit, s0.valTok[v])); x != nil {
					amt = x
				}
			}
			coin := sdk.NewCoin(acc.Denom, osmomath.NewIntFromBigInt(amt))
			if e.fundOn(cctx, owner, coin) == nil {
				swallowed("topup-hook", "jailed", unchangedShares, func() {
					if _, err := app.LockupKeeper.AddTokensToLockByID(cctx, lockID, owner, coin); err != nil {
						panic(err)
					}
				})
			}
		}
		swallowed("refresh", "jailed", unchangedShares, func() {
			sk.RefreshIntermediaryDelegationAmounts(cctx, []sftypes.SuperfluidIntermediaryAccount{acc})
		})
	case "drained": // (artificial) the bonded pool has no coins: InstantUndelegate fails after Unbond removed the shares
		if !isVal {
			return
		}
		s0 := e.snap(cctx)
		if s0.accSh[key] == nil || s0.bonded.Sign() == 0 || s0.valTok[v].Sign() == 0 {
			return
		}
		stake := new(big.Int).Quo(new(big.Int).Mul(s0.accSh[key], s0.valTok[v]), s0.valSh[v])
		if stake.Sign() == 0 {
			return
		}
		if err := app.BankKeeper.SendCoinsFromModuleToModule(cctx, stakingtypes.BondedPoolName, stakingtypes.NotBondedPoolName, sdk.NewCoins(sdk.NewCoin(e.bond, osmomath.NewIntFromBigInt(s0.bonded)))); err != nil {
			return
		}
		amt := new(big.Int).Add(new(big.Int).Rand(e.r, stake), one)
		mustFail("burn", "pool-drained", true, func() error {
			return sk.VerifForceUndelegateAndBurnOsmoTokens(cctx, osmomath.NewIntFromBigInt(amt), acc)
		})
		if lockID != 0 && e.r.Intn(2) == 0 {
			mustFail("undelegate", "pool-drained", false, func() error {
				return sk.SuperfluidUndelegate(cctx, owner.String(), lockID)
			})
			return
		}
		// the multiplier falls: the refresh has to burn, and cannot
		m := sk.GetOsmoEquivalentMultiplier(cctx, acc.Denom)
		ep := app.EpochsKeeper.GetEpochInfo(cctx, sk.GetEpochIdentifier(cctx)).CurrentEpoch
		sk.SetOsmoEquivalentMultiplier(cctx, ep, acc.Denom, m.QuoInt64(int64(2+e.r.Intn(9))))
		swallowed("refresh", "pool-drained", unchangedShares, func() {
			sk.RefreshIntermediaryDelegationAmounts(cctx, []sftypes.SuperfluidIntermediaryAccount{acc})
		})
	}
}

// fundOn: share coins for a top-up, minted on the given (discarded) context.
func (e *sfEngine) fundOn(ctx sdk.Context, addr sdk.AccAddress, coin sdk.Coin) error {
	bk := e.h.App.BankKeeper
	if err := bk.MintCoins(ctx, minttypes.ModuleName, sdk.NewCoins(coin)); err != nil {
		return err
	}
	return bk.SendCoinsFromModuleToAccount(ctx, minttypes.ModuleName, addr, sdk.NewCoins(coin))
}

// sharesWorth: the smallest amount of shares of denom d whose risk-adjusted OSMO value is at least `target` by the
// engine's own reference (nil when the multiplier / risk factor make that impossible or absurdly large).
func (e *sfEngine) sharesWorth(d int, target *big.Int) *big.Int {
	m := e.mult(e.pools[d])
	if m.Sign() <= 0 || target.Sign() <= 0 {
		return nil
	}
	hi := big.NewInt(1)
	for e.osmoValue(m, hi).Cmp(target) < 0 {
		hi.Lsh(hi, 1)
		if hi.BitLen() > 180 {
			return nil
		}
	}
	lo := new(big.Int).Rsh(hi, 1)
	for new(big.Int).Sub(hi, lo).Cmp(big.NewInt(1)) > 0 { // value(lo) < target <= value(hi)
		mid := new(big.Int).Rsh(new(big.Int).Add(lo, hi), 1)
		if e.osmoValue(m, mid).Cmp(target) < 0 {
			lo = mid
		} else {
			hi = mid
		}
	}
	return hi
}

// ---------------------------------------------------------------------------------------------- fault histories
// planOverflow — "power overflow": a delegated lock is topped up by shares worth what takes the validator to (or one
// below, or far beyond) 2^63 power units; refreshes, price moves, more top-ups, an undelegation, a second lock on the
// same validator follow.  Every op is an ordinary op line: the model decides the same threshold.
func (e *sfEngine) planOverflow() {
	r := e.r
	d := e.classicAsset()
	if d < 0 || e.rf.Cmp(new(big.Int).Quo(e18, big.NewInt(2))) > 0 {
		return
	}
	v := r.Intn(len(e.vals) - 1)
	ow := r.Intn(3)
	var id uint64
	e.o.Count("macro.overflow")
	e.step(func() (sfOp, bool) {
		return sfOp{kind: "lock", snd: ow, d: d, amt: big.NewInt(int64(1 + r.Intn(5000))), dur: e.ubs, single: true}, true
	}, func(ok bool, nid uint64) {
		if ok {
			id = nid
		}
	})
	e.step(func() (sfOp, bool) { return sfOp{kind: "delegate", snd: ow, id: id, v: v}, id != 0 }, nil)
	if r.Intn(2) == 0 {
		e.step(func() (sfOp, bool) { return sfOp{kind: "epoch"}, true }, nil)
	}
	huge := func() (sfOp, bool) {
		if id == 0 {
			return sfOp{}, false
		}
		room := new(big.Int).Sub(e.powLimit, e.validators()[v].tokens)
		switch r.Intn(4) {
		case 0: // one below the threshold: the mint goes through when the value is hit exactly
			room.Sub(room, big.NewInt(1))
		case 1: // far beyond
			room.Add(room, new(big.Int).Rand(r, pow10(28)))
		}
		amt := e.sharesWorth(d, room)
		if amt == nil {
			return sfOp{}, false
		}
		e.o.Count("macro.overflow.topup")
		return sfOp{kind: "addtolock", snd: ow, id: id, amt: amt}, true
	}
	e.step(huge, nil)
	tail := []func(){
		func() { e.step(func() (sfOp, bool) { return sfOp{kind: "epoch"}, true }, nil) },
		func() {
			e.step(func() (sfOp, bool) {
				return sfOp{kind: "move", d: d, num: int64(2 + r.Intn(3)), den: 1, down: r.Intn(2) == 0}, true
			}, nil)
			e.step(func() (sfOp, bool) { return sfOp{kind: "epoch"}, true }, nil)
		},
		func() {
			e.step(func() (sfOp, bool) { return sfOp{kind: "addtolock", snd: ow, id: id, amt: e.randAmount()}, id != 0 }, nil)
		},
		func() { e.step(huge, nil) },
		func() { e.step(func() (sfOp, bool) { return sfOp{kind: "undelegate", snd: ow, id: id}, id != 0 }, nil) },
		func() {
			var nid uint64
			e.step(func() (sfOp, bool) {
				return sfOp{kind: "lock", snd: ow, d: d, amt: e.randAmount(), dur: e.ubs, single: true}, true
			}, func(ok bool, x uint64) {
				if ok {
					nid = x
				}
			})
			e.step(func() (sfOp, bool) { return sfOp{kind: "delegate", snd: ow, id: nid, v: v}, nid != 0 }, nil)
		},
		func() {
			e.step(func() (sfOp, bool) {
				return sfOp{kind: "undelunbond", snd: ow, id: id, amt: big.NewInt(int64(1 + r.Intn(1000)))}, id != 0
			}, nil)
		},
	}
	for i, k := 0, 3+r.Intn(5); i < k; i++ {
		tail[r.Intn(len(tail))]()
	}
	e.step(func() (sfOp, bool) { return sfOp{kind: "epoch"}, true }, nil)
}

// markedOn: the locks that carry a staking or unstaking marker of validator v.
func (e *sfEngine) markedOn(v int) []sfSynth {
	var out []sfSynth
	for _, s := range e.synths() {
		if s.v == v {
			out = append(out, s)
		}
	}
	return out
}

// planZero — "validator without tokens": a REAL 100 % slash (fraction 1, power above the validator's).  Without a
// marked lock on the validator this is an ordinary `slash` line; with marked locks it is the composite `slashrefill`
// (every emptied lock is topped up again inside the same engine op: the hook's mint fails and is swallowed).  Then
// top-ups of the delegated locks, refreshes after price moves, delegations to / undelegations from the dead validator.
func (e *sfEngine) planZero() {
	r := e.r
	d := e.classicAsset()
	if d < 0 {
		return
	}
	v := r.Intn(len(e.vals) - 1)
	ow := r.Intn(3)
	var ids []uint64
	e.o.Count("macro.zero")
	withLocks := r.Intn(4) != 0
	if withLocks {
		for i, k := 0, 1+r.Intn(3); i < k; i++ {
			e.step(func() (sfOp, bool) {
				amt := e.randAmount()
				if r.Intn(2) == 0 {
					amt = big.NewInt(int64(1 + r.Intn(5000)))
				}
				return sfOp{kind: "lock", snd: ow, d: d, amt: amt, dur: e.ubs, single: true}, true
			}, func(ok bool, id uint64) {
				if ok {
					ids = append(ids, id)
				}
			})
			e.step(func() (sfOp, bool) {
				if len(ids) == 0 {
					return sfOp{}, false
				}
				return sfOp{kind: "delegate", snd: ow, id: ids[len(ids)-1], v: v}, true
			}, nil)
		}
		switch r.Intn(4) {
		case 0:
			e.step(func() (sfOp, bool) { return sfOp{kind: "epoch"}, true }, nil)
		case 1: // one of them is undelegating when the slash comes: its unstaking marker is slashed as well
			e.step(func() (sfOp, bool) {
				if len(ids) < 2 {
					return sfOp{}, false
				}
				return sfOp{kind: "undelegate", snd: ow, id: ids[0]}, true
			}, nil)
		}
	}
	e.step(func() (sfOp, bool) {
		marked := e.markedOn(v)
		if len(marked) == 0 {
			e.o.Count("macro.zero.plain-slash")
			return sfOp{kind: "slash", v: v, frac: "1", num: 3, full: true}, true
		}
		refill := map[uint64]*big.Int{}
		lk := map[uint64]sfLock{}
		for _, l := range e.locks() {
			lk[l.id] = l
		}
		for _, s := range marked {
			l, ok := lk[s.lock]
			if !ok || l.denom < 0 || e.pools[l.denom].cl || !l.single {
				e.o.Count("macro.zero.skipped-concentrated-lock")
				return sfOp{}, false
			}
			switch r.Intn(3) {
			case 0:
				refill[s.lock] = big.NewInt(int64(1 + r.Intn(3)))
			case 1:
				refill[s.lock] = new(big.Int).Set(l.amount)
			default:
				refill[s.lock] = e.randAmount()
			}
		}
		e.o.Count("macro.zero.slashrefill")
		return sfOp{kind: "slashrefill", v: v, frac: "1", num: 3, full: true, refill: refill}, true
	}, nil)
	pick := func() (uint64, bool) {
		if len(ids) == 0 {
			return 0, false
		}
		return ids[r.Intn(len(ids))], true
	}
	tail := []func(){
		func() {
			e.step(func() (sfOp, bool) {
				id, ok := pick()
				return sfOp{kind: "addtolock", snd: ow, id: id, amt: e.randAmount()}, ok
			}, nil)
		},
		func() { e.step(func() (sfOp, bool) { return sfOp{kind: "epoch"}, true }, nil) },
		func() {
			e.step(func() (sfOp, bool) {
				return sfOp{kind: "move", d: d, num: int64(2 + r.Intn(9)), den: 1, down: r.Intn(2) == 0}, true
			}, nil)
			e.step(func() (sfOp, bool) { return sfOp{kind: "epoch"}, true }, nil)
		},
		func() {
			e.step(func() (sfOp, bool) { id, ok := pick(); return sfOp{kind: "undelegate", snd: ow, id: id}, ok }, nil)
		},
		func() {
			e.step(func() (sfOp, bool) {
				id, ok := pick()
				return sfOp{kind: "undelunbond", snd: ow, id: id, amt: big.NewInt(int64(1 + r.Intn(3)))}, ok
			}, nil)
		},
		func() { // a fresh lock delegated to the dead validator: the whole message fails
			var nid uint64
			e.step(func() (sfOp, bool) {
				return sfOp{kind: "lock", snd: ow, d: d, amt: e.randAmount(), dur: e.ubs, single: true}, true
			}, func(ok bool, x uint64) {
				if ok {
					nid = x
				}
			})
			e.step(func() (sfOp, bool) { return sfOp{kind: "delegate", snd: ow, id: nid, v: v}, nid != 0 }, nil)
			if r.Intn(2) == 0 { // ... and then to a healthy one
				e.step(func() (sfOp, bool) {
					return sfOp{kind: "delegate", snd: ow, id: nid, v: (v + 1) % (len(e.vals) - 1)}, nid != 0
				}, nil)
			}
		},
		func() { e.step(func() (sfOp, bool) { return e.slashOp(v), true }, nil) }, // a further slash of the dead validator burns nothing
	}
	for i, k := 0, 4+r.Intn(7); i < k; i++ {
		tail[r.Intn(len(tail))]()
	}
	e.step(func() (sfOp, bool) { return sfOp{kind: "epoch"}, true }, nil)
}
