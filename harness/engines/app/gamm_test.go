package app_test

// Engine `gamm` (property C02): the REAL x/gamm and x/poolmanager message servers through the app.
//
// Trace refinement.  The Lean model (Model/GammKeeper) is the ledger + pool-record bookkeeping of the
// keeper and the router; the pool MATH is not modelled (property C04).  For every message the engine
//   1. replays, on private copies of the pool structs, the pool-model calls the keeper will make
//      (SwapOutAmtGivenIn, JoinPoolNoSwap, ExitPool, …) and writes their numeric results into the op line
//      (`E` = the pool model returned an error or panicked);
//   2. runs the message through the real msg server inside a cache context (written on success);
//   3. emits the op line + the response, and a `dump` of every balance, supply and pool record.
// The model must predict success/failure, the response value and the complete resulting ledger.
//
// ORACLE (shares nothing with the model): plain Go maps of balances before/after each message.
//   (i)   bank balance of each pool address == pool.GetTotalPoolLiquidity + cumulative direct donations
//   (ii)  supply(gamm/pool/<id>) == pool.GetTotalShares
//   (iii) supply of every non-share denom unchanged by every gamm/router message
//   (iv)  Σ over ALL tracked accounts of Δbalance == 0 per non-share denom; nobody but the sender, the
//         pools of the message, the taker-fee collector and the community pool moves; exact-in swaps debit
//         the sender by exactly the amount in, split between pool(s) and fee collector
//   (v)   a failed message changes nothing

import (
	"fmt"
	"math/big"
	"math/rand"
	"sort"
	"strings"
	"testing"

	sdkmath "cosmossdk.io/math"
	sdk "github.com/cosmos/cosmos-sdk/types"
	authtypes "github.com/cosmos/cosmos-sdk/x/auth/types"
	distrtypes "github.com/cosmos/cosmos-sdk/x/distribution/types"

	"github.com/osmosis-labs/osmosis/osmomath"
	gammkeeper "github.com/osmosis-labs/osmosis/v31/x/gamm/keeper"
	"github.com/osmosis-labs/osmosis/v31/x/gamm/pool-models/balancer"
	"github.com/osmosis-labs/osmosis/v31/x/gamm/pool-models/stableswap"
	gammtypes "github.com/osmosis-labs/osmosis/v31/x/gamm/types"
	gammmigration "github.com/osmosis-labs/osmosis/v31/x/gamm/types/migration"
	"github.com/osmosis-labs/osmosis/v31/x/poolmanager"
	pmtypes "github.com/osmosis-labs/osmosis/v31/x/poolmanager/types"
	txfeestypes "github.com/osmosis-labs/osmosis/v31/x/txfees/types"
)

const gammNUsers = 4

var gammToks = []string{"aaa", "bbb", "ccc", "ddd", "eee", "fff", "ggg", "hhh", "iii"}

type gammEnv struct {
	t   *testing.T
	r   *rand.Rand
	o   *Out
	h   *H
	ctx sdk.Context

	users    []sdk.AccAddress
	feeAddr  sdk.AccAddress
	commAddr sdk.AccAddress
	denoms   []string // tracked non-share denoms (gammToks + uosmo)
	baseBal  map[string]*big.Int
	baseSup  map[string]*big.Int
	donated  map[uint64]map[string]*big.Int
	donatedBefore map[uint64]map[string]*big.Int
	whitel   map[int]bool
	kinds    map[uint64]string
	gammMsg  gammtypes.MsgServer
	balMsg   balancer.MsgServer
	ssMsg    stableswap.MsgServer
	pmMsg    pmtypes.MsgServer
	mag      int // per-history magnitude class: 0 ordinary, 1 reserves around 2^128, 2 reserves around 2^200
	full     bool              // engine `gammg`: the whole gamm store (total liquidity, gamm params, migration records) is observed
	mig      map[uint64]uint64 // migration records written so far (balancer pool id -> concentrated pool id)
}

func (e *gammEnv) nextPoolId() uint64 { return e.h.App.PoolManagerKeeper.GetNextPoolId(e.ctx) }

func gammShareDenom(id uint64) string { return gammtypes.GetPoolShareDenom(id) }

// account universe: name -> address.  Pool addresses up to two ids past the next one (pre-creation donations).
func (e *gammEnv) accounts() ([]string, map[string]sdk.AccAddress) {
	m := map[string]sdk.AccAddress{"fee": e.feeAddr, "comm": e.commAddr}
	for i, u := range e.users {
		m[fmt.Sprintf("u%d", i)] = u
	}
	for id := uint64(1); id < e.nextPoolId()+3; id++ {
		m[fmt.Sprintf("p%d", id)] = pmtypes.NewPoolAddress(id)
	}
	var names []string
	for k := range m {
		names = append(names, k)
	}
	sort.Strings(names)
	return names, m
}

func (e *gammEnv) allDenoms() []string {
	ds := append([]string{}, e.denoms...)
	for id := uint64(1); id < e.nextPoolId()+3; id++ {
		ds = append(ds, gammShareDenom(id))
	}
	return ds
}

type gammSnap struct {
	bal    map[string]*big.Int // "acct/denom"
	sup    map[string]*big.Int
	pool   map[uint64]string
	liq    map[uint64]sdk.Coins
	shares map[uint64]*big.Int
	next   uint64
}

func (e *gammEnv) snapshot() *gammSnap {
	s := &gammSnap{bal: map[string]*big.Int{}, sup: map[string]*big.Int{}, pool: map[uint64]string{}, liq: map[uint64]sdk.Coins{}, shares: map[uint64]*big.Int{}, next: e.nextPoolId()}
	names, addrs := e.accounts()
	ds := e.allDenoms()
	bk := e.h.App.BankKeeper
	for _, n := range names {
		for _, d := range ds {
			k := n + "/" + d
			v := bk.GetBalance(e.ctx, addrs[n], d).Amount.BigInt()
			if b, ok := e.baseBal[k]; ok {
				v = new(big.Int).Sub(v, b)
			}
			s.bal[k] = v
		}
	}
	for _, d := range ds {
		v := bk.GetSupply(e.ctx, d).Amount.BigInt()
		if b, ok := e.baseSup[d]; ok {
			v = new(big.Int).Sub(v, b)
		}
		s.sup[d] = v
	}
	for id := uint64(1); id < s.next; id++ {
		p, err := e.h.App.GAMMKeeper.GetPoolAndPoke(e.ctx, id)
		if err != nil {
			continue
		}
		s.pool[id] = fmt.Sprintf("%d:%s:%s:%s", id, e.kinds[id], p.GetTotalShares(), gammCoinsStr(p.GetTotalPoolLiquidity(e.ctx)))
		s.liq[id] = p.GetTotalPoolLiquidity(e.ctx)
		s.shares[id] = p.GetTotalShares().BigInt()
	}
	return s
}

func gammCoinsStr(cs sdk.Coins) string {
	if len(cs) == 0 {
		return "-"
	}
	var p []string
	for _, c := range cs {
		p = append(p, c.Denom+":"+c.Amount.String())
	}
	return strings.Join(p, ",")
}

func (s *gammSnap) dump() string {
	var bk, sp, pl []string
	var keys []string
	for k, v := range s.bal {
		if v.Sign() != 0 {
			keys = append(keys, k)
		}
	}
	sort.Strings(keys)
	for _, k := range keys {
		bk = append(bk, k+"="+s.bal[k].String())
	}
	keys = keys[:0]
	for k, v := range s.sup {
		if v.Sign() != 0 {
			keys = append(keys, k)
		}
	}
	sort.Strings(keys)
	for _, k := range keys {
		sp = append(sp, k+"="+s.sup[k].String())
	}
	var ids []uint64
	for id := range s.pool {
		ids = append(ids, id)
	}
	sort.Slice(ids, func(i, j int) bool { return ids[i] < ids[j] })
	for _, id := range ids {
		pl = append(pl, s.pool[id])
	}
	return fmt.Sprintf("next=%d bank[%s] supply[%s] pools[%s]", s.next, strings.Join(bk, " "), strings.Join(sp, " "), strings.Join(pl, " "))
}

func (s *gammSnap) equal(t *gammSnap) bool { return s.dump() == t.dump() }

// ---------------------------------------------------------------- oracle

type gammMsgInfo struct {
	kind   string   // op name
	sender int      // user index
	pools  []uint64 // pools the message names
	// exact-in swap: tokenIn, and whether some hop pays out the same denom
	swapInDenom string
	swapInAmt   *big.Int
	cyclic      bool
	create      bool
	sendTo      string // account name for `send`
	drained     map[string]bool // "<pool>/<denom>": a balancer swap of the message pays out the ENTIRE reserve of that asset
}

func gammIsShare(d string) bool { return strings.HasPrefix(d, "gamm/pool/") }

func gammBzi(m map[uint64]*big.Int, k uint64) *big.Int {
	if v, ok := m[k]; ok {
		return v
	}
	return big.NewInt(0)
}

func gammBz(m map[string]*big.Int, k string) *big.Int {
	if v, ok := m[k]; ok {
		return v
	}
	return big.NewInt(0)
}

func (e *gammEnv) oracle(info gammMsgInfo, before, after *gammSnap, success bool, line string) {
	o := e.o
	if !success {
		if !before.equal(after) {
			o.Fail("failed-msg-changed-state:"+info.kind, line)
		}
		return
	}
	names, _ := e.accounts()
	ds := e.allDenoms()
	delta := func(n, d string) *big.Int {
		a, ok := after.bal[n+"/"+d]
		if !ok {
			a = big.NewInt(0)
		}
		b, ok := before.bal[n+"/"+d]
		if !ok {
			b = big.NewInt(0)
		}
		return new(big.Int).Sub(a, b)
	}
	// (i) pool account == reserves + donations, (ii) share supply == total shares.
	// The equalities are checked on every pool after every message; a discrepancy is REPORTED for the message
	// that created or changed it (a broken record stays broken for the rest of the history).
	defect := func(sn *gammSnap, don map[uint64]map[string]*big.Int, id uint64, d string) *big.Int {
		v := new(big.Int).Set(gammBz(sn.bal, fmt.Sprintf("p%d/%s", id, d)))
		if l, ok := sn.liq[id]; ok {
			v.Sub(v, l.AmountOf(d).BigInt())
		}
		if dm, ok := don[id]; ok {
			if x, ok := dm[d]; ok {
				v.Sub(v, x)
			}
		}
		return v
	}
	for id := uint64(1); id < after.next+3; id++ {
		if _, ok := after.liq[id]; !ok && id < after.next {
			o.Fail("pool-missing:"+info.kind, fmt.Sprintf("%s pool %d", line, id))
			continue
		}
		for _, d := range ds {
			da, db := defect(after, e.donated, id, d), defect(before, e.donatedBefore, id, d)
			if da.Cmp(db) != 0 {
				cls := ":account-above-record"
				if da.Cmp(db) < 0 {
					cls = ":account-below-record"
				}
				if info.drained[fmt.Sprintf("%d/%s", id, d)] && da.Cmp(db) < 0 {
					cls = ":balancer-swap-takes-entire-reserve"
				}
				o.Fail("pool-balance!=reserves:"+info.kind+cls, fmt.Sprintf("%s | pool %d denom %s: account-(reserves+donations) was %s, now %s (account=%s reserves=%s)", line, id, d, db, da,
					gammBz(after.bal, fmt.Sprintf("p%d/%s", id, d)), after.liq[id].AmountOf(d)))
			}
		}
		sa := new(big.Int).Sub(gammBz(after.sup, gammShareDenom(id)), gammBzi(after.shares, id))
		sb := new(big.Int).Sub(gammBz(before.sup, gammShareDenom(id)), gammBzi(before.shares, id))
		if sa.Cmp(sb) != 0 || (id >= before.next && sa.Sign() != 0) {
			o.Fail("share-supply:"+info.kind, fmt.Sprintf("%s | pool %d supply=%s totalShares=%s", line, id, gammBz(after.sup, gammShareDenom(id)), gammBzi(after.shares, id)))
		}
	}
	// (iii) non-share supplies constant
	for _, d := range e.denoms {
		if gammBz(after.sup, d).Cmp(gammBz(before.sup, d)) != 0 {
			o.Fail("supply-changed:"+info.kind, fmt.Sprintf("%s | denom %s %s -> %s", line, d, gammBz(before.sup, d), gammBz(after.sup, d)))
		}
	}
	// (iv) accounting
	involved := map[string]bool{fmt.Sprintf("u%d", info.sender): true, "fee": true}
	for _, id := range info.pools {
		involved[fmt.Sprintf("p%d", id)] = true
	}
	if info.create {
		involved["comm"] = true
		involved[fmt.Sprintf("p%d", before.next)] = true
	}
	if info.sendTo != "" {
		involved[info.sendTo] = true
	}
	for _, d := range ds {
		sum := new(big.Int)
		for _, n := range names {
			dl := delta(n, d)
			sum.Add(sum, dl)
			if dl.Sign() != 0 && !involved[n] {
				o.Fail("trader-accounting:"+info.kind+":third-party-moved", fmt.Sprintf("%s | %s/%s moved by %s", line, n, d, dl))
			}
		}
		if !gammIsShare(d) && sum.Sign() != 0 {
			o.Fail("trader-accounting:"+info.kind+":sum-of-deltas", fmt.Sprintf("%s | denom %s sum of deltas %s", line, d, sum))
		}
		if gammIsShare(d) {
			// shares: Σ Δ == Δ supply
			ds := new(big.Int).Sub(gammBz(after.sup, d), gammBz(before.sup, d))
			if sum.Cmp(ds) != 0 {
				o.Fail("trader-accounting:"+info.kind+":share-sum", fmt.Sprintf("%s | denom %s sum %s supply delta %s", line, d, sum, ds))
			}
		}
	}
	// fee collector and community pool only ever receive
	for _, d := range ds {
		if delta("fee", d).Sign() < 0 || delta("comm", d).Sign() < 0 {
			o.Fail("trader-accounting:"+info.kind+":collector-debited", line)
		}
		if !info.create && delta("comm", d).Sign() != 0 {
			o.Fail("trader-accounting:"+info.kind+":community-pool-moved", line)
		}
	}
	if info.swapInAmt != nil && !info.cyclic {
		u := fmt.Sprintf("u%d", info.sender)
		paid := new(big.Int).Neg(delta(u, info.swapInDenom))
		if paid.Cmp(info.swapInAmt) != 0 {
			o.Fail("trader-accounting:"+info.kind+":paid!=amount-in", fmt.Sprintf("%s | paid %s", line, paid))
		}
		got := new(big.Int).Set(delta("fee", info.swapInDenom))
		seen := map[uint64]bool{}
		for _, id := range info.pools {
			if !seen[id] {
				got.Add(got, delta(fmt.Sprintf("p%d", id), info.swapInDenom))
			}
			seen[id] = true
		}
		if got.Cmp(paid) != 0 {
			o.Fail("trader-accounting:"+info.kind+":paid!=pool+fee", fmt.Sprintf("%s | paid %s pools+fee %s", line, paid, got))
		}
	}
}

// ---------------------------------------------------------------- generators

func (e *gammEnv) pick(xs ...int) int { return xs[e.r.Intn(len(xs))] }

func (e *gammEnv) randBig(max *big.Int) *big.Int {
	if max.Sign() <= 0 {
		return big.NewInt(0)
	}
	return new(big.Int).Rand(e.r, new(big.Int).Add(max, big.NewInt(1)))
}

// fraction of x: tiny, small, moderate, all, more than all (never beyond what sdk.Int can hold)
func (e *gammEnv) fracOf(x *big.Int) *big.Int {
	v := e.fracOf0(x)
	if v.BitLen() > 255 {
		v = new(big.Int).Sub(pow2(255), big.NewInt(1))
	}
	return v
}

func (e *gammEnv) fracOf0(x *big.Int) *big.Int {
	switch e.r.Intn(24) {
	case 0:
		return big.NewInt(1)
	case 1:
		return big.NewInt(int64(1 + e.r.Intn(100)))
	case 2, 3:
		return new(big.Int).Quo(x, pow10(6+e.r.Intn(6)))
	case 4, 5, 6, 7, 8:
		return new(big.Int).Quo(x, big.NewInt(int64(100+e.r.Intn(10000))))
	case 9, 10, 11, 12, 13, 14, 15:
		return new(big.Int).Quo(x, big.NewInt(int64(3+e.r.Intn(50))))
	case 16:
		return new(big.Int).Set(x)
	case 17:
		return new(big.Int).Mul(x, big.NewInt(int64(2+e.r.Intn(1000))))
	case 18:
		return new(big.Int).Sub(x, big.NewInt(int64(e.r.Intn(3))))
	case 19:
		return new(big.Int).Quo(x, big.NewInt(2))
	default:
		return e.randBig(new(big.Int).Quo(x, big.NewInt(2)))
	}
}

func gammInt(v *big.Int) osmomath.Int { return osmomath.NewIntFromBigInt(v) }

func (e *gammEnv) existingPool() (uint64, gammtypes.CFMMPoolI) {
	n := e.nextPoolId()
	if n <= 1 {
		return 0, nil
	}
	id := uint64(1 + e.r.Intn(int(n-1)))
	if e.r.Intn(40) == 0 {
		id = n + uint64(e.r.Intn(2)) // not (yet) existing
	}
	p, err := e.h.App.GAMMKeeper.GetPoolAndPoke(e.ctx, id)
	if err != nil {
		return id, nil
	}
	return id, p
}

func (e *gammEnv) poolDenoms(p gammtypes.CFMMPoolI) []string {
	if p == nil {
		return []string{gammToks[e.r.Intn(len(gammToks))], gammToks[e.r.Intn(len(gammToks))]}
	}
	return p.GetTotalPoolLiquidity(e.ctx).Denoms()
}

func (e *gammEnv) anyDenom(p gammtypes.CFMMPoolI) string {
	ds := e.poolDenoms(p)
	if e.r.Intn(25) == 0 {
		return gammToks[e.r.Intn(len(gammToks))]
	}
	return ds[e.r.Intn(len(ds))]
}

func (e *gammEnv) whitelisted(u int) bool { return e.whitel[u] }

// the last user is poor (insufficient-funds paths) and acts less often
func (e *gammEnv) pickUser() int {
	if e.r.Intn(12) == 0 {
		return gammNUsers - 1
	}
	return e.r.Intn(gammNUsers - 1)
}

// catchErr runs f; a panic is an error.
func gammCatch(f func() error) (err error) {
	defer func() {
		if r := recover(); r != nil {
			err = fmt.Errorf("panic: %v", r)
		}
	}()
	return f()
}

// ---------------------------------------------------------------- the engine

func runGamm(t *testing.T, seed int64, n int, dir string) { runGammX(t, seed, n, dir, false) }

// Engine `gammg` (property C19): the same histories, every op line addressed to the layered model of Model/GammGenesis.lean
// (C02 core + total-liquidity store + gamm params + migration records), with the running total liquidity compared after every message.
func runGammG(t *testing.T, seed int64, n int, dir string) { runGammX(t, seed, n, dir, true) }

func runGammX(t *testing.T, seed int64, n int, dir string, full bool) {
	r := rand.New(rand.NewSource(seed))
	o := NewOut(dir)
	if full {
		o.rename = [2]string{"gamm ", "gammg "}
	}
	h := newH(t)
	e := &gammEnv{t: t, r: r, o: o, h: h, full: full}
	done := 0
	for done < n {
		h.Reset()
		e.ctx = h.Ctx
		e.gammMsg = gammkeeper.NewMsgServerImpl(h.App.GAMMKeeper)
		e.balMsg = gammkeeper.NewBalancerMsgServerImpl(h.App.GAMMKeeper)
		e.ssMsg = gammkeeper.NewStableswapMsgServerImpl(h.App.GAMMKeeper)
		e.pmMsg = poolmanager.NewMsgServerImpl(h.App.PoolManagerKeeper)
		e.users = nil
		for i := 0; i < gammNUsers; i++ {
			e.users = append(e.users, sdk.AccAddress([]byte(fmt.Sprintf("gammuser%012d", i))))
		}
		e.feeAddr = h.App.AccountKeeper.GetModuleAddress(txfeestypes.TakerFeeCollectorName)
		e.commAddr = authtypes.NewModuleAddress(distrtypes.ModuleName)
		e.denoms = append(append([]string{}, gammToks...), "uosmo")
		e.donated = map[uint64]map[string]*big.Int{}
		e.whitel = map[int]bool{}
		e.kinds = map[uint64]string{}
		e.baseBal = map[string]*big.Int{}
		e.baseSup = map[string]*big.Int{}
		// baselines: whatever genesis left in the tracked module accounts / supplies
		for _, d := range e.denoms {
			e.baseSup[d] = h.App.BankKeeper.GetSupply(e.ctx, d).Amount.BigInt()
			e.baseBal["fee/"+d] = h.App.BankKeeper.GetBalance(e.ctx, e.feeAddr, d).Amount.BigInt()
			e.baseBal["comm/"+d] = h.App.BankKeeper.GetBalance(e.ctx, e.commAddr, d).Amount.BigInt()
		}
		o.Emit(fmt.Sprintf("gamm reset %d", e.nextPoolId()), "ok", false)
		e.mig = map[uint64]uint64{}
		if e.full {
			e.setGammFee() // the test app's gamm params are not the model's empty ones
			o.Emit("gamm gdump", e.gdump(), false)
		}
		e.setCreationFee()
		e.setTakerFee()
		// per-history magnitude class (ordinary reserves already reach past 2^64)
		e.mag = 0
		if x := r.Intn(100); x < 7 {
			e.mag = 1
		} else if x < 14 {
			e.mag = 2
		}
		o.Count([]string{"class.magnitude.ordinary", "class.magnitude.2^128", "class.magnitude.2^200"}[e.mag])
		// funding: three rich users, one poor
		for u := 0; u < gammNUsers; u++ {
			for _, d := range e.denoms {
				var amt *big.Int
				if u == gammNUsers-1 {
					amt = e.randBig(pow10(e.pick(3, 6, 9)))
				} else {
					amt = new(big.Int).Mul(big.NewInt(int64(1+r.Intn(9))), pow10([]int{e.pick(24, 27, 30), e.pick(48, 52, 56), e.pick(70, 72, 74)}[e.mag]))
				}
				if amt.Sign() == 0 {
					continue
				}
				h.FundAcc(e.users[u], sdk.NewCoins(sdk.NewCoin(d, gammInt(amt))))
				o.Emit(fmt.Sprintf("gamm fund u%d %s %s", u, d, amt), "ok", false)
			}
		}
		hist := 40 + r.Intn(100)
		for i := 0; i < hist && done < n; i++ {
			if e.message(i) {
				done++
			}
			if r.Intn(25) == 0 {
				e.creatorWhitelistProbe()
			}
		}
	}
	o.Close(nil)
}

func (e *gammEnv) setCreationFee() {
	var fee sdk.Coins
	switch e.r.Intn(4) {
	case 0:
		fee = sdk.NewCoins(sdk.NewCoin("uosmo", osmomath.NewInt(1000)))
	case 1:
		fee = sdk.Coins{}
	case 2:
		fee = sdk.NewCoins(sdk.NewCoin("uosmo", osmomath.NewInt(int64(1+e.r.Intn(1000000)))), sdk.NewCoin(gammToks[e.r.Intn(3)], osmomath.NewInt(int64(1+e.r.Intn(50)))))
	default:
		fee = sdk.NewCoins(sdk.NewCoin(gammToks[e.r.Intn(len(gammToks))], osmomath.NewInt(int64(1+e.r.Intn(100000)))))
	}
	e.h.App.PoolManagerKeeper.SetParam(e.ctx, pmtypes.KeyPoolCreationFee, fee)
	e.o.Emit("gamm creationfee "+gammCoinsStr(fee), "ok", false)
}

func (e *gammEnv) randFee() *big.Int {
	switch e.r.Intn(10) {
	case 0, 1:
		return big.NewInt(0)
	case 2:
		return new(big.Int).Mul(big.NewInt(15), pow10(14)) // 0.15%
	case 3:
		return pow10(15)
	case 4:
		return pow10(16)
	case 5:
		return new(big.Int).Mul(big.NewInt(5), pow10(17))
	case 6:
		switch e.r.Intn(8) {
		case 0:
			return pow10(18) // 100%
		case 1:
			return new(big.Int).Sub(pow10(18), big.NewInt(1))
		}
		return new(big.Int).Mul(big.NewInt(int64(1+e.r.Intn(30))), pow10(15))
	case 7:
		return big.NewInt(int64(1 + e.r.Intn(1000))) // a few ulps
	default:
		return e.randBig(pow10(e.pick(15, 16, 17, 18)))
	}
}

func (e *gammEnv) setTakerFee() {
	f := e.randFee()
	e.h.App.PoolManagerKeeper.SetParam(e.ctx, pmtypes.KeyDefaultTakerFee, decRaw(f))
	e.o.Emit(fmt.Sprintf("gamm takerfee %s", f), "ok", false)
	e.o.Count("param.takerfee")
}

func (e *gammEnv) setPairFee() {
	a, b := gammToks[e.r.Intn(len(gammToks))], gammToks[e.r.Intn(len(gammToks))]
	f := e.randFee()
	if e.r.Intn(5) == 0 {
		f = e.h.App.PoolManagerKeeper.GetDefaultTakerFee(e.ctx).BigInt() // equal to the default: deletes the override
	}
	e.h.App.PoolManagerKeeper.SetDenomPairTakerFee(e.ctx, a, b, decRaw(f))
	e.o.Emit(fmt.Sprintf("gamm pairfee %s %s %s", a, b, f), "ok", false)
	e.o.Count("param.pairfee")
}

func (e *gammEnv) setWhitelist() {
	var addrs, names []string
	e.whitel = map[int]bool{}
	for u := 0; u < gammNUsers; u++ {
		if e.r.Intn(4) == 0 {
			e.whitel[u] = true
			addrs = append(addrs, e.users[u].String())
			names = append(names, fmt.Sprintf("u%d", u))
		}
	}
	if addrs == nil {
		addrs = []string{}
	}
	e.h.App.PoolManagerKeeper.SetParam(e.ctx, pmtypes.KeyReducedTakerFeeByWhitelist, addrs)
	s := "-"
	if len(names) > 0 {
		s = strings.Join(names, ",")
	}
	e.o.Emit("gamm whitelist "+s, "ok", false)
	e.o.Count("param.whitelist")
}

// exec runs one message: f is the real call inside a cache context and returns the response text.
func (e *gammEnv) exec(info gammMsgInfo, opLine string, f func(ctx sdk.Context) (string, error)) bool {
	before := e.snapshot()
	e.donatedBefore = map[uint64]map[string]*big.Int{}
	for id, m := range e.donated {
		e.donatedBefore[id] = map[string]*big.Int{}
		for d, v := range m {
			e.donatedBefore[id][d] = new(big.Int).Set(v)
		}
	}
	cctx, write := e.ctx.CacheContext()
	var resp string
	err := gammCatch(func() error {
		var er error
		resp, er = f(cctx)
		return er
	})
	ok := err == nil
	if ok {
		write()
	}
	// bookkeeping of donations (oracle side)
	if ok && info.kind == "send" && strings.HasPrefix(info.sendTo, "p") {
		var id uint64
		fmt.Sscanf(info.sendTo[1:], "%d", &id)
		parts := strings.Fields(opLine)
		d, a := parts[4], parts[5]
		if e.donated[id] == nil {
			e.donated[id] = map[string]*big.Int{}
		}
		v, _ := new(big.Int).SetString(a, 10)
		if e.donated[id][d] == nil {
			e.donated[id][d] = new(big.Int)
		}
		e.donated[id][d].Add(e.donated[id][d], v)
	}
	after := e.snapshot()
	obs := "err"
	if ok {
		obs = strings.TrimSpace("ok " + resp)
	}
	e.o.Emit(opLine, obs, true)
	e.o.Emit("gamm dump", after.dump(), false)
	if e.full {
		e.o.Emit("gamm gdump", e.gdump(), false)
		d := e.allDenoms()[e.r.Intn(len(e.allDenoms()))]
		e.o.Emit("gamm totalliq "+d, e.h.App.GAMMKeeper.GetDenomLiquidity(e.ctx, d).String(), false)
	}
	if ok {
		e.o.Count(info.kind + ".ok")
	} else {
		e.o.Count(info.kind + ".err")
		if testing.Verbose() {
			e.t.Logf("%s -> %v", opLine, err)
		}
	}
	e.oracle(info, before, after, ok, opLine)
	return true
}

func (e *gammEnv) message(i int) bool {
	np := e.nextPoolId() - 1
	if np >= 1 {
		switch x := e.r.Intn(60); {
		case x < 3:
			e.exportImport(true)
		case x < 5:
			e.exportImport(false)
		case x < 7 && e.full:
			e.setMigration()
		case x < 8 && e.full:
			e.setGammFee()
		}
	}
	k := e.r.Intn(100)
	switch {
	case np < 2 || (np < 6 && k < 6):
		return e.msgCreate()
	case k < 16:
		return e.msgJoin()
	case k < 25:
		return e.msgJoinSwapIn()
	case k < 32:
		return e.msgJoinSwapOut()
	case k < 43:
		return e.msgExit()
	case k < 50:
		return e.msgExitSwapIn()
	case k < 57:
		return e.msgExitSwapOut()
	case k < 75:
		return e.msgSwapIn()
	case k < 88:
		return e.msgSwapOut()
	case k < 94:
		return e.msgSend()
	case k < 96:
		e.setTakerFee()
		return false
	case k < 98:
		e.setPairFee()
		return false
	default:
		e.setWhitelist()
		return false
	}
}

// ---- create

func (e *gammEnv) msgCreate() bool {
	r := e.r
	u := e.pickUser()
	nAssets := e.pick(2, 2, 2, 3, 3, 4, 5, 6, 7, 8)
	cand := append([]string{}, gammToks...)
	// occasionally a pool of LP shares
	if e.nextPoolId() > 1 && r.Intn(6) == 0 {
		cand = append(cand, gammShareDenom(uint64(1+r.Intn(int(e.nextPoolId()-1)))))
	}
	r.Shuffle(len(cand), func(i, j int) { cand[i], cand[j] = cand[j], cand[i] })
	ds := cand[:nAssets]
	sort.Strings(ds)
	stable := r.Intn(10) < 3
	spread := []string{"0", "0", "0.001", "0.003", "0.01", "0.1", "0.5", "0.000000000000000001"}[r.Intn(8)]
	var coins sdk.Coins
	kind := "B"
	var msgRun func(ctx sdk.Context) (string, error)
	if !stable {
		var assets []balancer.PoolAsset
		style := r.Intn(5)
		for i, d := range ds {
			var w int64 = 1
			switch style {
			case 0:
				w = 1
			case 1:
				w = int64(1 + r.Intn(10))
			case 2:
				if i == 0 {
					w = 1000000
				}
			case 3:
				if i == len(ds)-1 {
					w = int64(e.pick(1000, 100000, 1000000, 1048575))
				}
			default:
				w = int64(1 + r.Intn(1048575))
			}
			amt := new(big.Int).Add(big.NewInt(1), e.randBig(pow10(e.pick(1, 3, 6, 9, 12, 18, 21))))
			if e.mag > 0 && r.Intn(4) != 0 {
				amt = new(big.Int).Add(big.NewInt(1), e.randBig(pow10([]int{0, e.pick(30, 38, 39, 42, 45), e.pick(50, 58, 64, 68)}[e.mag])))
				if r.Intn(6) == 0 { // exactly around 2^127 / 2^128 / 2^129, resp. 2^200
					amt = new(big.Int).Add(pow2([]int{0, e.pick(127, 128, 129), 200}[e.mag]), big.NewInt(int64(r.Intn(3)-1)))
				}
			}
			if gammIsShare(d) {
				amt = new(big.Int).Add(big.NewInt(1), e.randBig(pow10(e.pick(3, 12, 19))))
			}
			assets = append(assets, balancer.PoolAsset{Weight: osmomath.NewInt(w), Token: sdk.NewCoin(d, gammInt(amt))})
			coins = append(coins, sdk.NewCoin(d, gammInt(amt)))
		}
		msg := balancer.NewMsgCreateBalancerPool(e.users[u], balancer.PoolParams{SwapFee: osmomath.MustNewDecFromStr(spread), ExitFee: osmomath.ZeroDec()}, assets, "")
		if msg.ValidateBasic() != nil {
			return false
		}
		msgRun = func(ctx sdk.Context) (string, error) {
			resp, err := e.balMsg.CreateBalancerPool(ctx, &msg)
			if err != nil {
				return "", err
			}
			return fmt.Sprint(resp.PoolID), nil
		}
	} else {
		kind = "S"
		var sfs []uint64
		base := new(big.Int).Add(big.NewInt(1000), e.randBig(pow10(e.pick(4, 6, 9, 12))))
		if e.mag > 0 && r.Intn(4) != 0 { // stableswap bounds post-scaled reserves by 10^34
			base = new(big.Int).Add(big.NewInt(1000), e.randBig(pow10([]int{0, e.pick(20, 24, 27), e.pick(27, 30, 33)}[e.mag])))
		}
		for _, d := range ds {
			sf := uint64(e.pick(1, 1, 1, 10, 1000, 1000000))
			sfs = append(sfs, sf)
			amt := new(big.Int).Mul(base, big.NewInt(int64(sf)))
			amt.Add(amt, e.randBig(new(big.Int).Quo(amt, big.NewInt(int64(e.pick(2, 10, 1000))))))
			coins = append(coins, sdk.NewCoin(d, gammInt(amt)))
		}
		msg := stableswap.NewMsgCreateStableswapPool(e.users[u], stableswap.PoolParams{SwapFee: osmomath.MustNewDecFromStr(spread), ExitFee: osmomath.ZeroDec()}, coins, sfs, "")
		if msg.ValidateBasic() != nil {
			return false
		}
		msgRun = func(ctx sdk.Context) (string, error) {
			resp, err := e.ssMsg.CreateStableswapPool(ctx, &msg)
			if err != nil {
				return "", err
			}
			return fmt.Sprint(resp.PoolID), nil
		}
	}
	id := e.nextPoolId()
	e.kinds[id] = kind
	e.o.Count(fmt.Sprintf("create.assets.%d", nAssets))
	return e.exec(gammMsgInfo{kind: "create", sender: u, create: true}, fmt.Sprintf("gamm create u%d %s %s", u, kind, gammCoinsStr(coins)), msgRun)
}

// ---- join (all assets, exact shares out)

// the keeper's getMaximalNoSwapLPAmount, re-computed here only to know which argument the pool model receives
func gammNeededLp(p gammtypes.CFMMPoolI, ctx sdk.Context, shareOut *big.Int) (sdk.Coins, bool) {
	total := p.GetTotalShares().BigInt()
	if total.Sign() == 0 {
		return nil, false
	}
	ratio := new(big.Int).Quo(new(big.Int).Mul(shareOut, e18), total)
	if ratio.Sign() <= 0 {
		return nil, false
	}
	var out sdk.Coins
	for _, c := range p.GetTotalPoolLiquidity(ctx) {
		x := ratCeil(new(big.Rat).SetFrac(new(big.Int).Mul(c.Amount.BigInt(), ratio), e18))
		if x.Sign() <= 0 || x.BitLen() > 255 {
			return nil, false
		}
		out = append(out, sdk.NewCoin(c.Denom, gammInt(x)))
	}
	return out, true
}

func gammLiqDelta(before, after sdk.Coins) string {
	var p []string
	for _, c := range before {
		p = append(p, c.Denom+":"+after.AmountOf(c.Denom).Sub(c.Amount).String())
	}
	if len(p) == 0 {
		return "-"
	}
	return strings.Join(p, ",")
}

func (e *gammEnv) msgJoin() bool {
	r := e.r
	u := e.pickUser()
	id, p := e.existingPool()
	total := big.NewInt(100)
	if p != nil {
		total = p.GetTotalShares().BigInt()
	}
	shareOut := e.fracOf(total)
	if shareOut.Sign() <= 0 {
		shareOut = big.NewInt(1)
	}
	math, joined := "E", "-"
	var needed sdk.Coins
	if p != nil {
		var okN bool
		needed, okN = gammNeededLp(p, e.ctx, shareOut)
		if okN {
			liq0 := p.GetTotalPoolLiquidity(e.ctx)
			var sh osmomath.Int
			err := gammCatch(func() error {
				var er error
				sh, er = p.JoinPoolNoSwap(e.ctx, needed, p.GetSpreadFactor(e.ctx))
				return er
			})
			if err == nil {
				math = sh.String()
				joined = gammLiqDelta(liq0, p.GetTotalPoolLiquidity(e.ctx))
			}
		}
	}
	// maxs
	var maxs sdk.Coins
	switch r.Intn(6) {
	case 0, 1, 2:
	case 3, 4:
		for _, c := range needed {
			maxs = append(maxs, sdk.NewCoin(c.Denom, c.Amount.Add(osmomath.NewInt(int64(r.Intn(3))))))
		}
	default:
		for i, c := range needed {
			a := c.Amount
			if i == 0 && a.GT(osmomath.OneInt()) {
				a = a.Sub(osmomath.OneInt())
			}
			if r.Intn(4) == 0 && i == len(needed)-1 {
				continue // missing denom
			}
			maxs = append(maxs, sdk.NewCoin(c.Denom, a))
		}
	}
	msg := gammtypes.MsgJoinPool{Sender: e.users[u].String(), PoolId: id, ShareOutAmount: gammInt(shareOut), TokenInMaxs: maxs}
	if msg.ValidateBasic() != nil {
		return false
	}
	line := fmt.Sprintf("gamm join u%d %d %s %s %s %s", u, id, shareOut, gammCoinsStr(maxs), math, joined)
	return e.exec(gammMsgInfo{kind: "join", sender: u, pools: []uint64{id}}, line, func(ctx sdk.Context) (string, error) {
		resp, err := e.gammMsg.JoinPool(ctx, &msg)
		if err != nil {
			return "", err
		}
		return resp.ShareOutAmount.String() + " " + gammCoinsStr(resp.TokenIn), nil
	})
}

func (e *gammEnv) userBal(u int, d string) *big.Int {
	return e.h.App.BankKeeper.GetBalance(e.ctx, e.users[u], d).Amount.BigInt()
}

func (e *gammEnv) reserveOf(p gammtypes.CFMMPoolI, d string) *big.Int {
	if p == nil {
		return big.NewInt(1000)
	}
	v := p.GetTotalPoolLiquidity(e.ctx).AmountOf(d).BigInt()
	if v.Sign() == 0 {
		return big.NewInt(1000)
	}
	return v
}

func (e *gammEnv) msgJoinSwapIn() bool {
	r := e.r
	u := e.pickUser()
	id, p := e.existingPool()
	d := e.anyDenom(p)
	amt := e.fracOf(e.reserveOf(p, d))
	if amt.Sign() <= 0 {
		amt = big.NewInt(1)
	}
	math := "E"
	var sh osmomath.Int
	if p != nil {
		if err := gammCatch(func() error {
			var er error
			sh, er = p.JoinPool(e.ctx, sdk.Coins{sdk.NewCoin(d, gammInt(amt))}, p.GetSpreadFactor(e.ctx))
			return er
		}); err == nil {
			math = sh.String()
		}
	}
	minShares := big.NewInt(1)
	if math != "E" {
		switch r.Intn(5) {
		case 0:
			minShares = sh.BigInt()
		case 1:
			minShares = new(big.Int).Add(sh.BigInt(), big.NewInt(1))
		}
	}
	if minShares.Sign() <= 0 {
		minShares = big.NewInt(1)
	}
	msg := gammtypes.MsgJoinSwapExternAmountIn{Sender: e.users[u].String(), PoolId: id, TokenIn: sdk.NewCoin(d, gammInt(amt)), ShareOutMinAmount: gammInt(minShares)}
	if msg.ValidateBasic() != nil {
		return false
	}
	line := fmt.Sprintf("gamm joinswapin u%d %d %s %s %s %s", u, id, d, amt, minShares, math)
	return e.exec(gammMsgInfo{kind: "joinswapin", sender: u, pools: []uint64{id}}, line, func(ctx sdk.Context) (string, error) {
		resp, err := e.gammMsg.JoinSwapExternAmountIn(ctx, &msg)
		if err != nil {
			return "", err
		}
		return resp.ShareOutAmount.String(), nil
	})
}

func (e *gammEnv) msgJoinSwapOut() bool {
	r := e.r
	u := e.pickUser()
	id, p := e.existingPool()
	d := e.anyDenom(p)
	total := big.NewInt(100)
	if p != nil {
		total = p.GetTotalShares().BigInt()
	}
	shareOut := e.fracOf(total)
	if shareOut.Sign() <= 0 {
		shareOut = big.NewInt(1)
	}
	math := "E"
	var tin osmomath.Int
	if p != nil {
		if ext, ok := p.(gammtypes.PoolAmountOutExtension); ok {
			if err := gammCatch(func() error {
				var er error
				tin, er = ext.CalcTokenInShareAmountOut(e.ctx, d, gammInt(shareOut), p.GetSpreadFactor(e.ctx))
				return er
			}); err == nil {
				math = tin.String()
			}
		}
	}
	maxIn := new(big.Int).Mul(pow10(40), big.NewInt(1))
	if e.mag > 0 {
		maxIn = pow10(76)
	}
	if math != "E" {
		switch r.Intn(5) {
		case 0:
			maxIn = tin.BigInt()
		case 1:
			maxIn = new(big.Int).Sub(tin.BigInt(), big.NewInt(1))
		}
	}
	if maxIn.Sign() <= 0 {
		maxIn = big.NewInt(1)
	}
	msg := gammtypes.MsgJoinSwapShareAmountOut{Sender: e.users[u].String(), PoolId: id, TokenInDenom: d, ShareOutAmount: gammInt(shareOut), TokenInMaxAmount: gammInt(maxIn)}
	if msg.ValidateBasic() != nil {
		return false
	}
	line := fmt.Sprintf("gamm joinswapout u%d %d %s %s %s %s", u, id, d, shareOut, maxIn, math)
	return e.exec(gammMsgInfo{kind: "joinswapout", sender: u, pools: []uint64{id}}, line, func(ctx sdk.Context) (string, error) {
		resp, err := e.gammMsg.JoinSwapShareAmountOut(ctx, &msg)
		if err != nil {
			return "", err
		}
		return resp.TokenInAmount.String(), nil
	})
}

// ---- exits

// holder of shares of the pool, preferring one with a balance
func (e *gammEnv) shareHolder(id uint64) (int, *big.Int) {
	perm := e.r.Perm(gammNUsers)
	for _, u := range perm {
		b := e.userBal(u, gammShareDenom(id))
		if b.Sign() > 0 && e.r.Intn(8) != 0 {
			return u, b
		}
	}
	u := perm[0]
	return u, e.userBal(u, gammShareDenom(id))
}

func (e *gammEnv) exitShares(p gammtypes.CFMMPoolI, bal *big.Int) *big.Int {
	base := bal
	if base.Sign() == 0 || e.r.Intn(10) == 0 {
		if p != nil {
			base = p.GetTotalShares().BigInt()
		} else {
			base = big.NewInt(100)
		}
	}
	x := e.fracOf(base)
	if x.Sign() <= 0 {
		x = big.NewInt(1)
	}
	return x
}

func (e *gammEnv) msgExit() bool {
	r := e.r
	id, p := e.existingPool()
	u, bal := e.shareHolder(id)
	shareIn := e.exitShares(p, bal)
	math := "E"
	var coins sdk.Coins
	if p != nil {
		if err := gammCatch(func() error {
			var er error
			coins, er = p.ExitPool(e.ctx, gammInt(shareIn), p.GetExitFee(e.ctx))
			return er
		}); err == nil {
			math = gammCoinsStr(coins)
		}
	}
	var mins sdk.Coins
	switch r.Intn(6) {
	case 0:
		mins = coins
	case 1:
		for i, c := range coins {
			a := c.Amount
			if i == 0 {
				a = a.Add(osmomath.OneInt())
			}
			mins = append(mins, sdk.NewCoin(c.Denom, a))
		}
	case 2:
		if len(coins) > 0 {
			mins = sdk.Coins{coins[r.Intn(len(coins))]}
		}
	}
	msg := gammtypes.MsgExitPool{Sender: e.users[u].String(), PoolId: id, ShareInAmount: gammInt(shareIn), TokenOutMins: mins}
	if msg.ValidateBasic() != nil {
		return false
	}
	line := fmt.Sprintf("gamm exit u%d %d %s %s %s", u, id, shareIn, gammCoinsStr(mins), math)
	return e.exec(gammMsgInfo{kind: "exit", sender: u, pools: []uint64{id}}, line, func(ctx sdk.Context) (string, error) {
		resp, err := e.gammMsg.ExitPool(ctx, &msg)
		if err != nil {
			return "", err
		}
		return gammCoinsStr(resp.TokenOut), nil
	})
}

func (e *gammEnv) msgExitSwapIn() bool {
	r := e.r
	id, p := e.existingPool()
	u, bal := e.shareHolder(id)
	shareIn := e.exitShares(p, bal)
	dout := e.anyDenom(p)
	math := "E"
	var maths []string
	totalOut := new(big.Int)
	complete := false
	drained := map[string]bool{}
	if p != nil {
		var coins sdk.Coins
		if err := gammCatch(func() error {
			var er error
			coins, er = p.ExitPool(e.ctx, gammInt(shareIn), p.GetExitFee(e.ctx))
			return er
		}); err == nil {
			math = gammCoinsStr(coins)
			totalOut.Set(coins.AmountOf(dout).BigInt())
			complete = true
			for _, c := range coins {
				if c.Denom == dout {
					continue
				}
				var out sdk.Coin
				resOut := p.GetTotalPoolLiquidity(e.ctx).AmountOf(dout)
				if err := gammCatch(func() error {
					var er error
					out, er = p.SwapOutAmtGivenIn(e.ctx, sdk.Coins{c}, dout, p.GetSpreadFactor(e.ctx))
					if er == nil && e.kinds[id] == "B" && out.Amount.Equal(resOut) {
						drained[fmt.Sprintf("%d/%s", id, dout)] = true
					}
					return er
				}); err != nil {
					maths = append(maths, "E")
					complete = false
					break
				}
				maths = append(maths, out.Amount.String())
				totalOut.Add(totalOut, out.Amount.BigInt())
			}
		}
	}
	minOut := big.NewInt(1)
	if complete {
		switch r.Intn(5) {
		case 0:
			minOut = new(big.Int).Set(totalOut)
		case 1:
			minOut = new(big.Int).Add(totalOut, big.NewInt(1))
		}
	}
	if minOut.Sign() <= 0 {
		minOut = big.NewInt(1)
	}
	ms := "-"
	if len(maths) > 0 {
		ms = strings.Join(maths, ",")
	}
	msg := gammtypes.MsgExitSwapShareAmountIn{Sender: e.users[u].String(), PoolId: id, TokenOutDenom: dout, ShareInAmount: gammInt(shareIn), TokenOutMinAmount: gammInt(minOut)}
	if msg.ValidateBasic() != nil {
		return false
	}
	line := fmt.Sprintf("gamm exitswapin u%d %d %s %s %s %s %s", u, id, dout, shareIn, minOut, math, ms)
	return e.exec(gammMsgInfo{kind: "exitswapin", sender: u, pools: []uint64{id}, drained: drained}, line, func(ctx sdk.Context) (string, error) {
		resp, err := e.gammMsg.ExitSwapShareAmountIn(ctx, &msg)
		if err != nil {
			return "", err
		}
		return resp.TokenOutAmount.String(), nil
	})
}

func (e *gammEnv) msgExitSwapOut() bool {
	r := e.r
	id, p := e.existingPool()
	u, bal := e.shareHolder(id)
	dout := e.anyDenom(p)
	amtOut := e.fracOf(e.reserveOf(p, dout))
	if amtOut.Sign() <= 0 {
		amtOut = big.NewInt(1)
	}
	shareMax := new(big.Int).Set(bal)
	if shareMax.Sign() == 0 || r.Intn(6) == 0 {
		shareMax = pow10(30)
	}
	math := "E"
	if p != nil {
		if ext, ok := p.(gammtypes.PoolAmountOutExtension); ok {
			var sh osmomath.Int
			if err := gammCatch(func() error {
				var er error
				sh, er = ext.ExitSwapExactAmountOut(e.ctx, sdk.NewCoin(dout, gammInt(amtOut)), gammInt(shareMax))
				return er
			}); err == nil {
				math = sh.String()
			}
		}
	}
	msg := gammtypes.MsgExitSwapExternAmountOut{Sender: e.users[u].String(), PoolId: id, TokenOut: sdk.NewCoin(dout, gammInt(amtOut)), ShareInMaxAmount: gammInt(shareMax)}
	if msg.ValidateBasic() != nil {
		return false
	}
	line := fmt.Sprintf("gamm exitswapout u%d %d %s %s %s", u, id, dout, amtOut, math)
	return e.exec(gammMsgInfo{kind: "exitswapout", sender: u, pools: []uint64{id}}, line, func(ctx sdk.Context) (string, error) {
		resp, err := e.gammMsg.ExitSwapExternAmountOut(ctx, &msg)
		if err != nil {
			return "", err
		}
		return resp.ShareInAmount.String(), nil
	})
}

// ---- swaps through the router

type gammHop struct {
	pool  uint64
	denom string // out denom (exact in) / in denom (exact out)
}

// route starting from denom `start`: consecutive pools share a denom (mostly).
func (e *gammEnv) buildRoute(nHops int) (start string, hops []gammHop) {
	np := e.nextPoolId() - 1
	cur := ""
	for i := 0; i < nHops; i++ {
		var id uint64
		var p gammtypes.CFMMPoolI
		// look for a pool containing cur
		for try := 0; try < 12; try++ {
			id = uint64(1 + e.r.Intn(int(np)))
			q, err := e.h.App.GAMMKeeper.GetPoolAndPoke(e.ctx, id)
			if err != nil {
				continue
			}
			p = q
			if cur == "" || q.GetTotalPoolLiquidity(e.ctx).AmountOf(cur).IsPositive() {
				break
			}
		}
		if p == nil {
			return "", nil
		}
		ds := p.GetTotalPoolLiquidity(e.ctx).Denoms()
		if cur == "" {
			cur = ds[e.r.Intn(len(ds))]
			start = cur
		}
		out := ds[e.r.Intn(len(ds))]
		for try := 0; try < 6 && out == cur; try++ {
			out = ds[e.r.Intn(len(ds))]
		}
		if e.r.Intn(60) == 0 {
			id = e.nextPoolId() // unknown pool
		}
		hops = append(hops, gammHop{id, out})
		cur = out
	}
	return start, hops
}

type gammPoolCopies struct {
	e *gammEnv
	m map[uint64]gammtypes.CFMMPoolI
}

func (pc *gammPoolCopies) get(id uint64) gammtypes.CFMMPoolI {
	if p, ok := pc.m[id]; ok {
		return p
	}
	p, err := pc.e.h.App.GAMMKeeper.GetPoolAndPoke(pc.e.ctx, id)
	if err != nil {
		p = nil
	}
	pc.m[id] = p
	return p
}

func (e *gammEnv) msgSwapIn() bool {
	r := e.r
	u := e.pickUser()
	nHops := e.pick(1, 1, 1, 2, 2, 3, 4)
	din, hops := e.buildRoute(nHops)
	if hops == nil {
		return false
	}
	p0, _ := e.h.App.GAMMKeeper.GetPoolAndPoke(e.ctx, hops[0].pool)
	amt := e.fracOf(e.reserveOf(p0, din))
	if r.Intn(12) == 0 {
		amt = e.fracOf(e.userBal(u, din))
	}
	if amt.Sign() <= 0 {
		amt = big.NewInt(1)
	}
	// trace: pool-model results hop by hop on private copies
	pc := &gammPoolCopies{e: e, m: map[uint64]gammtypes.CFMMPoolI{}}
	cur := sdk.NewCoin(din, gammInt(amt))
	var parts []string
	var lastOut *big.Int
	failed := false
	cyclic := false
	drained := map[string]bool{}
	for _, hp := range hops {
		if hp.denom == din {
			cyclic = true
		}
		if failed {
			parts = append(parts, fmt.Sprintf("%d:%s:E", hp.pool, hp.denom))
			continue
		}
		p := pc.get(hp.pool)
		res := "E"
		if p != nil {
			after := cur
			err := gammCatch(func() error {
				if !e.whitelisted(u) {
					fee, er := e.h.App.PoolManagerKeeper.GetTradingPairTakerFee(e.ctx, cur.Denom, hp.denom)
					if er != nil {
						return er
					}
					after, _ = poolmanager.CalcTakerFeeExactIn(cur, fee)
				}
				resOut := p.GetTotalPoolLiquidity(e.ctx).AmountOf(hp.denom)
				out, er := p.SwapOutAmtGivenIn(e.ctx, sdk.Coins{after}, hp.denom, p.GetSpreadFactor(e.ctx))
				if er != nil {
					return er
				}
				if e.kinds[hp.pool] == "B" && out.Amount.Equal(resOut) {
					drained[fmt.Sprintf("%d/%s", hp.pool, hp.denom)] = true
				}
				res = out.Amount.String()
				cur = out
				lastOut = out.Amount.BigInt()
				return nil
			})
			if err != nil {
				res = "E"
			}
		}
		if res == "E" {
			failed = true
		}
		parts = append(parts, fmt.Sprintf("%d:%s:%s", hp.pool, hp.denom, res))
	}
	minOut := big.NewInt(1)
	if !failed && lastOut != nil {
		switch r.Intn(6) {
		case 0:
			minOut = new(big.Int).Set(lastOut)
		case 1:
			minOut = new(big.Int).Add(lastOut, big.NewInt(1))
		}
	}
	if minOut.Sign() <= 0 {
		minOut = big.NewInt(1)
	}
	var routes []pmtypes.SwapAmountInRoute
	var pools []uint64
	for _, hp := range hops {
		routes = append(routes, pmtypes.SwapAmountInRoute{PoolId: hp.pool, TokenOutDenom: hp.denom})
		pools = append(pools, hp.pool)
	}
	line := fmt.Sprintf("gamm swapin u%d %s %s %s %s", u, din, amt, minOut, strings.Join(parts, " "))
	info := gammMsgInfo{kind: fmt.Sprintf("swapin%d", len(hops)), sender: u, pools: pools, swapInDenom: din, swapInAmt: amt, cyclic: cyclic, drained: drained}
	e.o.Count(fmt.Sprintf("route.in.hops.%d", len(hops)))
	if r.Intn(2) == 0 {
		msg := gammtypes.MsgSwapExactAmountIn{Sender: e.users[u].String(), Routes: routes, TokenIn: sdk.NewCoin(din, gammInt(amt)), TokenOutMinAmount: gammInt(minOut)}
		if msg.ValidateBasic() != nil {
			return false
		}
		return e.exec(info, line, func(ctx sdk.Context) (string, error) {
			resp, err := e.gammMsg.SwapExactAmountIn(ctx, &msg)
			if err != nil {
				return "", err
			}
			return resp.TokenOutAmount.String(), nil
		})
	}
	msg := pmtypes.MsgSwapExactAmountIn{Sender: e.users[u].String(), Routes: routes, TokenIn: sdk.NewCoin(din, gammInt(amt)), TokenOutMinAmount: gammInt(minOut)}
	if msg.ValidateBasic() != nil {
		return false
	}
	return e.exec(info, line, func(ctx sdk.Context) (string, error) {
		resp, err := e.pmMsg.SwapExactAmountIn(ctx, &msg)
		if err != nil {
			return "", err
		}
		return resp.TokenOutAmount.String(), nil
	})
}

func (e *gammEnv) msgSwapOut() bool {
	r := e.r
	u := e.pickUser()
	nHops := e.pick(1, 1, 1, 2, 2, 3, 4)
	// build as an exact-in style path, then read it as (tokenIn denoms, final out)
	start, fwd := e.buildRoute(nHops)
	if fwd == nil {
		return false
	}
	// hop i: pool fwd[i].pool, tokenIn denom = (i==0 ? start : fwd[i-1].denom); final out denom = fwd[last].denom
	type oh struct {
		pool uint64
		din  string
	}
	var hops []oh
	prev := start
	for _, f := range fwd {
		hops = append(hops, oh{f.pool, prev})
		prev = f.denom
	}
	dout := prev
	pl, _ := e.h.App.GAMMKeeper.GetPoolAndPoke(e.ctx, hops[len(hops)-1].pool)
	amtOut := e.fracOf(e.reserveOf(pl, dout))
	if amtOut.Sign() <= 0 {
		amtOut = big.NewInt(1)
	}
	nh := len(hops)
	est := make([]string, nh)
	mth := make([]string, nh)
	for i := range est {
		est[i], mth[i] = "E", "E"
	}
	ins := make([]osmomath.Int, nh)
	okEst := true
	tokenOut := sdk.NewCoin(dout, gammInt(amtOut))
	for i := nh - 1; i >= 0 && okEst; i-- {
		p, err := e.h.App.GAMMKeeper.GetPoolAndPoke(e.ctx, hops[i].pool)
		if err != nil {
			okEst = false
			break
		}
		err = gammCatch(func() error {
			fee, er := e.h.App.PoolManagerKeeper.GetTradingPairTakerFee(e.ctx, hops[i].din, tokenOut.Denom)
			if er != nil {
				return er
			}
			tin, er := p.CalcInAmtGivenOut(e.ctx, sdk.Coins{tokenOut}, hops[i].din, p.GetSpreadFactor(e.ctx))
			if er != nil {
				return er
			}
			est[i] = tin.Amount.String()
			after, _ := poolmanager.CalcTakerFeeExactOut(tin, fee)
			ins[i] = after.Amount
			tokenOut = after
			return nil
		})
		if err != nil {
			okEst = false
		}
	}
	maxIn := pow10(45)
	if e.mag > 0 {
		maxIn = pow10(76)
	}
	if okEst {
		switch r.Intn(6) {
		case 0:
			maxIn = ins[0].BigInt()
		case 1:
			maxIn = new(big.Int).Sub(ins[0].BigInt(), big.NewInt(1))
		case 2:
			maxIn, _ = new(big.Int).SetString(est[0], 10) // the swap amount without the fee: the limit is tested before the fee is added
		}
	}
	if maxIn.Sign() <= 0 {
		maxIn = big.NewInt(1)
	}
	// forward: the swaps on private copies, in route order
	if okEst {
		pc := &gammPoolCopies{e: e, m: map[uint64]gammtypes.CFMMPoolI{}}
		for i := 0; i < nh; i++ {
			p := pc.get(hops[i].pool)
			if p == nil {
				break
			}
			tout := sdk.NewCoin(dout, gammInt(amtOut))
			if i != nh-1 {
				tout = sdk.NewCoin(hops[i+1].din, ins[i+1])
			}
			var tin sdk.Coin
			if err := gammCatch(func() error {
				var er error
				tin, er = p.SwapInAmtGivenOut(e.ctx, sdk.Coins{tout}, hops[i].din, p.GetSpreadFactor(e.ctx))
				return er
			}); err != nil {
				break
			}
			mth[i] = tin.Amount.String()
		}
	}
	var parts []string
	var routes []pmtypes.SwapAmountOutRoute
	var pools []uint64
	for i, hp := range hops {
		parts = append(parts, fmt.Sprintf("%d:%s:%s:%s", hp.pool, hp.din, est[i], mth[i]))
		routes = append(routes, pmtypes.SwapAmountOutRoute{PoolId: hp.pool, TokenInDenom: hp.din})
		pools = append(pools, hp.pool)
	}
	line := fmt.Sprintf("gamm swapout u%d %s %s %s %s", u, maxIn, dout, amtOut, strings.Join(parts, " "))
	info := gammMsgInfo{kind: fmt.Sprintf("swapout%d", nh), sender: u, pools: pools}
	e.o.Count(fmt.Sprintf("route.out.hops.%d", nh))
	if r.Intn(2) == 0 {
		msg := gammtypes.MsgSwapExactAmountOut{Sender: e.users[u].String(), Routes: routes, TokenOut: sdk.NewCoin(dout, gammInt(amtOut)), TokenInMaxAmount: gammInt(maxIn)}
		if msg.ValidateBasic() != nil {
			return false
		}
		return e.exec(info, line, func(ctx sdk.Context) (string, error) {
			resp, err := e.gammMsg.SwapExactAmountOut(ctx, &msg)
			if err != nil {
				return "", err
			}
			return resp.TokenInAmount.String(), nil
		})
	}
	msg := pmtypes.MsgSwapExactAmountOut{Sender: e.users[u].String(), Routes: routes, TokenOut: sdk.NewCoin(dout, gammInt(amtOut)), TokenInMaxAmount: gammInt(maxIn)}
	if msg.ValidateBasic() != nil {
		return false
	}
	return e.exec(info, line, func(ctx sdk.Context) (string, error) {
		resp, err := e.pmMsg.SwapExactAmountOut(ctx, &msg)
		if err != nil {
			return "", err
		}
		return resp.TokenInAmount.String(), nil
	})
}

// ---- direct sends: donations to pool addresses (existing or future), share transfers between users

func (e *gammEnv) msgSend() bool {
	r := e.r
	u := e.pickUser()
	var to string
	var toAddr sdk.AccAddress
	var d string
	switch r.Intn(5) {
	case 0: // LP shares to another user
		v := r.Intn(gammNUsers)
		to, toAddr = fmt.Sprintf("u%d", v), e.users[v]
		d = gammShareDenom(uint64(1 + r.Intn(int(e.nextPoolId()))))
	case 1: // to a pool address that does not exist yet
		id := e.nextPoolId() + uint64(r.Intn(2))
		to, toAddr = fmt.Sprintf("p%d", id), pmtypes.NewPoolAddress(id)
		d = gammToks[r.Intn(len(gammToks))]
	default:
		id := uint64(1 + r.Intn(int(e.nextPoolId()-1)))
		to, toAddr = fmt.Sprintf("p%d", id), pmtypes.NewPoolAddress(id)
		ds := e.allDenoms()
		d = ds[r.Intn(len(ds))]
		if p, err := e.h.App.GAMMKeeper.GetPoolAndPoke(e.ctx, id); err == nil && r.Intn(3) != 0 {
			d = e.anyDenom(p)
		}
	}
	amt := e.fracOf(e.userBal(u, d))
	if r.Intn(3) == 0 {
		amt = big.NewInt(int64(1 + r.Intn(1000)))
	}
	if amt.Sign() <= 0 {
		amt = big.NewInt(1)
	}
	line := fmt.Sprintf("gamm send u%d %s %s %s", u, to, d, amt)
	return e.exec(gammMsgInfo{kind: "send", sender: u, sendTo: to}, line, func(ctx sdk.Context) (string, error) {
		return "", e.h.App.BankKeeper.SendCoins(ctx, e.users[u], toAddr, sdk.Coins{sdk.NewCoin(d, gammInt(amt))})
	})
}

var _ = sdkmath.ZeroInt

// ---------------------------------------------------------------- genesis export / import (C19)

func gammRawStore(h *H, ctx sdk.Context) map[string]string {
	store := ctx.KVStore(h.App.GetKey(gammtypes.StoreKey))
	it := store.Iterator(nil, nil)
	defer it.Close()
	out := map[string]string{}
	for ; it.Valid(); it.Next() {
		out[fmt.Sprintf("%x", it.Key())] = fmt.Sprintf("%x", it.Value())
	}
	return out
}

// totalLiq: the total-liquidity store, entry by entry (raw: an entry may be negative once F13 broke the pool accounting).
func (e *gammEnv) totalLiq(ctx sdk.Context) map[string]*big.Int {
	out := map[string]*big.Int{}
	store := ctx.KVStore(e.h.App.GetKey(gammtypes.StoreKey))
	it := store.Iterator(gammtypes.KeyTotalLiquidity, []byte{gammtypes.KeyTotalLiquidity[0] + 1})
	defer it.Close()
	for ; it.Valid(); it.Next() {
		var v osmomath.Int
		if v.Unmarshal(it.Value()) == nil {
			out[string(it.Key()[1:])] = v.BigInt()
		}
	}
	return out
}

func (e *gammEnv) gdump() string {
	gk := e.h.App.GAMMKeeper
	var tl []string
	m := e.totalLiq(e.ctx)
	for d, v := range m {
		if v.Sign() != 0 {
			tl = append(tl, d)
		}
	}
	sort.Strings(tl)
	for i, d := range tl {
		tl[i] = d + "=" + m[d].String()
	}
	mi, _ := gk.GetAllMigrationInfo(e.ctx)
	var mg []string
	for _, l := range mi.BalancerToConcentratedPoolLinks {
		mg = append(mg, fmt.Sprintf("%d:%d", l.BalancerPoolId, l.ClPoolId))
	}
	return fmt.Sprintf("next=%d fee=[%s] migration=[%s] totalliq[%s]", gk.GetNextPoolId(e.ctx), gammCoinsStr(gk.GetParams(e.ctx).PoolCreationFee), strings.Join(mg, ","), strings.Join(tl, " "))
}

func (e *gammEnv) setGammFee() {
	var fee sdk.Coins
	switch e.r.Intn(3) {
	case 0:
		fee = sdk.Coins{}
	case 1:
		fee = sdk.NewCoins(sdk.NewCoin("uosmo", osmomath.NewInt(int64(1+e.r.Intn(1000000)))))
	default:
		fee = sdk.NewCoins(sdk.NewCoin("uosmo", osmomath.NewInt(1000)), sdk.NewCoin(gammToks[e.r.Intn(3)], osmomath.NewInt(int64(1+e.r.Intn(50)))))
	}
	e.h.App.GAMMKeeper.SetParam(e.ctx, gammtypes.KeyPoolCreationFee, fee)
	e.o.Emit("gamm gammfee "+gammCoinsStr(fee), "ok", false)
	e.o.Count("param.gammfee")
}

// setMigration: SetMigrationRecords with all records written so far plus one for a balancer pool id that has none yet (the keeper
// call writes entries and removes none: called with a growing, id-sorted list it IS the replacement the model performs).
func (e *gammEnv) setMigration() {
	bal := uint64(1 + e.r.Intn(int(e.nextPoolId())))
	if _, ok := e.mig[bal]; ok {
		return
	}
	e.mig[bal] = uint64(100 + e.r.Intn(50))
	var ids []uint64
	for id := range e.mig {
		ids = append(ids, id)
	}
	sort.Slice(ids, func(i, j int) bool { return ids[i] < ids[j] })
	var recs gammmigration.MigrationRecords
	var ps []string
	for _, id := range ids {
		recs.BalancerToConcentratedPoolLinks = append(recs.BalancerToConcentratedPoolLinks, gammmigration.BalancerToConcentratedPoolLink{BalancerPoolId: id, ClPoolId: e.mig[id]})
		ps = append(ps, fmt.Sprintf("%d:%d", id, e.mig[id]))
	}
	e.h.App.GAMMKeeper.SetMigrationRecords(e.ctx, recs)
	e.o.Emit("gamm migration "+strings.Join(ps, ","), "ok", false)
	e.o.Emit("gamm gdump", e.gdump(), false)
	e.o.Count("param.migration")
}

// gammImport: the REAL x/gamm ExportGenesis -> JSON (the pools are Anys) -> every key of the gamm store deleted -> the REAL InitGenesis.
func (e *gammEnv) gammImport(ctx sdk.Context) (ok bool, msg string) {
	gk := e.h.App.GAMMKeeper
	cdc := e.h.App.AppCodec()
	defer func() {
		if r := recover(); r != nil {
			ok, msg = false, fmt.Sprint(r)
		}
	}()
	bz := cdc.MustMarshalJSON(gk.ExportGenesis(ctx))
	store := ctx.KVStore(e.h.App.GetKey(gammtypes.StoreKey))
	var keys [][]byte
	it := store.Iterator(nil, nil)
	for ; it.Valid(); it.Next() {
		keys = append(keys, append([]byte{}, it.Key()...))
	}
	it.Close()
	for _, key := range keys {
		store.Delete(key)
	}
	var gs gammtypes.GenesisState
	cdc.MustUnmarshalJSON(bz, &gs)
	gk.InitGenesis(ctx, gs, cdc)
	return true, ""
}

// exportImport.  commit: op `exportimport` — the history continues on the imported store; every pool record, balance and supply
// (`dump`), the whole gamm store (`gdump`, engine gammg) and GetTotalLiquidity per denom (`totalliq-imported`) are read back.
// !commit: the import runs on a discarded branch and only `totalliq-imported` (what a node imported NOW would report) is emitted.
// Oracle: the raw gamm store key by key; the total-liquidity entries are RECOMPUTED by InitGenesis from the pool records, a difference
// there is the known loss F38 (it needs the pool accounting to be broken already, F13).
func (e *gammEnv) exportImport(commit bool) {
	o := e.o
	gk := e.h.App.GAMMKeeper
	pre := gammRawStore(e.h, e.ctx)
	preTL := e.totalLiq(e.ctx)
	cctx, write := e.ctx.CacheContext()
	ok, msg := e.gammImport(cctx)
	if !ok {
		if commit {
			o.Emit("gamm exportimport", "panic", true)
		}
		o.Fail("export-import:gamm:panics", msg)
		return
	}
	rctx := cctx
	if commit {
		write()
		rctx = e.ctx
		o.Emit("gamm exportimport", "ok", true)
		o.Emit("gamm dump", e.snapshot().dump(), false)
		if e.full {
			o.Emit("gamm gdump", e.gdump(), false)
		}
		o.Count("exportimport")
	} else {
		o.Count("exportimport.branch")
	}
	tl, err := gk.GetTotalLiquidity(rctx)
	if err != nil {
		o.Fail("export-import:gamm:total-liquidity-unreadable", err.Error())
		return
	}
	ds := e.allDenoms()
	e.r.Shuffle(len(ds), func(i, j int) { ds[i], ds[j] = ds[j], ds[i] })
	for _, d := range ds[:4] {
		o.Emit("gamm totalliq-imported "+d, tl.AmountOf(d).String(), true)
	}
	// ---- oracle
	post := gammRawStore(e.h, rctx)
	postTL := e.totalLiq(rctx)
	var tlDiff []string
	for d, v := range preTL {
		w := postTL[d]
		if w == nil {
			w = new(big.Int)
		}
		if v.Cmp(w) != 0 {
			tlDiff = append(tlDiff, fmt.Sprintf("%s: %s running, %s recomputed", d, v, w))
		}
	}
	for d, w := range postTL {
		if _, ok := preTL[d]; !ok && w.Sign() != 0 {
			tlDiff = append(tlDiff, fmt.Sprintf("%s: absent running, %s recomputed", d, w))
		}
	}
	sort.Strings(tlDiff)
	if len(tlDiff) > 0 {
		twLoss(o, "export-import:query:gamm.total_liquidity", "GetTotalLiquidity before / after ExportGenesis -> InitGenesis: "+strings.Join(tlDiff, "; "))
	}
	diff := map[string]int{}
	for key, v := range pre {
		if strings.HasPrefix(key, "03") {
			continue
		}
		if pv, ok := post[key]; !ok {
			diff[key[:2]+":missing"]++
		} else if pv != v {
			diff[key[:2]+":changed"]++
		}
	}
	for key := range post {
		if _, ok := pre[key]; !ok && !strings.HasPrefix(key, "03") {
			diff[key[:2]+":extra"]++
		}
	}
	for d, n := range diff {
		o.Fail("export-import:gamm:store-differs:"+d, fmt.Sprintf("%d keys", n))
	}
}
