package app_test

// Engine `router` (property C05): the real x/poolmanager router through its msg server and gRPC query
// keeper over balancer, stableswap and concentrated pools of the real app.
//
// Per history: 2-3 balancer, 1-2 stableswap, 2-3 concentrated pools (with positions) over 4-5 denoms, random
// prior activity, random default taker fee + per-pair overrides (through MsgSetDenomPairTakerFee) + reduced-fee
// whitelist; then routed swaps exact-in / exact-out and split routes over random walks of 1..4 hops with
// random (often binding) limits.
//
// Op lines: the router model (Lean) gets the per-hop answers of the real pools as DATA (what the pool received
// and paid, as the swap events of the routed execution report them; for failed routes, as the hop-by-hop
// replay reports them) and recomputes everything the router is responsible for.
//
// ORACLE (shares nothing with the model), all on cache-context branches of the SAME state:
//   (i)   composition: the hops one by one through the single-pool message (1-hop routes), every intermediate,
//         the final amount and the resulting store digest equal the routed swap's
//   (ii)  split result == sum of its legs executed sequentially (+ digest)
//   (iii) estimate == executed amount for routes that visit each pool at most once
//   (iv)  estimate leaves every store untouched
//   (v)   success => out >= min-out / in <= max-in; exact-out delivers exactly the requested amount
//   (vi)  failure => nothing changed
//   and the taker fee charged per hop equals the stated formula (big.Rat).

import (
	"crypto/sha256"
	"errors"
	"fmt"
	"math/big"
	"math/rand"
	"sort"
	"strconv"
	"strings"
	"testing"

	storetypes "cosmossdk.io/store/types"
	sdk "github.com/cosmos/cosmos-sdk/types"

	"github.com/osmosis-labs/osmosis/osmomath"
	cltypes "github.com/osmosis-labs/osmosis/v31/x/concentrated-liquidity/types"
	"github.com/osmosis-labs/osmosis/v31/x/gamm/pool-models/balancer"
	"github.com/osmosis-labs/osmosis/v31/x/gamm/pool-models/stableswap"
	gammtypes "github.com/osmosis-labs/osmosis/v31/x/gamm/types"
	"github.com/osmosis-labs/osmosis/v31/x/poolmanager"
	pmclient "github.com/osmosis-labs/osmosis/v31/x/poolmanager/client"
	pmgrpc "github.com/osmosis-labs/osmosis/v31/x/poolmanager/client/grpc"
	"github.com/osmosis-labs/osmosis/v31/x/poolmanager/client/queryproto"
	pmtypes "github.com/osmosis-labs/osmosis/v31/x/poolmanager/types"
	txfeestypes "github.com/osmosis-labs/osmosis/v31/x/txfees/types"
)

type rtPool struct {
	id     uint64
	kind   string // bal | stable | cl
	denoms []string
}

type rtHop struct {
	pool      uint64
	din, dout string
}

type hopObs struct {
	pool    uint64
	in, out sdk.Coin // what the trader paid to / received from the pool module in this hop
	fee     *big.Int // taker fee the trader paid to the fee collector for this hop
}

type rtEngine struct {
	h      *H
	o      *Out
	r      *rand.Rand
	denoms []string
	pools  []rtPool
	accs   []sdk.AccAddress
	wl     map[string]bool
	ms     pmtypes.MsgServer
	q      pmgrpc.Querier
	feeAcc sdk.AccAddress
	keys   []string
	opn    int
	scale  *big.Int // per-history magnitude class: every pool reserve / funding is multiplied by it
	// independent reference of the taker-fee configuration: custom fee per directed pair (absent = follows the default)
	feeRef map[string]*big.Int
	defFee *big.Int
}

func (e *rtEngine) sc(x *big.Int) *big.Int { return new(big.Int).Mul(x, e.scale) }

var rtIntMax = new(big.Int).Sub(pow2(256), big.NewInt(1))

func bi(v *big.Int) osmomath.Int { return osmomath.NewIntFromBigInt(v) }

func (e *rtEngine) accName(a sdk.AccAddress) string {
	for i, x := range e.accs {
		if x.Equals(a) {
			return fmt.Sprintf("acc%d", i)
		}
	}
	return "other"
}

func (e *rtEngine) pool(id uint64) *rtPool {
	for i := range e.pools {
		if e.pools[i].id == id {
			return &e.pools[i]
		}
	}
	return nil
}

// digest of every KV store of the app (iteration order = key order).
func (e *rtEngine) digest(ctx sdk.Context) [32]byte {
	hs := sha256.New()
	for _, name := range e.keys {
		st := ctx.KVStore(e.h.App.GetKVStoreKey()[name])
		it := storetypes.KVStorePrefixIterator(st, nil)
		hs.Write([]byte(name))
		for ; it.Valid(); it.Next() {
			hs.Write(it.Key())
			hs.Write([]byte{0})
			hs.Write(it.Value())
			hs.Write([]byte{1})
		}
		it.Close()
	}
	var out [32]byte
	copy(out[:], hs.Sum(nil))
	return out
}

// which stores differ (diagnostics only)
func (e *rtEngine) diffStores(a, b sdk.Context) string {
	var names []string
	for _, name := range e.keys {
		key := e.h.App.GetKVStoreKey()[name]
		d := func(ctx sdk.Context) [32]byte {
			hs := sha256.New()
			it := storetypes.KVStorePrefixIterator(ctx.KVStore(key), nil)
			for ; it.Valid(); it.Next() {
				hs.Write(it.Key())
				hs.Write([]byte{0})
				hs.Write(it.Value())
				hs.Write([]byte{1})
			}
			it.Close()
			var o [32]byte
			copy(o[:], hs.Sum(nil))
			return o
		}
		if d(a) != d(b) {
			names = append(names, name)
		}
	}
	return strings.Join(names, ",")
}

func (e *rtEngine) bal(ctx sdk.Context, a sdk.AccAddress, d string) *big.Int {
	return e.h.App.BankKeeper.GetBalance(ctx, a, d).Amount.BigInt()
}

func (e *rtEngine) feeRaw(ctx sdk.Context, din, dout string) *big.Int {
	f, err := e.h.App.PoolManagerKeeper.GetTradingPairTakerFee(ctx, din, dout)
	if err != nil {
		panic(err)
	}
	return f.BigInt()
}

// ---- the taker fee as the property states it (exact rationals) ----

// exact-in: the swapped amount is amount*(1-fee) rounded down, the fee is the rest.
func oracleFeeIn(amount, feeRaw *big.Int) (after, fee *big.Int) {
	oneMinus := new(big.Rat).SetFrac(new(big.Int).Sub(p18r, feeRaw), p18r)
	after = ratFloor(new(big.Rat).Mul(new(big.Rat).SetInt(amount), oneMinus))
	return after, new(big.Int).Sub(amount, after)
}

// exact-out: amount/(1-fee) as an 18-decimal number (36-digit truncated quotient rounded half-even to 18
// digits), rounded up to an integer; the fee is the difference.  ok=false: division by zero (fee = 1).
func oracleFeeOut(amount, feeRaw *big.Int) (after, fee *big.Int, ok bool) {
	factor := new(big.Int).Sub(p18r, feeRaw)
	if factor.Sign() == 0 {
		return nil, nil, false
	}
	q36 := ratTrunc(new(big.Rat).SetFrac(new(big.Int).Mul(amount, pow10(54)), factor))
	q18 := ratHalfEven(new(big.Rat).SetFrac(q36, p18r))
	after = ratCeil(new(big.Rat).SetFrac(q18, p18r))
	return after, new(big.Int).Sub(after, amount), true
}

// ---- helpers around the real entry points ----

// parseSwapEvents: one hopObs per token_swapped event, with the amounts the TRADER actually paid to / received
// from the pool module in that hop, taken from the bank transfer events preceding the swap event (the
// concentrated pools' swap event reports the input net of the spread reward, so it is not used for amounts).
func (e *rtEngine) parseSwapEvents(evs sdk.Events, trader sdk.AccAddress, exactIn bool) []hopObs {
	var out []hopObs
	paid := sdk.Coins{}
	got := sdk.Coins{}
	fee := new(big.Int)
	for _, ev := range evs {
		switch ev.Type {
		case "transfer":
			var rcpt, sndr, amt string
			for _, a := range ev.Attributes {
				switch a.Key {
				case "recipient":
					rcpt = a.Value
				case "sender":
					sndr = a.Value
				case "amount":
					amt = a.Value
				}
			}
			c, err := sdk.ParseCoinsNormalized(amt)
			if err != nil {
				continue
			}
			if sndr == trader.String() && rcpt == e.feeAcc.String() {
				for _, x := range c {
					fee.Add(fee, x.Amount.BigInt())
				}
			} else if sndr == trader.String() {
				paid = paid.Add(c...)
			}
			if rcpt == trader.String() {
				got = got.Add(c...)
			}
		case gammtypes.TypeEvtTokenSwapped:
			var h hopObs
			var din, dout string
			for _, a := range ev.Attributes {
				switch a.Key {
				case gammtypes.AttributeKeyPoolId:
					h.pool, _ = strconv.ParseUint(a.Value, 10, 64)
				case gammtypes.AttributeKeyTokensIn:
					if c, err := sdk.ParseCoinsNormalized(a.Value); err == nil && len(c) == 1 {
						din = c[0].Denom
					}
				case gammtypes.AttributeKeyTokensOut:
					if c, err := sdk.ParseCoinsNormalized(a.Value); err == nil && len(c) == 1 {
						dout = c[0].Denom
					}
				}
			}
			if din == "" {
				din = "?"
			}
			if dout == "" {
				dout = "?"
			}
			h.in = sdk.Coin{Denom: din, Amount: paid.AmountOf(din)}
			h.out = sdk.Coin{Denom: dout, Amount: got.AmountOf(dout)}
			if exactIn { // the fee is charged before the pool swap
				h.fee = fee
			} else { // ... after it: the fee seen so far belongs to the previous hop
				h.fee = new(big.Int)
				if len(out) > 0 {
					out[len(out)-1].fee = fee
				}
			}
			out = append(out, h)
			paid, got, fee = sdk.Coins{}, sdk.Coins{}, new(big.Int)
		}
	}
	if !exactIn && len(out) > 0 {
		out[len(out)-1].fee = fee
	}
	return out
}

func branch(ctx sdk.Context) (sdk.Context, func()) {
	c, w := ctx.CacheContext()
	return c.WithEventManager(sdk.NewEventManager()), w
}

func errClass(err error) string {
	var a cltypes.AmountLessThanMinError
	var b cltypes.AmountGreaterThanMaxError
	var c pmtypes.PriceImpactProtectionExactInError
	var d pmtypes.PriceImpactProtectionExactOutError
	if errors.Is(err, gammtypes.ErrLimitMinAmount) || errors.Is(err, gammtypes.ErrLimitMaxAmount) ||
		errors.As(err, &a) || errors.As(err, &b) || errors.As(err, &c) || errors.As(err, &d) {
		return "limit"
	}
	return "other"
}

func (e *rtEngine) msgIn(ctx sdk.Context, sender sdk.AccAddress, path []rtHop, amt, minOut *big.Int) (res *big.Int, err error) {
	var routes []pmtypes.SwapAmountInRoute
	for _, hp := range path {
		routes = append(routes, pmtypes.SwapAmountInRoute{PoolId: hp.pool, TokenOutDenom: hp.dout})
	}
	din := ""
	if len(path) > 0 {
		din = path[0].din
	} else {
		din = e.denoms[0]
	}
	ok := catch(func() {
		var resp *pmtypes.MsgSwapExactAmountInResponse
		resp, err = e.ms.SwapExactAmountIn(ctx, &pmtypes.MsgSwapExactAmountIn{Sender: sender.String(), Routes: routes,
			TokenIn: sdk.Coin{Denom: din, Amount: bi(amt)}, TokenOutMinAmount: bi(minOut)})
		if err == nil {
			res = resp.TokenOutAmount.BigInt()
		}
	})
	if !ok {
		return nil, fmt.Errorf("panic")
	}
	return res, err
}

func (e *rtEngine) msgOut(ctx sdk.Context, sender sdk.AccAddress, path []rtHop, out, maxIn *big.Int) (res *big.Int, err error) {
	var routes []pmtypes.SwapAmountOutRoute
	for _, hp := range path {
		routes = append(routes, pmtypes.SwapAmountOutRoute{PoolId: hp.pool, TokenInDenom: hp.din})
	}
	dout := e.denoms[0]
	if len(path) > 0 {
		dout = path[len(path)-1].dout
	}
	ok := catch(func() {
		var resp *pmtypes.MsgSwapExactAmountOutResponse
		resp, err = e.ms.SwapExactAmountOut(ctx, &pmtypes.MsgSwapExactAmountOut{Sender: sender.String(), Routes: routes,
			TokenOut: sdk.Coin{Denom: dout, Amount: bi(out)}, TokenInMaxAmount: bi(maxIn)})
		if err == nil {
			res = resp.TokenInAmount.BigInt()
		}
	})
	if !ok {
		return nil, fmt.Errorf("panic")
	}
	return res, err
}

// the pool module's own quote on ctx's state (pool data for the model's estimate passes)
func (e *rtEngine) probeCalc(ctx sdk.Context, outGivenIn bool, hp rtHop, amt *big.Int) (*big.Int, bool) {
	var res *big.Int
	var err error
	ok := catch(func() {
		k := e.h.App.PoolManagerKeeper
		mod, pool, err2 := k.GetPoolModuleAndPool(ctx, hp.pool)
		if err2 != nil {
			err = err2
			return
		}
		var c sdk.Coin
		if outGivenIn {
			c, err = mod.CalcOutAmtGivenIn(ctx, pool, sdk.NewCoin(hp.din, bi(amt)), hp.dout, pool.GetSpreadFactor(ctx))
		} else {
			c, err = mod.CalcInAmtGivenOut(ctx, pool, sdk.NewCoin(hp.dout, bi(amt)), hp.din, pool.GetSpreadFactor(ctx))
		}
		if err == nil {
			res = c.Amount.BigInt()
		}
	})
	if !ok || err != nil {
		return nil, false
	}
	return res, true
}

func exEntryIn(hp rtHop, x *big.Int, y, taken *big.Int) string {
	if y == nil {
		return fmt.Sprintf("%d:%s:%s:%s:e", hp.pool, hp.din, hp.dout, x)
	}
	return fmt.Sprintf("%d:%s:%s:%s:%s:%s", hp.pool, hp.din, hp.dout, x, y, taken)
}

// exEntriesIn: the pool answers of an exact-in execution as observed: per hop the amount the router handed to
// the pool module (what was fed into the hop minus the taker fee actually transferred), what the pool paid
// out and what it took.
func exEntriesIn(path []rtHop, hops []hopObs, amt *big.Int) []string {
	var l []string
	fed := amt
	for i, hb := range hops {
		if i >= len(path) {
			break
		}
		l = append(l, exEntryIn(path[i], new(big.Int).Sub(fed, hb.fee), hb.out.Amount.BigInt(), hb.in.Amount.BigInt()))
		fed = hb.out.Amount.BigInt()
	}
	return l
}

func exEntryOut(hp rtHop, req *big.Int, in, delivered *big.Int) string {
	if in == nil {
		return fmt.Sprintf("%d:%s:%s:%s:e", hp.pool, hp.din, hp.dout, req)
	}
	return fmt.Sprintf("%d:%s:%s:%s:%s:%s", hp.pool, hp.din, hp.dout, req, in, delivered)
}

func estEntry(tm int, hp rtHop, arg *big.Int, res *big.Int) string {
	if res == nil {
		return fmt.Sprintf("%d:%d:%s:%s:%s:e", tm, hp.pool, hp.din, hp.dout, arg)
	}
	return fmt.Sprintf("%d:%d:%s:%s:%s:%s", tm, hp.pool, hp.din, hp.dout, arg, res)
}

func joinOrDash(l []string) string {
	if len(l) == 0 {
		return "-"
	}
	return strings.Join(l, ",")
}

func stepsIn(path []rtHop) string {
	var l []string
	for _, hp := range path {
		l = append(l, fmt.Sprintf("%d:%s", hp.pool, hp.dout))
	}
	return joinOrDash(l)
}

func stepsOut(path []rtHop) string {
	var l []string
	for _, hp := range path {
		l = append(l, fmt.Sprintf("%d:%s", hp.pool, hp.din))
	}
	return joinOrDash(l)
}

// ---- hop-by-hop execution through the single-pool messages ----

type replayRes struct {
	hopFailed bool // a single hop, asked for at least one unit out, failed in the pool (not a limit of the caller)
	ok      bool
	class   string // on failure: limit | other
	amount  *big.Int
	hops    []hopObs
	fed     []*big.Int // exact-in: what was fed into each hop (before the taker fee)
	entries []string
	nswaps  int
}

// exact-in: every hop as its own MsgSwapExactAmountIn with a 1-hop route; inner hops min-out 1; the caller's
// minimum on the last.
func (e *rtEngine) replayIn(bctx sdk.Context, sender sdk.AccAddress, path []rtHop, amt, minOut *big.Int) replayRes {
	var r replayRes
	if len(path) == 0 {
		r.class = "other"
		return r
	}
	cur := amt
	for i, hp := range path {
		last := i == len(path)-1
		nctx, write := branch(bctx)
		y, err := e.msgIn(nctx, sender, []rtHop{hp}, cur, big.NewInt(1))
		if err != nil {
			x := cur
			if !e.wl[sender.String()] {
				x, _ = oracleFeeIn(cur, e.feeRaw(bctx, hp.din, hp.dout))
			}
			r.entries = append(r.entries, exEntryIn(hp, x, nil, nil))
			r.class = "other"
			r.hopFailed = true
			return r
		}
		evs := e.parseSwapEvents(nctx.EventManager().Events(), sender, true)
		if len(evs) != 1 {
			e.o.Fail("harness:swap-events", fmt.Sprintf("op %d: %d swap events for one hop", e.opn, len(evs)))
			r.class = "other"
			return r
		}
		r.entries = append(r.entries, exEntryIn(hp, new(big.Int).Sub(cur, evs[0].fee), evs[0].out.Amount.BigInt(), evs[0].in.Amount.BigInt()))
		if last && y.Cmp(minOut) < 0 {
			r.class = "limit"
			return r
		}
		write()
		r.hops = append(r.hops, evs[0])
		r.fed = append(r.fed, cur)
		r.nswaps++
		cur = y
	}
	r.ok = true
	r.amount = cur
	return r
}

// the backward estimate pass on ctx's state, from the pool modules' own quotes and the stated fee formula.
func (e *rtEngine) estChainOut(ctx sdk.Context, tm int, path []rtHop, out *big.Int) (entries []string, ins []*big.Int, ok bool) {
	ins = make([]*big.Int, len(path))
	req := out
	for i := len(path) - 1; i >= 0; i-- {
		hp := path[i]
		in, ok := e.probeCalc(ctx, false, hp, req)
		if !ok {
			entries = append(entries, estEntry(tm, hp, req, nil))
			return entries, nil, false
		}
		entries = append(entries, estEntry(tm, hp, req, in))
		after, _, ok2 := oracleFeeOut(in, e.feeRaw(ctx, hp.din, hp.dout))
		if !ok2 || after.BitLen() > 255 {
			return entries, nil, false
		}
		ins[i] = after
		req = after
	}
	return entries, ins, true
}

func (e *rtEngine) estChainIn(ctx sdk.Context, applyFee bool, path []rtHop, amt *big.Int) (entries []string, res *big.Int, ok bool) {
	cur := amt
	for _, hp := range path {
		x := cur
		if applyFee {
			x, _ = oracleFeeIn(cur, e.feeRaw(ctx, hp.din, hp.dout))
		}
		y, ok := e.probeCalc(ctx, true, hp, x)
		if !ok {
			entries = append(entries, estEntry(0, hp, x, nil))
			return entries, nil, false
		}
		entries = append(entries, estEntry(0, hp, x, y))
		if y.Sign() <= 0 {
			return entries, nil, false
		}
		cur = y
	}
	return entries, cur, true
}

// exact-out: every hop as its own MsgSwapExactAmountOut with a 1-hop route, in route order, requesting what the
// next hop needs (ins[i+1]) with the per-hop maximum (the caller's on the first hop).
func (e *rtEngine) replayOut(bctx sdk.Context, sender sdk.AccAddress, path []rtHop, out, maxIn *big.Int, ins []*big.Int) replayRes {
	var r replayRes
	if len(path) == 0 || ins == nil {
		r.class = "other"
		return r
	}
	for i, hp := range path {
		last := i == len(path)-1
		a, mx := out, maxIn
		if !last {
			a = ins[i+1]
		}
		if i > 0 {
			mx = ins[i]
		}
		nctx, write := branch(bctx)
		paid, err := e.msgOut(nctx, sender, []rtHop{hp}, a, rtIntMax)
		if err != nil {
			r.entries = append(r.entries, exEntryOut(hp, a, nil, nil))
			r.class = "other"
			return r
		}
		evs := e.parseSwapEvents(nctx.EventManager().Events(), sender, false)
		if len(evs) != 1 {
			e.o.Fail("harness:swap-events", fmt.Sprintf("op %d: %d swap events for one hop", e.opn, len(evs)))
			r.class = "other"
			return r
		}
		r.entries = append(r.entries, exEntryOut(hp, a, evs[0].in.Amount.BigInt(), evs[0].out.Amount.BigInt()))
		if evs[0].in.Amount.BigInt().Cmp(mx) > 0 {
			r.class = "limit"
			return r
		}
		write()
		r.hops = append(r.hops, evs[0])
		if new(big.Int).Add(evs[0].in.Amount.BigInt(), evs[0].fee).Cmp(paid) != 0 {
			e.o.Fail("route-out:response!=pool-input+fee", fmt.Sprintf("op %d hop %d response %s pool %s fee %s", e.opn, i, paid, evs[0].in.Amount, evs[0].fee))
		}
		r.nswaps++
		if i == 0 {
			r.amount = paid
		}
	}
	r.ok = true
	return r
}

func sameHops(a, b []hopObs) bool {
	if len(a) != len(b) {
		return false
	}
	for i := range a {
		if a[i].pool != b[i].pool || !a[i].in.Equal(b[i].in) || !a[i].out.Equal(b[i].out) || a[i].fee.Cmp(b[i].fee) != 0 {
			return false
		}
	}
	return true
}

func hopsStr(hs []hopObs) string {
	var l []string
	for _, h := range hs {
		l = append(l, fmt.Sprintf("%d:%s:%s", h.pool, h.in.Amount, h.out.Amount))
	}
	return joinOrDash(l)
}

func (e *rtEngine) mix(path []rtHop) string {
	set := map[string]bool{}
	for _, hp := range path {
		if p := e.pool(hp.pool); p != nil {
			set[p.kind] = true
		} else {
			set["none"] = true
		}
	}
	var l []string
	for k := range set {
		l = append(l, k)
	}
	sort.Strings(l)
	return strings.Join(l, "+")
}

func distinctPools(path []rtHop) bool {
	seen := map[uint64]bool{}
	for _, hp := range path {
		if seen[hp.pool] {
			return false
		}
		seen[hp.pool] = true
	}
	return true
}

// ledger deltas of an account over the history's denoms: "d:amt,..." (sorted, zeros dropped)
func (e *rtEngine) ledger(before, after sdk.Context, a sdk.AccAddress) string {
	var l []string
	for _, d := range e.denoms {
		x := new(big.Int).Sub(e.bal(after, a, d), e.bal(before, a, d))
		if x.Sign() != 0 {
			l = append(l, fmt.Sprintf("%s:%s", d, x))
		}
	}
	return joinOrDash(l)
}

// ---------------------------------------------------------------- history setup

func (e *rtEngine) pickDenoms(k int) []string {
	idx := e.r.Perm(len(e.denoms))[:k]
	var out []string
	for _, i := range idx {
		out = append(out, e.denoms[i])
	}
	sort.Strings(out)
	return out
}

func (e *rtEngine) randLiquidity() *big.Int {
	// 1e6 .. 1e13
	m := pow10(6 + e.r.Intn(7))
	return e.sc(new(big.Int).Mul(big.NewInt(int64(1+e.r.Intn(9000))), new(big.Int).Quo(m, big.NewInt(10))))
}

func (e *rtEngine) setup() {
	h := e.h
	r := e.r
	all := []string{"bar", "baz", "eth", "foo", "usdc"}
	nd := 4 + r.Intn(2)
	e.denoms = append([]string{}, all[:nd]...)
	if nd == 4 && r.Intn(2) == 0 {
		e.denoms = []string{"bar", "eth", "foo", "usdc"}
	}
	e.accs = h.TestAccs[:3]
	e.wl = map[string]bool{}
	// magnitude class of the history: ordinary reserves are 1e5 .. 9e15 (all below 2^63)
	e.scale = big.NewInt(1)
	mclass := "ordinary"
	if x := r.Intn(100); x < 16 {
		switch x % 4 {
		case 0:
			e.scale, mclass = pow10(4), "x1e4" // reserves straddle 2^63 / 2^64
		case 1:
			e.scale, mclass = new(big.Int).Add(pow2(64), big.NewInt(int64(1+2*r.Intn(500)))), "x(2^64+odd)"
		case 2:
			e.scale, mclass = pow10(22+r.Intn(3)), "x1e22..24" // reserves straddle 2^127..2^129
		default:
			e.scale, mclass = pow10(30), "x1e30" // reserves up to 2^153
		}
	}
	e.o.Count("class.magnitude." + mclass)
	for _, a := range e.accs {
		coins := sdk.NewCoins(sdk.NewCoin("uosmo", bi(pow10(24))))
		for _, d := range e.denoms {
			coins = coins.Add(sdk.NewCoin(d, bi(e.sc(pow10(40)))))
		}
		h.FundAcc(a, coins)
	}
	e.pools = nil
	fees := []string{"0", "0.001", "0.003", "0.01", "0.05"}
	// balancer
	for i, n := 0, 2+r.Intn(2); i < n; i++ {
		ds := e.pickDenoms(2 + r.Intn(2))
		var assets []balancer.PoolAsset
		for _, d := range ds {
			assets = append(assets, balancer.PoolAsset{Weight: osmomath.NewInt(int64(1 + r.Intn(9))), Token: sdk.NewCoin(d, bi(e.randLiquidity()))})
		}
		id := h.PrepareCustomBalancerPool(assets, balancer.PoolParams{SwapFee: osmomath.MustNewDecFromStr(fees[r.Intn(len(fees))]), ExitFee: osmomath.ZeroDec()})
		e.pools = append(e.pools, rtPool{id, "bal", ds})
	}
	// stableswap
	for i, n := 0, 1+r.Intn(2); i < n; i++ {
		ds := e.pickDenoms(2 + r.Intn(2))
		base := e.randLiquidity()
		if lim := pow10(33); base.Cmp(lim) > 0 { // stableswap rejects post-scaled reserves above 10^34: stay just inside
			base = new(big.Int).Sub(lim, new(big.Int).Rand(r, pow10(30)))
			base.Quo(base, big.NewInt(2))
			e.o.Count("class.stable.near-10^34-bound")
		}
		coins := sdk.Coins{}
		var sf []uint64
		for _, d := range ds {
			amt := new(big.Int).Quo(new(big.Int).Mul(base, big.NewInt(int64(60+r.Intn(80)))), big.NewInt(100))
			s := uint64(1)
			if r.Intn(3) == 0 {
				s = uint64(1 + r.Intn(5))
				amt.Mul(amt, big.NewInt(int64(s)))
			}
			coins = coins.Add(sdk.NewCoin(d, bi(amt)))
			sf = append(sf, s)
		}
		h.FundAcc(e.accs[0], coins)
		msg := stableswap.NewMsgCreateStableswapPool(e.accs[0], stableswap.PoolParams{SwapFee: osmomath.MustNewDecFromStr(fees[r.Intn(3)]), ExitFee: osmomath.ZeroDec()}, coins, sf, "")
		id, err := h.App.PoolManagerKeeper.CreatePool(h.Ctx, msg)
		if err != nil {
			panic(err)
		}
		e.pools = append(e.pools, rtPool{id, "stable", ds})
	}
	// concentrated
	spacings := []uint64{1, 10, 100}
	for i, n := 0, 2+r.Intn(2); i < n; i++ {
		ds := e.pickDenoms(2)
		if r.Intn(2) == 0 {
			ds[0], ds[1] = ds[1], ds[0]
		}
		sp := spacings[r.Intn(3)]
		p := h.PrepareCustomConcentratedPool(e.accs[0], ds[0], ds[1], sp, cltypes.AuthorizedSpreadFactors[r.Intn(len(cltypes.AuthorizedSpreadFactors))])
		a0, a1 := e.randLiquidity(), e.randLiquidity()
		k := h.App.ConcentratedLiquidityKeeper
		if _, err := k.CreateFullRangePosition(h.Ctx, p.GetId(), e.accs[0], sdk.NewCoins(sdk.NewCoin(ds[0], bi(a0)), sdk.NewCoin(ds[1], bi(a1)))); err != nil {
			panic(err)
		}
		for j, m := 0, r.Intn(3); j < m; j++ {
			e.clPosition(p.GetId())
		}
		e.pools = append(e.pools, rtPool{p.GetId(), "cl", []string{ds[0], ds[1]}})
	}
	for _, p := range e.pools {
		e.o.Count("pool." + p.kind)
	}
}

// poolUnderfunded: some gamm pool's bank balance is below its recorded reserves.
func (e *rtEngine) poolUnderfunded() bool {
	for _, p := range e.pools {
		if p.kind == "cl" {
			continue
		}
		gp, err := e.h.App.GAMMKeeper.GetPoolAndPoke(e.h.Ctx, p.id)
		if err != nil {
			continue
		}
		for _, c := range gp.GetTotalPoolLiquidity(e.h.Ctx) {
			if e.h.App.BankKeeper.GetBalance(e.h.Ctx, gp.GetAddress(), c.Denom).Amount.LT(c.Amount) {
				return true
			}
		}
	}
	return false
}

func (e *rtEngine) clPosition(id uint64) {
	k := e.h.App.ConcentratedLiquidityKeeper
	p, err := k.GetConcentratedPoolById(e.h.Ctx, id)
	if err != nil {
		return
	}
	sp := int64(p.GetTickSpacing())
	cur := p.GetCurrentTick()
	cur -= ((cur % sp) + sp) % sp
	lo := cur - int64(1+e.r.Intn(3000))*sp
	hi := cur + int64(1+e.r.Intn(3000))*sp
	if e.r.Intn(4) == 0 { // out of range above
		lo = cur + int64(1+e.r.Intn(100))*sp
		hi = lo + int64(1+e.r.Intn(1000))*sp
	}
	coins := sdk.NewCoins(sdk.NewCoin(p.GetToken0(), bi(e.randLiquidity())), sdk.NewCoin(p.GetToken1(), bi(e.randLiquidity())))
	cctx, write := e.h.Ctx.CacheContext()
	var err2 error
	ok := catch(func() {
		_, err2 = k.CreatePosition(cctx, id, e.accs[e.r.Intn(2)], coins, osmomath.ZeroInt(), osmomath.ZeroInt(), lo, hi)
	})
	if ok && err2 == nil {
		write()
		e.o.Count("prior.cl-position")
	}
}

func (e *rtEngine) reserve(ctx sdk.Context, id uint64, d string) *big.Int {
	c, err := e.h.App.PoolManagerKeeper.GetTotalPoolLiquidity(ctx, id)
	if err != nil {
		return big.NewInt(0)
	}
	return c.AmountOf(d).BigInt()
}

func (e *rtEngine) priorActivity() {
	for i, n := 0, 3+e.r.Intn(8); i < n; i++ {
		p := e.pools[e.r.Intn(len(e.pools))]
		switch e.r.Intn(4) {
		case 0, 1: // swap
			ds := e.r.Perm(len(p.denoms))
			hp := rtHop{p.id, p.denoms[ds[0]], p.denoms[ds[1]]}
			amt := new(big.Int).Quo(e.reserve(e.h.Ctx, p.id, hp.din), big.NewInt(int64(3+e.r.Intn(500))))
			if amt.Sign() <= 0 {
				continue
			}
			cctx, write := branch(e.h.Ctx)
			if _, err := e.msgIn(cctx, e.accs[1], []rtHop{hp}, amt, big.NewInt(1)); err == nil {
				write()
				e.o.Count("prior.swap")
			}
		case 2:
			if p.kind == "cl" {
				e.clPosition(p.id)
				continue
			}
			gp, err := e.h.App.GAMMKeeper.GetPoolAndPoke(e.h.Ctx, p.id)
			if err != nil {
				continue
			}
			shares := gp.GetTotalShares().Quo(osmomath.NewInt(int64(5 + e.r.Intn(500))))
			cctx, write := branch(e.h.Ctx)
			var err2 error
			ok := catch(func() { _, _, err2 = e.h.App.GAMMKeeper.JoinPoolNoSwap(cctx, e.accs[2], p.id, shares, sdk.Coins{}) })
			if ok && err2 == nil {
				write()
				e.o.Count("prior.join")
			}
		default:
			if p.kind == "cl" {
				e.clPosition(p.id)
			}
		}
	}
}

func (e *rtEngine) randFee() *big.Int {
	switch e.r.Intn(9) {
	case 0:
		return big.NewInt(0)
	case 1:
		return new(big.Int).Mul(big.NewInt(1), pow10(15)) // 0.1%
	case 2:
		return new(big.Int).Mul(big.NewInt(15), pow10(14)) // 0.15%
	case 3:
		return pow10(16) // 1%
	case 4:
		return new(big.Int).Rand(e.r, pow10(17)) // 18 decimals below 10%
	case 5:
		return new(big.Int).Mul(big.NewInt(int64(1+e.r.Intn(50))), pow10(16))
	case 6:
		return big.NewInt(int64(1 + e.r.Intn(1000))) // a few ulps
	case 7:
		return new(big.Int).Quo(p18r, big.NewInt(3)) // 1/3 truncated
	default:
		return new(big.Int).Mul(big.NewInt(int64(1+e.r.Intn(99))), pow10(14))
	}
}

func (e *rtEngine) setPairFee(din, dout string, fee *big.Int) {
	msg := &pmtypes.MsgSetDenomPairTakerFee{Sender: e.accs[0].String(), DenomPairTakerFee: []pmtypes.DenomPairTakerFee{{TokenInDenom: din, TokenOutDenom: dout, TakerFee: sd(fee)}}}
	if err := msg.ValidateBasic(); err != nil {
		return
	}
	if _, err := e.ms.SetDenomPairTakerFee(e.h.Ctx, msg); err != nil {
		e.o.Fail("harness:setfee", err.Error())
		return
	}
	e.o.Emit(fmt.Sprintf("router setfee %s %s %s", din, dout, fee), "ok", true)
	e.o.Count("cfg.setfee")
	if e.feeRef == nil {
		e.feeRef = map[string]*big.Int{}
	}
	if e.defFee != nil && fee.Cmp(e.defFee) == 0 {
		delete(e.feeRef, din+">"+dout) // setting the default value un-customises the pair
		e.o.Count("cfg.setfee.reset-to-default")
	} else {
		e.feeRef[din+">"+dout] = new(big.Int).Set(fee)
	}
	e.checkFee(din, dout)
}

func (e *rtEngine) checkFee(din, dout string) {
	resp, err := e.q.TradingPairTakerFee(e.h.Ctx, &queryproto.TradingPairTakerFeeRequest{Denom_0: din, Denom_1: dout})
	if err != nil {
		e.o.Emit(fmt.Sprintf("router fee %s %s", din, dout), "err", true)
		return
	}
	e.o.Emit(fmt.Sprintf("router fee %s %s", din, dout), "ok "+resp.TakerFee.BigInt().String(), true)
	// oracle: the fee in force for a directed pair is the last custom value set for exactly that direction, else the default
	if e.defFee != nil {
		want, cls := e.defFee, "follows-default"
		if v, ok := e.feeRef[din+">"+dout]; ok {
			want, cls = v, "custom"
		}
		if resp.TakerFee.BigInt().Cmp(want) != 0 {
			e.o.Fail("takerfee:in-force!=configured:"+cls, fmt.Sprintf("router fee %s %s => %s, configured %s (default %s)", din, dout, resp.TakerFee.BigInt(), want, e.defFee))
		}
	}
}

func (e *rtEngine) setWhitelist() {
	var l, names []string
	e.wl = map[string]bool{}
	if e.r.Intn(3) == 0 {
		a := e.accs[1+e.r.Intn(2)]
		l = append(l, a.String())
		names = append(names, e.accName(a))
		e.wl[a.String()] = true
		if e.r.Intn(4) == 0 {
			b := e.accs[0]
			l = append(l, b.String())
			names = append(names, e.accName(b))
			e.wl[b.String()] = true
		}
	}
	if l == nil {
		l = []string{}
	}
	e.h.App.PoolManagerKeeper.SetParam(e.h.Ctx, pmtypes.KeyReducedTakerFeeByWhitelist, l)
	e.o.Emit("router wl "+joinOrDash(names), "ok", true)
	e.o.Count(fmt.Sprintf("cfg.whitelist%d", len(l)))
}

func (e *rtEngine) configureFees() {
	def := e.randFee()
	e.h.App.PoolManagerKeeper.SetParam(e.h.Ctx, pmtypes.KeyDefaultTakerFee, sd(def))
	e.h.App.PoolManagerKeeper.SetParam(e.h.Ctx, pmtypes.KeyAdminAddresses, []string{e.accs[0].String()})
	e.o.Emit(fmt.Sprintf("router reset %s", def), "ok", true)
	e.defFee, e.feeRef = def, map[string]*big.Int{}
	for i, n := 0, e.r.Intn(6); i < n; i++ {
		ds := e.r.Perm(len(e.denoms))
		f := e.randFee()
		if e.r.Intn(6) == 0 {
			f = def // equal to the default: the override is deleted
		}
		e.setPairFee(e.denoms[ds[0]], e.denoms[ds[1]], f)
		if e.r.Intn(2) == 0 {
			e.setPairFee(e.denoms[ds[1]], e.denoms[ds[0]], e.randFee())
		}
	}
	e.setWhitelist()
	for i := 0; i < 3; i++ {
		ds := e.r.Perm(len(e.denoms))
		e.checkFee(e.denoms[ds[0]], e.denoms[ds[1]])
	}
}

// ---------------------------------------------------------------- genesis export / import (C19)

// pmRawStore: every key of the poolmanager KV store (hex) with its value (hex).
func pmRawStore(h *H, ctx sdk.Context) map[string]string {
	store := ctx.KVStore(h.App.GetKey(pmtypes.StoreKey))
	it := store.Iterator(nil, nil)
	defer it.Close()
	out := map[string]string{}
	for ; it.Valid(); it.Next() {
		out[fmt.Sprintf("%x", it.Key())] = fmt.Sprintf("%x", it.Value())
	}
	return out
}

// pmExportImportReal: the REAL x/poolmanager ExportGenesis -> JSON -> every key of the poolmanager store deleted -> the REAL
// InitGenesis on a cache context, written back when nothing panicked; then the two in-memory maps of the keeper are rebuilt from
// the store as a node starting on the imported state does (keeper.go BeginBlock).
func pmExportImportReal(h *H) (ok bool, msg string) {
	k := h.App.PoolManagerKeeper
	cdc := h.App.AppCodec()
	cctx, write := h.Ctx.CacheContext()
	func() {
		defer func() {
			if r := recover(); r != nil {
				msg = fmt.Sprint(r)
			}
		}()
		bz := cdc.MustMarshalJSON(k.ExportGenesis(cctx))
		store := cctx.KVStore(h.App.GetKey(pmtypes.StoreKey))
		var keys [][]byte
		it := store.Iterator(nil, nil)
		for ; it.Valid(); it.Next() {
			keys = append(keys, append([]byte{}, it.Key()...))
		}
		it.Close()
		for _, key := range keys {
			store.Delete(key)
		}
		var gs pmtypes.GenesisState
		cdc.MustUnmarshalJSON(bz, &gs)
		k.InitGenesis(cctx, &gs)
		ok = true
	}()
	if ok {
		write()
		k.VerifRestartShareCaches(h.Ctx)
	}
	return ok, msg
}

// pmStoreDiff classifies the raw-store differences of an export/import by key prefix: class -> (count, sample).
func pmStoreDiff(pre, post map[string]string) map[string][]string {
	diff := map[string][]string{}
	note := func(key, what string) {
		pfx := key
		if len(pfx) > 2 {
			pfx = pfx[:2]
		}
		diff[pfx+":"+what] = append(diff[pfx+":"+what], key)
	}
	for key, v := range pre {
		pv, ok := post[key]
		if !ok {
			note(key, "missing")
		} else if pv != v {
			note(key, "changed")
		}
	}
	for key := range post {
		if _, ok := pre[key]; !ok {
			note(key, "extra")
		}
	}
	return diff
}

func hexStr(h string) string {
	var b []byte
	fmt.Sscanf(h, "%x", &b)
	return string(b)
}

// pmJudgeStoreDiff: the export/import oracle shared by the engines `router` and `pm`.  Predicted by Props/C19PoolManager and
// therefore keyed: overrides EQUAL to the default taker fee are dropped by the message-path setter InitGenesis uses; the taker-fee
// share agreements (0x0B), registered alloyed pools (0x0C) and skim accumulators (0x0A) have no genesis field; the empty volume
// entry InitGenesis writes for a pool that never traded (raw store only: GetTotalVolumeForPool answers the empty coins either way).
// Anything else is an unpredicted difference.  `extra` is appended to the detail of the override finding (the directed witness).
func pmJudgeStoreDiff(o *Out, h *H, pre, post map[string]string, defFee *big.Int, extra string) (droppedPairs []string) {
	diff := pmStoreDiff(pre, post)
	var classes []string
	for d := range diff {
		classes = append(classes, d)
	}
	sort.Strings(classes)
	var shareKeys []string
	for _, d := range classes {
		keys := diff[d]
		sort.Strings(keys)
		switch {
		case d == "04:missing":
			var stale, other []string
			for _, key := range keys {
				var dp sdk.DecProto
				var raw []byte
				fmt.Sscanf(pre[key], "%x", &raw)
				if err := dp.Unmarshal(raw); err == nil && dp.Dec.BigInt().Cmp(defFee) == 0 {
					parts := strings.Split(hexStr(key), "|")
					stale = append(stale, parts[1]+">"+parts[2])
				} else {
					other = append(other, hexStr(key))
				}
			}
			if len(stale) > 0 {
				droppedPairs = stale
				twLoss(o, "export-import:poolmanager:override-equal-to-default-dropped",
					fmt.Sprintf("overrides %v were stored with a value equal to the default taker fee %s (set before the default was moved onto them); ExportGenesis lists them, InitGenesis -> SetDenomPairTakerFee deletes instead of writing%s", stale, defFee, extra))
			}
			if len(other) > 0 {
				o.Fail("export-import:poolmanager:store-differs:04:missing", fmt.Sprint(other))
			}
		case d == "0a:missing" || d == "0b:missing" || d == "0c:missing":
			for _, key := range keys {
				shareKeys = append(shareKeys, "0x"+key[:2]+hexStr(key)[1:])
			}
		case d == "03:extra":
			emptyOnly := true
			for _, key := range keys {
				var tv pmtypes.TrackedVolume
				var raw []byte
				fmt.Sscanf(post[key], "%x", &raw)
				if err := tv.Unmarshal(raw); err != nil || len(tv.Amount) != 0 {
					emptyOnly = false
				}
			}
			if emptyOnly {
				// raw-store only: GetTotalVolumeForPool answers the empty coins for an absent entry and for an empty one
				o.Count("exportimport.empty-volume-entry-materialised")
				var ids []string
				for _, key := range keys {
					ids = append(ids, strings.Trim(hexStr(key)[1:], "|"))
				}
				twLoss(o, "export-import:poolmanager:empty-volume-entry-materialised", fmt.Sprintf("pools %v never traded: no volume key (0x03|id|) before ExportGenesis, an entry with empty coins after InitGenesis (ExportGenesis lists every pool of AllPools, InitGenesis calls SetVolume for each)", ids))
			} else {
				o.Fail("export-import:poolmanager:store-differs:03:extra", fmt.Sprint(keys))
			}
		default:
			o.Fail("export-import:poolmanager:store-differs:"+d, fmt.Sprintf("%d keys, e.g. %q", len(keys), hexStr(keys[0])))
		}
	}
	if len(shareKeys) > 0 {
		k := h.App.PoolManagerKeeper
		ag, _ := k.GetAllTakerFeesShareAgreements(h.Ctx)
		al, _ := k.GetAllRegisteredAlloyedPools(h.Ctx)
		ac, _ := k.GetAllTakerFeeShareAccumulators(h.Ctx)
		twLoss(o, "export-import:poolmanager:taker-fee-share-state-not-exported",
			fmt.Sprintf("store keys %q existed before ExportGenesis and are gone after InitGenesis (GenesisState has no field for them); re-read after the import: AllTakerFeeShareAgreements=%d AllRegisteredAlloyedPools=%d AllTakerFeeShareAccumulators=%d", shareKeys, len(ag), len(al), len(ac)))
	}
	return droppedPairs
}

var rtShareDenoms = []string{"shra", "shrb"}

// shareState: taker-fee share agreements on denoms outside the pool universe (no swap of the history involves them, so
// TakerFeeSkim stays the no-op C05 assumes) through the real gov message, and skim accumulators through the store write of TakerFeeSkim.
func (e *rtEngine) shareState() {
	k := e.h.App.PoolManagerKeeper
	gov := e.h.App.AccountKeeper.GetModuleAddress("gov").String()
	for i, n := 0, 1+e.r.Intn(2); i < n; i++ {
		d := rtShareDenoms[e.r.Intn(len(rtShareDenoms))]
		pct := osmomath.NewDecWithPrec(int64(1+e.r.Intn(99)), 2)
		if _, err := e.ms.SetTakerFeeShareAgreementForDenom(e.h.Ctx, &pmtypes.MsgSetTakerFeeShareAgreementForDenom{Sender: gov, Denom: d, SkimPercent: pct, SkimAddress: e.accs[2].String()}); err != nil {
			e.o.Fail("harness:share-agreement", err.Error())
			return
		}
		e.o.Count("cfg.share-agreement")
		if e.r.Intn(2) == 0 {
			if err := k.VerifIncreaseAccrued(e.h.Ctx, d, e.denoms[e.r.Intn(len(e.denoms))], osmomath.NewInt(int64(1+e.r.Intn(100000)))); err != nil {
				e.o.Fail("harness:accrue", err.Error())
			}
			e.o.Count("cfg.share-accrual")
		}
	}
}

// exportImport: op `router exportimport`, then the fee in force for every customised pair and a few others (`router fee` lines, which
// the model answers from `initGenesis (exportGenesis cfg)`), and the raw-store oracle.
func (e *rtEngine) exportImport(extra string) {
	o := e.o
	pre := pmRawStore(e.h, e.h.Ctx)
	nextBefore := e.h.App.PoolManagerKeeper.GetNextPoolId(e.h.Ctx)
	ok, msg := pmExportImportReal(e.h)
	if !ok {
		o.Emit("router exportimport", "panic", true)
		o.Fail("export-import:poolmanager:panics", msg)
		return
	}
	o.Emit("router exportimport", "ok", true)
	o.Count("exportimport")
	post := pmRawStore(e.h, e.h.Ctx)
	dropped := pmJudgeStoreDiff(o, e.h, pre, post, e.defFee, extra)
	for _, p := range dropped {
		delete(e.feeRef, p) // the imported chain has no such override any more: the pair follows the default from now on
		o.Count("exportimport.override-equal-to-default-dropped")
	}
	if n := e.h.App.PoolManagerKeeper.GetNextPoolId(e.h.Ctx); n != nextBefore {
		o.Fail("export-import:poolmanager:next-pool-id", fmt.Sprintf("%d -> %d", nextBefore, n))
	}
	var pairs []string
	for p := range e.feeRef {
		pairs = append(pairs, p)
	}
	pairs = append(pairs, dropped...)
	sort.Strings(pairs)
	for _, p := range pairs {
		ds := strings.Split(p, ">")
		e.checkFee(ds[0], ds[1])
	}
	for i := 0; i < 2; i++ {
		ds := e.r.Perm(len(e.denoms))
		e.checkFee(e.denoms[ds[0]], e.denoms[ds[1]])
	}
}

// staleOverrideSequence: the directed history for the one override the import drops: setfee(pair) = x; setdefault = x (the stored
// override now EQUALS the default); exportimport; setdefault = y; fee(pair).  The same tail (setdefault y; fee) is first run on a
// discarded branch WITHOUT the import: there the pair keeps x.
func (e *rtEngine) staleOverrideSequence() {
	h, o := e.h, e.o
	ds := e.r.Perm(len(e.denoms))
	a, b := e.denoms[ds[0]], e.denoms[ds[1]]
	var x, y *big.Int
	for x == nil || x.Cmp(e.defFee) == 0 {
		x = e.randFee()
	}
	for y == nil || y.Cmp(x) == 0 {
		y = e.randFee()
	}
	e.setPairFee(a, b, x)
	h.App.PoolManagerKeeper.SetParam(h.Ctx, pmtypes.KeyDefaultTakerFee, sd(x))
	e.defFee = x
	o.Emit(fmt.Sprintf("router setdefault %s", x), "ok", true)
	e.checkFee(a, b)
	// the exporting chain, had it not been exported/imported
	bctx, _ := h.Ctx.CacheContext()
	h.App.PoolManagerKeeper.SetParam(bctx, pmtypes.KeyDefaultTakerFee, sd(y))
	keep := e.feeRaw(bctx, a, b)
	e.exportImport(fmt.Sprintf("; directed: setfee %s>%s = %s; setdefault %s; [export/import]; setdefault %s; TradingPairTakerFee(%s,%s): %s without the export/import", a, b, x, x, y, a, b, keep))
	h.App.PoolManagerKeeper.SetParam(h.Ctx, pmtypes.KeyDefaultTakerFee, sd(y))
	e.defFee = y
	o.Emit(fmt.Sprintf("router setdefault %s", y), "ok", true)
	e.checkFee(a, b)
	got := e.feeRaw(h.Ctx, a, b)
	o.Count("exportimport.directed.stale-override")
	if got.Cmp(keep) != 0 {
		twLoss(o, "export-import:poolmanager:override-equal-to-default-dropped",
			fmt.Sprintf("setfee %s>%s = %s; setdefault %s; ExportGenesis -> InitGenesis; setdefault %s; TradingPairTakerFee(%s,%s) = %s on the imported chain, %s on the exporting chain (same tail on a branch without the import)", a, b, x, x, y, a, b, got, keep))
	}
}

// ---------------------------------------------------------------- routes

// a random walk over the pool graph; avoid (mostly) pools already used.
func (e *rtEngine) randPath(start string, hops int, allowRevisit bool) []rtHop {
	var path []rtHop
	cur := start
	used := map[uint64]bool{}
	for len(path) < hops {
		var cands []rtPool
		for _, p := range e.pools {
			if used[p.id] && !allowRevisit {
				continue
			}
			for _, d := range p.denoms {
				if d == cur {
					cands = append(cands, p)
				}
			}
		}
		if len(cands) == 0 {
			break
		}
		p := cands[e.r.Intn(len(cands))]
		var outs []string
		for _, d := range p.denoms {
			if d != cur {
				outs = append(outs, d)
			}
		}
		out := outs[e.r.Intn(len(outs))]
		path = append(path, rtHop{p.id, cur, out})
		used[p.id] = true
		cur = out
	}
	return path
}

func (e *rtEngine) genPath() []rtHop {
	for tries := 0; tries < 20; tries++ {
		hops := 1 + e.r.Intn(4)
		path := e.randPath(e.denoms[e.r.Intn(len(e.denoms))], hops, e.r.Intn(6) == 0)
		if len(path) == 0 {
			continue
		}
		if len(path) < hops && e.r.Intn(2) == 0 {
			continue
		}
		switch e.r.Intn(60) {
		case 0: // a denom the pool does not hold
			i := e.r.Intn(len(path))
			path[i].dout = "uosmo"
			if i+1 < len(path) {
				path[i+1].din = "uosmo"
			}
			e.o.Count("route.bad-denom")
		case 1:
			path[e.r.Intn(len(path))].pool = 9999
			e.o.Count("route.bad-pool")
		case 2:
			e.o.Count("route.empty")
			return nil
		}
		return path
	}
	return e.randPath(e.pools[0].denoms[0], 1, false)
}

func (e *rtEngine) randAmountFor(ref *big.Int) *big.Int {
	var a *big.Int
	switch e.r.Intn(8) {
	case 0:
		a = big.NewInt(int64(1 + e.r.Intn(20)))
	case 1:
		a = big.NewInt(int64(1 + e.r.Intn(100000)))
	case 2, 3:
		a = new(big.Int).Quo(ref, big.NewInt(int64(2+e.r.Intn(2000))))
	case 4:
		a = new(big.Int).Quo(ref, big.NewInt(int64(1+e.r.Intn(4))))
	case 5:
		a = new(big.Int).Rand(e.r, new(big.Int).Add(ref, big.NewInt(2)))
	case 6:
		a = new(big.Int).Mul(ref, big.NewInt(int64(1+e.r.Intn(50))))
	default:
		a = new(big.Int).Quo(ref, big.NewInt(int64(10+e.r.Intn(100000))))
	}
	if a.Sign() <= 0 {
		a = big.NewInt(1)
	}
	return a
}

// a limit around the expected amount (binding cases included)
func (e *rtEngine) limitAround(x *big.Int, isMin bool) *big.Int {
	if x == nil || x.Sign() <= 0 {
		if isMin {
			return big.NewInt(1)
		}
		return e.sc(pow10(38))
	}
	var l *big.Int
	switch e.r.Intn(8) {
	case 0:
		l = new(big.Int).Set(x)
	case 1:
		l = new(big.Int).Add(x, big.NewInt(1))
	case 2:
		l = new(big.Int).Sub(x, big.NewInt(1))
	case 3:
		l = new(big.Int).Quo(new(big.Int).Mul(x, big.NewInt(int64(90+e.r.Intn(20)))), big.NewInt(100))
	case 4:
		l = new(big.Int).Quo(new(big.Int).Mul(x, big.NewInt(int64(995+e.r.Intn(10)))), big.NewInt(1000))
	default:
		if isMin {
			l = big.NewInt(1)
		} else {
			l = new(big.Int).Mul(x, big.NewInt(3))
		}
	}
	if l.Sign() <= 0 {
		l = big.NewInt(1)
	}
	return l
}

func (e *rtEngine) topUp(a sdk.AccAddress) {
	for _, d := range e.denoms {
		if e.bal(e.h.Ctx, a, d).Cmp(e.sc(pow10(39))) < 0 {
			e.h.FundAcc(a, sdk.NewCoins(sdk.NewCoin(d, bi(e.sc(pow10(40))))))
		}
	}
}

// ---------------------------------------------------------------- estimates

func (e *rtEngine) queryEstIn(path []rtHop, amt *big.Int) (*big.Int, bool) {
	var routes []pmtypes.SwapAmountInRoute
	for _, hp := range path {
		routes = append(routes, pmtypes.SwapAmountInRoute{PoolId: hp.pool, TokenOutDenom: hp.dout})
	}
	if len(path) == 0 {
		return nil, false
	}
	var res *big.Int
	var err error
	ok := catch(func() {
		var resp *queryproto.EstimateSwapExactAmountInResponse
		resp, err = e.q.EstimateSwapExactAmountIn(e.h.Ctx, &queryproto.EstimateSwapExactAmountInRequest{TokenIn: amt.String() + path[0].din, Routes: routes})
		if err == nil {
			res = resp.TokenOutAmount.BigInt()
		}
	})
	if !ok || err != nil {
		return nil, false
	}
	return res, true
}

func (e *rtEngine) queryEstOut(path []rtHop, out *big.Int) (*big.Int, bool) {
	var routes []pmtypes.SwapAmountOutRoute
	for _, hp := range path {
		routes = append(routes, pmtypes.SwapAmountOutRoute{PoolId: hp.pool, TokenInDenom: hp.din})
	}
	if len(path) == 0 {
		return nil, false
	}
	var res *big.Int
	var err error
	ok := catch(func() {
		var resp *queryproto.EstimateSwapExactAmountOutResponse
		resp, err = e.q.EstimateSwapExactAmountOut(e.h.Ctx, &queryproto.EstimateSwapExactAmountOutRequest{TokenOut: out.String() + path[len(path)-1].dout, Routes: routes})
		if err == nil {
			res = resp.TokenInAmount.BigInt()
		}
	})
	if !ok || err != nil {
		return nil, false
	}
	return res, true
}

// estimate query on the current state: purity (iv), the model's estimate line, returns the estimate.
func (e *rtEngine) estimate(exactIn bool, path []rtHop, amt *big.Int) (*big.Int, bool) {
	if len(path) == 0 {
		return nil, false
	}
	before := e.digest(e.h.Ctx)
	var est *big.Int
	var ok bool
	if exactIn {
		est, ok = e.queryEstIn(path, amt)
	} else {
		est, ok = e.queryEstOut(path, amt)
	}
	if e.digest(e.h.Ctx) != before {
		e.o.Fail("estimate:changed-state", fmt.Sprintf("op %d exactIn=%v %v %s", e.opn, exactIn, path, amt))
	}
	obs := "err"
	if ok {
		obs = "ok " + est.String()
	}
	if exactIn {
		entries, _, _ := e.estChainIn(e.h.Ctx, true, path, amt)
		e.o.Emit(fmt.Sprintf("router estin 1 %s %s %s %s", path[0].din, amt, stepsIn(path), joinOrDash(entries)), obs, true)
		if e.r.Intn(8) == 0 { // the NoTakerFee variant (keeper API used by x/txfees)
			var routes []pmtypes.SwapAmountInRoute
			for _, hp := range path {
				routes = append(routes, pmtypes.SwapAmountInRoute{PoolId: hp.pool, TokenOutDenom: hp.dout})
			}
			var v osmomath.Int
			var err error
			okc := catch(func() {
				v, err = e.h.App.PoolManagerKeeper.MultihopEstimateOutGivenExactAmountInNoTakerFee(e.h.Ctx, routes, sdk.NewCoin(path[0].din, bi(amt)))
			})
			entries2, _, _ := e.estChainIn(e.h.Ctx, false, path, amt)
			o2 := "err"
			if okc && err == nil {
				o2 = "ok " + v.String()
			}
			e.o.Emit(fmt.Sprintf("router estin 0 %s %s %s %s", path[0].din, amt, stepsIn(path), joinOrDash(entries2)), o2, true)
			e.o.Count("estimate.no-taker-fee")
		}
	} else {
		entries, _, _ := e.estChainOut(e.h.Ctx, 0, path, amt)
		e.o.Emit(fmt.Sprintf("router estout %s %s %s %s", path[len(path)-1].dout, amt, stepsOut(path), joinOrDash(entries)), obs, true)
	}
	return est, ok
}

func (e *rtEngine) judgeEstimate(kind string, path []rtHop, sender sdk.AccAddress, est *big.Int, estOK bool, executed *big.Int, line string) {
	o := e.o
	wl := e.wl[sender.String()]
	sub := e.mix(path)
	if !distinctPools(path) {
		// recorded, not judged
		if estOK && est.Cmp(executed) == 0 {
			o.Count("estimate.revisit." + kind + ".equal")
		} else {
			o.Count("estimate.revisit." + kind + ".differs")
		}
		return
	}
	if wl {
		// the query has no sender: it always charges the taker fee
		anyFee := false
		for _, hp := range path {
			if e.feeRaw(e.h.Ctx, hp.din, hp.dout).Sign() != 0 {
				anyFee = true
			}
		}
		if !estOK || est.Cmp(executed) != 0 {
			if anyFee {
				o.Fail("estimate!=execute:"+kind+":whitelisted-sender:"+sub, fmt.Sprintf("%s est %v executed %s", line, est, executed))
			} else {
				o.Fail("estimate!=execute:"+kind+":"+sub, fmt.Sprintf("%s est %v executed %s (whitelisted, zero fees)", line, est, executed))
			}
		} else {
			o.Count("estimate.eq." + kind + ".whitelisted")
		}
		return
	}
	if !estOK {
		o.Fail("estimate!=execute:"+kind+":estimate-failed:"+sub, line)
		return
	}
	if est.Cmp(executed) != 0 {
		o.Fail("estimate!=execute:"+kind+":"+sub, fmt.Sprintf("%s est %s executed %s", line, est, executed))
		return
	}
	o.Count("estimate.eq." + kind)
}

// ---------------------------------------------------------------- ops

func (e *rtEngine) opRouteIn() {
	o := e.o
	path := e.genPath()
	sender := e.accs[1+e.r.Intn(2)]
	if e.r.Intn(10) == 0 {
		sender = e.accs[0]
	}
	e.topUp(sender)
	var amt *big.Int
	if len(path) > 0 && e.pool(path[0].pool) != nil {
		amt = e.randAmountFor(e.reserve(e.h.Ctx, path[0].pool, path[0].din))
	} else {
		amt = big.NewInt(int64(1 + e.r.Intn(1000000)))
	}
	est, estOK := e.estimate(true, path, amt)
	minOut := e.limitAround(est, true)
	din := e.denoms[0]
	if len(path) > 0 {
		din = path[0].din
	}
	mix := e.mix(path)
	o.Count(fmt.Sprintf("in.hops%d", len(path)))
	o.Count("in.mix." + mix)
	d0 := e.digest(e.h.Ctx)

	// routed execution (branch A)
	actx, writeA := branch(e.h.Ctx)
	res, err := e.msgIn(actx, sender, path, amt, minOut)
	hopsA := e.parseSwapEvents(actx.EventManager().Events(), sender, true)

	// composition (branch B)
	bctx, _ := branch(e.h.Ctx)
	rp := e.replayIn(bctx, sender, path, amt, minOut)

	head := fmt.Sprintf("router in %s %s %s %s %s", e.accName(sender), din, amt, minOut, stepsIn(path))
	if err != nil {
		cls := errClass(err)
		if rp.hopFailed && cls == "limit" {
			// the router asks every non-final hop for at least ONE unit out: a hop whose output rounds to zero fails with the
			// pool's own min-amount error, which carries the same Go error value as the caller's limit; it is a failure of
			// the hop (class other, as the model and the composition see it), not of the caller's minimum
			cls = "other"
			o.Count("in.err.hop-output-rounds-to-zero")
		}
		o.Emit(head+" "+joinOrDash(rp.entries), "err "+cls, true)
		o.Count("in.err." + cls)
		if rp.ok {
			o.Fail("route-in:composition:routed-failed-hops-succeed:"+mix, fmt.Sprintf("%s: %v", head, err))
		} else if rp.class != cls {
			o.Fail("route-in:composition:error-class:"+mix, fmt.Sprintf("%s routed %s hops %s: %v", head, cls, rp.class, err))
		}
		if e.digest(e.h.Ctx) != d0 {
			o.Fail("failure:state-changed", head)
		}
		if e.digest(actx) != d0 {
			o.Count("failure.partial-writes-in-discarded-branch")
		}
		return
	}
	// success
	entries := exEntriesIn(path, hopsA, amt)
	obs := fmt.Sprintf("ok %s fees=%s net=%s hops=%s", res, e.ledger(e.h.Ctx, actx, e.feeAcc), e.ledger(e.h.Ctx, actx, sender), hopsStr(hopsA))
	o.Emit(head+" "+joinOrDash(entries), obs, true)
	o.Count("in.ok")
	if !rp.ok {
		o.Fail("route-in:composition:routed-succeeds-hops-fail:"+mix, head)
	} else {
		if rp.amount.Cmp(res) != 0 || !sameHops(hopsA, rp.hops) {
			o.Fail("route-in:composition:"+mix, fmt.Sprintf("%s routed %s [%s] hops %s [%s]", head, res, hopsStr(hopsA), rp.amount, hopsStr(rp.hops)))
		} else if e.digest(actx) != e.digest(bctx) {
			o.Fail("route-in:composition:state:"+mix, fmt.Sprintf("%s stores %s", head, e.diffStores(actx, bctx)))
		} else {
			o.Count("in.composition-checked")
		}
		e.checkFees(true, sender, path, rp, head)
	}
	if res.Cmp(minOut) < 0 {
		o.Fail("limit:min-out-violated:"+mix, fmt.Sprintf("%s got %s", head, res))
	}
	if len(hopsA) > 0 && hopsA[len(hopsA)-1].out.Amount.BigInt().Cmp(res) != 0 {
		o.Fail("route-in:response!=last-hop-output:"+mix, head)
	}
	if minOut.Cmp(res) == 0 {
		o.Count("in.limit-exactly-met")
	}
	e.judgeEstimate("in", path, sender, est, estOK, res, head)
	writeA()
}

// per-hop taker fee against the stated formula
func (e *rtEngine) checkFees(exactIn bool, sender sdk.AccAddress, path []rtHop, rp replayRes, head string) {
	for i, hp := range path {
		if i >= len(rp.hops) {
			break
		}
		fee := e.feeRaw(e.h.Ctx, hp.din, hp.dout)
		var want *big.Int
		poolIn := rp.hops[i].in.Amount.BigInt()
		kind := "out"
		if e.wl[sender.String()] {
			want = big.NewInt(0)
		} else if exactIn {
			_, want = oracleFeeIn(rp.fed[i], fee)
		} else {
			var ok bool
			_, want, ok = oracleFeeOut(poolIn, fee)
			if !ok {
				continue
			}
		}
		if exactIn {
			kind = "in"
			// the pool takes what is left after the fee (a concentrated pool at its price limit may take less)
			left := new(big.Int).Sub(rp.fed[i], rp.hops[i].fee)
			if poolIn.Cmp(left) != 0 {
				pk := "none"
				if p := e.pool(hp.pool); p != nil {
					pk = p.kind
				}
				if pk == "cl" && poolIn.Cmp(left) < 0 {
					e.o.Count("in.pool-took-less-than-offered:cl")
				} else {
					e.o.Fail("route-in:pool-input!=amount-after-fee:"+pk, fmt.Sprintf("%s hop %d fed %s fee %s pool took %s", head, i, rp.fed[i], rp.hops[i].fee, poolIn))
				}
			}
		}
		if want.Cmp(rp.hops[i].fee) != 0 {
			e.o.Fail("taker-fee:formula:"+kind, fmt.Sprintf("%s hop %d fee %s charged %s want %s", head, i, fee, rp.hops[i].fee, want))
		} else {
			e.o.Count("fee.formula-checked")
		}
	}
}

func (e *rtEngine) opRouteOut() {
	o := e.o
	path := e.genPath()
	sender := e.accs[1+e.r.Intn(2)]
	e.topUp(sender)
	var out *big.Int
	if n := len(path); n > 0 && e.pool(path[n-1].pool) != nil {
		ref := e.reserve(e.h.Ctx, path[n-1].pool, path[n-1].dout)
		out = e.randAmountFor(ref)
		if e.r.Intn(3) != 0 && out.Cmp(ref) >= 0 { // mostly fillable
			out = new(big.Int).Quo(ref, big.NewInt(int64(2+e.r.Intn(50))))
			if out.Sign() <= 0 {
				out = big.NewInt(1)
			}
		}
	} else {
		out = big.NewInt(int64(1 + e.r.Intn(1000000)))
	}
	est, estOK := e.estimate(false, path, out)
	maxIn := e.limitAround(est, false)
	dout := e.denoms[0]
	if len(path) > 0 {
		dout = path[len(path)-1].dout
	}
	mix := e.mix(path)
	o.Count(fmt.Sprintf("out.hops%d", len(path)))
	o.Count("out.mix." + mix)
	d0 := e.digest(e.h.Ctx)
	estEntries, ins, chainOK := e.estChainOut(e.h.Ctx, 0, path, out)
	if estOK && chainOK && e.r.Intn(4) == 0 && !e.wl[sender.String()] {
		// a maximum between what the first pool takes and what the sender pays including the taker fee
		if in0, ok := e.probeCalc(e.h.Ctx, false, path[0], func() *big.Int {
			if len(path) == 1 {
				return out
			}
			return ins[1]
		}()); ok && in0.Cmp(est) < 0 {
			maxIn = new(big.Int).Add(in0, new(big.Int).Rand(e.r, new(big.Int).Sub(est, in0)))
			o.Count("out.max-between-pool-input-and-total")
		}
	}
	// the sender can always pay
	if estOK && est.BitLen() < 250 {
		if have := e.bal(e.h.Ctx, sender, path[0].din); have.Cmp(new(big.Int).Mul(est, big.NewInt(4))) < 0 {
			e.h.FundAcc(sender, sdk.NewCoins(sdk.NewCoin(path[0].din, bi(new(big.Int).Mul(est, big.NewInt(4))))))
			d0 = e.digest(e.h.Ctx)
		}
	}

	actx, writeA := branch(e.h.Ctx)
	res, err := e.msgOut(actx, sender, path, out, maxIn)
	hopsA := e.parseSwapEvents(actx.EventManager().Events(), sender, false)

	bctx, _ := branch(e.h.Ctx)
	rp := e.replayOut(bctx, sender, path, out, maxIn, ins)

	head := fmt.Sprintf("router out %s %s %s %s %s %s", e.accName(sender), dout, out, maxIn, stepsOut(path), joinOrDash(estEntries))
	if err != nil {
		cls := errClass(err)
		o.Emit(head+" "+joinOrDash(rp.entries), "err "+cls, true)
		o.Count("out.err." + cls)
		if rp.ok {
			o.Fail("route-out:composition:routed-failed-hops-succeed:"+mix, fmt.Sprintf("%s: %v", head, err))
		} else if rp.class != cls {
			o.Fail("route-out:composition:error-class:"+mix, fmt.Sprintf("%s routed %s hops %s: %v", head, cls, rp.class, err))
		}
		if e.digest(e.h.Ctx) != d0 {
			o.Fail("failure:state-changed", head)
		}
		if e.digest(actx) != d0 {
			o.Count("failure.partial-writes-in-discarded-branch")
		}
		return
	}
	var entries []string
	for i, hb := range hopsA {
		if i < len(path) && ins != nil {
			req := out
			if i < len(path)-1 {
				req = ins[i+1]
			}
			entries = append(entries, exEntryOut(path[i], req, hb.in.Amount.BigInt(), hb.out.Amount.BigInt()))
		}
	}
	obs := fmt.Sprintf("ok %s fees=%s net=%s hops=%s", res, e.ledger(e.h.Ctx, actx, e.feeAcc), e.ledger(e.h.Ctx, actx, sender), hopsStr(hopsA))
	o.Emit(head+" "+joinOrDash(entries), obs, true)
	o.Count("out.ok")
	if !rp.ok {
		o.Fail("route-out:composition:routed-succeeds-hops-fail:"+mix, head)
	} else {
		if rp.amount.Cmp(res) != 0 || !sameHops(hopsA, rp.hops) {
			o.Fail("route-out:composition:"+mix, fmt.Sprintf("%s routed %s [%s] hops %s [%s]", head, res, hopsStr(hopsA), rp.amount, hopsStr(rp.hops)))
		} else if e.digest(actx) != e.digest(bctx) {
			o.Fail("route-out:composition:state:"+mix, fmt.Sprintf("%s stores %s", head, e.diffStores(actx, bctx)))
		} else {
			o.Count("out.composition-checked")
		}
		e.checkFees(false, sender, path, rp, head)
	}
	if res.Cmp(maxIn) > 0 {
		o.Fail("limit:max-in-violated:route:"+mix, fmt.Sprintf("%s charged %s max %s (first pool took %s)", head, res, maxIn, hopsA[0].in.Amount))
	}
	if res.Cmp(maxIn) == 0 {
		o.Count("out.limit-exactly-met")
	}
	// exact-out delivers the exact amount
	for i, hb := range hopsA {
		if i >= len(path) || ins == nil {
			break
		}
		req := out
		if i < len(path)-1 {
			req = ins[i+1]
		}
		if hb.out.Amount.BigInt().Cmp(req) != 0 {
			k := e.pool(path[i].pool).kind
			if i == len(path)-1 {
				o.Fail("route-out:delivered!=requested:last-hop:"+k, fmt.Sprintf("%s requested %s delivered %s paid %s", head, req, hb.out.Amount, res))
			} else {
				o.Fail("route-out:delivered!=requested:inner-hop:"+k, fmt.Sprintf("%s hop %d requested %s delivered %s", head, i, req, hb.out.Amount))
			}
		}
	}
	e.judgeEstimate("out", path, sender, est, estOK, res, head)
	writeA()
}

type rtLeg struct {
	path []rtHop
	amt  *big.Int
}

func (e *rtEngine) genLegs() []rtLeg {
	for tries := 0; tries < 30; tries++ {
		first := e.genPath()
		if len(first) == 0 {
			continue
		}
		start, end := first[0].din, first[len(first)-1].dout
		legs := []rtLeg{{path: first}}
		want := 2 + e.r.Intn(2)
		for t := 0; t < 60 && len(legs) < want; t++ {
			p := e.randPath(start, 1+e.r.Intn(3), false)
			if len(p) == 0 || p[len(p)-1].dout != end {
				continue
			}
			dup := false
			for _, l := range legs {
				if fmt.Sprint(l.path) == fmt.Sprint(p) {
					dup = true
				}
			}
			if !dup {
				legs = append(legs, rtLeg{path: p})
			}
		}
		if len(legs) >= 2 || e.r.Intn(4) == 0 {
			if e.r.Intn(30) == 0 && len(legs) >= 1 { // duplicate legs
				legs = append(legs, rtLeg{path: legs[e.r.Intn(len(legs))].path})
				e.o.Count("split.duplicate-legs")
			}
			return legs
		}
	}
	return nil
}

func (e *rtEngine) opSplitIn() {
	o := e.o
	legs := e.genLegs()
	if legs == nil {
		return
	}
	sender := e.accs[1+e.r.Intn(2)]
	e.topUp(sender)
	din := legs[0].path[0].din
	var msgRoutes []pmtypes.SwapAmountInSplitRoute
	var legStr []string
	sumEst := new(big.Int)
	estAll := true
	for i := range legs {
		legs[i].amt = e.randAmountFor(e.reserve(e.h.Ctx, legs[i].path[0].pool, din))
		var rs []pmtypes.SwapAmountInRoute
		for _, hp := range legs[i].path {
			rs = append(rs, pmtypes.SwapAmountInRoute{PoolId: hp.pool, TokenOutDenom: hp.dout})
		}
		msgRoutes = append(msgRoutes, pmtypes.SwapAmountInSplitRoute{Pools: rs, TokenInAmount: bi(legs[i].amt)})
		legStr = append(legStr, fmt.Sprintf("%s %s", legs[i].amt, stepsIn(legs[i].path)))
		if x, ok := e.queryEstIn(legs[i].path, legs[i].amt); ok {
			sumEst.Add(sumEst, x)
		} else {
			estAll = false
		}
	}
	var minOut *big.Int
	if estAll {
		minOut = e.limitAround(sumEst, true)
	} else {
		minOut = big.NewInt(1)
	}
	o.Count(fmt.Sprintf("splitin.legs%d", len(legs)))
	d0 := e.digest(e.h.Ctx)
	actx, writeA := branch(e.h.Ctx)
	var res *big.Int
	var err error
	if !catch(func() {
		var resp *pmtypes.MsgSplitRouteSwapExactAmountInResponse
		resp, err = e.ms.SplitRouteSwapExactAmountIn(actx, &pmtypes.MsgSplitRouteSwapExactAmountIn{Sender: sender.String(), Routes: msgRoutes, TokenInDenom: din, TokenOutMinAmount: bi(minOut)})
		if err == nil {
			res = resp.TokenOutAmount.BigInt()
		}
	}) {
		err = fmt.Errorf("panic")
	}
	hopsA := e.parseSwapEvents(actx.EventManager().Events(), sender, true)

	// legs one after another through the non-split message
	bctx, _ := branch(e.h.Ctx)
	sum := new(big.Int)
	var entries []string
	var hopsB []hopObs
	legsOK := true
	dup := false
	for i := 1; i < len(legs); i++ { // the message is rejected when two ADJACENT legs have the same route
		if fmt.Sprint(legs[i].path) == fmt.Sprint(legs[i-1].path) {
			dup = true
		}
	}
	cls := "other"
	if !dup {
		for _, l := range legs {
			nctx, write := branch(bctx)
			y, lerr := e.msgIn(nctx, sender, l.path, l.amt, big.NewInt(1))
			if lerr != nil {
				pctx, _ := branch(bctx)
				rp := e.replayIn(pctx, sender, l.path, l.amt, big.NewInt(1))
				entries = append(entries, rp.entries...)
				legsOK = false
				cls = rp.class
				break
			}
			write()
			hs := e.parseSwapEvents(nctx.EventManager().Events(), sender, true)
			entries = append(entries, exEntriesIn(l.path, hs, l.amt)...)
			hopsB = append(hopsB, hs...)
			sum.Add(sum, y)
		}
		if legsOK && sum.Cmp(minOut) < 0 {
			legsOK = false
			cls = "limit"
		}
	} else {
		legsOK = false
		entries = nil
	}
	head := fmt.Sprintf("router splitin %s %s %s", e.accName(sender), din, minOut)
	tail := strings.Join(legStr, " ")
	if err != nil {
		c := errClass(err)
		o.Emit(head+" "+joinOrDash(entries)+" "+tail, "err "+c, true)
		o.Count("splitin.err." + c)
		if legsOK {
			o.Fail("split:sum:in:routed-failed-legs-succeed", fmt.Sprintf("%s %s: %v", head, tail, err))
		} else if c != cls {
			o.Fail("split:sum:in:error-class", fmt.Sprintf("%s %s routed %s legs %s: %v", head, tail, c, cls, err))
		}
		if e.digest(e.h.Ctx) != d0 {
			o.Fail("failure:state-changed", head)
		}
		if e.digest(actx) != d0 {
			o.Count("failure.partial-writes-in-discarded-branch")
		}
		return
	}
	var entriesA []string
	k := 0
	for _, l := range legs {
		hi := k + len(l.path)
		if hi > len(hopsA) {
			hi = len(hopsA)
		}
		if k < hi {
			entriesA = append(entriesA, exEntriesIn(l.path, hopsA[k:hi], l.amt)...)
		}
		k += len(l.path)
	}
	obs := fmt.Sprintf("ok %s fees=%s net=%s hops=%s", res, e.ledger(e.h.Ctx, actx, e.feeAcc), e.ledger(e.h.Ctx, actx, sender), hopsStr(hopsA))
	o.Emit(head+" "+joinOrDash(entriesA)+" "+tail, obs, true)
	o.Count("splitin.ok")
	if !legsOK {
		o.Fail("split:sum:in:routed-succeeds-legs-fail", head+" "+tail)
	} else if sum.Cmp(res) != 0 || !sameHops(hopsA, hopsB) {
		o.Fail("split:sum:in", fmt.Sprintf("%s %s split %s legs %s", head, tail, res, sum))
	} else if e.digest(actx) != e.digest(bctx) {
		o.Fail("split:sum:in:state", fmt.Sprintf("%s %s stores %s", head, tail, e.diffStores(actx, bctx)))
	} else {
		o.Count("splitin.sum-checked")
	}
	if res.Cmp(minOut) < 0 {
		o.Fail("limit:min-out-violated:split", fmt.Sprintf("%s %s got %s", head, tail, res))
	}
	writeA()
}

func (e *rtEngine) opSplitOut() {
	o := e.o
	legs := e.genLegs()
	if legs == nil {
		return
	}
	sender := e.accs[1+e.r.Intn(2)]
	e.topUp(sender)
	n0 := len(legs[0].path)
	dout := legs[0].path[n0-1].dout
	var msgRoutes []pmtypes.SwapAmountOutSplitRoute
	var legStr []string
	sumEst := new(big.Int)
	estAll := true
	for i := range legs {
		p := legs[i].path
		ref := e.reserve(e.h.Ctx, p[len(p)-1].pool, dout)
		legs[i].amt = new(big.Int).Quo(ref, big.NewInt(int64(3+e.r.Intn(3000))))
		if e.r.Intn(10) == 0 {
			legs[i].amt = e.randAmountFor(ref)
		}
		if legs[i].amt.Sign() <= 0 {
			legs[i].amt = big.NewInt(1)
		}
		var rs []pmtypes.SwapAmountOutRoute
		for _, hp := range p {
			rs = append(rs, pmtypes.SwapAmountOutRoute{PoolId: hp.pool, TokenInDenom: hp.din})
		}
		msgRoutes = append(msgRoutes, pmtypes.SwapAmountOutSplitRoute{Pools: rs, TokenOutAmount: bi(legs[i].amt)})
		legStr = append(legStr, fmt.Sprintf("%s %s", legs[i].amt, stepsOut(p)))
		if x, ok := e.queryEstOut(p, legs[i].amt); ok {
			sumEst.Add(sumEst, x)
		} else {
			estAll = false
		}
	}
	var maxIn *big.Int
	if estAll {
		maxIn = e.limitAround(sumEst, false)
	} else {
		maxIn = e.sc(pow10(38))
	}
	o.Count(fmt.Sprintf("splitout.legs%d", len(legs)))
	d0 := e.digest(e.h.Ctx)
	actx, writeA := branch(e.h.Ctx)
	var res *big.Int
	var err error
	if !catch(func() {
		var resp *pmtypes.MsgSplitRouteSwapExactAmountOutResponse
		resp, err = e.ms.SplitRouteSwapExactAmountOut(actx, &pmtypes.MsgSplitRouteSwapExactAmountOut{Sender: sender.String(), Routes: msgRoutes, TokenOutDenom: dout, TokenInMaxAmount: bi(maxIn)})
		if err == nil {
			res = resp.TokenInAmount.BigInt()
		}
	}) {
		err = fmt.Errorf("panic")
	}
	hopsA := e.parseSwapEvents(actx.EventManager().Events(), sender, false)

	bctx, _ := branch(e.h.Ctx)
	sum := new(big.Int)
	var entries, ests []string
	var hopsB []hopObs
	legsOK := true
	dup := false
	for i := 1; i < len(legs); i++ { // the message is rejected when two ADJACENT legs have the same route
		if fmt.Sprint(legs[i].path) == fmt.Sprint(legs[i-1].path) {
			dup = true
		}
	}
	cls := "other"
	tm := 0
	if !dup {
		for _, l := range legs {
			ee, ins, _ := e.estChainOut(bctx, tm, l.path, l.amt)
			ests = append(ests, ee...)
			nctx, write := branch(bctx)
			x, lerr := e.msgOut(nctx, sender, l.path, l.amt, rtIntMax)
			if lerr != nil {
				pctx, _ := branch(bctx)
				rp := e.replayOut(pctx, sender, l.path, l.amt, rtIntMax, ins)
				entries = append(entries, rp.entries...)
				legsOK = false
				cls = rp.class
				break
			}
			write()
			hs := e.parseSwapEvents(nctx.EventManager().Events(), sender, false)
			for k, hb := range hs {
				if k < len(l.path) && ins != nil {
					req := l.amt
					if k < len(l.path)-1 {
						req = ins[k+1]
					}
					entries = append(entries, exEntryOut(l.path[k], req, hb.in.Amount.BigInt(), hb.out.Amount.BigInt()))
				}
			}
			tm += len(hs)
			hopsB = append(hopsB, hs...)
			sum.Add(sum, x)
		}
		if legsOK && sum.Cmp(maxIn) > 0 {
			legsOK = false
			cls = "limit"
		}
	} else {
		legsOK = false
		entries, ests = nil, nil
	}
	head := fmt.Sprintf("router splitout %s %s %s %s", e.accName(sender), dout, maxIn, joinOrDash(ests))
	tail := strings.Join(legStr, " ")
	if err != nil {
		c := errClass(err)
		o.Emit(head+" "+joinOrDash(entries)+" "+tail, "err "+c, true)
		o.Count("splitout.err." + c)
		if legsOK {
			o.Fail("split:sum:out:routed-failed-legs-succeed", fmt.Sprintf("%s %s: %v", head, tail, err))
		} else if c != cls {
			o.Fail("split:sum:out:error-class", fmt.Sprintf("%s %s routed %s legs %s: %v", head, tail, c, cls, err))
		}
		if e.digest(e.h.Ctx) != d0 {
			o.Fail("failure:state-changed", head)
		}
		if e.digest(actx) != d0 {
			o.Count("failure.partial-writes-in-discarded-branch")
		}
		return
	}
	obs := fmt.Sprintf("ok %s fees=%s net=%s hops=%s", res, e.ledger(e.h.Ctx, actx, e.feeAcc), e.ledger(e.h.Ctx, actx, sender), hopsStr(hopsA))
	// the routed execution's own events give the same entries iff the legs agree (checked below)
	o.Emit(head+" "+joinOrDash(entries)+" "+tail, obs, true)
	o.Count("splitout.ok")
	if !legsOK {
		o.Fail("split:sum:out:routed-succeeds-legs-fail", head+" "+tail)
	} else if sum.Cmp(res) != 0 || !sameHops(hopsA, hopsB) {
		o.Fail("split:sum:out", fmt.Sprintf("%s %s split %s legs %s", head, tail, res, sum))
	} else if e.digest(actx) != e.digest(bctx) {
		o.Fail("split:sum:out:state", fmt.Sprintf("%s %s stores %s", head, tail, e.diffStores(actx, bctx)))
	} else {
		o.Count("splitout.sum-checked")
	}
	if res.Cmp(maxIn) > 0 {
		o.Fail("limit:max-in-violated:split", fmt.Sprintf("%s %s charged %s", head, tail, res))
	}
	writeA()
}

func runRouter(t *testing.T, seed int64, n int, dir string) {
	r := rand.New(rand.NewSource(seed))
	o := NewOut(dir)
	h := newH(t)
	done := 0
	for done < n {
		h.Reset()
		e := &rtEngine{h: h, o: o, r: r}
		e.ms = poolmanager.NewMsgServerImpl(h.App.PoolManagerKeeper)
		e.q = pmgrpc.Querier{Q: pmclient.NewQuerier(h.App.PoolManagerKeeper)}
		e.feeAcc = h.App.AccountKeeper.GetModuleAddress(txfeestypes.TakerFeeCollectorName)
		for name := range h.App.GetKVStoreKey() {
			e.keys = append(e.keys, name)
		}
		sort.Strings(e.keys)
		h.App.PoolManagerKeeper.VerifRestartShareCaches(h.Ctx)
		e.setup()
		e.priorActivity()
		e.configureFees()
		if r.Intn(3) == 0 {
			e.shareState()
		}
		if r.Intn(4) == 0 {
			e.exportImport("")
		}
		directedAt := -1
		if r.Intn(3) == 0 {
			directedAt = r.Intn(12)
		}
		nops := 12 + r.Intn(14)
		for i := 0; i < nops && done < n; i++ {
			if e.poolUnderfunded() {
				// environment corrupted by the balancer defect tracked under C02 (a swap that takes an entire reserve leaves the
				// pool record unchanged while the pool account is emptied): pool swaps then fail in the bank send, which is not a
				// router matter.  The history ends here.
				o.Count("env.balancer-pool-account-below-recorded-reserves:history-ended")
				break
			}
			done++
			e.opn++
			if i == directedAt {
				e.staleOverrideSequence()
			} else if r.Intn(12) == 0 {
				if r.Intn(3) == 0 {
					e.shareState()
				}
				e.exportImport("")
			}
			switch k := r.Intn(100); {
			case k < 40:
				e.opRouteIn()
			case k < 75:
				e.opRouteOut()
			case k < 87:
				e.opSplitIn()
			case k < 97:
				e.opSplitOut()
			default:
				// reconfigure
				switch r.Intn(3) {
				case 0:
					ds := r.Perm(len(e.denoms))
					f := e.randFee()
					if r.Intn(3) == 0 && e.defFee != nil {
						f = new(big.Int).Set(e.defFee) // back to the default: the custom entry must go
					}
					e.setPairFee(e.denoms[ds[0]], e.denoms[ds[1]], f)
				case 1:
					def := e.randFee()
					h.App.PoolManagerKeeper.SetParam(h.Ctx, pmtypes.KeyDefaultTakerFee, sd(def))
					e.defFee = def
					o.Emit(fmt.Sprintf("router setdefault %s", def), "ok", true)
					o.Count("cfg.setdefault")
				default:
					e.setWhitelist()
				}
				ds := r.Perm(len(e.denoms))
				e.checkFee(e.denoms[ds[0]], e.denoms[ds[1]])
				e.checkFee(e.denoms[ds[1]], e.denoms[ds[0]])
			}
		}
	}
	o.Close(nil)
}
