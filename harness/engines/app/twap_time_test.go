package app_test

// Engine `twap` (property C10), third part: how an INSTANT reaches the keeper, and sub-millisecond structure.
//
// (1) Time representation classes.  A time.Time is an instant plus a Location (plus, from time.Now, a monotonic clock
// reading).  The twap keeper formats times into store keys and compares them with Equal / After: the answer for an
// instant must not depend on how the caller's value happens to be represented.  Every query the engine makes (single-pool
// and world histories, before / after pruning) is asked
//   - as the primary question (compared with the Lean model and judged from the engine's own log) in a representation
//     drawn by pickRep: UTC, t.In(fixed zone UTC+5 / UTC-8 / +00:20 / +14:00 / -12:00), t.In(a tz database zone with DST
//     and half-hour offsets), time.Unix(sec, nsec) on a host whose time.Local is such a zone (and the host's own),
//     time.Parse(RFC3339Nano) of a string with an offset, time.Now().Add(…) (monotonic reading, Local), start and end in
//     two different zones;
//   - again by locCheck: the UTC question through the keeper API is the reference; variants in other representations,
//     through the keeper API, through client.Querier (the Go wrapper the gRPC server calls) and through the app's gRPC
//     query router (protobuf round trip of the request: decodes to UTC) must return the same (status, value, flag):
//     `query:answer-depends-on-time-location:<arith|geom>:<representation>:<zone>`, `query:answer-depends-on-api-path:…`.
// Block times stay UTC (that is what consensus delivers).  One history in six hands FinalizeBlock / the next header a
// time carrying a non-UTC Location: the SDK context normalises it (counted as an observation, never a failure).
//
// (2) Sub-millisecond structure.  shapeSubMs puts block times exactly on a millisecond boundary, 1 ns after / before it,
// 0.3 / 0.7 ms into it; pickTime asks on and 1 ns around such boundaries.  errHistory: DIRECTED drain / refill histories
// on both pool types — a concentrated pool whose last position is withdrawn and re-created, and a balancer pool whose
// price in one direction sits at the rounding boundary of 10^-18 (a swap of half the reserve pushes it to zero = "spot
// price error", the reverse swap brings it back) — where the drain record, the recovery record and the query start fall
// into the same millisecond, adjacent milliseconds, or far apart.  Oracle from the engine's own log of block times and
// its own reads of the pool: an interval is flagged iff the price of an error record is in force at some instant of it
// (`errorflag:not-flagged:<class>` / `errorflag:spurious:<class>`), for both strategies, start == end included.

import (
	"context"
	"fmt"
	"math/big"
	"sort"
	"strings"
	"time"
	_ "time/tzdata" // the tz database zones below do not depend on the host

	"github.com/cosmos/cosmos-sdk/baseapp"
	sdk "github.com/cosmos/cosmos-sdk/types"

	"github.com/osmosis-labs/osmosis/osmomath"
	cl "github.com/osmosis-labs/osmosis/v31/x/concentrated-liquidity"
	cltypes "github.com/osmosis-labs/osmosis/v31/x/concentrated-liquidity/types"
	"github.com/osmosis-labs/osmosis/v31/x/gamm/pool-models/balancer"
	poolmanagertypes "github.com/osmosis-labs/osmosis/v31/x/poolmanager/types"
	twapclient "github.com/osmosis-labs/osmosis/v31/x/twap/client"
	"github.com/osmosis-labs/osmosis/v31/x/twap/client/queryproto"
	twaptypes "github.com/osmosis-labs/osmosis/v31/x/twap/types"
)

// ---------------------------------------------------------------- representations of an instant

var twZoneList []*time.Location

// twZones: fixed zones (whole hours both sides, 20 minutes, the extreme offsets) and tz database zones (DST, +05:30,
// +10:30/+11:00 half-hour DST, +14:00).
func twZones() []*time.Location {
	if twZoneList == nil {
		for _, z := range []struct {
			n string
			s int
		}{{"UTC+5", 5 * 3600}, {"UTC-8", -8 * 3600}, {"+00:20", 20 * 60}, {"+14:00", 14 * 3600}, {"-12:00", -12 * 3600}} {
			twZoneList = append(twZoneList, time.FixedZone(z.n, z.s))
		}
		for _, n := range []string{"America/Los_Angeles", "Asia/Kolkata", "Australia/Lord_Howe", "Pacific/Kiritimati"} {
			l, err := time.LoadLocation(n)
			if err != nil {
				panic("twap: tz database zone unavailable: " + n + ": " + err.Error())
			}
			twZoneList = append(twZoneList, l)
		}
	}
	return twZoneList
}

func twZone(name string) *time.Location {
	for _, z := range twZones() {
		if z.String() == name {
			return z
		}
	}
	panic("twap: unknown zone " + name)
}

var twRepFamilies = []string{"in", "unix-local", "rfc3339-offset", "monotonic"}

// pickRep: the representation of a primary question: UTC for half of them.
func (e *twEngine) pickRep() string {
	if e.r.Intn(2) == 0 {
		return ""
	}
	return e.pickForeignRep()
}

func (e *twEngine) pickForeignRep() string {
	r := e.r
	zs := twZones()
	z := zs[r.Intn(len(zs))].String()
	switch k := r.Intn(12); {
	case k == 0:
		return "unix-local:host"
	case k == 1:
		return "monotonic:host"
	case k == 2:
		return "mixed:" + z + "," + zs[r.Intn(len(zs))].String()
	default:
		return twRepFamilies[r.Intn(len(twRepFamilies))] + ":" + z
	}
}

// repTimes hands the two instants over in the representation `rep`.  restore undoes a temporary time.Local (a host
// in that zone for the duration of the call).
func (e *twEngine) repTimes(rep string, s, en time.Time) (rs, re time.Time, restore func()) {
	restore = func() {}
	if rep == "" {
		return s.UTC(), en.UTC(), restore
	}
	fam, arg, _ := strings.Cut(rep, ":")
	setLocal := func(name string) {
		if name == "host" {
			return
		}
		old := time.Local
		time.Local = twZone(name)
		restore = func() { time.Local = old }
	}
	switch fam {
	case "in":
		z := twZone(arg)
		rs, re = s.In(z), en.In(z)
	case "mixed":
		a, b, _ := strings.Cut(arg, ",")
		rs, re = s.In(twZone(a)), en.In(twZone(b))
	case "unix-local":
		setLocal(arg)
		rs, re = time.Unix(s.Unix(), int64(s.Nanosecond())), time.Unix(en.Unix(), int64(en.Nanosecond()))
	case "rfc3339-offset":
		z := twZone(arg)
		var e1, e2 error
		rs, e1 = time.Parse(time.RFC3339Nano, s.In(z).Format(time.RFC3339Nano))
		re, e2 = time.Parse(time.RFC3339Nano, en.In(z).Format(time.RFC3339Nano))
		if e1 != nil || e2 != nil {
			panic(fmt.Sprint("twap: RFC3339 round trip failed: ", e1, e2))
		}
	case "monotonic":
		// both values derive from ONE clock reading, so that the monotonic readings differ by exactly end - start
		// (comparisons between two values with readings use the readings alone)
		setLocal(arg)
		base := time.Now()
		rs, re = base.Add(s.Sub(base)), base.Add(en.Sub(base))
		if strings.Contains(rs.String(), " m=") {
			e.o.Count("rep.monotonic.reading-present")
		} else {
			e.o.Count("rep.monotonic.reading-dropped(year>2157)")
		}
	default:
		panic("twap: unknown representation " + rep)
	}
	if !rs.Equal(s) || !re.Equal(en) || nsOf(rs).Cmp(nsOf(s)) != 0 || nsOf(re).Cmp(nsOf(en)) != 0 {
		panic(fmt.Sprintf("twap: representation %s changed the instant: %s -> %s, %s -> %s", rep, s, rs, en, re))
	}
	return rs, re, restore
}

// callTwap: one question, through q.path, in representation q.rep.
func (e *twEngine) callTwap(ctx sdk.Context, q *twQuery, base, quote string) (osmomath.Dec, error) {
	s, en, restore := e.repTimes(q.rep, q.s, q.e)
	defer restore()
	k := e.h.App.TwapKeeper
	switch q.path {
	case "":
		switch {
		case q.geom && q.toNow:
			return k.GetGeometricTwapToNow(ctx, e.poolId, base, quote, s)
		case q.geom:
			return k.GetGeometricTwap(ctx, e.poolId, base, quote, s, en)
		case q.toNow:
			return k.GetArithmeticTwapToNow(ctx, e.poolId, base, quote, s)
		default:
			return k.GetArithmeticTwap(ctx, e.poolId, base, quote, s, en)
		}
	case "querier":
		qr := twapclient.Querier{K: *k}
		switch {
		case q.geom && q.toNow:
			res, err := qr.GeometricTwapToNow(ctx, queryproto.GeometricTwapToNowRequest{PoolId: e.poolId, BaseAsset: base, QuoteAsset: quote, StartTime: s})
			return res.GeometricTwap, err
		case q.geom:
			res, err := qr.GeometricTwap(ctx, queryproto.GeometricTwapRequest{PoolId: e.poolId, BaseAsset: base, QuoteAsset: quote, StartTime: s, EndTime: &en})
			return res.GeometricTwap, err
		case q.toNow:
			res, err := qr.ArithmeticTwapToNow(ctx, queryproto.ArithmeticTwapToNowRequest{PoolId: e.poolId, BaseAsset: base, QuoteAsset: quote, StartTime: s})
			return res.ArithmeticTwap, err
		default:
			res, err := qr.ArithmeticTwap(ctx, queryproto.ArithmeticTwapRequest{PoolId: e.poolId, BaseAsset: base, QuoteAsset: quote, StartTime: s, EndTime: &en})
			return res.ArithmeticTwap, err
		}
	case "grpc":
		c := queryproto.NewQueryClient(&baseapp.QueryServiceTestHelper{GRPCQueryRouter: e.h.App.GRPCQueryRouter(), Ctx: ctx})
		bg := context.Background()
		switch {
		case q.geom && q.toNow:
			res, err := c.GeometricTwapToNow(bg, &queryproto.GeometricTwapToNowRequest{PoolId: e.poolId, BaseAsset: base, QuoteAsset: quote, StartTime: s})
			if err != nil {
				return osmomath.Dec{}, err
			}
			return res.GeometricTwap, nil
		case q.geom:
			res, err := c.GeometricTwap(bg, &queryproto.GeometricTwapRequest{PoolId: e.poolId, BaseAsset: base, QuoteAsset: quote, StartTime: s, EndTime: &en})
			if err != nil {
				return osmomath.Dec{}, err
			}
			return res.GeometricTwap, nil
		case q.toNow:
			res, err := c.ArithmeticTwapToNow(bg, &queryproto.ArithmeticTwapToNowRequest{PoolId: e.poolId, BaseAsset: base, QuoteAsset: quote, StartTime: s})
			if err != nil {
				return osmomath.Dec{}, err
			}
			return res.ArithmeticTwap, nil
		default:
			res, err := c.ArithmeticTwap(bg, &queryproto.ArithmeticTwapRequest{PoolId: e.poolId, BaseAsset: base, QuoteAsset: quote, StartTime: s, EndTime: &en})
			if err != nil {
				return osmomath.Dec{}, err
			}
			return res.ArithmeticTwap, nil
		}
	}
	panic("twap: unknown path " + q.path)
}

// sameAnswer: does variant v give the reference's answer?  (The gRPC path returns the "may be faulty" error WITHOUT
// the value: a flagged reference answer corresponds to that error.)
func sameAnswer(ref, v *twQuery) bool {
	if v.path == "grpc" && ref.status == "ok" && ref.flag {
		return v.status == "flagged-without-value"
	}
	if ref.status != v.status {
		return false
	}
	if ref.status != "ok" {
		return true
	}
	return ref.v.Cmp(v.v) == 0 && ref.flag == v.flag
}

// locCheck: the answer for (s, e) must not depend on the Location / monotonic reading of the time values, nor on the
// API path.  Reference: the UTC question through the keeper API; k variants (and the primary question itself).
func (e *twEngine) locCheck(q *twQuery, now time.Time, k int) {
	r, o := e.r, e.o
	name := "arith"
	if q.geom {
		name = "geom"
	}
	ref := q
	if q.rep != "" || q.path != "" {
		ref = &twQuery{s: q.s, e: q.e, q0: q.q0, geom: q.geom, w: q.w}
		e.ask(ref, q.toNow)
	}
	cmp := func(v *twQuery) {
		fam, _, _ := strings.Cut(v.rep, ":")
		if v.rep == "" {
			fam = "utc"
		}
		o.Count("rep." + fam)
		pth := v.path
		if pth == "" {
			pth = "keeper"
		}
		o.Count("path." + pth)
		o.Count("query.location-compared")
		if sameAnswer(ref, v) {
			return
		}
		rs, re, restore := e.repTimes(v.rep, v.s, v.e)
		restore()
		detail := fmt.Sprintf("pool %d %s %s toNow=%v: UTC through the keeper API -> %s; as (%s, %s) [%s] through %s -> %s %s", e.poolId, e.kind, v.op(now), v.toNow, ref.obs(),
			rs.Format(time.RFC3339Nano), re.Format(time.RFC3339Nano), v.rep, pth, v.obs(), v.panicMsg)
		if v.rep != "" {
			o.Fail("query:answer-depends-on-time-location:"+name+":"+v.rep, detail)
		} else {
			o.Fail("query:answer-depends-on-api-path:"+name+":"+pth, detail)
		}
	}
	if ref != q {
		cmp(q)
	}
	for i := 0; i < k; i++ {
		v := &twQuery{s: q.s, e: q.e, q0: q.q0, geom: q.geom, w: q.w, rep: e.pickForeignRep()}
		switch p := r.Intn(20); {
		case p < 5:
			v.path = "querier"
		case p < 8:
			v.path = "grpc"
		case p == 8:
			v.path, v.rep = "querier", ""
		case p == 9:
			v.path, v.rep = "grpc", ""
		}
		e.ask(v, q.toNow)
		cmp(v)
	}
}

// headerObservation (histories whose block headers carry a non-UTC Location): is the record of block time t stored
// under the key of the UTC rendering of t?  Observation only — consensus never delivers such a header.
func (e *twEngine) headerObservation(t time.Time) {
	if e.hdrZone == nil || e.poolId == 0 {
		return
	}
	store := e.h.Ctx.KVStore(e.h.App.GetKey(twaptypes.StoreKey))
	if store.Has(twaptypes.FormatHistoricalPoolIndexTWAPKey(e.poolId, e.d0, e.d1, t.UTC())) {
		e.o.Count("observation.block-header.non-utc-location:record-stored-under-utc-key")
	} else {
		e.o.Count("observation.block-header.non-utc-location:record-NOT-under-utc-key")
	}
}

// ---------------------------------------------------------------- sub-millisecond structure of block times

var twSubMs = []struct {
	off   time.Duration
	label string
}{{0, "on-ms-boundary"}, {1, "boundary+1ns"}, {999999, "boundary-1ns"}, {700000, "0.7ms"}, {300000, "0.3ms"}, {999, "999ns"}, {999998, "boundary-2ns"}}

// shapeSubMs: a step of about d from t whose END has a chosen sub-millisecond part (label "" = random choice).
func (e *twEngine) shapeSubMs(t time.Time, d time.Duration, label string) time.Duration {
	c := twSubMs[e.r.Intn(len(twSubMs))]
	for _, x := range twSubMs {
		if x.label == label {
			c = x
		}
	}
	target := t.Add(d).Truncate(time.Millisecond).Add(c.off)
	if !target.After(t) {
		target = target.Add(time.Millisecond)
	}
	if !target.After(t) {
		return d
	}
	e.o.Count("class.block-time.sub-ms:" + c.label)
	return target.Sub(t)
}

func spacingClass(a, b time.Time) string {
	d := new(big.Int).Sub(msOf(b), msOf(a))
	switch {
	case a.Equal(b):
		return "same-instant"
	case d.Sign() == 0:
		return "same-ms"
	case d.Cmp(big.NewInt(1)) == 0:
		return "adjacent-ms"
	case d.Cmp(big.NewInt(1000)) < 0:
		return "within-1s"
	}
	return "far"
}

// spacingDt: the step from block time t to a next block in the same canonical millisecond / the adjacent one / far away.
func (e *twEngine) spacingDt(t time.Time, sp string) time.Duration {
	r := e.r
	off := t.Sub(t.Truncate(time.Millisecond)) // 0 .. 999999
	switch sp {
	case "same-ms":
		room := 999999 - int64(off)
		if room >= 1 {
			return []time.Duration{1, time.Duration(room), time.Duration(1 + r.Int63n(room))}[r.Intn(3)]
		}
		fallthrough // t is the last nanosecond of its millisecond: the next instant is in the adjacent one
	case "adjacent-ms":
		into := []time.Duration{0, 1, 300000, 700000, 999999, time.Duration(r.Intn(1000000))}[r.Intn(6)]
		return time.Millisecond - off + into
	case "within-1s":
		return e.shapeSubMs(t, time.Duration(2+r.Intn(900))*time.Millisecond, "")
	}
	d := []time.Duration{time.Second, 6 * time.Second, time.Duration(1+r.Intn(3600)) * time.Second, 2 * time.Hour}[r.Intn(4)]
	return e.shapeSubMs(t, d, "")
}

func (e *twEngine) pickSpacing() string {
	return []string{"same-ms", "same-ms", "adjacent-ms", "adjacent-ms", "within-1s", "far", "far"}[e.r.Intn(7)]
}

// ---------------------------------------------------------------- directed drain / refill histories

// createEdgePool: a two-asset balancer pool, weights 1:1, whose price small/big sits next to the rounding boundary of
// the 18th decimal: 100k / 1.6·10^20·k = 6.25·10^-19 rounds to 10^-18 (a valid price); after a swap of 49% of the big
// reserve in it is 2.9·10^-19, which rounds to zero: gamm reports a spot price error for that direction.
func (e *twEngine) createEdgePool(all []string) error {
	r := e.r
	e.kind = "bal2-edge"
	e.denoms = []string{all[0], all[1]}
	e.edgeBig, e.edgeSmall = all[0], all[1]
	scale := big.NewInt([]int64{1, 1, 7, 1000}[r.Intn(4)])
	bigAmt := new(big.Int).Mul(big.NewInt(16), pow10(19))
	if r.Intn(3) == 0 {
		bigAmt = new(big.Int).Mul(big.NewInt(24), pow10(19)) // the pool starts inside an error period
	}
	bigAmt.Mul(bigAmt, scale)
	smallAmt := new(big.Int).Mul(big.NewInt(100), scale)
	assets := []balancer.PoolAsset{{Weight: osmomath.NewInt(1), Token: coin(e.edgeBig, bigAmt)}, {Weight: osmomath.NewInt(1), Token: coin(e.edgeSmall, smallAmt)}}
	fee := osmomath.ZeroDec()
	if r.Intn(2) == 0 {
		fee = osmomath.MustNewDecFromStr("0.002")
	}
	return e.atomically(func(ctx sdk.Context) error {
		e.h.FundAcc(e.acc(), e.h.App.PoolManagerKeeper.GetParams(ctx).PoolCreationFee)
		for _, a := range assets {
			e.h.FundAcc(e.acc(), sdk.NewCoins(a.Token))
		}
		id, er := e.h.App.PoolManagerKeeper.CreatePool(ctx, balancer.NewMsgCreateBalancerPool(e.acc(), balancer.PoolParams{SwapFee: fee, ExitFee: osmomath.ZeroDec()}, assets, ""))
		e.poolId = id
		return er
	})
}

// inError: the engine's own read of the pool: does a spot price query fail right now?
func (e *twEngine) inError() bool {
	_, _, e0, e1 := e.poolPrices()
	return e0 != nil || e1 != nil
}

func (e *twEngine) swapIn(in, out string, amt *big.Int) error {
	if amt.Sign() == 0 {
		amt = big.NewInt(1)
	}
	e.fund(coin(in, amt))
	return e.runMsg(&poolmanagertypes.MsgSwapExactAmountIn{Sender: e.acc().String(), Routes: []poolmanagertypes.SwapAmountInRoute{{PoolId: e.poolId, TokenOutDenom: out}},
		TokenIn: coin(in, amt), TokenOutMinAmount: osmomath.OneInt()})
}

func pctOf(b *big.Int, pct int64) *big.Int {
	x := new(big.Int).Mul(b, big.NewInt(pct))
	return x.Quo(x, big.NewInt(100))
}

// toggle moves the pool into (wantErr) / out of a spot-price-error state with real messages in the open block.
func (e *twEngine) toggle(wantErr bool) bool {
	if e.inError() == wantErr {
		return true
	}
	if e.kind == "cl" {
		if wantErr { // withdraw every position: no liquidity, no spot price
			ids := e.posIds
			err := e.atomically(func(ctx sdk.Context) error {
				srv := cl.NewMsgServerImpl(e.h.App.ConcentratedLiquidityKeeper)
				for _, id := range ids {
					pos, er := e.h.App.ConcentratedLiquidityKeeper.GetPosition(ctx, id)
					if er != nil {
						return er
					}
					if _, er = srv.WithdrawPosition(ctx, &cltypes.MsgWithdrawPosition{PositionId: id, Sender: e.acc().String(), LiquidityAmount: pos.Liquidity}); er != nil {
						return er
					}
				}
				return nil
			})
			if err == nil {
				e.posIds = nil
			}
			e.note("cl.drain", err)
		} else {
			pool, err := e.h.App.ConcentratedLiquidityKeeper.GetConcentratedPoolById(e.h.Ctx, e.poolId)
			if err != nil {
				return false
			}
			coins := sdk.NewCoins(coin(pool.GetToken0(), e.randMag(6, 12)), coin(pool.GetToken1(), e.randMag(6, 12)))
			err = e.atomically(func(ctx sdk.Context) error {
				e.h.FundAcc(e.acc(), coins)
				pd, er := e.h.App.ConcentratedLiquidityKeeper.CreateFullRangePosition(ctx, e.poolId, e.acc(), coins)
				if er == nil {
					e.posIds = append(e.posIds, pd.ID)
				}
				return er
			})
			e.note("cl.position", err)
		}
		return e.inError() == wantErr
	}
	// bal2-edge: half of a reserve in moves the price small/big by a factor 2.2 across the rounding boundary
	for i := 0; i < 6 && e.inError() != wantErr; i++ {
		in, out := e.edgeSmall, e.edgeBig
		if wantErr {
			in, out = e.edgeBig, e.edgeSmall
		}
		e.note("bal.edgeswap", e.swapIn(in, out, pctOf(e.poolBalance(in), 49)))
	}
	return e.inError() == wantErr
}

// nudge: a message that moves the price a little and keeps the pool on its side of the error boundary (so that the
// pool is tracked in this block: a record INSIDE an error period, or an ordinary one outside).
func (e *twEngine) nudge() {
	was := e.inError()
	if e.kind == "cl" {
		if was {
			return // nothing can be swapped against an empty pool
		}
		in, out := e.denoms[0], e.denoms[1]
		if e.r.Intn(2) == 0 {
			in, out = out, in
		}
		e.note("cl.swap", e.swapIn(in, out, pctOf(e.poolBalance(in), int64(1+e.r.Intn(20)))))
		return
	}
	// towards the side the pool is on: more of the big reserve while in error, more of the small one otherwise
	in, out := e.edgeSmall, e.edgeBig
	if was {
		in, out = e.edgeBig, e.edgeSmall
	}
	e.note("bal.nudge", e.swapIn(in, out, pctOf(e.poolBalance(in), int64(1+e.r.Intn(8)))))
	if e.inError() != was {
		e.o.Count("directed.nudge-crossed-the-boundary")
	}
}

// errHistory: one directed history (see the file comment).
func (e *twEngine) errHistory(n int) {
	r, o := e.r, e.o
	e.directed = []string{"cl", "bal-edge"}[r.Intn(2)]
	ok := e.openHistory()
	e.directed = ""
	if !ok {
		o.Count("directed.create-failed")
		return
	}
	o.Count("directed.history." + e.kind)
	if e.kind == "cl" && r.Intn(3) != 0 {
		e.toggle(false) // first position in the creation block; otherwise the history starts with an error period
	}
	if e.inError() {
		o.Count("directed.error-period-from-creation")
	}
	e.endBlock(e.spacingDt(e.h.Ctx.BlockTime(), e.pickSpacing()))
	cycles := 3 + r.Intn(4)
	for c := 0; c < cycles && o.n < n; c++ {
		// ordinary blocks before the drain
		if !e.inError() {
			for i, m := 0, r.Intn(3); i < m; i++ {
				e.nudge()
				e.endBlock(e.spacingDt(e.h.Ctx.BlockTime(), e.pickSpacing()))
			}
		}
		// ---- the drain block
		if !e.toggle(true) {
			o.Count("directed.drain-failed")
		}
		D := e.h.Ctx.BlockTime()
		sp := e.pickSpacing()
		e.endBlock(e.spacingDt(D, sp))
		if r.Intn(2) == 0 {
			e.errQueries(6)
		}
		// blocks inside the error period (one cycle in three): idle, or (balancer) another record with the error still in force
		for i, m := 0, []int{0, 0, 0, 0, 1, 2}[r.Intn(6)]; i < m; i++ {
			if r.Intn(2) == 0 {
				e.nudge()
			}
			e.endBlock(e.spacingDt(e.h.Ctx.BlockTime(), e.pickSpacing()))
		}
		// ---- the recovery block
		if !e.toggle(false) {
			o.Count("directed.refill-failed")
		}
		R := e.h.Ctx.BlockTime()
		o.Count("directed.drain-to-recovery:" + spacingClass(D, R))
		e.endBlock(e.spacingDt(R, e.pickSpacing()))
		e.errQueries(14)
		if r.Intn(3) == 0 { // the same questions from a later block (the end record is then interpolated from the recovery record)
			if r.Intn(2) == 0 {
				e.nudge()
			}
			e.endBlock(e.spacingDt(e.h.Ctx.BlockTime(), e.pickSpacing()))
			e.errQueries(8)
		}
		if r.Intn(4) == 0 && len(e.recs) >= 3 {
			e.pruneRound()
		}
	}
	e.dump()
}

// whereIs: the position of instant t relative to the error periods of the own log.
func (e *twEngine) whereIs(t time.Time) string {
	k := -1
	for i, rc := range e.recs {
		if !rc.t.After(t) {
			k = i
		}
	}
	if k < 0 {
		return "before-first-record"
	}
	rc := e.recs[k]
	at := rc.t.Equal(t)
	sameMs := msOf(rc.t).Cmp(msOf(t)) == 0
	prevErr := k > 0 && e.recs[k-1].errInd
	switch {
	case rc.errInd && at && prevErr:
		return "at-later-error-record"
	case rc.errInd && at:
		return "at-drain"
	case rc.errInd && sameMs:
		return "in-error-same-ms-as-drain"
	case rc.errInd:
		return "in-error"
	case prevErr && at:
		return "at-recovery"
	case prevErr && sameMs:
		return "clean-same-ms-as-recovery"
	}
	return "clean"
}

// lastPeriod: spacing class of the latest error period (drain .. recovery) that begins at or before t ("open": not recovered yet).
func (e *twEngine) lastPeriod(t time.Time) string {
	out := "none"
	for i := 0; i < len(e.recs); i++ {
		if !e.recs[i].errInd || e.recs[i].t.After(t) || (i > 0 && e.recs[i-1].errInd) {
			continue
		}
		j := i
		for j < len(e.recs) && e.recs[j].errInd {
			j++
		}
		if j == len(e.recs) {
			out = "open"
		} else {
			out = spacingClass(e.recs[i].t, e.recs[j].t)
		}
	}
	return out
}

// flagOracle: "an interval touching a spot-price error is flagged", and only such an interval — decided from the own log:
// the price recorded at block time t_i is in force on [t_i, t_{i+1}); [s, e] touches an error iff one of the records in
// force during it was written in a block whose end-of-block spot price read failed.
func (e *twEngine) flagOracle(q *twQuery, now time.Time) {
	if q.status != "ok" {
		return // no answer: judged by `judge` (domain, retention window, F15)
	}
	k, j := -1, -1
	for i, rc := range e.recs {
		if !rc.t.After(q.s) {
			k = i
		}
		if !rc.t.After(q.e) {
			j = i
		}
	}
	if k < 0 || j < k {
		return
	}
	touches := false
	for i := k; i <= j; i++ {
		touches = touches || e.recs[i].errInd
	}
	name := "arith"
	if q.geom {
		name = "geom"
	}
	kind := "bal"
	if e.kind == "cl" {
		kind = "cl"
	}
	pos := "start-" + e.whereIs(q.s) + "/end-" + e.whereIs(q.e)
	if q.s.Equal(q.e) {
		pos = "point-" + e.whereIs(q.s)
	} else if msOf(q.s).Cmp(msOf(q.e)) == 0 {
		pos += "/within-one-ms"
	}
	class := fmt.Sprintf("%s:%s:drain-to-recovery-%s:%s", name, kind, e.lastPeriod(q.e), pos)
	e.o.Count("errorflag.judged")
	if touches {
		e.o.Count("errorflag.touching:" + pos)
	}
	if q.flag == touches {
		return
	}
	line := fmt.Sprintf("pool %d %s %s toNow=%v rep=%q -> %s; own log:", e.poolId, e.kind, q.op(now), q.toNow, q.rep, q.obs())
	lo := k - 1
	if lo < 0 {
		lo = 0
	}
	for i := lo; i <= j+1 && i < len(e.recs); i++ {
		line += fmt.Sprintf(" [%s err=%v sp0=%s]", nsOf(e.recs[i].t), e.recs[i].errInd, e.recs[i].sp0)
	}
	if touches {
		e.o.Fail("errorflag:not-flagged:"+class, line)
	} else {
		e.o.Fail("errorflag:spurious:"+class, line)
	}
}

// errQueries: questions around the last records of a directed history: on, 1 ns / 1 ms around, on the millisecond
// boundaries next to, 0.7 ms after, and between the record times; every point as start == end, `pairs` intervals.
func (e *twEngine) errQueries(pairs int) {
	r := e.r
	now := e.h.Ctx.BlockTime()
	first := e.recs[0].t
	if e.lastKept != nil {
		for _, rc := range e.recs { // the retained part of the history: from the newest record before the cutoff on
			if rc.t.Before(*e.lastKept) {
				first = rc.t
			}
		}
	}
	seen := map[int64]bool{}
	var pts []time.Time
	add := func(t time.Time) {
		if t.Before(first) || t.After(now) || seen[t.UnixNano()] {
			return
		}
		seen[t.UnixNano()] = true
		pts = append(pts, t)
	}
	from := len(e.recs) - 5
	if from < 0 {
		from = 0
	}
	for i := from; i < len(e.recs); i++ {
		t := e.recs[i].t
		ms := t.Truncate(time.Millisecond)
		for _, x := range []time.Time{t, t.Add(1), t.Add(-1), ms, ms.Add(-1), ms.Add(time.Millisecond), ms.Add(time.Millisecond - 1), ms.Add(time.Millisecond + 1),
			t.Add(700 * time.Microsecond), t.Add(time.Millisecond), t.Add(-time.Millisecond)} {
			add(x)
		}
		nx := now
		if i+1 < len(e.recs) {
			nx = e.recs[i+1].t
		}
		add(t.Add(nx.Sub(t) / 2))
		if d := nx.Sub(t); d > 2 {
			add(t.Add(time.Duration(1 + r.Int63n(int64(d)-1))))
		}
	}
	add(now)
	add(now.Add(-1))
	sort.Slice(pts, func(i, j int) bool { return pts[i].Before(pts[j]) })
	one := func(s, en time.Time) {
		q := &twQuery{s: s, e: en, q0: r.Intn(2) == 0, geom: r.Intn(2) == 0, rep: e.pickRep()}
		toNow := en.Equal(now) && r.Intn(2) == 0
		e.ask(q, toNow)
		e.o.Emit(q.op(now), q.obs(), q.status == "ok")
		e.judge(q, now)
		e.flagOracle(q, now)
		if r.Intn(3) == 0 {
			e.locCheck(q, now, 1)
		}
		// the other strategy on the same interval: the flag is the strategy's business in neither
		p := &twQuery{s: s, e: en, q0: q.q0, geom: !q.geom, rep: e.pickRep()}
		e.ask(p, toNow)
		e.o.Emit(p.op(now), p.obs(), p.status == "ok")
		e.judge(p, now)
		e.flagOracle(p, now)
		if q.status == "ok" && p.status == "ok" && q.flag != p.flag {
			e.o.Fail("errorflag:strategies-disagree:"+e.whereIs(s)+"/"+e.whereIs(en), fmt.Sprintf("pool %d %s %s -> %s / %s", e.poolId, e.kind, q.op(now), q.obs(), p.obs()))
		}
	}
	// points (start == end): those not in the clear first
	asked := 0
	for _, i := range r.Perm(len(pts)) {
		if asked >= 4+pairs/3 {
			break
		}
		if e.whereIs(pts[i]) != "clean" || r.Intn(4) == 0 {
			one(pts[i], pts[i])
			asked++
		}
	}
	// intervals: starts inside / at the edges of error periods preferred
	var hot []time.Time
	for _, t := range pts {
		if e.whereIs(t) != "clean" {
			hot = append(hot, t)
		}
	}
	for i := 0; i < pairs && len(pts) > 1; i++ {
		a, b := pts[r.Intn(len(pts))], pts[r.Intn(len(pts))]
		if len(hot) > 0 && r.Intn(3) != 0 {
			a = hot[r.Intn(len(hot))]
		}
		if b.Before(a) {
			a, b = b, a
		}
		if a.Equal(b) {
			b = now
		}
		one(a, b)
	}
}
