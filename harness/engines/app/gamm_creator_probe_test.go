package app_test

import (
	"fmt"

	sdk "github.com/cosmos/cosmos-sdk/types"

	"github.com/osmosis-labs/osmosis/osmomath"
	cltypes "github.com/osmosis-labs/osmosis/v31/x/concentrated-liquidity/types"
	"github.com/osmosis-labs/osmosis/v31/x/gamm/pool-models/balancer"
	"github.com/osmosis-labs/osmosis/v31/x/gamm/pool-models/stableswap"
	pmtypes "github.com/osmosis-labs/osmosis/v31/x/poolmanager/types"
)

// creatorWhitelistProbe (oracle-only, discarded branch): pool creation by a creator on the governance list that exempts
// it from the pool-creation fee (concentrated-liquidity param UnrestrictedPoolCreatorWhitelist, read by
// poolmanager.fundCommunityPoolIfNotWhitelisted).  The exemption concerns the FEE only: the pool account must still
// receive exactly the reserves the new pool reports, the creator must pay exactly the initial liquidity (and no fee),
// the share supply must equal the reported total.  Compared with the same message sent by the same creator off the list.
func (e *gammEnv) creatorWhitelistProbe() {
	h, r, o := e.h, e.r, e.o
	u := r.Intn(gammNUsers - 1) // a rich user
	creator := e.users[u]
	dA, dB := gammToks[r.Intn(len(gammToks))], "uosmo"
	if dA == dB {
		return
	}
	amtA := osmomath.NewInt(int64(1000000 + r.Intn(1000000000)))
	amtB := osmomath.NewInt(int64(1000000 + r.Intn(1000000000)))
	stable := r.Intn(2) == 0
	fee := h.App.PoolManagerKeeper.GetParams(e.ctx).PoolCreationFee
	for _, listed := range []bool{false, true} {
		ctx, _ := e.ctx.CacheContext()
		if listed {
			p := h.App.ConcentratedLiquidityKeeper.GetParams(ctx)
			p.UnrestrictedPoolCreatorWhitelist = append(append([]string{}, p.UnrestrictedPoolCreatorWhitelist...), creator.String())
			h.App.ConcentratedLiquidityKeeper.SetParams(ctx, p)
		}
		var msg pmtypes.CreatePoolMsg
		if stable {
			msg = stableswap.NewMsgCreateStableswapPool(creator, stableswap.PoolParams{SwapFee: osmomath.ZeroDec(), ExitFee: osmomath.ZeroDec()},
				sdk.NewCoins(sdk.NewCoin(dA, amtA), sdk.NewCoin(dB, amtB)), []uint64{1, 1}, "")
		} else {
			msg = balancer.NewMsgCreateBalancerPool(creator, balancer.PoolParams{SwapFee: osmomath.ZeroDec(), ExitFee: osmomath.ZeroDec()},
				[]balancer.PoolAsset{{Weight: osmomath.NewInt(1), Token: sdk.NewCoin(dA, amtA)}, {Weight: osmomath.NewInt(int64(1 + r.Intn(3))), Token: sdk.NewCoin(dB, amtB)}}, "")
		}
		before := h.App.BankKeeper.GetAllBalances(ctx, creator)
		// the account of the next pool may already hold coins sent to it directly (donations): only what the creation adds counts
		preHeld := h.App.BankKeeper.GetAllBalances(ctx, pmtypes.NewPoolAddress(h.App.PoolManagerKeeper.GetNextPoolId(ctx)))
		var id uint64
		var err error
		if !catch(func() { id, err = h.App.PoolManagerKeeper.CreatePool(ctx, msg) }) {
			o.Fail(fmt.Sprintf("create:panicked:creator-fee-exempt=%v", listed), fmt.Sprintf("creator u%d %s %s%s + %s%s", u, kindStr(stable), amtA, dA, amtB, dB))
			continue
		}
		class := fmt.Sprintf("creator-fee-exempt=%v:%s", listed, kindStr(stable))
		if err != nil {
			o.Count("probe.create." + class + ".err")
			continue
		}
		o.Count("probe.create." + class + ".ok")
		pool, perr := h.App.GAMMKeeper.GetCFMMPool(ctx, id)
		if perr != nil {
			o.Fail("create:pool-not-stored:"+class, fmt.Sprintf("pool %d: %v", id, perr))
			continue
		}
		reported := pool.GetTotalPoolLiquidity(ctx)
		held := h.App.BankKeeper.GetAllBalances(ctx, pool.GetAddress()).Sub(preHeld...)
		detail := fmt.Sprintf("creator u%d, %s pool %d of %s%s + %s%s: pool account received %q, pool reports reserves %q", u, kindStr(stable), id, amtA, dA, amtB, dB, held, reported)
		for _, c := range reported {
			if !held.AmountOf(c.Denom).Equal(c.Amount) {
				o.Fail("pool-balance!=reserves:create:"+class, detail)
				break
			}
		}
		shareDenom := fmt.Sprintf("gamm/pool/%d", id)
		if sup := h.App.BankKeeper.GetSupply(ctx, shareDenom).Amount; !sup.Equal(pool.GetTotalShares()) {
			o.Fail("share-supply:create:"+class, fmt.Sprintf("%s; share supply %s, reported total %s", detail, sup, pool.GetTotalShares()))
		}
		after := h.App.BankKeeper.GetAllBalances(ctx, creator)
		want := sdk.NewCoins(sdk.NewCoin(dA, amtA), sdk.NewCoin(dB, amtB))
		if !listed {
			want = want.Add(fee...)
		}
		paid, neg := before.SafeSub(after.Sub(sdk.NewCoins(sdk.NewCoin(shareDenom, after.AmountOf(shareDenom)))...)...)
		if neg || !paid.Equal(want) {
			o.Fail("create:creator-paid-wrong-amount:"+class, fmt.Sprintf("%s; creator paid %q, initial liquidity%s is %q", detail, paid, map[bool]string{false: " + creation fee", true: " (fee exempt)"}[listed], want))
		}
	}
	_ = cltypes.ModuleName
}

func kindStr(stable bool) string {
	if stable {
		return "stableswap"
	}
	return "balancer"
}
