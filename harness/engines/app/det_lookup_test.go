package app_test

// Engine `det` (property C19): what an imported node ANSWERS right after InitChain(export), before its first block.
//
// A module's re-exported genesis only shows that the RECORDS survived.  Every lookup table that InitGenesis rebuilds from
// them (and that no genesis carries) has to answer like the exporting chain as well, otherwise the imported node does not
// continue like the node it was exported from although both export the same document.  For every such lookup the engine
// asks both nodes the same question for every key that exists on either node:
//
//	protorev      highest-liquidity pool per (base denom, denom), ordered and unordered   (read by x/txfees, x/incentives,
//	              x/poolmanager and protorev's route builder) — additionally against a from-scratch recomputation
//	poolmanager   pool id -> module / type / denoms
//	poolincentives pool -> gauge per lockable duration (CFMM), per incentive-epoch duration + no-lock gauges (CL), gauge -> pool
//	incentives    upcoming / active / finished membership, gauges per denomination
//	twap          most recent records per pool
//	cl            full-range liquidity per pool, tokenfactory creator index, txfees base denom / fee tokens, superfluid
//	              intermediary accounts, valset-pref preferences (the last two are not part of this workload: vacuous, counted)
//
// Keys: `export-import:query:<module>.<lookup>[:<class>]`.  Differences the unchanged tree is known to show carry the class of
// their finding (and only then: the class is computed from both nodes' states, never assumed).

import (
	"encoding/json"
	"fmt"
	"sort"
	"strings"
	"time"

	sdkmath "cosmossdk.io/math"
	sdk "github.com/cosmos/cosmos-sdk/types"

	"github.com/osmosis-labs/osmosis/osmomath"
	cltypes "github.com/osmosis-labs/osmosis/v31/x/concentrated-liquidity/types"
	incentiveskeeper "github.com/osmosis-labs/osmosis/v31/x/incentives/keeper"
	incentivestypes "github.com/osmosis-labs/osmosis/v31/x/incentives/types"
	lockuptypes "github.com/osmosis-labs/osmosis/v31/x/lockup/types"
	poolmanagertypes "github.com/osmosis-labs/osmosis/v31/x/poolmanager/types"
	protorevtypes "github.com/osmosis-labs/osmosis/v31/x/protorev/types"
	tokenfactorytypes "github.com/osmosis-labs/osmosis/v31/x/tokenfactory/types"
)

// ---------------------------------------------------------------- x/protorev: (base denom, denom) -> pool

// protorevRawIndex decodes the raw entries of store prefix KeyPrefixDenomPairToPool: "base|denom" -> pool id.  The keeper
// writes through a prefix store AND a key that repeats the prefix (raw key = 0x02 0x02 base "|" denom).
func protorevRawIndex(m map[string]string) (idx map[string]uint64, malformed []string) {
	idx = map[string]uint64{}
	p := string(protorevtypes.KeyPrefixDenomPairToPool)
	for k, v := range m {
		if !strings.HasPrefix(k, p) {
			continue
		}
		pair := strings.TrimPrefix(strings.TrimPrefix(k, p), p)
		if len(v) != 8 || strings.Count(pair, "|") != 1 {
			malformed = append(malformed, fmt.Sprintf("%q=%x", k, v))
			continue
		}
		idx[pair] = sdk.BigEndianToUint64([]byte(v))
	}
	return idx, malformed
}

// protorevFreshIndex: what the index has to be for the node's CURRENT base denoms, pools and pool balances — for every base
// denom and every active pool holding exactly two coins one of which is the base denom, the pool with the largest product
// of the two amounts (the lowest id among equals).  Plain recomputation from the pool list; shares no code with UpdatePools.
//
// gammOnly: the same over the balancer / stableswap pools alone — what UpdatePools can see while x/protorev's InitGenesis runs:
// app.OrderInitGenesis puts protorev (after gamm and poolmanager) BEFORE concentrated-liquidity and cosmwasmpool, whose pools
// are not in their stores yet (finding F90).
func protorevFreshIndex(n *detNode, gammOnly bool) (idx map[string]uint64, bases []string, err error) {
	ctx := n.readCtx()
	bds, err := n.app.ProtoRevKeeper.GetAllBaseDenoms(ctx)
	if err != nil {
		return nil, nil, err
	}
	isBase := map[string]bool{}
	for _, b := range bds {
		isBase[b.Denom] = true
		bases = append(bases, b.Denom)
	}
	pools, err := n.app.PoolManagerKeeper.AllPools(ctx)
	if err != nil {
		return nil, nil, err
	}
	sort.SliceStable(pools, func(i, j int) bool { return pools[i].GetId() < pools[j].GetId() })
	idx = map[string]uint64{}
	best := map[string]sdkmath.Int{}
	for _, p := range pools {
		coins, err := n.app.PoolManagerKeeper.GetTotalPoolLiquidity(ctx, p.GetId())
		if err != nil {
			return nil, nil, fmt.Errorf("pool %d: %w", p.GetId(), err)
		}
		if !p.IsActive(ctx) || len(coins) != 2 {
			continue
		}
		if t := p.GetType(); gammOnly && t != poolmanagertypes.Balancer && t != poolmanagertypes.Stableswap {
			continue
		}
		prod := coins[0].Amount.Mul(coins[1].Amount)
		for _, pr := range [][2]string{{coins[0].Denom, coins[1].Denom}, {coins[1].Denom, coins[0].Denom}} {
			if !isBase[pr[0]] {
				continue
			}
			key := pr[0] + "|" + pr[1]
			if cur, ok := best[key]; !ok || prod.GT(cur) {
				best[key], idx[key] = prod, p.GetId()
			}
		}
	}
	return idx, bases, nil
}

func fmtPool(m map[string]uint64, k string) string {
	if v, ok := m[k]; ok {
		return fmt.Sprint(v)
	}
	return "-"
}

// protorevIndexOracle: the raw index of the imported node y against (i) the recomputation from y's own pools — what
// InitGenesis has to rebuild — and (ii) the exporting node x.  An entry of y that is not the recomputation fails as
// `export-import:derived-store-differs:protorev:denom-pair-to-pool:<missing|extra|changed>`.  An entry of y that IS the
// recomputation but differs from x is the running chain's index lagging behind its own pools (refreshed only at pool creation,
// MsgSetBaseDenoms and the day epoch; shown by recomputing on x as well): class `…:exporting-chain-entry-stale`.
func protorevIndexOracle(o *Out, hist, k int, x, y *detNode, mx, my map[string]string) {
	fail := func(cls, detail string) {
		o.Fail("export-import:derived-store-differs:protorev:denom-pair-to-pool:"+cls, fmt.Sprintf("hist %d import after block %d: %s", hist, k, detail))
	}
	ix, badx := protorevRawIndex(mx)
	iy, bady := protorevRawIndex(my)
	if len(badx)+len(bady) > 0 {
		fail("malformed-entry", strings.Join(append(badx, bady...), " "))
	}
	fx, basesX, errx := protorevFreshIndex(x, false)
	fy, basesY, erry := protorevFreshIndex(y, false)
	gy, _, errg := protorevFreshIndex(y, true)
	if errx != nil || erry != nil || errg != nil {
		fail("recomputation-failed", fmt.Sprintf("%v | %v | %v", errx, erry, errg))
		return
	}
	o.dist["state.protorev.denom-pair-index-entries-at-export"] += len(ix)
	if len(ix) > 0 {
		o.Count("state.protorev.denom-pair-index-nonempty-at-export")
	} else {
		o.Count("state.protorev.denom-pair-index-empty-at-export")
	}
	if len(gy) > 0 {
		o.Count("state.protorev.denom-pair-index-has-gamm-pool-entry-at-export")
	}
	o.Count(fmt.Sprintf("state.protorev.base-denoms-at-export.%d", minInt(len(basesX), 4)))
	otherBase := false
	for pr := range ix {
		if !strings.HasPrefix(pr, "uosmo|") {
			otherBase = true
		}
	}
	if otherBase {
		o.Count("state.protorev.denom-pair-index-has-non-osmo-base-at-export")
	}
	if strings.Join(basesX, ",") != strings.Join(basesY, ",") {
		fail("base-denoms-differ", fmt.Sprintf("exporting %v imported %v", basesX, basesY))
	}
	keys := map[string]bool{}
	for _, m := range []map[string]uint64{ix, iy, fx, fy} {
		for pr := range m {
			keys[pr] = true
		}
	}
	var prs []string
	for pr := range keys {
		prs = append(prs, pr)
	}
	sort.Strings(prs)
	type agg struct {
		n      int
		sample string
	}
	fails := map[string]*agg{}
	note := func(cls, s string) {
		if fails[cls] == nil {
			fails[cls] = &agg{sample: s}
		}
		fails[cls].n++
	}
	for _, pr := range prs {
		o.Count("exportimport.protorev-index-entry-compared")
		desc := fmt.Sprintf("(%s): exporting node pool %s, imported node pool %s; highest-liquidity pool recomputed from the pools of the imported node %s (from its balancer/stableswap pools alone %s), of the exporting node %s",
			pr, fmtPool(ix, pr), fmtPool(iy, pr), fmtPool(fy, pr), fmtPool(gy, pr), fmtPool(fx, pr))
		cls := protorevClassify(pr, ix, iy, fx, fy, gy)
		if cls != "" {
			for _, id := range []uint64{ix[pr], iy[pr], fy[pr]} {
				if id != 0 && !strings.Contains(desc, fmt.Sprintf("; pool %d ", id)) {
					desc += "; " + protorevPoolDesc(x, id)
				}
			}
			note(cls, desc)
		}
	}
	for _, cls := range sortedAggKeys(fails) {
		if strings.Count(cls, ":") > 0 {
			o.Count("import.derived-store.known-difference.protorev:denom-pair-to-pool:" + cls)
		}
		fail(cls, fmt.Sprintf("%d of %d entries (base denoms %v), e.g. %s", fails[cls].n, len(prs), basesY, fails[cls].sample))
	}
}

// protorevClassify: one (base denom, denom) entry.  have = the two nodes' answers (raw entries or keeper answers), fx / fy = the
// recomputation over all pools of the exporting / imported node, gy = over the imported node's balancer and stableswap pools.
//
//	""                                       imported = exporting (and, for raw entries, = recomputation)
//	<kind>                                   the imported entry is neither the recomputation nor what the known defects explain
//	<kind>:concentrated-pools-not-loaded-when-index-rebuilt   imported entry = recomputation WITHOUT the concentrated pools (F90)
//	<kind>:exporting-chain-entry-stale       imported entry = recomputation, the exporting chain's entry is not ITS recomputation (F91)
//	<kind>:pools-differ-between-nodes        imported entry = recomputation on its pools, which differs from the exporting node's
//
// kind: missing (no entry on the imported node), extra (an entry where none is expected / none on the exporting node), changed.
func protorevClassify(pr string, ix, iy, fx, fy, gy map[string]uint64) string {
	vx, okx := ix[pr]
	vy, oky := iy[pr]
	wy, okw := fy[pr]
	wx, okwx := fx[pr]
	ug, okg := gy[pr]
	if oky != okw || vy != wy { // not what InitGenesis has to rebuild
		kind := "changed"
		if !oky {
			kind = "missing"
		} else if !okw {
			kind = "extra"
		}
		if oky == okg && vy == ug {
			return kind + ":concentrated-pools-not-loaded-when-index-rebuilt"
		}
		return kind
	}
	if okx == oky && vx == vy {
		return ""
	}
	kind := "changed"
	if !oky {
		kind = "missing"
	} else if !okx {
		kind = "extra"
	}
	if okwx == okw && wx == wy && (okx != okwx || vx != wx) {
		return kind + ":exporting-chain-entry-stale"
	}
	return kind + ":pools-differ-between-nodes"
}

// protorevPoolDesc: type, activity and coins of a pool as UpdatePools sees it
func protorevPoolDesc(n *detNode, id uint64) string {
	return safe(func() string {
		ctx := n.readCtx()
		p, err := n.app.PoolManagerKeeper.GetPool(ctx, id)
		if err != nil {
			return fmt.Sprintf("pool %d unreadable: %v", id, err)
		}
		coins, err := n.app.PoolManagerKeeper.GetTotalPoolLiquidity(ctx, id)
		return fmt.Sprintf("pool %d (%s, active %v) holds %s on the exporting node (err %v)", id, p.GetType(), p.IsActive(ctx), coins, err)
	})
}

func sortedAggKeys[T any](m map[string]T) []string {
	var ks []string
	for k := range m {
		ks = append(ks, k)
	}
	sort.Strings(ks)
	return ks
}

// ---------------------------------------------------------------- lookups on both nodes

type lookupCmp struct {
	o       *Out
	hist, k int
	bad     map[string][]string // key -> details
}

func (c *lookupCmp) eq(name, what, vx, vy string) bool {
	c.o.Count("import.lookup-compared." + name)
	if vx == vy {
		return true
	}
	c.note(name, fmt.Sprintf("%s: exporting node %s, imported node %s", what, trunc(vx, 300), trunc(vy, 300)))
	return false
}

func (c *lookupCmp) note(key, detail string) {
	c.bad[key] = append(c.bad[key], detail)
}

func (c *lookupCmp) flush() {
	for _, key := range sortedAggKeys(c.bad) {
		ds := c.bad[key]
		c.o.Fail("export-import:query:"+key, fmt.Sprintf("hist %d import after block %d: %d lookups differ, e.g. %s", c.hist, c.k, len(ds), ds[0]))
	}
}

func ans[T any](v T, err error) string {
	if err != nil {
		return "err(" + trunc(err.Error(), 120) + ")"
	}
	return fmt.Sprint(v)
}

func safe(f func() string) (s string) {
	defer func() {
		if r := recover(); r != nil {
			s = fmt.Sprintf("panic(%.120v)", r)
		}
	}()
	return f()
}

// detLookupOracles: every derived lookup on the exporting node x and the freshly imported node y (no block delivered yet).
func detLookupOracles(o *Out, hist, k int, x, y *detNode, accts []detAcct) {
	c := &lookupCmp{o: o, hist: hist, k: k, bad: map[string][]string{}}
	defer c.flush()
	cx, cy := x.readCtx(), y.readCtx()
	poolsX, poolsY := detPools(x), detPools(y)

	// ---- denominations that occur anywhere
	denomSet := map[string]bool{}
	for _, d := range detDenoms {
		denomSet[d] = true
	}
	for _, p := range append(append([]poolInfo{}, poolsX...), poolsY...) {
		for _, d := range p.denoms {
			denomSet[d] = true
		}
	}
	var denoms []string
	for d := range denomSet {
		denoms = append(denoms, d)
	}
	sort.Strings(denoms)

	// ---- protorev: GetPoolForDenomPair for every (base denom, denom), GetPoolForDenomPairNoOrder for every unordered pair
	fx, _, errx := protorevFreshIndex(x, false)
	fy, _, erry := protorevFreshIndex(y, false)
	gy, _, errg := protorevFreshIndex(y, true)
	if errx == nil && erry == nil && errg == nil {
		// the ordered lookup for every ordered pair of denominations (no base denom: "not found" on both nodes)
		ax, ay := map[string]uint64{}, map[string]uint64{}
		for _, b := range denoms {
			for _, d := range denoms {
				if b == d {
					continue
				}
				pr := b + "|" + d
				px, ex := x.app.ProtoRevKeeper.GetPoolForDenomPair(cx, b, d)
				py, ey := y.app.ProtoRevKeeper.GetPoolForDenomPair(cy, b, d)
				if ex == nil {
					ax[pr] = px
				}
				if ey == nil {
					ay[pr] = py
				}
				o.Count("import.lookup-compared.protorev.pool-for-denom-pair")
				if (ex == nil) == (ey == nil) && px == py {
					continue
				}
				det := fmt.Sprintf("GetPoolForDenomPair(%s, %s): exporting node %s, imported node %s; highest-liquidity pool recomputed from the imported node's pools %s (from its balancer/stableswap pools alone %s), from the exporting node's %s",
					b, d, ans(px, ex), ans(py, ey), fmtPool(fy, pr), fmtPool(gy, pr), fmtPool(fx, pr))
				name := "protorev.pool-for-denom-pair"
				if cls := protorevClassify(pr, ax, ay, fx, fy, gy); strings.Contains(cls, ":") {
					name += cls[strings.Index(cls, ":"):]
				}
				c.note(name, det)
			}
		}
		if len(ax) > 0 {
			o.Count("state.protorev.pool-for-denom-pair-answered-at-export")
		}
		o.dist["state.protorev.pool-for-denom-pair-answers-at-export"] += len(ax)
		// the unordered lookup (x/txfees, x/incentives): the entry (a, b) if there is one, else (b, a)
		un := func(m map[string]uint64) map[string]uint64 {
			out := map[string]uint64{}
			for i, a := range denoms {
				for _, b := range denoms[i+1:] {
					if v, ok := m[a+"|"+b]; ok {
						out[a+"|"+b] = v
					} else if v, ok := m[b+"|"+a]; ok {
						out[a+"|"+b] = v
					}
				}
			}
			return out
		}
		ufx, ufy, ugy := un(fx), un(fy), un(gy)
		for i, a := range denoms {
			for _, b := range denoms[i+1:] {
				pr := a + "|" + b
				px, ex := x.app.ProtoRevKeeper.GetPoolForDenomPairNoOrder(cx, a, b)
				py, ey := y.app.ProtoRevKeeper.GetPoolForDenomPairNoOrder(cy, a, b)
				o.Count("import.lookup-compared.protorev.pool-for-denom-pair-no-order")
				if (ex == nil) == (ey == nil) && px == py {
					continue
				}
				hx, hy := map[string]uint64{}, map[string]uint64{}
				if ex == nil {
					hx[pr] = px
				}
				if ey == nil {
					hy[pr] = py
				}
				det := fmt.Sprintf("GetPoolForDenomPairNoOrder(%s, %s) (the lookup of x/txfees' fee swaps, of x/incentives' CreateGauge / AddToGauge reward check and of its minimum-value check): exporting node %s, imported node %s; recomputed from the imported node's pools %s (from its balancer/stableswap pools alone %s), from the exporting node's %s",
					a, b, ans(px, ex), ans(py, ey), fmtPool(ufy, pr), fmtPool(ugy, pr), fmtPool(ufx, pr))
				name := "protorev.pool-for-denom-pair-no-order"
				if cls := protorevClassify(pr, hx, hy, ufx, ufy, ugy); strings.Contains(cls, ":") {
					name += cls[strings.Index(cls, ":"):]
				}
				c.note(name, det)
			}
		}
	} else {
		c.note("protorev.pool-for-denom-pair:recomputation-failed", fmt.Sprintf("%v | %v | %v", errx, erry, errg))
	}

	// ---- poolmanager: pool id -> module route, type, denoms (ids up to the next pool id, +1 beyond)
	next := x.app.PoolManagerKeeper.GetNextPoolId(cx)
	for id := uint64(1); id <= next; id++ {
		q := func(n *detNode, ctx sdk.Context) string {
			return safe(func() string {
				t, et := n.app.PoolManagerKeeper.GetPoolType(ctx, id)
				ds, ed := n.app.PoolManagerKeeper.RouteGetPoolDenoms(ctx, id)
				m, em := n.app.PoolManagerKeeper.GetPoolModule(ctx, id)
				return fmt.Sprintf("type=%s denoms=%s module=%T/%v", ans(t, et), ans(ds, ed), m, em != nil)
			})
		}
		name := "poolmanager.pool-route"
		if id >= next {
			// no pool has this id.  A node that executed and REVERTED a pool creation keeps the id -> module entry in the
			// in-memory route cache (cachedPoolModules, evicted only when the id is written again): it answers "Balancer"
			// for the unused id, a node started from the export (or restarted) answers "no route"
			name += ":unused-id-cached-after-reverted-creation"
		}
		c.eq(name, fmt.Sprintf("pool %d (next pool id %d)", id, next), q(x, cx), q(y, cy))
	}

	// ---- pool-incentives: pool -> gauge and gauge -> pool for every pool type and duration
	durs := x.app.PoolIncentivesKeeper.GetLockableDurations(cx)
	c.eq("poolincentives.lockable-durations", "GetLockableDurations", fmt.Sprint(durs), fmt.Sprint(y.app.PoolIncentivesKeeper.GetLockableDurations(cy)))
	epochDur := x.app.IncentivesKeeper.GetEpochInfo(cx).Duration
	probeDurs := append(append([]time.Duration{}, durs...), epochDur, 0, time.Nanosecond)
	for _, p := range poolsX {
		o.Count("state.lookup.pool-type." + p.typ.String())
		for _, d := range probeDurs {
			gx, ex := x.app.PoolIncentivesKeeper.GetPoolGaugeId(cx, p.id, d)
			gy, ey := y.app.PoolIncentivesKeeper.GetPoolGaugeId(cy, p.id, d)
			if ex == nil {
				o.Count("state.lookup.pool-to-gauge-link." + p.typ.String())
			}
			if c.eq("poolincentives.pool-to-gauge", fmt.Sprintf("GetPoolGaugeId(pool %d %s, %s)", p.id, p.typ, d), ans(gx, ex), ans(gy, ey)) && ex == nil {
				bx, ebx := x.app.PoolIncentivesKeeper.GetPoolIdFromGaugeId(cx, gx, d)
				by, eby := y.app.PoolIncentivesKeeper.GetPoolIdFromGaugeId(cy, gx, d)
				c.eq("poolincentives.gauge-to-pool", fmt.Sprintf("GetPoolIdFromGaugeId(gauge %d of pool %d %s, %s)", gx, p.id, p.typ, d), ans(bx, ebx), ans(by, eby))
			}
		}
		ix, eix := x.app.PoolIncentivesKeeper.GetInternalGaugeIDForPool(cx, p.id)
		iy, eiy := y.app.PoolIncentivesKeeper.GetInternalGaugeIDForPool(cy, p.id)
		c.eq("poolincentives.internal-gauge-of-pool", fmt.Sprintf("GetInternalGaugeIDForPool(pool %d %s)", p.id, p.typ), ans(ix, eix), ans(iy, eiy))
		if p.typ == poolmanagertypes.Concentrated {
			nx, enx := x.app.PoolIncentivesKeeper.GetNoLockGaugeIdsFromPool(cx, p.id)
			ny, eny := y.app.PoolIncentivesKeeper.GetNoLockGaugeIdsFromPool(cy, p.id)
			sortU64(nx)
			sortU64(ny)
			c.eq("poolincentives.no-lock-gauges-of-pool", fmt.Sprintf("GetNoLockGaugeIdsFromPool(pool %d)", p.id), ans(nx, enx), ans(ny, eny))
		} else {
			gx, egx := x.app.PoolIncentivesKeeper.GetGaugesForCFMMPool(cx, p.id)
			gy, egy := y.app.PoolIncentivesKeeper.GetGaugesForCFMMPool(cy, p.id)
			c.eq("poolincentives.gauges-of-cfmm-pool", fmt.Sprintf("GetGaugesForCFMMPool(pool %d %s)", p.id, p.typ), ans(gaugeIDs(gx), egx), ans(gaugeIDs(gy), egy))
		}
	}

	// ---- incentives: status membership and the per-denomination index
	detGaugeLookups(c, x, y)

	// ---- twap: most recent records per pool
	for _, p := range poolsX {
		q := func(n *detNode, ctx sdk.Context) string {
			return safe(func() string {
				rs, err := n.app.TwapKeeper.GetAllMostRecentRecordsForPool(ctx, p.id)
				if err != nil {
					return "err(" + err.Error() + ")"
				}
				var parts []string
				for _, r := range rs {
					bz, _ := json.Marshal(r)
					parts = append(parts, string(bz))
				}
				sort.Strings(parts)
				if len(parts) > 0 {
					o.Count("state.lookup.twap-most-recent-record")
				}
				return shortDigest(strings.Join(parts, "\n")) + fmt.Sprintf("(%d records)", len(parts))
			})
		}
		c.eq("twap.most-recent-records", fmt.Sprintf("GetAllMostRecentRecordsForPool(pool %d %v)", p.id, p.denoms), q(x, cx), q(y, cy))
	}

	// ---- concentrated liquidity: full-range liquidity per pool (F41: the running chain over-counts; import = true sum)
	for _, p := range poolsX {
		if p.typ != poolmanagertypes.Concentrated {
			continue
		}
		lx, ex := x.app.ConcentratedLiquidityKeeper.GetFullRangeLiquidityInPool(cx, p.id)
		ly, ey := y.app.ConcentratedLiquidityKeeper.GetFullRangeLiquidityInPool(cy, p.id)
		o.Count("import.lookup-compared.cl.full-range-liquidity")
		if ans(lx, ex) == ans(ly, ey) {
			continue
		}
		// the true sum over the live full-range positions of the imported node
		sum, any, errS := clFullRangeSum(y, cy, p.id)
		det := fmt.Sprintf("GetFullRangeLiquidityInPool(pool %d): exporting node %s, imported node %s; sum over the live full-range positions %s (any=%v err=%v)", p.id, ans(lx, ex), ans(ly, ey), sum, any, errS)
		if errS == nil && ((any && ey == nil && ly.Equal(sum)) || (!any && ey != nil)) {
			o.Count("import.lookup.cl.full-range-liquidity.running-chain-over-counts")
			o.Fail("cl:export-import:store-differs:full-range-liquidity-recomputed", fmt.Sprintf("hist %d import after block %d: %s", hist, k, det))
		} else {
			c.note("cl.full-range-liquidity", det)
		}
	}

	// ---- tokenfactory: creator -> denoms index
	for i, a := range accts {
		q := func(n *detNode, ctx sdk.Context) string {
			return safe(func() string {
				r, err := n.app.TokenFactoryKeeper.DenomsFromCreator(ctx, &tokenfactorytypes.QueryDenomsFromCreatorRequest{Creator: a.addr.String()})
				if err != nil {
					return "err(" + err.Error() + ")"
				}
				ds := append([]string{}, r.Denoms...)
				sort.Strings(ds)
				if len(ds) > 0 {
					o.Count("state.lookup.tokenfactory-creator-with-denoms")
				}
				return fmt.Sprint(ds)
			})
		}
		c.eq("tokenfactory.denoms-from-creator", fmt.Sprintf("DenomsFromCreator(account %d)", i), q(x, cx), q(y, cy))
	}

	// ---- txfees: base denom, fee tokens and the pool each is routed through
	bx, ebx := x.app.TxFeesKeeper.GetBaseDenom(cx)
	by, eby := y.app.TxFeesKeeper.GetBaseDenom(cy)
	c.eq("txfees.base-denom", "GetBaseDenom", ans(bx, ebx), ans(by, eby))
	c.eq("txfees.fee-tokens", "GetFeeTokens", fmt.Sprint(x.app.TxFeesKeeper.GetFeeTokens(cx)), fmt.Sprint(y.app.TxFeesKeeper.GetFeeTokens(cy)))
	for _, d := range denoms {
		tx, etx := x.app.TxFeesKeeper.GetFeeToken(cx, d)
		ty, ety := y.app.TxFeesKeeper.GetFeeToken(cy, d)
		if etx == nil {
			o.Count("state.lookup.txfees-fee-token")
		}
		c.eq("txfees.fee-token", "GetFeeToken("+d+")", ans(tx, etx), ans(ty, ety))
	}

	// ---- superfluid: intermediary accounts by (denom, validator), lock connections (not in this workload: counted)
	sx := x.app.SuperfluidKeeper.GetAllIntermediaryAccounts(cx)
	sy := y.app.SuperfluidKeeper.GetAllIntermediaryAccounts(cy)
	if len(sx) > 0 {
		o.Count("state.lookup.superfluid-intermediary-account")
	}
	c.eq("superfluid.intermediary-accounts", "GetAllIntermediaryAccounts", fmt.Sprint(sx), fmt.Sprint(sy))
	for _, ia := range sx {
		c.eq("superfluid.intermediary-account", fmt.Sprintf("GetIntermediaryAccount(%s/%s)", ia.Denom, ia.ValAddr),
			fmt.Sprint(x.app.SuperfluidKeeper.GetIntermediaryAccount(cx, ia.GetAccAddress())), fmt.Sprint(y.app.SuperfluidKeeper.GetIntermediaryAccount(cy, ia.GetAccAddress())))
	}
	c.eq("superfluid.lock-connections", "GetAllLockIdIntermediaryAccountConnections", fmt.Sprint(x.app.SuperfluidKeeper.GetAllLockIdIntermediaryAccountConnections(cx)), fmt.Sprint(y.app.SuperfluidKeeper.GetAllLockIdIntermediaryAccountConnections(cy)))

	// ---- valset-pref: preferences per account (not in this workload: counted)
	for i, a := range accts {
		px, okx := x.app.ValidatorSetPreferenceKeeper.GetValidatorSetPreference(cx, a.addr.String())
		py, oky := y.app.ValidatorSetPreferenceKeeper.GetValidatorSetPreference(cy, a.addr.String())
		if okx {
			o.Count("state.lookup.valset-preference")
		}
		c.eq("valsetpref.preference", fmt.Sprintf("GetValidatorSetPreference(account %d)", i), fmt.Sprint(px, okx), fmt.Sprint(py, oky))
	}
}

func sortU64(v []uint64) { sort.Slice(v, func(i, j int) bool { return v[i] < v[j] }) }

func gaugeIDs(gs []incentivestypes.Gauge) []uint64 {
	var ids []uint64
	for _, g := range gs {
		ids = append(ids, g.Id)
	}
	sortU64(ids)
	return ids
}

// clFullRangeSum: Σ liquidity over the live full-range positions of a pool (plain recomputation from the position records).
func clFullRangeSum(n *detNode, ctx sdk.Context, poolId uint64) (sum osmomath.Dec, any bool, err error) {
	sum = osmomath.ZeroDec()
	pool, err := n.app.ConcentratedLiquidityKeeper.GetConcentratedPoolById(ctx, poolId)
	if err != nil {
		return sum, false, err
	}
	sp := int64(pool.GetTickSpacing())
	lo, hi := cltypes.MinInitializedTick/sp*sp, cltypes.MaxTick/sp*sp
	// every position id (pool filter 0 = none: the keeper's filter parses the DECIMAL pool id of the key as hexadecimal and
	// drops the positions of every pool with id >= 10), filtered by the position record's own pool id
	ids, err := n.app.ConcentratedLiquidityKeeper.GetAllPositionIdsForPoolId(ctx, cltypes.PositionPrefix, 0)
	if err != nil {
		return sum, false, err
	}
	for _, id := range ids {
		p, err := n.app.ConcentratedLiquidityKeeper.GetPosition(ctx, id)
		if err != nil {
			return sum, false, err
		}
		if p.PoolId != poolId {
			continue
		}
		if (p.LowerTick == lo || p.LowerTick == cltypes.MinInitializedTick) && (p.UpperTick == hi || p.UpperTick == cltypes.MaxTick) {
			sum = sum.Add(p.Liquidity)
			any = true
		}
	}
	return sum, any, nil
}

// detGaugeLookups: where every gauge of the exporting node is filed on the imported node.  A gauge not finished on x must be
// found by id with the same record, be listed in exactly one of upcoming / active — the one its start time and the import
// block time dictate (a gauge whose reference lags on x is activated by the import: F36, counted) — and under the same
// denomination in the per-denomination queries; a finished gauge is not exported (F40, counted) and must be listed nowhere.
func detGaugeLookups(c *lookupCmp, x, y *detNode) {
	o := c.o
	cx, cy := x.readCtx(), y.readCtx()
	member := func(n *detNode, ctx sdk.Context) (map[uint64]string, string) {
		m := map[uint64]string{}
		dup := ""
		for st, gs := range map[string][]incentivestypes.Gauge{"U": n.app.IncentivesKeeper.GetUpcomingGauges(ctx), "A": n.app.IncentivesKeeper.GetActiveGauges(ctx), "F": n.app.IncentivesKeeper.GetFinishedGauges(ctx)} {
			for _, g := range gs {
				if m[g.Id] != "" {
					dup += fmt.Sprintf(" gauge %d in %s and %s", g.Id, m[g.Id], st)
				}
				m[g.Id] += st
			}
		}
		return m, dup
	}
	mx, _ := member(x, cx)
	my, dupY := member(y, cy)
	if dupY != "" {
		c.note("incentives.gauge-status:listed-twice", dupY)
	}
	all := x.app.IncentivesKeeper.GetGauges(cx)
	now := y.time
	denomsSeen := map[string]bool{}
	for _, g := range all {
		o.Count("import.lookup-compared.incentives.gauge-status")
		kind := "non-perpetual"
		if g.IsPerpetual {
			kind = "perpetual"
		}
		if g.FilledEpochs > 0 {
			kind += "+paid"
		}
		o.Count("state.lookup.gauge." + mx[g.Id] + "." + kind)
		if g.DistributeTo.Denom != "" {
			denomsSeen[g.DistributeTo.Denom] = true
		}
		gy, ey := y.app.IncentivesKeeper.GetGaugeByID(cy, g.Id)
		if mx[g.Id] == "F" {
			if ey == nil || my[g.Id] != "" {
				c.note("incentives.gauge-status:finished-gauge-present-after-import", fmt.Sprintf("gauge %d: finished on the exporting node, imported node lists it under %q (by id: %v)", g.Id, my[g.Id], ey == nil))
			} else {
				o.Count("import.lookup.incentives.finished-gauge-not-exported")
			}
			continue
		}
		want := gaugeStatusAt(g, now)
		if want == "F" {
			o.Count("import.lookup.incentives.exhausted-gauge-still-active-on-exporting-node")
		}
		desc := fmt.Sprintf("gauge %d (perpetual %v, filled %d of %d, start %s, import block time %s): exporting node lists it under %q, imported node under %q", g.Id, g.IsPerpetual, g.FilledEpochs, g.NumEpochsPaidOver,
			g.StartTime.UTC().Format(time.RFC3339), now.UTC().Format(time.RFC3339), mx[g.Id], my[g.Id])
		switch {
		case ey != nil:
			c.note("incentives.gauge-by-id", desc+": GetGaugeByID fails: "+ey.Error())
		case gy.String() != g.String():
			c.note("incentives.gauge-by-id", desc+": records differ: "+diffWindow(g.String(), gy.String()))
		case my[g.Id] != want:
			c.note("incentives.gauge-status", desc+", expected "+want)
		case mx[g.Id] != want:
			o.Count("import.lookup.incentives.lagging-reference-moved-by-import") // F36
		}
	}
	// gauge -> pool at the gauge's OWN duration for no-lock gauges (the lookup of x/incentives' distribution).  The export
	// carries no duration for them and the import files every link under duration 0 (F53): class of its own when exactly that
	for _, g := range all {
		if g.DistributeTo.LockQueryType != lockuptypes.NoLock || mx[g.Id] == "F" {
			continue
		}
		d := g.DistributeTo.Duration
		px, ex := x.app.PoolIncentivesKeeper.GetPoolIdFromGaugeId(cx, g.Id, d)
		py, ey := y.app.PoolIncentivesKeeper.GetPoolIdFromGaugeId(cy, g.Id, d)
		o.Count("import.lookup-compared.poolincentives.gauge-to-pool")
		o.Count("state.lookup.no-lock-gauge")
		if ans(px, ex) == ans(py, ey) {
			continue
		}
		det := fmt.Sprintf("GetPoolIdFromGaugeId(no-lock gauge %d %q, its duration %s): exporting node %s, imported node %s", g.Id, g.DistributeTo.Denom, d, ans(px, ex), ans(py, ey))
		if p0, e0 := y.app.PoolIncentivesKeeper.GetPoolIdFromGaugeId(cy, g.Id, 0); ex == nil && ey != nil && e0 == nil && p0 == px && d != 0 {
			c.note("poolincentives.gauge-to-pool:no-lock-gauge-refiled-under-duration-0", det+fmt.Sprintf("; found under duration 0: pool %d", p0))
		} else {
			c.note("poolincentives.gauge-to-pool", det)
		}
	}
	// per-denomination queries (ids as sets; the lists are rebuilt in export order)
	q := incentiveskeeper.NewQuerier(*x.app.IncentivesKeeper)
	qy := incentiveskeeper.NewQuerier(*y.app.IncentivesKeeper)
	for _, dn := range sortedAggKeys(denomsSeen) {
		for _, st := range []string{"A", "U"} {
			ids := func(qq incentiveskeeper.Querier, ctx sdk.Context) (map[uint64]bool, error) {
				out := map[uint64]bool{}
				if st == "A" {
					r, err := qq.ActiveGaugesPerDenom(ctx, &incentivestypes.ActiveGaugesPerDenomRequest{Denom: dn})
					if err != nil {
						return nil, err
					}
					for _, g := range r.Data {
						out[g.Id] = true
					}
					return out, nil
				}
				r, err := qq.UpcomingGaugesPerDenom(ctx, &incentivestypes.UpcomingGaugesPerDenomRequest{Denom: dn})
				if err != nil {
					return nil, err
				}
				for _, g := range r.UpcomingGauges {
					out[g.Id] = true
				}
				return out, nil
			}
			sx, ex := ids(q, cx)
			sy, ey := ids(qy, cy)
			o.Count("import.lookup-compared.incentives.gauges-by-denom")
			if ex != nil || ey != nil {
				if (ex == nil) != (ey == nil) {
					c.note("incentives.gauges-by-denom", fmt.Sprintf("%s gauges of %s: %v | %v", st, dn, ex, ey))
				}
				continue
			}
			// The per-denomination queries walk the status reference store and DROP every time key whose first gauge has another
			// denomination (source comment: "edge case"), so they are not complete on either node.  Checked: what the imported
			// node lists is a not-finished gauge of that denomination with the status the import has to give it, and a gauge
			// the exporting node lists under the status it keeps is still listed.
			byID := map[uint64]incentivestypes.Gauge{}
			for _, g := range all {
				byID[g.Id] = g
			}
			for id := range sy {
				g, ok := byID[id]
				want := gaugeStatusAt(g, now)
				if !ok || mx[id] == "F" || g.DistributeTo.Denom != dn || want != st {
					c.note("incentives.gauges-by-denom", fmt.Sprintf("the %s-per-denomination query of the imported node for %s lists gauge %d (known %v, status on the exporting node %q, denomination %q, expected status %s)", st, dn, id, ok, mx[id], g.DistributeTo.Denom, want))
				}
			}
			for id := range sx {
				g := byID[id]
				want := gaugeStatusAt(g, now)
				if mx[id] == st && want == st && !sy[id] {
					if sameTimeKeyOtherDenom(all, g) {
						o.Count("import.lookup.incentives.per-denom-query-drops-time-key-shared-with-another-denom")
					} else {
						c.note("incentives.gauges-by-denom", fmt.Sprintf("gauge %d of %s (status %s on both nodes): listed by the %s-per-denomination query of the exporting node, not of the imported node", id, dn, st, st))
					}
				}
			}
		}
	}
}

// sameTimeKeyOtherDenom: some other gauge shares g's start time and has another denomination (the per-denomination queries
// drop such a time key depending on the order of the ids stored under it)
func sameTimeKeyOtherDenom(all []incentivestypes.Gauge, g incentivestypes.Gauge) bool {
	for _, h := range all {
		if h.Id != g.Id && h.StartTime.Equal(g.StartTime) && h.DistributeTo.Denom != g.DistributeTo.Denom {
			return true
		}
	}
	return false
}

// gaugeStatusAt: the reference store a gauge record belongs to at block time t (written from the definitions in the
// property's text: upcoming before its start, then active while perpetual or not all epochs are paid, else finished)
func gaugeStatusAt(g incentivestypes.Gauge, t time.Time) string {
	switch {
	case t.Before(g.StartTime):
		return "U"
	case g.IsPerpetual || g.FilledEpochs < g.NumEpochsPaidOver:
		return "A"
	}
	return "F"
}
