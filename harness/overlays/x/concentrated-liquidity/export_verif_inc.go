//go:build verif

package concentrated_liquidity

import (
	sdk "github.com/cosmos/cosmos-sdk/types"

	"github.com/osmosis-labs/osmosis/osmomath"
)

// VerifIncentiveScalingFactor exposes getIncentiveScalingFactorForPool (one, or 10^27 past the migration threshold).
// Added at build time through -overlay; not part of the repo.
func (k Keeper) VerifIncentiveScalingFactor(ctx sdk.Context, poolId uint64) (osmomath.Dec, error) {
	return k.getIncentiveScalingFactorForPool(ctx, poolId)
}
