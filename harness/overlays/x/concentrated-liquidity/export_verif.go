//go:build verif

package concentrated_liquidity

import (
	sdk "github.com/cosmos/cosmos-sdk/types"

	"github.com/osmosis-labs/osmosis/osmomath"
)

// VerifSpreadGrowth exposes SwapState.updateSpreadRewardGrowthGlobal (per-step spread-reward growth per
// unit of liquidity) to the verification engines. Added at build time through -overlay; not part of the repo.
func VerifSpreadGrowth(charge, liquidity, scalingFactor osmomath.Dec) (osmomath.Dec, error) {
	ss := SwapState{
		liquidity:                                liquidity,
		globalSpreadRewardGrowthPerUnitLiquidity: osmomath.ZeroDec(),
		globalSpreadRewardGrowth:                 osmomath.ZeroDec(),
	}
	return ss.updateSpreadRewardGrowthGlobal(charge, scalingFactor)
}

// VerifPerUnitLiqScalingFactor exposes the accumulator scaling factor used after the migration threshold.
func VerifPerUnitLiqScalingFactor() osmomath.Dec { return perUnitLiqScalingFactor }

// VerifSpreadFactorScalingFactor exposes getSpreadFactorScalingFactorForPool (one, or 10^27 past the migration threshold).
func (k Keeper) VerifSpreadFactorScalingFactor(ctx sdk.Context, poolId uint64) (osmomath.Dec, error) {
	return k.getSpreadFactorScalingFactorForPool(ctx, poolId)
}
