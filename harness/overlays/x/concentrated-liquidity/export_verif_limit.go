//go:build verif

package concentrated_liquidity

import (
	sdk "github.com/cosmos/cosmos-sdk/types"

	"github.com/osmosis-labs/osmosis/osmomath"
)

// VerifComputeOutAmtGivenIn exposes computeOutAmtGivenIn (the estimate path: no accumulator update) WITH its price-limit
// parameter, which no exported function passes on. Added at build time through -overlay; not part of the repo.
func (k Keeper) VerifComputeOutAmtGivenIn(ctx sdk.Context, poolId uint64, tokenIn sdk.Coin, tokenOutDenom string,
	spreadFactor osmomath.Dec, priceLimit osmomath.BigDec) (amountIn, amountOut osmomath.Int, newSqrtPrice osmomath.BigDec, err error) {
	res, upd, err := k.computeOutAmtGivenIn(ctx, poolId, tokenIn, tokenOutDenom, spreadFactor, priceLimit, false)
	if err != nil {
		return osmomath.Int{}, osmomath.Int{}, osmomath.BigDec{}, err
	}
	return res.AmountIn, res.AmountOut, upd.NewSqrtPrice, nil
}
