//go:build verif

package poolmanager

// Added to /repo's x/poolmanager package at build time by the verification harness (never part of /repo):
// the unexported store writers the `pm` / `router` engines (property C19, export/import of the poolmanager store) drive.

import (
	sdk "github.com/cosmos/cosmos-sdk/types"

	"github.com/osmosis-labs/osmosis/osmomath"
	"github.com/osmosis-labs/osmosis/v31/x/poolmanager/types"
)

// addVolume (router.go): what trackVolume writes once the OSMO-denominated volume of a swap is known.
func (k Keeper) VerifAddVolume(ctx sdk.Context, poolId uint64, volumeGenerated sdk.Coin) {
	k.addVolume(ctx, poolId, volumeGenerated)
}

// increaseTakerFeeShareDenomsToAccruedValue (store.go): the write of TakerFeeSkim.
func (k Keeper) VerifIncreaseAccrued(ctx sdk.Context, takerFeeShareDenom, takerFeeChargedDenom string, x osmomath.Int) error {
	return k.increaseTakerFeeShareDenomsToAccruedValue(ctx, takerFeeShareDenom, takerFeeChargedDenom, x)
}

// setRegisteredAlloyedPool (store.go): the keeper call of MsgSetRegisteredAlloyedPool.
func (k *Keeper) VerifSetRegisteredAlloyedPool(ctx sdk.Context, poolId uint64) error {
	return k.setRegisteredAlloyedPool(ctx, poolId)
}

// VerifRestartShareCaches: what a node that starts on this store does with the two in-memory maps — they are empty after NewKeeper and
// the first BeginBlock fills them from the store (keeper.go BeginBlock).  The test app keeps one keeper for all histories, so the
// engines call this at the start of a history and after an import.
func (k *Keeper) VerifRestartShareCaches(ctx sdk.Context) {
	k.cachedTakerFeeShareAgreementMap = make(map[string]types.TakerFeeShareAgreement)
	k.cachedRegisteredAlloyPoolByAlloyDenomMap = make(map[string]types.AlloyContractTakerFeeShareState)
	k.BeginBlock(ctx)
}
